/-
  The instruction iterator against the canonical encoding (EV.Model.Script / ScriptSpec):
  `next` on `encInstr i ++ rest`, `collect` on `serialize is`, the non-minimal branch, and the
  minimality of the push header with respect to the decoder.
-/
import EV.Model.ScriptSpec
import EV.Proofs.CodecPrim
namespace EV.Proofs.ScriptIter
open EV EV.Script EV.Gen EV.Proofs.CodecPrim

theorem ofNat_toNat_lt {n : Nat} (h : n < 256) : (UInt8.ofNat n).toNat = n := by
  rw [UInt8.toNat_ofNat']; omega

theorem u8_eq_of_toNat {a b : UInt8} (h : a.toNat = b.toNat) : a = b := UInt8.toNat_inj.mp h

theorem u8_ne_of_toNat {a b : UInt8} (h : a.toNat ≠ b.toNat) : a ≠ b := fun e => h (by rw [e])

/-- the header written for `n` data bytes -/
theorem pushHeader_cases (n : Nat) :
    (n < 76 ∧ pushHeader n = some [UInt8.ofNat n]) ∨
    (76 ≤ n ∧ n < 0x100 ∧ pushHeader n = some [opPushdata1, UInt8.ofNat n]) ∨
    (0x100 ≤ n ∧ n < 0x10000 ∧ pushHeader n = some [opPushdata2, UInt8.ofNat (n % 0x100), UInt8.ofNat (n / 0x100)]) ∨
    (0x10000 ≤ n ∧ n < 0x100000000 ∧ pushHeader n =
        some [opPushdata4, UInt8.ofNat (n % 0x100), UInt8.ofNat ((n / 0x100) % 0x100),
              UInt8.ofNat ((n / 0x10000) % 0x100), UInt8.ofNat (n / 0x1000000)]) ∨
    (0x100000000 ≤ n ∧ pushHeader n = none) := by
  have h76 : opPushdata1.toNat = 76 := by decide
  unfold pushHeader
  rw [h76]
  by_cases h1 : n < 76
  · left; simp [h1]
  · right
    by_cases h2 : n < 0x100
    · left; simp [h1, h2]; omega
    · right
      by_cases h3 : n < 0x10000
      · left; simp [h1, h2, h3]; omega
      · right
        by_cases h4 : n < 0x100000000
        · left; simp [h1, h2, h3, h4]; omega
        · right; simp [h1, h2, h3, h4]; omega

theorem pushHeader_some {n : Nat} (h : n < 2 ^ 32) : ∃ hd, pushHeader n = some hd ∧ hd ≠ [] := by
  rcases pushHeader_cases n with ⟨_, e⟩ | ⟨_, _, e⟩ | ⟨_, _, e⟩ | ⟨_, _, e⟩ | ⟨h5, _⟩
  · exact ⟨_, e, by simp⟩
  · exact ⟨_, e, by simp⟩
  · exact ⟨_, e, by simp⟩
  · exact ⟨_, e, by simp⟩
  · omega

theorem encInstr_ne_nil (i : Instr) (h : i.wf) : encInstr i ≠ [] := by
  cases i with
  | push d =>
    obtain ⟨hd, e, hne⟩ := pushHeader_some (n := d.length) h
    simp [encInstr, e, hne]
  | op c => simp [encInstr]

private theorem readUint_ok (tl : Bytes) (k : Nat) (hk : k ≤ 8) (hl : k ≤ tl.length) :
    readUint tl k = .ok (leNat (tl.take k)) := by
  unfold readUint
  have h1 : ¬ tl.length < k := by omega
  have h2 : ¬ k > 8 := by omega
  simp [h1, h2]

/-- reading back one canonically encoded instruction -/
theorem next_enc (min : Bool) (i : Instr) (rest : Bytes) (hwf : i.wf) (hmin : min = true → i.bip62) :
    next min (encInstr i ++ rest) = .item i rest := by
  cases i with
  | op c =>
    have hc : opPushdata4.toNat < c.toNat := UInt8.lt_iff_toNat_lt.mp hwf
    have e4 : opPushdata4.toNat = 78 := by decide
    have n0 : ¬ c ≤ opPushbytes75 := by
      intro h; have := UInt8.le_iff_toNat_le.mp h
      have e : opPushbytes75.toNat = 75 := by decide
      omega
    have n1 : (c == opPushdata1) = false := by
      apply beq_false_of_ne; apply u8_ne_of_toNat
      have e : opPushdata1.toNat = 76 := by decide
      omega
    have n2 : (c == opPushdata2) = false := by
      apply beq_false_of_ne; apply u8_ne_of_toNat
      have e : opPushdata2.toNat = 77 := by decide
      omega
    have n3 : (c == opPushdata4) = false := by
      apply beq_false_of_ne; apply u8_ne_of_toNat; omega
    simp [encInstr, next, n0, n1, n2, n3]
  | push d =>
    have hlen : d.length < 2 ^ 32 := hwf
    rcases pushHeader_cases d.length with ⟨h1, e⟩ | ⟨h1, h2, e⟩ | ⟨h1, h2, e⟩ | ⟨h1, h2, e⟩ | ⟨h5, _⟩
    · -- direct push
      have hb : (UInt8.ofNat d.length).toNat = d.length := ofNat_toNat_lt (by omega)
      have c0 : UInt8.ofNat d.length ≤ opPushbytes75 := by
        apply UInt8.le_iff_toNat_le.mpr
        have e : opPushbytes75.toNat = 75 := by decide
        omega
      have hmin' : (min && d.length == 1 && smallNumByte ((d ++ rest).getD 0 0)) = false := by
        cases min with
        | false => simp
        | true =>
          by_cases h1' : d.length = 1
          · match d, h1' with
            | [b], _ =>
              have := hmin rfl b rfl
              simp [this]
          · simp [h1']
      simp only [encInstr, e, Option.getD_some, List.cons_append, List.nil_append, next, c0, if_true, hb,
        List.length_cons, List.length_append]
      rw [hmin']
      have hl : ¬ (d.length + rest.length + 1 < d.length + 1) := by omega
      simp [hl, List.take_left' rfl, List.drop_left' rfl]
    · -- PUSHDATA1
      have hb : (UInt8.ofNat d.length).toNat = d.length := ofNat_toNat_lt (by omega)
      have n0 : ¬ opPushdata1 ≤ opPushbytes75 := by decide
      have hr : readUint (UInt8.ofNat d.length :: (d ++ rest)) 1 = .ok d.length := by
        rw [readUint_ok _ 1 (by omega) (by simp)]
        simp [leNat, hb]
      have hm : (min && decide (d.length < 76)) = false := by
        have : ¬ d.length < 76 := by omega
        simp [this]
      simp only [encInstr, e, Option.getD_some, List.cons_append, List.nil_append, next, n0, if_false,
        beq_self_eq_true, if_true, hr, List.length_cons, List.length_append]
      rw [hm]
      have hl1 : ¬ (d.length + rest.length + 1 + 1 < 2) := by omega
      have hl2 : ¬ (d.length + rest.length + 1 + 1 < d.length + 2) := by omega
      simp [hl1, hl2, List.take_left' rfl, List.drop_left' rfl]
    · -- PUSHDATA2
      have n0 : ¬ opPushdata2 ≤ opPushbytes75 := by decide
      have n1 : (opPushdata2 == opPushdata1) = false := by decide
      have hb1 : (UInt8.ofNat (d.length % 0x100)).toNat = d.length % 0x100 := ofNat_toNat_lt (by omega)
      have hb2 : (UInt8.ofNat (d.length / 0x100)).toNat = d.length / 0x100 := ofNat_toNat_lt (by omega)
      have hr : readUint (UInt8.ofNat (d.length % 0x100) :: UInt8.ofNat (d.length / 0x100) :: (d ++ rest)) 2 = .ok d.length := by
        rw [readUint_ok _ 2 (by omega) (by simp)]
        simp only [List.take_succ_cons, List.take_zero, leNat, hb1, hb2]
        congr 1; omega
      have hm : (min && decide (d.length < 0x100)) = false := by
        have : ¬ d.length < 0x100 := by omega
        simp [this]
      simp only [encInstr, e, Option.getD_some, List.cons_append, List.nil_append, next, n0, if_false, n1,
        beq_self_eq_true, if_true, hr, List.length_cons, List.length_append]
      rw [hm]
      have hl1 : ¬ (d.length + rest.length + 1 + 1 + 1 < 3) := by omega
      have hl2 : ¬ (d.length + rest.length + 1 + 1 + 1 < d.length + 3) := by omega
      simp [hl1, hl2, List.take_left' rfl, List.drop_left' rfl]
    · -- PUSHDATA4
      have n0 : ¬ opPushdata4 ≤ opPushbytes75 := by decide
      have n1 : (opPushdata4 == opPushdata1) = false := by decide
      have n2 : (opPushdata4 == opPushdata2) = false := by decide
      have hb1 : (UInt8.ofNat (d.length % 0x100)).toNat = d.length % 0x100 := ofNat_toNat_lt (by omega)
      have hb2 : (UInt8.ofNat (d.length / 0x100 % 0x100)).toNat = d.length / 0x100 % 0x100 := ofNat_toNat_lt (by omega)
      have hb3 : (UInt8.ofNat (d.length / 0x10000 % 0x100)).toNat = d.length / 0x10000 % 0x100 := ofNat_toNat_lt (by omega)
      have hb4 : (UInt8.ofNat (d.length / 0x1000000)).toNat = d.length / 0x1000000 := ofNat_toNat_lt (by omega)
      have hr : readUint (UInt8.ofNat (d.length % 0x100) :: UInt8.ofNat (d.length / 0x100 % 0x100) ::
          UInt8.ofNat (d.length / 0x10000 % 0x100) :: UInt8.ofNat (d.length / 0x1000000) :: (d ++ rest)) 4 = .ok d.length := by
        rw [readUint_ok _ 4 (by omega) (by simp)]
        simp only [List.take_succ_cons, List.take_zero, leNat, hb1, hb2, hb3, hb4]
        congr 1; omega
      have hm : (min && decide (d.length < 0x10000)) = false := by
        have : ¬ d.length < 0x10000 := by omega
        simp [this]
      simp only [encInstr, e, Option.getD_some, List.cons_append, List.nil_append, next, n0, if_false, n1, n2,
        beq_self_eq_true, if_true, hr, List.length_cons, List.length_append]
      rw [hm]
      have hl1 : ¬ (d.length + rest.length + 1 + 1 + 1 + 1 + 1 < 5) := by omega
      have hl2 : ¬ (d.length + rest.length + 1 + 1 + 1 + 1 + 1 < d.length + 5) := by omega
      simp [hl1, hl2, List.take_left' rfl, List.drop_left' rfl]
    · omega


theorem serialize_append (xs ys : List Instr) : serialize (xs ++ ys) = serialize xs ++ serialize ys := by
  induction xs with
  | nil => rfl
  | cons x xs ih => simp [serialize, ih]

theorem serialize_singleton (i : Instr) : serialize [i] = encInstr i := by simp [serialize]

/-- iterating a canonical encoding yields the instruction list and no error -/
theorem collect_serialize_nil (min : Bool) (is : List Instr) :
    (∀ i ∈ is, i.wf) → (min = true → ∀ i ∈ is, i.bip62) →
    ∀ f, (serialize is).length ≤ f → collect min f (serialize is) = (is, none) := by
  induction is with
  | nil =>
    intro _ _ f _
    cases f <;> simp [serialize, collect, next]
  | cons i is ih =>
    intro hwf hmin f hf
    have hi : i.wf := hwf i (by simp)
    have hne := encInstr_ne_nil i hi
    have hlen : 0 < (encInstr i).length := List.length_pos_iff.mpr hne
    simp only [serialize, List.length_append] at hf
    cases f with
    | zero => omega
    | succ f =>
      have hn := next_enc min i (serialize is) hi (fun h => hmin h i (by simp))
      have ih' := ih (fun j hj => hwf j (by simp [hj])) (fun h j hj => hmin h j (by simp [hj])) f (by omega)
      simp only [serialize, collect, hn, ih']

/-- the excluded branch: the first one-byte small-number push stops `instructions_minimal` with
    `NonMinimalPush`; everything before it has been yielded -/
theorem next_small_push (b : UInt8) (rest : Bytes) (hb : smallNumByte b = true) :
    next true (encInstr (.push [b]) ++ rest) = .fail .nonMinimal := by
  have c0 : (1 : UInt8) ≤ opPushbytes75 := by decide
  have e : pushHeader 1 = some [1] := by decide
  simp [encInstr, e, next, c0, hb]

theorem collect_serialize_small (pre post : List Instr) (b : UInt8) (hb : smallNumByte b = true) :
    (∀ i ∈ pre, i.wf) → (∀ i ∈ pre, i.bip62) →
    ∀ f, (serialize (pre ++ .push [b] :: post)).length ≤ f →
      collect true f (serialize (pre ++ .push [b] :: post)) = (pre, some .nonMinimal) := by
  induction pre with
  | nil =>
    intro _ _ f hf
    have hn := next_small_push b (serialize post) hb
    cases f with
    | zero =>
      have e : pushHeader 1 = some [1] := by decide
      simp [serialize, encInstr, e] at hf
    | succ f => simp only [List.nil_append, serialize, collect, hn]
  | cons i is ih =>
    intro hwf hmin f hf
    have hi : i.wf := hwf i (by simp)
    have hne := encInstr_ne_nil i hi
    have hlen : 0 < (encInstr i).length := List.length_pos_iff.mpr hne
    simp only [List.cons_append, serialize, List.length_append] at hf
    cases f with
    | zero => omega
    | succ f =>
      have hn := next_enc true i (serialize (is ++ .push [b] :: post)) hi (fun _ => hmin i (by simp))
      have ih' := ih (fun j hj => hwf j (by simp [hj])) (fun j hj => hmin j (by simp [hj])) f (by omega)
      simp only [List.cons_append, serialize, collect, hn, ih']


/-! ## soundness of `next`: what a yielded item says about the bytes -/

private theorem readUint_ok_inv {tl : Bytes} {k n : Nat} (h : readUint tl k = .ok n) :
    n = leNat (tl.take k) ∧ k ≤ tl.length := by
  unfold readUint at h
  split at h
  · cases h
  · split at h
    · cases h
    · cases h; exact ⟨rfl, by omega⟩

theorem next_op_shape {min : Bool} {s : Bytes} {c : UInt8} {rest : Bytes}
    (h : next min s = .item (.op c) rest) : s = c :: rest ∧ opPushdata4 < c := by
  unfold next at h
  match s, h with
  | b :: tl, h =>
    simp only at h
    split at h
    · split at h
      · cases h
      · split at h <;> cases h
    · rename_i n0
      split at h
      · split at h
        · cases h
        · split at h
          · split at h
            · cases h
            · split at h <;> cases h
          · cases h
      · rename_i n1
        split at h
        · split at h
          · cases h
          · split at h
            · split at h
              · cases h
              · split at h <;> cases h
            · cases h
        · rename_i n2
          split at h
          · split at h
            · cases h
            · split at h
              · split at h
                · cases h
                · split at h <;> cases h
              · cases h
          · rename_i n3
            cases h
            refine ⟨rfl, ?_⟩
            apply UInt8.lt_iff_toNat_lt.mpr
            have e0 : opPushbytes75.toNat = 75 := by decide
            have e1 : opPushdata1.toNat = 76 := by decide
            have e2 : opPushdata2.toNat = 77 := by decide
            have e4 : opPushdata4.toNat = 78 := by decide
            have a0 : ¬ c.toNat ≤ 75 := fun hh => n0 (UInt8.le_iff_toNat_le.mpr (by omega))
            have a1 : c.toNat ≠ 76 := fun hh => n1 (by rw [beq_iff_eq]; exact u8_eq_of_toNat (by omega))
            have a2 : c.toNat ≠ 77 := fun hh => n2 (by rw [beq_iff_eq]; exact u8_eq_of_toNat (by omega))
            have a3 : c.toNat ≠ 78 := fun hh => n3 (by rw [beq_iff_eq]; exact u8_eq_of_toNat (by omega))
            omega


theorem pushHeader_small {n : Nat} (h : n < 76) : pushHeader n = some [UInt8.ofNat n] := by
  rcases pushHeader_cases n with ⟨_, e⟩ | ⟨_, _, _⟩ | ⟨_, _, _⟩ | ⟨_, _, _⟩ | ⟨_, _⟩ <;> first | exact e | omega

private theorem pushHeader_len_le (n k : Nat) (hd : Bytes) (h : pushHeader n = some hd) :
    (n < 0x100 → 2 ≤ k → hd.length ≤ k) ∧ (n < 0x10000 → 3 ≤ k → hd.length ≤ k) ∧ (n < 0x100000000 → 5 ≤ k → hd.length ≤ k) := by
  rcases pushHeader_cases n with ⟨_, e⟩ | ⟨_, _, e⟩ | ⟨_, _, e⟩ | ⟨_, _, e⟩ | ⟨_, e⟩ <;>
    (rw [e] at h; first | (cases h; simp; omega) | cases h)

theorem next_push_shape {min : Bool} {s d rest : Bytes} (h : next min s = .item (.push d) rest) :
    ∃ hdr hd, s = hdr ++ d ++ rest ∧ pushHeader d.length = some hd ∧ hd.length ≤ hdr.length ∧
      (min = true → hdr = hd ∧ Instr.bip62 (.push d)) := by
  have e0 : opPushbytes75.toNat = 75 := by decide
  match s, h with
  | b :: tl, h =>
    by_cases c0 : b ≤ opPushbytes75
    · have hb : b.toNat ≤ 75 := by have := UInt8.le_iff_toNat_le.mp c0; omega
      simp only [next, c0, if_true] at h
      by_cases hl : (b :: tl).length < b.toNat + 1
      · rw [if_pos hl] at h; cases h
      · rw [if_neg hl] at h
        by_cases hm : (min && b.toNat == 1 && smallNumByte (tl.getD 0 0)) = true
        · rw [if_pos hm] at h; cases h
        · rw [if_neg hm] at h
          simp only [Step.item.injEq, Instr.push.injEq] at h
          obtain ⟨rfl, rfl⟩ := h
          simp only [List.length_cons] at hl
          have hlen : (List.take b.toNat tl).length = b.toNat := by rw [List.length_take]; omega
          refine ⟨[b], [b], by simp, ?_, Nat.le_refl _, ?_⟩
          · rw [hlen, pushHeader_small (by omega), UInt8.ofNat_toNat]
          · intro hmin
            refine ⟨rfl, ?_⟩
            intro x hx
            have h1 : b.toNat = 1 := by rw [← hlen, hx]; rfl
            match tl, hx with
            | [], hx => simp at hx
            | y :: tl', hx =>
              rw [h1] at hx
              simp only [List.take_succ_cons, List.take_zero, List.cons.injEq, and_true] at hx
              subst hx
              simp only [hmin, h1, List.getD_cons_zero, beq_self_eq_true, Bool.true_and, Bool.not_eq_true] at hm
              exact hm
    · by_cases c1 : (b == opPushdata1) = true
      · simp only [next, c0, if_false, c1, if_true] at h
        by_cases hl : (b :: tl).length < 2
        · rw [if_pos hl] at h; cases h
        · rw [if_neg hl] at h
          match tl, h, hl with
          | x :: tl', h, hl =>
            have hr : readUint (x :: tl') 1 = .ok x.toNat := by
              rw [readUint_ok _ 1 (by omega) (by simp)]; simp [leNat]
            simp only [hr] at h
            by_cases hl2 : (b :: x :: tl').length < x.toNat + 2
            · rw [if_pos hl2] at h; cases h
            · rw [if_neg hl2] at h
              by_cases hm : (min && decide (x.toNat < 76)) = true
              · rw [if_pos hm] at h; cases h
              · rw [if_neg hm] at h
                simp only [Step.item.injEq, Instr.push.injEq, List.drop_succ_cons, List.drop_zero] at h
                obtain ⟨rfl, rfl⟩ := h
                simp only [List.length_cons] at hl2
                have hlen : (List.take x.toNat tl').length = x.toNat := by rw [List.length_take]; omega
                have hx := UInt8.toNat_lt x
                obtain ⟨hd, ehd, _⟩ := pushHeader_some (n := x.toNat) (by omega)
                refine ⟨[b, x], hd, by simp, by rw [hlen]; exact ehd, ?_, ?_⟩
                · exact (pushHeader_len_le _ 2 hd ehd).1 (by omega) (Nat.le_refl _)
                · intro hmin
                  simp only [hmin, Bool.true_and, decide_eq_true_eq] at hm
                  refine ⟨?_, ?_⟩
                  · rcases pushHeader_cases x.toNat with ⟨_, _⟩ | ⟨_, _, e⟩ | ⟨_, _, _⟩ | ⟨_, _, _⟩ | ⟨_, _⟩
                    · omega
                    · rw [e] at ehd; cases ehd
                      rw [UInt8.ofNat_toNat, beq_iff_eq.mp c1]
                    all_goals omega
                  · intro y hy
                    have : x.toNat = 1 := by rw [← hlen, hy]; rfl
                    omega
      · by_cases c2 : (b == opPushdata2) = true
        · simp only [next, c0, if_false, c1, c2, if_true] at h
          by_cases hl : (b :: tl).length < 3
          · rw [if_pos hl] at h; cases h
          · rw [if_neg hl] at h
            match tl, h, hl with
            | [_], _, hl => simp at hl
            | x :: y :: tl', h, hl =>
              have hr : readUint (x :: y :: tl') 2 = .ok (x.toNat + 256 * y.toNat) := by
                rw [readUint_ok _ 2 (by omega) (by simp)]; simp [leNat]
              simp only [hr] at h
              by_cases hm : (min && decide (x.toNat + 256 * y.toNat < 0x100)) = true
              · rw [if_pos hm] at h; cases h
              · rw [if_neg hm] at h
                by_cases hl2 : (b :: x :: y :: tl').length < x.toNat + 256 * y.toNat + 3
                · rw [if_pos hl2] at h; cases h
                · rw [if_neg hl2] at h
                  simp only [List.drop_succ_cons, List.drop_zero] at h
                  obtain ⟨rfl, rfl⟩ := h
                  simp only [List.length_cons] at hl2
                  have hlen : (List.take (x.toNat + 256 * y.toNat) tl').length = x.toNat + 256 * y.toNat := by
                    rw [List.length_take]; omega
                  have hx := UInt8.toNat_lt x
                  have hy := UInt8.toNat_lt y
                  obtain ⟨hd, ehd, _⟩ := pushHeader_some (n := x.toNat + 256 * y.toNat) (by omega)
                  refine ⟨[b, x, y], hd, by simp, by rw [hlen]; exact ehd, ?_, ?_⟩
                  · exact (pushHeader_len_le _ 3 hd ehd).2.1 (by omega) (Nat.le_refl _)
                  · intro hmin
                    simp only [hmin, Bool.true_and, decide_eq_true_eq] at hm
                    refine ⟨?_, ?_⟩
                    · rcases pushHeader_cases (x.toNat + 256 * y.toNat) with ⟨_, _⟩ | ⟨_, _, _⟩ | ⟨_, _, e⟩ | ⟨_, _, _⟩ | ⟨_, _⟩
                      · omega
                      · omega
                      · rw [e] at ehd; cases ehd
                        have h1 : (x.toNat + 256 * y.toNat) % 256 = x.toNat := by omega
                        have h2 : (x.toNat + 256 * y.toNat) / 256 = y.toNat := by omega
                        rw [h1, h2, UInt8.ofNat_toNat, UInt8.ofNat_toNat, beq_iff_eq.mp c2]
                      all_goals omega
                    · intro z hz
                      have : x.toNat + 256 * y.toNat = 1 := by rw [← hlen, hz]; rfl
                      omega
        · by_cases c3 : (b == opPushdata4) = true
          · simp only [next, c0, if_false, c1, c2, c3, if_true] at h
            by_cases hl : (b :: tl).length < 5
            · rw [if_pos hl] at h; cases h
            · rw [if_neg hl] at h
              match tl, h, hl with
              | [_], _, hl => simp at hl
              | [_, _], _, hl => simp at hl
              | [_, _, _], _, hl => simp at hl
              | x :: y :: z :: w :: tl', h, hl =>
                have hr : readUint (x :: y :: z :: w :: tl') 4 =
                    .ok (x.toNat + 256 * (y.toNat + 256 * (z.toNat + 256 * w.toNat))) := by
                  rw [readUint_ok _ 4 (by omega) (by simp)]; simp [leNat]
                simp only [hr] at h
                generalize hn : x.toNat + 256 * (y.toNat + 256 * (z.toNat + 256 * w.toNat)) = n at h
                by_cases hm : (min && decide (n < 0x10000)) = true
                · rw [if_pos hm] at h; cases h
                · rw [if_neg hm] at h
                  by_cases hl2 : (b :: x :: y :: z :: w :: tl').length < n + 5
                  · rw [if_pos hl2] at h; cases h
                  · rw [if_neg hl2] at h
                    simp only [List.drop_succ_cons, List.drop_zero] at h
                    obtain ⟨rfl, rfl⟩ := h
                    simp only [List.length_cons] at hl2
                    have hlen : (List.take n tl').length = n := by rw [List.length_take]; omega
                    have hx := UInt8.toNat_lt x
                    have hy := UInt8.toNat_lt y
                    have hz := UInt8.toNat_lt z
                    have hw := UInt8.toNat_lt w
                    obtain ⟨hd, ehd, _⟩ := pushHeader_some (n := n) (by omega)
                    refine ⟨[b, x, y, z, w], hd, by simp, by rw [hlen]; exact ehd, ?_, ?_⟩
                    · exact (pushHeader_len_le _ 5 hd ehd).2.2 (by omega) (Nat.le_refl _)
                    · intro hmin
                      simp only [hmin, Bool.true_and, decide_eq_true_eq] at hm
                      refine ⟨?_, ?_⟩
                      · rcases pushHeader_cases n with ⟨_, _⟩ | ⟨_, _, _⟩ | ⟨_, _, _⟩ | ⟨_, _, e⟩ | ⟨_, _⟩
                        · omega
                        · omega
                        · omega
                        · rw [e] at ehd; cases ehd
                          have h1 : n % 256 = x.toNat := by omega
                          have h2 : n / 256 % 256 = y.toNat := by omega
                          have h3 : n / 65536 % 256 = z.toNat := by omega
                          have h4 : n / 16777216 = w.toNat := by omega
                          rw [h1, h2, h3, h4, UInt8.ofNat_toNat, UInt8.ofNat_toNat, UInt8.ofNat_toNat,
                            UInt8.ofNat_toNat, beq_iff_eq.mp c3]
                        · omega
                      · intro v hv
                        have : n = 1 := by rw [← hlen, hv]; rfl
                        omega
          · simp only [next, c0, if_false, c1, c2, c3] at h
            cases h


theorem pushHeader_some_lt {n : Nat} {hd : Bytes} (h : pushHeader n = some hd) : n < 2 ^ 32 := by
  rcases pushHeader_cases n with ⟨_, _⟩ | ⟨_, _, _⟩ | ⟨_, _, _⟩ | ⟨_, _, _⟩ | ⟨_, e⟩
  · omega
  · omega
  · omega
  · omega
  · rw [e] at h; cases h

/-- under minimality enforcement a yielded item determines the bytes: they are the canonical encoding -/
theorem next_min_sound {s : Bytes} {i : Instr} {rest : Bytes} (h : next true s = .item i rest) :
    s = encInstr i ++ rest ∧ i.wf ∧ i.bip62 := by
  cases i with
  | op c =>
    obtain ⟨e, hc⟩ := next_op_shape h
    exact ⟨by simp [encInstr, e], hc, trivial⟩
  | push d =>
    obtain ⟨hdr, hd, e, ehd, _, hmin⟩ := next_push_shape h
    obtain ⟨rfl, hb⟩ := hmin rfl
    exact ⟨by simp [encInstr, ehd, e], pushHeader_some_lt ehd, hb⟩

theorem next_done {min : Bool} {s : Bytes} (h : next min s = .done) : s = [] := by
  cases s with
  | nil => rfl
  | cons b tl =>
    exfalso
    unfold next at h
    simp only at h
    repeat' split at h
    all_goals cases h

/-- converse of `collect_serialize_nil` for the minimal iterator: a script that iterates without error
    under minimality enforcement *is* the canonical encoding of what it yields -/
theorem collect_min_sound (f : Nat) : ∀ (s : Bytes) (is : List Instr), s.length ≤ f →
    collect true f s = (is, none) → s = serialize is ∧ (∀ i ∈ is, i.wf) ∧ (∀ i ∈ is, i.bip62) := by
  induction f with
  | zero =>
    intro s is hl h
    have : s = [] := List.eq_nil_of_length_eq_zero (by omega)
    subst this
    simp only [collect, Prod.mk.injEq] at h
    obtain ⟨rfl, _⟩ := h
    simp [serialize]
  | succ f ih =>
    intro s is hl h
    simp only [collect] at h
    cases hn : next true s with
    | done =>
      rw [hn] at h
      simp only [Prod.mk.injEq] at h
      obtain ⟨rfl, _⟩ := h
      simp [serialize, next_done hn]
    | fail e => rw [hn] at h; simp at h
    | item i rest =>
      rw [hn] at h
      simp only [Prod.mk.injEq] at h
      obtain ⟨rfl, h2⟩ := h
      obtain ⟨e, hw, hb⟩ := next_min_sound hn
      have hne := encInstr_ne_nil i hw
      have hlen : 0 < (encInstr i).length := List.length_pos_iff.mpr hne
      have hl' : rest.length ≤ f := by rw [e, List.length_append] at hl; omega
      obtain ⟨e', hw', hb'⟩ := ih rest (collect true f rest).1 hl' (by rw [← h2])
      refine ⟨by rw [serialize, ← e', ← e], ?_, ?_⟩
      · intro j hj
        rcases List.mem_cons.mp hj with rfl | hj
        · exact hw
        · exact hw' j hj
      · intro j hj
        rcases List.mem_cons.mp hj with rfl | hj
        · exact hb
        · exact hb' j hj

/-- the decoder-relative minimality of the builder's push header: whatever bytes the iterator reads
    as "push `d`, continue with `rest`" are at least as long as header + data written by `push_slice` -/
theorem push_header_shortest {min : Bool} {s d rest hd : Bytes} (h : next min s = .item (.push d) rest)
    (hh : pushHeader d.length = some hd) : hd.length + d.length + rest.length ≤ s.length := by
  obtain ⟨hdr, hd', e, ehd, hle, _⟩ := next_push_shape h
  rw [hh] at ehd; cases ehd
  rw [e]; simp only [List.length_append]; omega

end EV.Proofs.ScriptIter
