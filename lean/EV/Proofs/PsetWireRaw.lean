/-
  Laws of the raw PSET key-value framing (EV.Model.PsetWire: `decKey`, `decPairs`, `decMapRaw`,
  proprietary keys).  The framing is a lawful codec: it accepts exactly the canonical encodings
  (the compact sizes must be minimal), is prefix-free and never panics.
-/
import EV.Model.PsetWire
import EV.Proofs.CodecPrim
namespace EV.Proofs.PsetWireRaw
open EV EV.Codec EV.PsetWire EV.Proofs.CodecPrim

/-- the sizes the decoder enforces (`MAX_VEC_SIZE` on key data and value) -/
def PairOk (p : Pair) : Prop := p.1.key.length ≤ maxVecSize ∧ p.2.length ≤ maxVecSize

theorem maxVecSize_lt : maxVecSize + 1 < 2 ^ 64 := by decide

theorem decKey_encKey (k : RawKey) (r : Bytes) (h : k.key.length ≤ maxVecSize) :
    decKey (encKey k ++ r) = .ok (some k, r) := by
  have hlt : k.key.length + 1 < 2 ^ 64 := by have := maxVecSize_lt; omega
  have hc := varint_lawful.complete (k.key.length + 1) (k.ty :: (k.key ++ r)) hlt
  have hn : ¬ (k.key.length > maxVecSize) := by omega
  simp only [decKey, encKey, List.append_assoc, List.cons_append, hc, Nat.add_one_ne_zero, if_false,
    Nat.add_sub_cancel, (take_lawful k.key.length).complete k.key r rfl, if_neg hn]

theorem decKey_zero (r : Bytes) : decKey (0 :: r) = .ok (none, r) := by
  have hc := varint_lawful.complete 0 r (by decide)
  have e : encVarint 0 ++ r = 0 :: r := rfl
  rw [e] at hc
  simp only [decKey, hc, if_true]

theorem decKey_total (bs : Bytes) (s : String) : decKey bs ≠ .panic s := by
  intro h
  simp only [decKey] at h
  cases hv : varint bs with
  | ok p =>
    obtain ⟨n, r⟩ := p
    rw [hv] at h
    simp only at h
    split at h
    · cases h
    · split at h
      · cases h
      · cases r with
        | nil => cases h
        | cons t r' =>
          simp only at h
          cases ht : take (n - 1) r' with
          | ok q => rw [ht] at h; cases h
          | err e => rw [ht] at h; cases h
          | panic s' => exact (take_lawful _).total _ _ ht
  | err e => rw [hv] at h; cases h
  | panic s' => exact varint_lawful.total _ _ hv

theorem decKey_some_sound (bs : Bytes) (k : RawKey) (r : Bytes) (h : decKey bs = .ok (some k, r)) :
    bs = encKey k ++ r ∧ k.key.length ≤ maxVecSize := by
  simp only [decKey] at h
  cases hv : varint bs with
  | ok p =>
    obtain ⟨n, r1⟩ := p
    rw [hv] at h
    simp only at h
    split at h
    · cases h
    · rename_i hn0
      split at h
      · cases h
      · rename_i hmax
        cases r1 with
        | nil => cases h
        | cons t r' =>
          simp only at h
          cases ht : take (n - 1) r' with
          | ok q =>
            obtain ⟨kk, r''⟩ := q
            rw [ht] at h
            simp only [Res.ok.injEq, Prod.mk.injEq, Option.some.injEq] at h
            obtain ⟨rfl, rfl⟩ := h
            obtain ⟨h1, _⟩ := varint_lawful.sound _ _ _ hv
            obtain ⟨h2, h3⟩ := (take_lawful _).sound _ _ _ ht
            refine ⟨?_, by simp only; omega⟩
            simp only [encKey, List.append_assoc, List.cons_append]
            have : kk.length + 1 = n := by omega
            rw [this, h1, h2]
          | err e => rw [ht] at h; cases h
          | panic s' => rw [ht] at h; cases h
  | err e => rw [hv] at h; cases h
  | panic s' => rw [hv] at h; cases h

theorem decKey_none_sound (bs r : Bytes) (h : decKey bs = .ok (none, r)) : bs = 0 :: r := by
  simp only [decKey] at h
  cases hv : varint bs with
  | ok p =>
    obtain ⟨n, r1⟩ := p
    rw [hv] at h
    simp only at h
    split at h
    · rename_i hn0
      simp only [Res.ok.injEq, Prod.mk.injEq, true_and] at h
      subst h
      subst hn0
      obtain ⟨h1, _⟩ := varint_lawful.sound _ _ _ hv
      rw [h1]
      rfl
    · split at h
      · cases h
      · cases r1 with
        | nil => cases h
        | cons t r' =>
          simp only at h
          cases ht : take (n - 1) r' with
          | ok q => rw [ht] at h; cases h
          | err e => rw [ht] at h; cases h
          | panic s' => rw [ht] at h; cases h
  | err e => rw [hv] at h; cases h
  | panic s' => rw [hv] at h; cases h

theorem encPairs_cons (p : Pair) (ps : List Pair) : encPairs (p :: ps) = encKey p.1 ++ (encBytesVec p.2 ++ encPairs ps) := by
  simp only [encPairs, List.flatMap_cons, encPair, List.append_assoc]

theorem encPairs_nil : encPairs [] = [0] := rfl

/-- completeness of the pair loop: any fuel above the number of pairs suffices -/
theorem decPairs_complete (ps : List Pair) (hok : ∀ p ∈ ps, PairOk p) :
    ∀ (fuel : Nat) (r : Bytes), ps.length < fuel → decPairs fuel (encPairs ps ++ r) = .ok (ps, r) := by
  induction ps with
  | nil =>
    intro fuel r hf
    cases fuel with
    | zero => omega
    | succ f =>
      simp only [encPairs_nil, decPairs]
      have : ([0] : Bytes) ++ r = 0 :: r := rfl
      rw [this, decKey_zero]
  | cons p ps ih =>
    intro fuel r hf
    cases fuel with
    | zero => omega
    | succ f =>
      have hp := hok p (List.mem_cons_self ..)
      have hps : ∀ q ∈ ps, PairOk q := fun q hq => hok q (List.mem_cons_of_mem _ hq)
      simp only [List.length_cons] at hf
      rw [encPairs_cons, List.append_assoc, decPairs, decKey_encKey _ _ hp.1]
      simp only
      rw [List.append_assoc, bytesVec_lawful.complete p.2 _ hp.2]
      simp only
      rw [ih hps f r (by omega)]

theorem encKey_length_pos (k : RawKey) : 0 < (encKey k).length := by
  simp only [encKey, List.length_append, List.length_cons]; omega

theorem encPairs_length (ps : List Pair) : ps.length < (encPairs ps).length + 1 := by
  induction ps with
  | nil => simp [encPairs]
  | cons p ps ih =>
    rw [encPairs_cons]
    have := encKey_length_pos p.1
    simp only [List.length_append, List.length_cons]
    omega

theorem decMapRaw_complete (ps : List Pair) (hok : ∀ p ∈ ps, PairOk p) (r : Bytes) :
    decMapRaw (encPairs ps ++ r) = .ok (ps, r) := by
  unfold decMapRaw
  apply decPairs_complete ps hok
  have := encPairs_length ps
  simp only [List.length_append]
  omega

/-- soundness of the pair loop: only canonical framings are accepted -/
theorem decPairs_sound : ∀ (fuel : Nat) (bs : Bytes) (ps : List Pair) (r : Bytes),
    decPairs fuel bs = .ok (ps, r) → bs = encPairs ps ++ r ∧ ∀ p ∈ ps, PairOk p := by
  intro fuel
  induction fuel with
  | zero => intro bs ps r h; cases h
  | succ f ih =>
    intro bs ps r h
    simp only [decPairs] at h
    cases hk : decKey bs with
    | ok q =>
      obtain ⟨ok, r1⟩ := q
      rw [hk] at h
      cases ok with
      | none =>
        simp only [Res.ok.injEq, Prod.mk.injEq] at h
        obtain ⟨rfl, rfl⟩ := h
        refine ⟨?_, by intro p hp; cases hp⟩
        rw [decKey_none_sound _ _ hk]
        rfl
      | some k =>
        simp only at h
        cases hv : bytesVec r1 with
        | ok q2 =>
          obtain ⟨v, r2⟩ := q2
          rw [hv] at h
          simp only at h
          cases hr : decPairs f r2 with
          | ok q3 =>
            obtain ⟨ps', r3⟩ := q3
            rw [hr] at h
            simp only [Res.ok.injEq, Prod.mk.injEq] at h
            obtain ⟨rfl, rfl⟩ := h
            obtain ⟨e1, hklen⟩ := decKey_some_sound _ _ _ hk
            obtain ⟨e2, hvlen⟩ := bytesVec_lawful.sound _ _ _ hv
            obtain ⟨e3, hps⟩ := ih _ _ _ hr
            refine ⟨?_, ?_⟩
            · rw [encPairs_cons, e1, e2, e3]
              simp only [List.append_assoc]
            · intro p hp
              rw [List.mem_cons] at hp
              rcases hp with rfl | hp
              · exact ⟨hklen, hvlen⟩
              · exact hps p hp
          | err e => rw [hr] at h; cases h
          | panic s => rw [hr] at h; cases h
        | err e => rw [hv] at h; cases h
        | panic s => rw [hv] at h; cases h
    | err e => rw [hk] at h; cases h
    | panic s => rw [hk] at h; cases h

theorem decPairs_total : ∀ (fuel : Nat) (bs : Bytes) (s : String), decPairs fuel bs ≠ .panic s := by
  intro fuel
  induction fuel with
  | zero => intro bs s h; cases h
  | succ f ih =>
    intro bs s h
    simp only [decPairs] at h
    cases hk : decKey bs with
    | ok q =>
      obtain ⟨ok, r1⟩ := q
      rw [hk] at h
      cases ok with
      | none => cases h
      | some k =>
        simp only at h
        cases hv : bytesVec r1 with
        | ok q2 =>
          obtain ⟨v, r2⟩ := q2
          rw [hv] at h
          simp only at h
          cases hr : decPairs f r2 with
          | ok q3 => rw [hr] at h; cases h
          | err e => rw [hr] at h; cases h
          | panic s' => exact ih _ _ hr
        | err e => rw [hv] at h; cases h
        | panic s' => exact bytesVec_lawful.total _ _ hv
    | err e => rw [hk] at h; cases h
    | panic s' => exact decKey_total _ _ hk

theorem decMapRaw_sound (bs : Bytes) (ps : List Pair) (r : Bytes) (h : decMapRaw bs = .ok (ps, r)) :
    bs = encPairs ps ++ r ∧ ∀ p ∈ ps, PairOk p := decPairs_sound _ _ _ _ h

theorem decMapRaw_total (bs : Bytes) (s : String) : decMapRaw bs ≠ .panic s := decPairs_total _ _ _

/-! ### proprietary keys -/

theorem decPropKey_enc (pfx : Bytes) (sub : UInt8) (k : Bytes) (h : pfx.length ≤ maxVecSize) :
    decPropKey (encPropKey pfx sub k) = some (pfx, sub, k) := by
  simp only [decPropKey, encPropKey, bytesVec_lawful.complete pfx (sub :: k) h]

theorem decPropKey_sound (b pfx : Bytes) (sub : UInt8) (k : Bytes) (h : decPropKey b = some (pfx, sub, k)) :
    b = encPropKey pfx sub k ∧ pfx.length ≤ maxVecSize := by
  simp only [decPropKey] at h
  cases hv : bytesVec b with
  | ok q =>
    obtain ⟨p, r⟩ := q
    rw [hv] at h
    cases r with
    | nil => cases h
    | cons s k' =>
      simp only [Option.some.injEq, Prod.mk.injEq] at h
      obtain ⟨rfl, rfl, rfl⟩ := h
      obtain ⟨e, hl⟩ := bytesVec_lawful.sound _ _ _ hv
      exact ⟨e, hl⟩
  | err e => rw [hv] at h; cases h
  | panic s => rw [hv] at h; cases h

end EV.Proofs.PsetWireRaw
