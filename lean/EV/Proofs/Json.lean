/-
  EV.Proofs.Json — the ordered-map normalisation of `EV.Model.Json` does not depend on the
  order in which the members of an object are written (distinct keys), at any nesting depth.
-/
import EV.Model.Json
set_option linter.unusedSimpArgs false
set_option linter.unusedVariables false
namespace EV.Json

/-! ### the key order is a strict linear order -/

theorem u8_lt_iff (a b : UInt8) : a < b ↔ a.toNat < b.toNat := UInt8.lt_iff_toNat_lt
theorem u8_eq_iff (a b : UInt8) : a = b ↔ a.toNat = b.toNat := UInt8.toNat_inj.symm

theorem blt_irrefl : ∀ a : Bytes, blt a a = false
  | [] => rfl
  | a :: as => by
    have := blt_irrefl as
    simp only [blt, u8_lt_iff, Nat.lt_irrefl, if_false, if_true, this]

theorem blt_trans : ∀ a b c : Bytes, blt a b = true → blt b c = true → blt a c = true
  | [], [], _, h, _ => by simp [blt] at h
  | [], _ :: _, [], _, h => by simp [blt] at h
  | [], _ :: _, _ :: _, _, _ => rfl
  | _ :: _, [], _, h, _ => by simp [blt] at h
  | _ :: _, _ :: _, [], _, h => by simp [blt] at h
  | a :: as, b :: bs, c :: cs, h1, h2 => by
    simp only [blt, u8_lt_iff, u8_eq_iff] at h1 h2 ⊢
    by_cases hab : a.toNat < b.toNat
    · by_cases hbc : b.toNat < c.toNat
      · have : a.toNat < c.toNat := by omega
        simp [this]
      · simp only [hbc, if_false] at h2
        by_cases hbc' : b.toNat = c.toNat
        · have : a.toNat < c.toNat := by omega
          simp [this]
        · simp [hbc'] at h2
    · simp only [hab, if_false] at h1
      by_cases hab' : a.toNat = b.toNat
      · simp only [hab', if_true] at h1
        by_cases hbc : b.toNat < c.toNat
        · have : a.toNat < c.toNat := by omega
          simp [this]
        · simp only [hbc, if_false] at h2
          by_cases hbc' : b.toNat = c.toNat
          · simp only [hbc', if_true] at h2
            have h3 : ¬ a.toNat < c.toNat := by omega
            have h4 : a.toNat = c.toNat := by omega
            rw [if_neg h3, if_pos h4]
            exact blt_trans as bs cs h1 h2
          · simp [hbc'] at h2
      · simp [hab'] at h1

theorem blt_asymm (a b : Bytes) (h : blt a b = true) : blt b a = false := by
  cases hb : blt b a with
  | false => rfl
  | true =>
    have := blt_trans a b a h hb
    rw [blt_irrefl] at this
    cases this

theorem blt_connex : ∀ a b : Bytes, blt a b = false → blt b a = false → a = b
  | [], [], _, _ => rfl
  | [], _ :: _, h, _ => by simp [blt] at h
  | _ :: _, [], _, h => by simp [blt] at h
  | a :: as, b :: bs, h1, h2 => by
    simp only [blt, u8_lt_iff, u8_eq_iff] at h1 h2
    by_cases hab : a.toNat < b.toNat
    · simp [hab] at h1
    · by_cases hba : b.toNat < a.toNat
      · simp [hba] at h2
      · have he : a.toNat = b.toNat := by omega
        simp only [hab, he, Nat.lt_irrefl, if_false, if_true] at h1 h2
        have := blt_connex as bs h1 h2
        have hab' : a = b := (u8_eq_iff a b).2 he
        rw [this, hab']

theorem blt_ne {a b : Bytes} (h : blt a b = true) : a ≠ b := by
  intro e; subst e; rw [blt_irrefl] at h; cases h

/-! ### `BTreeMap::insert` commutes on distinct keys -/

variable {α : Type}

theorem insertKV_comm (k1 k2 : Bytes) (v1 v2 : α) (hne : k1 ≠ k2) :
    ∀ z : List (Bytes × α), insertKV k1 v1 (insertKV k2 v2 z) = insertKV k2 v2 (insertKV k1 v1 z)
  | [] => by
    simp only [insertKV]
    cases h12 : blt k1 k2 with
    | true =>
      have h21 := blt_asymm _ _ h12
      simp [h21, Ne.symm hne, insertKV]
    | false =>
      cases h21 : blt k2 k1 with
      | true => simp [hne, insertKV]
      | false => exact absurd (blt_connex _ _ h12 h21) hne
  | (k, v) :: t => by
    have ih := insertKV_comm k1 k2 v1 v2 hne t
    have hne' : k2 ≠ k1 := Ne.symm hne
    -- position of k1 and of k2 relative to k
    cases h1 : blt k1 k with
    | true =>
      have hk1 : k1 ≠ k := blt_ne h1
      cases h2 : blt k2 k with
      | true =>
        -- both before k
        have hk2 : k2 ≠ k := blt_ne h2
        cases h12 : blt k1 k2 with
        | true =>
          have h21 := blt_asymm _ _ h12
          simp [insertKV, h1, h2, h12, h21, hne, hne', hk1, hk2]
        | false =>
          cases h21 : blt k2 k1 with
          | true => simp [insertKV, h1, h2, h12, h21, hne, hne', hk1, hk2]
          | false => exact absurd (blt_connex _ _ h12 h21) hne
      | false =>
        by_cases e2 : k2 = k
        · -- k1 < k = k2
          subst e2
          have h21 := blt_asymm _ _ h1
          simp [insertKV, h1, h21, hne, hne', blt_irrefl]
        · -- k1 < k < k2
          have hkk2 : blt k k2 = true := by
            cases h : blt k k2 with
            | true => rfl
            | false => exact absurd (blt_connex _ _ h2 h) e2
          have h12 : blt k1 k2 = true := blt_trans _ _ _ h1 hkk2
          have h21 := blt_asymm _ _ h12
          simp [insertKV, h1, h2, e2, h21, hne, hne']
    | false =>
      by_cases e1 : k1 = k
      · subst e1
        cases h2 : blt k2 k1 with
        | true =>
          have h12 := blt_asymm _ _ h2
          simp [insertKV, h2, h12, hne, hne', blt_irrefl]
        | false =>
          -- k = k1 < k2
          simp [insertKV, h2, hne, hne', blt_irrefl]
      · have hkk1 : blt k k1 = true := by
          cases h : blt k k1 with
          | true => rfl
          | false => exact absurd (blt_connex _ _ h1 h) e1
        cases h2 : blt k2 k with
        | true =>
          -- k2 < k < k1
          have h21 : blt k2 k1 = true := blt_trans _ _ _ h2 hkk1
          have h12 := blt_asymm _ _ h21
          have hk2 : k2 ≠ k := blt_ne h2
          simp [insertKV, h1, h2, e1, h12, hne, hne', hk2]
        | false =>
          by_cases e2 : k2 = k
          · subst e2
            simp [insertKV, h1, e1, hne, hne', blt_irrefl]
          · simp [insertKV, h1, h2, e1, e2, ih]

/-- the fold step -/
def step (acc : List (Bytes × α)) (kv : Bytes × α) : List (Bytes × α) := insertKV kv.1 kv.2 acc

theorem buildMap_eq (l : List (Bytes × α)) : buildMap l = l.foldl step [] := rfl

/-- members with pairwise distinct keys: two members with the same key are the same member -/
theorem eq_of_key_eq_of_nodup : ∀ (l : List (Bytes × α)), (l.map Prod.fst).Nodup →
    ∀ x ∈ l, ∀ y ∈ l, x.1 = y.1 → x = y
  | [], _, x, hx, _, _, _ => by cases hx
  | a :: t, hnd, x, hx, y, hy, hk => by
    simp only [List.map_cons, List.nodup_cons, List.mem_map, not_exists, not_and] at hnd
    rcases List.mem_cons.1 hx with rfl | hx' <;> rcases List.mem_cons.1 hy with rfl | hy'
    · rfl
    · exact absurd hk.symm (hnd.1 y hy')
    · exact absurd hk (hnd.1 x hx')
    · exact eq_of_key_eq_of_nodup t hnd.2 x hx' y hy' hk

/-- the ordered map does not depend on the order in which members with distinct keys are inserted -/
theorem buildMap_perm {l l' : List (Bytes × α)} (hp : l.Perm l') (hnd : (l.map Prod.fst).Nodup) :
    buildMap l = buildMap l' := by
  rw [buildMap_eq, buildMap_eq]
  refine List.Perm.foldl_eq' hp ?_ []
  intro x hx y hy z
  by_cases hk : x.1 = y.1
  · have := eq_of_key_eq_of_nodup l hnd x hx y hy hk
    subst this; rfl
  · simp only [step]
    exact (insertKV_comm y.1 x.1 y.2 x.2 (Ne.symm hk) z)

/-! ### what the ordered map contains -/

/-- keys strictly increasing -/
def Sorted : List (Bytes × α) → Prop
  | [] => True
  | [_] => True
  | a :: b :: t => blt a.1 b.1 = true ∧ Sorted (b :: t)

theorem sorted_tail {a : Bytes × α} {t : List (Bytes × α)} (h : Sorted (a :: t)) : Sorted t := by
  cases t with
  | nil => trivial
  | cons b t => exact h.2

/-- the head of `insertKV k v l` is `k` or the old head -/
theorem insertKV_head (k : Bytes) (v : α) (l : List (Bytes × α)) :
    ∃ h t, insertKV k v l = h :: t ∧ (h.1 = k ∨ ∃ t', l = h :: t' ∧ blt h.1 k = true) := by
  cases l with
  | nil => exact ⟨(k, v), [], rfl, Or.inl rfl⟩
  | cons a t =>
    obtain ⟨k', v'⟩ := a
    simp only [insertKV]
    cases h1 : blt k k' with
    | true => exact ⟨(k, v), (k', v') :: t, by simp, Or.inl rfl⟩
    | false =>
      by_cases e : k = k'
      · exact ⟨(k, v), t, by simp [e], Or.inl rfl⟩
      · refine ⟨(k', v'), insertKV k v t, by simp [e], Or.inr ⟨t, rfl, ?_⟩⟩
        cases h2 : blt k' k with
        | true => rfl
        | false => exact absurd (blt_connex _ _ h1 h2) e

theorem insertKV_sorted (k : Bytes) (v : α) : ∀ l : List (Bytes × α), Sorted l → Sorted (insertKV k v l)
  | [], _ => trivial
  | (k', v') :: t, hs => by
    simp only [insertKV]
    cases h1 : blt k k' with
    | true => simp only [if_true]; exact ⟨h1, hs⟩
    | false =>
      by_cases e : k = k'
      · subst e
        simp only [Bool.false_eq_true, if_false, if_true]
        cases t with
        | nil => trivial
        | cons b t => exact ⟨hs.1, hs.2⟩
      · simp only [Bool.false_eq_true, if_false, e]
        have hk'k : blt k' k = true := by
          cases h2 : blt k' k with
          | true => rfl
          | false => exact absurd (blt_connex _ _ h1 h2) e
        have ih := insertKV_sorted k v t (sorted_tail hs)
        obtain ⟨h, t2, he, hh⟩ := insertKV_head k v t
        rw [he] at ih ⊢
        refine ⟨?_, ih⟩
        rcases hh with hh | ⟨t', ht, _⟩
        · rw [hh]; exact hk'k
        · subst ht; exact hs.1

theorem foldl_step_sorted (l : List (Bytes × α)) : ∀ acc : List (Bytes × α), Sorted acc → Sorted (l.foldl step acc) := by
  induction l with
  | nil => intro acc h; exact h
  | cons a t ih => intro acc h; exact ih _ (insertKV_sorted a.1 a.2 acc h)

/-- the keys of the ordered map are strictly increasing in byte order -/
theorem buildMap_sorted (l : List (Bytes × α)) : Sorted (buildMap l) :=
  foldl_step_sorted l [] trivial

/-- lookup in the map after an insertion -/
theorem lookup_insertKV (k : Bytes) (v : α) (q : Bytes) : ∀ l : List (Bytes × α),
    (insertKV k v l).lookup q = if q = k then some v else l.lookup q
  | [] => by
    by_cases e : q = k
    · simp [insertKV, List.lookup, e]
    · have : (q == k) = false := by simpa using e
      simp [insertKV, List.lookup, e, this]
  | (k', v') :: t => by
    have ih := lookup_insertKV k v q t
    simp only [insertKV]
    cases h1 : blt k k' with
    | true =>
      by_cases e : q = k
      · simp [List.lookup, e]
      · have : (q == k) = false := by simpa using e
        simp [List.lookup, e, this]
    | false =>
      by_cases ek : k = k'
      · subst ek
        by_cases e : q = k
        · simp [List.lookup, e]
        · have : (q == k) = false := by simpa using e
          simp [List.lookup, e, this]
      · simp only [Bool.false_eq_true, if_false, ek]
        by_cases e' : q = k'
        · have hne : ¬ q = k := by intro h; exact ek (h.symm.trans e')
          simp [List.lookup, e', hne]
          intro h; exact absurd h.symm ek
        · have : (q == k') = false := by simpa using e'
          simp only [List.lookup, this, ih]

theorem lookup_foldl_step (q : Bytes) (l : List (Bytes × α)) : ∀ acc : List (Bytes × α),
    (l.foldl step acc).lookup q = match l.reverse.lookup q with | some v => some v | none => acc.lookup q := by
  induction l with
  | nil => intro acc; simp [List.lookup]
  | cons a t ih =>
    intro acc
    obtain ⟨k, v⟩ := a
    rw [List.foldl_cons, ih, List.reverse_cons, List.lookup_append]
    simp only [step, lookup_insertKV]
    cases h : List.lookup q t.reverse with
    | some w => simp
    | none =>
      by_cases e : q = k
      · simp [List.lookup, e]
      · have : (q == k) = false := by simpa using e
        simp [List.lookup, e, this]

/-- duplicates: the member written last wins; nothing else is lost -/
theorem lookup_buildMap (q : Bytes) (l : List (Bytes × α)) : (buildMap l).lookup q = l.reverse.lookup q := by
  rw [buildMap_eq, lookup_foldl_step]
  cases List.lookup q l.reverse <;> simp [List.lookup]

/-! ### permutation of members at every nesting level -/

mutual
/-- `JPerm v w`: `w` is `v` with the members of every object, at every depth, written in some
    other order (values under the same key related recursively) -/
inductive JPerm : Json → Json → Prop
  | null : JPerm .null .null
  | bool (b : Bool) : JPerm (.bool b) (.bool b)
  | num (t : Bytes) : JPerm (.num t) (.num t)
  | str (s : Bytes) : JPerm (.str s) (.str s)
  | arr {l l' : List Json} : JPermL l l' → JPerm (.arr l) (.arr l')
  | obj {l l' l'' : List (Bytes × Json)} : JPermM l l' → l'.Perm l'' → JPerm (.obj l) (.obj l'')
/-- element-wise on arrays (the order of array elements is significant) -/
inductive JPermL : List Json → List Json → Prop
  | nil : JPermL [] []
  | cons {a b : Json} {l l' : List Json} : JPerm a b → JPermL l l' → JPermL (a :: l) (b :: l')
/-- member-wise: same keys in the same order, values related -/
inductive JPermM : List (Bytes × Json) → List (Bytes × Json) → Prop
  | nil : JPermM [] []
  | cons (k : Bytes) {a b : Json} {l l' : List (Bytes × Json)} :
      JPerm a b → JPermM l l' → JPermM ((k, a) :: l) ((k, b) :: l')
end

mutual
/-- no object, at any depth, has two members with the same key -/
def NoDupKeys : Json → Prop
  | .null => True
  | .bool _ => True
  | .num _ => True
  | .str _ => True
  | .arr l => NoDupKeysL l
  | .obj l => (l.map Prod.fst).Nodup ∧ NoDupKeysM l
def NoDupKeysL : List Json → Prop
  | [] => True
  | v :: t => NoDupKeys v ∧ NoDupKeysL t
def NoDupKeysM : List (Bytes × Json) → Prop
  | [] => True
  | (_, v) :: t => NoDupKeys v ∧ NoDupKeysM t
end

theorem normMembers_keys : ∀ l : List (Bytes × Json), (normMembers l).map Prod.fst = l.map Prod.fst
  | [] => rfl
  | (k, v) :: t => by simp [normMembers, normMembers_keys t]

theorem JPermM_keys {l l' : List (Bytes × Json)} (h : JPermM l l') : l'.map Prod.fst = l.map Prod.fst := by
  induction l generalizing l' with
  | nil => cases h; rfl
  | cons a t ih =>
    cases h with
    | cons k hab ht => simp [ih ht]

theorem normMembers_perm {l l' : List (Bytes × Json)} (h : l.Perm l') : (normMembers l).Perm (normMembers l') := by
  induction h with
  | nil => exact List.Perm.refl _
  | cons x _ ih => obtain ⟨k, v⟩ := x; simp only [normMembers]; exact List.Perm.cons _ ih
  | swap x y l =>
    obtain ⟨k, v⟩ := x; obtain ⟨k2, v2⟩ := y
    simp only [normMembers]; exact List.Perm.swap _ _ _
  | trans _ _ ih1 ih2 => exact ih1.trans ih2

mutual
theorem norm_perm : ∀ {v w : Json}, JPerm v w → NoDupKeys v → norm v = norm w
  | _, _, .null, _ => rfl
  | _, _, .bool _, _ => rfl
  | _, _, .num _, _ => rfl
  | _, _, .str _, _ => rfl
  | _, _, .arr h, hn => by
    simp only [norm]
    rw [normList_perm h hn]
  | _, _, @JPerm.obj l l' l'' h hp, hn => by
    simp only [norm]
    have e1 : normMembers l = normMembers l' := normMembers_jperm h hn.2
    have hp' : (normMembers l').Perm (normMembers l'') := normMembers_perm hp
    have hk : ((normMembers l').map Prod.fst).Nodup := by
      rw [normMembers_keys, JPermM_keys h]; exact hn.1
    rw [e1, buildMap_perm hp' hk]
theorem normList_perm : ∀ {l l' : List Json}, JPermL l l' → NoDupKeysL l → normList l = normList l'
  | _, _, .nil, _ => rfl
  | _, _, .cons ha ht, hn => by
    simp only [normList]
    rw [norm_perm ha hn.1, normList_perm ht hn.2]
theorem normMembers_jperm : ∀ {l l' : List (Bytes × Json)}, JPermM l l' → NoDupKeysM l → normMembers l = normMembers l'
  | _, _, .nil, _ => rfl
  | _, _, .cons k ha ht, hn => by
    simp only [normMembers]
    rw [norm_perm ha hn.1, normMembers_jperm ht hn.2]
end

mutual
theorem JPerm.refl : ∀ v : Json, JPerm v v
  | .null => .null
  | .bool b => .bool b
  | .num t => .num t
  | .str s => .str s
  | .arr l => .arr (JPermL.refl l)
  | .obj l => .obj (JPermM.refl l) (List.Perm.refl _)
theorem JPermL.refl : ∀ l : List Json, JPermL l l
  | [] => .nil
  | v :: t => .cons (JPerm.refl v) (JPermL.refl t)
theorem JPermM.refl : ∀ l : List (Bytes × Json), JPermM l l
  | [] => .nil
  | (k, v) :: t => .cons k (JPerm.refl v) (JPermM.refl t)
end

end EV.Json
