/-
  The PSET input of property C11 (`IssPsetInput`, the fields `issuance_ids` reads) is the projection of the
  full PSET input of C08/C14/C07 (`PsetInput`, all 48 fields): the conversions `from_txin`, `extract` and the
  accessors agree under the projection, so C11's `ids_agree` speaks about the same `from_tx`/`extract_tx`
  as C08's `extract_from_tx`.
-/
import EV.Model.Issuance
import EV.Model.Pset
namespace EV.Proofs.IssuanceBridge
open EV

/-- forget the fields the issuance derivation does not read -/
def proj (i : PsetInput) : IssPsetInput :=
  { previousTxid := i.previousTxid
    previousOutputIndex := i.previousOutputIndex
    sequence := i.sequence
    finalScriptSig := i.finalScriptSig
    finalScriptWitness := i.finalScriptWitness
    peginWitness := i.peginWitness
    issuanceValueAmount := i.issuanceValueAmount
    issuanceValueComm := i.issuanceValueComm
    issuanceValueRangeproof := i.issuanceValueRangeproof
    issuanceKeysRangeproof := i.issuanceKeysRangeproof
    issuanceInflationKeys := i.issuanceInflationKeys
    issuanceInflationKeysComm := i.issuanceInflationKeysComm
    issuanceBlindingNonce := i.issuanceBlindingNonce
    issuanceAssetEntropy := i.issuanceAssetEntropy }

theorem valueAmount_eq (v : Value) :
    PsetInput.valueAmount v = (match v with | .explicit x => some x | _ => none) := by cases v <;> rfl
theorem valueComm_eq (v : Value) :
    PsetInput.valueComm v = (match v with | .conf c => some c | _ => none) := by cases v <;> rfl

/-- `Input::from_txin` of the two models agree -/
theorem fromTxin_proj (t : TxIn) : proj (PsetInput.fromTxIn t) = IssPsetInput.fromTxin t := by
  unfold PsetInput.fromTxIn IssPsetInput.fromTxin IssPsetInput.fromPrevout proj
  by_cases hp : t.isPegin = true <;> by_cases hi : t.hasIssuance = true <;>
    simp [hp, hi] <;>
    (cases t.assetIssuance.amount <;> cases t.assetIssuance.inflationKeys <;>
      simp [PsetInput.valueAmount, PsetInput.valueComm])

theorem pairValue_eq (a : Option Nat) (c : Option Bytes) : PsetInput.pairValue a c = IssPsetInput.valueOf a c := by
  cases a <;> cases c <;> rfl

theorem assetIssuance_proj (i : PsetInput) : (proj i).assetIssuance = i.assetIssuance := by
  simp [proj, IssPsetInput.assetIssuance, PsetInput.assetIssuance, pairValue_eq, Issuance.zero32, zero32]

theorem hasIssuance_proj (i : PsetInput) : (proj i).hasIssuance = i.hasIssuance := by
  simp [IssPsetInput.hasIssuance, PsetInput.hasIssuance, assetIssuance_proj]

theorem isPegin_proj (i : PsetInput) : (proj i).isPegin = i.isPegin := rfl

/-- the per-input part of `extract_tx` of the two models agree -/
theorem extract_proj (i : PsetInput) : (proj i).extractIn = i.toTxIn := by
  simp only [IssPsetInput.extractIn, PsetInput.toTxIn, assetIssuance_proj, isPegin_proj]
  simp only [proj, IssPsetInput.plainIndex, PsetInput.plainIndex]
  by_cases h : i.previousOutputIndex = 4294967295 <;> simp [h]

/-- hence: the ids computed from the PSET input built by C08's `from_tx`, and from the input C08's
    `extract_tx` returns, are the ones C11 reasons about -/
theorem ids_of_full_model (H : Hashes) (t : TxIn) :
    (proj (PsetInput.fromTxIn t)).issuanceIds H = (IssPsetInput.fromTxin t).issuanceIds H ∧
    (PsetInput.fromTxIn t).toTxIn = (IssPsetInput.fromTxin t).extractIn := by
  constructor
  · rw [fromTxin_proj]
  · rw [← extract_proj, fromTxin_proj]

end EV.Proofs.IssuanceBridge
