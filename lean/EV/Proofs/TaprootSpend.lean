/-
  Spend info, control blocks handed out and commitment verification (model: EV.Model.Taproot).
  The EC primitives are parameters; the laws assumed of them are explicit hypotheses.
-/
import EV.Model.Taproot
import EV.Proofs.TaprootBuilder
import EV.Proofs.TaprootCb
namespace EV.Proofs.TaprootSpend
open EV EV.Taproot EV.Proofs.TaprootBuilder EV.Proofs.TaprootCb

/-- assumed of libsecp256k1: `tweak_add_check` accepts exactly the result of `add_tweak` -/
def ECLaw (E : EC) : Prop :=
  ∀ P t Q par, E.tweakAddCheck P Q par t = true ↔ E.tweakAdd P t = some (Q, par)

/-- assumed of libsecp256k1: for a fixed internal key, different (valid) tweaks give different tweaked
    keys (P + t·G = P + t'·G implies t = t' for scalars below the group order) -/
def ECTweakInj (E : EC) : Prop :=
  ∀ P t t' r, E.scalarOk t = true → E.scalarOk t' = true → E.tweakAdd P t = some r → E.tweakAdd P t' = some r → t = t'

variable (E : EC) (H : TapHashes)

/-! ### script map -/

theorem pickBranch_none (set : List (List Bytes)) : pickBranch set = none ↔ set = [] := by
  cases set with
  | nil => simp [pickBranch]
  | cons b rest =>
    simp only [pickBranch]
    cases h : pickBranch rest with
    | none => simp
    | some c =>
      simp only []
      split <;> simp
theorem pickBranch_mem (set : List (List Bytes)) (b : List Bytes) (h : pickBranch set = some b) : b ∈ set := by
  induction set generalizing b with
  | nil => simp [pickBranch] at h
  | cons a rest ih =>
    simp only [pickBranch] at h
    cases hr : pickBranch rest with
    | none =>
      rw [hr] at h
      simp only [Option.some.injEq] at h
      subst h
      exact List.mem_cons_self
    | some c =>
      rw [hr] at h
      simp only [] at h
      split at h
      · injection h with h
        subst h
        exact List.mem_cons_of_mem _ (ih c hr)
      · injection h with h
        subst h
        exact List.mem_cons_self
/-- `control_block` returns a shortest path -/
theorem pickBranch_shortest (set : List (List Bytes)) (b : List Bytes) (h : pickBranch set = some b) :
    ∀ c ∈ set, b.length ≤ c.length := by
  induction set generalizing b with
  | nil => simp [pickBranch] at h
  | cons a rest ih =>
    simp only [pickBranch] at h
    cases hr : pickBranch rest with
    | none =>
      rw [hr] at h
      simp only [Option.some.injEq] at h
      subst h
      have hn : rest = [] := (pickBranch_none rest).mp hr
      subst hn
      intro c hc
      simp only [List.mem_cons, List.not_mem_nil, or_false] at hc
      subst hc
      exact Nat.le_refl _
    | some c =>
      rw [hr] at h
      simp only [] at h
      have ihc := ih c hr
      split at h
      · rename_i hb
        injection h with h
        subst h
        have hle : c.length ≤ a.length := by
          simp only [branchBetter, Bool.or_eq_true, decide_eq_true_eq, Bool.and_eq_true,
            beq_iff_eq] at hb
          omega
        intro d hd
        rcases List.mem_cons.mp hd with hd | hd
        · subst hd
          exact hle
        · exact ihc d hd
      · rename_i hb
        injection h with h
        subst h
        have hle : a.length ≤ c.length := by
          simp only [branchBetter, Bool.or_eq_true, decide_eq_true_eq, Bool.and_eq_true,
            beq_iff_eq, not_or] at hb
          omega
        intro d hd
        rcases List.mem_cons.mp hd with hd | hd
        · subst hd
          exact Nat.le_refl _
        · exact Nat.le_trans hle (ihc d hd)

private theorem lookupKey_mapInsert_same (k : Bytes × UInt8) (br : List Bytes)
    (m : List ((Bytes × UInt8) × List (List Bytes))) :
    lookupKey k (mapInsert k br m) =
      some (match lookupKey k m with
            | none => [br]
            | some s => if br ∈ s then s else s ++ [br]) := by
  induction m with
  | nil => simp [mapInsert, lookupKey]
  | cons x rest ih =>
    obtain ⟨k', s⟩ := x
    simp only [mapInsert, lookupKey]
    by_cases hk : k' = k
    · simp only [hk, if_true, lookupKey]
    · simp only [hk, if_false, lookupKey]
      exact ih

private theorem lookupKey_mapInsert_other (k k' : Bytes × UInt8) (br : List Bytes)
    (m : List ((Bytes × UInt8) × List (List Bytes))) (hne : k' ≠ k) :
    lookupKey k (mapInsert k' br m) = lookupKey k m := by
  induction m with
  | nil => simp [mapInsert, lookupKey, hne]
  | cons x rest ih =>
    obtain ⟨k'', s⟩ := x
    simp only [mapInsert, lookupKey]
    by_cases hk : k'' = k'
    · subst hk
      simp only [if_true, lookupKey, hne, if_false]
    · simp only [hk, if_false, lookupKey]
      by_cases hk2 : k'' = k
      · simp only [hk2, if_true]
      · simp only [hk2, if_false]
        exact ih

private theorem step_mem (k k' : Bytes × UInt8) (br br' : List Bytes)
    (m : List ((Bytes × UInt8) × List (List Bytes))) :
    br ∈ (lookupKey k (mapInsert k' br' m)).getD [] ↔
      br ∈ (lookupKey k m).getD [] ∨ (k' = k ∧ br' = br) := by
  by_cases hk : k' = k
  · subst hk
    rw [lookupKey_mapInsert_same]
    cases hl : lookupKey k' m with
    | none =>
      simp only [Option.getD_some, Option.getD_none, List.mem_cons, List.not_mem_nil, or_false,
        false_or, true_and]
      exact eq_comm
    | some s =>
      simp only [Option.getD_some, true_and]
      by_cases hin : br' ∈ s
      · simp only [hin, if_true]
        constructor
        · intro h
          exact Or.inl h
        · intro h
          rcases h with h | h
          · exact h
          · subst h
            exact hin
      · simp only [hin, if_false, List.mem_append, List.mem_cons, List.not_mem_nil, or_false]
        constructor
        · intro h
          rcases h with h | h
          · exact Or.inl h
          · exact Or.inr h.symm
        · intro h
          rcases h with h | h
          · exact Or.inl h
          · exact Or.inr h.symm
  · rw [lookupKey_mapInsert_other k k' br' m hk]
    simp only [hk, false_and, or_false]

private theorem step_none (k k' : Bytes × UInt8) (br' : List Bytes)
    (m : List ((Bytes × UInt8) × List (List Bytes))) :
    lookupKey k (mapInsert k' br' m) = none ↔ lookupKey k m = none ∧ k' ≠ k := by
  by_cases hk : k' = k
  · subst hk
    rw [lookupKey_mapInsert_same]
    simp
  · rw [lookupKey_mapInsert_other k k' br' m hk]
    simp [hk]

private theorem step_ne (k k' : Bytes × UInt8) (br' : List Bytes)
    (m : List ((Bytes × UInt8) × List (List Bytes)))
    (hm : ∀ s, lookupKey k m = some s → s ≠ []) :
    ∀ s, lookupKey k (mapInsert k' br' m) = some s → s ≠ [] := by
  by_cases hk : k' = k
  · subst hk
    rw [lookupKey_mapInsert_same]
    intro s hs
    simp only [Option.some.injEq] at hs
    subst hs
    cases hl : lookupKey k' m with
    | none => simp
    | some s0 =>
      simp only []
      have h0 := hm s0 hl
      split
      · exact h0
      · intro h
        simp at h
  · rw [lookupKey_mapInsert_other k k' br' m hk]
    exact hm

private theorem leaf_eta_iff (k : Bytes × UInt8) (br : List Bytes) (l : LeafInfo) :
    ((l.script, l.ver) = k ∧ l.branch = br) ↔ (⟨k.1, k.2, br⟩ : LeafInfo) = l := by
  obtain ⟨s, v, b⟩ := l
  obtain ⟨k1, k2⟩ := k
  simp only [Prod.mk.injEq, LeafInfo.mk.injEq]
  constructor
  · rintro ⟨⟨h1, h2⟩, h3⟩
    exact ⟨h1.symm, h2.symm, h3.symm⟩
  · rintro ⟨h1, h2, h3⟩
    exact ⟨⟨h1.symm, h2.symm⟩, h3.symm⟩

private theorem foldl_mem (k : Bytes × UInt8) (br : List Bytes) (ls : List LeafInfo) :
    ∀ m : List ((Bytes × UInt8) × List (List Bytes)),
    br ∈ (lookupKey k (ls.foldl (fun m l => mapInsert (l.script, l.ver) l.branch m) m)).getD [] ↔
      br ∈ (lookupKey k m).getD [] ∨ (⟨k.1, k.2, br⟩ : LeafInfo) ∈ ls := by
  induction ls with
  | nil => intro m; simp
  | cons l ls ih =>
    intro m
    simp only [List.foldl_cons]
    rw [ih, step_mem, leaf_eta_iff, List.mem_cons, or_assoc]

private theorem foldl_none (k : Bytes × UInt8) (ls : List LeafInfo) :
    ∀ m : List ((Bytes × UInt8) × List (List Bytes)),
    lookupKey k (ls.foldl (fun m l => mapInsert (l.script, l.ver) l.branch m) m) = none ↔
      lookupKey k m = none ∧ ∀ l ∈ ls, (l.script, l.ver) ≠ k := by
  induction ls with
  | nil => intro m; simp
  | cons l ls ih =>
    intro m
    simp only [List.foldl_cons]
    rw [ih, step_none]
    simp only [List.mem_cons, forall_eq_or_imp, and_assoc]

private theorem foldl_ne (k : Bytes × UInt8) (ls : List LeafInfo) :
    ∀ m : List ((Bytes × UInt8) × List (List Bytes)),
    (∀ s, lookupKey k m = some s → s ≠ []) →
    ∀ s, lookupKey k (ls.foldl (fun m l => mapInsert (l.script, l.ver) l.branch m) m) = some s → s ≠ [] := by
  induction ls with
  | nil => intro m hm; exact hm
  | cons l ls ih =>
    intro m hm
    simp only [List.foldl_cons]
    exact ih _ (step_ne k _ _ m hm)

/-- the script map has an entry for (s, v) iff some leaf carries (s, v); the entry is the non-empty set
    of the merkle branches of exactly those leaves -/
theorem lookup_mapOfLeaves_some (ls : List LeafInfo) (s : Bytes) (v : UInt8)
    (h : ∃ l ∈ ls, l.script = s ∧ l.ver = v) :
    ∃ set, lookupKey (s, v) (mapOfLeaves ls) = some set ∧ set ≠ [] ∧
      ∀ br, br ∈ set ↔ (⟨s, v, br⟩ : LeafInfo) ∈ ls := by
  cases hl : lookupKey (s, v) (mapOfLeaves ls) with
  | none =>
    exfalso
    unfold mapOfLeaves at hl
    have h2 := ((foldl_none (s, v) ls []).mp hl).2
    obtain ⟨l, hmem, h1, h3⟩ := h
    apply h2 l hmem
    rw [h1, h3]
  | some set =>
    refine ⟨set, rfl, ?_, ?_⟩
    · unfold mapOfLeaves at hl
      refine foldl_ne (s, v) ls [] ?_ set hl
      intro s0 hs0
      simp [lookupKey] at hs0
    · intro br
      have hm := foldl_mem (s, v) br ls []
      unfold mapOfLeaves at hl
      rw [hl] at hm
      simpa [lookupKey] using hm
theorem lookup_mapOfLeaves_none (ls : List LeafInfo) (s : Bytes) (v : UInt8)
    (h : ¬ ∃ l ∈ ls, l.script = s ∧ l.ver = v) : lookupKey (s, v) (mapOfLeaves ls) = none := by
  unfold mapOfLeaves
  rw [foldl_none]
  refine ⟨rfl, ?_⟩
  intro l hmem heq
  apply h
  refine ⟨l, hmem, ?_, ?_⟩
  · exact congrArg Prod.fst heq
  · exact congrArg Prod.snd heq

/-! ### output key -/

private theorem tapTweak_ok (key : Bytes) (root : Option Bytes) (q : Bytes) (par : Bool)
    (h : tapTweak E H key root = .ok (q, par)) :
    E.scalarOk (tweakHash H key root) = true ∧
    E.tweakAdd key (tweakHash H key root) = some (q, par) := by
  unfold tapTweak at h
  simp only [] at h
  cases hs : E.scalarOk (tweakHash H key root) with
  | false =>
    rw [hs] at h
    simp at h
  | true =>
    rw [hs] at h
    simp only [Bool.not_true, Bool.false_eq_true, if_false] at h
    cases ha : E.tweakAdd key (tweakHash H key root) with
    | none =>
      rw [ha] at h
      simp at h
    | some r =>
      obtain ⟨q', par'⟩ := r
      rw [ha] at h
      simp only [] at h
      split at h
      · cases h
      · injection h with h
        rw [h]
        exact ⟨rfl, rfl⟩

private theorem tapTweak_total (law : ECLaw E) (key : Bytes) (root : Option Bytes) (q : Bytes) (par : Bool)
    (hs : E.scalarOk (tweakHash H key root) = true)
    (ht : E.tweakAdd key (tweakHash H key root) = some (q, par)) :
    tapTweak E H key root = .ok (q, par) := by
  have hc : E.tweakAddCheck key q par (tweakHash H key root) = true := (law _ _ _ _).mpr ht
  unfold tapTweak
  simp only [hs, ht, hc, Bool.not_true, Bool.false_eq_true, if_false]

/-- `new_key_spend`: the output key is the internal key tweaked by TapTweak(internal ‖ root?) -/
theorem newKeySpend_ok (key : Bytes) (root : Option Bytes) (si : SpendInfo)
    (h : newKeySpend E H key root = .ok si) :
    si.internalKey = key ∧ si.merkleRoot = root ∧ si.scriptMap = [] ∧
    E.scalarOk (tweakHash H key root) = true ∧
    E.tweakAdd key (tweakHash H key root) = some (si.outputKey, si.parity) := by
  unfold newKeySpend at h
  cases ht : tapTweak E H key root with
  | ok r =>
    obtain ⟨q, par⟩ := r
    rw [ht] at h
    simp only [] at h
    injection h with h
    subst h
    have h2 := tapTweak_ok E H key root q par ht
    exact ⟨rfl, rfl, rfl, h2.1, h2.2⟩
  | err e =>
    rw [ht] at h
    cases h
  | panic e =>
    rw [ht] at h
    cases h

theorem fromNodeInfo_ok (key : Bytes) (n : NodeInfo) (si : SpendInfo)
    (h : fromNodeInfo E H key n = .ok si) :
    si.internalKey = key ∧ si.merkleRoot = some n.hash ∧ si.scriptMap = mapOfLeaves n.leaves ∧
    E.scalarOk (tweakHash H key (some n.hash)) = true ∧
    E.tweakAdd key (tweakHash H key (some n.hash)) = some (si.outputKey, si.parity) := by
  unfold fromNodeInfo at h
  cases hn : newKeySpend E H key (some n.hash) with
  | ok si0 =>
    rw [hn] at h
    simp only [] at h
    injection h with h
    subst h
    have h2 := newKeySpend_ok E H key (some n.hash) si0 hn
    exact ⟨h2.1, h2.2.1, rfl, h2.2.2.2.1, h2.2.2.2.2⟩
  | err e =>
    rw [hn] at h
    cases h
  | panic e =>
    rw [hn] at h
    cases h

/-- under the tweak law the only failures of `from_node_info` are the two documented panics
    (hash ≥ curve order, tweak addition fails); the `debug_assert!` never fires -/
theorem fromNodeInfo_total (law : ECLaw E) (key : Bytes) (n : NodeInfo) (q : Bytes) (par : Bool)
    (hs : E.scalarOk (tweakHash H key (some n.hash)) = true)
    (ht : E.tweakAdd key (tweakHash H key (some n.hash)) = some (q, par)) :
    ∃ si, fromNodeInfo E H key n = .ok si ∧ si.outputKey = q ∧ si.parity = par := by
  have h1 := tapTweak_total E H law key (some n.hash) q par hs ht
  unfold fromNodeInfo newKeySpend
  rw [h1]
  exact ⟨_, rfl, rfl, rfl⟩

/-! ### verification -/

/-- `verify_taproot_commitment` succeeds iff the output key and parity are the tweak of the control
    block's internal key by TapTweak(internal ‖ recomputed root) -/
theorem verify_iff (law : ECLaw E) (cb : ControlBlock) (Q s : Bytes) :
    cb.verify E H Q s = .ok true ↔
      (E.scalarOk (tweakHash H cb.internalKey (some (ControlBlock.computeRoot H s cb.leafVersion cb.branch))) = true ∧
       E.tweakAdd cb.internalKey (tweakHash H cb.internalKey (some (ControlBlock.computeRoot H s cb.leafVersion cb.branch)))
         = some (Q, cb.parity)) := by
  unfold ControlBlock.verify
  simp only []
  cases hs : E.scalarOk (tweakHash H cb.internalKey (some (ControlBlock.computeRoot H s cb.leafVersion cb.branch))) with
  | false =>
    simp only [Bool.not_false, if_true, Bool.false_eq_true, false_and, iff_false]
    intro h
    cases h
  | true =>
    simp only [Bool.not_true, Bool.false_eq_true, if_false, Res.ok.injEq, true_and]
    exact law _ _ _ _

private theorem verify_false_of (cb : ControlBlock) (Q s : Bytes)
    (hs : E.scalarOk (tweakHash H cb.internalKey (some (ControlBlock.computeRoot H s cb.leafVersion cb.branch))) = true)
    (hc : E.tweakAddCheck cb.internalKey Q cb.parity
      (tweakHash H cb.internalKey (some (ControlBlock.computeRoot H s cb.leafVersion cb.branch))) = false) :
    cb.verify E H Q s = .ok false := by
  unfold ControlBlock.verify
  simp only [hs, hc, Bool.not_true, Bool.false_eq_true, if_false]

/-- the other parity bit fails -/
theorem verify_parity_unique (law : ECLaw E) (cb : ControlBlock) (Q s : Bytes)
    (h : cb.verify E H Q s = .ok true) : ({ cb with parity := !cb.parity } : ControlBlock).verify E H Q s = .ok false := by
  obtain ⟨hs, ha⟩ := (verify_iff E H law cb Q s).mp h
  apply verify_false_of E H ({ cb with parity := !cb.parity } : ControlBlock) Q s hs
  simp only []
  cases hc : E.tweakAddCheck cb.internalKey Q (!cb.parity)
      (tweakHash H cb.internalKey (some (ControlBlock.computeRoot H s cb.leafVersion cb.branch))) with
  | false => rfl
  | true =>
    exfalso
    have h2 := (law _ _ _ _).mp hc
    rw [ha] at h2
    simp only [Option.some.injEq, Prod.mk.injEq, true_and] at h2
    cases hp : cb.parity <;> rw [hp] at h2 <;> cases h2
/-- any other output key fails -/
theorem verify_key_unique (law : ECLaw E) (cb : ControlBlock) (Q Q' s : Bytes)
    (h : cb.verify E H Q s = .ok true) (hq : Q' ≠ Q) : cb.verify E H Q' s = .ok false := by
  obtain ⟨hs, ha⟩ := (verify_iff E H law cb Q s).mp h
  apply verify_false_of E H _ Q' s hs
  cases hc : E.tweakAddCheck cb.internalKey Q' cb.parity
      (tweakHash H cb.internalKey (some (ControlBlock.computeRoot H s cb.leafVersion cb.branch))) with
  | false => rfl
  | true =>
    exfalso
    have h2 := (law _ _ _ _).mp hc
    rw [ha] at h2
    simp only [Option.some.injEq, Prod.mk.injEq, and_true] at h2
    exact hq h2.symm

/-- the control block built from any occurrence's own path verifies (duplicate scripts at different depths) -/
theorem cb_each_occurrence_verifies (law : ECLaw E) (key : Bytes) (t : Tree) (si : SpendInfo)
    (hsi : fromNodeInfo E H key (info H t) = .ok si) :
    ∀ l ∈ (info H t).leaves,
      (⟨l.ver, si.parity, key, l.branch⟩ : ControlBlock).verify E H si.outputKey l.script = .ok true := by
  intro l hl
  obtain ⟨_, _, _, hs, ha⟩ := fromNodeInfo_ok E H key (info H t) si hsi
  rw [verify_iff E H law]
  simp only []
  rw [info_leaf_root H t l hl, ← info_hash H t]
  exact ⟨hs, ha⟩

/-- every leaf of the tree gets a control block; it carries the leaf's version, the internal key and
    the output parity, its path is the sibling path of an occurrence of that (script, version) —
    a shortest one — and it verifies against the output key with the leaf's script -/
theorem cb_verifies (law : ECLaw E) (key : Bytes) (t : Tree) (si : SpendInfo)
    (hsi : fromNodeInfo E H key (info H t) = .ok si) :
    ∀ l ∈ (info H t).leaves, ∃ cb, controlBlock si l.script l.ver = some (some cb) ∧
      cb.leafVersion = l.ver ∧ cb.internalKey = key ∧ cb.parity = si.parity ∧
      (⟨l.script, l.ver, cb.branch⟩ : LeafInfo) ∈ (info H t).leaves ∧
      cb.branch.length ≤ l.branch.length ∧
      cb.verify E H si.outputKey l.script = .ok true := by
  intro l hl
  obtain ⟨hik, _, hmap, _, _⟩ := fromNodeInfo_ok E H key (info H t) si hsi
  obtain ⟨set, hlook, hne, hset⟩ :=
    lookup_mapOfLeaves_some (info H t).leaves l.script l.ver ⟨l, hl, rfl, rfl⟩
  cases hp : pickBranch set with
  | none => exact absurd ((pickBranch_none set).mp hp) hne
  | some br =>
    have hbr : br ∈ set := pickBranch_mem set br hp
    have hbrl : (⟨l.script, l.ver, br⟩ : LeafInfo) ∈ (info H t).leaves := (hset br).mp hbr
    have hlset : l.branch ∈ set := by
      apply (hset l.branch).mpr
      have : (⟨l.script, l.ver, l.branch⟩ : LeafInfo) = l := by cases l; rfl
      rw [this]
      exact hl
    refine ⟨⟨l.ver, si.parity, key, br⟩, ?_, rfl, rfl, rfl, hbrl, pickBranch_shortest set br hp _ hlset, ?_⟩
    · unfold controlBlock
      rw [hmap, hlook]
      simp only [hp, hik]
    · exact cb_each_occurrence_verifies E H law key t si hsi _ hbrl

/-- nothing else is handed out: a (script, version) that is not a leaf has no control block -/
theorem controlBlock_none (key : Bytes) (n : NodeInfo) (si : SpendInfo) (hsi : fromNodeInfo E H key n = .ok si)
    (s : Bytes) (v : UInt8) (h : ¬ ∃ l ∈ n.leaves, l.script = s ∧ l.ver = v) :
    controlBlock si s v = some none := by
  obtain ⟨_, _, hmap, _, _⟩ := fromNodeInfo_ok E H key n si hsi
  unfold controlBlock
  rw [hmap, lookup_mapOfLeaves_none n.leaves s v h]
/-- `control_block` never panics on a spend info produced by `from_node_info` -/
theorem controlBlock_no_panic (key : Bytes) (n : NodeInfo) (si : SpendInfo) (hsi : fromNodeInfo E H key n = .ok si)
    (s : Bytes) (v : UInt8) : controlBlock si s v ≠ none := by
  by_cases h : ∃ l ∈ n.leaves, l.script = s ∧ l.ver = v
  · obtain ⟨_, _, hmap, _, _⟩ := fromNodeInfo_ok E H key n si hsi
    obtain ⟨set, hlook, hne, _⟩ := lookup_mapOfLeaves_some n.leaves s v h
    unfold controlBlock
    rw [hmap, hlook]
    simp only []
    cases hp : pickBranch set with
    | none => exact absurd ((pickBranch_none set).mp hp) hne
    | some br =>
      simp only []
      intro hc
      cases hc
  · rw [controlBlock_none E H key n si hsi s v h]
    intro hc
    cases hc

/-- binding: with the committed internal key and parity, a control block that verifies against the
    output key of tree `t` for some (script, version, path) is a genuine opening of `t`, or a tagged
    hash collides -/
theorem cb_binds (law : ECLaw E) (inj : ECTweakInj E) (L : Len32 H) (key : Bytes) (t : Tree) (si : SpendInfo)
    (hsi : fromNodeInfo E H key (info H t) = .ok si) (ht : ScriptsOk t)
    (cb : ControlBlock) (s : Bytes) (hk : cb.internalKey = key) (hp : cb.parity = si.parity)
    (hb : ∀ e ∈ cb.branch, e.length = 32) (hs : s.length < 2 ^ 64)
    (hv : cb.verify E H si.outputKey s = .ok true) :
    Opens H t s cb.leafVersion cb.branch ∨ Collision H.tweak ∨ Collision H.leaf ∨ Collision H.branch ∨
      Cross H.leaf H.branch := by
  obtain ⟨hs1, ha1⟩ := (verify_iff E H law cb si.outputKey s).mp hv
  rw [hk] at hs1 ha1
  rw [hp] at ha1
  obtain ⟨_, _, _, hs2, ha2⟩ := fromNodeInfo_ok E H key (info H t) si hsi
  have heq := inj key _ _ _ hs1 hs2 ha1 ha2
  simp only [tweakHash, Option.getD_some] at heq
  by_cases hpre : key ++ ControlBlock.computeRoot H s cb.leafVersion cb.branch = key ++ (info H t).hash
  · have hroot : ControlBlock.computeRoot H s cb.leafVersion cb.branch = t.merkleRoot H := by
      rw [← info_hash H t]
      exact List.append_cancel_left hpre
    rcases opens_of_root_eq H L t s cb.leafVersion cb.branch ht hs hb hroot with h | h | h | h
    · exact Or.inl h
    · exact Or.inr (Or.inr (Or.inl h))
    · exact Or.inr (Or.inr (Or.inr (Or.inl h)))
    · exact Or.inr (Or.inr (Or.inr (Or.inr h)))
  · exact Or.inr (Or.inl ⟨_, _, hpre, heq⟩)

end EV.Proofs.TaprootSpend
