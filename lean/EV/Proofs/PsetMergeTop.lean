/-
  EV.Proofs.PsetMergeTop — `PartiallySignedTransaction::merge` as a whole: the unique-id gate,
  nothing is lost, the id is kept, commutativity on compatible operands, associativity.
-/
import EV.Proofs.PsetMerge
namespace EV
open Codec EV.Proofs.PsetId

/-! ### `zip` merging -/

theorem zipMerge_length {α} (f : α → α → α) : ∀ (a b : List α), (zipMerge f a b).length = a.length
  | [], _ => rfl
  | _ :: _, [] => rfl
  | _ :: xs, _ :: ys => by simp only [zipMerge, List.length_cons, zipMerge_length f xs ys]

theorem zipMerge_getElem? {α} (f : α → α → α) :
    ∀ (a b : List α) (j : Nat) (x y : α), a[j]? = some x → b[j]? = some y → (zipMerge f a b)[j]? = some (f x y)
  | [], _, _, _, _, h, _ => by simp at h
  | _ :: _, [], _, _, _, _, h => by simp at h
  | x0 :: xs, y0 :: ys, 0, x, y, hx, hy => by
    simp only [List.getElem?_cons_zero, Option.some.injEq] at hx hy
    subst hx; subst hy
    simp only [zipMerge, List.getElem?_cons_zero]
  | x0 :: xs, y0 :: ys, j+1, x, y, hx, hy => by
    simp only [List.getElem?_cons_succ] at hx hy
    simp only [zipMerge, List.getElem?_cons_succ]
    exact zipMerge_getElem? f xs ys j x y hx hy

/-- a longer `self` keeps its tail unmerged -/
theorem zipMerge_getElem?_tail {α} (f : α → α → α) :
    ∀ (a b : List α) (j : Nat), b.length ≤ j → (zipMerge f a b)[j]? = a[j]?
  | [], _, _, _ => rfl
  | _ :: _, [], _, _ => rfl
  | x0 :: xs, y0 :: ys, 0, h => by simp at h
  | x0 :: xs, y0 :: ys, j+1, h => by
    simp only [zipMerge, List.getElem?_cons_succ]
    exact zipMerge_getElem?_tail f xs ys j (by simpa using h)

theorem zipMerge_comm {α} {R : α → α → Prop} (f : α → α → α) (hf : ∀ x y, R x y → f x y = f y x) :
    ∀ {a b : List α}, ListRel R a b → zipMerge f a b = zipMerge f b a
  | [], [], _ => rfl
  | x :: xs, y :: ys, h => by
    simp only [zipMerge, hf x y h.1, zipMerge_comm f hf (a := xs) (b := ys) h.2]
  | [], _ :: _, h => h.elim
  | _ :: _, [], h => h.elim

theorem zipMerge_assoc {α} (f : α → α → α) (S : α → Prop)
    (hf : ∀ x y z, S x → S y → S z → f (f x y) z = f x (f y z)) :
    ∀ (a b c : List α), a.length = b.length → b.length = c.length →
      (∀ x ∈ a, S x) → (∀ x ∈ b, S x) → (∀ x ∈ c, S x) →
      zipMerge f (zipMerge f a b) c = zipMerge f a (zipMerge f b c)
  | [], _, _, _, _, _, _, _ => rfl
  | _ :: _, [], _, h, _, _, _, _ => by simp at h
  | _ :: _, _ :: _, [], _, h, _, _, _ => by simp at h
  | x :: xs, y :: ys, z :: zs, h1, h2, sa, sb, sc => by
    simp only [zipMerge]
    rw [hf x y z (sa x (List.mem_cons_self ..)) (sb y (List.mem_cons_self ..)) (sc z (List.mem_cons_self ..)),
      zipMerge_assoc f S hf xs ys zs (by simpa using h1) (by simpa using h2)
        (fun w hw => sa w (List.mem_cons_of_mem _ hw)) (fun w hw => sb w (List.mem_cons_of_mem _ hw))
        (fun w hw => sc w (List.mem_cons_of_mem _ hw))]

theorem zipMerge_all {α} (f : α → α → α) (S : α → Prop) (hf : ∀ x y, S x → S (f x y)) :
    ∀ (a b : List α), (∀ x ∈ a, S x) → ∀ x ∈ zipMerge f a b, S x
  | [], _, _, x, hx => by simp [zipMerge] at hx
  | _ :: _, [], h, x, hx => h x hx
  | x0 :: xs, y0 :: ys, h, x, hx => by
    simp only [zipMerge, List.mem_cons] at hx
    rcases hx with hx | hx
    · subst hx; exact hf _ _ (h x0 (List.mem_cons_self ..))
    · exact zipMerge_all f S hf xs ys (fun w hw => h w (List.mem_cons_of_mem _ hw)) x hx

theorem zipMerge_rel {α} {R : α → α → Prop} (f : α → α → α) (hf : ∀ x y, R x y → R (f x y) x) :
    ∀ {a b : List α}, ListRel R a b → ListRel R (zipMerge f a b) a
  | [], [], _ => trivial
  | x :: xs, y :: ys, h => ⟨hf x y h.1, zipMerge_rel f hf (a := xs) (b := ys) h.2⟩
  | [], _ :: _, h => h.elim
  | _ :: _, [], h => h.elim

/-! ### identifying fields through a merge -/

theorem PsetInput.merge_idEq {x y : PsetInput} (h : PsetInput.IdEq x y) : PsetInput.IdEq (x.merge y) x := by
  obtain ⟨h1, h2, h3, h4, h5, h6, h7, h8, h9, h10⟩ := h
  constructor <;> simp only [PsetInput.merge]
  · rw [h3, maxOpt_self]
  · rw [h4, maxOpt_self]
  · rw [h5, mergeOpt_self]
  · rw [h6, mergeOpt_self]
  · rw [h7, mergeOpt_self]
  · rw [h8, mergeOpt_self]
  · rw [h9, mergeOpt_self]
  · rw [h10, mergeOpt_self]

theorem PsetOutput.merge_idEq {x y : PsetOutput} (h : PsetOutput.IdEq x y) : PsetOutput.IdEq (x.merge y) x := by
  obtain ⟨h1, h2, h3, h4, h5, h6⟩ := h
  constructor <;> simp only [PsetOutput.merge]
  · rw [h1, mergeOpt_self]
  · rw [h2, mergeOpt_self]
  · rw [h4, mergeOpt_self]
  · rw [h5, mergeOpt_self]
  · rw [h6, mergeOpt_self]

theorem PsetInput.Compat.idEq {x y : PsetInput} (h : PsetInput.Compat x y) : PsetInput.IdEq x y :=
  ⟨h.previousTxid, h.previousOutputIndex, h.requiredTimeLocktime, h.requiredHeightLocktime, h.issuanceValueAmount,
   h.issuanceValueComm, h.issuanceInflationKeys, h.issuanceInflationKeysComm, h.issuanceBlindingNonce,
   h.issuanceAssetEntropy⟩

theorem PsetOutput.Compat.idEq {x y : PsetOutput} (h : PsetOutput.Compat x y) : PsetOutput.IdEq x y :=
  ⟨h.amount, h.amountComm, h.scriptPubkey, h.asset, h.assetComm, h.ecdhPubkey⟩

theorem ListRel.imp {α} {R S : α → α → Prop} (hrs : ∀ x y, R x y → S x y) :
    ∀ {a b : List α}, ListRel R a b → ListRel S a b
  | [], [], _ => trivial
  | x :: xs, y :: ys, h => ⟨hrs x y h.1, ListRel.imp hrs (a := xs) (b := ys) h.2⟩
  | [], _ :: _, h => h.elim
  | _ :: _, [], h => h.elim

theorem ListRel.and3 {α} {R : α → α → Prop} {S : α → Prop} :
    ∀ {a b : List α}, (∀ x ∈ a, S x) → (∀ y ∈ b, S y) → ListRel R a b → ListRel (fun x y => S x ∧ S y ∧ R x y) a b
  | [], [], _, _, _ => trivial
  | x :: xs, y :: ys, h1, h2, h3 =>
    ⟨⟨h1 x (List.mem_cons_self ..), h2 y (List.mem_cons_self ..), h3.1⟩,
     ListRel.and3 (a := xs) (b := ys) (fun w hw => h1 w (List.mem_cons_of_mem _ hw))
       (fun w hw => h2 w (List.mem_cons_of_mem _ hw)) h3.2⟩
  | [], _ :: _, _, _, h => h.elim
  | _ :: _, [], _, _, h => h.elim

theorem ListRel.symm {α} {R : α → α → Prop} (hr : ∀ x y, R x y → R y x) :
    ∀ {a b : List α}, ListRel R a b → ListRel R b a
  | [], [], _ => trivial
  | x :: xs, y :: ys, h => ⟨hr x y h.1, ListRel.symm hr (a := xs) (b := ys) h.2⟩
  | [], _ :: _, h => h.elim
  | _ :: _, [], h => h.elim

theorem ListRel.trans {α} {R : α → α → Prop} (hr : ∀ x y z, R x y → R y z → R x z) :
    ∀ {a b c : List α}, ListRel R a b → ListRel R b c → ListRel R a c
  | [], [], [], _, _ => trivial
  | x :: xs, y :: ys, z :: zs, h1, h2 => ⟨hr x y z h1.1 h2.1, ListRel.trans hr (a := xs) (b := ys) (c := zs) h1.2 h2.2⟩
  | [], [], _ :: _, _, h => h.elim
  | [], _ :: _, _, h, _ => h.elim
  | _ :: _, [], _, h, _ => h.elim
  | _ :: _, _ :: _, [], _, h => h.elim

theorem PsetInput.IdEq.symm {x y : PsetInput} (h : PsetInput.IdEq x y) : PsetInput.IdEq y x := by
  obtain ⟨h1, h2, h3, h4, h5, h6, h7, h8, h9, h10⟩ := h
  exact ⟨h1.symm, h2.symm, h3.symm, h4.symm, h5.symm, h6.symm, h7.symm, h8.symm, h9.symm, h10.symm⟩
theorem PsetInput.IdEq.trans {x y z : PsetInput} (h : PsetInput.IdEq x y) (g : PsetInput.IdEq y z) : PsetInput.IdEq x z := by
  obtain ⟨h1, h2, h3, h4, h5, h6, h7, h8, h9, h10⟩ := h
  obtain ⟨g1, g2, g3, g4, g5, g6, g7, g8, g9, g10⟩ := g
  exact ⟨h1.trans g1, h2.trans g2, h3.trans g3, h4.trans g4, h5.trans g5, h6.trans g6, h7.trans g7, h8.trans g8,
    h9.trans g9, h10.trans g10⟩
theorem PsetOutput.IdEq.symm {x y : PsetOutput} (h : PsetOutput.IdEq x y) : PsetOutput.IdEq y x := by
  obtain ⟨h1, h2, h3, h4, h5, h6⟩ := h
  exact ⟨h1.symm, h2.symm, h3.symm, h4.symm, h5.symm, h6.symm⟩
theorem PsetOutput.IdEq.trans {x y z : PsetOutput} (h : PsetOutput.IdEq x y) (g : PsetOutput.IdEq y z) : PsetOutput.IdEq x z := by
  obtain ⟨h1, h2, h3, h4, h5, h6⟩ := h
  obtain ⟨g1, g2, g3, g4, g5, g6⟩ := g
  exact ⟨h1.trans g1, h2.trans g2, h3.trans g3, h4.trans g4, h5.trans g5, h6.trans g6⟩
theorem PsetGlobal.IdEq.symm {x y : PsetGlobal} (h : PsetGlobal.IdEq x y) : PsetGlobal.IdEq y x :=
  ⟨h.1.symm, h.2.symm, h.3.symm, h.4.symm⟩
theorem PsetGlobal.IdEq.trans {x y z : PsetGlobal} (h : PsetGlobal.IdEq x y) (g : PsetGlobal.IdEq y z) : PsetGlobal.IdEq x z :=
  ⟨h.1.trans g.1, h.2.trans g.2, h.3.trans g.3, h.4.trans g.4⟩
theorem Pset.IdEq.symm {a b : Pset} (h : Pset.IdEq a b) : Pset.IdEq b a :=
  ⟨h.global.symm, ListRel.symm (fun x y (h1 : PsetInput.IdEq x y) => h1.symm) h.inputs,
   ListRel.symm (fun x y (h1 : PsetOutput.IdEq x y) => h1.symm) h.outputs⟩
theorem Pset.IdEq.trans {a b c : Pset} (h : Pset.IdEq a b) (g : Pset.IdEq b c) : Pset.IdEq a c :=
  ⟨h.global.trans g.global,
   ListRel.trans (fun x y z (h1 : PsetInput.IdEq x y) (h2 : PsetInput.IdEq y z) => h1.trans h2) h.inputs g.inputs,
   ListRel.trans (fun x y z (h1 : PsetOutput.IdEq x y) (h2 : PsetOutput.IdEq y z) => h1.trans h2) h.outputs g.outputs⟩

namespace Pset

/-- operands that agree wherever both define a value and whose identifying fields coincide:
    descendants of a common ancestor by disjoint or identical additions of non-identifying fields -/
structure Compat (a b : Pset) : Prop where
  global : PsetGlobal.Compat a.global b.global
  inputs : ListRel PsetInput.Compat a.inputs b.inputs
  outputs : ListRel PsetOutput.Compat a.outputs b.outputs

theorem Compat.idEq {a b : Pset} (h : Compat a b) : Pset.IdEq a b :=
  ⟨⟨h.global.txVersion, h.global.fallbackLocktime, h.global.inputCount, h.global.outputCount⟩,
   ListRel.imp (fun _ _ => PsetInput.Compat.idEq) h.inputs, ListRel.imp (fun _ _ => PsetOutput.Compat.idEq) h.outputs⟩

/-! ### the gate -/

/-- both ids computable and equal: the gate is passed -/
theorem merge_of_uid_eq (H : Hashes) (a b : Pset) (u : Bytes) (ha : a.uniqueId H = .ok u) (hb : b.uniqueId H = .ok u) :
    merge H a b = a.mergeCore b := by
  unfold merge
  rw [ha, hb]
  simp

/-- `self` has no unique id: its error is returned -/
theorem merge_uid_err_left (H : Hashes) (a b : Pset) (e : String) (ha : a.uniqueId H = .err e) :
    merge H a b = .err e := by
  unfold merge
  rw [ha]

/-- `other` has no unique id: its error is returned -/
theorem merge_uid_err_right (H : Hashes) (a b : Pset) (u : Bytes) (e : String) (ha : a.uniqueId H = .ok u)
    (hb : b.uniqueId H = .err e) : merge H a b = .err e := by
  unfold merge
  rw [ha, hb]

/-- two proper ids that differ: `UniqueIdMismatch` -/
theorem merge_uid_mismatch (H : Hashes) (a b : Pset) (u v : Bytes) (ha : a.uniqueId H = .ok u)
    (hb : b.uniqueId H = .ok v) (h : u ≠ v) : merge H a b = .err "UniqueIdMismatch" := by
  unfold merge
  rw [ha, hb]
  simp only [ne_eq, h, not_false_eq_true, if_true]

/-- different unique-id results: refused, never a panic -/
theorem merge_of_uid_ne (H : Hashes) (a b : Pset) (h : a.uniqueId H ≠ b.uniqueId H) :
    ∃ e, merge H a b = .err e := by
  have hpa := uniqueId_no_panic H a
  have hpb := uniqueId_no_panic H b
  cases ha : a.uniqueId H with
  | panic s => exact absurd ha (hpa s)
  | err e => exact ⟨e, merge_uid_err_left H a b e ha⟩
  | ok u =>
    cases hb : b.uniqueId H with
    | panic s => exact absurd hb (hpb s)
    | err e => exact ⟨e, merge_uid_err_right H a b u e ha hb⟩
    | ok v =>
      have : u ≠ v := by intro huv; apply h; rw [ha, hb, huv]
      exact ⟨_, merge_uid_mismatch H a b u v ha hb this⟩

/-- without a unique id on either side there is no merge -/
theorem merge_err_of_no_id (H : Hashes) (a b : Pset) (h : (∃ e, a.uniqueId H = .err e) ∨ (∃ e, b.uniqueId H = .err e)) :
    ∃ e, merge H a b = .err e := by
  have hpa := uniqueId_no_panic H a
  cases ha : a.uniqueId H with
  | panic s => exact absurd ha (hpa s)
  | err e => exact ⟨e, merge_uid_err_left H a b e ha⟩
  | ok u =>
    rcases h with ⟨e, he⟩ | ⟨e, he⟩
    · rw [ha] at he; cases he
    · exact ⟨e, merge_uid_err_right H a b u e ha he⟩

theorem mergeCore_no_panic (a b : Pset) (s : String) : a.mergeCore b ≠ .panic s := by
  simp only [mergeCore]
  cases h : a.global.merge b.global with
  | ok g => simp
  | err e => simp
  | panic s' => exact absurd h (PsetGlobal.merge_no_panic _ _ _)

theorem merge_no_panic (H : Hashes) (a b : Pset) (s : String) : merge H a b ≠ .panic s := by
  have hpa := uniqueId_no_panic H a
  have hpb := uniqueId_no_panic H b
  cases ha : a.uniqueId H with
  | panic s' => exact absurd ha (hpa s')
  | err e => rw [merge_uid_err_left H a b e ha]; simp
  | ok u =>
    cases hb : b.uniqueId H with
    | panic s' => exact absurd hb (hpb s')
    | err e => rw [merge_uid_err_right H a b u e ha hb]; simp
    | ok v =>
      by_cases huv : u = v
      · subst huv; rw [merge_of_uid_eq H a b u ha hb]; exact mergeCore_no_panic a b s
      · rw [merge_uid_mismatch H a b u v ha hb huv]; simp

/-- a successful merge passed the gate — both ids exist and are equal — and is the core merge -/
theorem merge_ok_ids (H : Hashes) (a b m : Pset) (h : merge H a b = .ok m) :
    ∃ u, a.uniqueId H = .ok u ∧ b.uniqueId H = .ok u ∧ a.mergeCore b = .ok m := by
  have hpa := uniqueId_no_panic H a
  have hpb := uniqueId_no_panic H b
  cases ha : a.uniqueId H with
  | panic s' => exact absurd ha (hpa s')
  | err e => rw [merge_uid_err_left H a b e ha] at h; cases h
  | ok u =>
    cases hb : b.uniqueId H with
    | panic s' => exact absurd hb (hpb s')
    | err e => rw [merge_uid_err_right H a b u e ha hb] at h; cases h
    | ok v =>
      by_cases huv : u = v
      · subst huv
        rw [merge_of_uid_eq H a b u ha hb] at h
        exact ⟨u, rfl, rfl, h⟩
      · rw [merge_uid_mismatch H a b u v ha hb huv] at h; cases h

theorem merge_ok (H : Hashes) (a b m : Pset) (h : merge H a b = .ok m) :
    a.uniqueId H = b.uniqueId H ∧ a.mergeCore b = .ok m := by
  obtain ⟨u, ha, hb, hc⟩ := merge_ok_ids H a b m h
  exact ⟨by rw [ha, hb], hc⟩

theorem mergeCore_ok (a b m : Pset) (h : a.mergeCore b = .ok m) :
    a.global.merge b.global = .ok m.global ∧ m.inputs = zipMerge PsetInput.merge a.inputs b.inputs ∧
    m.outputs = zipMerge PsetOutput.merge a.outputs b.outputs := by
  simp only [mergeCore] at h
  cases hg : a.global.merge b.global with
  | ok g =>
    rw [hg] at h
    simp only [Res.ok.injEq] at h
    subst h
    exact ⟨rfl, rfl, rfl⟩
  | err e => rw [hg] at h; cases h
  | panic s => rw [hg] at h; cases h

/-! ### nothing is lost -/

/-- what "nothing lost" means for a whole PSET: global fields, and position by position every
    input and output (the result has as many inputs/outputs as `self`) -/
structure Keeps (a b m : Pset) : Prop where
  global : PsetGlobal.Keeps a.global b.global m.global
  nInputs : m.inputs.length = a.inputs.length
  nOutputs : m.outputs.length = a.outputs.length
  inputs : ∀ (j : Nat) x y, a.inputs[j]? = some x → b.inputs[j]? = some y →
    ∃ z, m.inputs[j]? = some z ∧ PsetInput.Keeps x y z
  outputs : ∀ (j : Nat) x y, a.outputs[j]? = some x → b.outputs[j]? = some y →
    ∃ z, m.outputs[j]? = some z ∧ PsetOutput.Keeps x y z

theorem mergeCore_keeps (a b m : Pset) (hb : b.Sorted) (h : a.mergeCore b = .ok m) : Keeps a b m := by
  obtain ⟨hg, hi, ho⟩ := mergeCore_ok a b m h
  refine ⟨PsetGlobal.merge_keeps _ _ _ hb.1 hg, ?_, ?_, ?_, ?_⟩
  · rw [hi, zipMerge_length]
  · rw [ho, zipMerge_length]
  · intro j x y hx hy
    refine ⟨x.merge y, ?_, PsetInput.merge_keeps x y (hb.2.1 y (List.mem_of_getElem? hy))⟩
    rw [hi]; exact zipMerge_getElem? _ _ _ j x y hx hy
  · intro j x y hx hy
    refine ⟨x.merge y, ?_, PsetOutput.merge_keeps x y (hb.2.2 y (List.mem_of_getElem? hy))⟩
    rw [ho]; exact zipMerge_getElem? _ _ _ j x y hx hy

theorem mergeCore_sorted (a b m : Pset) (ha : a.Sorted) (h : a.mergeCore b = .ok m) : m.Sorted := by
  obtain ⟨hg, hi, ho⟩ := mergeCore_ok a b m h
  refine ⟨PsetGlobal.merge_sorted _ _ _ ha.1 hg, ?_, ?_⟩
  · rw [hi]; exact zipMerge_all _ _ (fun x y hx => PsetInput.merge_sorted x y hx) _ _ ha.2.1
  · rw [ho]; exact zipMerge_all _ _ (fun x y hx => PsetOutput.merge_sorted x y hx) _ _ ha.2.2

/-! ### the id is kept -/

theorem mergeCore_idEq (a b m : Pset) (hid : Pset.IdEq a b) (h : a.mergeCore b = .ok m) : Pset.IdEq m a := by
  obtain ⟨hg, hi, ho⟩ := mergeCore_ok a b m h
  refine ⟨?_, ?_, ?_⟩
  · simp only [PsetGlobal.merge] at hg
    cases hx : mergeXpub a.global.xpub b.global.xpub with
    | ok xp =>
      rw [hx] at hg
      simp only [Res.ok.injEq] at hg
      rw [← hg]
      exact ⟨rfl, by show mergeOpt a.global.fallbackLocktime b.global.fallbackLocktime = _
                     rw [hid.global.fallbackLocktime, mergeOpt_self], rfl, rfl⟩
    | err e => rw [hx] at hg; cases hg
    | panic s => rw [hx] at hg; cases hg
  · rw [hi]; exact zipMerge_rel _ (fun x y hxy => PsetInput.merge_idEq hxy) hid.inputs
  · rw [ho]; exact zipMerge_rel _ (fun x y hxy => PsetOutput.merge_idEq hxy) hid.outputs

/-! ### order-insensitivity -/

theorem mergeCore_comm (a b : Pset) (ha : a.Sorted) (hb : b.Sorted) (hc : Compat a b) :
    a.mergeCore b = b.mergeCore a := by
  simp only [mergeCore]
  rw [PsetGlobal.merge_comm _ _ ha.1 hb.1 hc.global]
  have e1 : zipMerge PsetInput.merge a.inputs b.inputs = zipMerge PsetInput.merge b.inputs a.inputs :=
    zipMerge_comm _ (fun x y h => PsetInput.merge_comm x y h.1 h.2.1 h.2.2) (ListRel.and3 ha.2.1 hb.2.1 hc.inputs)
  have e2 : zipMerge PsetOutput.merge a.outputs b.outputs = zipMerge PsetOutput.merge b.outputs a.outputs :=
    zipMerge_comm _ (fun x y h => PsetOutput.merge_comm x y h.1 h.2.1 h.2.2) (ListRel.and3 ha.2.2 hb.2.2 hc.outputs)
  rw [e1, e2]

/-- pairwise agreement of the global xpub key sources -/
def XpubAgree (a b : Pset) : Prop := KV.Agree a.global.xpub b.global.xpub

theorem mergeCore_assoc (a b c ab bc : Pset) (ha : a.Sorted) (hb : b.Sorted) (hc : c.Sorted)
    (li : a.inputs.length = b.inputs.length) (li' : b.inputs.length = c.inputs.length)
    (lo : a.outputs.length = b.outputs.length) (lo' : b.outputs.length = c.outputs.length)
    (xab : XpubAgree a b) (xbc : XpubAgree b c) (xac : XpubAgree a c)
    (h1 : a.mergeCore b = .ok ab) (h2 : b.mergeCore c = .ok bc) : ab.mergeCore c = a.mergeCore bc := by
  obtain ⟨g1, i1, o1⟩ := mergeCore_ok a b ab h1
  obtain ⟨g2, i2, o2⟩ := mergeCore_ok b c bc h2
  simp only [mergeCore]
  rw [PsetGlobal.merge_assoc a.global b.global c.global ab.global bc.global ha.1 hb.1 hc.1 xab xbc xac g1 g2,
    i1, i2, o1, o2,
    zipMerge_assoc PsetInput.merge PsetInput.Sorted (fun x y z => PsetInput.merge_assoc x y z) _ _ _ li li' ha.2.1 hb.2.1 hc.2.1,
    zipMerge_assoc PsetOutput.merge PsetOutput.Sorted (fun x y z => PsetOutput.merge_assoc x y z) _ _ _ lo lo' ha.2.2 hb.2.2 hc.2.2]

/-! ### compatibility is closed under merging: families of descendants -/

end Pset

theorem zipMerge_rel3 {α} {R : α → α → Prop} {S : α → Prop} (f : α → α → α)
    (hf : ∀ x y z, S y → R x z → R y z → R (f x y) z) :
    ∀ {a b c : List α}, (∀ y ∈ b, S y) → ListRel R a c → ListRel R b c → ListRel R (zipMerge f a b) c
  | [], [], [], _, _, _ => trivial
  | x :: xs, y :: ys, z :: zs, hs, h1, h2 =>
    ⟨hf x y z (hs y (List.mem_cons_self ..)) h1.1 h2.1,
     zipMerge_rel3 f hf (a := xs) (b := ys) (c := zs) (fun w hw => hs w (List.mem_cons_of_mem _ hw)) h1.2 h2.2⟩
  | [], [], _ :: _, _, h, _ => h.elim
  | [], _ :: _, [], _, _, h => h.elim
  | [], _ :: _, _ :: _, _, h, _ => h.elim
  | _ :: _, [], [], _, h, _ => h.elim
  | _ :: _, [], _ :: _, _, _, h => h.elim
  | _ :: _, _ :: _, [], _, h, _ => h.elim

theorem PsetGlobal.merge_compat (x y z xy : PsetGlobal) (hy : y.Sorted) (hxy : KV.Agree x.xpub y.xpub)
    (h1 : PsetGlobal.Compat x z) (h2 : PsetGlobal.Compat y z) (hm : x.merge y = .ok xy) : PsetGlobal.Compat xy z := by
  rw [PsetGlobal.merge_of_agree x y hy.1 hxy] at hm
  simp only [Res.ok.injEq] at hm
  subst hm
  exact ⟨h1.txVersion, by show mergeOpt x.fallbackLocktime y.fallbackLocktime = _
                          rw [h1.fallbackLocktime, h2.fallbackLocktime, mergeOpt_self], h1.inputCount, h1.outputCount,
    KV.agree_extend hy.1 h1.xpub h2.xpub, optAgree_mergeOpt h1.elementsTxModifiableFlag h2.elementsTxModifiableFlag,
    KV.agree_extend hy.2.1 h1.proprietary h2.proprietary, KV.agree_extend hy.2.2 h1.unknown h2.unknown⟩

namespace PsetInput
theorem Compat.symm {x y : PsetInput} (h : Compat x y) : Compat y x := by
  constructor
  all_goals first
    | exact optAgree_symm (by first
        | exact h.nonWitnessUtxo | exact h.witnessUtxo | exact h.sighashType | exact h.redeemScript | exact h.witnessScript
        | exact h.finalScriptSig | exact h.finalScriptWitness | exact h.sequence | exact h.tapKeySig | exact h.tapInternalKey
        | exact h.tapMerkleRoot | exact h.issuanceValueRangeproof | exact h.issuanceKeysRangeproof | exact h.peginTx
        | exact h.peginTxoutProof | exact h.peginGenesisHash | exact h.peginClaimScript | exact h.peginValue | exact h.peginWitness
        | exact h.inUtxoRangeproof | exact h.inIssuanceBlindValueProof | exact h.inIssuanceBlindInflationKeysProof | exact h.amount
        | exact h.blindValueProof | exact h.asset | exact h.blindAssetProof | exact h.blindedIssuance)
    | exact KV.agree_symm (by first
        | exact h.partialSigs | exact h.bip32Derivation | exact h.ripemd160Preimages | exact h.sha256Preimages
        | exact h.hash160Preimages | exact h.hash256Preimages | exact h.tapScriptSigs | exact h.tapScripts | exact h.tapKeyOrigins
        | exact h.proprietary | exact h.unknown)
    | exact Eq.symm (by first
        | exact h.previousTxid | exact h.previousOutputIndex | exact h.requiredTimeLocktime | exact h.requiredHeightLocktime
        | exact h.issuanceValueAmount | exact h.issuanceValueComm | exact h.issuanceInflationKeys | exact h.issuanceInflationKeysComm
        | exact h.issuanceBlindingNonce | exact h.issuanceAssetEntropy)
end PsetInput

namespace PsetOutput
theorem Compat.symm {x y : PsetOutput} (h : Compat x y) : Compat y x := by
  constructor
  all_goals first
    | exact optAgree_symm (by first
        | exact h.redeemScript | exact h.witnessScript | exact h.tapInternalKey | exact h.tapTree | exact h.valueRangeproof
        | exact h.assetSurjectionProof | exact h.blindingKey | exact h.blinderIndex | exact h.blindValueProof | exact h.blindAssetProof)
    | exact KV.agree_symm (by first
        | exact h.bip32Derivation | exact h.tapKeyOrigins | exact h.proprietary | exact h.unknown)
    | exact Eq.symm (by first
        | exact h.amount | exact h.amountComm | exact h.scriptPubkey | exact h.asset | exact h.assetComm | exact h.ecdhPubkey)
end PsetOutput

theorem PsetGlobal.Compat.symm {x y : PsetGlobal} (h : PsetGlobal.Compat x y) : PsetGlobal.Compat y x :=
  ⟨h.txVersion.symm, h.fallbackLocktime.symm, h.inputCount.symm, h.outputCount.symm, KV.agree_symm h.xpub,
   optAgree_symm h.elementsTxModifiableFlag, KV.agree_symm h.proprietary, KV.agree_symm h.unknown⟩

namespace Pset

theorem Compat.symm {a b : Pset} (h : Compat a b) : Compat b a :=
  ⟨h.global.symm, ListRel.symm (fun x y (h1 : PsetInput.Compat x y) => h1.symm) h.inputs,
   ListRel.symm (fun x y (h1 : PsetOutput.Compat x y) => h1.symm) h.outputs⟩

/-- compatible operands always merge -/
theorem mergeCore_of_compat (a b : Pset) (hb : b.Sorted) (hc : Compat a b) : ∃ m, a.mergeCore b = .ok m := by
  simp only [mergeCore, PsetGlobal.merge_of_agree _ _ hb.1.1 hc.global.xpub]
  exact ⟨_, rfl⟩

/-- compatible operands with a unique id always merge -/
theorem merge_of_compat (H : Hashes) (a b : Pset) (u : Bytes) (hu : a.uniqueId H = .ok u) (hb : b.Sorted)
    (hc : Compat a b) : ∃ m, merge H a b = .ok m := by
  rw [merge_of_uid_eq H a b u hu (by rw [← uniqueId_congr H hc.idEq]; exact hu)]
  exact mergeCore_of_compat a b hb hc

/-- the merge of two members of a compatible family is compatible with every other member -/
theorem mergeCore_compat (a b c ab : Pset) (hb : b.Sorted) (hab : Compat a b) (hac : Compat a c) (hbc : Compat b c)
    (h : a.mergeCore b = .ok ab) : Compat ab c := by
  obtain ⟨hg, hi, ho⟩ := mergeCore_ok a b ab h
  refine ⟨PsetGlobal.merge_compat _ _ _ _ hb.1 hab.global.xpub hac.global hbc.global hg, ?_, ?_⟩
  · rw [hi]
    exact zipMerge_rel3 (S := PsetInput.Sorted) _ (fun x y z hy h1 h2 => PsetInput.merge_compat x y z hy h1 h2) hb.2.1 hac.inputs hbc.inputs
  · rw [ho]
    exact zipMerge_rel3 (S := PsetOutput.Sorted) _ (fun x y z hy h1 h2 => PsetOutput.merge_compat x y z hy h1 h2) hb.2.2 hac.outputs hbc.outputs

/-- `merge` lifted to results: the first failure wins -/
def mergeR (H : Hashes) (x y : Res Pset) : Res Pset :=
  match x, y with
  | .ok a, .ok b => merge H a b
  | .ok _, .err e => .err e
  | .ok _, .panic s => .panic s
  | .err e, _ => .err e
  | .panic s, _ => .panic s

/-- a family: sorted maps (what `BTreeMap`s are), pairwise compatible -/
structure Family3 (a b c : Pset) : Prop where
  sa : a.Sorted
  sb : b.Sorted
  sc : c.Sorted
  ab : Compat a b
  ac : Compat a c
  bc : Compat b c

theorem Family3.swap12 {a b c : Pset} (h : Family3 a b c) : Family3 b a c :=
  ⟨h.sb, h.sa, h.sc, h.ab.symm, h.bc, h.ac⟩
theorem Family3.swap23 {a b c : Pset} (h : Family3 a b c) : Family3 a c b :=
  ⟨h.sa, h.sc, h.sb, h.ac, h.ab, h.bc.symm⟩

theorem merge_comm_top (H : Hashes) (a b : Pset) (ha : a.Sorted) (hb : b.Sorted) (hc : Compat a b) :
    merge H a b = merge H b a := by
  have hid := uniqueId_congr H hc.idEq
  have hpa := uniqueId_no_panic H a
  cases hu : a.uniqueId H with
  | panic s => exact absurd hu (hpa s)
  | err e =>
    rw [merge_uid_err_left H a b e hu, merge_uid_err_left H b a e (by rw [← hid]; exact hu)]
  | ok u =>
    have hub : b.uniqueId H = .ok u := by rw [← hid]; exact hu
    rw [merge_of_uid_eq H a b u hu hub, merge_of_uid_eq H b a u hub hu]
    exact mergeCore_comm a b ha hb hc

theorem merge_assoc_top (H : Hashes) (a b c ab bc : Pset) (ha : a.Sorted) (hb : b.Sorted) (hc : c.Sorted)
    (iab : Pset.IdEq a b) (ibc : Pset.IdEq b c)
    (xab : XpubAgree a b) (xbc : XpubAgree b c) (xac : XpubAgree a c)
    (h1 : merge H a b = .ok ab) (h2 : merge H b c = .ok bc) : merge H ab c = merge H a bc := by
  obtain ⟨u, ua, ub, c1⟩ := merge_ok_ids H a b ab h1
  obtain ⟨v, ub', uc, c2⟩ := merge_ok_ids H b c bc h2
  have huv : v = u := by rw [ub] at ub'; exact (Res.ok.inj ub').symm
  subst huv
  have i1 : Pset.IdEq ab a := mergeCore_idEq a b ab iab c1
  have i2 : Pset.IdEq bc b := mergeCore_idEq b c bc ibc c2
  have uab : ab.uniqueId H = .ok v := by rw [uniqueId_congr H i1]; exact ua
  have ubc : bc.uniqueId H = .ok v := by rw [uniqueId_congr H i2]; exact ub
  rw [merge_of_uid_eq H ab c v uab uc, merge_of_uid_eq H a bc v ua ubc]
  exact mergeCore_assoc a b c ab bc ha hb hc iab.inputs.length_eq ibc.inputs.length_eq iab.outputs.length_eq
    ibc.outputs.length_eq xab xbc xac c1 c2

/-- left-nested and right-nested merge of three -/
def mergeL (H : Hashes) (a b c : Pset) : Res Pset := mergeR H (mergeR H (.ok a) (.ok b)) (.ok c)
def mergeRt (H : Hashes) (a b c : Pset) : Res Pset := mergeR H (.ok a) (mergeR H (.ok b) (.ok c))

/-- every member of a family has the unique id of the first -/
theorem Family3.uids (H : Hashes) {a b c : Pset} (h : Family3 a b c) (u : Bytes) (hu : a.uniqueId H = .ok u) :
    b.uniqueId H = .ok u ∧ c.uniqueId H = .ok u :=
  ⟨by rw [← uniqueId_congr H h.ab.idEq]; exact hu, by rw [← uniqueId_congr H h.ac.idEq]; exact hu⟩

theorem mergeL_eq_mergeRt (H : Hashes) {a b c : Pset} (h : Family3 a b c) (u : Bytes) (hu : a.uniqueId H = .ok u) :
    mergeL H a b c = mergeRt H a b c := by
  obtain ⟨ub, _⟩ := h.uids H u hu
  obtain ⟨ab, hab⟩ := merge_of_compat H a b u hu h.sb h.ab
  obtain ⟨bc, hbc⟩ := merge_of_compat H b c u ub h.sc h.bc
  simp only [mergeL, mergeRt, mergeR, hab, hbc]
  exact merge_assoc_top H a b c ab bc h.sa h.sb h.sc h.ab.idEq h.bc.idEq h.ab.global.xpub h.bc.global.xpub
    h.ac.global.xpub hab hbc

theorem mergeL_swap12 (H : Hashes) {a b c : Pset} (h : Family3 a b c) : mergeL H a b c = mergeL H b a c := by
  simp only [mergeL, mergeR, merge_comm_top H a b h.sa h.sb h.ab]

theorem mergeRt_swap23 (H : Hashes) {a b c : Pset} (h : Family3 a b c) : mergeRt H a b c = mergeRt H a c b := by
  simp only [mergeRt, mergeR, merge_comm_top H b c h.sb h.sc h.bc]

theorem mergeL_swap23 (H : Hashes) {a b c : Pset} (h : Family3 a b c) (u : Bytes) (hu : a.uniqueId H = .ok u) :
    mergeL H a b c = mergeL H a c b := by
  rw [mergeL_eq_mergeRt H h u hu, mergeRt_swap23 H h, ← mergeL_eq_mergeRt H h.swap23 u hu]

/-- outer commutativity: `c ∪ (a ∪ b) = (a ∪ b) ∪ c` -/
theorem mergeR_outer_comm (H : Hashes) {a b c : Pset} (h : Family3 a b c) (u : Bytes) (hu : a.uniqueId H = .ok u) :
    mergeR H (.ok c) (mergeR H (.ok a) (.ok b)) = mergeL H a b c := by
  obtain ⟨ab, hab⟩ := merge_of_compat H a b u hu h.sb h.ab
  obtain ⟨_, cab⟩ := merge_ok H a b ab hab
  simp only [mergeL, mergeR, hab]
  have hs : ab.Sorted := mergeCore_sorted a b ab h.sa cab
  have hc : Compat ab c := mergeCore_compat a b c ab h.sb h.ab h.ac h.bc cab
  exact (merge_comm_top H ab c hs h.sc hc).symm

end Pset
end EV
