/-
  EV.Proofs.BridgePsetSize — BRIDGE C08 (PSET `extract_tx`) → C01 (consensus codec) → C12 (sizes).

  `PartiallySignedTransaction::extract_tx` builds a `Transaction` from PSET fields.  The codec laws
  (C01) and the size theorems (C12) speak about *canonical* transactions (`Tx.wf`).  Here canonicity
  of the extracted transaction is characterised by conditions on the PSET FIELDS themselves
  (`InputFieldsOk`, `OutputFieldsOk`, `PsetFieldsOk`): per input/output these are not only sufficient
  but equivalent to the canonicity of the `TxIn`/`TxOut` that `extract_tx` builds
  (`inputFieldsOk_iff`, `outputFieldsOk_iff`, `extract_wf_iff`).  Consequences: what `extract_tx`
  returns serializes, decodes back to itself, and `Transaction::size()` / `weight()` / `vsize()` of it
  are the numbers of bytes written (`extract_size_eq`, `extract_weight_eq`, `extract_roundtrip`), with
  the size as an explicit sum over the PSET maps (`extract_size_formula`).  Conversely every PSET
  made by `from_tx` out of a canonical transaction satisfies the field conditions (`fromTx_fieldsOk`),
  also where `extract_tx (from_tx tx) ≠ tx` (explicit nonces, finding class F12bc).
-/
import EV.Model.Pset
import EV.Proofs.CodecTx
import EV.Proofs.PsetRoundTrip
import EV.Proofs.PsetExtract
namespace EV.Proofs.BridgePsetSize
open EV EV.Codec EV.Proofs.CodecTx EV.Proofs.PsetExtract EV.Proofs.PsetRoundTrip

/-! ### field-level conditions -/

/-- an (explicit amount, commitment) field pair as `extract_tx` reads it (the commitment wins):
    a commitment is 33 bytes with prefix 8/9 accepted by `PedersenCommitment::from_slice`; an explicit
    amount alone is a `u64`; nothing is required of an explicit amount shadowed by a commitment -/
def PairValueOk (P : Prims) : Option Nat → Option Bytes → Prop
  | _, some c => c.length = 33 ∧ (c.head? = some 8 ∨ c.head? = some 9) ∧ P.commitment c = true
  | some x, none => x < 2^64
  | none, none => True

/-- an (asset id, asset generator) field pair (the generator wins): the generator is 33 bytes with
    prefix 0x0a/0x0b accepted by `Generator::from_slice`; an asset id alone is 32 bytes -/
def PairAssetOk (P : Prims) : Option Bytes → Option Bytes → Prop
  | _, some g => g.length = 33 ∧ (g.head? = some 0x0a ∨ g.head? = some 0x0b) ∧ P.generator g = true
  | some a, none => a.length = 32
  | none, none => True

/-- the `ecdh_pubkey` field: absent, or a key whose compressed form (`pk.inner`) is 33 bytes with
    prefix 2/3 accepted by `PublicKey::from_slice` -/
def NonceOk (P : Prims) : Option Bytes → Prop
  | none => True
  | some k => (compressPk k).length = 33 ∧ ((compressPk k).head? = some 2 ∨ (compressPk k).head? = some 3) ∧
      P.pubkey (compressPk k) = true

/-- the fields of one PSET input that `extract_tx` reads, constrained so that the `TxIn` it builds is
    canonical.  Index: an index whose low 30 bits are all ones and whose pegin bit (30) is set — for a
    `u32` that is `0x7fffffff` and the coinbase index `0xffffffff` — allows no issuance (with the
    issuance flag it would serialize as / already is the flag-less coinbase index).  Issuance:
    present (`Input::has_issuance`, i.e. one of the four amount fields is set) ⇒ nonce (default: 32
    zero bytes) is 32 bytes accepted by `Tweak::from_inner`, entropy 32 bytes, both amounts valid;
    absent ⇒ a nonce/entropy, if set, is all-zero (a stray one would not be serialized). -/
def InputFieldsOk (P : Prims) (i : PsetInput) : Prop :=
  i.previousTxid.length = 32 ∧
  ((i.previousOutputIndex % 2^30 = 2^30 - 1 ∧ i.previousOutputIndex.testBit 30 = true) → i.hasIssuance = false) ∧
  (∀ s, i.finalScriptSig = some s → s.length ≤ maxVecSize) ∧
  (∀ n, i.sequence = some n → n < 2^32) ∧
  (if i.hasIssuance then
     (i.issuanceBlindingNonce.getD zero32).length = 32 ∧
     P.tweak (i.issuanceBlindingNonce.getD zero32) = true ∧
     (i.issuanceAssetEntropy.getD zero32).length = 32 ∧
     PairValueOk P i.issuanceValueAmount i.issuanceValueComm ∧
     PairValueOk P i.issuanceInflationKeys i.issuanceInflationKeysComm
   else
     i.issuanceBlindingNonce.getD zero32 = zero32 ∧ i.issuanceAssetEntropy.getD zero32 = zero32) ∧
  wfOptProof P.rangeproof i.issuanceValueRangeproof ∧
  wfOptProof P.rangeproof i.issuanceKeysRangeproof ∧
  (∀ w, i.finalScriptWitness = some w → TxInWitness.wfStack w) ∧
  (∀ w, i.peginWitness = some w → TxInWitness.wfStack w)

/-- the fields of one PSET output that `extract_tx` reads -/
def OutputFieldsOk (P : Prims) (o : PsetOutput) : Prop :=
  PairAssetOk P o.asset o.assetComm ∧
  PairValueOk P o.amount o.amountComm ∧
  NonceOk P o.ecdhPubkey ∧
  o.scriptPubkey.length ≤ maxVecSize ∧
  wfOptProof P.surjproof o.assetSurjectionProof ∧
  wfOptProof P.rangeproof o.valueRangeproof

/-- every stated lock time (fallback, per-input time and height requirements) is a `u32` -/
def LockFieldsOk (p : Pset) : Prop :=
  (∀ x, p.global.fallbackLocktime = some x → x < 2^32) ∧
  (∀ i ∈ p.inputs, (∀ x, i.requiredTimeLocktime = some x → x < 2^32) ∧
                   (∀ x, i.requiredHeightLocktime = some x → x < 2^32))

/-- the whole PSET: `u32` transaction version, `u32` lock times, the two vector-allocation bounds of
    the decoder (`len * size_of::<T>() ≤ MAX_VEC_SIZE`), every input and every output -/
def PsetFieldsOk (P : Prims) (p : Pset) : Prop :=
  p.global.txVersion < 2^32 ∧
  LockFieldsOk p ∧
  p.inputs.length * P.sizeTxIn ≤ maxVecSize ∧
  p.outputs.length * P.sizeTxOut ≤ maxVecSize ∧
  (∀ i ∈ p.inputs, InputFieldsOk P i) ∧
  (∀ o ∈ p.outputs, OutputFieldsOk P o)

/-! ### field pairs ⇄ confidential values -/

theorem pairValueOk_iff (P : Prims) (a : Option Nat) (c : Option Bytes) :
    PairValueOk P a c ↔ (PsetInput.pairValue a c).wf P := by
  cases a <;> cases c <;> exact Iff.rfl

theorem pairAssetOk_iff (P : Prims) (a g : Option Bytes) :
    PairAssetOk P a g ↔ (PsetOutput.pairAsset a g).wf P := by
  cases a <;> cases g <;> exact Iff.rfl

theorem nonceOk_iff (P : Prims) (k : Option Bytes) : NonceOk P k ↔ (PsetOutput.nonceOf k).wf P := by
  cases k <;> exact Iff.rfl

/-- an optional field read with a default: a condition on the field when present ⇄ the condition on
    the value read, provided the default satisfies it -/
theorem opt_getD_iff {α : Type} (o : Option α) (d : α) (Q : α → Prop) (hd : Q d) :
    (∀ x, o = some x → Q x) ↔ Q (o.getD d) := by
  cases o with
  | none => exact ⟨fun _ => hd, fun _ x h => by cases h⟩
  | some v => exact ⟨fun h => h v rfl, fun h x e => by cases e; exact h⟩

theorem wfStack_nil : TxInWitness.wfStack [] :=
  ⟨by simp only [List.length_nil, Nat.zero_mul, Nat.zero_le], fun b hb => by cases hb⟩

/-- `Input::has_issuance` is `TxIn::has_issuance` of the extracted input -/
theorem toTxIn_hasIssuance (i : PsetInput) : i.toTxIn.hasIssuance = i.hasIssuance := rfl

/-- `Input::has_issuance` in terms of the four amount fields -/
theorem hasIssuance_false_iff (i : PsetInput) :
    i.hasIssuance = false ↔
      i.issuanceValueAmount = none ∧ i.issuanceValueComm = none ∧
      i.issuanceInflationKeys = none ∧ i.issuanceInflationKeysComm = none := by
  unfold PsetInput.hasIssuance PsetInput.assetIssuance AssetIssuance.isNull
  cases i.issuanceValueAmount <;> cases i.issuanceValueComm <;>
    cases i.issuanceInflationKeys <;> cases i.issuanceInflationKeysComm <;>
    simp [PsetInput.pairValue, Value.isNull]

theorem value_isNull_iff (v : Value) : v.isNull = true ↔ v = .null := by
  cases v <;> simp [Value.isNull]

/-- without issuance amounts the extracted issuance is the null one exactly when nonce and entropy
    read as zero -/
theorem assetIssuance_null_iff (i : PsetInput) (h : i.hasIssuance = false) :
    i.assetIssuance = AssetIssuance.null ↔
      (i.issuanceBlindingNonce.getD zero32 = zero32 ∧ i.issuanceAssetEntropy.getD zero32 = zero32) := by
  have hn : i.assetIssuance.isNull = true := by
    have : (!i.assetIssuance.isNull) = false := h
    cases hb : i.assetIssuance.isNull
    · rw [hb] at this; cases this
    · rfl
  unfold AssetIssuance.isNull at hn
  rw [Bool.and_eq_true, value_isNull_iff, value_isNull_iff] at hn
  obtain ⟨ha, hk⟩ := hn
  have hA : PsetInput.pairValue i.issuanceValueAmount i.issuanceValueComm = .null := ha
  have hK : PsetInput.pairValue i.issuanceInflationKeys i.issuanceInflationKeysComm = .null := hk
  unfold PsetInput.assetIssuance AssetIssuance.null
  rw [hA, hK]
  constructor
  · intro e
    injection e with e1 e2
    exact ⟨e1, e2⟩
  · rintro ⟨e1, e2⟩
    rw [e1, e2]
    rfl

/-- the index condition of `TxIn.wfBody` in terms of the raw PSET index -/
theorem index_iff (i : PsetInput) :
    ((i.plainIndex < 2^30 ∧ ¬ (i.plainIndex = 2^30 - 1 ∧ i.isPegin = true ∧ i.hasIssuance = true)) ∨
     (i.plainIndex = 0xffffffff ∧ i.isPegin = false ∧ i.hasIssuance = false)) ↔
    ((i.previousOutputIndex % 2^30 = 2^30 - 1 ∧ i.previousOutputIndex.testBit 30 = true) → i.hasIssuance = false) := by
  unfold PsetInput.plainIndex PsetInput.isPegin
  by_cases hc : i.previousOutputIndex = 0xffffffff
  · have h1 : i.previousOutputIndex % 2^30 = 2^30 - 1 := by rw [hc] <;> decide
    have h2 : i.previousOutputIndex.testBit 30 = true := by rw [hc] <;> decide
    have h3 : (i.previousOutputIndex != 0xffffffff) = false := by rw [hc] <;> decide
    rw [if_pos hc, h3, Bool.false_and]
    constructor
    · rintro (⟨hlt, _⟩ | ⟨_, _, hq⟩)
      · rw [hc] at hlt; exact absurd hlt (by decide)
      · exact fun _ => hq
    · intro h
      exact Or.inr ⟨hc, rfl, h ⟨h1, h2⟩⟩
  · have h3 : (i.previousOutputIndex != 0xffffffff) = true := by
      simp only [bne_iff_ne, ne_eq]; exact hc
    have hlt : i.previousOutputIndex % 2^30 < 2^30 := Nat.mod_lt _ (by decide)
    rw [if_neg hc, h3, Bool.true_and]
    constructor
    · rintro (⟨_, hn⟩ | ⟨he, _, _⟩)
      · intro ⟨ha, hb⟩
        cases hq : i.hasIssuance
        · rfl
        · exact absurd ⟨ha, hb, hq⟩ hn
      · rw [he] at hlt; exact absurd hlt (by decide)
    · intro h
      refine Or.inl ⟨hlt, ?_⟩
      rintro ⟨ha, hb, hq⟩
      have := h ⟨ha, hb⟩
      rw [hq] at this; cases this

/-! ### one input, one output -/

/-- **the input field conditions are exactly the canonicity of the extracted input** -/
theorem inputFieldsOk_iff (P : Prims) (i : PsetInput) : InputFieldsOk P i ↔ i.toTxIn.wf P := by
  have hss : (∀ s, i.finalScriptSig = some s → s.length ≤ maxVecSize) ↔
      (i.finalScriptSig.getD []).length ≤ maxVecSize :=
    opt_getD_iff i.finalScriptSig [] (fun s => s.length ≤ maxVecSize) (Nat.zero_le _)
  have hsq : (∀ n, i.sequence = some n → n < 2^32) ↔ i.sequence.getD 0xffffffff < 2^32 :=
    opt_getD_iff i.sequence 0xffffffff (fun n => n < 2^32) (by decide)
  have hsw : (∀ w, i.finalScriptWitness = some w → TxInWitness.wfStack w) ↔
      TxInWitness.wfStack (i.finalScriptWitness.getD []) :=
    opt_getD_iff i.finalScriptWitness [] TxInWitness.wfStack wfStack_nil
  have hpw : (∀ w, i.peginWitness = some w → TxInWitness.wfStack w) ↔
      TxInWitness.wfStack (i.peginWitness.getD []) :=
    opt_getD_iff i.peginWitness [] TxInWitness.wfStack wfStack_nil
  have hiss : (if i.hasIssuance then
       (i.issuanceBlindingNonce.getD zero32).length = 32 ∧
       P.tweak (i.issuanceBlindingNonce.getD zero32) = true ∧
       (i.issuanceAssetEntropy.getD zero32).length = 32 ∧
       PairValueOk P i.issuanceValueAmount i.issuanceValueComm ∧
       PairValueOk P i.issuanceInflationKeys i.issuanceInflationKeysComm
     else
       i.issuanceBlindingNonce.getD zero32 = zero32 ∧ i.issuanceAssetEntropy.getD zero32 = zero32) ↔
      (if i.hasIssuance then i.assetIssuance.wf P else i.assetIssuance = AssetIssuance.null) := by
    cases hq : i.hasIssuance
    · simp only [Bool.false_eq_true, if_false]
      exact (assetIssuance_null_iff i hq).symm
    · simp only [if_true]
      rw [pairValueOk_iff, pairValueOk_iff]
      exact Iff.rfl
  show _ ↔ (i.previousTxid.length = 32 ∧
      ((i.plainIndex < 2^30 ∧ ¬ (i.plainIndex = 2^30 - 1 ∧ i.isPegin = true ∧ i.hasIssuance = true)) ∨
       (i.plainIndex = 0xffffffff ∧ i.isPegin = false ∧ i.hasIssuance = false)) ∧
      (i.finalScriptSig.getD []).length ≤ maxVecSize ∧ i.sequence.getD 0xffffffff < 2^32 ∧
      (if i.hasIssuance then i.assetIssuance.wf P else i.assetIssuance = AssetIssuance.null)) ∧
     (wfOptProof P.rangeproof i.issuanceValueRangeproof ∧ wfOptProof P.rangeproof i.issuanceKeysRangeproof ∧
      TxInWitness.wfStack (i.finalScriptWitness.getD []) ∧ TxInWitness.wfStack (i.peginWitness.getD []))
  unfold InputFieldsOk
  rw [index_iff, hss, hsq, hsw, hpw, hiss]
  constructor
  · rintro ⟨a, b, c, d, e, f, g, h, k⟩
    exact ⟨⟨a, b, c, d, e⟩, f, g, h, k⟩
  · rintro ⟨⟨a, b, c, d, e⟩, f, g, h, k⟩
    exact ⟨a, b, c, d, e, f, g, h, k⟩

/-- the `TxOut` that `extract_tx` builds for an output that has an asset and a value -/
def outOf (o : PsetOutput) : TxOut :=
  { asset := PsetOutput.pairAsset o.asset o.assetComm
    value := PsetInput.pairValue o.amount o.amountComm
    nonce := PsetOutput.nonceOf o.ecdhPubkey
    scriptPubkey := o.scriptPubkey
    witness := ⟨o.assetSurjectionProof, o.valueRangeproof⟩ }

theorem extract_eq_outOf (o : PsetOutput) (t : TxOut) (h : o.extract = .ok t) : t = outOf o := by
  unfold PsetOutput.extract at h
  split at h
  · cases h
  · split at h
    · cases h
    · cases h; rfl

/-- **the output field conditions are exactly the canonicity of the extracted output** -/
theorem outputFieldsOk_iff (P : Prims) (o : PsetOutput) : OutputFieldsOk P o ↔ (outOf o).wf P := by
  unfold OutputFieldsOk
  rw [pairAssetOk_iff, pairValueOk_iff, nonceOk_iff]
  show _ ↔ ((PsetOutput.pairAsset o.asset o.assetComm).wf P ∧ (PsetInput.pairValue o.amount o.amountComm).wf P ∧
      (PsetOutput.nonceOf o.ecdhPubkey).wf P ∧ o.scriptPubkey.length ≤ maxVecSize) ∧
     (wfOptProof P.surjproof o.assetSurjectionProof ∧ wfOptProof P.rangeproof o.valueRangeproof)
  constructor
  · rintro ⟨a, b, c, d, e, f⟩
    exact ⟨⟨a, b, c, d⟩, e, f⟩
  · rintro ⟨⟨a, b, c, d⟩, e, f⟩
    exact ⟨a, b, c, d, e, f⟩

theorem extract_wf_out (P : Prims) (o : PsetOutput) (t : TxOut) (h : o.extract = .ok t) :
    OutputFieldsOk P o ↔ t.wf P := by
  rw [extract_eq_outOf o t h]
  exact outputFieldsOk_iff P o

/-- the output loop: on success the outputs are `outOf` of the PSET outputs, in order -/
theorem outputs_eq_map_outOf : ∀ (l : List PsetOutput) (ts : List TxOut),
    l.map PsetOutput.extract = ts.map Res.ok → ts = l.map outOf
  | [], [], _ => rfl
  | [], _ :: _, h => by cases h
  | _ :: _, [], h => by cases h
  | o :: l, t :: ts, h => by
    simp only [List.map_cons, List.cons.injEq] at h
    rw [List.map_cons, extract_eq_outOf o t h.1, outputs_eq_map_outOf l ts h.2]

/-! ### the lock time is a `u32` -/

/-- every `Minimum` carried by a lattice state is below the bound -/
def Below (B : Nat) : LockState → Prop
  | .minimum x => x < B
  | _ => True

theorem max_below {B : Nat} {a b : LockState} (ha : Below B a) (hb : Below B b) :
    Below B (LockState.max a b) := by
  unfold LockState.max
  split
  · exact hb
  · exact ha

theorem lockStep_below {B : Nat} (st : LockState × LockState) (r : LockReq)
    (h1 : Below B st.1) (h2 : Below B st.2)
    (hr1 : ∀ x, r.1 = some x → x < B) (hr2 : ∀ x, r.2 = some x → x < B) :
    Below B (lockStep st r).1 ∧ Below B (lockStep st r).2 := by
  obtain ⟨rt, rh⟩ := r
  cases rt with
  | none =>
    cases rh with
    | none => exact ⟨h1, h2⟩
    | some y => exact ⟨trivial, max_below h2 (hr2 y rfl)⟩
  | some x =>
    cases rh with
    | none => exact ⟨max_below h1 (hr1 x rfl), trivial⟩
    | some y => exact ⟨max_below h1 (hr1 x rfl), max_below h2 (hr2 y rfl)⟩

theorem foldl_below {B : Nat} (reqs : List LockReq)
    (hr : ∀ r ∈ reqs, (∀ x, r.1 = some x → x < B) ∧ (∀ x, r.2 = some x → x < B)) :
    ∀ st : LockState × LockState, Below B st.1 → Below B st.2 →
      Below B (reqs.foldl lockStep st).1 ∧ Below B (reqs.foldl lockStep st).2 := by
  induction reqs with
  | nil => intro st h1 h2; exact ⟨h1, h2⟩
  | cons r reqs ih =>
    intro st h1 h2
    obtain ⟨k1, k2⟩ := lockStep_below st r h1 h2 (hr r List.mem_cons_self).1 (hr r List.mem_cons_self).2
    exact ih (fun r' hr' => hr r' (List.mem_cons_of_mem _ hr')) _ k1 k2

theorem lockFinal_below {B : Nat} (hB : 0 < B) (fb : Option Nat) (st : LockState × LockState) (lt : Nat)
    (hfb : ∀ x, fb = some x → x < B) (h1 : Below B st.1) (h2 : Below B st.2)
    (h : lockFinal fb st = .ok lt) : lt < B := by
  obtain ⟨a, b⟩ := st
  cases a <;> cases b <;> simp only [lockFinal, Res.ok.injEq, reduceCtorEq] at h
  · subst h
    cases fb with
    | none => exact hB
    | some x => exact hfb x rfl
  · subst h; exact h2
  · subst h; exact h1
  · subst h; exact h2
  · subst h; exact h1
  · subst h; exact h2

/-- **`locktime()` returns one of the stated lock times (or the default 0): a `u32` when they all are** -/
theorem locktimeOf_lt {B : Nat} (hB : 0 < B) (fb : Option Nat) (reqs : List LockReq) (lt : Nat)
    (hfb : ∀ x, fb = some x → x < B)
    (hr : ∀ r ∈ reqs, (∀ x, r.1 = some x → x < B) ∧ (∀ x, r.2 = some x → x < B))
    (h : locktimeOf fb reqs = .ok lt) : lt < B := by
  obtain ⟨k1, k2⟩ := foldl_below reqs hr (.unconstrained, .unconstrained) trivial trivial
  exact lockFinal_below hB fb _ lt hfb k1 k2 h

theorem locktime_lt (p : Pset) (lt : Nat) (hl : LockFieldsOk p) (h : p.locktime = .ok lt) : lt < 2^32 := by
  refine locktimeOf_lt (by decide) p.global.fallbackLocktime p.lockReqs lt hl.1 ?_ h
  intro r hr
  unfold Pset.lockReqs at hr
  obtain ⟨i, hi, rfl⟩ := List.mem_map.1 hr
  exact hl.2 i hi

/-! ### the extracted transaction -/

/-- **exact**: when `extract_tx` succeeds, the result is canonical iff the version and the selected
    lock time are `u32`s, the two vector bounds hold, and every input and output satisfies the field
    conditions -/
theorem extract_wf_iff (P : Prims) (p : Pset) (t : Tx) (h : p.extractTx = .ok t) :
    t.wf P ↔
      (p.global.txVersion < 2^32 ∧ t.lockTime < 2^32 ∧
       p.inputs.length * P.sizeTxIn ≤ maxVecSize ∧ p.outputs.length * P.sizeTxOut ≤ maxVecSize ∧
       (∀ i ∈ p.inputs, InputFieldsOk P i) ∧ (∀ o ∈ p.outputs, OutputFieldsOk P o)) := by
  obtain ⟨_, _, hv, _, hi, ho⟩ := (extractTx_ok_iff p t).1 h
  have ho' := outputs_eq_map_outOf _ _ ho
  unfold Tx.wf
  rw [hv, hi, ho', List.length_map, List.length_map]
  have e1 : (∀ i ∈ p.inputs.map PsetInput.toTxIn, i.wf P) ↔ ∀ i ∈ p.inputs, InputFieldsOk P i := by
    constructor
    · intro hh i hm
      exact (inputFieldsOk_iff P i).2 (hh _ (List.mem_map.2 ⟨i, hm, rfl⟩))
    · intro hh x hm
      obtain ⟨i, hm', rfl⟩ := List.mem_map.1 hm
      exact (inputFieldsOk_iff P i).1 (hh i hm')
  have e2 : (∀ o ∈ p.outputs.map outOf, o.wf P) ↔ ∀ o ∈ p.outputs, OutputFieldsOk P o := by
    constructor
    · intro hh o hm
      exact (outputFieldsOk_iff P o).2 (hh _ (List.mem_map.2 ⟨o, hm, rfl⟩))
    · intro hh x hm
      obtain ⟨o, hm', rfl⟩ := List.mem_map.1 hm
      exact (outputFieldsOk_iff P o).1 (hh o hm')
  rw [e1, e2]

/-- **`extract_tx` of a PSET whose fields are in range is a canonical transaction** -/
theorem extract_wf (P : Prims) (p : Pset) (t : Tx) (h : p.extractTx = .ok t) (hp : PsetFieldsOk P p) :
    t.wf P := by
  obtain ⟨h1, hl, h3, h4, h5, h6⟩ := hp
  have hlt := ((extractTx_ok_iff p t).1 h).2.2.2.1
  exact (extract_wf_iff P p t h).2 ⟨h1, locktime_lt p t.lockTime hl hlt, h3, h4, h5, h6⟩

/-! ### the bridge proper -/

/-- `Transaction::size()` of the extracted transaction = bytes of its consensus serialization -/
theorem extract_size_eq (P : Prims) (p : Pset) (t : Tx) (h : p.extractTx = .ok t) (hp : PsetFieldsOk P p) :
    t.size = t.enc.length := size_eq_enc_length P t (extract_wf P p t h hp)

theorem extract_weight_eq (P : Prims) (p : Pset) (t : Tx) (h : p.extractTx = .ok t) (hp : PsetFieldsOk P p) :
    t.weight = 3 * t.encStripped.length + t.enc.length := weight_eq P t (extract_wf P p t h hp)

theorem extract_vsize_bracket (P : Prims) (p : Pset) (t : Tx) (h : p.extractTx = .ok t) (hp : PsetFieldsOk P p) :
    3 * t.encStripped.length + t.enc.length ≤ 4 * t.vsize ∧
    4 * t.vsize < 3 * t.encStripped.length + t.enc.length + 4 := by
  have := extract_weight_eq P p t h hp
  unfold Tx.vsize
  omega

/-- the extracted transaction decodes back to itself, stopping exactly at its end -/
theorem extract_roundtrip (P : Prims) (hs : SizesPos P) (p : Pset) (t : Tx) (h : p.extractTx = .ok t)
    (hp : PsetFieldsOk P p) (rest : Bytes) : Tx.dec P (t.enc ++ rest) = .ok (t, rest) :=
  (tx_lawful P hs).complete t rest (extract_wf P p t h hp)

theorem extract_deserialize (P : Prims) (hs : SizesPos P) (p : Pset) (t : Tx) (h : p.extractTx = .ok t)
    (hp : PsetFieldsOk P p) : Tx.deserialize P t.enc = .ok t := by
  have := extract_roundtrip P hs p t h hp []
  rw [List.append_nil] at this
  unfold Tx.deserialize
  rw [this]

/-- whether the extracted transaction is serialized with witnesses, from the PSET fields -/
def pHasWitness (p : Pset) : Bool :=
  p.inputs.any (fun i => i.issuanceValueRangeproof.isSome || i.issuanceKeysRangeproof.isSome ||
      !(i.finalScriptWitness.getD []).isEmpty || !(i.peginWitness.getD []).isEmpty) ||
  p.outputs.any (fun o => o.assetSurjectionProof.isSome || o.valueRangeproof.isSome)

theorem inWitness_nonEmpty (i : PsetInput) :
    (!i.toTxIn.witness.isEmpty) =
      (i.issuanceValueRangeproof.isSome || i.issuanceKeysRangeproof.isSome ||
        !(i.finalScriptWitness.getD []).isEmpty || !(i.peginWitness.getD []).isEmpty) := by
  show (!(i.issuanceValueRangeproof.isNone && i.issuanceKeysRangeproof.isNone &&
      (i.finalScriptWitness.getD []).isEmpty && (i.peginWitness.getD []).isEmpty)) = _
  cases i.issuanceValueRangeproof <;> cases i.issuanceKeysRangeproof <;>
    cases (i.finalScriptWitness.getD []).isEmpty <;> cases (i.peginWitness.getD []).isEmpty <;> rfl

theorem outWitness_nonEmpty (o : PsetOutput) :
    (!(outOf o).witness.isEmpty) = (o.assetSurjectionProof.isSome || o.valueRangeproof.isSome) := by
  show (!(o.assetSurjectionProof.isNone && o.valueRangeproof.isNone)) = _
  cases o.assetSurjectionProof <;> cases o.valueRangeproof <;> rfl

theorem extract_hasWitness (p : Pset) (t : Tx) (h : p.extractTx = .ok t) : t.hasWitness = pHasWitness p := by
  obtain ⟨_, _, _, _, hi, ho⟩ := (extractTx_ok_iff p t).1 h
  have ho' := outputs_eq_map_outOf _ _ ho
  unfold Tx.hasWitness pHasWitness
  rw [hi, ho', List.any_map, List.any_map]
  congr 1
  · apply congrArg (fun f => List.any p.inputs f)
    funext i
    exact inWitness_nonEmpty i
  · apply congrArg (fun f => List.any p.outputs f)
    funext o
    exact outWitness_nonEmpty o

/-- **`scaled_size` of the extracted transaction as a sum over the PSET's input and output maps**
    (no canonicity needed: this is the arithmetic of `Transaction::scaled_size` on what `extract_tx`
    builds) -/
theorem extract_scaledSize_formula (p : Pset) (t : Tx) (h : p.extractTx = .ok t) (k : Nat) :
    t.scaledSize k =
      k * (4 + 4 + varintSize p.inputs.length + varintSize p.outputs.length + 1) +
      (p.inputs.map (fun i => Tx.inputScaled k (pHasWitness p) i.toTxIn)).sum +
      (p.outputs.map (fun o => Tx.outputScaled k (pHasWitness p) (outOf o))).sum := by
  have hw := extract_hasWitness p t h
  obtain ⟨_, _, _, _, hi, ho⟩ := (extractTx_ok_iff p t).1 h
  have ho' := outputs_eq_map_outOf _ _ ho
  unfold Tx.scaledSize
  rw [hw, hi, ho', List.length_map, List.length_map, List.map_map, List.map_map]
  rfl

/-- **the serialized length of `extract_tx`'s result, from the PSET fields alone** -/
theorem extract_size_formula (P : Prims) (p : Pset) (t : Tx) (h : p.extractTx = .ok t) (hp : PsetFieldsOk P p) :
    t.enc.length =
      9 + varintSize p.inputs.length + varintSize p.outputs.length +
      (p.inputs.map (fun i => Tx.inputScaled 1 (pHasWitness p) i.toTxIn)).sum +
      (p.outputs.map (fun o => Tx.outputScaled 1 (pHasWitness p) (outOf o))).sum := by
  rw [← extract_size_eq P p t h hp]
  unfold Tx.size
  rw [extract_scaledSize_formula p t h 1]
  omega

/-! ### the converse: PSETs made by `from_tx` -/

theorem fromTxIn_hasIssuance (i : TxIn) : (PsetInput.fromTxIn i).hasIssuance = i.hasIssuance := by
  unfold PsetInput.hasIssuance
  rw [fromTxIn_assetIssuance]
  cases hq : i.hasIssuance
  · rfl
  · exact hq

theorem fromTxIn_toTxIn_witness_wf (P : Prims) (i : TxIn) (h : i.witness.wf P) :
    (PsetInput.fromTxIn i).toTxIn.witness.wf P := by
  obtain ⟨h1, h2, h3, h4⟩ := h
  show wfOptProof P.rangeproof (PsetInput.fromTxIn i).issuanceValueRangeproof ∧
    wfOptProof P.rangeproof (PsetInput.fromTxIn i).issuanceKeysRangeproof ∧
    TxInWitness.wfStack ((PsetInput.fromTxIn i).finalScriptWitness.getD []) ∧
    TxInWitness.wfStack ((PsetInput.fromTxIn i).peginWitness.getD [])
  rw [fromTxIn_valueRangeproof, fromTxIn_keysRangeproof, fromTxIn_scriptWitness, fromTxIn_peginWitness]
  refine ⟨?_, ?_, h3, ?_⟩
  · cases i.hasIssuance
    · exact trivial
    · exact h1
  · cases i.hasIssuance
    · exact trivial
    · exact h2
  · cases i.isPegin
    · exact wfStack_nil
    · exact h4

/-- `from_txin` of a canonical input satisfies the field conditions (whether or not the round trip
    through `extract_tx` reproduces it: a pegin witness on a non-pegin input, or issuance range proofs
    without an issuance, are dropped by `from_txin`) -/
theorem fromTxIn_fieldsOk (P : Prims) (i : TxIn) (h : i.wf P) : InputFieldsOk P (PsetInput.fromTxIn i) := by
  rw [inputFieldsOk_iff]
  obtain ⟨⟨h1, h2, h3, h4, h5⟩, hw⟩ := h
  refine ⟨?_, fromTxIn_toTxIn_witness_wf P i hw⟩
  have hq := fromTxIn_hasIssuance i
  have hidx := EV.Proofs.PsetRoundTrip.index_iff i.previousOutput.vout i.isPegin i.hasIssuance
  have hidx' : (PsetInput.fromTxIn i).plainIndex = i.previousOutput.vout ∧
      (PsetInput.fromTxIn i).isPegin = i.isPegin := by
    unfold PsetInput.plainIndex PsetInput.isPegin
    rw [fromTxIn_idx]
    unfold TxIn.voutWord
    apply hidx.2
    rcases h2 with ha | ⟨hb, hc, _⟩
    · exact Or.inr ha
    · exact Or.inl ⟨hb, hc⟩
  show (PsetInput.fromTxIn i).previousTxid.length = 32 ∧
    (((PsetInput.fromTxIn i).plainIndex < 2^30 ∧
        ¬ ((PsetInput.fromTxIn i).plainIndex = 2^30 - 1 ∧ (PsetInput.fromTxIn i).isPegin = true ∧
            (PsetInput.fromTxIn i).hasIssuance = true)) ∨
      ((PsetInput.fromTxIn i).plainIndex = 0xffffffff ∧ (PsetInput.fromTxIn i).isPegin = false ∧
          (PsetInput.fromTxIn i).hasIssuance = false)) ∧
    ((PsetInput.fromTxIn i).finalScriptSig.getD []).length ≤ maxVecSize ∧
    (PsetInput.fromTxIn i).sequence.getD 0xffffffff < 2^32 ∧
    (if (PsetInput.fromTxIn i).hasIssuance then (PsetInput.fromTxIn i).assetIssuance.wf P
      else (PsetInput.fromTxIn i).assetIssuance = AssetIssuance.null)
  rw [fromTxIn_txid, hidx'.1, hidx'.2, hq, fromTxIn_scriptSig, fromTxIn_sequence, fromTxIn_assetIssuance]
  refine ⟨h1, h2, h3, h4, ?_⟩
  cases hh : i.hasIssuance
  · simp only [Bool.false_eq_true, if_false]
  · rw [hh] at h5
    simp only [if_true] at h5 ⊢
    exact h5

/-- `from_txout` of a canonical output satisfies the field conditions (also for a null asset or value,
    where `extract_tx` fails, and for an explicit nonce, which `from_txout` drops) -/
theorem fromTxOut_fieldsOk (P : Prims) (o : TxOut) (h : o.wf P) : OutputFieldsOk P (PsetOutput.fromTxOut o) := by
  obtain ⟨⟨ha, hv, hn, hs⟩, hsp, hrp⟩ := h
  unfold OutputFieldsOk
  rw [pairAssetOk_iff, pairValueOk_iff, nonceOk_iff]
  show (PsetOutput.pairAsset (PsetOutput.assetId o.asset) (PsetOutput.assetGen o.asset)).wf P ∧
    (PsetInput.pairValue (PsetInput.valueAmount o.value) (PsetInput.valueComm o.value)).wf P ∧
    (PsetOutput.nonceOf (if PsetOutput.txOutPartiallyBlinded o then PsetOutput.noncePk o.nonce else none)).wf P ∧
    o.scriptPubkey.length ≤ maxVecSize ∧ wfOptProof P.surjproof o.witness.surjectionProof ∧
    wfOptProof P.rangeproof o.witness.rangeproof
  rw [pairAsset_roundtrip, pairValue_roundtrip]
  refine ⟨ha, hv, ?_, hs, hsp, hrp⟩
  cases PsetOutput.txOutPartiallyBlinded o
  · exact trivial
  · cases hnn : o.nonce with
    | null => exact trivial
    | explicit b => exact trivial
    | conf pk =>
      rw [hnn] at hn
      show (Nonce.conf (compressPk pk)).wf P
      rw [compressPk_of_length pk hn.1]
      exact hn

/-- **every PSET made by `from_tx` from a canonical transaction satisfies the field conditions** -/
theorem fromTx_fieldsOk (P : Prims) (t : Tx) (h : t.wf P) : PsetFieldsOk P (Pset.fromTx t) := by
  obtain ⟨h1, h2, h3, h4, h5, h6⟩ := h
  refine ⟨h1, ⟨?_, ?_⟩, ?_, ?_, ?_, ?_⟩
  · intro x hx
    have : some t.lockTime = some x := hx
    cases this
    exact h2
  · intro i hi
    have hi' : i ∈ t.input.map PsetInput.fromTxIn := hi
    obtain ⟨x, _, rfl⟩ := List.mem_map.1 hi'
    rw [fromTxIn_reqTime, fromTxIn_reqHeight]
    exact ⟨fun _ hx => (by cases hx), fun _ hx => (by cases hx)⟩
  · show (t.input.map PsetInput.fromTxIn).length * P.sizeTxIn ≤ maxVecSize
    rw [List.length_map]; exact h3
  · show (t.output.map PsetOutput.fromTxOut).length * P.sizeTxOut ≤ maxVecSize
    rw [List.length_map]; exact h4
  · intro i hi
    have hi' : i ∈ t.input.map PsetInput.fromTxIn := hi
    obtain ⟨x, hx, rfl⟩ := List.mem_map.1 hi'
    exact fromTxIn_fieldsOk P x (h5 x hx)
  · intro o ho
    have ho' : o ∈ t.output.map PsetOutput.fromTxOut := ho
    obtain ⟨x, hx, rfl⟩ := List.mem_map.1 ho'
    exact fromTxOut_fieldsOk P x (h6 x hx)

/-- hence whatever `extract_tx (from_tx tx)` returns for a canonical `tx` — `tx` itself on the class
    `Rt` of C08, a transaction with some nonces nulled otherwise — is canonical and its reported size
    is its serialized length -/
theorem fromTx_extract_size (P : Prims) (t t' : Tx) (h : t.wf P) (he : (Pset.fromTx t).extractTx = .ok t') :
    t'.wf P ∧ t'.size = t'.enc.length :=
  ⟨extract_wf P _ t' he (fromTx_fieldsOk P t h), extract_size_eq P _ t' he (fromTx_fieldsOk P t h)⟩

/-! ### the field conditions are decidable (given the primitives): used for the concrete example in C12 -/

instance optForallDec {α : Type} (o : Option α) (Q : α → Prop) [DecidablePred Q] :
    Decidable (∀ x, o = some x → Q x) :=
  match o with
  | none => isTrue (fun _ h => nomatch h)
  | some v =>
    if h : Q v then isTrue (fun x e => by cases e; exact h)
    else isFalse (fun k => h (k v rfl))

instance pairValueOkDec (P : Prims) : (a : Option Nat) → (c : Option Bytes) → Decidable (PairValueOk P a c)
  | none, none => isTrue trivial
  | some x, none => inferInstanceAs (Decidable (x < 2^64))
  | none, some c => inferInstanceAs
      (Decidable (c.length = 33 ∧ (c.head? = some 8 ∨ c.head? = some 9) ∧ P.commitment c = true))
  | some _, some c => inferInstanceAs
      (Decidable (c.length = 33 ∧ (c.head? = some 8 ∨ c.head? = some 9) ∧ P.commitment c = true))

instance pairAssetOkDec (P : Prims) : (a g : Option Bytes) → Decidable (PairAssetOk P a g)
  | none, none => isTrue trivial
  | some a, none => inferInstanceAs (Decidable (a.length = 32))
  | none, some g => inferInstanceAs
      (Decidable (g.length = 33 ∧ (g.head? = some 0x0a ∨ g.head? = some 0x0b) ∧ P.generator g = true))
  | some _, some g => inferInstanceAs
      (Decidable (g.length = 33 ∧ (g.head? = some 0x0a ∨ g.head? = some 0x0b) ∧ P.generator g = true))

instance nonceOkDec (P : Prims) : (k : Option Bytes) → Decidable (NonceOk P k)
  | none => isTrue trivial
  | some k => inferInstanceAs (Decidable ((compressPk k).length = 33 ∧
      ((compressPk k).head? = some 2 ∨ (compressPk k).head? = some 3) ∧ P.pubkey (compressPk k) = true))

instance wfOptProofDec (valid : Bytes → Bool) : (o : Option Bytes) → Decidable (wfOptProof valid o)
  | none => isTrue trivial
  | some b => inferInstanceAs (Decidable (b ≠ [] ∧ valid b = true ∧ b.length ≤ maxVecSize))

instance wfStackDec (l : List Bytes) : Decidable (TxInWitness.wfStack l) :=
  inferInstanceAs (Decidable (l.length * 24 ≤ maxVecSize ∧ ∀ b ∈ l, b.length ≤ maxVecSize))

instance inputFieldsOkDec (P : Prims) (i : PsetInput) : Decidable (InputFieldsOk P i) := by
  delta InputFieldsOk; infer_instance

instance outputFieldsOkDec (P : Prims) (o : PsetOutput) : Decidable (OutputFieldsOk P o) := by
  delta OutputFieldsOk; infer_instance

instance lockFieldsOkDec (p : Pset) : Decidable (LockFieldsOk p) := by
  delta LockFieldsOk; infer_instance

instance psetFieldsOkDec (P : Prims) (p : Pset) : Decidable (PsetFieldsOk P p) := by
  delta PsetFieldsOk; infer_instance

end EV.Proofs.BridgePsetSize
