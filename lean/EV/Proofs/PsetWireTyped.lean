/-
  Rejection, preservation and accessor lemmas on the concrete PSET decoders (EV.Model.PsetSer),
  instantiating the generic ones (EV.Proofs.PsetWireReject) with the three field tables.
-/
import EV.Proofs.PsetWireTop
import EV.Proofs.PsetWirePerm
import EV.Proofs.CodecTx
namespace EV.Proofs.PsetWireTyped
open EV EV.Codec EV.PsetWire EV.Proofs.CodecPrim EV.Proofs.PsetWireRaw EV.Proofs.PsetWireMap EV.Proofs.PsetWireCodec
  EV.Proofs.PsetWireConv EV.Proofs.PsetWireReject EV.Proofs.PsetWireTop

/-! ### from the pair loop to the decoders -/

/-- what `decMap` returned, in terms of the pairs read -/
theorem decMap_ok {T : List Field} {bs : Bytes} {st : List Slot} {r : Bytes} (h : decMap T bs = .ok (st, r)) :
    ∃ ps, decMapRaw bs = .ok (ps, r) ∧ insertAll T (emptySlots T) ps = .ok st := by
  unfold decMap at h
  cases hr : decMapRaw bs with
  | ok q =>
    obtain ⟨ps, r1⟩ := q
    rw [hr] at h
    simp only at h
    cases hi : insertAll T (emptySlots T) ps with
    | ok st1 =>
      rw [hi] at h
      simp only [Res.ok.injEq, Prod.mk.injEq] at h
      obtain ⟨rfl, rfl⟩ := h
      exact ⟨ps, rfl, hi⟩
    | err e => rw [hi] at h; cases h
    | panic m => rw [hi] at h; cases h
  | err e => rw [hr] at h; cases h
  | panic m => rw [hr] at h; cases h

theorem input_ok {W : WirePrims} {bs : Bytes} {x : PsetInput} {r : Bytes} (h : PsetInput.dec W bs = .ok (x, r)) :
    ∃ st, decMap (inputTable W) bs = .ok (st, r) ∧ PsetInput.ofSlots st = some x ∧
      slotMissing st PsetInput.ixPreviousTxid = false ∧ slotMissing st PsetInput.ixPreviousOutputIndex = false := by
  unfold PsetInput.dec at h
  cases hd : decMap (inputTable W) bs with
  | ok q =>
    obtain ⟨st, r1⟩ := q
    rw [hd] at h
    simp only at h
    cases ho : PsetInput.ofSlots st with
    | none => rw [ho] at h; cases h
    | some y =>
      rw [ho] at h
      simp only at h
      split at h
      · cases h
      · rename_i hm1
        split at h
        · cases h
        · rename_i hm2
          simp only [Res.ok.injEq, Prod.mk.injEq] at h
          obtain ⟨rfl, rfl⟩ := h
          exact ⟨st, rfl, ho, Bool.eq_false_iff.mpr hm1, Bool.eq_false_iff.mpr hm2⟩
  | err e => rw [hd] at h; cases h
  | panic m => rw [hd] at h; cases h

theorem output_ok {W : WirePrims} {bs : Bytes} {x : PsetOutput} {r : Bytes} (h : PsetOutput.dec W bs = .ok (x, r)) :
    ∃ st, decMap (outputTable W) bs = .ok (st, r) ∧ PsetOutput.ofSlots st = some x ∧
      slotMissing st PsetOutput.ixScriptPubkey = false ∧ x.accepted = .ok () := by
  unfold PsetOutput.dec at h
  cases hd : decMap (outputTable W) bs with
  | ok q =>
    obtain ⟨st, r1⟩ := q
    rw [hd] at h
    simp only at h
    cases ho : PsetOutput.ofSlots st with
    | none => rw [ho] at h; cases h
    | some y =>
      rw [ho] at h
      simp only at h
      split at h
      · cases h
      · rename_i hm1
        cases ha : y.accepted with
        | ok u =>
          rw [ha] at h
          simp only [Res.ok.injEq, Prod.mk.injEq] at h
          obtain ⟨rfl, rfl⟩ := h
          exact ⟨st, rfl, ho, Bool.eq_false_iff.mpr hm1, ha⟩
        | err e => rw [ha] at h; cases h
        | panic m => rw [ha] at h; cases h
  | err e => rw [hd] at h; cases h
  | panic m => rw [hd] at h; cases h

theorem global_ok {W : WirePrims} {bs : Bytes} {g : PsetGlobal} {r : Bytes} (h : PsetGlobal.dec W bs = .ok (g, r)) :
    ∃ st, decMap (globalTable W) bs = .ok (st, r) ∧ PsetGlobal.ofSlots st = some g ∧
      slotMissing st PsetGlobal.ixVersion = false ∧ g.version = Gen.PsetWire.psetVersion ∧
      slotMissing st PsetGlobal.ixTxVersion = false ∧ slotMissing st PsetGlobal.ixInputCount = false ∧
      slotMissing st PsetGlobal.ixOutputCount = false := by
  unfold PsetGlobal.dec at h
  cases hd : decMap (globalTable W) bs with
  | ok q =>
    obtain ⟨st, r1⟩ := q
    rw [hd] at h
    simp only at h
    cases ho : PsetGlobal.ofSlots st with
    | none => rw [ho] at h; cases h
    | some y =>
      rw [ho] at h
      simp only at h
      split at h
      · cases h
      · rename_i hm1
        split at h
        · cases h
        · rename_i hv
          split at h
          · cases h
          · rename_i hm2
            split at h
            · cases h
            · rename_i hm3
              split at h
              · cases h
              · rename_i hm4
                simp only [Res.ok.injEq, Prod.mk.injEq] at h
                obtain ⟨rfl, rfl⟩ := h
                exact ⟨st, rfl, ho, Bool.eq_false_iff.mpr hm1, Classical.not_not.mp hv, Bool.eq_false_iff.mpr hm2,
                  Bool.eq_false_iff.mpr hm3, Bool.eq_false_iff.mpr hm4⟩
  | err e => rw [hd] at h; cases h
  | panic m => rw [hd] at h; cases h

/-- a result that is neither a value nor a panic is an error -/
theorem err_of_not_ok {α} {x : Res α} (h1 : ∀ a, x ≠ .ok a) (h2 : ∀ m, x ≠ .panic m) : ∃ e, x = .err e := by
  cases x with
  | ok a => exact absurd rfl (h1 a)
  | err e => exact ⟨e, rfl⟩
  | panic m => exact absurd rfl (h2 m)

/-! ### missing mandatory fields -/

/-- a slot that no pair read from the input is routed to is reported missing -/
theorem missing_of_unrouted {T : List Field} {bs : Bytes} {st : List Slot} {r : Bytes} {ps : List Pair} (i : Nat)
    (hr : decMapRaw bs = .ok (ps, r)) (hn : ∀ p ∈ ps, ∀ ik, classify T p.1 ≠ .ok (i, ik))
    (h : decMap T bs = .ok (st, r)) : slotMissing st i = true := by
  obtain ⟨ps', hr', hi⟩ := decMap_ok h
  rw [hr] at hr'
  simp only [Res.ok.injEq, Prod.mk.injEq, and_true] at hr'
  subst hr'
  have hu := untouched_slot T i ps _ _ hn hi
  unfold slotMissing
  rw [List.getD_eq_getElem?_getD, hu]
  simp only [emptySlots, List.getElem?_map]
  cases T[i]? <;> rfl

/-- routing of a plain type byte that has a field of its own -/
theorem classify_plain_ty {T : List Field} {rk : RawKey} {i : Nat} {ik : Bytes} {f : Field} {ty : UInt8}
    (hc : classify T rk = .ok (i, ik)) (hf : T[i]? = some f) (ht : f.tag = .plain ty) : rk.ty = ty := by
  obtain ⟨g, hg, hraw, _⟩ := classify_sound hc
  rw [hf] at hg
  simp only [Option.some.injEq] at hg
  subst hg
  rw [ht] at hraw
  simp only [rawKeyOf] at hraw
  rw [← hraw]

/-- an input map without a pair of type `PSET_IN_PREVIOUS_TXID` (0x0e) is rejected -/
theorem input_missing_txid (W : WirePrims) (bs : Bytes) (ps : List Pair) (r : Bytes) (hr : decMapRaw bs = .ok (ps, r))
    (hn : ∀ p ∈ ps, p.1.ty ≠ u8n Gen.PsetWire.psetInPreviousTxid) : ∃ e, PsetInput.dec W bs = .err e := by
  apply err_of_not_ok _ (input_total W bs)
  rintro ⟨x, r'⟩ h
  obtain ⟨st, hd, _, hm, _⟩ := input_ok h
  obtain ⟨ps', hr', _⟩ := decMap_ok hd
  rw [hr] at hr'
  simp only [Res.ok.injEq, Prod.mk.injEq] at hr'
  obtain ⟨rfl, rfl⟩ := hr'
  have := missing_of_unrouted PsetInput.ixPreviousTxid hr (by
    intro p hp ik hc
    exact hn p hp (classify_plain_ty hc (T := inputTable W) (i := 13) rfl rfl)) hd
  rw [hm] at this
  cases this

/-- … nor without `PSET_IN_OUTPUT_INDEX` (0x0f) -/
theorem input_missing_vout (W : WirePrims) (bs : Bytes) (ps : List Pair) (r : Bytes) (hr : decMapRaw bs = .ok (ps, r))
    (hn : ∀ p ∈ ps, p.1.ty ≠ u8n Gen.PsetWire.psetInOutputIndex) : ∃ e, PsetInput.dec W bs = .err e := by
  apply err_of_not_ok _ (input_total W bs)
  rintro ⟨x, r'⟩ h
  obtain ⟨st, hd, _, _, hm⟩ := input_ok h
  obtain ⟨ps', hr', _⟩ := decMap_ok hd
  rw [hr] at hr'
  simp only [Res.ok.injEq, Prod.mk.injEq] at hr'
  obtain ⟨rfl, rfl⟩ := hr'
  have := missing_of_unrouted PsetInput.ixPreviousOutputIndex hr (by
    intro p hp ik hc
    exact hn p hp (classify_plain_ty hc (T := inputTable W) (i := 14) rfl rfl)) hd
  rw [hm] at this
  cases this

/-- an output map without a pair of type `PSET_OUT_SCRIPT` (0x04) is rejected -/
theorem output_missing_script (W : WirePrims) (bs : Bytes) (ps : List Pair) (r : Bytes) (hr : decMapRaw bs = .ok (ps, r))
    (hn : ∀ p ∈ ps, p.1.ty ≠ u8n Gen.PsetWire.psetOutScript) : ∃ e, PsetOutput.dec W bs = .err e := by
  apply err_of_not_ok _ (output_total W bs)
  rintro ⟨x, r'⟩ h
  obtain ⟨st, hd, _, hm, _⟩ := output_ok h
  obtain ⟨ps', hr', _⟩ := decMap_ok hd
  rw [hr] at hr'
  simp only [Res.ok.injEq, Prod.mk.injEq] at hr'
  obtain ⟨rfl, rfl⟩ := hr'
  have := missing_of_unrouted PsetOutput.ixScriptPubkey hr (by
    intro p hp ik hc
    exact hn p hp (classify_plain_ty hc (T := outputTable W) (i := 10) rfl rfl)) hd
  rw [hm] at this
  cases this

/-- a global map without the PSET version (0xFB), the tx version (0x02) or a count (0x04 / 0x05) is rejected -/
theorem global_missing (W : WirePrims) (bs : Bytes) (ps : List Pair) (r : Bytes) (hr : decMapRaw bs = .ok (ps, r))
    (ty : UInt8) (hty : ty = u8n Gen.PsetWire.psetGlobalVersion ∨ ty = u8n Gen.PsetWire.psetGlobalTxVersion ∨
      ty = u8n Gen.PsetWire.psetGlobalInputCount ∨ ty = u8n Gen.PsetWire.psetGlobalOutputCount)
    (hn : ∀ p ∈ ps, p.1.ty ≠ ty) : ∃ e, PsetGlobal.dec W bs = .err e := by
  apply err_of_not_ok _ (global_total W bs)
  rintro ⟨x, r'⟩ h
  obtain ⟨st, hd, _, hm1, _, hm2, hm3, hm4⟩ := global_ok h
  obtain ⟨ps', hr', _⟩ := decMap_ok hd
  rw [hr] at hr'
  simp only [Res.ok.injEq, Prod.mk.injEq] at hr'
  obtain ⟨rfl, rfl⟩ := hr'
  rcases hty with rfl | rfl | rfl | rfl
  · have := missing_of_unrouted PsetGlobal.ixVersion hr (by
      intro p hp ik hc
      exact hn p hp (classify_plain_ty hc (T := globalTable W) (i := 6) rfl rfl)) hd
    rw [hm1] at this; cases this
  · have := missing_of_unrouted PsetGlobal.ixTxVersion hr (by
      intro p hp ik hc
      exact hn p hp (classify_plain_ty hc (T := globalTable W) (i := 0) rfl rfl)) hd
    rw [hm2] at this; cases this
  · have := missing_of_unrouted PsetGlobal.ixInputCount hr (by
      intro p hp ik hc
      exact hn p hp (classify_plain_ty hc (T := globalTable W) (i := 2) rfl rfl)) hd
    rw [hm3] at this; cases this
  · have := missing_of_unrouted PsetGlobal.ixOutputCount hr (by
      intro p hp ik hc
      exact hn p hp (classify_plain_ty hc (T := globalTable W) (i := 3) rfl rfl)) hd
    rw [hm4] at this; cases this

/-! ### duplicate keys -/

theorem classify_err_rejected (T : List Field) (pre post : List Pair) (rk : RawKey) (v : Bytes)
    (hc : ∀ q, classify T rk ≠ .ok q) : ∀ st st', insertAll T st (pre ++ (rk, v) :: post) ≠ .ok st' := by
  intro st st' h
  obtain ⟨st1, _, h2⟩ := insertAll_append_ok _ _ _ _ h
  obtain ⟨st2, h3, _⟩ := insertAll_cons_ok h2
  obtain ⟨j, jk, g, s, s', hc', _⟩ := insertPair_ok h3
  exact hc (j, jk) hc'

theorem kinds_of_all {T : List Field} (h : (T.map (·.kind)).all (fun k => k != .optLast) = true) :
    ∀ (i : Nat) (f : Field), T[i]? = some f → f.kind ≠ .optLast := by
  intro i f hf
  have hm : f.kind ∈ T.map (·.kind) := List.mem_map.mpr ⟨f, List.mem_of_getElem? hf, rfl⟩
  have := List.all_eq_true.mp h _ hm
  intro e
  rw [e] at this
  cases this

/-- a table without `optLast` fields rejects ANY repeated raw key -/
theorem dup_rejected_of_kinds {T : List Field} (hk : (T.map (·.kind)).all (fun k => k != .optLast) = true)
    (pre mid post : List Pair) (rk : RawKey) (v1 v2 : Bytes) :
    ∀ st st', insertAll T st (pre ++ (rk, v1) :: (mid ++ (rk, v2) :: post)) ≠ .ok st' := by
  cases hc : classify T rk with
  | ok q =>
    obtain ⟨i, ik⟩ := q
    obtain ⟨f, hf, _, _⟩ := classify_sound hc
    exact duplicate_key_rejected T pre mid post rk v1 v2 i ik f hc hf (kinds_of_all hk i f hf)
  | err e => exact classify_err_rejected T pre _ rk v1 (by intro q h; rw [hc] at h; cases h)
  | panic m => exact classify_err_rejected T pre _ rk v1 (by intro q h; rw [hc] at h; cases h)

theorem input_kinds (W : WirePrims) : ((inputTable W).map (·.kind)).all (fun k => k != .optLast) = true := rfl
theorem output_kinds (W : WirePrims) : ((outputTable W).map (·.kind)).all (fun k => k != .optLast) = true := rfl

/-- an input map in which some raw key (type byte and key data) occurs twice is rejected — every
    field, the proprietary and the unknown pairs included -/
theorem input_duplicate (W : WirePrims) (bs r : Bytes) (pre mid post : List Pair) (rk : RawKey) (v1 v2 : Bytes)
    (hr : decMapRaw bs = .ok (pre ++ (rk, v1) :: (mid ++ (rk, v2) :: post), r)) : ∃ e, PsetInput.dec W bs = .err e := by
  apply err_of_not_ok _ (input_total W bs)
  rintro ⟨x, r'⟩ h
  obtain ⟨st, hd, _⟩ := input_ok h
  obtain ⟨ps', hr', hi⟩ := decMap_ok hd
  rw [hr] at hr'
  simp only [Res.ok.injEq, Prod.mk.injEq] at hr'
  obtain ⟨rfl, rfl⟩ := hr'
  exact dup_rejected_of_kinds (input_kinds W) pre mid post rk v1 v2 _ _ hi

theorem output_duplicate (W : WirePrims) (bs r : Bytes) (pre mid post : List Pair) (rk : RawKey) (v1 v2 : Bytes)
    (hr : decMapRaw bs = .ok (pre ++ (rk, v1) :: (mid ++ (rk, v2) :: post), r)) : ∃ e, PsetOutput.dec W bs = .err e := by
  apply err_of_not_ok _ (output_total W bs)
  rintro ⟨x, r'⟩ h
  obtain ⟨st, hd, _⟩ := output_ok h
  obtain ⟨ps', hr', hi⟩ := decMap_ok hd
  rw [hr] at hr'
  simp only [Res.ok.injEq, Prod.mk.injEq] at hr'
  obtain ⟨rfl, rfl⟩ := hr'
  exact dup_rejected_of_kinds (output_kinds W) pre mid post rk v1 v2 _ _ hi

theorem global_kinds (W : WirePrims) : ((globalTable W).map (·.kind)).all (fun k => k != .optLast) = true := rfl

/-- a global map in which some raw key occurs twice is rejected — every field (the scalar pairs and
    `elements_tx_modifiable_flag` included), the proprietary and the unknown pairs -/
theorem global_duplicate (W : WirePrims) (bs r : Bytes) (pre mid post : List Pair) (rk : RawKey) (v1 v2 : Bytes)
    (hr : decMapRaw bs = .ok (pre ++ (rk, v1) :: (mid ++ (rk, v2) :: post), r)) : ∃ e, PsetGlobal.dec W bs = .err e := by
  apply err_of_not_ok _ (global_total W bs)
  rintro ⟨x, r'⟩ h
  obtain ⟨st, hd, _⟩ := global_ok h
  obtain ⟨ps', hr', hi⟩ := decMap_ok hd
  rw [hr] at hr'
  simp only [Res.ok.injEq, Prod.mk.injEq] at hr'
  obtain ⟨rfl, rfl⟩ := hr'
  exact dup_rejected_of_kinds (global_kinds W) pre mid post rk v1 v2 _ _ hi

/-! ### hash preimages -/

/-- a pair of one of the four preimage types whose key is not the hash of its value is rejected -/
theorem input_bad_preimage (W : WirePrims) (bs r : Bytes) (pre post : List Pair) (rk : RawKey) (v : Bytes)
    (hr : decMapRaw bs = .ok (pre ++ (rk, v) :: post, r))
    (hbad : (rk.ty = u8n Gen.PsetWire.psetInRipemd160 ∧ W.ripemd160 v ≠ rk.key) ∨
            (rk.ty = u8n Gen.PsetWire.psetInSha256 ∧ W.sha256 v ≠ rk.key) ∨
            (rk.ty = u8n Gen.PsetWire.psetInHash160 ∧ W.hash160 v ≠ rk.key) ∨
            (rk.ty = u8n Gen.PsetWire.psetInHash256 ∧ W.hash256 v ≠ rk.key)) :
    ∃ e, PsetInput.dec W bs = .err e := by
  apply err_of_not_ok _ (input_total W bs)
  rintro ⟨x, r'⟩ h
  obtain ⟨st, hd, _⟩ := input_ok h
  obtain ⟨ps', hr', hi⟩ := decMap_ok hd
  rw [hr] at hr'
  simp only [Res.ok.injEq, Prod.mk.injEq] at hr'
  obtain ⟨rfl, rfl⟩ := hr'
  obtain ⟨ty, key⟩ := rk
  simp only at hbad
  rcases hbad with ⟨rfl, hb⟩ | ⟨rfl, hb⟩ | ⟨rfl, hb⟩ | ⟨rfl, hb⟩
  · refine invalid_value_rejected (inputTable W) pre post _ v 9 key _ rfl rfl ?_ _ _ hi
    show cPreimage W.ripemd160 key v = none
    unfold cPreimage; rw [if_neg hb]
  · refine invalid_value_rejected (inputTable W) pre post _ v 10 key _ rfl rfl ?_ _ _ hi
    show cPreimage W.sha256 key v = none
    unfold cPreimage; rw [if_neg hb]
  · refine invalid_value_rejected (inputTable W) pre post _ v 11 key _ rfl rfl ?_ _ _ hi
    show cPreimage W.hash160 key v = none
    unfold cPreimage; rw [if_neg hb]
  · refine invalid_value_rejected (inputTable W) pre post _ v 12 key _ rfl rfl ?_ _ _ hi
    show cPreimage W.hash256 key v = none
    unfold cPreimage; rw [if_neg hb]

/-! ### unknown and foreign proprietary pairs are kept verbatim -/

theorem getElem?_toSlots_of {st : List Slot} {i : Nat} {s t : Slot} (h1 : st[i]? = some s) (h2 : st[i]? = some t) : s = t := by
  rw [h1] at h2; exact Option.some.inj h2

/-- every pair of an accepted input map that is routed to the `unknown` map (its type byte has no
    field) is found there under `type ‖ key data` with exactly its value -/
theorem input_unknown_preserved (W : WirePrims) (bs r : Bytes) (ps : List Pair) (x : PsetInput) (r' : Bytes)
    (hr : decMapRaw bs = .ok (ps, r)) (h : PsetInput.dec W bs = .ok (x, r')) (p : Pair) (hp : p ∈ ps)
    (hc : classify (inputTable W) p.1 = .ok (47, p.1.ty :: p.1.key)) :
    KV.lookup (p.1.ty :: p.1.key) x.unknown = some p.2 := by
  obtain ⟨st, hd, ho, hm1, hm2⟩ := input_ok h
  obtain ⟨ps', hr', hi⟩ := decMap_ok hd
  rw [hr] at hr'
  simp only [Res.ok.injEq, Prod.mk.injEq] at hr'
  obtain ⟨rfl, rfl⟩ := hr'
  have hw := decMap_wf (inputTable_law W) _ _ _ hd
  obtain ⟨e, _⟩ := PsetInput.toSlots_ofSlots _ W st x ((wfSlots_iff_zip _ _).mp hw) hm1 hm2 ho
  obtain ⟨s, hs, hl⟩ := stored _ _ _ _ hi p hp 47 _ _ hc rfl (by decide)
  have : x.toSlots[47]? = some x.unknown := rfl
  rw [e] at this
  rw [← getElem?_toSlots_of hs this]
  exact hl

/-- … and every foreign proprietary pair (other prefix, or `"pset"` with an unassigned subtype) in the
    `proprietary` map under its serialized proprietary key -/
theorem input_proprietary_preserved (W : WirePrims) (bs r : Bytes) (ps : List Pair) (x : PsetInput) (r' : Bytes)
    (hr : decMapRaw bs = .ok (ps, r)) (h : PsetInput.dec W bs = .ok (x, r')) (p : Pair) (hp : p ∈ ps)
    (hc : classify (inputTable W) p.1 = .ok (46, p.1.key)) :
    KV.lookup p.1.key x.proprietary = some p.2 := by
  obtain ⟨st, hd, ho, hm1, hm2⟩ := input_ok h
  obtain ⟨ps', hr', hi⟩ := decMap_ok hd
  rw [hr] at hr'
  simp only [Res.ok.injEq, Prod.mk.injEq] at hr'
  obtain ⟨rfl, rfl⟩ := hr'
  have hw := decMap_wf (inputTable_law W) _ _ _ hd
  obtain ⟨e, _⟩ := PsetInput.toSlots_ofSlots _ W st x ((wfSlots_iff_zip _ _).mp hw) hm1 hm2 ho
  obtain ⟨s, hs, hl⟩ := stored _ _ _ _ hi p hp 46 _ _ hc rfl (by decide)
  have : x.toSlots[46]? = some x.proprietary := rfl
  rw [e] at this
  rw [← getElem?_toSlots_of hs this]
  exact hl

theorem output_unknown_preserved (W : WirePrims) (bs r : Bytes) (ps : List Pair) (x : PsetOutput) (r' : Bytes)
    (hr : decMapRaw bs = .ok (ps, r)) (h : PsetOutput.dec W bs = .ok (x, r')) (p : Pair) (hp : p ∈ ps)
    (hc : classify (outputTable W) p.1 = .ok (19, p.1.ty :: p.1.key)) :
    KV.lookup (p.1.ty :: p.1.key) x.unknown = some p.2 := by
  obtain ⟨st, hd, ho, hm1, _⟩ := output_ok h
  obtain ⟨ps', hr', hi⟩ := decMap_ok hd
  rw [hr] at hr'
  simp only [Res.ok.injEq, Prod.mk.injEq] at hr'
  obtain ⟨rfl, rfl⟩ := hr'
  have hw := decMap_wf (outputTable_law W) _ _ _ hd
  obtain ⟨e, _⟩ := PsetOutput.toSlots_ofSlots _ W st x ((wfSlots_iff_zip _ _).mp hw) hm1 ho
  obtain ⟨s, hs, hl⟩ := stored _ _ _ _ hi p hp 19 _ _ hc rfl (by decide)
  have : x.toSlots[19]? = some x.unknown := rfl
  rw [e] at this
  rw [← getElem?_toSlots_of hs this]
  exact hl

theorem output_proprietary_preserved (W : WirePrims) (bs r : Bytes) (ps : List Pair) (x : PsetOutput) (r' : Bytes)
    (hr : decMapRaw bs = .ok (ps, r)) (h : PsetOutput.dec W bs = .ok (x, r')) (p : Pair) (hp : p ∈ ps)
    (hc : classify (outputTable W) p.1 = .ok (18, p.1.key)) :
    KV.lookup p.1.key x.proprietary = some p.2 := by
  obtain ⟨st, hd, ho, hm1, _⟩ := output_ok h
  obtain ⟨ps', hr', hi⟩ := decMap_ok hd
  rw [hr] at hr'
  simp only [Res.ok.injEq, Prod.mk.injEq] at hr'
  obtain ⟨rfl, rfl⟩ := hr'
  have hw := decMap_wf (outputTable_law W) _ _ _ hd
  obtain ⟨e, _⟩ := PsetOutput.toSlots_ofSlots _ W st x ((wfSlots_iff_zip _ _).mp hw) hm1 ho
  obtain ⟨s, hs, hl⟩ := stored _ _ _ _ hi p hp 18 _ _ hc rfl (by decide)
  have : x.toSlots[18]? = some x.proprietary := rfl
  rw [e] at this
  rw [← getElem?_toSlots_of hs this]
  exact hl

/-! ### key order -/

open EV.Proofs.PsetWirePerm in
theorem orderFree_of_all {T : List Field} (h : (T.map (·.kind)).all (fun k => k == .opt || k == .map) = true) : OrderFree T := by
  intro f hf
  have hm : f.kind ∈ T.map (·.kind) := List.mem_map.mpr ⟨f, hf, rfl⟩
  have := List.all_eq_true.mp h _ hm
  cases hk : f.kind <;> rw [hk] at this <;> first | exact Or.inl rfl | exact Or.inr rfl | cases this

theorem input_orderFree (W : WirePrims) : EV.Proofs.PsetWirePerm.OrderFree (inputTable W) := orderFree_of_all rfl
theorem output_orderFree (W : WirePrims) : EV.Proofs.PsetWirePerm.OrderFree (outputTable W) := orderFree_of_all rfl

/-- the pair loop of a table of `opt` / `map` fields gives the same slots on any rearrangement of the pairs -/
theorem decMap_perm {T : List Field} (hL : TableLaw T) (hO : EV.Proofs.PsetWirePerm.OrderFree T) (ps ps' : List Pair)
    (hp : ps.Perm ps') (hok : ∀ p ∈ ps, PairOk p) (r : Bytes) (st : List Slot) (r' : Bytes)
    (h : decMap T (encPairs ps ++ r) = .ok (st, r')) : decMap T (encPairs ps' ++ r) = .ok (st, r') := by
  have hok' : ∀ p ∈ ps', PairOk p := fun p hp' => hok p (hp.mem_iff.mpr hp')
  unfold decMap at h ⊢
  rw [decMapRaw_complete ps hok r] at h
  rw [decMapRaw_complete ps' hok' r]
  simp only at h ⊢
  cases hi : insertAll T (emptySlots T) ps with
  | ok st1 =>
    rw [hi] at h
    simp only [Res.ok.injEq, Prod.mk.injEq] at h
    obtain ⟨rfl, rfl⟩ := h
    rw [EV.Proofs.PsetWirePerm.insertAll_perm hL hO ps ps' hp _ _ (wfSlots_empty T) hok hi]
  | err e => rw [hi] at h; cases h
  | panic m => rw [hi] at h; cases h

theorem input_perm (W : WirePrims) (ps ps' : List Pair) (hp : ps.Perm ps') (hok : ∀ p ∈ ps, PairOk p) (r : Bytes)
    (x : PsetInput) (r' : Bytes) (h : PsetInput.dec W (encPairs ps ++ r) = .ok (x, r')) :
    PsetInput.dec W (encPairs ps' ++ r) = .ok (x, r') := by
  obtain ⟨st, hd, _⟩ := input_ok h
  have hd' := decMap_perm (inputTable_law W) (input_orderFree W) ps ps' hp hok r st r' hd
  unfold PsetInput.dec at h ⊢
  rw [hd] at h
  rw [hd']
  exact h

theorem output_perm (W : WirePrims) (ps ps' : List Pair) (hp : ps.Perm ps') (hok : ∀ p ∈ ps, PairOk p) (r : Bytes)
    (x : PsetOutput) (r' : Bytes) (h : PsetOutput.dec W (encPairs ps ++ r) = .ok (x, r')) :
    PsetOutput.dec W (encPairs ps' ++ r) = .ok (x, r') := by
  obtain ⟨st, hd, _⟩ := output_ok h
  have hd' := decMap_perm (outputTable_law W) (output_orderFree W) ps ps' hp hok r st r' hd
  unfold PsetOutput.dec at h ⊢
  rw [hd] at h
  rw [hd']
  exact h

/-! ### counts, caps, version -/

/-- more than 10 000 declared inputs or outputs: `TooLargePset` -/
theorem too_many_maps (W : WirePrims) (r1 r2 : Bytes) (g : PsetGlobal) (hg : PsetGlobal.dec W r1 = .ok (g, r2))
    (h : g.inputCount > Pset.maxMaps ∨ g.outputCount > Pset.maxMaps) :
    ∃ e, Pset.dec W (Pset.magic ++ Pset.separator :: r1) = .err e := by
  have ht : take 4 (Pset.magic ++ Pset.separator :: r1) = .ok (Pset.magic, Pset.separator :: r1) :=
    (take_lawful 4).complete _ _ magic_length
  unfold Pset.dec
  rw [ht]
  simp only [ne_eq, not_true_eq_false, if_false, hg]
  by_cases h1 : g.inputCount > Pset.maxMaps
  · exact ⟨_, by rw [if_pos h1]⟩
  · have h2 : g.outputCount > Pset.maxMaps := by rcases h with h | h; exact absurd h h1; exact h
    rw [if_neg h1]
    cases hi : repeatN (PsetInput.dec W) g.inputCount r2 with
    | ok q => exact ⟨"TooLargePset", by simp only [if_pos h2]⟩
    | err e => exact ⟨e, rfl⟩
    | panic m => exact absurd hi (repeatN_total _ (input_total W) _ _ _)

/-! ### ELIP-100 / ELIP-102 accessors -/

open EV.Elip

theorem assetMetadata_deser_ser (utf8 : Bytes → Bool) (m : AssetMetadata) (hu : utf8 m.contract = true)
    (hl : m.contract.length ≤ maxVecSize) (hp : m.prevout.wf) : AssetMetadata.deser utf8 m.ser = .ok m := by
  unfold AssetMetadata.deser AssetMetadata.ser
  rw [bytesVec_lawful.complete m.contract _ hl]
  simp only [hu, Bool.not_true, Bool.false_eq_true, if_false]
  have := EV.Proofs.CodecTx.outpoint_lawful.complete m.prevout [] hp
  rw [List.append_nil] at this
  rw [this]

theorem tokenMetadata_deser_ser (m : TokenMetadata) (hl : m.assetId.length = 32) : TokenMetadata.deser m.ser = .ok m := by
  obtain ⟨a, b⟩ := m
  simp only at hl
  have ht : take 32 a = .ok (a, []) := by
    have := (take_lawful 32).complete a [] hl
    rw [List.append_nil] at this
    exact this
  cases b <;> simp [TokenMetadata.deser, TokenMetadata.ser, ht]

/-- `get_asset_metadata` after `add_asset_metadata` returns the metadata that was put in -/
theorem get_add_asset_metadata (utf8 : Bytes → Bool) (p : Pset) (assetId : Bytes) (m : AssetMetadata)
    (hu : utf8 m.contract = true) (hl : m.contract.length ≤ maxVecSize) (hp : m.prevout.wf) :
    getAssetMetadata utf8 (addAssetMetadata p assetId m).1 assetId = some (.ok m) := by
  simp only [getAssetMetadata, addAssetMetadata, KV.lookup_insert, if_true, Option.map_some,
    assetMetadata_deser_ser utf8 m hu hl hp]

theorem get_add_token_metadata (p : Pset) (tokenId : Bytes) (m : TokenMetadata) (hl : m.assetId.length = 32) :
    getTokenMetadata (addTokenMetadata p tokenId m).1 tokenId = some (.ok m) := by
  simp only [getTokenMetadata, addTokenMetadata, KV.lookup_insert, if_true, Option.map_some, tokenMetadata_deser_ser m hl]

theorem in_get_set_abf (tweak : Bytes → Bool) (x : PsetInput) (abf : Bytes) (hl : abf.length = 32) (ht : tweak abf = true) :
    inGetAbf tweak (inSetAbf x abf) = some (.ok abf) := by
  simp only [inGetAbf, inSetAbf, KV.lookup_insert, if_true, Option.map_some, abfDeser, hl, ne_eq, not_true_eq_false,
    if_false, ht]

theorem out_get_set_abf (tweak : Bytes → Bool) (x : PsetOutput) (abf : Bytes) (hl : abf.length = 32) (ht : tweak abf = true) :
    outGetAbf tweak (outSetAbf x abf) = some (.ok abf) := by
  simp only [outGetAbf, outSetAbf, KV.lookup_insert, if_true, Option.map_some, abfDeser, hl, ne_eq, not_true_eq_false,
    if_false, ht]

/-- the other accessor's entries are not disturbed (asset vs token key types differ) -/
theorem get_asset_after_add_token (utf8 : Bytes → Bool) (p : Pset) (a t : Bytes) (m : TokenMetadata) :
    getAssetMetadata utf8 (addTokenMetadata p t m).1 a = getAssetMetadata utf8 p a := by
  have hne : hwwKey Gen.PsetWire.hwwAssetMetadata a ≠ hwwKey Gen.PsetWire.hwwReissuanceToken t := by
    intro e
    simp only [hwwKey, encPropKey, List.append_cancel_left_eq, List.cons.injEq] at e
    exact absurd e.1 (by decide)
  simp only [getAssetMetadata, addTokenMetadata, KV.lookup_insert, if_neg hne]

end EV.Proofs.PsetWireTyped
