/-
  Bridge C03 × C01/C02.  The sighash model (`EV.Model.Sighash`) does not carry encoders of its own for
  transaction parts: `msgLegacy`/`msgSegwit`/`msgTaproot` and the specification serializers `serLegacy`/
  `serSegwit`/`serTaproot` are written with `TxIn.enc`, `TxOut.enc`, `OutPoint.enc`, `Value.enc`,
  `Asset.enc`, `AssetIssuance.enc`, `TxOutWitness.enc`, `encOptProof`, `encBytesVec`, `encLe`, `encVec` of
  `EV.Model.Transaction`/`EV.Model.Codec` — the encoders C01 proves lawful and C02 proves injective.  The
  only local re-definitions are three in the specification part (`encIssuanceOpt`, `flagByte`, `encProofs`),
  equal to the as-coded ones.  What is proved here beyond that inventory:
   * LEGACY: the message is C01's witness-stripped transaction encoding (the txid preimage of C02) of the
     "transaction to sign", with the Elements flag byte removed and the hash type appended — the Rust comment
     "cannot encode tx directly because of different consensus encoding of elements tx" as a theorem —, and
     C01's decoder recovers the signed transaction from it;
   * SEGWIT v0 / TAPROOT: the preimages of the cached sub-hashes (`sha_prevouts`, `sha_sequences`,
     `sha_outputs`, `sha_issuances`, `sha_output_witnesses`, issuance range proofs) are the element
     concatenations of C01's vector encodings, and `sha_outputs` / `sha_output_witnesses` are literally
     segments of `Tx.enc`; the outpoint a sighash commits to is the PLAIN outpoint, whereas `TxIn.enc`
     writes the vout word with the pegin/issuance flags.
-/
import EV.Proofs.SighashRefine
import EV.Proofs.SighashCommitsLS
import EV.Proofs.CodecTx
import EV.Model.Block
namespace EV.Proofs.BridgeSighashCodec
open EV EV.Codec EV.Sighash EV.Proofs.CodecTx

/-! ### the three local re-definitions of the specification part -/

/-- the encoders Part 2 of the model defines for itself are the as-coded ones (which are C01 encoders) -/
theorem spec_encoders_agree (i : TxIn) :
    encIssuanceOpt (issuanceOf i) = issuanceOrZero i ∧
    issuanceOrZero i = (if i.hasIssuance then i.assetIssuance.enc else [0]) ∧
    flagByte (inFlag i) = outpointFlag i ∧
    encProofs (proofsOf i) = issuanceProofs i ∧
    issuanceProofs i = encOptProof i.witness.amountRangeproof ++ encOptProof i.witness.inflationKeysRangeproof :=
  ⟨(issuanceOrZero_eq i).symm, rfl, (outpointFlag_eq i).symm, rfl, rfl⟩

/-! ### legacy: the message is a C01 transaction encoding without the flag byte -/

/-- remove the byte at offset 4 (the Elements witness flag of a serialized transaction) -/
def dropFlag (bs : Bytes) : Bytes := bs.take 4 ++ bs.drop 5

/-- the transaction a legacy view describes ("Build tx to sign" in `encode_legacy_signing_data_to`) -/
def legacyTx (v : LegacyView) : Tx :=
  { version := v.version, lockTime := v.lockTime, input := v.inputs, output := v.outputs }

theorem encLe4_length (n : Nat) : (encLe 4 n).length = 4 := CodecPrim.leBytes_length 4 n

theorem dropFlag_encStripped (t : Tx) :
    dropFlag t.encStripped =
      encLe 4 t.version ++ encVec TxIn.enc t.input ++ encVec TxOut.enc t.output ++ encLe 4 t.lockTime := by
  have h1 : t.encStripped = encLe 4 t.version ++
      ([0] ++ encVec TxIn.enc t.input ++ encVec TxOut.enc t.output ++ encLe 4 t.lockTime) := by
    simp only [Tx.encStripped, List.append_assoc]
  have h2 : t.encStripped = (encLe 4 t.version ++ [0]) ++
      (encVec TxIn.enc t.input ++ encVec TxOut.enc t.output ++ encLe 4 t.lockTime) := by
    simp only [Tx.encStripped, List.append_assoc]
  unfold dropFlag
  rw [show List.take 4 t.encStripped = encLe 4 t.version from by
        rw [h1]; exact List.take_left' (encLe4_length _),
      show List.drop 5 t.encStripped =
          encVec TxIn.enc t.input ++ encVec TxOut.enc t.output ++ encLe 4 t.lockTime from by
        rw [h2]; exact List.drop_left' (by simp [encLe4_length])]
  simp only [List.append_assoc]

/-- **legacy message format in C01 terms**: version ‖ inputs ‖ outputs ‖ lock time is C01's stripped
    transaction encoding (= the txid preimage, C02) without its flag byte; then the hash type -/
theorem serLegacy_eq (v : LegacyView) :
    serLegacy v = dropFlag (legacyTx v).encStripped ++ encLe 4 v.hashType := by
  rw [dropFlag_encStripped]
  rfl

/-- conversely the stripped encoding is the message with the flag byte `00` put back after the version -/
theorem encStripped_of_serLegacy (v : LegacyView) :
    (legacyTx v).encStripped = (serLegacy v).take 4 ++ [0] ++ ((serLegacy v).drop 4).take ((serLegacy v).length - 8) := by
  have hs : serLegacy v = encLe 4 v.version ++
      ((encVec TxIn.enc v.inputs ++ encVec TxOut.enc v.outputs ++ encLe 4 v.lockTime) ++ encLe 4 v.hashType) := by
    simp only [serLegacy, List.append_assoc]
  have hlen : (serLegacy v).length - 8 =
      (encVec TxIn.enc v.inputs ++ encVec TxOut.enc v.outputs ++ encLe 4 v.lockTime).length := by
    rw [hs]; simp only [List.length_append, encLe4_length]; omega
  rw [hlen, hs, List.take_left' (encLe4_length _), List.drop_left' (encLe4_length _), List.take_left' rfl]
  simp only [Tx.encStripped, legacyTx, List.append_assoc]

/-- the signed transaction carries no witness, so its C01 encoding `Tx.enc` is the stripped one and its
    txid (C02) is the double SHA-256 of exactly that -/
theorem legacyTx_enc (P : Prims) (v : LegacyView) (hw : v.wf P) (Hh : Hashes) :
    (legacyTx v).hasWitness = false ∧ (legacyTx v).enc = (legacyTx v).encStripped ∧
    (legacyTx v).txid Hh = Hh.sha256d (legacyTx v).encStripped := by
  obtain ⟨_, _, _, _, _, hi, ho⟩ := hw
  have h : (legacyTx v).hasWitness = false := by
    simp only [Tx.hasWitness, legacyTx, Bool.or_eq_false_iff, List.any_eq_false]
    refine ⟨fun i hi' => ?_, fun o ho' => ?_⟩
    · rw [(hi i hi').2]; decide
    · rw [(ho o ho').2]; decide
  exact ⟨h, by simp only [Tx.enc, h, Bool.false_eq_true, if_false], rfl⟩

/-- the signed transaction of an in-range query on a canonical transaction is canonical -/
theorem legacyTx_wf (P : Prims) (hs : SizesPos P) (tx : Tx) (htx : tx.wf P) (idx : Nat) (script : Bytes)
    (ty : EcdsaTy) (hsc : script.length ≤ maxVecSize) (hr : InRange ty idx tx) :
    (legacyTx (specLegacyView tx idx script ty.asU32)).wf P := by
  obtain ⟨v1, v2, _, _, _, v6, v7⟩ := specLegacyView_wf P hs tx htx idx script ty hsc hr
  obtain ⟨_, _, t3, t4, _, _⟩ := htx
  have hpos : 1 ≤ tx.input.length := by have := hr.1; omega
  refine ⟨v1, v2, ?_, ?_, ?_, ?_⟩
  · simp only [legacyTx, specLegacyView, List.length_map, List.length_range]
    split
    · calc 1 * P.sizeTxIn ≤ tx.input.length * P.sizeTxIn := Nat.mul_le_mul_right _ hpos
        _ ≤ maxVecSize := t3
    · exact t3
  · simp only [legacyTx, specLegacyView, List.length_map, List.length_range]
    split
    · simp
    · split
      · rename_i hsg
        have hlt : idx < tx.output.length := hr.2 ((ecdsa_single_iff ty).1 hsg)
        calc (idx + 1) * P.sizeTxOut ≤ tx.output.length * P.sizeTxOut := Nat.mul_le_mul_right _ (by omega)
          _ ≤ maxVecSize := t4
      · exact t4
  · intro i hi
    obtain ⟨hb, hwit⟩ := v6 i hi
    refine ⟨hb, ?_⟩
    rw [hwit]
    exact ⟨trivial, trivial, ⟨by decide, fun b hb => by cases hb⟩, ⟨by decide, fun b hb => by cases hb⟩⟩
  · intro o ho
    obtain ⟨hb, hwit⟩ := v7 o ho
    refine ⟨hb, ?_⟩
    rw [hwit]
    exact ⟨trivial, trivial⟩

/-- **as coded**: for an in-range query the bytes `encode_legacy_signing_data_to` writes are the stripped C01
    encoding of the transaction to sign minus the flag byte, followed by the hash type; and C01's decoder
    (`Transaction::consensus_decode`) recovers that transaction from the encoding -/
theorem msgLegacy_is_tx_encoding (P : Prims) (hs : SizesPos P) (tx : Tx) (htx : tx.wf P) (idx : Nat) (script : Bytes)
    (ty : EcdsaTy) (hsc : script.length ≤ maxVecSize) (hr : InRange ty idx tx) :
    let t' := legacyTx (specLegacyView tx idx script ty.asU32)
    msgLegacy tx idx script ty = .ok (dropFlag t'.encStripped ++ encLe 4 ty.asU32) ∧
    t'.enc = t'.encStripped ∧ (∀ r, Tx.dec P (t'.encStripped ++ r) = .ok (t', r)) := by
  intro t'
  have hwf := legacyTx_wf P hs tx htx idx script ty hsc hr
  have henc := (legacyTx_enc P _ (specLegacyView_wf P hs tx htx idx script ty hsc hr) ⟨fun _ => [], fun _ _ => []⟩).2.1
  refine ⟨?_, henc, fun r => ?_⟩
  · rw [legacy_refines tx idx script ty hr, serLegacy_eq]
    rfl
  · have := (tx_lawful P hs).complete t' r hwf
    rwa [henc] at this

/-! ### segwit v0 / taproot: the hashed preimages are C01 vector encodings and segments of `Tx.enc` -/

/-- the preimages of the cached hashes are C01's vector encodings without the length prefix -/
theorem preimages_are_vectors (tx : Tx) (ps : List TxOut) :
    encVec OutPoint.enc (tx.input.map (fun i => i.previousOutput)) = encVarint tx.input.length ++ preOutpoints tx ∧
    encVec (encLe 4) (tx.input.map (fun i => i.sequence)) = encVarint tx.input.length ++ preSequences tx ∧
    encVec TxOut.enc tx.output = encVarint tx.output.length ++ preOutputs tx ∧
    encVec TxOutWitness.enc (tx.output.map (fun o => o.witness)) = encVarint tx.output.length ++ preOutputWitnesses tx ∧
    encVec encBytesVec (ps.map (fun p => p.scriptPubkey)) = encVarint ps.length ++ preScriptPubkeys ps := by
  simp only [encVec, List.length_map, List.flatMap_map, preOutpoints, preSequences, preOutputs, preOutputWitnesses,
    preScriptPubkeys, and_self]

/-- `sha_outputs` hashes a segment of the C01 encoding: the stripped encoding (txid preimage) is version, flag,
    input vector, output count, THE `sha_outputs` PREIMAGE, lock time -/
theorem encStripped_segments (tx : Tx) :
    tx.encStripped = encLe 4 tx.version ++ [0] ++ encVarint tx.input.length ++ tx.input.flatMap TxIn.enc ++
      encVarint tx.output.length ++ preOutputs tx ++ encLe 4 tx.lockTime := by
  simp only [Tx.encStripped, encVec, preOutputs, List.append_assoc]

/-- … and the full encoding of a transaction with witnesses ends in the input witnesses followed by THE
    `sha_output_witnesses` PREIMAGE; each input witness starts with that input's issuance range proofs as
    `sha_issuance_rangeproofs` hashes them -/
theorem enc_segments (tx : Tx) (h : tx.hasWitness = true) :
    tx.enc = encLe 4 tx.version ++ [1] ++ encVarint tx.input.length ++ tx.input.flatMap TxIn.enc ++
      encVarint tx.output.length ++ preOutputs tx ++ encLe 4 tx.lockTime ++
      tx.input.flatMap (fun i => i.witness.enc) ++ preOutputWitnesses tx ∧
    ∀ i : TxIn, i.witness.enc = issuanceProofs i ++ encBytesVecVec i.witness.scriptWitness ++
      encBytesVecVec i.witness.peginWitness := by
  refine ⟨?_, fun i => rfl⟩
  simp only [Tx.enc, h, if_true, encVec, preOutputs, preOutputWitnesses, List.append_assoc]

/-- the input encoder of C01 writes the outpoint with the pegin / issuance flags in the vout word and the
    issuance (if any) after the sequence; the sighash algorithms commit to the PLAIN outpoint
    (`OutPoint.enc previousOutput`) and to the same issuance bytes (or `00`): the two outpoint encodings agree
    exactly on inputs without flags -/
theorem txIn_enc_parts (i : TxIn) :
    TxIn.enc i = OutPoint.enc ⟨i.previousOutput.txid, i.voutWord⟩ ++ encBytesVec i.scriptSig ++ encLe 4 i.sequence ++
      (if i.hasIssuance then i.assetIssuance.enc else []) ∧
    (i.isPegin = false → i.hasIssuance = false →
      TxIn.enc i = OutPoint.enc i.previousOutput ++ encBytesVec i.scriptSig ++ encLe 4 i.sequence) ∧
    (i.hasIssuance = true → issuanceOrZero i = i.assetIssuance.enc) := by
  refine ⟨by simp only [TxIn.enc, OutPoint.enc, List.append_assoc], ?_, ?_⟩
  · intro hp hi
    simp only [TxIn.enc, OutPoint.enc, TxIn.voutWord, hp, hi, Bool.false_eq_true, if_false, Nat.or_zero,
      List.append_nil, List.append_assoc]
  · intro hi
    simp only [issuanceOrZero, hi, if_true]

end EV.Proofs.BridgeSighashCodec
