/-
  The codecs of `Global`, `Input`, `Output` and of the whole PSET (EV.Model.PsetSer): round trip on
  the well-formed class, well-formedness of whatever is accepted, hence the re-encoding fixpoint.
-/
import EV.Model.PsetSer
import EV.Proofs.PsetWireRec
import EV.Proofs.PsetWireReject
namespace EV.Proofs.PsetWireTop
open EV EV.Codec EV.PsetWire EV.Proofs.CodecPrim EV.Proofs.PsetWireMap EV.Proofs.PsetWireCodec EV.Proofs.PsetWireConv

/-! ### the well-formed class -/

/-- a `Global` the decoder can produce: canonical slots, fields within their Rust widths, PSET version 2 -/
def WfGlobal (W : WirePrims) (g : PsetGlobal) : Prop :=
  WfSlots (globalTable W) g.toSlots ∧ g.Bounds ∧ g.version = Gen.PsetWire.psetVersion

def WfInput (W : WirePrims) (x : PsetInput) : Prop := WfSlots (inputTable W) x.toSlots ∧ x.Bounds

/-- … and the acceptance rules of `impl Decodable for Output` (amount or commitment, asset or commitment,
    blinder index where a blinding key is set, blinding data absent or complete) -/
def WfOutput (W : WirePrims) (x : PsetOutput) : Prop :=
  WfSlots (outputTable W) x.toSlots ∧ x.Bounds ∧ x.accepted = .ok ()

/-- the well-formed class of the property -/
def WfPset (W : WirePrims) (p : Pset) : Prop :=
  WfGlobal W p.global ∧ (∀ i ∈ p.inputs, WfInput W i) ∧ (∀ o ∈ p.outputs, WfOutput W o) ∧
    p.global.inputCount = p.inputs.length ∧ p.global.outputCount = p.outputs.length ∧
    p.inputs.length ≤ Pset.maxMaps ∧ p.outputs.length ≤ Pset.maxMaps

/-! ### single maps -/

theorem input_roundtrip (W : WirePrims) (x : PsetInput) (h : WfInput W x) (r : Bytes) :
    PsetInput.dec W (PsetInput.enc W x ++ r) = .ok (x, r) := by
  have hm1 : slotMissing x.toSlots PsetInput.ixPreviousTxid = false := rfl
  have hm2 : slotMissing x.toSlots PsetInput.ixPreviousOutputIndex = false := rfl
  simp only [PsetInput.dec, PsetInput.enc, decMap_encMap (inputTable_ok W) _ h.1 r, PsetInput.ofSlots_toSlots x h.2,
    hm1, hm2, Bool.false_eq_true, if_false]

theorem input_dec_wf (W : WirePrims) (bs : Bytes) (x : PsetInput) (r : Bytes) (h : PsetInput.dec W bs = .ok (x, r)) :
    WfInput W x := by
  unfold PsetInput.dec at h
  cases hd : decMap (inputTable W) bs with
  | ok q =>
    obtain ⟨st, r1⟩ := q
    rw [hd] at h
    simp only at h
    cases ho : PsetInput.ofSlots st with
    | none => rw [ho] at h; cases h
    | some y =>
      rw [ho] at h
      simp only at h
      split at h
      · cases h
      · rename_i hm1
        split at h
        · cases h
        · rename_i hm2
          simp only [Res.ok.injEq, Prod.mk.injEq] at h
          obtain ⟨rfl, rfl⟩ := h
          have hw := decMap_wf (inputTable_law W) _ _ _ hd
          have hz := (wfSlots_iff_zip _ _).mp hw
          obtain ⟨e, hb⟩ := PsetInput.toSlots_ofSlots _ W st y hz (Bool.eq_false_iff.mpr hm1) (Bool.eq_false_iff.mpr hm2) ho
          exact ⟨e ▸ hw, hb⟩
  | err e => rw [hd] at h; cases h
  | panic m => rw [hd] at h; cases h

theorem input_total (W : WirePrims) (bs : Bytes) (m : String) : PsetInput.dec W bs ≠ .panic m := by
  intro h
  unfold PsetInput.dec at h
  cases hd : decMap (inputTable W) bs with
  | ok q =>
    obtain ⟨st, r1⟩ := q
    rw [hd] at h
    simp only at h
    repeat (first | cases h | split at h)
  | err e => rw [hd] at h; cases h
  | panic m' => exact decMap_total _ _ _ hd

theorem output_roundtrip (W : WirePrims) (x : PsetOutput) (h : WfOutput W x) (r : Bytes) :
    PsetOutput.dec W (PsetOutput.enc W x ++ r) = .ok (x, r) := by
  have hm1 : slotMissing x.toSlots PsetOutput.ixScriptPubkey = false := rfl
  simp only [PsetOutput.dec, PsetOutput.enc, decMap_encMap (outputTable_ok W) _ h.1 r, PsetOutput.ofSlots_toSlots x h.2.1,
    hm1, Bool.false_eq_true, if_false, h.2.2]

theorem output_dec_wf (W : WirePrims) (bs : Bytes) (x : PsetOutput) (r : Bytes) (h : PsetOutput.dec W bs = .ok (x, r)) :
    WfOutput W x := by
  unfold PsetOutput.dec at h
  cases hd : decMap (outputTable W) bs with
  | ok q =>
    obtain ⟨st, r1⟩ := q
    rw [hd] at h
    simp only at h
    cases ho : PsetOutput.ofSlots st with
    | none => rw [ho] at h; cases h
    | some y =>
      rw [ho] at h
      simp only at h
      split at h
      · cases h
      · rename_i hm1
        cases ha : y.accepted with
        | ok u =>
          rw [ha] at h
          simp only [Res.ok.injEq, Prod.mk.injEq] at h
          obtain ⟨rfl, rfl⟩ := h
          have hw := decMap_wf (outputTable_law W) _ _ _ hd
          have hz := (wfSlots_iff_zip _ _).mp hw
          obtain ⟨e, hb⟩ := PsetOutput.toSlots_ofSlots _ W st y hz (Bool.eq_false_iff.mpr hm1) ho
          exact ⟨e ▸ hw, hb, ha⟩
        | err e => rw [ha] at h; cases h
        | panic m => rw [ha] at h; cases h
  | err e => rw [hd] at h; cases h
  | panic m => rw [hd] at h; cases h

theorem accepted_total (o : PsetOutput) (m : String) : o.accepted ≠ .panic m := by
  intro h
  unfold PsetOutput.accepted at h
  repeat (first | cases h | split at h)

theorem output_total (W : WirePrims) (bs : Bytes) (m : String) : PsetOutput.dec W bs ≠ .panic m := by
  intro h
  unfold PsetOutput.dec at h
  cases hd : decMap (outputTable W) bs with
  | ok q =>
    obtain ⟨st, r1⟩ := q
    rw [hd] at h
    simp only at h
    cases ho : PsetOutput.ofSlots st with
    | none => rw [ho] at h; cases h
    | some y =>
      rw [ho] at h
      simp only at h
      split at h
      · cases h
      · cases ha : y.accepted with
        | ok u => rw [ha] at h; cases h
        | err e => rw [ha] at h; cases h
        | panic m' => exact accepted_total _ _ ha
  | err e => rw [hd] at h; cases h
  | panic m' => exact decMap_total _ _ _ hd

theorem global_roundtrip (W : WirePrims) (g : PsetGlobal) (h : WfGlobal W g) (r : Bytes) :
    PsetGlobal.dec W (PsetGlobal.enc W g ++ r) = .ok (g, r) := by
  have hm1 : slotMissing g.toSlots PsetGlobal.ixVersion = false := rfl
  have hm2 : slotMissing g.toSlots PsetGlobal.ixTxVersion = false := rfl
  have hm3 : slotMissing g.toSlots PsetGlobal.ixInputCount = false := rfl
  have hm4 : slotMissing g.toSlots PsetGlobal.ixOutputCount = false := rfl
  simp only [PsetGlobal.dec, PsetGlobal.enc, decMap_encMap (globalTable_ok W) _ h.1 r, PsetGlobal.ofSlots_toSlots g h.2.1,
    hm1, hm2, hm3, hm4, Bool.false_eq_true, if_false, h.2.2, ne_eq, not_true_eq_false]

theorem global_dec_wf (W : WirePrims) (bs : Bytes) (g : PsetGlobal) (r : Bytes) (h : PsetGlobal.dec W bs = .ok (g, r)) :
    WfGlobal W g := by
  unfold PsetGlobal.dec at h
  cases hd : decMap (globalTable W) bs with
  | ok q =>
    obtain ⟨st, r1⟩ := q
    rw [hd] at h
    simp only at h
    cases ho : PsetGlobal.ofSlots st with
    | none => rw [ho] at h; cases h
    | some y =>
      rw [ho] at h
      simp only at h
      split at h
      · cases h
      · rename_i hm1
        split at h
        · cases h
        · rename_i hv
          split at h
          · cases h
          · rename_i hm2
            split at h
            · cases h
            · rename_i hm3
              split at h
              · cases h
              · rename_i hm4
                simp only [Res.ok.injEq, Prod.mk.injEq] at h
                obtain ⟨rfl, rfl⟩ := h
                have hw := decMap_wf (globalTable_law W) _ _ _ hd
                have hz := (wfSlots_iff_zip _ _).mp hw
                obtain ⟨e, hb⟩ := PsetGlobal.toSlots_ofSlots _ W st y hz (Bool.eq_false_iff.mpr hm2) (Bool.eq_false_iff.mpr hm3)
                  (Bool.eq_false_iff.mpr hm4) (Bool.eq_false_iff.mpr hm1) ho
                exact ⟨e ▸ hw, hb, Classical.not_not.mp hv⟩
  | err e => rw [hd] at h; cases h
  | panic m => rw [hd] at h; cases h

theorem global_total (W : WirePrims) (bs : Bytes) (m : String) : PsetGlobal.dec W bs ≠ .panic m := by
  intro h
  unfold PsetGlobal.dec at h
  cases hd : decMap (globalTable W) bs with
  | ok q =>
    obtain ⟨st, r1⟩ := q
    rw [hd] at h
    simp only at h
    repeat (first | cases h | split at h)
  | err e => rw [hd] at h; cases h
  | panic m' => exact decMap_total _ _ _ hd

/-! ### lists of maps -/

theorem repeatN_complete' {α} (d : Dec α) (e : α → Bytes) (wf : α → Prop)
    (hc : ∀ v r, wf v → d (e v ++ r) = .ok (v, r)) :
    ∀ vs r, (∀ v ∈ vs, wf v) → repeatN d vs.length (vs.flatMap e ++ r) = .ok (vs, r) := by
  intro vs
  induction vs with
  | nil => intro r _; simp [repeatN]
  | cons a as ih =>
    intro r hw
    have h1 := hc a (as.flatMap e ++ r) (hw a (List.mem_cons_self))
    have h2 := ih r (fun v hv => hw v (List.mem_cons_of_mem _ hv))
    simp only [List.length_cons, List.flatMap_cons, List.append_assoc, repeatN, h1, h2]

theorem repeatN_wf {α} (d : Dec α) (wf : α → Prop) (hs : ∀ bs v r, d bs = .ok (v, r) → wf v) :
    ∀ n bs vs rest, repeatN d n bs = .ok (vs, rest) → vs.length = n ∧ ∀ v ∈ vs, wf v := by
  intro n
  induction n with
  | zero =>
    intro bs vs rest hr
    simp only [repeatN, Res.ok.injEq, Prod.mk.injEq] at hr
    obtain ⟨rfl, rfl⟩ := hr
    simp
  | succ n ih =>
    intro bs vs rest hr
    simp only [repeatN] at hr
    cases hd : d bs with
    | ok p =>
      obtain ⟨a, r1⟩ := p
      rw [hd] at hr
      simp only at hr
      cases hrr : repeatN d n r1 with
      | ok q =>
        obtain ⟨as, r2⟩ := q
        rw [hrr] at hr
        simp only [Res.ok.injEq, Prod.mk.injEq] at hr
        obtain ⟨rfl, rfl⟩ := hr
        obtain ⟨h4, h5⟩ := ih _ _ _ hrr
        refine ⟨by simp [h4], ?_⟩
        intro v hv
        rcases List.mem_cons.mp hv with rfl | hv
        · exact hs _ _ _ hd
        · exact h5 v hv
      | err e => rw [hrr] at hr; cases hr
      | panic s => rw [hrr] at hr; cases hr
    | err e => rw [hd] at hr; cases hr
    | panic s => rw [hd] at hr; cases hr

/-! ### the whole PSET -/

theorem magic_length : Pset.magic.length = 4 := by decide

theorem sanity_ok (p : Pset) (h1 : p.global.inputCount = p.inputs.length) (h2 : p.global.outputCount = p.outputs.length) :
    p.sanityCheck = .ok () := by
  simp only [Pset.sanityCheck, Pset.nInputs, Pset.nOutputs, h1, h2, ne_eq, not_true_eq_false, if_false]

/-- ROUND TRIP: every well-formed PSET decodes from its serialization to itself -/
theorem pset_roundtrip (W : WirePrims) (p : Pset) (h : WfPset W p) : Pset.deserialize W (Pset.serialize W p) = .ok p := by
  obtain ⟨hg, hi, ho, hci, hco, hli, hlo⟩ := h
  have ht : take 4 (Pset.magic ++ Pset.separator :: (p.global.enc W ++ p.inputs.flatMap (PsetInput.enc W) ++
      p.outputs.flatMap (PsetOutput.enc W))) = .ok (Pset.magic, Pset.separator :: (p.global.enc W ++
      p.inputs.flatMap (PsetInput.enc W) ++ p.outputs.flatMap (PsetOutput.enc W))) :=
    (take_lawful 4).complete _ _ magic_length
  have hgr := global_roundtrip W p.global hg (p.inputs.flatMap (PsetInput.enc W) ++ p.outputs.flatMap (PsetOutput.enc W))
  have hir := repeatN_complete' (PsetInput.dec W) (PsetInput.enc W) (WfInput W) (fun v r hv => input_roundtrip W v hv r)
    p.inputs (p.outputs.flatMap (PsetOutput.enc W)) hi
  have hor := repeatN_complete' (PsetOutput.dec W) (PsetOutput.enc W) (WfOutput W) (fun v r hv => output_roundtrip W v hv r)
    p.outputs [] ho
  rw [List.append_nil] at hor
  have hni : ¬ p.global.inputCount > Pset.maxMaps := by omega
  have hno : ¬ p.global.outputCount > Pset.maxMaps := by omega
  have hs : ({ global := p.global, inputs := p.inputs, outputs := p.outputs } : Pset).sanityCheck = .ok () :=
    sanity_ok p hci hco
  rw [← hci] at hir
  rw [← hco] at hor
  unfold Pset.deserialize Pset.dec Pset.serialize
  rw [ht]
  simp only [ne_eq, not_true_eq_false, if_false, List.append_assoc] at hgr ⊢
  rw [hgr]
  simp only [if_neg hni, if_neg hno, hir, hor, hs]

/-- everything the decoder accepts is in the well-formed class -/
theorem pset_dec_wf (W : WirePrims) (bs : Bytes) (p : Pset) (h : Pset.deserialize W bs = .ok p) : WfPset W p := by
  unfold Pset.deserialize at h
  cases hd : Pset.dec W bs with
  | ok q =>
    obtain ⟨p', r⟩ := q
    rw [hd] at h
    cases r with
    | cons a b => cases h
    | nil =>
      simp only [Res.ok.injEq] at h
      subst h
      unfold Pset.dec at hd
      cases ht : take 4 bs with
      | ok q1 =>
        obtain ⟨m, r0⟩ := q1
        rw [ht] at hd
        simp only at hd
        split at hd
        · cases hd
        · cases r0 with
          | nil => cases hd
          | cons s r1 =>
            simp only at hd
            split at hd
            · cases hd
            · cases hg : PsetGlobal.dec W r1 with
              | ok q2 =>
                obtain ⟨g, r2⟩ := q2
                rw [hg] at hd
                simp only at hd
                split at hd
                · cases hd
                · rename_i hni
                  cases hi : repeatN (PsetInput.dec W) g.inputCount r2 with
                  | ok q3 =>
                    obtain ⟨ins, r3⟩ := q3
                    rw [hi] at hd
                    simp only at hd
                    split at hd
                    · cases hd
                    · rename_i hno
                      cases ho : repeatN (PsetOutput.dec W) g.outputCount r3 with
                      | ok q4 =>
                        obtain ⟨outs, r4⟩ := q4
                        rw [ho] at hd
                        simp only at hd
                        split at hd
                        · rename_i hsan
                          simp only [Res.ok.injEq, Prod.mk.injEq] at hd
                          obtain ⟨rfl, rfl⟩ := hd
                          obtain ⟨hl1, hw1⟩ := repeatN_wf (PsetInput.dec W) (WfInput W) (input_dec_wf W) _ _ _ _ hi
                          obtain ⟨hl2, hw2⟩ := repeatN_wf (PsetOutput.dec W) (WfOutput W) (output_dec_wf W) _ _ _ _ ho
                          refine ⟨global_dec_wf W _ _ _ hg, hw1, hw2, hl1.symm, hl2.symm, ?_, ?_⟩
                          · simp only; omega
                          · simp only; omega
                        · cases hd
                        · cases hd
                      | err e => rw [ho] at hd; cases hd
                      | panic m' => rw [ho] at hd; cases hd
                  | err e => rw [hi] at hd; cases hd
                  | panic m' => rw [hi] at hd; cases hd
              | err e => rw [hg] at hd; cases hd
              | panic m' => rw [hg] at hd; cases hd
      | err e => rw [ht] at hd; cases hd
      | panic m' => rw [ht] at hd; cases hd
  | err e => rw [hd] at h; cases h
  | panic m => rw [hd] at h; cases h

end EV.Proofs.PsetWireTop
