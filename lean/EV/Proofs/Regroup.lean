/-
  EV.Proofs.Regroup — the 8↔5 bit regrouping of `EV.Model.Bech32` (`bytesToFes`, `fesToBytes`):
  lengths, ranges, and the two round trips (bytes → symbols → bytes for all byte strings;
  symbols → bytes → symbols for symbol strings with valid padding).
-/
import EV.Model.Bech32
namespace EV.Bech32

/-! ### finite facts about one group -/

theorem bitsVal_bits8 : ∀ x, x < 256 → bitsVal (bits8 x) 0 = x := by decide +kernel
theorem bitsVal_bits5 : ∀ x, x < 32 → bitsVal (bits5 x) 0 = x := by decide +kernel

theorem bits5_bitsVal (a b c d e : Bool) : bits5 (bitsVal [a, b, c, d, e] 0) = [a, b, c, d, e] := by
  cases a <;> cases b <;> cases c <;> cases d <;> cases e <;> rfl

theorem bits8_bitsVal (a b c d e f g h : Bool) :
    bits8 (bitsVal [a, b, c, d, e, f, g, h] 0) = [a, b, c, d, e, f, g, h] := by
  cases a <;> cases b <;> cases c <;> cases d <;> cases e <;> cases f <;> cases g <;> cases h <;> rfl

theorem bitsVal5_lt (a b c d e : Bool) : bitsVal [a, b, c, d, e] 0 < 32 := by
  cases a <;> cases b <;> cases c <;> cases d <;> cases e <;> decide

theorem bitsVal8_lt (a b c d e f g h : Bool) : bitsVal [a, b, c, d, e, f, g, h] 0 < 256 := by
  cases a <;> cases b <;> cases c <;> cases d <;> cases e <;> cases f <;> cases g <;> cases h <;> decide

/-- the low `p` bits of a symbol are zero iff its last `p` bits are `false` -/
theorem low_zero_drop : ∀ x, x < 32 → ∀ p, p < 5 → x % 2 ^ p = 0 →
    List.drop (5 - p) (bits5 x) = List.replicate p false := by decide +kernel
theorem drop_low_zero : ∀ x, x < 32 → ∀ p, p < 5 →
    List.drop (5 - p) (bits5 x) = List.replicate p false → x % 2 ^ p = 0 := by decide +kernel

theorem bits5_length (x : Nat) : (bits5 x).length = 5 := rfl
theorem bits8_length (x : Nat) : (bits8 x).length = 8 := rfl

theorem flatMap_bits5_length (l : List Nat) : (l.flatMap bits5).length = l.length * 5 := by
  induction l with
  | nil => rfl
  | cons x xs ih => rw [List.flatMap_cons, List.length_append, ih, bits5_length, List.length_cons]; omega

theorem flatMap_bits8_length (l : List Nat) : (l.flatMap bits8).length = l.length * 8 := by
  induction l with
  | nil => rfl
  | cons x xs ih => rw [List.flatMap_cons, List.length_append, ih, bits8_length, List.length_cons]; omega

/-! ### `group5` -/

theorem group5_cons5 (a b c d e : Bool) (rest : List Bool) :
    group5 (a :: b :: c :: d :: e :: rest) = bitsVal [a, b, c, d, e] 0 :: group5 rest := rfl

theorem group5_length (bits : List Bool) : (group5 bits).length = (bits.length + 4) / 5 := by
  induction bits using group5.induct with
  | case1 => rfl
  | case2 a => show (1 : Nat) = (1 + 4) / 5; decide
  | case3 a b => show (1 : Nat) = (2 + 4) / 5; decide
  | case4 a b c => show (1 : Nat) = (3 + 4) / 5; decide
  | case5 a b c d => show (1 : Nat) = (4 + 4) / 5; decide
  | case6 a b c d e rest ih =>
    rw [group5_cons5, List.length_cons, ih]
    simp only [List.length_cons]; omega

theorem group5_lt (bits : List Bool) : ∀ x ∈ group5 bits, x < 32 := by
  induction bits using group5.induct with
  | case1 => intro x hx; cases hx
  | case2 a => intro x hx; rw [List.mem_singleton.mp hx]; exact bitsVal5_lt ..
  | case3 a b => intro x hx; rw [List.mem_singleton.mp hx]; exact bitsVal5_lt ..
  | case4 a b c => intro x hx; rw [List.mem_singleton.mp hx]; exact bitsVal5_lt ..
  | case5 a b c d => intro x hx; rw [List.mem_singleton.mp hx]; exact bitsVal5_lt ..
  | case6 a b c d e rest ih =>
    intro x hx
    rw [group5_cons5] at hx
    rcases List.mem_cons.mp hx with h | h
    · rw [h]; exact bitsVal5_lt ..
    · exact ih x h

/-- symbols back to bits: the original bits plus the zero padding -/
theorem group5_flatMap_bits5 (bits : List Bool) :
    (group5 bits).flatMap bits5 = bits ++ List.replicate ((5 - bits.length % 5) % 5) false := by
  induction bits using group5.induct with
  | case1 => rfl
  | case2 a => show bits5 _ ++ [] = _; rw [bits5_bitsVal]; rfl
  | case3 a b => show bits5 _ ++ [] = _; rw [bits5_bitsVal]; rfl
  | case4 a b c => show bits5 _ ++ [] = _; rw [bits5_bitsVal]; rfl
  | case5 a b c d => show bits5 _ ++ [] = _; rw [bits5_bitsVal]; rfl
  | case6 a b c d e rest ih =>
    rw [group5_cons5, List.flatMap_cons, ih, bits5_bitsVal]
    have : (5 - (a :: b :: c :: d :: e :: rest).length % 5) % 5 = (5 - rest.length % 5) % 5 := by
      simp only [List.length_cons]; omega
    rw [this]; rfl

/-- explicit zero padding up to a multiple of five does not change the symbols -/
theorem group5_append_pad (bits : List Bool) (k : Nat) (hk : k < 5) (hd : (bits.length + k) % 5 = 0) :
    group5 (bits ++ List.replicate k false) = group5 bits := by
  induction bits using group5.induct with
  | case1 =>
    have : k = 0 := by simp only [List.length_nil] at hd; omega
    subst this; rfl
  | case2 a =>
    have : k = 4 := by simp only [List.length_cons, List.length_nil] at hd; omega
    subst this; rfl
  | case3 a b =>
    have : k = 3 := by simp only [List.length_cons, List.length_nil] at hd; omega
    subst this; rfl
  | case4 a b c =>
    have : k = 2 := by simp only [List.length_cons, List.length_nil] at hd; omega
    subst this; rfl
  | case5 a b c d =>
    have : k = 1 := by simp only [List.length_cons, List.length_nil] at hd; omega
    subst this; rfl
  | case6 a b c d e rest ih =>
    have hd' : (rest.length + k) % 5 = 0 := by simp only [List.length_cons] at hd; omega
    show group5 (a :: b :: c :: d :: e :: (rest ++ List.replicate k false)) = _
    rw [group5_cons5, group5_cons5, ih hd']

theorem group5_flatMap_bits5_id (fs : List Nat) (h : ∀ x ∈ fs, x < 32) :
    group5 (fs.flatMap bits5) = fs := by
  induction fs with
  | nil => rfl
  | cons x xs ih =>
    have hx : x < 32 := h x (List.mem_cons_self ..)
    have hxs : ∀ y ∈ xs, y < 32 := fun y hy => h y (List.mem_cons_of_mem _ hy)
    rw [List.flatMap_cons]
    show group5 (_ :: _ :: _ :: _ :: _ :: List.flatMap bits5 xs) = _
    rw [group5_cons5, ih hxs]
    show bitsVal (bits5 x) 0 :: xs = _
    rw [bitsVal_bits5 x hx]

/-! ### `group8` -/

theorem group8_cons8 (a b c d e f g h : Bool) (rest : List Bool) :
    group8 (a :: b :: c :: d :: e :: f :: g :: h :: rest) =
      bitsVal [a, b, c, d, e, f, g, h] 0 :: group8 rest := rfl

theorem group8_short : ∀ l : List Bool, l.length < 8 → group8 l = []
  | [], _ => rfl
  | [_], _ => rfl
  | [_, _], _ => rfl
  | [_, _, _], _ => rfl
  | [_, _, _, _], _ => rfl
  | [_, _, _, _, _], _ => rfl
  | [_, _, _, _, _, _], _ => rfl
  | [_, _, _, _, _, _, _], _ => rfl
  | _ :: _ :: _ :: _ :: _ :: _ :: _ :: _ :: _, h => by
    simp only [List.length_cons] at h; omega

/-- induction in steps of eight -/
theorem ind8 {P : List Bool → Prop} (hs : ∀ l, l.length < 8 → P l)
    (h8 : ∀ a b c d e f g h rest, P rest → P (a :: b :: c :: d :: e :: f :: g :: h :: rest)) :
    ∀ l, P l
  | a :: b :: c :: d :: e :: f :: g :: h :: rest => h8 a b c d e f g h rest (ind8 hs h8 rest)
  | [] => hs _ (show (0 : Nat) < 8 by decide)
  | [_] => hs _ (show (1 : Nat) < 8 by decide)
  | [_, _] => hs _ (show (2 : Nat) < 8 by decide)
  | [_, _, _] => hs _ (show (3 : Nat) < 8 by decide)
  | [_, _, _, _] => hs _ (show (4 : Nat) < 8 by decide)
  | [_, _, _, _, _] => hs _ (show (5 : Nat) < 8 by decide)
  | [_, _, _, _, _, _] => hs _ (show (6 : Nat) < 8 by decide)
  | [_, _, _, _, _, _, _] => hs _ (show (7 : Nat) < 8 by decide)

theorem group8_length (bits : List Bool) : (group8 bits).length = bits.length / 8 := by
  induction bits using ind8 with
  | hs l hl => rw [group8_short l hl]; simp only [List.length_nil]; omega
  | h8 a b c d e f g h rest ih =>
    rw [group8_cons8, List.length_cons, ih]
    simp only [List.length_cons]; omega

theorem group8_lt (bits : List Bool) : ∀ x ∈ group8 bits, x < 256 := by
  induction bits using ind8 with
  | hs l hl => rw [group8_short l hl]; intro x hx; cases hx
  | h8 a b c d e f g h rest ih =>
    intro x hx
    rw [group8_cons8] at hx
    rcases List.mem_cons.mp hx with h | h
    · rw [h]; exact bitsVal8_lt ..
    · exact ih x h

/-- bytes back to bits: the original bits without the dropped partial group -/
theorem group8_flatMap_bits8 (bits : List Bool) :
    (group8 bits).flatMap bits8 = bits.take (bits.length / 8 * 8) := by
  induction bits using ind8 with
  | hs l hl =>
    rw [group8_short l hl]
    have : l.length / 8 * 8 = 0 := by omega
    rw [this]; rfl
  | h8 a b c d e f g h rest ih =>
    rw [group8_cons8, List.flatMap_cons, ih, bits8_bitsVal]
    have : (a :: b :: c :: d :: e :: f :: g :: h :: rest).length / 8 * 8
        = rest.length / 8 * 8 + 8 := by
      simp only [List.length_cons]; omega
    rw [this]; rfl

theorem group8_flatMap_bits8_pad (bs : List Nat) (h : ∀ b ∈ bs, b < 256) (pad : List Bool)
    (hp : pad.length < 8) : group8 (bs.flatMap bits8 ++ pad) = bs := by
  induction bs with
  | nil => exact group8_short pad hp
  | cons x xs ih =>
    have hx : x < 256 := h x (List.mem_cons_self ..)
    have hxs : ∀ y ∈ xs, y < 256 := fun y hy => h y (List.mem_cons_of_mem _ hy)
    rw [List.flatMap_cons]
    show group8 (_ :: _ :: _ :: _ :: _ :: _ :: _ :: _ :: (List.flatMap bits8 xs ++ pad)) = _
    rw [group8_cons8, ih hxs]
    show bitsVal (bits8 x) 0 :: xs = _
    rw [bitsVal_bits8 x hx]

/-! ### the theorems -/

theorem pad_arith (m n : Nat) (h : n = (m * 8 + 4) / 5) : n * 5 % 8 = (5 - m * 8 % 5) % 5 := by
  obtain ⟨q, s, hs, rfl⟩ : ∃ q s, s < 5 ∧ m = 5 * q + s := ⟨m / 5, m % 5, by omega, by omega⟩
  rcases (by omega : s = 0 ∨ s = 1 ∨ s = 2 ∨ s = 3 ∨ s = 4) with rfl | rfl | rfl | rfl | rfl <;> omega

theorem bytesToFes_length (bs : List Nat) : (bytesToFes bs).length = (bs.length * 8 + 4) / 5 := by
  unfold bytesToFes
  rw [group5_length, flatMap_bits8_length]

theorem fesToBytes_length (fs : List Nat) : (fesToBytes fs).length = fs.length * 5 / 8 := by
  unfold fesToBytes
  rw [group8_length, flatMap_bits5_length]

theorem bytesToFes_lt (bs : List Nat) : ∀ x ∈ bytesToFes bs, x < 32 :=
  group5_lt _

theorem fesToBytes_lt (fs : List Nat) : ∀ x ∈ fesToBytes fs, x < 256 :=
  group8_lt _

/-- bytes → symbols → bytes is the identity -/
theorem fesToBytes_bytesToFes (bs : List Nat) (h : ∀ b ∈ bs, b < 256) :
    fesToBytes (bytesToFes bs) = bs := by
  unfold fesToBytes bytesToFes
  rw [group5_flatMap_bits5]
  apply group8_flatMap_bits8_pad bs h
  rw [List.length_replicate]; omega

/-- the encoder pads with zero bits only, and with fewer than five -/
theorem validatePadding_bytesToFes (bs : List Nat) : validatePadding (bytesToFes bs) = true := by
  unfold validatePadding
  split
  · rfl
  · rename_i last hlast
    obtain ⟨ini, hini⟩ := List.getLast?_eq_some_iff.mp hlast
    have hlen := bytesToFes_length bs
    have hlt : last < 32 := bytesToFes_lt bs last (by rw [hini]; simp)
    have hfm := group5_flatMap_bits5 (bs.flatMap bits8)
    have hfm' : (bytesToFes bs).flatMap bits5 = _ := hfm
    rw [flatMap_bits8_length] at hfm'
    rw [hini, List.flatMap_append] at hfm'
    rw [hini, List.length_append] at hlen
    simp only [List.length_cons, List.length_nil] at hlen
    have hp : (bytesToFes bs).length * 5 % 8 = (5 - bs.length * 8 % 5) % 5 := by
      rw [hini, List.length_append]; simp only [List.length_cons, List.length_nil]
      exact pad_arith _ _ hlen
    have hdrop := congrArg (List.drop (bs.length * 8)) hfm'
    rw [List.drop_append, List.drop_append] at hdrop
    rw [List.drop_eq_nil_of_le (as := List.flatMap bits5 ini) (by rw [flatMap_bits5_length]; omega),
      List.drop_eq_nil_of_le (as := List.flatMap bits8 bs) (by rw [flatMap_bits8_length]; omega)]
      at hdrop
    rw [flatMap_bits5_length, flatMap_bits8_length, Nat.sub_self, List.drop_zero,
      List.nil_append, List.nil_append] at hdrop
    simp only [List.flatMap_cons, List.flatMap_nil, List.append_nil] at hdrop
    have hk : bs.length * 8 - ini.length * 5 = 5 - (5 - bs.length * 8 % 5) % 5 := by omega
    rw [hk] at hdrop
    have hz := drop_low_zero last hlt _ (by omega) hdrop
    simp only [hp]
    rw [if_neg (by omega), hz]; rfl

/-- symbols → bytes → symbols is the identity on symbol strings with valid padding -/
theorem bytesToFes_fesToBytes (fs : List Nat) (h : ∀ x ∈ fs, x < 32) (hp : validatePadding fs = true) :
    bytesToFes (fesToBytes fs) = fs := by
  unfold bytesToFes fesToBytes
  rw [group8_flatMap_bits8, flatMap_bits5_length]
  unfold validatePadding at hp
  split at hp
  · rename_i hnone
    have : fs = [] := List.getLast?_eq_none_iff.mp hnone
    subst this; rfl
  · rename_i last hlast
    obtain ⟨ini, hini⟩ := List.getLast?_eq_some_iff.mp hlast
    have hlt : last < 32 := h last (by rw [hini]; simp)
    simp only [] at hp
    split at hp
    · cases hp
    · rename_i hle
      have hz : last % 2 ^ (fs.length * 5 % 8) = 0 := by simpa using hp
      have hd := low_zero_drop last hlt _ (by omega) hz
      -- the dropped bits are the zero low bits of the last symbol
      have hdrop : List.drop (fs.length * 5 / 8 * 8) (fs.flatMap bits5)
          = List.replicate (fs.length * 5 % 8) false := by
        rw [← hd]
        have hl : fs.length = ini.length + 1 := by rw [hini, List.length_append]; rfl
        conv => lhs; arg 2; rw [hini, List.flatMap_append]
        rw [List.drop_append, List.drop_eq_nil_of_le (as := List.flatMap bits5 ini)
          (by rw [flatMap_bits5_length]; omega), flatMap_bits5_length, List.nil_append]
        simp only [List.flatMap_cons, List.flatMap_nil, List.append_nil]
        congr 1
        omega
      have hsplit := List.take_append_drop (fs.length * 5 / 8 * 8) (fs.flatMap bits5)
      rw [hdrop] at hsplit
      have hpad := group5_append_pad (List.take (fs.length * 5 / 8 * 8) (fs.flatMap bits5))
        (fs.length * 5 % 8) (by omega)
        (by rw [List.length_take, flatMap_bits5_length]; omega)
      rw [← hpad, hsplit]
      exact group5_flatMap_bits5_id fs h

end EV.Bech32

