/-
  Definitions used by the statements of C03 / C13: collisions, length hypotheses on the hash
  parameters, the explicit "agree on everything the algorithm commits to" predicates, and the
  canonicity (`wf`) predicates of the committed-field records.
-/
import EV.Model.SighashCache
import EV.Proofs.CodecTx
namespace EV.Sighash
open EV EV.Codec

def Collision (f : Bytes → Bytes) : Prop := ∃ x y, x ≠ y ∧ f x = f y

/-- some input hashes to 32 zero bytes (BIP143 uses the zero hash as "not committed") -/
def ZeroPreimage (f : Bytes → Bytes) : Prop := ∃ x, f x = zero32

/-- the hash parameters return 32 bytes -/
structure HashLen (H : SigHashes) : Prop where
  sha256 : ∀ x, (H.sha256 x).length = 32
  sha256d : ∀ x, (H.sha256d x).length = 32

/-- double SHA-256 is SHA-256 twice (used only where the code computes the one and the
    specification names the other) -/
def Dbl (H : SigHashes) : Prop := ∀ x, H.sha256d x = H.sha256 (H.sha256 x)

/-! ### what each algorithm commits to, as explicit predicates on two transactions -/

/-- outpoint, pegin flag and issuance of an input -/
def inCore (i : TxIn) : OutPoint × Bool × Option AssetIssuance := (i.previousOutput, i.isPegin, issuanceOf i)

/-- LEGACY.  Never committed: `script_sig` and all four witness fields of every input, output
    witnesses, a null issuance's stray fields.  ANYONECANPAY: nothing of the other inputs.
    NONE / SINGLE: not the other inputs' sequence numbers.  NONE: no output.  SINGLE: only the
    output at the input's index (the others are blanked; the ones after it dropped). -/
def legacyAgree (ty : EcdsaTy) (idx : Nat) (a b : Tx) : Prop :=
  a.version = b.version ∧ a.lockTime = b.lockTime ∧
  (a.input[idx]?).map (fun i => (inCore i, i.sequence)) = (b.input[idx]?).map (fun i => (inCore i, i.sequence)) ∧
  (ty.acp = false → a.input.map inCore = b.input.map inCore) ∧
  (ty.acp = false → ty.base = .all → a.input.map (fun i => i.sequence) = b.input.map (fun i => i.sequence)) ∧
  (match ty.base with
   | .all => a.output.map outBody = b.output.map outBody
   | .single => (a.output[idx]?).map outBody = (b.output[idx]?).map outBody
   | .none => True)

/-- SEGWIT v0.  As legacy, and in addition the pegin flag of no input is committed. -/
def segwitAgree (ty : EcdsaTy) (idx : Nat) (a b : Tx) : Prop :=
  a.version = b.version ∧ a.lockTime = b.lockTime ∧
  (a.input[idx]?).map (fun i => (i.previousOutput, i.sequence, issuanceOf i)) =
    (b.input[idx]?).map (fun i => (i.previousOutput, i.sequence, issuanceOf i)) ∧
  (ty.acp = false → a.input.map (fun i => (i.previousOutput, issuanceOf i)) = b.input.map (fun i => (i.previousOutput, issuanceOf i))) ∧
  (ty.acp = false → ty.base = .all → a.input.map (fun i => i.sequence) = b.input.map (fun i => i.sequence)) ∧
  (match ty.base with
   | .all => a.output.map outBody = b.output.map outBody
   | .single => (a.output[idx]?).map outBody = (b.output[idx]?).map outBody
   | .none => True)

/-- asset, amount and script of a spent output (its nonce and witness are never committed) -/
def spentCore (p : TxOut) : Asset × Value × Bytes := (p.asset, p.value, p.scriptPubkey)

/-- what taproot commits to for every input when the type is not ANYONECANPAY -/
def allCore (i : TxIn) : (OutPoint × Bool × Option AssetIssuance) × Nat × (Option Bytes × Option Bytes) :=
  (inCore i, i.sequence, proofsOf i)

/-- what taproot commits to for the signed input with ANYONECANPAY: the issuance range proofs only
    if there is an issuance -/
def thisCore (i : TxIn) : OutPoint × Bool × Nat × Option (AssetIssuance × Option Bytes × Option Bytes) :=
  (i.previousOutput, i.isPegin, i.sequence, (issuanceOf i).map (fun x => (x, proofsOf i)))

/-- TAPROOT.  Never committed: `script_sig`, script witness and pegin witness of every input, nonce
    and witness of the spent outputs.  ANYONECANPAY: nothing of the other inputs and spent outputs.
    NONE: no output.  SINGLE: only the output (with its witness) at the input's index.  Otherwise
    all outputs with their witnesses. -/
def taprootAgree (ty : SchnorrTy) (idx : Nat) (a b : Tx) (pa pb : Prevouts) : Prop :=
  a.version = b.version ∧ a.lockTime = b.lockTime ∧
  pa.checkAll a = pb.checkAll b ∧
  (if ty.acp then
     (a.input[idx]?).map thisCore = (b.input[idx]?).map thisCore ∧
     (idx < a.input.length → (pa.get idx).map spentCore = (pb.get idx).map spentCore)
   else
     a.input.map allCore = b.input.map allCore ∧
     pa.getAll.map (List.map spentCore) = pb.getAll.map (List.map spentCore)) ∧
  (if ty.isSingle then a.output[idx]? = b.output[idx]?
   else if ty.isNone then True
   else a.output = b.output)

/-! ### canonicity of the committed-field records (inherited from canonical transactions) -/

variable (P : Prims)

def LegacyView.wf (v : LegacyView) : Prop :=
  v.version < 2^32 ∧ v.lockTime < 2^32 ∧ v.hashType < 2^32 ∧
  v.inputs.length ≤ maxVecSize ∧ v.outputs.length ≤ maxVecSize ∧
  (∀ i ∈ v.inputs, i.wfBody P ∧ i.witness = TxInWitness.empty) ∧
  (∀ o ∈ v.outputs, o.wfBody P ∧ o.witness = TxOutWitness.empty)

def OutSel.wfBodies : OutSel → Prop
  | .all l => ∀ o ∈ l, o.wfBody P ∧ o.witness = TxOutWitness.empty
  | .single o => o.wfBody P ∧ o.witness = TxOutWitness.empty
  | .none => True

/-- canonical fields, and the shape (which optional parts are present) is the one the hash type
    prescribes -/
def SegwitView.wf (v : SegwitView) : Prop :=
  v.version < 2^32 ∧ v.lockTime < 2^32 ∧ v.hashType < 2^32 ∧
  v.outpoint.wf ∧ v.scriptCode.length ≤ maxVecSize ∧ v.value.wf P ∧ v.sequence < 2^32 ∧
  (∀ i, v.issuance = some i → i.wf P) ∧
  (∀ l, v.prevouts = some l → ∀ o ∈ l, o.wf) ∧
  (∀ l, v.sequences = some l → ∀ s ∈ l, s < 2^32) ∧
  v.outputs.wfBodies P ∧
  (v.prevouts.isSome = decide (v.hashType &&& 0x80 = 0)) ∧
  (v.issuances.isSome = decide (v.hashType &&& 0x80 = 0)) ∧
  (v.sequences.isSome = decide (v.hashType &&& 0x80 = 0 ∧ v.hashType &&& 0x1f ≠ 3 ∧ v.hashType &&& 0x1f ≠ 2)) ∧
  (match v.outputs with
   | .all _ => v.hashType &&& 0x1f ≠ 3 ∧ v.hashType &&& 0x1f ≠ 2
   | .single _ => v.hashType &&& 0x1f = 3
   | .none => v.hashType &&& 0x1f = 3 ∨ v.hashType &&& 0x1f = 2)

def wfProofs (p : Option Bytes × Option Bytes) : Prop :=
  wfOptProof P.rangeproof p.1 ∧ wfOptProof P.rangeproof p.2

def TapAllInputs.wf (a : TapAllInputs) : Prop :=
  (∀ o ∈ a.outpoints, o.wf) ∧
  (∀ p ∈ a.spentAssetAmounts, p.1.wf P ∧ p.2.wf P) ∧
  (∀ s ∈ a.spentScripts, s.length ≤ maxVecSize) ∧
  (∀ s ∈ a.sequences, s < 2^32) ∧
  (∀ i, some i ∈ a.issuances → i.wf P) ∧
  a.issuances.map Option.isSome = a.flags.map (fun f => f.2) ∧
  (∀ p ∈ a.issuanceProofs, wfProofs P p) ∧
  a.index < 2^32

def TapThisInput.wf (t : TapThisInput) : Prop :=
  t.outpoint.wf ∧ t.asset.wf P ∧ t.value.wf P ∧ t.script.length ≤ maxVecSize ∧ t.sequence < 2^32 ∧
  t.issuance.isSome = t.flag.2 ∧
  (∀ i p, t.issuance = some (i, p) → i.wf P ∧ wfProofs P p)

def TaprootView.wf (v : TaprootView) : Prop :=
  v.genesis.length = 32 ∧ (v.hashType ≤ 3 ∨ (0x81 ≤ v.hashType ∧ v.hashType ≤ 0x83)) ∧
  v.version < 2^32 ∧ v.lockTime < 2^32 ∧
  (match v.inputs with
   | .all a => v.hashType &&& 0x80 = 0 ∧ a.wf P
   | .one t => v.hashType &&& 0x80 = 0x80 ∧ t.wf P) ∧
  (match v.outputs with
   | .all l => (v.hashType = 0 ∨ v.hashType &&& 3 = 1) ∧ ∀ o ∈ l, o.wf P
   | .single o => v.hashType &&& 3 = 3 ∧ o.wf P
   | .none => v.hashType &&& 3 = 2) ∧
  (∀ a, v.annex = some a → a.length ≤ maxVecSize) ∧
  (∀ h p, v.leaf = some (h, p) → h.length = 32 ∧ p < 2^32)

/-- spent outputs as far as they matter: canonical asset, amount, script -/
def Prevouts.wf : Prevouts → Prop
  | .one _ p => p.wfBody P
  | .all ps => ∀ p ∈ ps, p.wfBody P

/-- the signed input exists and, for SINGLE, so does the output at its index (outside this range
    the legacy algorithm panics or yields the constant) -/
def InRange (ty : EcdsaTy) (idx : Nat) (tx : Tx) : Prop :=
  idx < tx.input.length ∧ (ty.base = .single → idx < tx.output.length)

/-! ### C13 -/

/-- every filled slot holds what a fresh computation over `tx` (and, for the taproot slot, the
    spent outputs `ps`) would produce -/
def CacheInv (H : SigHashes) (tx : Tx) (ps : List TxOut) (c : Cache) : Prop :=
  (∀ x, c.common = some x → x = commonOf H tx) ∧
  (∀ x, c.segwit = some x → x = segwitOf H (commonOf H tx)) ∧
  (∀ x, c.taproot = some x → x = taprootOf H tx ps)

/-- the one list of spent outputs all `Prevouts::All` queries of a history use -/
def Query.usesAll (ps : List TxOut) : Query → Prop
  | .taproot _ (.all ps') _ _ _ _ => ps' = ps
  | _ => True

def Op.usesAll (ps : List TxOut) : Op → Prop
  | .q qq => qq.usesAll ps
  | .w _ _ => True

end EV.Sighash
