/- helper for C12: the discount-weight fold -/
import EV.Proofs.CodecTx
namespace EV.Proofs.Sizes
open EV EV.Codec EV.Proofs.CodecTx

/-- same definition as `EV.Props.C12.discount` (kept here so the helper does not import Props) -/
def discount (o : TxOut) : Nat :=
  (o.witness.enc.length - 2) + (if o.value.isConf then 4 * 24 else 0) + (if o.nonce.isConf then 4 * 32 else 0)

theorem discount_weight_eq (P : Prims) (t : Tx) (h : t.wf P) :
    (t.output.map discount).sum ≤ t.weight ∧
    t.discountWeight = some (t.weight - (t.output.map discount).sum) := by
  sorry

end EV.Proofs.Sizes
