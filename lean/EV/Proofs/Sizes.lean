/- helper for C12: the discount-weight fold -/
import EV.Proofs.CodecTx
namespace EV.Proofs.Sizes
open EV EV.Codec EV.Proofs.CodecTx

/-- same definition as `EV.Props.C12.discount` (kept here so the helper does not import Props) -/
def discount (o : TxOut) : Nat :=
  (o.witness.enc.length - 2) + (if o.value.isConf then 4 * 24 else 0) + (if o.nonce.isConf then 4 * 32 else 0)

theorem encOptProof_length (p : Option Bytes) :
    (encOptProof p).length = varintSize (Tx.optLen p) + Tx.optLen p := by
  cases p with
  | none => simp [encOptProof, Tx.optLen, EV.Proofs.CodecPrim.encBytesVec_length]
  | some b => simp [encOptProof, Tx.optLen, EV.Proofs.CodecPrim.encBytesVec_length]

theorem surjLen_eq (w : TxOutWitness) : w.surjectionproofLen = Tx.optLen w.surjectionProof := by
  unfold TxOutWitness.surjectionproofLen Tx.optLen; cases w.surjectionProof <;> rfl

theorem rangeLen_eq (w : TxOutWitness) : w.rangeproofLen = Tx.optLen w.rangeproof := by
  unfold TxOutWitness.rangeproofLen Tx.optLen; cases w.rangeproof <;> rfl

theorem witness_enc_length (w : TxOutWitness) :
    w.enc.length = varintSize w.surjectionproofLen + w.surjectionproofLen +
      varintSize w.rangeproofLen + w.rangeproofLen := by
  unfold TxOutWitness.enc
  rw [List.length_append, encOptProof_length, encOptProof_length, surjLen_eq, rangeLen_eq]
  omega

theorem discountStep_some (w : Nat) (o : TxOut) (h : discount o ≤ w) :
    Tx.discountStep (some w) o = some (w - discount o) := by
  unfold discount at *
  rw [witness_enc_length] at *
  unfold Tx.discountStep
  simp only []
  generalize varintSize o.witness.surjectionproofLen + o.witness.surjectionproofLen +
    varintSize o.witness.rangeproofLen + o.witness.rangeproofLen = ww at *
  generalize o.value.isConf = vc at *
  generalize o.nonce.isConf = nc at *
  cases vc <;> cases nc <;> simp at h ⊢ <;> omega

theorem fold_discount (outs : List TxOut) (w : Nat) (h : (outs.map discount).sum ≤ w) :
    outs.foldl Tx.discountStep (some w) = some (w - (outs.map discount).sum) := by
  induction outs generalizing w with
  | nil => simp
  | cons o os ih =>
    simp only [List.map_cons, List.sum_cons] at h ⊢
    rw [List.foldl_cons, discountStep_some w o (by omega), ih _ (by omega)]
    congr 1; omega

theorem sum_map_le {α} (l : List α) (f g : α → Nat) (h : ∀ x ∈ l, f x ≤ g x) :
    (l.map f).sum ≤ (l.map g).sum := by
  induction l with
  | nil => simp
  | cons a as ih =>
    simp only [List.map_cons, List.sum_cons]
    have h1 := h a (by simp)
    have h2 := ih (fun x hx => h x (by simp [hx]))
    omega

theorem discount_le_outputScaled (t : Tx) (o : TxOut) (ho : o ∈ t.output) :
    discount o ≤ Tx.outputScaled 4 t.hasWitness o := by
  unfold discount Tx.outputScaled
  rw [witness_enc_length]
  have hv : (if o.value.isConf then 4 * 24 else 0) ≤ 4 * o.value.encodedLength := by
    cases o.value <;> simp [Value.isConf, Value.encodedLength]
  have hn : (if o.nonce.isConf then 4 * 32 else 0) ≤ 4 * o.nonce.encodedLength := by
    cases o.nonce <;> simp [Nonce.isConf, Nonce.encodedLength]
  cases hw : t.hasWitness with
  | true => simp only [if_true]; omega
  | false =>
    have he : o.witness.isEmpty = true := by
      unfold Tx.hasWitness at hw
      rw [Bool.or_eq_false_iff] at hw
      have := (List.any_eq_false.mp hw.2) o ho
      simpa using this
    unfold TxOutWitness.isEmpty at he
    rw [Bool.and_eq_true, Option.isNone_iff_eq_none, Option.isNone_iff_eq_none] at he
    have hs : o.witness.surjectionproofLen = 0 := by
      unfold TxOutWitness.surjectionproofLen; rw [he.1]
    have hr : o.witness.rangeproofLen = 0 := by
      unfold TxOutWitness.rangeproofLen; rw [he.2]
    rw [hs, hr]
    have : varintSize 0 = 1 := by decide
    rw [this]
    simp only [Bool.false_eq_true, if_false]
    omega

theorem discount_weight_eq (P : Prims) (t : Tx) (h : t.wf P) :
    (t.output.map discount).sum ≤ t.weight ∧
    t.discountWeight = some (t.weight - (t.output.map discount).sum) := by
  have _ := h
  have hle : (t.output.map discount).sum ≤ t.weight := by
    have h1 := sum_map_le t.output discount (Tx.outputScaled 4 t.hasWitness)
      (fun o ho => discount_le_outputScaled t o ho)
    unfold Tx.weight Tx.scaledSize
    omega
  exact ⟨hle, fold_discount t.output t.weight hle⟩

end EV.Proofs.Sizes
