/-
  BRIDGE between the PSET models of C08 / C14 and the binary codec model of C07.

  1. SAME STRUCTURES.  `from_tx`, `extract_tx`, `unique_id`, `locktime` (C08) and `merge` (C14) are
     defined on the records `PsetGlobal` / `PsetInput` / `PsetOutput` / `Pset` of EV.Model.Pset; the codec
     of C07 (`Pset.serialize`, `Pset.deserialize`, `WfPset`) encodes from and decodes into the very same
     records (EV.Model.PsetSer through the generated `toSlots` / `ofSlots`).  No conversion is needed and
     no field is projected away: all 11 + 48 + 20 fields are common.  What has to be bridged is the
     DOMAIN: the codec theorems speak about `WfPset`, the C14 theorems about `Pset.Sorted`, the C08
     theorems about `Tx.wf`.  This file proves
       wf_sorted           `WfPset W p → p.Sorted` (the BTreeMap invariant of C14);
       fromTx_wf           `Tx.wf` transactions within the format's own limits give codec-well-formed
                           PSETs (limits = exactly the hypotheses `TxReady`, shown necessary);
       mergeCore_wf        `merge` keeps codec-well-formedness, up to the ONE output rule it can break
                           (blinding data absent or complete), shown by a counterexample.
-/
import EV.Proofs.PsetWireTop
import EV.Proofs.PsetMergeTop
import EV.Proofs.CodecTx
namespace EV.Proofs.PsetBridge
open EV EV.Codec EV.PsetWire EV.Proofs.CodecPrim EV.Proofs.PsetWireMap EV.Proofs.PsetWireCodec EV.Proofs.PsetWireConv
  EV.Proofs.PsetWireTop

/-! ### slots of single fields -/

/-- a tag under which the empty inner key is routed back and framed within the limits -/
def SmallTag (T : List Field) (t : Tag) : Prop := tagOk T t [] ∧ (rawKeyOf t []).key.length ≤ maxVecSize

theorem smallTag_plain (T : List Field) (ty : UInt8) : SmallTag T (.plain ty) := ⟨trivial, Nat.zero_le _⟩
theorem smallTag_pset (T : List Field) (sub : UInt8) : SmallTag T (.pset sub) := by
  refine ⟨trivial, ?_⟩
  simp only [rawKeyOf, encPropKey, List.length_append, List.length_cons, List.length_nil]
  have : (encBytesVec psetPrefix).length = 5 := by decide
  rw [this]; decide

theorem wf_ofOpt {T : List Field} {n : String} {t : Tag} {c : VCodec} (ht : SmallTag T t) (o : Option Bytes)
    (h : ∀ b, o = some b → b.length ≤ maxVecSize ∧ c [] b = some b) : WfSlot T (fOpt n t c) (Slot.ofOpt o) := by
  cases o with
  | none => exact wfSlot_nil _ _
  | some b =>
    obtain ⟨h1, h2⟩ := h b rfl
    refine ⟨?_, ?_⟩
    · intro kv hkv
      simp only [Slot.ofOpt, List.mem_singleton] at hkv
      subst hkv
      exact ⟨ht.1, ht.2, h1, h2⟩
    · exact ⟨by simp [Slot.ofOpt], by
        intro kv hkv
        simp only [Slot.ofOpt, List.mem_singleton] at hkv
        subst hkv; rfl⟩

theorem cLen_of {w : Nat} {b : Bytes} (h : b.length = w) : cLen w [] b = some b := by
  unfold cLen
  exact accept_of _ _ (by simpa using h)

theorem wf_ofOptN {T : List Field} {n : String} {t : Tag} (ht : SmallTag T t) (w : Nat) (hw : w ≤ maxVecSize) (o : Option Nat) :
    WfSlot T (fOpt n t (cLen w)) (Slot.ofOptN w o) := by
  unfold Slot.ofOptN
  apply wf_ofOpt ht
  intro b hb
  cases o with
  | none => cases hb
  | some x =>
    simp only [Option.map_some, Option.some.injEq] at hb
    subst hb
    exact ⟨by rw [leBytes_length]; exact hw, cLen_of (leBytes_length w x)⟩

theorem stackOk_enc (l : List Bytes) (h : WfStack l) : stackOk (encBytesVecVec l) = true := by
  have := bytesVecVec_lawful.complete l [] h
  rw [List.append_nil] at this
  simp only [stackOk, this]

theorem wf_ofOptL {T : List Field} {n : String} {t : Tag} (ht : SmallTag T t) (o : Option (List Bytes))
    (h : ∀ l, o = some l → WfStack l ∧ (encBytesVecVec l).length ≤ maxVecSize) :
    WfSlot T (fOpt n t (accept stackOk)) (Slot.ofOptL o) := by
  unfold Slot.ofOptL
  apply wf_ofOpt ht
  intro b hb
  cases o with
  | none => cases hb
  | some l =>
    simp only [Option.map_some, Option.some.injEq] at hb
    subst hb
    obtain ⟨h1, h2⟩ := h l rfl
    exact ⟨h2, accept_of _ _ (stackOk_enc l h1)⟩

/-! ### what the codec needs from a transaction beyond `Tx.wf` -/

/-- the two witness stacks of an input are stored as ONE pair value each: their consensus encodings
    must fit a `Vec<u8>` the pair decoder accepts (`MAX_VEC_SIZE`) -/
def InSized (i : TxIn) : Prop :=
  (encBytesVecVec i.witness.scriptWitness).length ≤ maxVecSize ∧
  (i.isPegin = true → (encBytesVecVec i.witness.peginWitness).length ≤ maxVecSize)

/-- an output the PSET format can carry: a value and an asset are mandatory (`MissingOutputValue` /
    `MissingOutputAsset`), and a confidential nonce of an output that is not (partially) blinded would be
    read as a blinding key without blinder index (`MissingBlinderIndex`; the recorded class F12bc) -/
def OutReady (o : TxOut) : Prop :=
  o.value ≠ .null ∧ o.asset ≠ .null ∧ (o.nonce.isConf = true → PsetOutput.txOutPartiallyBlinded o = true)

/-- the part of the format's own limits that `Tx.wf` does not imply: at most 10 000 inputs and outputs
    (`TooLargePset`), `InSized` inputs, `OutReady` outputs -/
def TxReady (t : Tx) : Prop :=
  t.input.length ≤ Pset.maxMaps ∧ t.output.length ≤ Pset.maxMaps ∧ (∀ i ∈ t.input, InSized i) ∧ (∀ o ∈ t.output, OutReady o)

theorem wfOptProof_slot {T : List Field} {n : String} {t : Tag} (ht : SmallTag T t) (valid : Bytes → Bool) (o : Option Bytes)
    (h : wfOptProof valid o) : WfSlot T (fOpt n t (accept valid)) (Slot.ofOpt o) := by
  apply wf_ofOpt ht
  intro b hb
  subst hb
  exact ⟨h.2.2, accept_of _ _ h.2.1⟩

theorem valueComm_slot {T : List Field} {n : String} {t : Tag} (ht : SmallTag T t) (W : WirePrims) (v : Value) (h : v.wf W.P) :
    WfSlot T (fOpt n t (accept (commitmentOk W))) (Slot.ofOpt (PsetInput.valueComm v)) := by
  apply wf_ofOpt ht
  intro b hb
  cases v with
  | null => cases hb
  | explicit x => cases hb
  | conf c =>
    simp only [PsetInput.valueComm, Option.some.injEq] at hb
    subst hb
    obtain ⟨h1, _, h3⟩ := h
    exact ⟨by rw [h1]; decide, accept_of _ _ (by simp [commitmentOk, h1, h3])⟩

theorem valueAmount_bound (W : WirePrims) (v : Value) (h : v.wf W.P) : ∀ n, PsetInput.valueAmount v = some n → n < 256 ^ 8 := by
  intro n hn
  cases v with
  | null => cases hn
  | conf c => cases hn
  | explicit x =>
    simp only [PsetInput.valueAmount, Option.some.injEq] at hn
    subst hn
    exact h

/-! ### `Input::from_txin` -/

theorem fromTxIn_wf (W : WirePrims) (t : TxIn) (hw : t.wf W.P) (hs : InSized t) : WfInput W (PsetInput.fromTxIn t) := by
  obtain ⟨⟨htx, hidx, hsig, hseq, hiss⟩, hwr1, hwr2, hst1, hst2⟩ := hw
  have hvout : t.previousOutput.vout < 2 ^ 32 := by
    rcases hidx with ⟨h, _⟩ | ⟨h, _⟩
    · have : (2:Nat) ^ 30 < 2 ^ 32 := by decide
      omega
    · rw [h]; decide
  have hP (ty : UInt8) : SmallTag (inputTable W) (.plain ty) := smallTag_plain _ _
  have hS (sub : UInt8) : SmallTag (inputTable W) (.pset sub) := smallTag_pset _ _
  have h4 : 4 ≤ maxVecSize := by decide
  have h8 : 8 ≤ maxVecSize := by decide
  have h1 : 1 ≤ maxVecSize := by decide
  have hsigS : WfSlot (inputTable W) (fOpt "final_script_sig" (.plain (u8n Gen.PsetWire.psetInFinalScriptsig)) cAny)
      (Slot.ofOpt (some t.scriptSig)) :=
    wf_ofOpt (hP _) _ (by intro b hb; cases hb; exact ⟨hsig, rfl⟩)
  have hwitS : WfSlot (inputTable W) (fOpt "final_script_witness" (.plain (u8n Gen.PsetWire.psetInFinalScriptwitness)) (accept stackOk))
      (Slot.ofOptL (some t.witness.scriptWitness)) :=
    wf_ofOptL (hP _) _ (by intro l hl; cases hl; exact ⟨hst1, hs.1⟩)
  have htxS : WfSlot (inputTable W) (fOpt "previous_txid" (.plain (u8n Gen.PsetWire.psetInPreviousTxid)) (cLen 32))
      (Slot.ofOpt (some t.previousOutput.txid)) :=
    wf_ofOpt (hP _) _ (by intro b hb; cases hb; exact ⟨by rw [htx]; decide, cLen_of htx⟩)
  refine ⟨?_, ?_⟩
  · rw [wfSlots_iff_zip]
    by_cases hp : t.isPegin = true <;> by_cases hi : t.hasIssuance = true
    all_goals
      simp only [hi, if_true, if_false, Bool.false_eq_true] at hiss
      simp only [PsetInput.fromTxIn, hp, hi, if_true, if_false, Bool.false_eq_true, PsetInput.toSlots, inputTable, WfZip, and_true]
      refine ⟨?_, ?_, ?_, ?_, ?_, ?_, ?_, ?_, ?_, ?_, ?_, ?_, ?_, ?_, ?_, ?_, ?_, ?_, ?_, ?_, ?_, ?_, ?_, ?_, ?_, ?_, ?_, ?_, ?_, ?_, ?_, ?_, ?_, ?_, ?_, ?_, ?_, ?_, ?_, ?_, ?_, ?_, ?_, ?_, ?_, ?_, ?_, ?_⟩
      all_goals first
        | exact wfSlot_nil _ _
        | exact hsigS
        | exact hwitS
        | exact htxS
        | exact wf_ofOptN (hP _) 4 h4 _
        | exact wf_ofOptN (hS _) 8 h8 _
        | exact wf_ofOptL (hS _) _ (by intro l hl; cases hl; exact ⟨hst2, hs.2 hp⟩)
        | exact valueComm_slot (hS _) W _ hiss.2.2.2.1
        | exact valueComm_slot (hS _) W _ hiss.2.2.2.2
        | exact wfOptProof_slot (hS _) _ _ hwr1
        | exact wfOptProof_slot (hS _) _ _ hwr2
        | exact wf_ofOpt (hS _) _ (by
            intro b hb; cases hb
            exact ⟨by rw [hiss.1]; decide, accept_of _ _ (by simp [tweakOk, hiss.1, hiss.2.1])⟩)
        | exact wf_ofOpt (hS _) _ (by
            intro b hb; cases hb
            exact ⟨by rw [hiss.2.2.1]; decide, cLen_of hiss.2.2.1⟩)
  · have hor : ∀ a b : Nat, a < 2 ^ 32 → b < 2 ^ 32 → a ||| b < 256 ^ 4 := by
      intro a b ha hb
      have : (256 : Nat) ^ 4 = 2 ^ 32 := by decide
      rw [this]; exact Nat.or_lt_two_pow ha hb
    have hseq' : t.sequence < 256 ^ 4 := by
      have : (256 : Nat) ^ 4 = 2 ^ 32 := by decide
      rw [this]; exact hseq
    have hvout' : t.previousOutput.vout < 256 ^ 4 := by
      have : (256 : Nat) ^ 4 = 2 ^ 32 := by decide
      rw [this]; exact hvout
    by_cases hp : t.isPegin = true <;> by_cases hi : t.hasIssuance = true
    all_goals
      simp only [hi, if_true, if_false, Bool.false_eq_true] at hiss
      simp only [PsetInput.fromTxIn, hp, hi, if_true, if_false, Bool.false_eq_true]
      constructor
      all_goals first
        | (intro n h; cases h; done)
        | (intro n h; simp only [Option.some.injEq] at h; subst h; first | exact hseq' | exact hst1 | exact hst2)
        | exact valueAmount_bound W _ hiss.2.2.2.1
        | exact valueAmount_bound W _ hiss.2.2.2.2
        | exact hvout'
        | exact hor _ _ hvout (by decide)
        | exact hor _ _ (Nat.or_lt_two_pow hvout (by decide)) (by decide)

/-! ### `Output::from_txout` -/

theorem fromTxOut_wf (W : WirePrims) (t : TxOut) (hw : t.wf W.P) (hr : OutReady t) : WfOutput W (PsetOutput.fromTxOut t) := by
  obtain ⟨⟨hasset, hvalue, hnonce, hspk⟩, hsurj, hrange⟩ := hw
  obtain ⟨hv0, ha0, hn0⟩ := hr
  have hP (ty : UInt8) : SmallTag (outputTable W) (.plain ty) := smallTag_plain _ _
  have hS (sub : UInt8) : SmallTag (outputTable W) (.pset sub) := smallTag_pset _ _
  have h8 : 8 ≤ maxVecSize := by decide
  have h4 : 4 ≤ maxVecSize := by decide
  have hpk : ∀ (n : String) (sub : UInt8), WfSlot (outputTable W) (fOpt n (.pset sub) (accept (pkOk W)))
      (Slot.ofOpt (PsetOutput.noncePk t.nonce)) := by
    intro n sub
    apply wf_ofOpt (hS _)
    intro b hb
    cases hn : t.nonce with
    | null => rw [hn] at hb; cases hb
    | explicit x => rw [hn] at hb; cases hb
    | conf pk =>
      rw [hn] at hb hnonce
      simp only [PsetOutput.noncePk, Option.some.injEq] at hb
      subst hb
      obtain ⟨h1, _, h3⟩ := hnonce
      exact ⟨by rw [h1]; decide, accept_of _ _ (by simp [pkOk, h1, h3])⟩
  refine ⟨?_, ?_, ?_⟩
  · rw [wfSlots_iff_zip]
    simp only [PsetOutput.fromTxOut, PsetOutput.toSlots, outputTable, WfZip, and_true]
    refine ⟨?_, ?_, ?_, ?_, ?_, ?_, ?_, ?_, ?_, ?_, ?_, ?_, ?_, ?_, ?_, ?_, ?_, ?_, ?_, ?_⟩
    all_goals first
      | exact wfSlot_nil _ _
      | exact wf_ofOptN (hP _) 8 h8 _
      | exact wf_ofOptN (hS _) 4 h4 _
      | exact valueComm_slot (hS _) W _ hvalue
      | exact wfOptProof_slot (hS _) _ _ hrange
      | exact wfOptProof_slot (hS _) _ _ hsurj
      | exact wf_ofOpt (hP _) _ (by intro b hb; cases hb; exact ⟨hspk, rfl⟩)
      | (split
         · first | exact hpk _ _ | exact wfSlot_nil _ _
         · first | exact hpk _ _ | exact wfSlot_nil _ _)
      | (apply wf_ofOpt (hS _)
         intro b hb
         cases ha : t.asset with
         | null => rw [ha] at hb; cases hb
         | explicit x =>
           rw [ha] at hb hasset
           have h32 : x.length = 32 := hasset
           simp only [PsetOutput.assetId, PsetOutput.assetGen, Option.some.injEq] at hb
           first
             | (subst hb; exact ⟨by rw [h32]; decide, cLen_of h32⟩)
             | (cases hb; done)
         | conf g =>
           rw [ha] at hb hasset
           obtain ⟨h1, _, h3⟩ := hasset
           simp only [PsetOutput.assetId, PsetOutput.assetGen, Option.some.injEq] at hb
           first
             | (subst hb
                exact ⟨by rw [h1]; decide, accept_of _ _ (by simp [generatorOk, h1, h3])⟩)
             | (cases hb; done))
  · simp only [PsetOutput.fromTxOut]
    constructor
    · exact valueAmount_bound W _ hvalue
    · intro n h; cases h
  · unfold PsetOutput.accepted PsetOutput.isPartiallyBlinded PsetOutput.isFullyBlinded
    simp only [PsetOutput.fromTxOut]
    have h1 : ((PsetInput.valueAmount t.value).isNone && (PsetInput.valueComm t.value).isNone) = false := by
      cases hv : t.value with
      | null => exact absurd hv hv0
      | explicit x => rfl
      | conf c => rfl
    have h2 : ((PsetOutput.assetId t.asset).isNone && (PsetOutput.assetGen t.asset).isNone) = false := by
      cases ha : t.asset with
      | null => exact absurd ha ha0
      | explicit x => rfl
      | conf c => rfl
    have h3 : (if PsetOutput.txOutPartiallyBlinded t = true then none else PsetOutput.noncePk t.nonce) = none := by
      by_cases hpb : PsetOutput.txOutPartiallyBlinded t = true
      · rw [if_pos hpb]
      · rw [if_neg hpb]
        cases hn : t.nonce with
        | null => rfl
        | explicit x => rfl
        | conf pk =>
          have : t.nonce.isConf = true := by rw [hn]; rfl
          exact absurd (hn0 this) hpb
    simp only [h1, h2, h3, Option.isSome_none, Bool.false_and, Bool.false_eq_true, if_false]

/-! ### `PartiallySignedTransaction::from_tx` -/

theorem countNorm_enc (n : Nat) (h : n < 2 ^ 64) : countNorm [] (encVarint n) = some (encVarint n) := by
  have := varint_lawful.complete n [] h
  rw [List.append_nil] at this
  simp only [countNorm, this]

theorem encVarint_len_le (n : Nat) : (encVarint n).length ≤ maxVecSize := by
  rw [encVarint_length]
  unfold varintSize
  repeat' split
  all_goals decide

theorem count_slot {T : List Field} {n : String} {t : Tag} (ht : SmallTag T t) (k : Nat) (h : k < 2 ^ 64) :
    WfSlot T (fOpt n t countNorm) (Slot.ofOpt (some (encVarint k))) :=
  wf_ofOpt ht _ (by intro b hb; cases hb; exact ⟨encVarint_len_le k, countNorm_enc k h⟩)

theorem fromTx_global_wf (W : WirePrims) (t : Tx) (hv : t.version < 2 ^ 32) (hl : t.lockTime < 2 ^ 32)
    (hi : t.input.length < 2 ^ 64) (ho : t.output.length < 2 ^ 64) : WfGlobal W (Pset.fromTx t).global := by
  have hP (ty : UInt8) : SmallTag (globalTable W) (.plain ty) := smallTag_plain _ _
  have hS (sub : UInt8) : SmallTag (globalTable W) (.pset sub) := smallTag_pset _ _
  have h4 : 4 ≤ maxVecSize := by decide
  have h1 : 1 ≤ maxVecSize := by decide
  have e32 : (256 : Nat) ^ 4 = 2 ^ 32 := by decide
  refine ⟨?_, ?_, rfl⟩
  · rw [wfSlots_iff_zip]
    simp only [Pset.fromTx, PsetGlobal.toSlots, globalTable, WfZip, and_true]
    refine ⟨?_, ?_, ?_, ?_, ?_, ?_, ?_, ?_, ?_, ?_, ?_⟩
    all_goals first
      | exact wfSlot_nil _ _
      | exact wf_ofOptN (hP _) 4 h4 _
      | exact wf_ofOptN (hP _) 1 h1 _
      | exact wf_ofOptN (hS _) 1 h1 _
      | exact count_slot (hP _) _ hi
      | exact count_slot (hP _) _ ho
  · simp only [Pset.fromTx]
    constructor
    all_goals first
      | (rw [e32]; exact hv)
      | (intro n h; simp only [Option.some.injEq] at h; subst h; rw [e32]; exact hl)
      | exact hi
      | exact ho
      | (intro n h; cases h; done)
      | (intro kv h; cases h; done)
      | exact (by decide : (2 : Nat) < 256 ^ 4)

/-- `from_tx_is_wf`: the PSET built by `from_tx` from a well-formed transaction that is within the
    limits of the PSET format (`TxReady`) is well-formed for the binary codec -/
theorem fromTx_wf (W : WirePrims) (t : Tx) (hw : t.wf W.P) (hr : TxReady t) : WfPset W (Pset.fromTx t) := by
  obtain ⟨hv, hl, _, _, hin, hout⟩ := hw
  obtain ⟨hni, hno, hsz, hrd⟩ := hr
  have hm : Pset.maxMaps < 2 ^ 64 := by decide
  refine ⟨fromTx_global_wf W t hv hl (by omega) (by omega), ?_, ?_, ?_, ?_, ?_, ?_⟩
  · intro i hi
    simp only [Pset.fromTx, List.mem_map] at hi
    obtain ⟨ti, hti, rfl⟩ := hi
    exact fromTxIn_wf W ti (hin ti hti) (hsz ti hti)
  · intro o ho
    simp only [Pset.fromTx, List.mem_map] at ho
    obtain ⟨to, hto, rfl⟩ := ho
    exact fromTxOut_wf W to (hout to hto) (hrd to hto)
  · simp only [Pset.fromTx, List.length_map]
  · simp only [Pset.fromTx, List.length_map]
  · simp only [Pset.fromTx, List.length_map]; exact hni
  · simp only [Pset.fromTx, List.length_map]; exact hno

/-! ### codec-well-formed PSETs satisfy the BTreeMap invariant of C14 -/

theorem keys_map_snd {α β : Type} (m : List (Bytes × α)) (f : α → β) : KV.keys (m.map (fun kv => (kv.1, f kv.2))) = KV.keys m := by
  simp only [KV.keys, List.map_map]
  rfl

theorem map_sorted {T : List Field} {n : String} {t : Tag} {vk : Bytes → Bool} {c : VCodec} {lt : Bytes → Bytes → Bool}
    {s : Slot} (h : WfSlot T (fMap n t vk c lt) s) : KV.Sorted s := h.shape.1

theorem input_sorted (W : WirePrims) (x : PsetInput) (h : WfInput W x) : x.Sorted := by
  have hz := (wfSlots_iff_zip _ _).mp h.1
  simp only [PsetInput.toSlots, inputTable, WfZip] at hz
  obtain ⟨h0, h1, h2, h3, h4, h5, h6, h7, h8, h9, h10, h11, h12, h13, h14, h15, h16, h17, h18, h19, h20, h21, h22, h23,
    h24, h25, h26, h27, h28, h29, h30, h31, h32, h33, h34, h35, h36, h37, h38, h39, h40, h41, h42, h43, h44, h45, h46, h47, _⟩ := hz
  exact ⟨map_sorted h2, map_sorted h6, map_sorted h9, map_sorted h10, map_sorted h11, map_sorted h12, map_sorted h19,
    map_sorted h20, map_sorted h21, map_sorted h46, map_sorted h47⟩

theorem output_sorted (W : WirePrims) (x : PsetOutput) (h : WfOutput W x) : x.Sorted := by
  have hz := (wfSlots_iff_zip _ _).mp h.1
  simp only [PsetOutput.toSlots, outputTable, WfZip] at hz
  obtain ⟨h0, h1, h2, h3, h4, h5, h6, h7, h8, h9, h10, h11, h12, h13, h14, h15, h16, h17, h18, h19, _⟩ := hz
  exact ⟨map_sorted h2, map_sorted h5, map_sorted h18, map_sorted h19⟩

theorem global_sorted (W : WirePrims) (g : PsetGlobal) (h : WfGlobal W g) : g.Sorted := by
  have hz := (wfSlots_iff_zip _ _).mp h.1
  simp only [PsetGlobal.toSlots, globalTable, WfZip] at hz
  obtain ⟨h0, h1, h2, h3, h4, h5, h6, h7, h8, h9, h10, _⟩ := hz
  refine ⟨?_, map_sorted h9, map_sorted h10⟩
  have := map_sorted h5
  unfold KV.Sorted at this ⊢
  rw [keys_map_snd] at this
  exact this

/-- `WfPset` implies the sortedness invariant under which the merge laws of C14 are stated -/
theorem wf_sorted (W : WirePrims) (p : Pset) (h : WfPset W p) : p.Sorted :=
  ⟨global_sorted W _ h.1, fun i hi => input_sorted W i (h.2.1 i hi), fun o ho => output_sorted W o (h.2.2.1 o ho)⟩

/-! ### merging slots -/

/-- how `merge` combines one field: keeps self, takes other, or extends a map -/
def MergedSlot (f : Field) (sx sy sm : Slot) : Prop := sm = sx ∨ sm = sy ∨ (f.kind = .map ∧ sm = KV.extend sx sy)

theorem mem_extend {V : Type} (a b : List (Bytes × V)) (x : Bytes × V) (h : x ∈ KV.extend a b) : x ∈ a ∨ x ∈ b := by
  induction b generalizing a with
  | nil => exact Or.inl h
  | cons p r ih =>
    rw [KV.extend_cons] at h
    rcases ih _ h with h1 | h1
    · rcases mem_kv_insert _ _ _ _ h1 with e | h2
      · right; rw [e]; exact List.mem_cons_self ..
      · left; exact h2
    · right; exact List.mem_cons_of_mem _ h1

theorem wf_extend {T : List Field} {f : Field} (hk : f.kind = .map) {a b : Slot} (ha : WfSlot T f a) (hb : WfSlot T f b) :
    WfSlot T f (KV.extend a b) := by
  have sa := ha.shape
  have sb := hb.shape
  unfold shapeOk at sa sb
  rw [hk] at sa sb
  refine ⟨?_, ?_⟩
  · intro kv hkv
    rcases mem_extend _ _ _ hkv with h | h
    · exact ha.entries kv h
    · exact hb.entries kv h
  · unfold shapeOk
    rw [hk]
    refine ⟨KV.sorted_extend _ _ sa.1, ?_⟩
    intro kv hkv
    rcases mem_extend _ _ _ hkv with h | h
    · exact sa.2 kv h
    · exact sb.2 kv h

theorem wf_merged {T : List Field} {f : Field} {sx sy sm : Slot} (hx : WfSlot T f sx) (hy : WfSlot T f sy)
    (h : MergedSlot f sx sy sm) : WfSlot T f sm := by
  rcases h with rfl | rfl | ⟨hk, rfl⟩
  · exact hx
  · exact hy
  · exact wf_extend hk hx hy

def MergedZip : List Field → List Slot → List Slot → List Slot → Prop
  | [], [], [], [] => True
  | f :: fs, x :: xs, y :: ys, m :: ms => MergedSlot f x y m ∧ MergedZip fs xs ys ms
  | _, _, _, _ => False

theorem wfZip_merged (T : List Field) : ∀ (fs : List Field) (xs ys ms : List Slot), WfZip T fs xs → WfZip T fs ys →
    MergedZip fs xs ys ms → WfZip T fs ms := by
  intro fs
  induction fs with
  | nil =>
    intro xs ys ms hx hy hm
    cases xs <;> cases ys <;> cases ms <;> simp_all [WfZip, MergedZip]
  | cons f fs ih =>
    intro xs ys ms hx hy hm
    cases xs with
    | nil => simp [WfZip] at hx
    | cons x xs =>
      cases ys with
      | nil => simp [WfZip] at hy
      | cons y ys =>
        cases ms with
        | nil => simp [MergedZip] at hm
        | cons m ms =>
          simp only [WfZip, MergedZip] at hx hy hm ⊢
          exact ⟨wf_merged hx.1 hy.1 hm.1, ih xs ys ms hx.2 hy.2 hm.2⟩

theorem merged_opt (f : Field) (a b : Option Bytes) : MergedSlot f (Slot.ofOpt a) (Slot.ofOpt b) (Slot.ofOpt (mergeOpt a b)) := by
  cases a with
  | none => exact Or.inr (Or.inl rfl)
  | some x => exact Or.inl rfl

theorem merged_optN (f : Field) (w : Nat) (a b : Option Nat) :
    MergedSlot f (Slot.ofOptN w a) (Slot.ofOptN w b) (Slot.ofOptN w (mergeOpt a b)) := by
  cases a with
  | none => exact Or.inr (Or.inl rfl)
  | some x => exact Or.inl rfl

theorem merged_optL (f : Field) (a b : Option (List Bytes)) :
    MergedSlot f (Slot.ofOptL a) (Slot.ofOptL b) (Slot.ofOptL (mergeOpt a b)) := by
  cases a with
  | none => exact Or.inr (Or.inl rfl)
  | some x => exact Or.inl rfl

theorem merged_max (f : Field) (w : Nat) (a b : Option Nat) :
    MergedSlot f (Slot.ofOptN w a) (Slot.ofOptN w b) (Slot.ofOptN w (maxOpt a b)) := by
  cases a with
  | none => exact Or.inr (Or.inl rfl)
  | some x =>
    cases b with
    | none => exact Or.inl rfl
    | some y =>
      simp only [maxOpt]
      split
      · exact Or.inr (Or.inl rfl)
      · exact Or.inl rfl

theorem bound_mergeOpt {α} {P : α → Prop} {a b : Option α} (ha : ∀ n, a = some n → P n) (hb : ∀ n, b = some n → P n) :
    ∀ n, mergeOpt a b = some n → P n := by
  intro n h
  cases a with
  | none => exact hb n h
  | some x => exact ha n h

theorem bound_maxOpt {P : Nat → Prop} {a b : Option Nat} (ha : ∀ n, a = some n → P n) (hb : ∀ n, b = some n → P n) :
    ∀ n, maxOpt a b = some n → P n := by
  intro n h
  cases a with
  | none => exact hb n h
  | some x =>
    cases b with
    | none => exact ha n h
    | some y =>
      simp only [maxOpt, Option.some.injEq] at h
      split at h
      · exact hb n (by rw [h])
      · exact ha n (by rw [h])

/-! ### `Input::merge` -/

theorem mergeIn_wf (W : WirePrims) (x y : PsetInput) (hx : WfInput W x) (hy : WfInput W y) : WfInput W (x.merge y) := by
  refine ⟨?_, ?_⟩
  · rw [wfSlots_iff_zip]
    apply wfZip_merged _ _ _ _ _ ((wfSlots_iff_zip _ _).mp hx.1) ((wfSlots_iff_zip _ _).mp hy.1)
    simp only [PsetInput.merge, PsetInput.toSlots, inputTable, MergedZip, and_true]
    refine ⟨?_, ?_, ?_, ?_, ?_, ?_, ?_, ?_, ?_, ?_, ?_, ?_, ?_, ?_, ?_, ?_, ?_, ?_, ?_, ?_, ?_, ?_, ?_, ?_, ?_, ?_, ?_, ?_, ?_, ?_, ?_, ?_, ?_, ?_, ?_, ?_, ?_, ?_, ?_, ?_, ?_, ?_, ?_, ?_, ?_, ?_, ?_, ?_⟩
    all_goals first
      | exact Or.inl rfl
      | exact merged_opt _ _ _
      | exact merged_optN _ _ _ _
      | exact merged_optL _ _ _
      | exact merged_max _ _ _ _
      | exact Or.inr (Or.inr ⟨rfl, rfl⟩)
  · have bx := hx.2
    have by' := hy.2
    exact {
      sighashType := bound_mergeOpt bx.sighashType by'.sighashType
      finalScriptWitness := bound_mergeOpt bx.finalScriptWitness by'.finalScriptWitness
      previousOutputIndex := bx.previousOutputIndex
      sequence := bound_mergeOpt bx.sequence by'.sequence
      requiredTimeLocktime := bound_maxOpt bx.requiredTimeLocktime by'.requiredTimeLocktime
      requiredHeightLocktime := bound_maxOpt bx.requiredHeightLocktime by'.requiredHeightLocktime
      issuanceValueAmount := bound_mergeOpt bx.issuanceValueAmount by'.issuanceValueAmount
      peginValue := bound_mergeOpt bx.peginValue by'.peginValue
      peginWitness := bound_mergeOpt bx.peginWitness by'.peginWitness
      issuanceInflationKeys := bound_mergeOpt bx.issuanceInflationKeys by'.issuanceInflationKeys
      amount := bound_mergeOpt bx.amount by'.amount
      blindedIssuance := bound_mergeOpt bx.blindedIssuance by'.blindedIssuance }

/-! ### `Output::merge` -/

/-- everything but the acceptance rules is kept by `Output::merge` -/
theorem mergeOut_slots (W : WirePrims) (x y : PsetOutput) (hx : WfOutput W x) (hy : WfOutput W y) :
    WfSlots (outputTable W) (x.merge y).toSlots ∧ (x.merge y).Bounds := by
  refine ⟨?_, ?_⟩
  · rw [wfSlots_iff_zip]
    apply wfZip_merged _ _ _ _ _ ((wfSlots_iff_zip _ _).mp hx.1) ((wfSlots_iff_zip _ _).mp hy.1)
    simp only [PsetOutput.merge, PsetOutput.toSlots, outputTable, MergedZip, and_true]
    refine ⟨?_, ?_, ?_, ?_, ?_, ?_, ?_, ?_, ?_, ?_, ?_, ?_, ?_, ?_, ?_, ?_, ?_, ?_, ?_, ?_⟩
    all_goals first
      | exact Or.inl rfl
      | exact merged_opt _ _ _
      | exact merged_optN _ _ _ _
      | exact Or.inr (Or.inr ⟨rfl, rfl⟩)
  · exact { amount := bound_mergeOpt hx.2.1.amount hy.2.1.amount
            blinderIndex := bound_mergeOpt hx.2.1.blinderIndex hy.2.1.blinderIndex }

/-- the four acceptance rules of an output, as propositions about which fields are present -/
structure OutRules (o : PsetOutput) : Prop where
  value : o.amount.isSome = true ∨ o.amountComm.isSome = true
  asset : o.asset.isSome = true ∨ o.assetComm.isSome = true
  index : o.blindingKey.isSome = true → o.blinderIndex.isSome = true
  complete : o.blindingKey.isSome = true →
    (o.amountComm.isSome = true ∨ o.assetComm.isSome = true ∨ o.valueRangeproof.isSome = true ∨
      o.assetSurjectionProof.isSome = true ∨ o.ecdhPubkey.isSome = true) →
    (o.amountComm.isSome = true ∧ o.assetComm.isSome = true ∧ o.valueRangeproof.isSome = true ∧
      o.assetSurjectionProof.isSome = true ∧ o.ecdhPubkey.isSome = true)

theorem accepted_iff (o : PsetOutput) : o.accepted = .ok () ↔ OutRules o := by
  unfold PsetOutput.accepted PsetOutput.isPartiallyBlinded PsetOutput.isFullyBlinded
  constructor
  · intro h
    cases h1 : o.amount <;> cases h2 : o.amountComm <;> cases h3 : o.asset <;> cases h4 : o.assetComm <;>
      cases h5 : o.blindingKey <;> cases h6 : o.blinderIndex <;> cases h7 : o.valueRangeproof <;>
      cases h8 : o.assetSurjectionProof <;> cases h9 : o.ecdhPubkey <;>
      simp_all <;> constructor <;> simp_all
  · intro h
    obtain ⟨r1, r2, r3, r4⟩ := h
    cases h1 : o.amount <;> cases h2 : o.amountComm <;> cases h3 : o.asset <;> cases h4 : o.assetComm <;>
      cases h5 : o.blindingKey <;> cases h6 : o.blinderIndex <;> cases h7 : o.valueRangeproof <;>
      cases h8 : o.assetSurjectionProof <;> cases h9 : o.ecdhPubkey <;>
      simp_all

theorem mergeOpt_isSome' {α} (a b : Option α) : (mergeOpt a b).isSome = (a.isSome || b.isSome) := by
  cases a <;> cases b <;> rfl

/-- SUFFICIENT: two accepted outputs that are both marked for blinding, or both unmarked, merge into an
    accepted output -/
theorem merge_accepted (x y : PsetOutput) (hx : x.accepted = .ok ()) (hy : y.accepted = .ok ())
    (hm : x.blindingKey.isSome = y.blindingKey.isSome) : (x.merge y).accepted = .ok () := by
  rw [accepted_iff] at hx hy ⊢
  obtain ⟨x1, x2, x3, x4⟩ := hx
  obtain ⟨y1, y2, y3, y4⟩ := hy
  constructor
  all_goals simp only [PsetOutput.merge, mergeOpt_isSome', Bool.or_eq_true]
  · rcases x1 with h | h
    · exact Or.inl (Or.inl h)
    · exact Or.inr (Or.inl h)
  · rcases x2 with h | h
    · exact Or.inl (Or.inl h)
    · exact Or.inr (Or.inl h)
  · rintro (h | h)
    · exact Or.inl (x3 h)
    · exact Or.inr (y3 h)
  · intro hb hp
    have hbx : x.blindingKey.isSome = true := by
      rcases hb with h | h
      · exact h
      · rw [hm]; exact h
    have hby : y.blindingKey.isSome = true := by rw [← hm]; exact hbx
    have key : (x.amountComm.isSome = true ∨ x.assetComm.isSome = true ∨ x.valueRangeproof.isSome = true ∨
        x.assetSurjectionProof.isSome = true ∨ x.ecdhPubkey.isSome = true) ∨
        (y.amountComm.isSome = true ∨ y.assetComm.isSome = true ∨ y.valueRangeproof.isSome = true ∨
        y.assetSurjectionProof.isSome = true ∨ y.ecdhPubkey.isSome = true) := by
      rcases hp with (h | h) | (h | h) | (h | h) | (h | h) | (h | h)
      · exact Or.inl (Or.inl h)
      · exact Or.inr (Or.inl h)
      · exact Or.inl (Or.inr (Or.inl h))
      · exact Or.inr (Or.inr (Or.inl h))
      · exact Or.inl (Or.inr (Or.inr (Or.inl h)))
      · exact Or.inr (Or.inr (Or.inr (Or.inl h)))
      · exact Or.inl (Or.inr (Or.inr (Or.inr (Or.inl h))))
      · exact Or.inr (Or.inr (Or.inr (Or.inr (Or.inl h))))
      · exact Or.inl (Or.inr (Or.inr (Or.inr (Or.inr h))))
      · exact Or.inr (Or.inr (Or.inr (Or.inr (Or.inr h))))
    rcases key with hpx | hpy
    · obtain ⟨a, b, c, d, e⟩ := x4 hbx hpx
      exact ⟨Or.inl a, Or.inl b, Or.inl c, Or.inl d, Or.inl e⟩
    · obtain ⟨a, b, c, d, e⟩ := y4 hby hpy
      exact ⟨Or.inr a, Or.inr b, Or.inr c, Or.inr d, Or.inr e⟩

/-- NECESSARY in general: an output marked for blinding with no blinding data yet, merged with an unmarked
    copy that carries a range proof, is partially blinded — the decoder's `MissingBlindingInfo`.  Both
    operands have the same identifying fields (`PsetOutput.IdEq`), so the PSET-level `merge` does not refuse. -/
theorem merge_can_break_blinding_rule :
    ∃ x y : PsetOutput, x.accepted = .ok () ∧ y.accepted = .ok () ∧ PsetOutput.IdEq x y ∧
      (x.merge y).accepted = .err "MissingBlindingInfo" :=
  ⟨{ amount := some 1, asset := some (List.replicate 32 0), blindingKey := some [2], blinderIndex := some 0 },
   { amount := some 1, asset := some (List.replicate 32 0), valueRangeproof := some [0] },
   rfl, rfl, ⟨rfl, rfl, rfl, rfl, rfl, rfl⟩, rfl⟩

/-! ### the hypotheses of `fromTx_wf` are necessary -/

theorem fromTxIn_fsw (t : TxIn) : (PsetInput.fromTxIn t).finalScriptWitness = some t.witness.scriptWitness := by
  unfold PsetInput.fromTxIn
  by_cases hp : t.isPegin = true <;> by_cases hi : t.hasIssuance = true <;> simp [hp, hi]

theorem fromTxIn_pw (t : TxIn) (h : t.isPegin = true) : (PsetInput.fromTxIn t).peginWitness = some t.witness.peginWitness := by
  unfold PsetInput.fromTxIn
  by_cases hi : t.hasIssuance = true <;> simp [h, hi]

theorem fromTxIn_sized (W : WirePrims) (t : TxIn) (h : WfInput W (PsetInput.fromTxIn t)) : InSized t := by
  have hz := (wfSlots_iff_zip _ _).mp h.1
  simp only [PsetInput.toSlots, inputTable, WfZip] at hz
  obtain ⟨h0, h1, h2, h3, h4, h5, h6, h7, h8, h9, h10, h11, h12, h13, h14, h15, h16, h17, h18, h19, h20, h21, h22, h23,
    h24, h25, h26, h27, h28, h29, h30, h31, h32, h33, h34, h35, h36, h37, h38, h39, h40, h41, h42, h43, h44, h45, h46, h47, _⟩ := hz
  refine ⟨?_, ?_⟩
  · rw [fromTxIn_fsw] at h8
    exact (h8.entries ([], encBytesVecVec t.witness.scriptWitness) (by simp [Slot.ofOptL, Slot.ofOpt])).2.2.1
  · intro hp
    rw [fromTxIn_pw t hp] at h33
    exact (h33.entries ([], encBytesVecVec t.witness.peginWitness) (by simp [Slot.ofOptL, Slot.ofOpt])).2.2.1

theorem fromTxOut_ready (t : TxOut) (h : (PsetOutput.fromTxOut t).accepted = .ok ()) : OutReady t := by
  rw [accepted_iff] at h
  obtain ⟨r1, r2, r3, _⟩ := h
  simp only [PsetOutput.fromTxOut] at r1 r2 r3
  refine ⟨?_, ?_, ?_⟩
  · intro e
    rw [e] at r1
    simp [PsetInput.valueAmount, PsetInput.valueComm] at r1
  · intro e
    rw [e] at r2
    simp [PsetOutput.assetId, PsetOutput.assetGen] at r2
  · intro hc
    cases hpb : PsetOutput.txOutPartiallyBlinded t with
    | true => rfl
    | false =>
      rw [hpb] at r3
      cases hn : t.nonce with
      | null => rw [hn] at hc; cases hc
      | explicit x => rw [hn] at hc; cases hc
      | conf pk =>
        rw [hn] at r3
        simp [PsetOutput.noncePk] at r3

/-- EXACT: for a well-formed transaction, `from_tx` gives a codec-well-formed PSET iff the transaction is
    within the format's own limits -/
theorem fromTx_wf_iff (W : WirePrims) (t : Tx) (hw : t.wf W.P) : WfPset W (Pset.fromTx t) ↔ TxReady t := by
  constructor
  · intro h
    obtain ⟨_, hi, ho, _, _, l1, l2⟩ := h
    refine ⟨by simpa [Pset.fromTx] using l1, by simpa [Pset.fromTx] using l2, ?_, ?_⟩
    · intro i hmem
      exact fromTxIn_sized W i (hi _ (by simp only [Pset.fromTx, List.mem_map]; exact ⟨i, hmem, rfl⟩))
    · intro o hmem
      exact fromTxOut_ready o (ho _ (by simp only [Pset.fromTx, List.mem_map]; exact ⟨o, hmem, rfl⟩)).2.2
  · exact fromTx_wf W t hw

/-! ### `Global::merge` -/

theorem mergeXpub_mem (self other res : List (Bytes × KeySource)) (h : mergeXpub self other = .ok res) :
    ∀ kv ∈ res, kv ∈ self ∨ kv ∈ other := by
  induction other generalizing self with
  | nil =>
    simp only [mergeXpub, Res.ok.injEq] at h
    subst h
    intro kv hkv
    exact Or.inl hkv
  | cons p r ih =>
    obtain ⟨k0, theirs⟩ := p
    simp only [mergeXpub] at h
    have key : ∀ v, ((k0, v) ∈ self ∨ v = theirs) → mergeXpub (KV.insert k0 v self) r = .ok res →
        ∀ kv ∈ res, kv ∈ self ∨ kv ∈ (k0, theirs) :: r := by
      intro v hv hm kv hkv
      rcases ih _ hm kv hkv with h1 | h1
      · rcases mem_kv_insert _ _ _ _ h1 with e | h2
        · rcases hv with hv | hv
          · left; rw [e]; exact hv
          · right; rw [e, hv]; exact List.mem_cons_self ..
        · left; exact h2
      · right; exact List.mem_cons_of_mem _ h1
    cases hl : KV.lookup k0 self with
    | none => rw [hl] at h; exact key theirs (Or.inr rfl) h
    | some mine =>
      rw [hl] at h
      simp only at h
      have hmine : (k0, mine) ∈ self := by
        clear h key ih
        induction self with
        | nil => cases hl
        | cons q rest ihs =>
          obtain ⟨k1, v1⟩ := q
          simp only [KV.lookup] at hl
          split at hl
          · rename_i e
            simp only [Option.some.injEq] at hl
            subst hl; subst e
            exact List.mem_cons_self ..
          · exact List.mem_cons_of_mem _ (ihs hl)
      cases hr : xpubReconcile mine theirs with
      | ok ks =>
        rw [hr] at h
        simp only at h
        have hks : ks = mine ∨ ks = theirs := by
          unfold xpubReconcile at hr
          split at hr
          · simp only [Res.ok.injEq] at hr; exact Or.inl hr.symm
          · split at hr
            · simp only [Res.ok.injEq] at hr; exact Or.inl hr.symm
            · split at hr
              · simp only [Res.ok.injEq] at hr; exact Or.inr hr.symm
              · cases hr
              · cases hr
              · cases hr
            · cases hr
            · cases hr
        rcases hks with e | e
        · exact key ks (Or.inl (e ▸ hmine)) h
        · exact key ks (Or.inr e) h
      | err e => rw [hr] at h; cases h
      | panic m => rw [hr] at h; cases h

theorem sortedSet_nodup {l : List Bytes} (h : SortedSet l) : l.Nodup := by
  unfold SortedSet at h
  refine List.Pairwise.imp ?_ h
  intro a b hab e
  subst e
  rw [bytesLt_irrefl] at hab
  cases hab

theorem keys_ofKeys (l : List Bytes) : KV.keys (Slot.ofKeys l) = l := by
  simp only [KV.keys, Slot.ofKeys, List.map_map]
  induction l with
  | nil => rfl
  | cons a r ih => simp only [List.map_cons, Function.comp, ih]

theorem mergeGlobal_wf (W : WirePrims) (x y z : PsetGlobal) (hx : WfGlobal W x) (hy : WfGlobal W y)
    (h : x.merge y = .ok z) : WfGlobal W z := by
  unfold PsetGlobal.merge at h
  cases hxp : mergeXpub x.xpub y.xpub with
  | err e => rw [hxp] at h; cases h
  | panic m => rw [hxp] at h; cases h
  | ok xp =>
    rw [hxp] at h
    simp only [Res.ok.injEq] at h
    subst h
    have zx := (wfSlots_iff_zip _ _).mp hx.1
    have zy := (wfSlots_iff_zip _ _).mp hy.1
    simp only [PsetGlobal.toSlots, globalTable, WfZip] at zx zy
    obtain ⟨x0, x1, x2, x3, x4, x5, x6, x7, x8, x9, x10, _⟩ := zx
    obtain ⟨y0, y1, y2, y3, y4, y5, y6, y7, y8, y9, y10, _⟩ := zy
    have hP (ty : UInt8) : SmallTag (globalTable W) (.plain ty) := smallTag_plain _ _
    have h4 : 4 ≤ maxVecSize := by decide
    have h1 : 1 ≤ maxVecSize := by decide
    have hmemx : ∀ kv ∈ xp, kv ∈ x.xpub ∨ kv ∈ y.xpub := mergeXpub_mem _ _ _ hxp
    refine ⟨?_, ?_, ?_⟩
    · rw [wfSlots_iff_zip]
      simp only [PsetGlobal.toSlots, globalTable, WfZip, and_true]
      refine ⟨x0, wf_merged x1 y1 (merged_optN _ _ _ _), x2, x3, wf_ofOptN (hP _) 1 h1 _, ?_, wf_ofOptN (hP _) 4 h4 _, ?_,
        wf_merged x8 y8 (merged_optN _ _ _ _), wf_extend rfl x9 y9, wf_extend rfl x10 y10⟩
      · -- xpub
        have ex : ∀ kv ∈ xp.map (fun kv => (kv.1, encKeySource kv.2)),
            kv ∈ x.xpub.map (fun kv => (kv.1, encKeySource kv.2)) ∨ kv ∈ y.xpub.map (fun kv => (kv.1, encKeySource kv.2)) := by
          intro kv hkv
          obtain ⟨q, hq, rfl⟩ := List.mem_map.mp hkv
          rcases hmemx q hq with h | h
          · exact Or.inl (List.mem_map.mpr ⟨q, h, rfl⟩)
          · exact Or.inr (List.mem_map.mpr ⟨q, h, rfl⟩)
        refine ⟨?_, ?_, ?_⟩
        · intro kv hkv
          rcases ex kv hkv with h | h
          · exact x5.entries kv h
          · exact y5.entries kv h
        · have hs : KV.Sorted x.xpub := by
            have := map_sorted x5
            unfold KV.Sorted at this ⊢
            rw [keys_map_snd] at this
            exact this
          have := PsetGlobal.mergeXpub_sorted _ _ _ hs hxp
          unfold KV.Sorted at this ⊢
          rw [keys_map_snd]
          exact this
        · intro kv hkv
          rcases ex kv hkv with h | h
          · exact x5.shape.2 kv h
          · exact y5.shape.2 kv h
      · -- scalars
        have em : ∀ kv ∈ Slot.ofKeys (sortDedup (x.scalars ++ y.scalars)), kv ∈ Slot.ofKeys x.scalars ∨ kv ∈ Slot.ofKeys y.scalars := by
          intro kv hkv
          simp only [Slot.ofKeys, List.mem_map] at hkv ⊢
          obtain ⟨k, hk, rfl⟩ := hkv
          rw [mem_sortDedup, List.mem_append] at hk
          rcases hk with h | h
          · exact Or.inl ⟨k, h, rfl⟩
          · exact Or.inr ⟨k, h, rfl⟩
        refine ⟨?_, ?_, ?_⟩
        · intro kv hkv
          rcases em kv hkv with h | h
          · exact x7.entries kv h
          · exact y7.entries kv h
        · rw [keys_ofKeys]
          exact sortedSet_nodup (sortedSet_sortDedup _)
        · intro kv hkv
          rcases em kv hkv with h | h
          · exact x7.shape.2 kv h
          · exact y7.shape.2 kv h
    · have bx := hx.2.1
      have by' := hy.2.1
      exact {
        txVersion := bx.txVersion
        fallbackLocktime := bound_mergeOpt bx.fallbackLocktime by'.fallbackLocktime
        inputCount := bx.inputCount
        outputCount := bx.outputCount
        txModifiable := by
          intro n hn
          simp only [Option.some.injEq] at hn
          subst hn
          have e : (256 : Nat) ^ 1 = 2 ^ 8 := by decide
          rw [e]
          apply Nat.or_lt_two_pow
          · cases hm : x.txModifiable with
            | none => decide
            | some v => rw [← e]; exact bx.txModifiable v hm
          · cases hm : y.txModifiable with
            | none => decide
            | some v => rw [← e]; exact by'.txModifiable v hm
        xpub := by
          intro kv hkv
          rcases hmemx kv hkv with h | h
          · exact bx.xpub kv h
          · exact by'.xpub kv h
        version := by
          simp only
          split
          · exact by'.version
          · exact bx.version
        elementsTxModifiableFlag := bound_mergeOpt bx.elementsTxModifiableFlag by'.elementsTxModifiableFlag }
    · simp only [hx.2.2, hy.2.2, Nat.le_refl, if_true]

/-! ### `PartiallySignedTransaction::merge` -/

theorem zipMerge_all2 {α} (f : α → α → α) (S : α → Prop) (hf : ∀ x y, S x → S y → S (f x y)) :
    ∀ (a b : List α), (∀ x ∈ a, S x) → (∀ y ∈ b, S y) → ∀ z ∈ zipMerge f a b, S z := by
  intro a
  induction a with
  | nil => intro b _ _ z hz; simp [zipMerge] at hz
  | cons x xs ih =>
    intro b ha hb z hz
    cases b with
    | nil => exact ha z hz
    | cons y ys =>
      simp only [zipMerge, List.mem_cons] at hz
      rcases hz with rfl | hz
      · exact hf x y (ha x (List.mem_cons_self ..)) (hb y (List.mem_cons_self ..))
      · exact ih ys (fun q hq => ha q (List.mem_cons_of_mem _ hq)) (fun q hq => hb q (List.mem_cons_of_mem _ hq)) z hz

/-- `merge_preserves_wf` (core): the merge of two codec-well-formed PSETs is codec-well-formed, provided
    its outputs still satisfy the acceptance rules (the one rule `Output::merge` can break:
    `merge_can_break_blinding_rule`; sufficient: `merge_accepted`) -/
theorem mergeCore_wf (W : WirePrims) (a b m : Pset) (ha : WfPset W a) (hb : WfPset W b) (h : a.mergeCore b = .ok m)
    (hacc : ∀ o ∈ m.outputs, o.accepted = .ok ()) : WfPset W m := by
  obtain ⟨hg, hi, ho⟩ := EV.Pset.mergeCore_ok a b m h
  obtain ⟨ag, ai, ao, ac1, ac2, al1, al2⟩ := ha
  obtain ⟨bg, bi, bo, _⟩ := hb
  have hgm : m.global.inputCount = a.global.inputCount ∧ m.global.outputCount = a.global.outputCount := by
    unfold PsetGlobal.merge at hg
    cases hxp : mergeXpub a.global.xpub b.global.xpub with
    | err e => rw [hxp] at hg; cases hg
    | panic s => rw [hxp] at hg; cases hg
    | ok xp =>
      rw [hxp] at hg
      simp only [Res.ok.injEq] at hg
      rw [← hg]
      exact ⟨rfl, rfl⟩
  refine ⟨mergeGlobal_wf W _ _ _ ag bg hg, ?_, ?_, ?_, ?_, ?_, ?_⟩
  · rw [hi]
    exact zipMerge_all2 _ (WfInput W) (fun x y hx hy => mergeIn_wf W x y hx hy) _ _ ai bi
  · intro o hom
    have hs : ∀ z ∈ zipMerge PsetOutput.merge a.outputs b.outputs,
        (WfSlots (outputTable W) z.toSlots ∧ z.Bounds) := by
      apply zipMerge_all2 _ (fun z => WfSlots (outputTable W) z.toSlots ∧ z.Bounds) _ _ _
        (fun z hz => ⟨(ao z hz).1, (ao z hz).2.1⟩) (fun z hz => ⟨(bo z hz).1, (bo z hz).2.1⟩)
      intro x y hx hy
      -- the slots and bounds of a merge only need those of the operands
      refine ⟨?_, ?_⟩
      · rw [wfSlots_iff_zip]
        apply wfZip_merged _ _ _ _ _ ((wfSlots_iff_zip _ _).mp hx.1) ((wfSlots_iff_zip _ _).mp hy.1)
        simp only [PsetOutput.merge, PsetOutput.toSlots, outputTable, MergedZip, and_true]
        refine ⟨?_, ?_, ?_, ?_, ?_, ?_, ?_, ?_, ?_, ?_, ?_, ?_, ?_, ?_, ?_, ?_, ?_, ?_, ?_, ?_⟩
        all_goals first
          | exact Or.inl rfl
          | exact merged_opt _ _ _
          | exact merged_optN _ _ _ _
          | exact Or.inr (Or.inr ⟨rfl, rfl⟩)
      · exact { amount := bound_mergeOpt hx.2.amount hy.2.amount
                blinderIndex := bound_mergeOpt hx.2.blinderIndex hy.2.blinderIndex }
    have := hs o (ho ▸ hom)
    exact ⟨this.1, this.2, hacc o hom⟩
  · rw [hgm.1, hi, zipMerge_length]; exact ac1
  · rw [hgm.2, ho, zipMerge_length]; exact ac2
  · rw [hi, zipMerge_length]; exact al1
  · rw [ho, zipMerge_length]; exact al2

/-- the acceptance hypothesis of `mergeCore_wf` holds when the operands mark the same outputs for blinding -/
theorem merged_outputs_accepted (W : WirePrims) (a b : Pset) (ha : WfPset W a) (hb : WfPset W b)
    (hl : b.outputs.length ≤ a.outputs.length)
    (hmark : ∀ (j : Nat) x y, a.outputs[j]? = some x → b.outputs[j]? = some y → x.blindingKey.isSome = y.blindingKey.isSome) :
    ∀ o ∈ zipMerge PsetOutput.merge a.outputs b.outputs, o.accepted = .ok () := by
  intro o ho
  obtain ⟨j, hj⟩ := List.getElem?_of_mem ho
  by_cases hjb : j < b.outputs.length
  · have hja : j < a.outputs.length := by omega
    have hx : a.outputs[j]? = some a.outputs[j] := List.getElem?_eq_getElem hja
    have hy : b.outputs[j]? = some b.outputs[j] := List.getElem?_eq_getElem hjb
    rw [EV.zipMerge_getElem? _ _ _ j _ _ hx hy] at hj
    simp only [Option.some.injEq] at hj
    rw [← hj]
    exact merge_accepted _ _ (ha.2.2.1 _ (List.getElem_mem hja)).2.2 (hb.2.2.1 _ (List.getElem_mem hjb)).2.2
      (hmark j _ _ hx hy)
  · rw [EV.zipMerge_getElem?_tail _ _ _ j (by omega)] at hj
    exact (ha.2.2.1 o (List.mem_of_getElem? hj)).2.2

end EV.Proofs.PsetBridge
