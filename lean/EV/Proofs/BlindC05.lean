/-
  EV.Proofs.BlindC05 — what the balance equation of `verify_tx_amt_proofs` alone rejects.
  Every lemma here is about the model `EV.Blind.verify` with the EC primitives computing in an
  `R`-module `M` (`AlgV`).  Hypotheses about the module are explicit:
    `NoTorsion g B`   no natural 0 < k < B annihilates the point g
    `Indep cv`        the asset tags are linearly independent of each other and of G
    `CastInj B`       naturals below B are distinct in R
  They hold in the idealised (generic-group) reading of the curve — see `EV.Props.C05` for an
  instance — and are NOT theorems about secp256k1 itself, where independence of the tags is the
  discrete-logarithm assumption.
-/
import EV.Proofs.BlindC04

namespace EV.Blind
open EV

variable {A R M RP SP : Type} [CommRing R] [AddCommGroup M] [Module R M]

/-! ### hypotheses about the module -/

/-- no natural number `0 < k < B` annihilates `g` -/
def NoTorsion (R : Type) {M : Type} [CommRing R] [AddCommGroup M] [Module R M] (g : M) (B : Nat) : Prop :=
  ∀ k : Nat, 0 < k → k < B → ((k : Nat) : R) • g ≠ 0

/-- naturals below `B` stay distinct in `R` -/
def CastInj (R : Type) [CommRing R] (B : Nat) : Prop :=
  ∀ x y : Nat, x < B → y < B → ((x : Nat) : R) = ((y : Nat) : R) → x = y

/-- the tags of distinct assets are `R`-linearly independent of each other and of `G` -/
def Indep (cv : Curve R M A) : Prop :=
  ∀ (S : Finset A) (c : A → R) (r : R), ∑ a ∈ S, c a • cv.tag a + r • cv.G = 0 →
    (∀ a ∈ S, c a = 0) ∧ r = 0

theorem NoTorsion.smul_ne {g : M} {B : Nat} (h : NoTorsion R g B) {v v' : Nat} (hv : v < B) (hv' : v' < B)
    (hne : v ≠ v') : ((v : Nat) : R) • g ≠ ((v' : Nat) : R) • g := by
  intro heq
  rcases Nat.lt_or_gt_of_ne hne with hlt | hlt
  · have := h (v' - v) (by omega) (by omega)
    apply this
    rw [Nat.cast_sub (le_of_lt hlt), sub_smul, heq, sub_self]
  · have := h (v - v') (by omega) (by omega)
    apply this
    rw [Nat.cast_sub (le_of_lt hlt), sub_smul, heq, sub_self]

theorem Indep.noTorsion_tag [DecidableEq A] {cv : Curve R M A} (hI : Indep cv) {B : Nat} (hC : CastInj R B)
    (a : A) : NoTorsion R (cv.tag a) B := by
  intro k hk hkB h0
  have := (hI {a} (fun _ => ((k : Nat) : R)) 0 (by simpa using h0)).1 a (by simp)
  have h := hC k 0 hkB (by omega) (by simpa using this)
  omega

theorem Indep.tag_smul_ne [DecidableEq A] {cv : Curve R M A} (hI : Indep cv) {B : Nat} (hC : CastInj R B)
    {a a' : A} (hne : a ≠ a') {v : Nat} (hv0 : 0 < v) (hv : v < B) :
    ((v : Nat) : R) • cv.tag a ≠ ((v : Nat) : R) • cv.tag a' := by
  intro heq
  have hsum : ∑ x ∈ ({a, a'} : Finset A), (fun x => if x = a then ((v : Nat) : R) else -((v : Nat) : R)) x • cv.tag x
      + (0 : R) • cv.G = 0 := by
    rw [Finset.sum_pair hne]
    simp [hne.symm, heq]
  have := (hI {a, a'} _ 0 hsum).1 a (by simp)
  simp only [if_true] at this
  have h := hC v 0 hv (by omega) (by simpa using this)
  omega

/-! ### the balance equation -/

/-- a verifying transaction satisfies the balance equation -/
theorem verify_ok_sum (cv : Curve R M A) (V : VPrims A M RP SP) (hV : AlgV cv V)
    (ins : List (TxIn A M)) (outs utxos : List (TxOut A M RP SP))
    (h : verify V ins outs utxos = .ok) :
    (inCommitsOf V ins utxos).sum = (outCommitsOf V outs).sum :=
  (hV.sum _ _).1 ((verify_ok_iff' V ins outs utxos).1 h).2.2.2

omit [CommRing R] [Module R M] in
theorem sum_replace_cancel (l₁ l₂ : List M) (x y : M)
    (h : (l₁ ++ x :: l₂).sum = (l₁ ++ y :: l₂).sum) : x = y := by
  simp only [List.sum_append, List.sum_cons] at h
  have := add_left_cancel h
  exact add_right_cancel this

theorem outCommitsOf_split (V : VPrims A M RP SP) (pre post : List (TxOut A M RP SP)) (o : TxOut A M RP SP) :
    (outCommitsOf V (pre ++ o :: post)).sum =
      (outCommitsOf V pre).sum + (outCommit? V o).toList.sum + (outCommitsOf V post).sum := by
  unfold outCommitsOf
  rw [List.filterMap_append, List.filterMap_cons]
  cases outCommit? V o <;> simp [add_assoc]

/-- **one output changed**: if the value commitment the output contributes changes, the two
    transactions cannot both verify -/
theorem tamper_output (cv : Curve R M A) (V : VPrims A M RP SP) (hV : AlgV cv V)
    (ins : List (TxIn A M)) (utxos pre post : List (TxOut A M RP SP)) (o o' : TxOut A M RP SP)
    (hdiff : (outCommit? V o).toList.sum ≠ (outCommit? V o').toList.sum) :
    ¬ (verify V ins (pre ++ o :: post) utxos = .ok ∧ verify V ins (pre ++ o' :: post) utxos = .ok) := by
  rintro ⟨h1, h2⟩
  have e1 := verify_ok_sum cv V hV _ _ _ h1
  have e2 := verify_ok_sum cv V hV _ _ _ h2
  rw [outCommitsOf_split] at e1 e2
  apply hdiff
  have := e1.symm.trans e2
  exact add_left_cancel (add_right_cancel this)

/-- what an explicit amount contributes (zero contributes nothing) -/
theorem outCommit_explicit (cv : Curve R M A) (V : VPrims A M RP SP) (hV : AlgV cv V)
    (o : TxOut A M RP SP) (v : Nat) (g : M) (hv : o.value = .explicit v) (hg : assetGen V o.asset = some g) :
    (outCommit? V o).toList.sum = ((v : Nat) : R) • g := by
  unfold outCommit? valueCommit
  by_cases h0 : v = 0
  · subst h0
    by_cases hu : isProvablyUnspendable o.script = true <;> simp [hv, hu]
  · simp [hv, h0, hg, hV.commit]

/-- **changing a single explicit amount** (of an output whose asset generator is `g`) breaks
    verification, provided no natural below the bound annihilates `g` -/
theorem tamper_amount' (cv : Curve R M A) (V : VPrims A M RP SP) (hV : AlgV cv V)
    (ins : List (TxIn A M)) (utxos pre post : List (TxOut A M RP SP)) (o : TxOut A M RP SP)
    (v v' : Nat) (g : M) (B : Nat) (hv : o.value = .explicit v) (hg : assetGen V o.asset = some g)
    (hne : v ≠ v') (hvB : v < B) (hvB' : v' < B) (hT : NoTorsion R g B) :
    ¬ (verify V ins (pre ++ o :: post) utxos = .ok ∧
       verify V ins (pre ++ { o with value := .explicit v' } :: post) utxos = .ok) := by
  apply tamper_output cv V hV
  rw [outCommit_explicit cv V hV o v g hv hg,
    outCommit_explicit cv V hV { o with value := .explicit v' } v' g rfl hg]
  exact hT.smul_ne hvB hvB' hne

/-- **changing the explicit asset** of an output with a positive explicit amount breaks verification -/
theorem tamper_asset' [DecidableEq A] (cv : Curve R M A) (V : VPrims A M RP SP) (hV : AlgV cv V)
    (ins : List (TxIn A M)) (utxos pre post : List (TxOut A M RP SP)) (o : TxOut A M RP SP)
    (a a' : A) (v : Nat) (B : Nat) (ha : o.asset = .explicit a) (hv : o.value = .explicit v)
    (hne : a ≠ a') (hv0 : 0 < v) (hvB : v < B) (hI : Indep cv) (hC : CastInj R B) :
    ¬ (verify V ins (pre ++ o :: post) utxos = .ok ∧
       verify V ins (pre ++ { o with asset := .explicit a' } :: post) utxos = .ok) := by
  apply tamper_output cv V hV
  rw [outCommit_explicit cv V hV o v (cv.tag a) hv (by simp [ha, assetGen, hV.gen]),
    outCommit_explicit cv V hV { o with asset := .explicit a' } v (cv.tag a') hv (by simp [assetGen, hV.gen])]
  exact hI.tag_smul_ne hC hne hv0 hvB

/-- **replacing a value commitment** by a different one breaks verification -/
theorem replace_commitment' (cv : Curve R M A) (V : VPrims A M RP SP) (hV : AlgV cv V)
    (ins : List (TxIn A M)) (utxos pre post : List (TxOut A M RP SP)) (o : TxOut A M RP SP)
    (c c' : M) (hc : o.value = .conf c) (hne : c ≠ c') :
    ¬ (verify V ins (pre ++ o :: post) utxos = .ok ∧
       verify V ins (pre ++ { o with value := .conf c' } :: post) utxos = .ok) := by
  apply tamper_output cv V hV
  simp [outCommit?, valueCommit, hc, hne]

omit [AddCommGroup M] in
/-- **exchanging the value commitments of two outputs** leaves the balance alone; the transaction
    can then only verify if the range proof of the first output is accepted for the *other*
    commitment (with its own script and generator) — which is what soundness of the range proof,
    the trusted primitive, excludes -/
theorem swap_commitments' (V : VPrims A M RP SP) (ins : List (TxIn A M))
    (utxos pre mid post : List (TxOut A M RP SP)) (o₁ o₂ : TxOut A M RP SP) (c₁ c₂ : M)
    (_h1 : o₁.value = .conf c₁) (_h2 : o₂.value = .conf c₂)
    (h : verify V ins (pre ++ { o₁ with value := .conf c₂ } :: mid ++ { o₂ with value := .conf c₁ } :: post) utxos = .ok) :
    (∃ g rp, assetGen V o₁.asset = some g ∧ o₁.rangeproof = some rp ∧ V.rangeVerify rp c₂ o₁.script g = true) ∧
    (∃ g rp, assetGen V o₂.asset = some g ∧ o₂.rangeproof = some rp ∧ V.rangeVerify rp c₁ o₂.script g = true) := by
  have hall := ((verify_ok_iff' V ins _ utxos).1 h).2.2.1
  have k1 := (hall { o₁ with value := .conf c₂ } (by simp)).2.2.2.1 c₂ rfl
  have k2 := (hall { o₂ with value := .conf c₁ } (by simp)).2.2.2.1 c₁ rfl
  exact ⟨k1, k2⟩

/-! ### the input side -/

omit [AddCommGroup M] in
theorem pairsOf_append (V : VPrims A M RP SP) :
    ∀ (ipre : List (TxIn A M)) (upre : List (TxOut A M RP SP)) (is : List (TxIn A M))
      (us : List (TxOut A M RP SP)), upre.length = ipre.length →
      pairsOf V (ipre ++ is) (upre ++ us) = pairsOf V ipre upre ++ pairsOf V is us
  | [], [], is, us, _ => by simp [pairsOf]
  | inp :: ipre, u :: upre, is, us, h => by
    have ih := pairsOf_append V ipre upre is us (by simpa using h)
    simp [pairsOf, ih]
  | [], _ :: _, _, _, h => by simp at h
  | _ :: _, [], _, _, h => by simp at h

/-- the commitments one (input, spent output) position contributes -/
def inPart (V : VPrims A M RP SP) (inp : TxIn A M) (u : TxOut A M RP SP) : List M :=
  ((spentPair? V u).toList ++ (issuancePairs V inp).getD []).map Prod.snd

theorem inCommitsOf_split (V : VPrims A M RP SP) (ipre ipost : List (TxIn A M)) (inp : TxIn A M)
    (upre upost : List (TxOut A M RP SP)) (u : TxOut A M RP SP) (hl : upre.length = ipre.length) :
    (inCommitsOf V (ipre ++ inp :: ipost) (upre ++ u :: upost)).sum =
      (inCommitsOf V ipre upre).sum + (inPart V inp u).sum + (inCommitsOf V ipost upost).sum := by
  unfold inCommitsOf inPart
  rw [pairsOf_append V ipre upre _ _ hl]
  simp [pairsOf, add_assoc]

/-- **one input position changed** (its issuance or the spent output presented for it): if the
    commitments that position contributes change in sum, the two cannot both verify -/
theorem tamper_input (cv : Curve R M A) (V : VPrims A M RP SP) (hV : AlgV cv V)
    (outs : List (TxOut A M RP SP)) (ipre ipost : List (TxIn A M)) (inp inp' : TxIn A M)
    (upre upost : List (TxOut A M RP SP)) (u u' : TxOut A M RP SP) (hl : upre.length = ipre.length)
    (hdiff : (inPart V inp u).sum ≠ (inPart V inp' u').sum) :
    ¬ (verify V (ipre ++ inp :: ipost) outs (upre ++ u :: upost) = .ok ∧
       verify V (ipre ++ inp' :: ipost) outs (upre ++ u' :: upost) = .ok) := by
  rintro ⟨h1, h2⟩
  have e1 := verify_ok_sum cv V hV _ _ _ h1
  have e2 := verify_ok_sum cv V hV _ _ _ h2
  rw [inCommitsOf_split V ipre ipost inp upre upost u hl] at e1
  rw [inCommitsOf_split V ipre ipost inp' upre upost u' hl] at e2
  apply hdiff
  have := e1.trans e2.symm
  exact add_left_cancel (add_right_cancel this)

/-- **changing an explicit issuance amount** breaks verification -/
theorem tamper_issuance' (cv : Curve R M A) (V : VPrims A M RP SP) (hV : AlgV cv V)
    (outs : List (TxOut A M RP SP)) (ipre ipost : List (TxIn A M)) (inp : TxIn A M)
    (upre upost : List (TxOut A M RP SP)) (u : TxOut A M RP SP) (hl : upre.length = ipre.length)
    (v v' : Nat) (B : Nat) (hamt : inp.amount = .explicit v) (hne : v ≠ v') (hv0 : v ≠ 0) (hv0' : v' ≠ 0)
    (hvB : v < B) (hvB' : v' < B) (hT : NoTorsion R (cv.tag inp.assetId) B)
    (hkeys : inp.keys ≠ .explicit 0) :
    ¬ (verify V (ipre ++ inp :: ipost) outs (upre ++ u :: upost) = .ok ∧
       verify V (ipre ++ { inp with amount := .explicit v' } :: ipost) outs (upre ++ u :: upost) = .ok) := by
  apply tamper_input cv V hV outs ipre ipost inp _ upre upost u u hl
  have hi : inp.hasIssuance = true := by simp [TxIn.hasIssuance, hamt, CValue.isNull]
  have hi' : ({ inp with amount := .explicit v' } : TxIn A M).hasIssuance = true := by
    simp [TxIn.hasIssuance, CValue.isNull]
  have e1 : issuancePair V (CValue.explicit v) inp.assetId =
      some [(cv.tag inp.assetId, ((v : Nat) : R) • cv.tag inp.assetId)] := by
    simp [issuancePair, hv0, hV.gen, hV.commit]
  have e2 : issuancePair V (CValue.explicit v') inp.assetId =
      some [(cv.tag inp.assetId, ((v' : Nat) : R) • cv.tag inp.assetId)] := by
    simp [issuancePair, hv0', hV.gen, hV.commit]
  obtain ⟨l2, hk⟩ := Option.isSome_iff_exists.1 ((issuancePair_isSome V inp.keys inp.tokenId).2 hkeys)
  unfold inPart issuancePairs
  simp only [hi, hi', if_true, hamt, e1, e2, hk]
  simp only [Option.getD_some, List.map_append, List.sum_append, List.map_cons, List.map_nil,
    List.sum_cons, List.sum_nil, add_zero]
  intro heq
  have := add_right_cancel (add_left_cancel heq)
  exact hT.smul_ne hvB hvB' hne this

/-- **presenting a different spent output** whose value commitment differs breaks verification -/
theorem other_utxos' (cv : Curve R M A) (V : VPrims A M RP SP) (hV : AlgV cv V)
    (outs : List (TxOut A M RP SP)) (ipre ipost : List (TxIn A M)) (inp : TxIn A M)
    (upre upost : List (TxOut A M RP SP)) (u u' : TxOut A M RP SP) (hl : upre.length = ipre.length)
    (g c g' c' : M) (hu : spentPair? V u = some (g, c)) (hu' : spentPair? V u' = some (g', c'))
    (hne : c ≠ c') :
    ¬ (verify V (ipre ++ inp :: ipost) outs (upre ++ u :: upost) = .ok ∧
       verify V (ipre ++ inp :: ipost) outs (upre ++ u' :: upost) = .ok) := by
  apply tamper_input cv V hV outs ipre ipost inp inp upre upost u u' hl
  unfold inPart
  simp [hu, hu', hne]

/-! ### transactions whose amounts are all explicit -/

/-- per-asset balance follows from equality of the tag parts when the tags are independent and
    the per-asset totals stay below the bound under which naturals are distinct in `R` -/
theorem balanced_of_sum_tagPart [DecidableEq A] (cv : Curve R M A) (hI : Indep cv) (B : Nat)
    (hC : CastInj R B) (ins outs : List (Secrets A R))
    (hB : ∀ a, amt a ins < B ∧ amt a outs < B)
    (h : (ins.map cv.tagPart).sum = (outs.map cv.tagPart).sum) :
    ∀ a, amt a ins = amt a outs := by
  intro a
  obtain ⟨S, hS1, hS2, hS3⟩ : ∃ S : Finset A, (∀ s ∈ ins, s.asset ∈ S) ∧ (∀ s ∈ outs, s.asset ∈ S) ∧ a ∈ S :=
    ⟨(ins.map (·.asset)).toFinset ∪ (outs.map (·.asset)).toFinset ∪ {a},
      fun s hs => by
        simp only [Finset.mem_union, List.mem_toFinset, List.mem_map]; exact Or.inl (Or.inl ⟨s, hs, rfl⟩),
      fun s hs => by
        simp only [Finset.mem_union, List.mem_toFinset, List.mem_map]; exact Or.inl (Or.inr ⟨s, hs, rfl⟩),
      by simp⟩
  have h1 := cv.sum_tagPart_eq_finset S ins hS1
  have h2 := cv.sum_tagPart_eq_finset S outs hS2
  rw [h1, h2] at h
  have hz : ∑ x ∈ S, (((amt x ins : Nat) : R) - ((amt x outs : Nat) : R)) • cv.tag x + (0 : R) • cv.G = 0 := by
    simp only [sub_smul, Finset.sum_sub_distrib, h, sub_self, zero_smul, add_zero]
  have := (hI S _ 0 hz).1 a hS3
  exact hC _ _ (hB a).1 (hB a).2 (sub_eq_zero.1 this)

/-- the explicit openings an input's issuance contributes -/
def issuanceOpenings (inp : TxIn A M) : List (Secrets A R) :=
  (match inp.amount with | .explicit v => [⟨inp.assetId, v, 0, 0⟩] | _ => []) ++
  (match inp.keys with | .explicit v => [⟨inp.tokenId, v, 0, 0⟩] | _ => [])

/-- the explicit openings of the input side: spent outputs and issuance pseudo-inputs in order -/
def inputOpenings : List (TxIn A M) → List (TxOut A M RP SP) → List (Secrets A R)
  | inp :: is, u :: us => explicitOpenings [u] ++ issuanceOpenings inp ++ inputOpenings is us
  | _, _ => []

/-- all amounts and assets of the transaction and of the spent outputs are explicit
    (issuance amounts: explicit or absent) -/
def ExplicitTx (ins : List (TxIn A M)) (outs utxos : List (TxOut A M RP SP)) : Prop :=
  (∀ u ∈ utxos, (∃ a, u.asset = .explicit a) ∧ ∃ v, u.value = .explicit v) ∧
  (∀ inp ∈ ins, (∀ c, inp.amount ≠ .conf c) ∧ ∀ c, inp.keys ≠ .conf c) ∧
  (∀ o ∈ outs, (∃ a, o.asset = .explicit a) ∧ ∃ v, o.value = .explicit v)

theorem issuance_explicit (cv : Curve R M A) (V : VPrims A M RP SP) (hV : AlgV cv V) (inp : TxIn A M)
    (hok : IssOk inp) (hamt : ∀ c, inp.amount ≠ .conf c) (hkeys : ∀ c, inp.keys ≠ .conf c) :
    (((issuancePairs V inp).getD []).map Prod.snd).sum =
      ((issuanceOpenings inp : List (Secrets A R)).map cv.tagPart).sum := by
  unfold issuancePairs issuanceOpenings
  by_cases hi : inp.hasIssuance = true
  · simp only [hi, if_true]
    cases ha : inp.amount with
    | conf c => exact absurd ha (hamt c)
    | null =>
      cases hk : inp.keys with
      | conf c => exact absurd hk (hkeys c)
      | null => simp [issuancePair]
      | explicit v =>
        have : v ≠ 0 := by intro h0; subst h0; exact hok.2 hk
        simp [issuancePair, this, hV.gen, hV.commit, Curve.tagPart]
    | explicit w =>
      have hw : w ≠ 0 := by intro h0; subst h0; exact hok.1 ha
      cases hk : inp.keys with
      | conf c => exact absurd hk (hkeys c)
      | null => simp [issuancePair, hw, hV.gen, hV.commit, Curve.tagPart]
      | explicit v =>
        have : v ≠ 0 := by intro h0; subst h0; exact hok.2 hk
        simp [issuancePair, this, hw, hV.gen, hV.commit, Curve.tagPart]
  · have : inp.amount = .null ∧ inp.keys = .null := by
      unfold TxIn.hasIssuance at hi
      cases ha : inp.amount <;> cases hk : inp.keys <;> simp_all [CValue.isNull]
    simp [hi, this.1, this.2]

theorem spent_explicit (cv : Curve R M A) (V : VPrims A M RP SP) (hV : AlgV cv V) (u : TxOut A M RP SP)
    (hok : SpentOk u) (a : A) (v : Nat) (ha : u.asset = .explicit a) (hv : u.value = .explicit v) :
    ((spentPair? V u).toList.map Prod.snd).sum =
      ((explicitOpenings [u] : List (Secrets A R)).map cv.tagPart).sum := by
  have hv0 : v ≠ 0 := by intro h0; subst h0; exact hok.2.2 hv
  simp [spentPair?, valueCommit, assetGen, ha, hv, hv0, explicitOpenings, hV.gen, hV.commit, Curve.tagPart]

/-- the input side of an explicit transaction sums to the tag parts of its openings -/
theorem inCommits_explicit (cv : Curve R M A) (V : VPrims A M RP SP) (hV : AlgV cv V) :
    ∀ (ins : List (TxIn A M)) (utxos : List (TxOut A M RP SP)),
      (∀ p ∈ ins.zip utxos, SpentOk p.2 ∧ IssOk p.1) →
      (∀ u ∈ utxos, (∃ a, u.asset = .explicit a) ∧ ∃ v, u.value = .explicit v) →
      (∀ inp ∈ ins, (∀ c, inp.amount ≠ .conf c) ∧ ∀ c, inp.keys ≠ .conf c) →
      (inCommitsOf V ins utxos).sum =
        ((inputOpenings ins utxos : List (Secrets A R)).map cv.tagPart).sum
  | [], _, _, _, _ => by simp [inCommitsOf, pairsOf, inputOpenings]
  | _ :: _, [], _, _, _ => by simp [inCommitsOf, pairsOf, inputOpenings]
  | inp :: is, u :: us, hok, hu, hi => by
    have ih := inCommits_explicit cv V hV is us
      (fun p hp => hok p (by simp [List.zip_cons_cons, hp]))
      (fun x hx => hu x (List.mem_cons_of_mem _ hx)) (fun x hx => hi x (List.mem_cons_of_mem _ hx))
    obtain ⟨⟨a, ha⟩, v, hv⟩ := hu u List.mem_cons_self
    have hk := hok (inp, u) (by simp [List.zip_cons_cons])
    have e1 := spent_explicit cv V hV u hk.1 a v ha hv
    have e2 := issuance_explicit cv V hV inp hk.2 (hi inp List.mem_cons_self).1 (hi inp List.mem_cons_self).2
    unfold inCommitsOf at ih ⊢
    simp only [pairsOf, inputOpenings, List.map_append, List.sum_append]
    rw [e1, e2, ih]

/-- the output side of a transaction with explicit outputs sums to the tag parts of its openings
    (zero amounts contribute nothing on either side) -/
theorem outCommits_explicit (cv : Curve R M A) (V : VPrims A M RP SP) (hV : AlgV cv V) :
    ∀ (outs : List (TxOut A M RP SP)),
      (∀ o ∈ outs, (∃ a, o.asset = .explicit a) ∧ ∃ v, o.value = .explicit v) →
      (outCommitsOf V outs).sum = ((explicitOpenings outs : List (Secrets A R)).map cv.tagPart).sum
  | [], _ => by simp [outCommitsOf, explicitOpenings]
  | o :: os, h => by
    have ih := outCommits_explicit cv V hV os (fun x hx => h x (List.mem_cons_of_mem _ hx))
    obtain ⟨⟨a, ha⟩, v, hv⟩ := h o List.mem_cons_self
    have e := outCommit_explicit cv V hV o v (cv.tag a) hv (by simp [ha, assetGen, hV.gen])
    unfold outCommitsOf at ih ⊢
    rw [sum_filterMap_toList] at ih ⊢
    simp only [List.map_cons, List.sum_cons, explicitOpenings, List.filterMap_cons, ha, hv] at ih ⊢
    rw [ih, e]
    simp [Curve.tagPart]

omit [AddCommGroup M] in
/-- the per-output checks of an explicit output reduce to the zero-value rule -/
theorem outOk_explicit (V : VPrims A M RP SP) (domain : List M) (o : TxOut A M RP SP)
    (h : (∃ a, o.asset = .explicit a) ∧ ∃ v, o.value = .explicit v) :
    OutOk V domain o ↔ (o.value = .explicit 0 → isProvablyUnspendable o.script = true) := by
  obtain ⟨⟨a, ha⟩, v, hv⟩ := h
  unfold OutOk
  simp [ha, hv]

/-- **a transaction whose amounts are all explicit verifies exactly when, per asset, inputs plus
    issuances equal outputs plus fees** (zero-value outputs admissible only on provably unspendable
    scripts; spent outputs and issuance amounts non-zero; list lengths equal).
    The direction "verifies ⇒ balanced" needs independence of the asset tags and that the per-asset
    totals stay below the bound under which naturals are distinct in `R`. -/
theorem explicit_tx_iff_balanced' [DecidableEq A] (cv : Curve R M A) (V : VPrims A M RP SP) (hV : AlgV cv V)
    (hI : Indep cv) (B : Nat) (hC : CastInj R B)
    (ins : List (TxIn A M)) (outs utxos : List (TxOut A M RP SP)) (hE : ExplicitTx ins outs utxos)
    (hB : ∀ a, amt a (inputOpenings ins utxos : List (Secrets A R)) < B ∧
      amt a (explicitOpenings outs : List (Secrets A R)) < B) :
    verify V ins outs utxos = .ok ↔
      utxos.length = ins.length ∧
      (∀ p ∈ ins.zip utxos, SpentOk p.2 ∧ IssOk p.1) ∧
      (∀ o ∈ outs, o.value = .explicit 0 → isProvablyUnspendable o.script = true) ∧
      ∀ a, amt a (inputOpenings ins utxos : List (Secrets A R)) =
        amt a (explicitOpenings outs : List (Secrets A R)) := by
  rw [verify_ok_iff']
  have hout : (∀ o ∈ outs, OutOk V (domainOf V ins utxos) o) ↔
      (∀ o ∈ outs, o.value = .explicit 0 → isProvablyUnspendable o.script = true) := by
    constructor
    · intro h o ho; exact (outOk_explicit V _ o (hE.2.2 o ho)).1 (h o ho)
    · intro h o ho; exact (outOk_explicit V _ o (hE.2.2 o ho)).2 (h o ho)
  rw [hout, hV.sum]
  constructor
  · rintro ⟨hl, hok, hz, hs⟩
    refine ⟨hl, hok, hz, ?_⟩
    rw [inCommits_explicit cv V hV ins utxos hok hE.1 hE.2.1, outCommits_explicit cv V hV outs hE.2.2] at hs
    exact balanced_of_sum_tagPart cv hI B hC _ _ hB hs
  · rintro ⟨hl, hok, hz, hb⟩
    refine ⟨hl, hok, hz, ?_⟩
    rw [inCommits_explicit cv V hV ins utxos hok hE.1 hE.2.1, outCommits_explicit cv V hV outs hE.2.2]
    exact cv.sum_tagPart_of_balanced _ _ hb

end EV.Blind
