/-
  Refinement: the signing messages AS CODED (`msgLegacy`, `msgSegwit`, `msgTaproot`) equal the
  independent transcription of the specifications (`specLegacy`, `specSegwit`, `specTaproot`:
  committed-field record assembled from the numeric hash type, then serialised).
-/
import EV.Proofs.SighashRefineAux
namespace EV.Sighash
open EV EV.Codec

/-- in range (no panic, not the SIGHASH_SINGLE constant) the legacy message is the serialization of
    the record Core's `CTransactionSignatureSerializer` describes -/
theorem legacy_refines (tx : Tx) (idx : Nat) (script : Bytes) (ty : EcdsaTy) (h : InRange ty idx tx) :
    msgLegacy tx idx script ty = .ok (serLegacy (specLegacyView tx idx script ty.asU32)) := by
  obtain ⟨hi, hs⟩ := h
  have hme : tx.input[idx]? = some tx.input[idx] := List.getElem?_eq_getElem hi
  unfold msgLegacy
  rw [if_neg (by simpa using hi), if_neg (by intro ⟨hb, hge⟩; exact absurd (hs hb) (by omega))]
  simp only [hme]
  unfold serLegacy specLegacyView
  simp only []
  rw [legacy_ins_enc tx idx script ty _ hme, legacy_outs_enc tx idx ty hs]

theorem legacy_refines_spec (tx : Tx) (idx : Nat) (script : Bytes) (ty : EcdsaTy) (h : InRange ty idx tx) :
    msgLegacy tx idx script ty = specLegacy tx idx script ty.asU32 := by
  rw [legacy_refines tx idx script ty h]
  unfold specLegacy
  rw [if_neg (by simpa using h.1)]

/-- out of range both panic (the documented panic / Core's assert) -/
theorem legacy_panic (H : SigHashes) (tx : Tx) (idx : Nat) (script : Bytes) (ty : EcdsaTy) (h : ¬ idx < tx.input.length) :
    (∃ s, msgLegacy tx idx script ty = .panic s) ∧ (∃ s, specLegacy tx idx script ty.asU32 = .panic s) ∧
    (∃ s, legacySighash H tx idx script ty = .panic s) ∧ (∃ s, specLegacySighash H tx idx script ty.asU32 = .panic s) := by
  refine ⟨?_, ?_, ?_, ?_⟩
  · unfold msgLegacy; rw [if_pos h]; exact ⟨_, rfl⟩
  · unfold specLegacy; rw [if_pos h]; exact ⟨_, rfl⟩
  · unfold legacySighash; rw [if_pos h]; exact ⟨_, rfl⟩
  · unfold specLegacySighash; rw [if_pos h]; exact ⟨_, rfl⟩

/-- the digest, including the SIGHASH_SINGLE-without-output constant, is Core's `SignatureHash` -/
theorem legacy_digest_refines (H : SigHashes) (tx : Tx) (idx : Nat) (script : Bytes) (ty : EcdsaTy)
    (h : idx < tx.input.length) :
    legacySighash H tx idx script ty = specLegacySighash H tx idx script ty.asU32 := by
  unfold legacySighash specLegacySighash
  simp only [h, not_true_eq_false, if_false, ecdsa_single_iff]
  by_cases hc : ty.base = .single ∧ idx ≥ tx.output.length
  · rw [if_pos hc, if_pos hc]; rfl
  · rw [if_neg hc, if_neg hc]
    have hr : InRange ty idx tx := ⟨h, fun hb => by
      have : ¬ idx ≥ tx.output.length := fun hge => hc ⟨hb, hge⟩
      omega⟩
    rw [legacy_refines tx idx script ty hr]
    rfl

/-- BIP143 + issuance extension (the code hashes the cached SHA-256 values once more where the
    specification says double SHA-256: hypothesis `Dbl`) -/
theorem segwit_refines (H : SigHashes) (hd : Dbl H) (tx : Tx) (idx : Nat) (sc : Bytes) (v : Value) (ty : EcdsaTy)
    (h : idx < tx.input.length) :
    ∃ vw, specSegwitView tx idx sc v ty.asU32 = some vw ∧ msgSegwit H tx idx sc v ty = .ok (serSegwit H vw) := by
  have hme : tx.input[idx]? = some tx.input[idx] := List.getElem?_eq_getElem h
  unfold specSegwitView
  simp only [hme]
  refine ⟨_, rfl, ?_⟩
  unfold msgSegwit serSegwit
  simp only [hme, ecdsa_acp_iff, ecdsa_single_iff, ecdsa_none_iff, seg_issuance]
  rw [seg_prevouts H hd, seg_sequences H hd, seg_issuances H hd, seg_outputs H hd]
  by_cases ho : idx < tx.output.length
  · have h3 : ∀ o : TxOut, (outBody o).enc = o.enc := fun _ => rfl
    cases ty <;> simp [EcdsaTy.acp, EcdsaTy.base, ho, h3] <;>
      (cases issuanceOf tx.input[idx] <;> rfl)
  · cases ty <;> simp [EcdsaTy.acp, EcdsaTy.base, ho] <;>
      (cases issuanceOf tx.input[idx] <;> rfl)

theorem segwit_panic (H : SigHashes) (tx : Tx) (idx : Nat) (sc : Bytes) (v : Value) (ty : EcdsaTy)
    (h : ¬ idx < tx.input.length) :
    (∃ s, msgSegwit H tx idx sc v ty = .panic s) ∧ specSegwitView tx idx sc v ty.asU32 = none := by
  have hme : tx.input[idx]? = none := by simp; omega
  constructor
  · unfold msgSegwit; simp only [hme]; exact ⟨_, rfl⟩
  · unfold specSegwitView; simp only [hme]

/-- Elements taproot message, for the seven hash types `from_u8` accepts: same bytes, same errors -/
theorem taproot_refines (H : SigHashes) (tx : Tx) (idx : Nat) (pv : Prevouts) (annex : Option Bytes)
    (leaf : Option (Bytes × Nat)) (ty : SchnorrTy) (genesis : Bytes) (hty : ty ≠ .reserved) :
    msgTaproot H tx idx pv annex leaf ty genesis = specTaproot H tx idx pv annex leaf ty.byte genesis := by
  unfold msgTaproot specTaproot
  rw [specTaprootView_eq _ _ _ _ _ _ _ (schnorr_valid ty hty), specTapPrevoutsOk_eq, tap_ins_bind H tx idx pv ty hty,
    tapSinglePart_eq H tx idx ty hty]
  cases pv.checkAll tx with
  | err e => rfl
  | panic s => rfl
  | ok u =>
    simp only [Res.bind, Res.map]
    cases specTapInputs tx idx pv ty.byte with
    | err e => rfl
    | panic s => rfl
    | ok ins =>
      simp only []
      cases ho : specTapOutputs tx idx ty.byte with
      | err e => rfl
      | panic s => rfl
      | ok outs =>
        simp only [tapOutsPart_eq H tx idx ty hty outs ho, tap_assemble]

end EV.Sighash
