/-
  EV.Ref.Taproot — hand-pinned reference values prescribed by the Elements taproot specification
  (doc/taproot-sighash.mediawiki of Elements, BIP341 with Elements' tags and leaf version).
  `EV.Gen.Taproot.*` is what the Rust source says now; C15 carries the obligation Gen = Ref.
-/
namespace EV.Ref.Taproot
def leafTag : String := "TapLeaf/elements"
def branchTag : String := "TapBranch/elements"
def tweakTag : String := "TapTweak/elements"
def controlMaxNodeCount : Nat := 128
def controlNodeSize : Nat := 32
def controlBaseSize : Nat := 33
def leafMask : Nat := 0xfe
def leafTapscript : Nat := 0xc4
def annexTag : Nat := 0x50
end EV.Ref.Taproot
