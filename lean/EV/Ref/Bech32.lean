/-
  EV.Ref.Bech32 — hand-pinned REFERENCE constants (never regenerated).
  * bech32 / bech32m (BIP173 / BIP350) as implemented by the `bech32` crate 0.11
    (`primitives/mod.rs`: GEN, TARGET_RESIDUE, CHECKSUM_LENGTH, CODE_LENGTH;
    `primitives/segwit.rs`: MAX_STRING_LENGTH; `primitives/gf32.rs`: CHARS_LOWER).
    They live in a dependency, so `tools/extract_consts.py` cannot re-read them from /repo.
  * reference copies of the blech32 constants (Elements `blech32.cpp`) and of the three networks'
    address parameters (Elements chainparams), against which `EV.Gen` is compared by `decide`
    in `EV.Props.C06`.
-/
namespace EV.Ref

def bech32Generators : List Nat := [0x3b6a57b2, 0x26508e6d, 0x1ea119fa, 0x3d4233dd, 0x2a1462b3]
def bech32ChecksumLength : Nat := 6
def bech32Target : Nat := 1
def bech32mTarget : Nat := 0x2bc830a3
def bech32CodeLength : Nat := 1023
/-- `bech32::primitives::segwit::MAX_STRING_LENGTH` -/
def segwitMaxStringLength : Nat := 90
/-- `bech32::primitives::hrp::MAX_HRP_LEN` -/
def maxHrpLen : Nat := 83

/-- the 32-character alphabet, as ASCII codes of "qpzry9x8gf2tvdw0s3jn54khce6mua7l" -/
def charset : List Nat :=
  [113, 112, 122, 114, 121, 57, 120, 56, 103, 102, 50, 116, 118, 100, 119, 48,
   115, 51, 106, 110, 53, 52, 107, 104, 99, 101, 54, 109, 117, 97, 55, 108]

/-- the base58 alphabet "123456789ABCDEFGHJKLMNPQRSTUVWXYZabcdefghijkmnopqrstuvwxyz" as ASCII codes -/
def base58Chars : List Nat :=
  [49, 50, 51, 52, 53, 54, 55, 56, 57,
   65, 66, 67, 68, 69, 70, 71, 72, 74, 75, 76, 77, 78, 80, 81, 82, 83, 84, 85, 86, 87, 88, 89, 90,
   97, 98, 99, 100, 101, 102, 103, 104, 105, 106, 107, 109, 110, 111, 112, 113, 114, 115, 116, 117,
   118, 119, 120, 121, 122]

def blech32Generators : List Nat :=
  [0x7d52fba40bd886, 0x5e8dbf1a03950c, 0x1c3a3c74072a18, 0x385d72fa0e5139, 0x7093e5a608865b]
def blech32ChecksumLength : Nat := 12
def blech32Target : Nat := 1
def blech32mTarget : Nat := 0x455972a3350f7a1

/-- (name, p2pkh, p2sh, blinded, bech hrp, blech hrp) of the three built-in networks -/
def networks : List (String × Nat × Nat × Nat × String × String) :=
  [("LIQUID", 57, 39, 12, "ex", "lq"),
   ("ELEMENTS", 235, 75, 4, "ert", "el"),
   ("LIQUID_TESTNET", 36, 19, 23, "tex", "tlq")]

end EV.Ref
