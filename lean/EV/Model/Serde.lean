/-
  EV.Model.Serde — the serde data model and the HAND-WRITTEN `Serialize`/`Deserialize` impls of
  rust-elements as coded (C20).

  * `SVal` is the token tree a `serde::Serializer` receives (integer widths, struct/newtype names,
    tuple vs seq are all still visible);
  * `lossy f` is what a self-describing format keeps of it: JSON (`Fmt.json`) and CBOR (`Fmt.cbor`)
    forget integer widths, make tuples and sequences arrays, structs maps keyed by field-name strings,
    newtype structs and `Some` transparent, `None`/unit null; a newtype variant is the one-entry map
    `{variant: content}` in JSON and the two-element array `[variant, content]` in CBOR (serde_cbor 0.8);
    JSON additionally turns byte strings into arrays of numbers;
  * for each impl `toS : τ → (human_readable : Bool) → SVal` mirrors `serialize`, and
    `ofS : Bool → SVal → Res τ` mirrors `deserialize` *driven by a self-describing deserializer*: every
    `deserialize_*` hint dispatches on the token (null→`visit_unit`/`visit_none`, number→`visit_u64`,
    string→`visit_str`, bytes→`visit_bytes`, array→`visit_seq`, map→`visit_map`), a visitor method the
    impl does not define is an "invalid type" error, `deserialize_option` maps null to `None`,
    `deserialize_newtype_struct` is transparent, `deserialize_enum` takes a one-entry map or a two-element
    array, and elements left unconsumed by `visit_seq` are an error (both format crates behave like this).
  Leaf types that come from dependencies (hash newtypes, secp256k1-zkp points/tweaks/proofs,
  `secp256k1::PublicKey`, `bitcoin::ScriptBuf`, serde's own `u8/u32/u64/bool/[u8;N]/Vec/Option`) are
  modelled as far as the hand-written impls delegate to them; `#[derive]`d impls are modelled only for
  `Sequence`, `LockTime`, `Height`, `Time` (needed inside `TxIn` / `Transaction`).
  Validity of curve points, tweaks and proofs is the parameter record `Prims`.
-/
import EV.Model.Text
import EV.Model.Block
namespace EV.Serde
open EV EV.Text

inductive SVal where
  | unit
  | bool (b : Bool)
  /-- unsigned integer of width `w` bits (`w = 0`: width forgotten) -/
  | num (w n : Nat)
  | str (s : String)
  | bytes (b : Bytes)
  | none
  | some (v : SVal)
  | seq (l : List SVal)
  | tuple (l : List SVal)
  | tupleStruct (name : String) (l : List SVal)
  | map (l : List (SVal × SVal))
  | struct (name : String) (fs : List (String × SVal))
  | newtype (name : String) (v : SVal)
  | variant (ty : String) (idx : Nat) (name : String) (v : SVal)
  deriving Repr, Inhabited

inductive Fmt where
  | json
  | cbor
  deriving Repr, DecidableEq

mutual
/-- what a self-describing format keeps of the data model -/
def lossy (f : Fmt) : SVal → SVal
  | .unit => .unit
  | .none => .unit
  | .bool b => .bool b
  | .num _ n => .num 0 n
  | .str s => .str s
  | .bytes b =>
    match f with
    | .json => .seq (b.map fun x => .num 0 x.toNat)
    | .cbor => .bytes b
  | .some v => lossy f v
  | .seq l => .seq (lossyL f l)
  | .tuple l => .seq (lossyL f l)
  | .tupleStruct _ l => .seq (lossyL f l)
  | .map l => .map (lossyM f l)
  | .struct _ fs => .map (lossyF f fs)
  | .newtype _ v => lossy f v
  | .variant _ _ n v =>
    match f with
    | .json => .map [(.str n, lossy f v)]
    | .cbor => .seq [.str n, lossy f v]
def lossyL (f : Fmt) : List SVal → List SVal
  | [] => []
  | v :: r => lossy f v :: lossyL f r
def lossyM (f : Fmt) : List (SVal × SVal) → List (SVal × SVal)
  | [] => []
  | (k, v) :: r => (lossy f k, lossy f v) :: lossyM f r
def lossyF (f : Fmt) : List (String × SVal) → List (SVal × SVal)
  | [] => []
  | (k, v) :: r => (.str k, lossy f v) :: lossyF f r
end

/-- `is_human_readable()` of the two formats, and the combinations a deserializer can meet: a format that
    turns byte strings into arrays of numbers (JSON) is always human readable -/
def Fmt.human : Fmt → Bool
  | .json => true
  | .cbor => false
def compatible (h : Bool) (f : Fmt) : Prop := f = .json → h = true

/-! ### leaves: serde's own impls and the dependencies' impls -/

def sStr (cs : Str) : SVal := .str (String.ofList cs)
def sU8s (b : Bytes) : List SVal := b.map fun x => .num 8 x.toNat
/-- `[u8; N]` -/
def sArr (b : Bytes) : SVal := .tuple (sU8s b)
/-- `Vec<u8>` -/
def sVecU8 (b : Bytes) : SVal := .seq (sU8s b)
/-- hash newtypes and midstate wrappers: `Display` string when human readable, else `serialize_bytes` -/
def sHash (k : HashKind) (h : Bool) (b : Bytes) : SVal := if h then sStr (hashShow k b) else .bytes b
/-- `PedersenCommitment`, `Generator`, `Tweak`, `RangeProof`, `SurjectionProof`, `bitcoin::ScriptBuf`,
    `dynafed::HexBytes`: lower-case hex when human readable, else `serialize_bytes` -/
def sHexOrBytes (h : Bool) (b : Bytes) : SVal := if h then sStr (hexStr b) else .bytes b
/-- `secp256k1::PublicKey`: hex when human readable, else a tuple of 33 `u8` -/
def sPubkey (h : Bool) (b : Bytes) : SVal := if h then sStr (hexStr b) else .tuple (sU8s b)
/-- `Script`: `serialize_str(&format!("{:x}", self))` in both modes -/
def sScript (b : Bytes) : SVal := sStr (hexStr b)
/-- `Option<Box<RangeProof>>`, `Option<Box<SurjectionProof>>` -/
def sOptProof (h : Bool) : Option Bytes → SVal
  | .none => .none
  | .some b => .some (sHexOrBytes h b)
/-- `Vec<Vec<u8>>` -/
def sStack (l : List Bytes) : SVal := .seq (l.map sVecU8)

/-- primitive integer visitors: `visit_u64` with a range check -/
def ofNum (bound : Nat) : SVal → Res Nat
  | .num _ n => if n < bound then .ok n else .err "integer out of range"
  | _ => .err "invalid type"
def ofBool : SVal → Res Bool
  | .bool b => .ok b
  | _ => .err "invalid type"
def ofU8s : List SVal → Res Bytes
  | [] => .ok []
  | v :: r =>
    match ofNum 256 v with
    | .ok n =>
      (match ofU8s r with
       | .ok b => .ok (UInt8.ofNat n :: b)
       | .err e => .err e
       | .panic s => .panic s)
    | .err e => .err e
    | .panic s => .panic s
/-- `Vec<u8>`: `visit_seq` only -/
def ofVecU8 : SVal → Res Bytes
  | .seq l => ofU8s l
  | _ => .err "invalid type"
/-- `[u8; N]`: exactly `N` elements -/
def ofArr (n : Nat) : SVal → Res Bytes
  | .seq l =>
    match ofU8s l with
    | .ok b => if b.length = n then .ok b else .err "invalid length"
    | .err e => .err e
    | .panic s => .panic s
  | _ => .err "invalid type"
/-- `Vec<T>::deserialize`: `visit_seq`, elements in order, the first error aborts -/
def mapRes {α} (p : SVal → Res α) : List SVal → Res (List α)
  | [] => .ok []
  | v :: r =>
    match p v with
    | .ok a =>
      (match mapRes p r with
       | .ok as => .ok (a :: as)
       | .err e => .err e
       | .panic s => .panic s)
    | .err e => .err e
    | .panic s => .panic s
def ofSeq {α} (p : SVal → Res α) : SVal → Res (List α)
  | .seq l => mapRes p l
  | _ => .err "invalid type"
def ofStack : SVal → Res (List Bytes) := ofSeq ofVecU8

/-- a byte string handed to a visitor that re-reads it as UTF-8 text (`visit_bytes` of the hex visitors):
    only ASCII matters, every other byte makes the parse fail either way -/
def bytesAsStr (b : Bytes) : Str := b.map fun x => Char.ofNat x.toNat

/-- hash newtypes: `HexVisitor` (`visit_str`, `visit_bytes` as UTF-8) when human readable, else
    `BytesVisitor` (`visit_bytes`, exact length) -/
def ofHash (k : HashKind) (h : Bool) : SVal → Res Bytes
  | .str s => if h then hashParse k s.toList else .err "invalid type"
  | .bytes b =>
    if h then hashParse k (bytesAsStr b)
    else if b.length = k.len then .ok b else .err "invalid length"
  | _ => .err "invalid type"

/-- `Script`: `visit_str` → `hex::decode_to_vec` -/
def ofScript : SVal → Res Bytes
  | .str s => unhex s.toList
  | _ => .err "invalid type"

/-- `bitcoin::ScriptBuf`: hex string when human readable, else bytes -/
def ofBtcScript (h : Bool) : SVal → Res Bytes
  | .str s => if h then unhex s.toList else .err "invalid type"
  | .bytes b => if h then .err "invalid type" else .ok b
  | _ => .err "invalid type"

/-- `Tweak`: `FromStrVisitor` (hex of exactly 32 bytes, `Tweak::from_inner`) / `BytesVisitor` (`from_slice`) -/
def ofTweak (P : Prims) (h : Bool) : SVal → Res Bytes
  | .str s =>
    if h then
      match unhex s.toList with
      | .ok b => if b.length = 32 ∧ P.tweak b = true then .ok b else .err "invalid tweak"
      | .err e => .err e
      | .panic s => .panic s
    else .err "invalid type"
  | .bytes b =>
    if h then .err "invalid type"
    else if b.length = 32 ∧ P.tweak b = true then .ok b else .err "invalid tweak"
  | _ => .err "invalid type"

/-- `PedersenCommitment` / `Generator`: hex of exactly 33 bytes, or bytes handed to `from_slice`, which
    reads 33 bytes WITHOUT checking the slice length (shorter input: out-of-bounds read inside
    secp256k1-zkp, undefined behaviour; recorded as an error here and never fed by the harness) -/
def ofPoint (valid : Bytes → Bool) (h : Bool) : SVal → Res Bytes
  | .str s =>
    if h then
      match unhex s.toList with
      | .ok b => if b.length = 33 ∧ valid b = true then .ok b else .err "invalid point"
      | .err e => .err e
      | .panic s => .panic s
    else .err "invalid type"
  | .bytes b =>
    if h then .err "invalid type"
    else if b.length < 33 then .err "short slice (out-of-bounds read in the dependency)"
    else if valid (b.take 33) = true then .ok (b.take 33) else .err "invalid point"
  | _ => .err "invalid type"

/-- the compressed form of a 65-byte uncompressed / hybrid key `pre ‖ x ‖ y`: parity of `y`, then `x` -/
def compressPubkey (b : Bytes) : Bytes :=
  (if (b.getLast?.getD 0).toNat % 2 = 0 then 2 else 3) :: (b.drop 1).take 32

/-- `secp256k1::PublicKey`: `FromStr` takes hex of 33 bytes (compressed) or of 65 bytes (uncompressed or
    hybrid; the value is the same point, re-serialized compressed; `P.pubkey` is asked about the 65 bytes
    then); not human readable: a 33-tuple of `u8` -/
def ofPubkey (P : Prims) (h : Bool) : SVal → Res Bytes
  | .str s =>
    if h then
      match unhex s.toList with
      | .ok b =>
        if b.length = 33 ∧ P.pubkey b = true then .ok b
        else if b.length = 65 ∧ P.pubkey b = true then .ok (compressPubkey b)
        else .err "invalid public key"
      | .err e => .err e
      | .panic s => .panic s
    else .err "invalid type"
  | .seq l =>
    if h then .err "invalid type"
    else match ofU8s l with
      | .ok b => if b.length = 33 ∧ P.pubkey b = true then .ok b else .err "invalid public key"
      | .err e => .err e
      | .panic s => .panic s
  | _ => .err "invalid type"

/-- `RangeProof` / `SurjectionProof` -/
def ofProof (valid : Bytes → Bool) (h : Bool) : SVal → Res Bytes
  | .str s =>
    if h then
      match unhex s.toList with
      | .ok b => if valid b = true then .ok b else .err "invalid proof"
      | .err e => .err e
      | .panic s => .panic s
    else .err "invalid type"
  | .bytes b => if h then .err "invalid type" else if valid b = true then .ok b else .err "invalid proof"
  | _ => .err "invalid type"

/-- `Option<Box<_>>`: null is `None` -/
def ofOptProof (valid : Bytes → Bool) (h : Bool) : SVal → Res (Option Bytes)
  | .unit => .ok .none
  | v =>
    match ofProof valid h v with
    | .ok b => .ok (.some b)
    | .err e => .err e
    | .panic s => .panic s

/-! ### struct visitors (`serde_struct_impl!`, `ExtData`, `Params`): `visit_map` keyed by field name -/

/-- every key is deserialized with `deserialize_str(EnumVisitor)`: anything but a string is an error -/
def keysOk : List (SVal × SVal) → Bool
  | [] => true
  | (.str _, _) :: r => keysOk r
  | _ => false

/-- the slot of field `name` after the `visit_map` loop: every occurrence is parsed when it is met (an
    error aborts), the last one wins, unknown keys are skipped (`IgnoredAny`) -/
def fieldOpt {α} (name : String) (p : SVal → Res α) : List (SVal × SVal) → Res (Option α)
  | [] => .ok .none
  | (.str s, v) :: r =>
    if s = name then
      match p v with
      | .ok a =>
        (match fieldOpt name p r with
         | .ok .none => .ok (.some a)
         | .ok (.some b) => .ok (.some b)
         | .err e => .err e
         | .panic s => .panic s)
      | .err e => .err e
      | .panic s => .panic s
    else fieldOpt name p r
  | _ :: r => fieldOpt name p r

/-- a required field: `missing_field` when its slot is still empty -/
def field {α} (name : String) (p : SVal → Res α) (es : List (SVal × SVal)) : Res α :=
  match fieldOpt name p es with
  | .ok (.some a) => .ok a
  | .ok .none => .err ("missing field " ++ name)
  | .err e => .err e
  | .panic s => .panic s

/-! ### confidential values (`src/confidential.rs`): a sequence with a tag -/

/-- `u64::swap_bytes` -/
def swap64 (n : Nat) : Nat := leNat (leBytes 8 n).reverse

def kAssetId : HashKind := ⟨32, true⟩

namespace Value
def toS (h : Bool) : Value → SVal
  | .null => .seq [.num 8 0]
  | .explicit n => .seq [.num 8 1, .num 64 (swap64 n)]
  | .conf c => .seq [.num 8 2, sHexOrBytes h c]
def ofS (P : Prims) (h : Bool) : SVal → Res Value
  | .seq [] => .err "wrong or missing prefix"
  | .seq (p :: rest) =>
    match ofNum 256 p with
    | .ok t =>
      if t = 0 then (if rest = [] then .ok .null else .err "trailing elements")
      else if t = 1 then
        match rest with
        | [x] =>
          (match ofNum (2^64) x with
           | .ok n => .ok (.explicit (swap64 n))
           | .err e => .err e
           | .panic s => .panic s)
        | _ => .err "missing explicit value / trailing elements"
      else if t = 2 then
        match rest with
        | [x] =>
          (match ofPoint P.commitment h x with
           | .ok c => .ok (.conf c)
           | .err e => .err e
           | .panic s => .panic s)
        | _ => .err "missing pedersen commitment / trailing elements"
      else .err "wrong or missing prefix"
    | .err e => .err e
    | .panic s => .panic s
  | _ => .err "invalid type"
def ok (P : Prims) : Value → Prop
  | .null => True
  | .explicit n => n < 2^64
  | .conf c => c.length = 33 ∧ P.commitment c = true
end Value

namespace Asset
def toS (h : Bool) : Asset → SVal
  | .null => .seq [.num 8 0]
  | .explicit id => .seq [.num 8 1, sHash kAssetId h id]
  | .conf g => .seq [.num 8 2, sHexOrBytes h g]
def ofS (P : Prims) (h : Bool) : SVal → Res Asset
  | .seq [] => .err "wrong or missing prefix"
  | .seq (p :: rest) =>
    match ofNum 256 p with
    | .ok t =>
      if t = 0 then (if rest = [] then .ok .null else .err "trailing elements")
      else if t = 1 then
        match rest with
        | [x] =>
          (match ofHash kAssetId h x with
           | .ok id => .ok (.explicit id)
           | .err e => .err e
           | .panic s => .panic s)
        | _ => .err "missing explicit asset / trailing elements"
      else if t = 2 then
        match rest with
        | [x] =>
          (match ofPoint P.generator h x with
           | .ok g => .ok (.conf g)
           | .err e => .err e
           | .panic s => .panic s)
        | _ => .err "missing generator / trailing elements"
      else .err "wrong or missing prefix"
    | .err e => .err e
    | .panic s => .panic s
  | _ => .err "invalid type"
def ok (P : Prims) : Asset → Prop
  | .null => True
  | .explicit id => id.length = 32
  | .conf g => g.length = 33 ∧ P.generator g = true
end Asset

namespace Nonce
def toS (h : Bool) : Nonce → SVal
  | .null => .seq [.num 8 0]
  | .explicit b => .seq [.num 8 1, sArr b]
  | .conf pk => .seq [.num 8 2, sPubkey h pk]
def ofS (P : Prims) (h : Bool) : SVal → Res Nonce
  | .seq [] => .err "wrong or missing prefix"
  | .seq (p :: rest) =>
    match ofNum 256 p with
    | .ok t =>
      if t = 0 then (if rest = [] then .ok .null else .err "trailing elements")
      else if t = 1 then
        match rest with
        | [x] =>
          (match ofArr 32 x with
           | .ok b => .ok (.explicit b)
           | .err e => .err e
           | .panic s => .panic s)
        | _ => .err "missing explicit nonce / trailing elements"
      else if t = 2 then
        match rest with
        | [x] =>
          (match ofPubkey P h x with
           | .ok pk => .ok (.conf pk)
           | .err e => .err e
           | .panic s => .panic s)
        | _ => .err "missing nonce / trailing elements"
      else .err "wrong or missing prefix"
    | .err e => .err e
    | .panic s => .panic s
  | _ => .err "invalid type"
def ok (P : Prims) : Nonce → Prop
  | .null => True
  | .explicit b => b.length = 32
  | .conf pk => pk.length = 33 ∧ P.pubkey pk = true
end Nonce

/-! ### blinding factors: reversed hex when human readable, else 32 bytes -/

namespace BlindingFactor
def toS (h : Bool) (b : Bytes) : SVal := if h then sStr (bfShow b) else .bytes b
def ofS (P : Prims) (h : Bool) : SVal → Res Bytes
  | .str s => if h then bfParse P.tweak s.toList else .err "invalid type"
  | .bytes b =>
    if h then bfParse P.tweak (bytesAsStr b)
    else if b.length = 32 then (if P.tweak b = true then .ok b else .err "invalid tweak") else .err "invalid length"
  | _ => .err "invalid type"
def ok (P : Prims) (b : Bytes) : Prop := b.length = 32 ∧ P.tweak b = true
end BlindingFactor

/-! ### `serde_string_impl!` (sighash types) and `Address`: the `Display` string, `visit_str` → `FromStr` -/

def stringToS (show_ : String) : SVal := .str show_
def stringOfS {α} (parse : String → Res α) : SVal → Res α
  | .str s => parse s
  | _ => .err "invalid type"

/-! ### OutPoint (`serde_struct_human_string_impl!`) -/

namespace OutPoint
def toS (h : Bool) (o : OutPoint) : SVal :=
  if h then sStr (outPointShow o)
  else .struct "OutPoint" [("txid", sHash kTxid h o.txid), ("vout", .num 32 o.vout)]
def ofS (h : Bool) : SVal → Res OutPoint
  | .str s => if h then outPointParse s.toList else .err "invalid type"
  | .seq l =>
    if h then .err "invalid type"
    else match l with
      | [a, b] =>
        (match ofHash kTxid h a with
         | .ok t =>
           (match ofNum (2^32) b with
            | .ok v => .ok ⟨t, v⟩
            | .err e => .err e
            | .panic s => .panic s)
         | .err e => .err e
         | .panic s => .panic s)
      | _ => .err "invalid length"
  | .map es =>
    if h then .err "invalid type"
    else if !keysOk es then .err "invalid type: field name"
    else match field "txid" (ofHash kTxid h) es with
      | .ok t =>
        (match field "vout" (ofNum (2^32)) es with
         | .ok v => .ok ⟨t, v⟩
         | .err e => .err e
         | .panic s => .panic s)
      | .err e => .err e
      | .panic s => .panic s
  | _ => .err "invalid type"
def ok (o : OutPoint) : Prop := o.txid.length = 32 ∧ o.vout < 2^32
end OutPoint

/-! ### `serde_struct_impl!` structs of `src/transaction.rs` -/

namespace AssetIssuance
def toS (h : Bool) (i : AssetIssuance) : SVal :=
  .struct "AssetIssuance" [("asset_blinding_nonce", sHexOrBytes h i.nonce), ("asset_entropy", sArr i.entropy),
    ("amount", Value.toS h i.amount), ("inflation_keys", Value.toS h i.inflationKeys)]
def ofS (P : Prims) (h : Bool) : SVal → Res AssetIssuance
  | .map es =>
    if !keysOk es then .err "invalid type: field name" else
    match field "asset_blinding_nonce" (ofTweak P h) es with
    | .ok n =>
      (match field "asset_entropy" (ofArr 32) es with
       | .ok e =>
         (match field "amount" (Value.ofS P h) es with
          | .ok a =>
            (match field "inflation_keys" (Value.ofS P h) es with
             | .ok k => .ok ⟨n, e, a, k⟩
             | .err e => .err e
             | .panic s => .panic s)
          | .err e => .err e
          | .panic s => .panic s)
       | .err e => .err e
       | .panic s => .panic s)
    | .err e => .err e
    | .panic s => .panic s
  | _ => .err "invalid type"
def ok (P : Prims) (i : AssetIssuance) : Prop :=
  i.nonce.length = 32 ∧ P.tweak i.nonce = true ∧ i.entropy.length = 32 ∧ Value.ok P i.amount ∧ Value.ok P i.inflationKeys
end AssetIssuance

def okOptProof (valid : Bytes → Bool) : Option Bytes → Prop
  | .none => True
  | .some b => valid b = true

namespace TxInWitness
def toS (h : Bool) (w : TxInWitness) : SVal :=
  .struct "TxInWitness" [("amount_rangeproof", sOptProof h w.amountRangeproof),
    ("inflation_keys_rangeproof", sOptProof h w.inflationKeysRangeproof),
    ("script_witness", sStack w.scriptWitness), ("pegin_witness", sStack w.peginWitness)]
def ofS (P : Prims) (h : Bool) : SVal → Res TxInWitness
  | .map es =>
    if !keysOk es then .err "invalid type: field name" else
    match field "amount_rangeproof" (ofOptProof P.rangeproof h) es with
    | .ok a =>
      (match field "inflation_keys_rangeproof" (ofOptProof P.rangeproof h) es with
       | .ok k =>
         (match field "script_witness" ofStack es with
          | .ok s =>
            (match field "pegin_witness" ofStack es with
             | .ok p => .ok ⟨a, k, s, p⟩
             | .err e => .err e
             | .panic s => .panic s)
          | .err e => .err e
          | .panic s => .panic s)
       | .err e => .err e
       | .panic s => .panic s)
    | .err e => .err e
    | .panic s => .panic s
  | _ => .err "invalid type"
def ok (P : Prims) (w : TxInWitness) : Prop :=
  okOptProof P.rangeproof w.amountRangeproof ∧ okOptProof P.rangeproof w.inflationKeysRangeproof
end TxInWitness

namespace TxOutWitness
def toS (h : Bool) (w : TxOutWitness) : SVal :=
  .struct "TxOutWitness" [("surjection_proof", sOptProof h w.surjectionProof), ("rangeproof", sOptProof h w.rangeproof)]
def ofS (P : Prims) (h : Bool) : SVal → Res TxOutWitness
  | .map es =>
    if !keysOk es then .err "invalid type: field name" else
    match field "surjection_proof" (ofOptProof P.surjproof h) es with
    | .ok s =>
      (match field "rangeproof" (ofOptProof P.rangeproof h) es with
       | .ok r => .ok ⟨s, r⟩
       | .err e => .err e
       | .panic s => .panic s)
    | .err e => .err e
    | .panic s => .panic s
  | _ => .err "invalid type"
def ok (P : Prims) (w : TxOutWitness) : Prop :=
  okOptProof P.surjproof w.surjectionProof ∧ okOptProof P.rangeproof w.rangeproof
end TxOutWitness

/-- `#[derive(Serialize)] struct Sequence(pub u32)`: a newtype struct -/
def sSequence (n : Nat) : SVal := .newtype "Sequence" (.num 32 n)
/-- derived `Deserialize` of a newtype struct: `visit_newtype_struct` → `u32` -/
def ofSequence : SVal → Res Nat := ofNum (2^32)

/-- `#[derive(Serialize)] enum LockTime { Blocks(Height), Seconds(Time) }` on `LockTime::from_consensus(n)` -/
def sLockTime (n : Nat) : SVal :=
  if n < Gen.lockTimeThreshold then .variant "LockTime" 0 "Blocks" (.newtype "Height" (.num 32 n))
  else .variant "LockTime" 1 "Seconds" (.newtype "Time" (.num 32 n))
/-- the derived variant identifier of `LockTime`: by name, by index, or by name as bytes -/
def lockTimeVariant : SVal → Bool
  | .str s => s = "Blocks" || s = "Seconds"
  | .num _ i => i < 2
  | .bytes b => b = "Blocks".toUTF8.toList || b = "Seconds".toUTF8.toList
  | _ => false
/-- derived `Deserialize` of the enum: a one-entry map (JSON) or a two-element array (CBOR) whose key names
    the variant; the derived impls of `Height`/`Time` do not re-check the threshold, so the value is just the
    `u32` (compared through its consensus encoding) -/
def ofLockTime : SVal → Res Nat
  | .map [(k, v)] => if lockTimeVariant k then ofNum (2^32) v else .err "unknown variant"
  | .seq [k, v] => if lockTimeVariant k then ofNum (2^32) v else .err "unknown variant"
  | _ => .err "invalid type"

namespace TxIn
def toS (h : Bool) (i : TxIn) : SVal :=
  .struct "TxIn" [("previous_output", OutPoint.toS h i.previousOutput), ("is_pegin", .bool i.isPegin),
    ("script_sig", sScript i.scriptSig), ("sequence", sSequence i.sequence),
    ("asset_issuance", AssetIssuance.toS h i.assetIssuance), ("witness", TxInWitness.toS h i.witness)]
def ofS (P : Prims) (h : Bool) : SVal → Res TxIn
  | .map es =>
    if !keysOk es then .err "invalid type: field name" else
    match field "previous_output" (OutPoint.ofS h) es with
    | .ok o =>
      (match field "is_pegin" ofBool es with
       | .ok pg =>
         (match field "script_sig" ofScript es with
          | .ok ss =>
            (match field "sequence" ofSequence es with
             | .ok sq =>
               (match field "asset_issuance" (AssetIssuance.ofS P h) es with
                | .ok ai =>
                  (match field "witness" (TxInWitness.ofS P h) es with
                   | .ok w => .ok ⟨o, pg, ss, sq, ai, w⟩
                   | .err e => .err e
                   | .panic s => .panic s)
                | .err e => .err e
                | .panic s => .panic s)
             | .err e => .err e
             | .panic s => .panic s)
          | .err e => .err e
          | .panic s => .panic s)
       | .err e => .err e
       | .panic s => .panic s)
    | .err e => .err e
    | .panic s => .panic s
  | _ => .err "invalid type"
def ok (P : Prims) (i : TxIn) : Prop :=
  OutPoint.ok i.previousOutput ∧ i.sequence < 2^32 ∧ AssetIssuance.ok P i.assetIssuance ∧ TxInWitness.ok P i.witness
end TxIn

namespace TxOut
def toS (h : Bool) (o : TxOut) : SVal :=
  .struct "TxOut" [("asset", Asset.toS h o.asset), ("value", Value.toS h o.value), ("nonce", Nonce.toS h o.nonce),
    ("script_pubkey", sScript o.scriptPubkey), ("witness", TxOutWitness.toS h o.witness)]
def ofS (P : Prims) (h : Bool) : SVal → Res TxOut
  | .map es =>
    if !keysOk es then .err "invalid type: field name" else
    match field "asset" (Asset.ofS P h) es with
    | .ok a =>
      (match field "value" (Value.ofS P h) es with
       | .ok v =>
         (match field "nonce" (Nonce.ofS P h) es with
          | .ok n =>
            (match field "script_pubkey" ofScript es with
             | .ok sp =>
               (match field "witness" (TxOutWitness.ofS P h) es with
                | .ok w => .ok ⟨a, v, n, sp, w⟩
                | .err e => .err e
                | .panic s => .panic s)
             | .err e => .err e
             | .panic s => .panic s)
          | .err e => .err e
          | .panic s => .panic s)
       | .err e => .err e
       | .panic s => .panic s)
    | .err e => .err e
    | .panic s => .panic s
  | _ => .err "invalid type"
def ok (P : Prims) (o : TxOut) : Prop :=
  Asset.ok P o.asset ∧ Value.ok P o.value ∧ Nonce.ok P o.nonce ∧ TxOutWitness.ok P o.witness
end TxOut

namespace Tx
def toS (h : Bool) (t : Tx) : SVal :=
  .struct "Transaction" [("version", .num 32 t.version), ("lock_time", sLockTime t.lockTime),
    ("input", .seq (t.input.map (TxIn.toS h))), ("output", .seq (t.output.map (TxOut.toS h)))]
def ofS (P : Prims) (h : Bool) : SVal → Res Tx
  | .map es =>
    if !keysOk es then .err "invalid type: field name" else
    match field "version" (ofNum (2^32)) es with
    | .ok v =>
      (match field "lock_time" ofLockTime es with
       | .ok lt =>
         (match field "input" (ofSeq (TxIn.ofS P h)) es with
          | .ok i =>
            (match field "output" (ofSeq (TxOut.ofS P h)) es with
             | .ok o => .ok ⟨v, lt, i, o⟩
             | .err e => .err e
             | .panic s => .panic s)
          | .err e => .err e
          | .panic s => .panic s)
       | .err e => .err e
       | .panic s => .panic s)
    | .err e => .err e
    | .panic s => .panic s
  | _ => .err "invalid type"
def ok (P : Prims) (t : Tx) : Prop :=
  t.version < 2^32 ∧ t.lockTime < 2^32 ∧ (∀ i ∈ t.input, TxIn.ok P i) ∧ (∀ o ∈ t.output, TxOut.ok P o)
end Tx

/-! ### dynafed parameters (`src/dynafed.rs`) -/

def kElidedRoot : HashKind := ⟨32, true⟩

/-- the private `HexBytes` of `Params::deserialize` (`deserialize_any`): hex string, raw bytes, or an array
    of numbers -/
def ofHexBytes : SVal → Res Bytes
  | .str s => unhex s.toList
  | .bytes b => .ok b
  | .seq l => ofU8s l
  | _ => .err "invalid type"

namespace Params
def toS (h : Bool) : Params → SVal
  | .null => .struct "Params" []
  | .compact s l e =>
    .struct "Params" [("signblockscript", sScript s), ("signblock_witness_limit", .num 32 l),
      ("elided_root", sHash kElidedRoot h e)]
  | .full f =>
    .struct "Params" [("signblockscript", sScript f.signblockscript),
      ("signblock_witness_limit", .num 32 f.signblockWitnessLimit),
      ("fedpeg_program", sHexOrBytes h f.fedpegProgram), ("fedpegscript", sHexOrBytes h f.fedpegscript),
      ("extension_space", .seq (f.extensionSpace.map (sHexOrBytes h)))]
/-- the variant is chosen by which fields are present; anything else is silently `Null` -/
def ofS (h : Bool) : SVal → Res Params
  | .map es =>
    if !keysOk es then .err "invalid type: field name" else
    match fieldOpt "signblockscript" ofScript es with
    | .ok sbs =>
      (match fieldOpt "signblock_witness_limit" (ofNum (2^32)) es with
       | .ok lim =>
         (match fieldOpt "elided_root" (ofHash kElidedRoot h) es with
          | .ok er =>
            (match fieldOpt "fedpeg_program" (ofBtcScript h) es with
             | .ok fp =>
               (match fieldOpt "fedpegscript" ofHexBytes es with
                | .ok fs =>
                  (match fieldOpt "extension_space" (ofSeq ofHexBytes) es with
                   | .ok ext =>
                     (match sbs, lim, er, fp, fs, ext with
                      | .some s, .some l, _, .some fp, .some fs, .some ext => .ok (.full ⟨s, l, fp, fs, ext⟩)
                      | .some s, .some l, .some e, _, _, _ => .ok (.compact s l e)
                      | _, _, _, _, _, _ => .ok .null)
                   | .err e => .err e
                   | .panic s => .panic s)
                | .err e => .err e
                | .panic s => .panic s)
             | .err e => .err e
             | .panic s => .panic s)
          | .err e => .err e
          | .panic s => .panic s)
       | .err e => .err e
       | .panic s => .panic s)
    | .err e => .err e
    | .panic s => .panic s
  | _ => .err "invalid type"
def ok : Params → Prop
  | .null => True
  | .compact _ l e => l < 2^32 ∧ e.length = 32
  | .full f => f.signblockWitnessLimit < 2^32
end Params

/-! ### block header extension data, header, block (`src/block.rs`) -/

namespace ExtData
def toS (h : Bool) : ExtData → SVal
  | .proof c s => .struct "ExtData" [("challenge", sScript c), ("solution", sScript s)]
  | .dynafed c p w =>
    .struct "ExtData" [("current", Params.toS h c), ("proposed", Params.toS h p), ("signblock_witness", sStack w)]
def ofS (h : Bool) : SVal → Res ExtData
  | .map es =>
    if !keysOk es then .err "invalid type: field name" else
    match fieldOpt "challenge" ofScript es with
    | .ok ch =>
      (match fieldOpt "solution" ofScript es with
       | .ok so =>
         (match fieldOpt "current" (Params.ofS h) es with
          | .ok cu =>
            (match fieldOpt "proposed" (Params.ofS h) es with
             | .ok pr =>
               (match fieldOpt "signblock_witness" ofStack es with
                | .ok wi =>
                  (match ch, so with
                   | .some c, .some s => .ok (.proof c s)
                   | _, _ =>
                     match cu, pr, wi with
                     | .some c, .some p, .some w => .ok (.dynafed c p w)
                     | _, _, _ => .err "missing field")
                | .err e => .err e
                | .panic s => .panic s)
             | .err e => .err e
             | .panic s => .panic s)
          | .err e => .err e
          | .panic s => .panic s)
       | .err e => .err e
       | .panic s => .panic s)
    | .err e => .err e
    | .panic s => .panic s
  | _ => .err "invalid type"
def ok : ExtData → Prop
  | .proof _ _ => True
  | .dynafed c p _ => Params.ok c ∧ Params.ok p
end ExtData

def kBlockHash : HashKind := ⟨32, true⟩

namespace BlockHeader
def toS (h : Bool) (b : BlockHeader) : SVal :=
  .struct "BlockHeader" [("version", .num 32 b.version), ("prev_blockhash", sHash kBlockHash h b.prevBlockhash),
    ("merkle_root", sHash kBlockHash h b.merkleRoot), ("time", .num 32 b.time), ("height", .num 32 b.height),
    ("ext", ExtData.toS h b.ext)]
def ofS (h : Bool) : SVal → Res BlockHeader
  | .map es =>
    if !keysOk es then .err "invalid type: field name" else
    match field "version" (ofNum (2^32)) es with
    | .ok v =>
      (match field "prev_blockhash" (ofHash kBlockHash h) es with
       | .ok pb =>
         (match field "merkle_root" (ofHash kBlockHash h) es with
          | .ok mr =>
            (match field "time" (ofNum (2^32)) es with
             | .ok t =>
               (match field "height" (ofNum (2^32)) es with
                | .ok ht =>
                  (match field "ext" (ExtData.ofS h) es with
                   | .ok x => .ok ⟨v, pb, mr, t, ht, x⟩
                   | .err e => .err e
                   | .panic s => .panic s)
                | .err e => .err e
                | .panic s => .panic s)
             | .err e => .err e
             | .panic s => .panic s)
          | .err e => .err e
          | .panic s => .panic s)
       | .err e => .err e
       | .panic s => .panic s)
    | .err e => .err e
    | .panic s => .panic s
  | _ => .err "invalid type"
def ok (b : BlockHeader) : Prop :=
  b.version < 2^32 ∧ b.prevBlockhash.length = 32 ∧ b.merkleRoot.length = 32 ∧ b.time < 2^32 ∧ b.height < 2^32 ∧
  ExtData.ok b.ext
end BlockHeader

namespace Block
def toS (h : Bool) (b : Block) : SVal :=
  .struct "Block" [("header", BlockHeader.toS h b.header), ("txdata", .seq (b.txdata.map (Tx.toS h)))]
def ofS (P : Prims) (h : Bool) : SVal → Res Block
  | .map es =>
    if !keysOk es then .err "invalid type: field name" else
    match field "header" (BlockHeader.ofS h) es with
    | .ok hd =>
      (match field "txdata" (ofSeq (Tx.ofS P h)) es with
       | .ok txs => .ok ⟨hd, txs⟩
       | .err e => .err e
       | .panic s => .panic s)
    | .err e => .err e
    | .panic s => .panic s
  | _ => .err "invalid type"
def ok (P : Prims) (b : Block) : Prop := BlockHeader.ok b.header ∧ ∀ t ∈ b.txdata, Tx.ok P t
end Block

end EV.Serde
