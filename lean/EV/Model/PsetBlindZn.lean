/-
  EV.Model.PsetBlindZn — the scalar type the C09 driver runs the PSET blinding model with:
  naturals modulo the secp256k1 group order, as `Fin n` with the core arithmetic instances.
-/
import EV.Model.Secp
import EV.Model.PsetBlind
namespace EV.PsetBlind

instance : NeZero Secp.n := ⟨by decide⟩
/-- scalars mod the group order -/
abbrev Zn := Fin Secp.n
instance instNatCastZn : NatCast Zn := Fin.NatCast.instNatCast Secp.n

end EV.PsetBlind
