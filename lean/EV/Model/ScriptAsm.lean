/-
  EV.Model.ScriptAsm — the text forms of scripts (src/script.rs): `Script::fmt_asm` / `asm`, `Debug` /
  `Display` / `LowerHex` / `UpperHex for Script`; the remaining constructors `Script::new_op_return`,
  `to_p2sh`, `to_v0_p2wsh` (with `script_hash` / `wscript_hash` as hash parameters); `Builder::from(Vec<u8>)`;
  and the specification vocabulary of the asm theorems (`asmItem`, `asmItems`, `minimalNum`).
  Text is `List Char` (every string written here is ASCII).  Opcode names and classes come from
  `EV.Model.Opcodes`, the literal strings from `EV.Gen` (regenerated from src/script.rs).  Core Lean only.
-/
import EV.Model.Script
import EV.Model.ScriptSpec
import EV.Model.Opcodes
import EV.Model.Text
namespace EV.Script
open EV.Gen

/-! ## `fmt_asm` -/

/-- the opcode text `fmt_asm` writes: `"OP_0"` for `OP_PUSHBYTES_0`, `{:?}` for every other opcode -/
def asmOpcode (b : UInt8) : List Char := if b == opPushbytes0 then asmOp0 else Opcodes.name b

/-- outcome of the `data_len` computation of one loop round -/
inductive DataLen where
  | len (n : Nat) (skip : Nat)   -- `data_len = n`; `index` was advanced over `skip` length bytes
  | unexpectedEnd                 -- `"<unexpected end>"`, `break`
  | badLength                     -- `"<bad length>"`, `break`
  deriving Repr, DecidableEq

/-- the `OP_PUSHDATA1/2/4` arms (`k` = 1, 2, 4; `tl` = `self.0[index..]`): the length test
    `self.0.len() < index + k`, then `read_uint(&self.0[index..], k)` -/
def pushdataLen (tl : Bytes) (k : Nat) : DataLen :=
  if tl.length < k then .unexpectedEnd
  else
    match readUint tl k with
    | .ok n => .len n k
    | _ => .badLength

/-- `let data_len = if let Class::PushBytes(n) = opcode.classify(Legacy) { n } else { match opcode { … } }`;
    `none` = `classify` panicked -/
def dataLen (b : UInt8) (tl : Bytes) : Option DataLen :=
  match Opcodes.classify .legacy b with
  | none => none
  | some (.pushBytes n) => some (.len n 0)
  | some _ =>
    if b == opPushdata1 then some (pushdataLen tl 1)
    else if b == opPushdata2 then some (pushdataLen tl 2)
    else if b == opPushdata4 then some (pushdataLen tl 4)
    else some (.len 0 0)

/-- the `while index < self.0.len()` loop of `fmt_asm`.  State: `index` and `data = self.0[index..]`
    (so `self.0.len() = index + data.length`); `fuel` ≥ number of rounds (each consumes a byte).
    `none` = panic.  The separator is written `if index > 1` *after* the length bytes were skipped, the
    error markers of the `data_len` computation are written before (and instead of) the opcode. -/
def asmLoop : Nat → Nat → Bytes → Option (List Char)
  | 0, _, _ => some []
  | _ + 1, _, [] => some []
  | fuel + 1, index, b :: tl =>
    match dataLen b tl with
    | none => none
    | some .unexpectedEnd => some asmUnexpectedEnd
    | some .badLength => some asmBadLength
    | some (.len n skip) =>
      let index := index + 1 + skip
      let rest := tl.drop skip
      let head := (if index > 1 then [' '] else []) ++ asmOpcode b
      if n > 0 then
        -- `index + data_len <= self.0.len()`
        if n ≤ rest.length then
          (asmLoop fuel (index + n) (rest.drop n)).map fun r => head ++ ' ' :: Text.hexStr (rest.take n) ++ r
        else some (head ++ ' ' :: asmPushPastEnd)
      else (asmLoop fuel index rest).map fun r => head ++ r

/-- `Script::asm` / `Script::fmt_asm` into a `String`; `none` = panic -/
def asm (s : Bytes) : Option (List Char) := asmLoop s.length 0 s

/-- `Debug for Script` and `Display for Script` (which forwards): `Script(<asm>)` -/
def debug (s : Bytes) : Option (List Char) :=
  (asm s).map fun a => scriptDebugOpen ++ a ++ scriptDebugClose

/-- `LowerHex for Script`: `{:02x}` per byte -/
def lowerHex (s : Bytes) : List Char := Text.hexStr s

def digitUpper (n : Nat) : Char := if n < 10 then Char.ofNat (48 + n) else Char.ofNat (55 + n)

/-- `UpperHex for Script`: `{:02X}` per byte -/
def upperHex (s : Bytes) : List Char := s.flatMap fun b => [digitUpper (b.toNat / 16), digitUpper (b.toNat % 16)]

/-! ## constructors that hash the script -/

/-- the two hashes of a script: `Script::script_hash` (`hash160`, 20 bytes) and `Script::wscript_hash`
    (`sha256`, 32 bytes) are parameters; theorems assume only their output lengths -/
structure ScriptHashes where
  hash160 : Bytes → Bytes
  sha256 : Bytes → Bytes

/-- `Script::new_op_return(data)`; `none` = the 4 GiB panic of `push_slice` -/
def newOpReturn (data : Bytes) : Option Bytes := build [.opcode opReturn, .slice data]

/-- `Script::to_p2sh` -/
def toP2sh (H : ScriptHashes) (s : Bytes) : Option Bytes :=
  build [.opcode opHash160, .slice (H.hash160 s), .opcode opEqual]

/-- `Script::to_v0_p2wsh` -/
def toV0P2wsh (H : ScriptHashes) (s : Bytes) : Option Bytes := build [.int 0, .slice (H.sha256 s)]

/-- `impl From<Vec<u8>> for Builder`: the last-opcode memory is the last item of `instructions()` if that
    is `Ok(Instruction::Op(op))` (an error item or a push gives `None`) -/
def Builder.ofBytes (v : Bytes) : Builder :=
  let r := instructions v
  ⟨v, match r.2, r.1.getLast? with
      | none, some (.op c) => some c
      | _, _ => none⟩

/-! ## specification vocabulary -/

/-- the push opcode `push_slice` writes for `n` data bytes (first byte of `pushHeader n`) -/
def pushOpcodeOf (n : Nat) : UInt8 := ((pushHeader n).getD []).headD 0

/-- the asm text of one instruction in the builder's encoding: the opcode text, for a non-empty push
    followed by a space and the data in lower-case hex (no length is printed) -/
def asmItem : Instr → List Char
  | .push d => asmOpcode (pushOpcodeOf d.length) ++ (if d.length > 0 then ' ' :: Text.hexStr d else [])
  | .op c => asmOpcode c

/-- the quirk of the separator rule: a script whose *first* opcode is `OP_PUSHDATA1/2/4` starts with a space -/
def asmLead : List Instr → List Char
  | .push d :: _ => if 76 ≤ d.length then [' '] else []
  | _ => []

/-- the asm text of a canonically encoded instruction list: items separated by single spaces -/
def asmItems (is : List Instr) : List Char := asmLead is ++ [' '].intercalate (is.map asmItem)

/-- minimally encoded script number (what Bitcoin Core's `CScriptNum` requires and `read_scriptint` does
    *not* check): the last byte is not a bare sign byte (`0x00` / `0x80`) unless the byte before it needs
    its top bit -/
def minimalNum (v : Bytes) : Bool :=
  match v.reverse with
  | [] => true
  | [l] => l &&& 0x7f != 0
  | l :: p :: _ => l &&& 0x7f != 0 || p &&& 0x80 != 0

end EV.Script
