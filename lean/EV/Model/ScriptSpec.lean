/-
  EV.Model.ScriptSpec — instruction-level specification the C16 theorems are stated against:
  the canonical (builder) encoding of an instruction list, the instruction sequence a chain of builder
  calls is *expected* to yield (computed on the abstract op list, not on bytes), the guards of the
  theorems, and the byte patterns of the standard templates.
-/
import EV.Model.Script
namespace EV.Script
open EV.Gen

/-! ## canonical encoding of instructions -/

/-- the bytes the builder writes for one instruction: shortest push header + data, or the opcode byte -/
def encInstr : Instr → Bytes
  | .push d => (pushHeader d.length).getD [] ++ d
  | .op c => [c]

def serialize : List Instr → Bytes
  | [] => []
  | i :: rest => encInstr i ++ serialize rest

/-- an instruction the builder can produce so that it reads back as itself: pushes below 4 GiB,
    opcodes that are not push opcodes (bytes 0x01..0x4e read their operand from the script) -/
def Instr.wf : Instr → Prop
  | .push d => d.length < 2 ^ 32
  | .op c => opPushdata4 < c

/-- not a one-byte push of 0x01..0x10 or 0x81 (which BIP62 wants as OP_1..OP_16 / OP_1NEGATE) -/
def Instr.bip62 : Instr → Prop
  | .push d => ∀ b, d = [b] → smallNumByte b = false
  | .op _ => True

/-! ## expected instruction sequence of a chain of builder calls -/

/-- what `push_opcode(c)` adds, seen through the iterator: byte 0 is the empty push -/
def instrOfOpcode (c : UInt8) : Instr := if c = opPushbytes0 then .push [] else .op c

/-- abstract builder state: the instructions added so far and the remembered last opcode -/
structure Abs where
  instrs : List Instr
  last : Option UInt8
  deriving Repr, DecidableEq

namespace Abs
def pushOpcode (a : Abs) (c : UInt8) : Abs := ⟨a.instrs ++ [instrOfOpcode c], some c⟩
def pushData (a : Abs) (d : Bytes) : Abs := ⟨a.instrs ++ [.push d], none⟩

/-- one builder call on the instruction level.  `verify`: if the last call was `push_opcode(c)` (not a
    data push, not `push_int`) with a foldable `c`, that instruction is *replaced* by its VERIFY form,
    otherwise `OP_VERIFY` is added. -/
def step (a : Abs) : BOp → Abs
  | .int n =>
    if n = -1 ∨ (1 ≤ n ∧ n ≤ 16) then a.pushOpcode (Builder.smallIntOpcode n)
    else if n = 0 then a.pushOpcode opPushbytes0
    else a.pushData (buildScriptInt n)
  | .scriptInt n => a.pushData (buildScriptInt n)
  | .slice d => a.pushData d
  | .opcode c => a.pushOpcode c
  | .verify =>
    match a.last.bind Builder.verifyForm with
    | some v => ⟨a.instrs.dropLast ++ [.op v], some v⟩
    | none => a.pushOpcode opVerify

def run (a : Abs) (ops : List BOp) : Abs := ops.foldl step a
end Abs

/-- the instruction sequence "that was added" by the calls `ops` on a fresh builder -/
def expected (ops : List BOp) : List Instr := (Abs.run ⟨[], none⟩ ops).instrs

/-- the instruction a single non-`verify` call adds -/
def instrOf : BOp → Instr
  | .int n =>
    if n = -1 ∨ (1 ≤ n ∧ n ≤ 16) then .op (Builder.smallIntOpcode n)
    else if n = 0 then .push []
    else .push (buildScriptInt n)
  | .scriptInt n => .push (buildScriptInt n)
  | .slice d => .push d
  | .opcode c => instrOfOpcode c
  | .verify => .op opVerify

/-- guard of `instructions_build`: arguments for which the call does not panic and (for `push_opcode`)
    the byte is not a push opcode with an operand -/
def BOp.wf : BOp → Prop
  | .int n => i64Min < n ∧ n < 2 ^ 63
  | .scriptInt n => i64Min < n ∧ n < 2 ^ 63
  | .slice d => d.length < 2 ^ 32
  | .opcode c => c = opPushbytes0 ∨ opPushdata4 < c
  | .verify => True

/-- the calls that are length-minimal but not BIP62-minimal (documented in the API):
    `push_slice(&[b])` with `b` in 1..16 or 0x81, `push_scriptint` of −1, 1..16 -/
def BOp.smallIntPush : BOp → Prop
  | .slice d => ∃ b, d = [b] ∧ smallNumByte b = true
  | .scriptInt n => n = -1 ∨ (1 ≤ n ∧ n ≤ 16)
  | _ => False

/-! ## template byte patterns -/

def p2pkhScript (h : Bytes) : Bytes := [opDup, opHash160, opPushbytes20] ++ h ++ [opEqualverify, opChecksig]
def p2shScript (h : Bytes) : Bytes := [opHash160, opPushbytes20] ++ h ++ [opEqual]
/-- `<version opcode> <push of the program>` for programs of at most 75 bytes -/
def witnessScript (verOp : UInt8) (prog : Bytes) : Bytes := [verOp, UInt8.ofNat prog.length] ++ prog

/-- version opcode of a witness version: 0 ↦ OP_0, 1..16 ↦ OP_1..OP_16 -/
def versionOpcode (v : Nat) : UInt8 := if v = 0 then opPushbytes0 else UInt8.ofNat (opPushnum1.toNat - 1 + v)

/-- payloads `Address::from_script` can return: 20-byte hashes, v0 programs of 20/32 bytes,
    v1..v16 programs of 2..40 bytes -/
def Payload.standard : Payload → Prop
  | .pubkeyHash h => h.length = 20
  | .scriptHash h => h.length = 20
  | .witnessProgram v p => (v = 0 ∧ (p.length = 20 ∨ p.length = 32)) ∨ (1 ≤ v ∧ v ≤ 16 ∧ 2 ≤ p.length ∧ p.length ≤ 40)

/-- the script of a standard payload, as a byte pattern -/
def Payload.pattern : Payload → Bytes
  | .pubkeyHash h => p2pkhScript h
  | .scriptHash h => p2shScript h
  | .witnessProgram v p => witnessScript (versionOpcode v) p

end EV.Script
