/-
  EV.Model.Address — `/repo/src/address.rs`: `Address` display (`impl Display`), `from_str`,
  `parse_with_params`, `from_bech32`, `from_base58`, `find_prefix`, `match_prefix`, for the three
  networks of `EV.Gen` (human-readable parts and prefix bytes re-extracted from the source).
  Hash (SHA-256d of base58check) and the secp256k1 public-key parser are parameters.
  A blinding key is represented by its 33-byte compressed serialization.
-/
import EV.Model.Base58
namespace EV.Addr
open EV.Bech32 EV.Base58

structure Prims where
  sha256d : List Nat → List Nat
  /-- `secp256k1_zkp::PublicKey::from_slice` succeeds on these 33 bytes -/
  validPk : List Nat → Bool

inductive Payload where
  | pkh (h : List Nat)
  | sh (h : List Nat)
  | wit (ver : Nat) (prog : List Nat)
  deriving Repr, DecidableEq

structure Address where
  params : Gen.AddrParamsB
  payload : Payload
  blinder : Option (List Nat)
  deriving Repr, DecidableEq

/-- `impl Display for Address` -/
def display (P : Prims) (a : Address) : Text :=
  match a.payload with
  | .pkh h =>
    match a.blinder with
    | some pk => encodeCheck P.sha256d (a.params.blinded :: a.params.p2pkh :: (pk ++ h))
    | none => encodeCheck P.sha256d (a.params.p2pkh :: h)
  | .sh h =>
    match a.blinder with
    | some pk => encodeCheck P.sha256d (a.params.blinded :: a.params.p2sh :: (pk ++ h))
    | none => encodeCheck P.sha256d (a.params.p2sh :: h)
  | .wit ver prog =>
    match a.blinder with
    | some pk => Bech32.encode (blechFlavor.variant ver) a.params.blechHrp ver (bytesToFes (pk ++ prog))
    | none => Bech32.encode (crateFlavor.variant ver) a.params.bechHrp ver (bytesToFes prog)

/-- `find_prefix`: everything before the last '1' (the whole string if there is none) -/
def findPrefix (s : Text) : Text :=
  match splitLast s with
  | some (h, _) => h
  | none => s

/-- `match_prefix`: same length and equal up to ASCII case -/
def matchPrefix (pre hrp : Text) : Bool := hrp.length == pre.length && lower hrp == lower pre

/-- `Address::from_bech32` -/
def fromBech32 (P : Prims) (s : Text) (blinded : Bool) (params : Gen.AddrParamsB) : Res Address :=
  match segwitNew (if blinded then blechFlavor else crateFlavor) s with
  | .err k => .err k
  | .panic site => .panic site
  | .ok seg =>
    let data := seg.bytes
    if blinded then
      if data.length < 33 then .err "InvalidSegwitV0Encoding" else
      let pk := data.take 33
      if !P.validPk pk then .err "InvalidBlindingPubKey" else
      .ok { params := params, payload := .wit seg.version (data.drop 33), blinder := some pk }
    else .ok { params := params, payload := .wit seg.version data, blinder := none }

/-- `Address::from_base58` -/
def fromBase58 (P : Prims) (data : List Nat) (params : Gen.AddrParamsB) : Res Address :=
  match data with
  | [] => .err "InvalidLength"
  | b0 :: rest =>
    if b0 = params.blinded then
      match rest with
      | [] => .err "InvalidLength"
      | pre :: pkh =>
        if pkh.length ≠ 53 then .err "InvalidLength" else
        let pk := pkh.take 33
        let hash := pkh.drop 33
        if !P.validPk pk then .err "InvalidBlindingPubKey" else
        if pre = params.p2pkh then .ok { params := params, payload := .pkh hash, blinder := some pk }
        else if pre = params.p2sh then .ok { params := params, payload := .sh hash, blinder := some pk }
        else .err "InvalidAddressVersion"
    else
      if rest.length ≠ 20 then .err "InvalidLength" else
      if b0 = params.p2pkh then .ok { params := params, payload := .pkh rest, blinder := none }
      else if b0 = params.p2sh then .ok { params := params, payload := .sh rest, blinder := none }
      else .err "InvalidAddressVersion"

/-- `Address::parse_with_params` -/
def parseWithParams (P : Prims) (s : Text) (params : Gen.AddrParamsB) : Res Address :=
  let pre := findPrefix s
  let b32ex := matchPrefix pre params.bechHrp
  let b32bl := matchPrefix pre params.blechHrp
  if b32ex || b32bl then fromBech32 P s b32bl params else
  if s.length > 150 then .err "InvalidLength" else
  match decodeCheck P.sha256d s with
  | none => .err "Base58"
  | some data => fromBase58 P data params

/-- the bech32 dispatch loop of `from_str` over the networks in order -/
def dispatchBech (P : Prims) (s pre : Text) : List Gen.AddrParamsB → Option (Res Address)
  | [] => none
  | net :: nets =>
    if matchPrefix pre net.bechHrp then some (fromBech32 P s false net)
    else if matchPrefix pre net.blechHrp then some (fromBech32 P s true net)
    else dispatchBech P s pre nets

/-- the base58 dispatch loop of `from_str` on the first payload byte -/
def dispatchBase58 (P : Prims) (data : List Nat) (p : Nat) : List Gen.AddrParamsB → Res Address
  | [] => .err "InvalidAddress"
  | net :: nets =>
    if p = net.p2pkh || p = net.p2sh || p = net.blinded then fromBase58 P data net
    else dispatchBase58 P data p nets

/-- `impl FromStr for Address` -/
def fromStr (P : Prims) (s : Text) : Res Address :=
  match dispatchBech P s (findPrefix s) Gen.fromStrOrder with
  | some r => r
  | none =>
    if s.length > 150 then .err "InvalidLength" else
    match decodeCheck P.sha256d s with
    | none => .err "Base58"
    | some data =>
      match data with
      | [] => .err "InvalidLength"
      | p :: _ => dispatchBase58 P data p Gen.fromStrOrder

end EV.Addr
