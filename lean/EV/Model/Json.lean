/-
  EV.Model.Json — what `ContractHash::from_json_contract` (src/issuance.rs) hashes.

  The Rust code parses the text with serde_json into a
  `BTreeMap<String, serde_json::Value>` and prints it again with `to_writer`.
  serde_json is built without `preserve_order` / `arbitrary_precision` (checked with
  `cargo tree -e features`), so every object — the top level one and every nested
  `Value::Object` — is a `BTreeMap<String, _>`: members are inserted one by one in
  document order (`map.insert(k, v)`: a later duplicate replaces the earlier value)
  and iterated in the byte order of the UTF-8 keys.

  `Json` is the parse tree in *document order* (duplicates kept); `norm` is that
  insertion; `print` is serde_json's compact printer (`CompactFormatter`).
  Strings and keys are their UTF-8 bytes — serde_json's escaping is byte-wise and
  `String`'s `Ord` is the byte order — so no Unicode library is involved.
  Numbers are kept as the text serde_json prints for them (for integers that fit
  `u64`/`i64` this is the input text; the driver's parser refuses the rest).
-/
import EV.Model.Bytes
namespace EV

inductive Json where
  | null
  | bool (b : Bool)
  | num (text : Bytes)
  | str (s : Bytes)
  | arr (l : List Json)
  | obj (l : List (Bytes × Json))

namespace Json

/-- byte-wise lexicographic `<` (`impl Ord for str`) -/
def blt : Bytes → Bytes → Bool
  | [], [] => false
  | [], _ :: _ => true
  | _ :: _, [] => false
  | a :: as, b :: bs => if a < b then true else if a = b then blt as bs else false

/-- `BTreeMap::insert` on the sorted association list: replace on an equal key -/
def insertKV {α : Type} (k : Bytes) (v : α) : List (Bytes × α) → List (Bytes × α)
  | [] => [(k, v)]
  | (k', v') :: t =>
    if blt k k' then (k, v) :: (k', v') :: t
    else if k = k' then (k, v) :: t
    else (k', v') :: insertKV k v t

/-- collect the members of an object, in document order, into the ordered map -/
def buildMap {α : Type} (l : List (Bytes × α)) : List (Bytes × α) :=
  l.foldl (fun acc kv => insertKV kv.1 kv.2 acc) []

mutual
/-- deserialization into `BTreeMap<String, Value>` / `Value`: every object becomes an ordered map -/
def norm : Json → Json
  | .null => .null
  | .bool b => .bool b
  | .num t => .num t
  | .str s => .str s
  | .arr l => .arr (normList l)
  | .obj l => .obj (buildMap (normMembers l))
def normList : List Json → List Json
  | [] => []
  | v :: t => norm v :: normList t
def normMembers : List (Bytes × Json) → List (Bytes × Json)
  | [] => []
  | (k, v) :: t => (k, norm v) :: normMembers t
end

def hexDigit (n : Nat) : UInt8 := if n < 10 then UInt8.ofNat (48 + n) else UInt8.ofNat (87 + n)

/-- serde_json `format_escaped_str_contents`, one byte at a time (table `ESCAPE`) -/
def escByte (b : UInt8) : Bytes :=
  if b = 0x22 then [0x5c, 0x22]
  else if b = 0x5c then [0x5c, 0x5c]
  else if b = 0x08 then [0x5c, 0x62]
  else if b = 0x0c then [0x5c, 0x66]
  else if b = 0x0a then [0x5c, 0x6e]
  else if b = 0x0d then [0x5c, 0x72]
  else if b = 0x09 then [0x5c, 0x74]
  else if b < 0x20 then [0x5c, 0x75, 0x30, 0x30, hexDigit (b.toNat / 16), hexDigit (b.toNat % 16)]
  else [b]

def printStr (s : Bytes) : Bytes := 0x22 :: (s.flatMap escByte ++ [0x22])

mutual
/-- `serde_json::to_writer` (compact) -/
def print : Json → Bytes
  | .null => [0x6e, 0x75, 0x6c, 0x6c]
  | .bool true => [0x74, 0x72, 0x75, 0x65]
  | .bool false => [0x66, 0x61, 0x6c, 0x73, 0x65]
  | .num t => t
  | .str s => printStr s
  | .arr l => 0x5b :: (printList true l ++ [0x5d])
  | .obj l => 0x7b :: (printMembers true l ++ [0x7d])
/-- elements separated by `,` (`first` = no separator before the next element) -/
def printList : Bool → List Json → Bytes
  | _, [] => []
  | first, v :: t => (if first then [] else [0x2c]) ++ print v ++ printList false t
def printMembers : Bool → List (Bytes × Json) → Bytes
  | _, [] => []
  | first, (k, v) :: t => (if first then [] else [0x2c]) ++ printStr k ++ [0x3a] ++ print v ++ printMembers false t
end

/-- the canonical text that is hashed -/
def canon (v : Json) : Bytes := print (norm v)

/-- `ContractHash::from_json_contract` on a parsed document: the top level must be an object
    (`none` = `Err`); `sha256` is a parameter -/
def contractHash (sha256 : Bytes → Bytes) : Json → Option Bytes
  | .obj l => some (sha256 (canon (.obj l)))
  | _ => none

end Json
end EV
