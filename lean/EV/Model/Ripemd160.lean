/-
  EV.Model.Ripemd160 — executable RIPEMD-160 (for the `ripemd160` / `hash160` preimage maps of a PSET
  input).  Theorems never unfold this: hashes are parameters in all property statements.  Used by the
  driver only; tied to `bitcoin_hashes::ripemd160` by the correspondence op `hash.rmd160`.
-/
import EV.Model.Bytes
namespace EV.Ripemd160

def rl : Array Nat := #[
  0,1,2,3,4,5,6,7,8,9,10,11,12,13,14,15,
  7,4,13,1,10,6,15,3,12,0,9,5,2,14,11,8,
  3,10,14,4,9,15,8,1,2,7,0,6,13,11,5,12,
  1,9,11,10,0,8,12,4,13,3,7,15,14,5,6,2,
  4,0,5,9,7,12,2,10,14,1,3,8,11,6,15,13]

def rr : Array Nat := #[
  5,14,7,0,9,2,11,4,13,6,15,8,1,10,3,12,
  6,11,3,7,0,13,5,10,14,15,8,12,4,9,1,2,
  15,5,1,3,7,14,6,9,11,8,12,2,10,0,4,13,
  8,6,4,1,3,11,15,0,5,12,2,13,9,7,10,14,
  12,15,10,4,1,5,8,7,6,2,13,14,0,3,9,11]

def sl : Array UInt32 := #[
  11,14,15,12,5,8,7,9,11,13,14,15,6,7,9,8,
  7,6,8,13,11,9,7,15,7,12,15,9,11,7,13,12,
  11,13,6,7,14,9,13,15,14,8,13,6,5,12,7,5,
  11,12,14,15,14,15,9,8,9,14,5,6,8,6,5,12,
  9,15,5,11,6,8,13,12,5,12,13,14,11,8,5,6]

def sr : Array UInt32 := #[
  8,9,9,11,13,15,15,5,7,7,8,11,14,14,12,6,
  9,13,15,7,12,8,9,11,7,7,12,7,6,15,13,11,
  9,7,15,11,8,6,6,14,12,13,5,14,13,13,7,5,
  15,5,8,11,14,14,6,14,6,9,12,9,12,5,15,8,
  8,5,12,9,12,5,14,6,8,13,6,5,15,13,11,11]

def kl : Array UInt32 := #[0x00000000, 0x5A827999, 0x6ED9EBA1, 0x8F1BBCDC, 0xA953FD4E]
def kr : Array UInt32 := #[0x50A28BE6, 0x5C4DD124, 0x6D703EF3, 0x7A6D76E9, 0x00000000]

@[inline] def rol (x : UInt32) (n : UInt32) : UInt32 := (x <<< n) ||| (x >>> (32 - n))

def f (j : Nat) (x y z : UInt32) : UInt32 :=
  if j < 16 then x ^^^ y ^^^ z
  else if j < 32 then (x &&& y) ||| ((~~~ x) &&& z)
  else if j < 48 then (x ||| (~~~ y)) ^^^ z
  else if j < 64 then (x &&& z) ||| (y &&& (~~~ z))
  else x ^^^ (y ||| (~~~ z))

def compress (h : Array UInt32) (blk : Array UInt8) (off : Nat) : Array UInt32 := Id.run do
  let mut x : Array UInt32 := Array.replicate 16 0
  for i in [0:16] do
    let b0 := (blk[off + 4*i]!).toUInt32
    let b1 := (blk[off + 4*i+1]!).toUInt32
    let b2 := (blk[off + 4*i+2]!).toUInt32
    let b3 := (blk[off + 4*i+3]!).toUInt32
    x := x.set! i (b0 ||| (b1 <<< 8) ||| (b2 <<< 16) ||| (b3 <<< 24))
  let mut a := h[0]!
  let mut b := h[1]!
  let mut c := h[2]!
  let mut d := h[3]!
  let mut e := h[4]!
  let mut a' := h[0]!
  let mut b' := h[1]!
  let mut c' := h[2]!
  let mut d' := h[3]!
  let mut e' := h[4]!
  for j in [0:80] do
    let t := rol (a + f j b c d + x[rl[j]!]! + kl[j / 16]!) sl[j]! + e
    a := e; e := d; d := rol c 10; c := b; b := t
    let t' := rol (a' + f (79 - j) b' c' d' + x[rr[j]!]! + kr[j / 16]!) sr[j]! + e'
    a' := e'; e' := d'; d' := rol c' 10; c' := b'; b' := t'
  let t := h[1]! + c + d'
  return #[t, h[2]! + d + e', h[3]! + e + a', h[4]! + a + b', h[0]! + b + c']

def stateBytes (st : Array UInt32) : Bytes :=
  st.toList.flatMap fun (w : UInt32) =>
    [w.toUInt8, (w >>> 8).toUInt8, (w >>> 16).toUInt8, (w >>> 24).toUInt8]

def pad (len : Nat) : List UInt8 :=
  let zeros := (119 - len % 64) % 64
  (0x80 : UInt8) :: (List.replicate zeros 0 ++ leBytes 8 (len * 8))

def ripemd160 (msg : Bytes) : Bytes := Id.run do
  let arr : Array UInt8 := (msg ++ pad msg.length).toArray
  let mut st : Array UInt32 := #[0x67452301, 0xEFCDAB89, 0x98BADCFE, 0x10325476, 0xC3D2E1F0]
  for i in [0:arr.size / 64] do
    st := compress st arr (64*i)
  return stateBytes st

end EV.Ripemd160
