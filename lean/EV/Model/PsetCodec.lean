/-
  EV.Model.PsetCodec — the value and key codecs of the PSET fields (src/pset/serialize.rs, the
  `Deserialize` / `Serialize` pairs) as `Field.normVal` / `Field.validKey` functions, and the `Ord`
  of the `BTreeMap` key types on their serializations (`Field.keyLt`).

  A codec is `Bytes → Option Bytes`: wire value bytes ↦ the canonical value bytes (= what
  `Serialize::serialize` returns for the deserialized value).  Almost all of them accept only
  canonical bytes (`norm b = some b`); the exceptions, as coded:
    * `SchnorrSig`: 65 bytes whose last byte is 0x00 (`SchnorrSighashType::Default`) are accepted and
      serialized as the 64 signature bytes;
    * the global input/output counts: `VarInt::consensus_decode` on the value slice without the
      "consumed entirely" check — trailing bytes after the compact size are ignored.
  Validity that lives in a dependency is a parameter (`WirePrims`): libsecp parse predicates
  (`Prims`, x-only keys, uncompressed keys), `bitcoin::Transaction` (pegin_tx), the four preimage
  hashes.  The driver instantiates them with executable re-implementations (EV.Driver.C07).
-/
import EV.Model.PsetWire
import EV.Model.Pset
import EV.Model.Taproot
namespace EV.PsetWire
open EV EV.Codec

structure WirePrims where
  /-- commitments, generators, compressed keys, tweaks, range / surjection proofs, `size_of` facts -/
  P : Prims
  /-- `XOnlyPublicKey::from_slice` on 32 bytes -/
  xonly : Bytes → Bool
  /-- `secp256k1::PublicKey::from_slice` on 65 bytes starting with 0x04 -/
  pubkey65 : Bytes → Bool
  /-- `bitcoin::consensus::deserialize::<bitcoin::Transaction>` acceptance; that the accepted bytes
      re-serialize to themselves is tied by the correspondence check only -/
  btcTx : Bytes → Bool
  ripemd160 : Bytes → Bytes
  sha256 : Bytes → Bytes
  hash160 : Bytes → Bytes
  hash256 : Bytes → Bytes
  /-- tagged hashes for the taproot builder run by the tap-tree codec (acceptance and the
      re-serialization do not depend on them) -/
  tap : Taproot.TapHashes

/-- the `EC` record for `ControlBlock.decode` (only `xonlyOk` is consulted) -/
def WirePrims.ec (W : WirePrims) : Taproot.EC :=
  { xonlyOk := W.xonly, scalarOk := fun _ => false, tweakAdd := fun _ _ => none, tweakAddCheck := fun _ _ _ _ => false }

abbrev VCodec := Bytes → Bytes → Option Bytes

/-- accept exactly the values satisfying `p`, unchanged -/
def accept (p : Bytes → Bool) : VCodec := fun _ v => if p v then some v else none

def cAny : VCodec := accept (fun _ => true)
def cLen (n : Nat) : VCodec := accept (fun v => v.length == n)
/-- `locktime::Height` -/
def cHeight : VCodec := accept (fun v => v.length == 4 && decide (leNat v < Gen.lockTimeThreshold))
/-- `locktime::Time` -/
def cTime : VCodec := accept (fun v => v.length == 4 && decide (Gen.lockTimeThreshold ≤ leNat v))

/-- `bitcoin::PublicKey::from_slice`: 33 bytes compressed, or 65 bytes with prefix 0x04 -/
def pkOk (W : WirePrims) (v : Bytes) : Bool :=
  (v.length == 33 && W.P.pubkey v) || (v.length == 65 && v.head? == some 4 && W.pubkey65 v)
def xonlyOk (W : WirePrims) (v : Bytes) : Bool := v.length == 32 && W.xonly v

/-- `KeySource`: 4-byte fingerprint and a whole number of `u32`s -/
def keySourceOk (v : Bytes) : Bool := decide (4 ≤ v.length) && (v.length - 4) % 4 == 0

def stackOk (v : Bytes) : Bool :=
  match bytesVecVec v with
  | .ok (_, []) => true
  | _ => false

def txOk (W : WirePrims) (v : Bytes) : Bool :=
  match Tx.deserialize W.P v with
  | .ok _ => true
  | _ => false

def txOutOk (W : WirePrims) (v : Bytes) : Bool :=
  match TxOut.dec W.P v with
  | .ok (_, []) => true
  | _ => false

/-- `SchnorrSig`: 64 bytes, or 65 with a `SchnorrSighashType::from_u8` byte; `to_vec` drops a 0x00 -/
def schnorrNorm : VCodec := fun _ v =>
  if v.length = 64 then some v
  else if v.length = 65 then
    let h := (v.getD 64 0).toNat
    if Gen.c10SchnorrSighashBytes.contains h then (if h = 0 then some (v.take 64) else some v) else none
  else none

/-- `(XOnlyPublicKey, TapLeafHash)` -/
def tapSigKeyOk (W : WirePrims) (k : Bytes) : Bool := k.length == 64 && W.xonly (k.take 32)

def controlBlockOk (W : WirePrims) (k : Bytes) : Bool :=
  match Taproot.ControlBlock.decode W.ec k with
  | .ok _ => true
  | _ => false

/-- `(Script, LeafVersion)`: script bytes then one version byte -/
def scriptVerOk (v : Bytes) : Bool :=
  match v.getLast? with
  | some b => Taproot.leafVersionOk b
  | none => false

/-- `(Vec<TapLeafHash>, KeySource)` -/
def tapOriginOk (v : Bytes) : Bool :=
  match vecOf 32 (take 32) v with
  | .ok (_, rest) => keySourceOk rest
  | _ => false

def commitmentOk (W : WirePrims) (v : Bytes) : Bool := v.length == 33 && W.P.commitment v
def generatorOk (W : WirePrims) (v : Bytes) : Bool := v.length == 33 && W.P.generator v
def tweakOk (W : WirePrims) (v : Bytes) : Bool := v.length == 32 && W.P.tweak v

/-- a hash-preimage map entry: the key must be the hash of the value (`pset_insert_hash_pair`) -/
def cPreimage (h : Bytes → Bytes) : VCodec := fun k v => if h v = k then some v else none

/-- `VarInt::consensus_decode(bytes)` then `VarInt::serialize` -/
def countNorm : VCodec := fun _ v =>
  match varint v with
  | .ok (n, _) => some (encVarint n)
  | _ => none

/-- scalars carry their data in the key; the value must be empty -/
def cEmpty : VCodec := accept (fun v => v.isEmpty)

/-! ### tap tree -/

/-- the `while let Some(depth) = bytes_iter.next()` loop: depth byte, version byte, script -/
def parseTapItems : Nat → Bytes → Option (List (Nat × Taproot.Item))
  | _, [] => some []
  | 0, _ :: _ => none
  | fuel + 1, d :: ver :: rest =>
    match bytesVec rest with
    | .ok (script, r) =>
      if Taproot.leafVersionOk ver then (parseTapItems fuel r).map ((d.toNat, Taproot.Item.leaf script ver) :: ·) else none
    | _ => none
  | _ + 1, [_] => none

/-- `impl Serialize for TapTree`: for every leaf of the root node, in stored order -/
def serTapLeaves (ls : List Taproot.LeafInfo) : Bytes :=
  ls.flatMap (fun l => UInt8.ofNat l.branch.length :: l.ver :: encBytesVec l.script)

def tapTreeNorm (W : WirePrims) : VCodec := fun _ v =>
  match parseTapItems v.length v with
  | some items =>
    match Taproot.addAll W.tap [] items with
    | .ok [some n] => some (serTapLeaves n.leaves)
    | _ => none
  | none => none

/-! ### xpub -/

/-- `VERSION_BYTES_MAINNET_PUBLIC` / `VERSION_BYTES_TESTNETS_PUBLIC` of the bitcoin crate -/
def xpubMain : Bytes := [0x04, 0x88, 0xB2, 0x1E]
def xpubTest : Bytes := [0x04, 0x35, 0x87, 0xCF]

/-- `Xpub::decode`: 78 bytes, known version, valid compressed key in the last 33 bytes -/
def xpubOk (W : WirePrims) (k : Bytes) : Bool :=
  k.length == 78 && (k.take 4 == xpubMain || k.take 4 == xpubTest) && W.P.pubkey (k.drop 45)

/-! ### `Ord` of the key types -/

/-- `bitcoin::PublicKey` derives `Ord` on `(compressed, inner)`: uncompressed keys first, then by the
    compressed serialization (`secp256k1_ec_pubkey_cmp`) -/
def pkSortKey (b : Bytes) : Bytes := (if b.length = 65 then 0 else 1) :: compressPk b
def pkLt (a b : Bytes) : Bool := bytesLt (pkSortKey a) (pkSortKey b)

/-- `Xpub` derives `Ord` on (network, depth, parent fingerprint, child number, public key, chain code);
    serialization: version(4) depth(1) fingerprint(4) child(4, big endian) chain code(32) key(33) -/
def xpubSortKey (b : Bytes) : Bytes :=
  (if b.take 4 == xpubMain then 0 else 1) :: ((b.drop 4).take 9 ++ b.drop 45 ++ (b.drop 13).take 32)
def xpubLt (a b : Bytes) : Bool := bytesLt (xpubSortKey a) (xpubSortKey b)

/-- `ProprietaryKey` derives `Ord` on (prefix, subtype, key) -/
def propKeyLt (a b : Bytes) : Bool :=
  match decPropKey a, decPropKey b with
  | some (p1, s1, k1), some (p2, s2, k2) =>
    bytesLt p1 p2 || (p1 == p2 && (decide (s1.toNat < s2.toNat) || (s1 == s2 && bytesLt k1 k2)))
  | _, _ => bytesLt a b

/-! ### field constructors used by the generated tables -/

def u8n (n : Nat) : UInt8 := UInt8.ofNat n

def fOpt (name : String) (tag : Tag) (c : VCodec) : Field :=
  { name := name, tag := tag, kind := .opt, validKey := fun k => k.isEmpty, normVal := c, keyLt := bytesLt }
def fOptLast (name : String) (tag : Tag) (c : VCodec) : Field :=
  { name := name, tag := tag, kind := .optLast, validKey := fun k => k.isEmpty, normVal := c, keyLt := bytesLt }
def fMap (name : String) (tag : Tag) (vk : Bytes → Bool) (c : VCodec) (lt : Bytes → Bytes → Bool) : Field :=
  { name := name, tag := tag, kind := .map, validKey := vk, normVal := c, keyLt := lt }
def fKeyList (name : String) (tag : Tag) (vk : Bytes → Bool) : Field :=
  { name := name, tag := tag, kind := .keyList, validKey := vk, normVal := cEmpty, keyLt := bytesLt }

end EV.PsetWire
