/-
  EV.Model.Blind — transaction blinding and confidential amount verification as coded in
  src/blind.rs (`Transaction::blind`, `TxOut::{with_txout_secrets, with_secrets_last, unblind,
  get_asset_gen, get_value_commit}`, `Transaction::verify_tx_amt_proofs`,
  `BlindValueProofs::blind_value_proof_verify`) and src/confidential.rs (`ValueBlindingFactor::{last,
  add_assign, neg}`), plus the script predicates of src/script.rs / src/transaction.rs they use.

  Core Lean only.  Everything is generic over
    `A`  asset ids            `R`  scalars (integers mod the group order; the driver uses `ZN`)
    `P`  curve points (generators, Pedersen commitments, public keys)
    `K`  ECDH shared secrets  `RP`/`SP` range / surjection proofs
  and the EC primitives are records of functions (`BPrims` for the blinder, `VPrims` for the
  verifier): theorems instantiate them with a module over a commutative ring, the driver with
  oracles that replay the answers the real secp256k1-zkp gave.

  Scope notes (as coded, 2026-09):
  * `blind` models `Transaction::blind(.., blind_issuances = false)` (with `true` and no issuance on
    any input the code path is identical).
  * `PedersenCommitment::new` asserts that the commitment is not the point at infinity; the code
    never calls it with value 0 (explicit zeros are refused or skipped before), so in the generic
    case (nobody knows the discrete log of an asset generator) the assertion is unreachable.
  * `Address::from_script(..).script_pubkey()` is taken to return the script it was built from
    (round trip of the five standard templates, property C16).
-/
import EV.Model.Bytes
import EV.Gen.Consts
namespace EV.Blind
open EV

/-! ## scalars -/

/-- `TxOutSecrets`: the opening of an (asset, value) commitment pair -/
structure Secrets (A R : Type) where
  asset : A
  value : Nat
  abf : R
  vbf : R
  deriving Repr, DecidableEq

section scalar
variable {A R : Type} [Add R] [Mul R] [Neg R] [Zero R] [NatCast R]

/-- `v·abf + vbf`: the coefficient of `G` in `v•(tag + abf•G) + vbf•G` -/
def term (s : Secrets A R) : R := (s.value : R) * s.abf + s.vbf

def sumTerms (l : List (Secrets A R)) : R := (l.map term).sum

/-- one round of the loop of `secp256k1_pedersen_blind_generator_blind_sum`:
    `sum += (i < n_inputs) ? -(v·r + r') : (v·r + r')` -/
def blindSumStep (negate : Bool) (acc : R) (s : Secrets A R) : R :=
  acc + (if negate then - term s else term s)

/-- `ValueBlindingFactor::last` = `compute_adaptive_blinding_factor(value, abf, set_a = inputs,
    set_b = outputs)`: the C loop runs over `set_a ++ set_b ++ [(value, abf, placeholder 0)]`,
    negating the first `|set_a|` addends, and returns `placeholder + (-sum)`. -/
def lastVbf (value : Nat) (abf : R) (ins outs : List (Secrets A R)) : R :=
  let s1 := ins.foldl (blindSumStep true) (0 : R)
  let s2 := outs.foldl (blindSumStep false) s1
  let s3 := s2 + ((value : R) * abf + 0)
  0 + (- s3)

/-- `Σ_in term − Σ_out term` as the driver reports it -/
def balance (ins outs : List (Secrets A R)) : R := sumTerms ins + (- sumTerms outs)

/-- `ValueBlindingFactor += other` as coded (zero short-cuts, secret-key tweak addition, zero on
    the failing sum) -/
def vbfAdd [DecidableEq R] (a b : R) : R :=
  if a = 0 then b else if b = 0 then a else a + b

/-- `-ValueBlindingFactor` as coded -/
def vbfNeg [DecidableEq R] (a : R) : R := if a = 0 then a else - a
end scalar

/-! ## transaction pieces -/

inductive CAsset (A P : Type) where
  | null
  | explicit (a : A)
  | conf (g : P)
  deriving Repr, DecidableEq

inductive CValue (P : Type) where
  | null
  | explicit (v : Nat)
  | conf (c : P)
  deriving Repr, DecidableEq

/-- the payload of an explicit nonce is irrelevant here -/
inductive CNonce (P : Type) where
  | null
  | explicit
  | conf (pk : P)
  deriving Repr, DecidableEq

def CAsset.isExplicit {A P} : CAsset A P → Bool | .explicit _ => true | _ => false
def CValue.isExplicit {P} : CValue P → Bool | .explicit _ => true | _ => false
def CValue.isNull {P} : CValue P → Bool | .null => true | _ => false
def CNonce.isConf {P} : CNonce P → Bool | .conf _ => true | _ => false

structure TxOut (A P RP SP : Type) where
  asset : CAsset A P
  value : CValue P
  nonce : CNonce P
  script : Bytes
  rangeproof : Option RP
  surjproof : Option SP

/-- the part of a `TxIn` amount verification looks at: the two issuance amounts and the ids
    `TxIn::issuance_ids()` derives for them (hash-derived; parameters here) -/
structure TxIn (A P : Type) where
  amount : CValue P
  keys : CValue P
  assetId : A
  tokenId : A

/-- `TxIn::has_issuance` = `!asset_issuance.is_null()` -/
def TxIn.hasIssuance {A P} (i : TxIn A P) : Bool := !(i.amount.isNull && i.keys.isNull)

/-! ## script predicates (src/script.rs, src/transaction.rs) -/

def byteAt (s : Bytes) (i : Nat) : Nat := (s.getD i 0).toNat

/-- `Script::is_op_return` -/
def isOpReturn (s : Bytes) : Bool := !s.isEmpty && byteAt s 0 == Gen.c04OpReturn

/-- `Script::is_provably_unspendable` (OP_RETURN first, oversized, or the empty fee script) -/
def isProvablyUnspendable (s : Bytes) : Bool :=
  (!s.isEmpty && byteAt s 0 == Gen.c04OpReturn) || s.length > Gen.c04MaxScriptSize || s.isEmpty

def isP2pkh (s : Bytes) : Bool :=
  s.length == 25 && byteAt s 0 == Gen.c04OpDup && byteAt s 1 == Gen.c04OpHash160 &&
  byteAt s 2 == Gen.c04OpPushbytes20 && byteAt s 23 == Gen.c04OpEqualverify && byteAt s 24 == Gen.c04OpChecksig
def isP2sh (s : Bytes) : Bool :=
  s.length == 23 && byteAt s 0 == Gen.c04OpHash160 && byteAt s 1 == Gen.c04OpPushbytes20 &&
  byteAt s 22 == Gen.c04OpEqual
def isV0P2wpkh (s : Bytes) : Bool :=
  s.length == 22 && byteAt s 0 == Gen.c04OpPushbytes0 && byteAt s 1 == Gen.c04OpPushbytes20
def isV0P2wsh (s : Bytes) : Bool :=
  s.length == 34 && byteAt s 0 == Gen.c04OpPushbytes0 && byteAt s 1 == Gen.c04OpPushbytes32
def isV1plusWitprog (s : Bytes) : Bool :=
  s.length > 1 && s.length == byteAt s 1 + 2 &&
  byteAt s 0 ≥ Gen.c04OpPushnum1 && byteAt s 0 ≤ Gen.c04OpPushnum16 &&
  byteAt s 1 ≥ Gen.c04OpPushbytes2 && byteAt s 1 ≤ Gen.c04OpPushbytes40

/-- `Address::from_script(script, ..).is_some()` -/
def addressable (s : Bytes) : Bool :=
  isP2pkh s || isP2sh s || isV0P2wpkh s || isV0P2wsh s || isV1plusWitprog s

namespace TxOut
variable {A P RP SP : Type}
/-- `TxOut::is_fee` -/
def isFee (o : TxOut A P RP SP) : Bool := o.script.isEmpty && o.value.isExplicit && o.asset.isExplicit
/-- marked for blinding: `!is_fee() && nonce.is_confidential()` -/
def marked (o : TxOut A P RP SP) : Bool := !o.isFee && o.nonce.isConf
def allExplicit (o : TxOut A P RP SP) : Bool := o.asset.isExplicit && o.value.isExplicit
end TxOut

/-! ## the blinder -/

/-- what the blinder draws from its rng for one marked output
    (the last marked output ignores `vbf`) -/
structure Rand (R : Type) where
  abf : R
  vbf : R
  esk : R
  deriving Repr

/-- primitives used when blinding / unblinding -/
structure BPrims (A R P K RP SP : Type) where
  /-- `Generator::new_blinded(tag, abf)` -/
  genBlinded : A → R → P
  /-- `PedersenCommitment::new(value, vbf, generator)` (when it is not the point at infinity) -/
  commit : Nat → R → P → P
  /-- `PublicKey::from_secret_key` -/
  pubOf : R → P
  /-- `Nonce::make_shared_secret(pk, sk)` -/
  ecdh : P → R → K
  /-- `RangeProof::new(min 1, commitment, value, vbf, message = (asset, abf), script, nonce key, exp 0,
      52 bits, generator)`; `none` = `CannotMakeRangeProof` -/
  rangeProve : P → Nat → R → A × R → Bytes → K → P → Option RP
  /-- `SurjectionProof::new(tag, abf, [(generator, tag, abf)])`; `none` = `CannotProveSurjection` -/
  surjProve : A → R → List (P × A × R) → Option SP
  /-- `RangeProof::rewind(commitment, key, script, generator)` followed by the split of the message
      into (asset id, asset blinding factor): value, vbf, asset, abf -/
  rewind : RP → P → K → Bytes → P → Option (Nat × R × A × R)

/-- outcome names of `BlindError` the property distinguishes -/
def eMustHaveAllExplicit : String := "MustHaveAllExplicitTxOuts"
def eTooFewBlindingOutputs : String := "TooFewBlindingOutputs"
def eInvalidAddress : String := "InvalidAddress"
def eConfidentialTxOut : String := "ConfidentialTxOutError"

section blinder
variable {A R P K RP SP : Type} [Add R] [Mul R] [Neg R] [Zero R] [NatCast R]

/-- the surjection domain built from `spent_utxo_secrets` (`SurjectionInput::Known`) -/
def surjInputs (B : BPrims A R P K RP SP) (spent : List (Secrets A R)) : List (P × A × R) :=
  spent.map (fun s => (B.genBlinded s.asset s.abf, s.asset, s.abf))

/-- `TxOut::with_txout_secrets`: asset commitment + surjection proof, then value commitment,
    nonce (ephemeral public key) and range proof -/
def withTxoutSecrets (B : BPrims A R P K RP SP) (spk : Bytes) (receiverPk : P) (esk : R)
    (sec : Secrets A R) (spent : List (Secrets A R)) : Res (TxOut A P RP SP) :=
  let g := B.genBlinded sec.asset sec.abf
  match B.surjProve sec.asset sec.abf (surjInputs B spent) with
  | none => .err eConfidentialTxOut
  | some sp =>
    let shared := B.ecdh receiverPk esk
    -- `Value::blind_with_shared_secret`: values below the range-proof minimum are refused before
    -- the commitment is made (`CannotMakeRangeProof`)
    if sec.value < Gen.c04RangeproofMinValue then .err eConfidentialTxOut
    else
      let c := B.commit sec.value sec.vbf g
      match B.rangeProve c sec.value sec.vbf (sec.asset, sec.abf) spk shared g with
      | none => .err eConfidentialTxOut
      | some rp =>
        .ok { asset := .conf g, value := .conf c, nonce := .conf (B.pubOf esk), script := spk,
              rangeproof := some rp, surjproof := some sp }

/-- what the loop of `Transaction::blind` leaves for one output -/
inductive Slot (A R P RP SP : Type) where
  /-- fee output or no blinding key: untouched, secrets (asset, 0, value, 0) pushed -/
  | plain (o : TxOut A P RP SP) (s : Secrets A R)
  /-- `num_blinded + 1 < num_to_blind`: replaced by `new_not_last_confidential` -/
  | blinded (o : TxOut A P RP SP) (s : Secrets A R) (esk : R)
  /-- the `last_output_index = Some(i)` branch, taken with `num_blinded = nb` -/
  | last (o : TxOut A P RP SP) (nb : Nat)

/-- the `for (i, out) in self.output.iter_mut().enumerate()` loop; `nb` is `num_blinded` -/
def blindLoop (B : BPrims A R P K RP SP) (spent : List (Secrets A R)) (rands : Nat → Rand R)
    (numToBlind : Nat) : Nat → List (TxOut A P RP SP) → Res (List (Slot A R P RP SP))
  | _, [] => .ok []
  | nb, o :: rest =>
    if o.isFee || !o.nonce.isConf then
      match o.asset, o.value with
      | .explicit a, .explicit v =>
        match blindLoop B spent rands numToBlind nb rest with
        | .ok r => .ok (.plain o ⟨a, v, 0, 0⟩ :: r)
        | .err e => .err e
        | .panic s => .panic s
      | _, _ => .panic "unwrap on a non-explicit output"
    else
      match o.nonce with
      | .conf blinder =>
        if !addressable o.script then .err eInvalidAddress
        else if nb + 1 < numToBlind then
          match o.asset, o.value with
          | .explicit a, .explicit v =>
            let rd := rands nb
            let sec : Secrets A R := ⟨a, v, rd.abf, rd.vbf⟩
            match withTxoutSecrets B o.script blinder rd.esk sec spent with
            | .ok o' =>
              match blindLoop B spent rands numToBlind (nb + 1) rest with
              | .ok r => .ok (.blinded o' sec rd.esk :: r)
              | .err e => .err e
              | .panic s => .panic s
            | .err e => .err e
            | .panic s => .panic s
          | _, _ => .panic "unwrap on a non-explicit output"
        else
          match blindLoop B spent rands numToBlind (nb + 1) rest with
          | .ok r => .ok (.last o nb :: r)
          | .err e => .err e
          | .panic s => .panic s
      | _ => .panic "expect(Confidential)"

/-- `out_secrets` after the loop -/
def slotSecrets : List (Slot A R P RP SP) → List (Secrets A R)
  | [] => []
  | .plain _ s :: r => s :: slotSecrets r
  | .blinded _ s _ :: r => s :: slotSecrets r
  | .last _ _ :: r => slotSecrets r

/-- `last_output_index` after the loop: the index of the final `last` slot -/
def lastIndex : Nat → List (Slot A R P RP SP) → Option (Nat × TxOut A P RP SP × Nat)
  | _, [] => none
  | i, .last o nb :: r =>
    match lastIndex (i + 1) r with
    | some x => some x
    | none => some (i, o, nb)
  | i, _ :: r => lastIndex (i + 1) r

/-- one output after `Transaction::blind`: the output, the opening the blinder knows for it, and
    the ephemeral key when the output is in the returned map -/
structure Entry (A R P RP SP : Type) where
  out : TxOut A P RP SP
  sec : Secrets A R
  esk : Option R

/-- outputs after the loop, with the last output `lo` put at index `li` -/
def assemble (li : Nat) (lo : TxOut A P RP SP) (ls : Secrets A R) (lesk : R) :
    Nat → List (Slot A R P RP SP) → List (Entry A R P RP SP)
  | _, [] => []
  | i, .plain o s :: r => ⟨o, s, none⟩ :: assemble li lo ls lesk (i + 1) r
  | i, .blinded o s esk :: r => ⟨o, s, some esk⟩ :: assemble li lo ls lesk (i + 1) r
  | i, .last o _ :: r =>
    if i = li then ⟨lo, ls, some lesk⟩ :: assemble li lo ls lesk (i + 1) r
    else
      -- a `last` slot that was overwritten stays as it was and is in nobody's books
      match o.asset, o.value with
      | .explicit a, .explicit v => ⟨o, ⟨a, v, 0, 0⟩, none⟩ :: assemble li lo ls lesk (i + 1) r
      | _, _ => assemble li lo ls lesk (i + 1) r

/-- the returned map `CtLocation{input_index: i, Input} ↦ (abf, vbf, ephemeral key)` in key order -/
def blindsOf : Nat → List (Entry A R P RP SP) → List (Nat × R × R × R)
  | _, [] => []
  | i, e :: r =>
    match e.esk with
    | some k => (i, e.sec.abf, e.sec.vbf, k) :: blindsOf (i + 1) r
    | none => blindsOf (i + 1) r

/-- `Transaction::blind(rng, secp, spent_utxo_secrets, false)` on the output list -/
def blind (B : BPrims A R P K RP SP) (outputs : List (TxOut A P RP SP)) (spent : List (Secrets A R))
    (rands : Nat → Rand R) : Res (List (Entry A R P RP SP)) :=
  if !outputs.all TxOut.allExplicit then .err eMustHaveAllExplicit
  else
    let numToBlind := (outputs.filter TxOut.marked).length
    match blindLoop B spent rands numToBlind 0 outputs with
    | .err e => .err e
    | .panic s => .panic s
    | .ok slots =>
      match lastIndex 0 slots with
      | none => .err eTooFewBlindingOutputs
      | some (li, o, nb) =>
        match o.asset, o.value, o.nonce with
        | .explicit a, .explicit v, .conf blinder =>
          let rd := rands nb
          let vbf := lastVbf v rd.abf spent (slotSecrets slots)
          let sec : Secrets A R := ⟨a, v, rd.abf, vbf⟩
          match withTxoutSecrets B o.script blinder rd.esk sec spent with
          | .ok o' => .ok (assemble li o' sec rd.esk 0 slots)
          | .err e => .err e
          | .panic s => .panic s
        | _, _, _ => .panic "unwrap on a non-explicit output"

/-- `TxOut::unblind(secp, blinding_key)` -/
def unblind [DecidableEq P] (B : BPrims A R P K RP SP) (o : TxOut A P RP SP) (sk : R) :
    Res (Secrets A R) :=
  match o.value, o.asset with
  | .conf c, .conf g =>
    match o.nonce with
    | .conf senderPk =>
      match o.rangeproof with
      | none => .err "MissingRangeproof"
      | some rp =>
        match B.rewind rp c (B.ecdh senderPk sk) o.script g with
        | none => .err "Rewind"
        | some (v, vbf, a, abf) =>
          -- `RangeProofMessage::from_byte_array` against a confidential asset
          if B.genBlinded a abf = g then .ok ⟨a, v, abf, vbf⟩ else .err "RangeProofMessage"
    | _ => .err "MissingNonce"
  | _, _ => .err "NotConfidential"
end blinder

/-! ## the verifier -/

/-- primitives used by `verify_tx_amt_proofs` -/
structure VPrims (A P RP SP : Type) where
  /-- `Generator::new_unblinded(tag)` -/
  genUnblinded : A → P
  /-- `PedersenCommitment::new_unblinded(value, generator)` for value ≠ 0 -/
  commitUnblinded : Nat → P → P
  /-- `RangeProof::verify(commitment, script, generator).is_ok()` -/
  rangeVerify : RP → P → Bytes → P → Bool
  /-- `SurjectionProof::verify(generator, domain)` -/
  surjVerify : SP → P → List P → Bool
  /-- `verify_commitments_sum_to_equal(a, b)` -/
  sumEqual : List P → List P → Bool

inductive TxOutErr where
  | unexpectedNullValue | unexpectedNullAsset | nonUnspendableZeroValue | zeroValueCommitment
  deriving Repr, DecidableEq

def TxOutErr.str : TxOutErr → String
  | .unexpectedNullValue => "UnExpectedNullValue"
  | .unexpectedNullAsset => "UnExpectedNullAsset"
  | .nonUnspendableZeroValue => "NonUnspendableZeroValue"
  | .zeroValueCommitment => "ZeroValueCommitment"

/-- `VerificationError` (without the payload of the upstream errors) -/
inductive VErr where
  | rangeProofError (i : Nat)
  | rangeProofMissing (i : Nat)
  | surjectionProofVerificationError (i : Nat)
  | surjectionProofMissing (i : Nat)
  | spentTxOutError (i : Nat) (e : TxOutErr)
  | txOutError (i : Nat) (e : TxOutErr)
  | issuanceTransactionInput (i : Nat)
  | utxoInputLenMismatch
  | balanceCheckFailed
  deriving Repr, DecidableEq

def VErr.str : VErr → String
  | .rangeProofError i => s!"RangeProofError {i}"
  | .rangeProofMissing i => s!"RangeProofMissing {i}"
  | .surjectionProofVerificationError i => s!"SurjectionProofVerificationError {i}"
  | .surjectionProofMissing i => s!"SurjectionProofMissing {i}"
  | .spentTxOutError i e => s!"SpentTxOutError {i} {e.str}"
  | .txOutError i e => s!"TxOutError {i} {e.str}"
  | .issuanceTransactionInput i => s!"IssuanceTransactionInput {i}"
  | .utxoInputLenMismatch => "UtxoInputLenMismatch"
  | .balanceCheckFailed => "BalanceCheckFailed"

/-- verdict of the verifier -/
inductive Verdict where
  | ok
  | err (e : VErr)
  | panic (site : String)
  deriving Repr, DecidableEq

def Verdict.str : Verdict → String
  | .ok => "ok"
  | .err e => "err " ++ e.str
  | .panic _ => "panic"

section verifier
variable {A P RP SP : Type}

/-- `Asset::into_asset_gen` / `TxOut::get_asset_gen` -/
def assetGen (V : VPrims A P RP SP) : CAsset A P → Option P
  | .null => none
  | .explicit a => some (V.genUnblinded a)
  | .conf g => some g

/-- `TxOut::get_value_commit` -/
def valueCommit (V : VPrims A P RP SP) (o : TxOut A P RP SP) : Except TxOutErr P :=
  match o.value with
  | .null => .error .unexpectedNullValue
  | .explicit v =>
    if v = 0 then
      if isProvablyUnspendable o.script then .error .zeroValueCommitment
      else .error .nonUnspendableZeroValue
    else
      match assetGen V o.asset with
      | none => .error .unexpectedNullAsset
      | some g => .ok (V.commitUnblinded v g)
  | .conf c => .ok c

/-- one issuance amount: nothing, or a (generator, commitment) pseudo-input;
    `none` = an explicit amount 0 (`IssuanceTransactionInput`) -/
def issuancePair (V : VPrims A P RP SP) (amt : CValue P) (asset : A) : Option (List (P × P)) :=
  match amt with
  | .null => some []
  | .explicit v =>
    if v = 0 then none
    else some [(V.genUnblinded asset, V.commitUnblinded v (V.genUnblinded asset))]
  | .conf c => some [(V.genUnblinded asset, c)]

/-- the pseudo-inputs of one input, amount first, inflation keys second -/
def issuancePairs (V : VPrims A P RP SP) (inp : TxIn A P) : Option (List (P × P)) :=
  if inp.hasIssuance then
    match issuancePair V inp.amount inp.assetId with
    | none => none
    | some l1 =>
      match issuancePair V inp.keys inp.tokenId with
      | none => none
      | some l2 => some (l1 ++ l2)
  else some []

/-- result of the loops: a list or the first failure -/
inductive Acc (α : Type) where
  | ok (l : List α)
  | err (e : VErr)
  | panic (site : String)

/-- the loop over the inputs: (generator, commitment) of every input and pseudo-input, in order
    (`domain` and `in_commits` are pushed in lock step) -/
def inputPairs (V : VPrims A P RP SP) : Nat → List (TxIn A P) → List (TxOut A P RP SP) → Acc (P × P)
  | _, [], _ => .ok []
  | _, _ :: _, [] => .panic "spent_utxos[i]"
  | i, inp :: is, u :: us =>
    match assetGen V u.asset with
    | none => .err (.spentTxOutError i .unexpectedNullAsset)
    | some g =>
      match valueCommit V u with
      | .error e => .err (.spentTxOutError i e)
      | .ok c =>
        match issuancePairs V inp with
        | none => .err (.issuanceTransactionInput i)
        | some iss =>
          match inputPairs V (i + 1) is us with
          | .ok r => .ok ((g, c) :: iss ++ r)
          | .err e => .err e
          | .panic s => .panic s

/-- range-proof branch for output `i` -/
def rangeCheck (V : VPrims A P RP SP) (i : Nat) (o : TxOut A P RP SP) : Option VErr :=
  match o.value with
  | .conf comm =>
    match assetGen V o.asset with
    | none => some (.txOutError i .unexpectedNullAsset)
    | some g =>
      match o.rangeproof with
      | none => some (.rangeProofMissing i)
      | some rp => if V.rangeVerify rp comm o.script g then none else some (.rangeProofError i)
  | _ => none

/-- surjection-proof branch for output `i` -/
def surjCheck (V : VPrims A P RP SP) (domain : List P) (i : Nat) (o : TxOut A P RP SP) : Option VErr :=
  match o.asset with
  | .conf g =>
    match o.surjproof with
    | none => some (.surjectionProofMissing i)
    | some sp => if V.surjVerify sp g domain then none else some (.surjectionProofVerificationError i)
  | _ => none

/-- what happens to output `i` after its value commitment (`cs` = what was pushed for it):
    range-proof branch, surjection branch, then the rest of the loop -/
def outputStep (V : VPrims A P RP SP) (domain : List P) (i : Nat) (o : TxOut A P RP SP)
    (cs : List P) (rest : Acc P) : Acc P :=
  match rangeCheck V i o with
  | some e => .err e
  | none =>
    match surjCheck V domain i o with
    | some e => .err e
    | none =>
      match rest with
      | .ok r => .ok (cs ++ r)
      | .err e => .err e
      | .panic s => .panic s

/-- the loop over the outputs: the pushed value commitments -/
def outputCommits (V : VPrims A P RP SP) (domain : List P) : Nat → List (TxOut A P RP SP) → Acc P
  | _, [] => .ok []
  | i, o :: rest =>
    match valueCommit V o with
    | .ok c => outputStep V domain i o [c] (outputCommits V domain (i + 1) rest)
    | .error .zeroValueCommitment => outputStep V domain i o [] (outputCommits V domain (i + 1) rest)
    | .error e => .err (.spentTxOutError i e)   -- sic: the output loop reuses `SpentTxOutError`

/-- `Transaction::verify_tx_amt_proofs(secp, spent_utxos)` -/
def verify (V : VPrims A P RP SP) (inputs : List (TxIn A P)) (outputs : List (TxOut A P RP SP))
    (utxos : List (TxOut A P RP SP)) : Verdict :=
  if utxos.length ≠ inputs.length then .err .utxoInputLenMismatch
  else
    match inputPairs V 0 inputs utxos with
    | .err e => .err e
    | .panic s => .panic s
    | .ok pairs =>
      match outputCommits V (pairs.map Prod.fst) 0 outputs with
      | .err e => .err e
      | .panic s => .panic s
      | .ok outC =>
        if V.sumEqual (pairs.map Prod.snd) outC then .ok else .err .balanceCheckFailed

/-- `RangeProof::blind_value_proof_verify`: `r` is the range `RangeProof::verify` returned
    (`start`, exclusive `end`), `none` its error; `none` result = `end - 1` underflow -/
def blindValueProofVerify (r : Option (Nat × Nat)) (explicitVal : Nat) : Option Bool :=
  match r with
  | none => some false
  | some (start, stop) =>
    if start = explicitVal then (if stop = 0 then none else some (stop - 1 = explicitVal))
    else some false
end verifier

/-! ## scalars of the driver: integers mod the secp256k1 group order -/

/-- group order of secp256k1 (the same literal as `EV.Secp.n`; kept here so that this file does not
    depend on the executable-only module) -/
def groupOrder : Nat := 0xFFFFFFFFFFFFFFFFFFFFFFFFFFFFFFFEBAAEDCE6AF48A03BBFD25E8CD0364141

abbrev ZN := Fin groupOrder

instance : NeZero groupOrder := ⟨by decide⟩

end EV.Blind
