/-
  EV.Model.Base58 — base58 / base58check of the `base58ck` crate (`bitcoin::base58`):
  `encode` (= `format_iter`: leading zero bytes become '1's, the rest is the big-endian number in
  base 58), `decode` (digits accumulated into a big-endian base-256 scratch buffer, leading '1's
  become zero bytes, leading zero bytes of the number are skipped), `encode_check`/`decode_check`
  (4-byte SHA-256d checksum; the hash is a parameter).
  Byte strings and text are `List Nat` (byte values). Core Lean only.
-/
import EV.Model.Bech32
namespace EV.Base58
open EV.Bech32 (Text indexIn)

/-- most-significant-first digits of `n` in base `b` (no leading zero; `0 ↦ []`), `fuel ≥ n` suffices -/
def toDigits (b : Nat) : Nat → Nat → List Nat → List Nat
  | 0, _, acc => acc
  | f + 1, n, acc => if n = 0 then acc else toDigits b f (n / b) (n % b :: acc)

def digits (b n : Nat) : List Nat := toDigits b n n []

/-- value of a most-significant-first digit string -/
def ofDigits (b : Nat) (ds : List Nat) : Nat := ds.foldl (fun a d => a * b + d) 0

/-- number of leading elements equal to `z` -/
def leading (z : Nat) : List Nat → Nat
  | [] => 0
  | x :: xs => if x = z then leading z xs + 1 else 0

/-- `BASE58_DIGITS[c]` -/
def digitOf (c : Nat) : Option Nat := indexIn c Ref.base58Chars 0
/-- `BASE58_CHARS[d]` -/
def charOf (d : Nat) : Nat := Ref.base58Chars.getD d 0

def digitsOf : Text → Option (List Nat)
  | [] => some []
  | c :: cs =>
    match digitOf c, digitsOf cs with
    | some d, some ds => some (d :: ds)
    | _, _ => none

/-- `base58::encode` -/
def encode (bs : List Nat) : Text :=
  List.replicate (leading 0 bs) 49 ++ (digits 58 (ofDigits 256 bs)).map charOf

/-- `base58::decode` (`none` = `InvalidCharacterError`) -/
def decode (s : Text) : Option (List Nat) :=
  match digitsOf s with
  | none => none
  | some ds => some (List.replicate (leading 49 s) 0 ++ digits 256 (ofDigits 58 ds))

/-- first four bytes of the double SHA-256 (robust against a malformed hash parameter) -/
def checksum4 (sha256d : List Nat → List Nat) (data : List Nat) : List Nat :=
  let h := sha256d data
  [h.getD 0 0 % 256, h.getD 1 0 % 256, h.getD 2 0 % 256, h.getD 3 0 % 256]

/-- `base58::encode_check` -/
def encodeCheck (sha256d : List Nat → List Nat) (data : List Nat) : Text :=
  encode (data ++ checksum4 sha256d data)

/-- `base58::decode_check` (`none` = any error) -/
def decodeCheck (sha256d : List Nat → List Nat) (s : Text) : Option (List Nat) :=
  match decode s with
  | none => none
  | some ret =>
    if ret.length < 4 then none else
    let data := ret.take (ret.length - 4)
    if ret.drop (ret.length - 4) = checksum4 sha256d data then some data else none

end EV.Base58
