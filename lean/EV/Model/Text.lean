/-
  EV.Model.Text — the `Display` / `FromStr` pairs of rust-elements as coded (C20):
  lower-case hex and reversed hex of hash newtypes and sha256-midstate wrappers, decimal and radix-16
  integers exactly as `str::parse::<u32>` / `u32::from_str_radix` accept them (optional leading `+`,
  leading zeros, overflow → error), `OutPoint` (`[elements]txid:vout`, the prefix optional on parse,
  bitcoin's canonical-vout rule), the three sighash-type string forms (tables regenerated from the
  Rust source: `EV.Gen`), blinding factors (reversed hex + tweak validity), lock times, and standard
  base64 with canonical padding (PSET `to_string` / `from_str`).
  Strings are `List Char`; a Rust `str::len()` is a byte length, which differs from the number of
  chars only on non-ASCII input, and every parser here rejects non-ASCII input either way.
-/
import EV.Model.Transaction
import EV.Gen.Consts
namespace EV.Text

abbrev Str := List Char

/-! ### hex -/

/-- lower-case hex of a byte string (`{:02x}` per byte, `fmt_hex_exact!`, `as_hex()`, `{:x}`) -/
def hexStr (bs : Bytes) : Str := bs.flatMap Hex.ofByte

/-- `hex::decode_to_vec` (hex-conservative), `from_hex` (secp256k1-zkp): even length, both cases accepted -/
def unhex (cs : Str) : Res Bytes :=
  match Hex.decodeChars cs with
  | some b => .ok b
  | none => .err "invalid hex"

/-- `hex::decode_to_array::<N>`: the length is checked first -/
def unhexN (n : Nat) (cs : Str) : Res Bytes :=
  if cs.length ≠ 2 * n then .err "invalid hex length" else unhex cs

/-! ### integers -/

/-- digits of `n` in base `b`, least significant first (`fuel` ≥ number of digits) -/
def digitsRev (b : Nat) : Nat → Nat → List Char
  | 0, _ => []
  | f+1, n => Hex.digit (n % b) :: (if n / b = 0 then [] else digitsRev b f (n / b))

/-- `{}` of an unsigned integer (b = 10), `{:x}` (b = 16): no sign, no leading zeros, `0` for zero -/
def showBase (b n : Nat) : Str := (digitsRev b (n+1) n).reverse
def showNat (n : Nat) : Str := showBase 10 n

/-- `char::to_digit(radix)` -/
def digitVal (b : Nat) (c : Char) : Option Nat :=
  match Hex.nib c with
  | some v => if v < b then some v else none
  | none => none

/-- the digit loop of `from_str_radix` for an unsigned type with `B` values: `checked_mul` then `checked_add` -/
def parseDigits (b B : Nat) : Nat → Str → Res Nat
  | acc, [] => .ok acc
  | acc, c :: cs =>
    match digitVal b c with
    | none => .err "invalid digit"
    | some d =>
      if acc * b ≥ B then .err "overflow"
      else if acc * b + d ≥ B then .err "overflow"
      else parseDigits b B (acc * b + d) cs

/-- `<uN>::from_str_radix(s, b)` (`str::parse::<uN>` for b = 10): empty → error, a lone sign → error,
    one leading `+` allowed, `-` is an invalid digit for unsigned types, leading zeros allowed -/
def parseUInt (b B : Nat) (cs : Str) : Res Nat :=
  match cs with
  | [] => .err "empty"
  | [c] => if c = '+' ∨ c = '-' then .err "invalid digit" else parseDigits b B 0 [c]
  | c :: rest => if c = '+' then parseDigits b B 0 rest else parseDigits b B 0 (c :: rest)

def parseU32 (cs : Str) : Res Nat := parseUInt 10 (2^32) cs

/-! ### hash newtypes and sha256-midstate wrappers -/

structure HashKind where
  len : Nat
  /-- `DISPLAY_BACKWARD` -/
  rev : Bool
  deriving Repr, DecidableEq

def hashShow (k : HashKind) (b : Bytes) : Str := hexStr (if k.rev then b.reverse else b)

/-- `FromStr`: `decode_to_array::<LEN>` then `reverse()` when displayed backward -/
def hashParse (k : HashKind) (cs : Str) : Res Bytes :=
  match unhexN k.len cs with
  | .ok b => .ok (if k.rev then b.reverse else b)
  | .err e => .err e
  | .panic s => .panic s

/-- every type with a hex `Display`/`FromStr` pair: name on the wire protocol ↦ (length, reversed?).
    sha256d-based newtypes and `#[hash_newtype(backward)]` ones print reversed, as do all
    `impl_sha256_midstate_wrapper!` types; sha256/hash160/sha256t-based ones print forward. -/
def hashKinds : List (String × HashKind) :=
  [("txid", ⟨32, true⟩), ("wtxid", ⟨32, true⟩), ("blockhash", ⟨32, true⟩), ("txmerklenode", ⟨32, true⟩),
   ("contracthash", ⟨32, true⟩), ("assetid", ⟨32, true⟩), ("assetentropy", ⟨32, true⟩),
   ("dynafedroot", ⟨32, true⟩), ("paramsroot", ⟨32, true⟩), ("elidedroot", ⟨32, true⟩),
   ("wscripthash", ⟨32, false⟩), ("scripthash", ⟨20, false⟩),
   ("tapleafhash", ⟨32, false⟩), ("tapnodehash", ⟨32, false⟩), ("taptweakhash", ⟨32, false⟩),
   ("pubkeyhash", ⟨20, false⟩), ("wpubkeyhash", ⟨20, false⟩)]

def kTxid : HashKind := ⟨32, true⟩

/-! ### blinding factors -/

/-- `AssetBlindingFactor` / `ValueBlindingFactor`: `#[display_backward(true)]` -/
def bfShow (b : Bytes) : Str := hexStr b.reverse

/-- `FromStr`: `decode_to_array::<32>`, `reverse()`, `Tweak::from_inner` -/
def bfParse (tweakOk : Bytes → Bool) (cs : Str) : Res Bytes :=
  match unhexN 32 cs with
  | .ok b => if tweakOk b.reverse then .ok b.reverse else .err "invalid tweak"
  | .err e => .err e
  | .panic s => .panic s

/-! ### lock times and sequences (through `parse::int::<u32>`) -/

def lockTimeParse (cs : Str) : Res Nat := parseU32 cs

def heightParse (cs : Str) : Res Nat :=
  match parseU32 cs with
  | .ok n => if n < Gen.lockTimeThreshold then .ok n else .err "invalid height"
  | .err e => .err e
  | .panic s => .panic s

def timeParse (cs : Str) : Res Nat :=
  match parseU32 cs with
  | .ok n => if n ≥ Gen.lockTimeThreshold then .ok n else .err "invalid time"
  | .err e => .err e
  | .panic s => .panic s

def sequenceParse (cs : Str) : Res Nat := parseU32 cs

/-! ### OutPoint -/

/-- `Display for OutPoint`: the prefix, the txid (reversed hex), `:`, the index -/
def outPointShow (o : OutPoint) : Str :=
  Gen.outPointDisplayPrefix.toList ++ hashShow kTxid o.txid ++ ':' :: showNat o.vout

/-- split at the first `:` -/
def splitColon : Str → Option (Str × Str)
  | [] => none
  | c :: cs =>
    if c = ':' then some ([], cs)
    else match splitColon cs with
      | some (a, r) => some (c :: a, r)
      | none => none

/-- bitcoin's `parse_vout`: more than one char and a leading `0` or `+` is not canonical -/
def voutParse (cs : Str) : Res Nat :=
  if cs.length > 1 ∧ (cs.head? = some '0' ∨ cs.head? = some '+') then .err "vout not canonical"
  else parseU32 cs

/-- `bitcoin::OutPoint::from_str`: at most 75 bytes, exactly one `:` which is neither first nor last, txid,
    canonical vout -/
def btcOutPointParse (s : Str) : Res OutPoint :=
  if s.length > 75 then .err "too long" else
  match splitColon s with
  | none => .err "format"
  | some (a, r) =>
    if r.contains ':' then .err "format"
    else if a = [] ∨ r = [] then .err "format"
    else match hashParse kTxid a with
      | .ok t =>
        (match voutParse r with
         | .ok v => .ok ⟨t, v⟩
         | .err e => .err e
         | .panic s => .panic s)
      | .err e => .err e
      | .panic s => .panic s

/-- `FromStr for OutPoint`: an optional `[elements]` prefix is cut (`&s[10..]`), then `bitcoin::OutPoint::from_str` -/
def outPointParse (cs : Str) : Res OutPoint :=
  let pre := Gen.outPointParsePrefix.toList
  if pre.isPrefixOf cs ∧ cs.length < Gen.outPointParseCut then .panic "slice index beyond the string" else
  btcOutPointParse (if pre.isPrefixOf cs then cs.drop Gen.outPointParseCut else cs)

/-! ### sighash types (tables regenerated from the Rust source) -/

/-- `Display for EcdsaSighashType` on the variant with discriminant `v` -/
def ecdsaShow (v : Nat) : Option String := Gen.ecdsaSighashDisplay.lookup v
def ecdsaParse (s : String) : Res Nat :=
  match Gen.ecdsaSighashParse.lookup s with
  | some v => .ok v
  | none => .err "can't recognize SIGHASH string"

def schnorrShow (v : Nat) : Option String := Gen.schnorrSighashDisplay.lookup v
def schnorrParse (s : String) : Res Nat :=
  match Gen.schnorrSighashParse.lookup s with
  | some v => .ok v
  | none => .err "unrecognized SIGHASH string"

/-- `PsbtSighashType::schnorr_hash_ty` -/
def psbtSchnorrTy (n : Nat) : Option Nat :=
  if n > 0xff then none else Gen.schnorrSighashFromU8.lookup n

/-- `Display for PsbtSighashType`: the Schnorr name when there is one (never `Reserved`), else `{:#x}` -/
def psbtShow (n : Nat) : String :=
  match psbtSchnorrTy n with
  | none => String.ofList ('0' :: 'x' :: showBase 16 n)
  | some d =>
    if d = Gen.schnorrSighashReserved then String.ofList ('0' :: 'x' :: showBase 16 n)
    else match schnorrShow d with
      | some s => s
      | none => ""   -- unreachable: every variant has a Display arm (checked by the extraction script)

/-- `str::trim_start_matches("0x")`: removes the prefix repeatedly -/
def trim0x : Str → Str
  | '0' :: 'x' :: r => trim0x r
  | s => s

/-- `FromStr for PsbtSighashType`: a Schnorr name other than `SIGHASH_RESERVED`, else radix-16 `u32`
    after trimming `0x` -/
def psbtParse (s : String) : Res Nat :=
  match schnorrParse s with
  | .ok d => if d = Gen.schnorrSighashReserved then .err "unrecognized SIGHASH string" else .ok d
  | _ =>
    match parseUInt 16 (2^32) (trim0x s.toList) with
    | .ok n => .ok n
    | _ => .err "unrecognized SIGHASH string"

/-! ### base64 (standard alphabet, canonical padding) -/

def b64Char (n : Nat) : Char :=
  if n < 26 then Char.ofNat (65 + n)
  else if n < 52 then Char.ofNat (71 + n)
  else if n < 62 then Char.ofNat (n - 4)
  else if n = 62 then '+' else '/'

def b64Val (c : Char) : Option Nat :=
  let n := c.toNat
  if 65 ≤ n ∧ n ≤ 90 then some (n - 65)
  else if 97 ≤ n ∧ n ≤ 122 then some (n - 71)
  else if 48 ≤ n ∧ n ≤ 57 then some (n + 4)
  else if n = 43 then some 62
  else if n = 47 then some 63
  else none

/-- `BASE64_STANDARD` encoding (`Base64Display`) -/
def b64Enc : Bytes → Str
  | [] => []
  | [a] => [b64Char (a.toNat / 4), b64Char (a.toNat % 4 * 16), '=', '=']
  | [a, b] => [b64Char (a.toNat / 4), b64Char (a.toNat % 4 * 16 + b.toNat / 16), b64Char (b.toNat % 16 * 4), '=']
  | a :: b :: c :: rest =>
    b64Char (a.toNat / 4) :: b64Char (a.toNat % 4 * 16 + b.toNat / 16) ::
    b64Char (b.toNat % 16 * 4 + c.toNat / 64) :: b64Char (c.toNat % 64) :: b64Enc rest

/-- `BASE64_STANDARD.decode`: groups of four symbols, padding required and only in the last group,
    no non-zero trailing bits, no other characters (no whitespace) -/
def b64Dec : Str → Res Bytes
  | [] => .ok []
  | c0 :: c1 :: c2 :: c3 :: rest =>
    if rest = [] ∧ c3 = '=' then
      if c2 = '=' then
        match b64Val c0, b64Val c1 with
        | some v0, some v1 => if v1 % 16 = 0 then .ok [UInt8.ofNat (v0 * 4 + v1 / 16)] else .err "trailing bits"
        | _, _ => .err "invalid symbol"
      else
        match b64Val c0, b64Val c1, b64Val c2 with
        | some v0, some v1, some v2 =>
          if v2 % 4 = 0 then .ok [UInt8.ofNat (v0 * 4 + v1 / 16), UInt8.ofNat (v1 % 16 * 16 + v2 / 4)]
          else .err "trailing bits"
        | _, _, _ => .err "invalid symbol"
    else
      match b64Val c0, b64Val c1, b64Val c2, b64Val c3 with
      | some v0, some v1, some v2, some v3 =>
        (match b64Dec rest with
         | .ok r => .ok (UInt8.ofNat (v0 * 4 + v1 / 16) :: UInt8.ofNat (v1 % 16 * 16 + v2 / 4) ::
                         UInt8.ofNat (v2 % 4 * 64 + v3) :: r)
         | .err e => .err e
         | .panic s => .panic s)
      | _, _, _, _ => .err "invalid symbol"
  | _ => .err "invalid length"

/-- `Display for PartiallySignedTransaction`: base64 of the binary serialization (`ser` is C07's codec) -/
def psetShow {α} (ser : α → Bytes) (p : α) : Str := b64Enc (ser p)

/-- `FromStr for PartiallySignedTransaction` -/
def psetParse {α} (de : Bytes → Res α) (cs : Str) : Res α :=
  match b64Dec cs with
  | .ok b => de b
  | .err e => .err e
  | .panic s => .panic s

end EV.Text
