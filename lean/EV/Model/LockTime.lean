/-
  EV.Model.LockTime — absolute lock times (`src/locktime.rs`: `LockTime`, `Height`, `Time`) and input
  sequence numbers (`src/transaction.rs`: `Sequence`), function by function as coded.

  Integers are `Nat`; the Rust widths (`u32` values, `u16` arguments) are hypotheses of the theorems
  (`EV/Props/C08.lean`, section "lock times and sequence numbers"), not of the definitions.  A fallible
  API returns `Res` (`ok | err | panic site`); the two `expect("n is valid")` of `LockTime::from_consensus`
  are explicit panic branches.  Every literal of the Rust source (`LOCK_TIME_THRESHOLD`, `LockTime::ZERO`,
  the `Sequence` constants and masks, the 512-second divisors, the alternate `Display` texts) is
  `EV.Gen.*`, regenerated from /repo by tools/extract.d/locktime.py on every run.
  Decimal `Display` / `FromStr` reuse `EV.Text` (`showNat`, `parseU32` = `parse::int::<u32>`).
-/
import EV.Model.Text
import EV.Model.Pset
import EV.Gen.Consts
namespace EV.Lock
open EV

/-! ### src/locktime.rs -/

/-- `fn is_block_height(n: u32) -> bool` (private): `n < LOCK_TIME_THRESHOLD` -/
def isBlockHeight (n : Nat) : Bool := decide (n < Gen.lockTimeThreshold)

/-- `fn is_block_time(n: u32) -> bool` (private): `n >= LOCK_TIME_THRESHOLD` -/
def isBlockTime (n : Nat) : Bool := decide (n ≥ Gen.lockTimeThreshold)

/-- `pub struct Height(u32)` -/
structure Height where
  n : Nat
  deriving DecidableEq, Repr

/-- `pub struct Time(u32)` -/
structure Time where
  n : Nat
  deriving DecidableEq, Repr

/-- derived `Ord` of a `u32` newtype: `a.cmp(b)` -/
def cmpNat (a b : Nat) : Ordering := if a < b then .lt else if a = b then .eq else .gt

namespace Height
/-- `Height::ZERO` -/
def zero : Height := ⟨Gen.heightZero⟩
/-- `Height::from_consensus` -/
def fromConsensus (n : Nat) : Res Height :=
  if isBlockHeight n then .ok ⟨n⟩ else .err "Conversion(invalid_height)"
/-- `Height::to_consensus_u32` -/
def toConsensusU32 (h : Height) : Nat := h.n
/-- derived `PartialOrd`/`Ord`: `a <= b` -/
def le (a b : Height) : Bool := decide (a.n ≤ b.n)
/-- derived `Ord::cmp` -/
def cmp (a b : Height) : Ordering := cmpNat a.n b.n
/-- `Display for Height`: the inner `u32` -/
def display (h : Height) : Text.Str := Text.showNat h.n
/-- `FromStr for Height` (and the three `TryFrom` impls): `parse::int(s)?` then `Height::from_consensus` -/
def fromStr (cs : Text.Str) : Res Height :=
  match Text.parseU32 cs with
  | .ok n => fromConsensus n
  | .err _ => .err "Parse"
  | .panic s => .panic s
/-- the values the type guarantees ("guaranteed to always contain a valid height value") -/
def Valid (h : Height) : Prop := h.n < Gen.lockTimeThreshold
instance (h : Height) : Decidable h.Valid := inferInstanceAs (Decidable (_ < _))
end Height

namespace Time
/-- `Time::from_consensus` -/
def fromConsensus (n : Nat) : Res Time :=
  if isBlockTime n then .ok ⟨n⟩ else .err "Conversion(invalid_time)"
/-- `Time::to_consensus_u32` -/
def toConsensusU32 (t : Time) : Nat := t.n
/-- derived `PartialOrd`/`Ord`: `a <= b` -/
def le (a b : Time) : Bool := decide (a.n ≤ b.n)
/-- derived `Ord::cmp` -/
def cmp (a b : Time) : Ordering := cmpNat a.n b.n
/-- `Display for Time`: the inner `u32` -/
def display (t : Time) : Text.Str := Text.showNat t.n
/-- `FromStr for Time` (and the three `TryFrom` impls): `parse::int(s)?` then `Time::from_consensus` -/
def fromStr (cs : Text.Str) : Res Time :=
  match Text.parseU32 cs with
  | .ok n => fromConsensus n
  | .err _ => .err "Parse"
  | .panic s => .panic s
/-- the values the type guarantees: a `u32` at or above the threshold -/
def Valid (t : Time) : Prop := Gen.lockTimeThreshold ≤ t.n ∧ t.n < 2^32
instance (t : Time) : Decidable t.Valid := inferInstanceAs (Decidable (_ ∧ _))
end Time

/-- `pub enum LockTime { Blocks(Height), Seconds(Time) }` -/
inductive LockTime where
  | blocks (h : Height)
  | seconds (t : Time)
  deriving DecidableEq, Repr

namespace LockTime

/-- `LockTime::ZERO` -/
def zero : LockTime := if Gen.lockTimeZero.1 then .blocks ⟨Gen.lockTimeZero.2⟩ else .seconds ⟨Gen.lockTimeZero.2⟩

/-- `LockTime::from_consensus`: the branch on `is_block_height(n)`, then the checked constructor of that
    branch with `.expect("n is valid")` -/
def fromConsensus (n : Nat) : Res LockTime :=
  if isBlockHeight n then
    match Height.fromConsensus n with
    | .ok h => .ok (.blocks h)
    | _ => .panic "LockTime::from_consensus: Height::from_consensus(n).expect(\"n is valid\")"
  else
    match Time.fromConsensus n with
    | .ok t => .ok (.seconds t)
    | _ => .panic "LockTime::from_consensus: Time::from_consensus(n).expect(\"n is valid\")"

/-- `LockTime::from_height`: `Height::from_consensus(n)?` -/
def fromHeight (n : Nat) : Res LockTime :=
  match Height.fromConsensus n with
  | .ok h => .ok (.blocks h)
  | .err e => .err e
  | .panic s => .panic s

/-- `LockTime::from_time`: `Time::from_consensus(n)?` -/
def fromTime (n : Nat) : Res LockTime :=
  match Time.fromConsensus n with
  | .ok t => .ok (.seconds t)
  | .err e => .err e
  | .panic s => .panic s

/-- `From<Height> for LockTime` -/
def ofHeight (h : Height) : LockTime := .blocks h
/-- `From<Time> for LockTime` -/
def ofTime (t : Time) : LockTime := .seconds t

/-- `LockTime::is_same_unit`: equal `mem::discriminant` -/
def isSameUnit : LockTime → LockTime → Bool
  | .blocks _, .blocks _ => true
  | .seconds _, .seconds _ => true
  | _, _ => false

/-- `LockTime::is_block_height` (the method) -/
def isBlockHeight : LockTime → Bool
  | .blocks _ => true
  | .seconds _ => false

/-- `LockTime::is_block_time`: `!self.is_block_height()` -/
def isBlockTime (l : LockTime) : Bool := !l.isBlockHeight

/-- `LockTime::is_satisfied_by(height, time)` -/
def isSatisfiedBy (l : LockTime) (height : Height) (time : Time) : Bool :=
  match l with
  | .blocks n => n.le height
  | .seconds n => n.le time

/-- `LockTime::to_consensus_u32` -/
def toConsensusU32 : LockTime → Nat
  | .blocks h => h.toConsensusU32
  | .seconds t => t.toConsensusU32

/-- `PartialOrd for LockTime`: the inner comparison within a unit, `None` across units -/
def partialCmp : LockTime → LockTime → Option Ordering
  | .blocks a, .blocks b => some (a.cmp b)
  | .seconds a, .seconds b => some (a.cmp b)
  | _, _ => none

/-- the provided methods of `PartialOrd`: `<`, `<=`, `>`, `>=` in terms of `partial_cmp` -/
def lt (a b : LockTime) : Bool := partialCmp a b == some .lt
def le (a b : LockTime) : Bool := partialCmp a b == some .lt || partialCmp a b == some .eq
def gt (a b : LockTime) : Bool := partialCmp a b == some .gt
def ge (a b : LockTime) : Bool := partialCmp a b == some .gt || partialCmp a b == some .eq

/-- `Display for LockTime`: `{}` delegates to the inner value, `{:#}` (alternate) wraps it in the unit text -/
def display (alternate : Bool) : LockTime → Text.Str
  | .blocks h =>
    if alternate then Gen.lockTimeAltHeightPrefix.toList ++ h.display ++ Gen.lockTimeAltHeightSuffix.toList
    else h.display
  | .seconds t =>
    if alternate then Gen.lockTimeAltTimePrefix.toList ++ t.display ++ Gen.lockTimeAltTimeSuffix.toList
    else t.display

/-- `FromStr for LockTime` (`impl_parse_str_through_int!(LockTime, from_consensus)`):
    `parse::int(s).map(LockTime::from_consensus)` -/
def fromStr (cs : Text.Str) : Res LockTime :=
  match Text.parseU32 cs with
  | .ok n => fromConsensus n
  | .err _ => .err "Parse"
  | .panic s => .panic s

/-- the values of the type: the payload of each variant is valid for its type -/
def Valid : LockTime → Prop
  | .blocks h => h.Valid
  | .seconds t => t.Valid

instance (l : LockTime) : Decidable l.Valid := by
  cases l <;> simp only [Valid] <;> infer_instance

end LockTime

/-! ### src/transaction.rs: `Sequence` -/

/-- `pub struct Sequence(pub u32)` -/
structure Sequence where
  n : Nat
  deriving DecidableEq, Repr

namespace Sequence

/-- `Sequence::MAX` -/
def max : Sequence := ⟨Gen.sequenceMax⟩
/-- `Sequence::ZERO` -/
def zero : Sequence := ⟨Gen.sequenceZero⟩
/-- `Sequence::MIN_NO_RBF` (private) -/
def minNoRbf : Sequence := ⟨Gen.sequenceMinNoRbf⟩
/-- `Sequence::ENABLE_LOCKTIME_NO_RBF` -/
def enableLocktimeNoRbf : Sequence := ⟨Gen.sequenceEnableLocktimeNoRbf⟩
/-- `Sequence::ENABLE_RBF_NO_LOCKTIME` -/
def enableRbfNoLocktime : Sequence := ⟨Gen.sequenceEnableRbfNoLocktime⟩
/-- `Sequence::LOCK_TIME_DISABLE_FLAG_MASK` (private) -/
def lockTimeDisableFlagMask : Nat := Gen.sequenceLockTimeDisableFlagMask
/-- `Sequence::LOCK_TYPE_MASK` (private) -/
def lockTypeMask : Nat := Gen.sequenceLockTypeMask
/-- `Default for Sequence` -/
def default : Sequence := ⟨Gen.sequenceDefault⟩

/-- `Sequence::is_final`: `*self == Sequence::MAX` -/
def isFinal (s : Sequence) : Bool := s == max

/-- `Sequence::is_rbf`: `*self < Sequence::MIN_NO_RBF` (derived `PartialOrd` of the newtype) -/
def isRbf (s : Sequence) : Bool := decide (s.n < minNoRbf.n)

/-- `Sequence::is_relative_lock_time`: `self.0 & LOCK_TIME_DISABLE_FLAG_MASK == 0` -/
def isRelativeLockTime (s : Sequence) : Bool := s.n &&& lockTimeDisableFlagMask == 0

/-- `Sequence::is_height_locked`: `self.is_relative_lock_time() && self.0 & LOCK_TYPE_MASK == 0` -/
def isHeightLocked (s : Sequence) : Bool := s.isRelativeLockTime && s.n &&& lockTypeMask == 0

/-- `Sequence::is_time_locked`: `self.is_relative_lock_time() && self.0 & LOCK_TYPE_MASK > 0` -/
def isTimeLocked (s : Sequence) : Bool := s.isRelativeLockTime && decide (s.n &&& lockTypeMask > 0)

/-- `Sequence::from_height(height: u16)`: `Sequence(u32::from(height))` -/
def fromHeight (height : Nat) : Sequence := ⟨height⟩

/-- `Sequence::from_512_second_intervals(intervals: u16)`: `Sequence(u32::from(intervals) | LOCK_TYPE_MASK)` -/
def from512SecondIntervals (intervals : Nat) : Sequence := ⟨intervals ||| lockTypeMask⟩

/-- `u16::try_from(x: u32)` -/
def u16TryFrom (x : Nat) : Option Nat := if x < 2^16 then some x else none

/-- `Sequence::from_seconds_floor(seconds: u32)`: `u16::try_from(seconds / 512)`, else `IntegerOverflow` -/
def fromSecondsFloor (seconds : Nat) : Res Sequence :=
  match u16TryFrom (seconds / Gen.sequenceFloorGranularity) with
  | some interval => .ok (from512SecondIntervals interval)
  | none => .err "IntegerOverflow"

/-- `u32::div_ceil(self, rhs)` (core): `let d = self / rhs; let r = self % rhs; if r > 0 { d + 1 } else { d }`
    (`d + 1` cannot overflow: a remainder exists only for `rhs ≥ 2`, then `d ≤ u32::MAX / 2`) -/
def divCeil (a b : Nat) : Nat := if a % b > 0 then a / b + 1 else a / b

/-- `Sequence::from_seconds_ceil(seconds: u32)`: `u16::try_from(seconds.div_ceil(512))`, else `IntegerOverflow` -/
def fromSecondsCeil (seconds : Nat) : Res Sequence :=
  match u16TryFrom (divCeil seconds Gen.sequenceCeilGranularity) with
  | some interval => .ok (from512SecondIntervals interval)
  | none => .err "IntegerOverflow"

/-- `Sequence::enables_absolute_lock_time`: `!self.is_final()` -/
def enablesAbsoluteLockTime (s : Sequence) : Bool := !s.isFinal

/-- `Sequence::from_consensus` -/
def fromConsensus (n : Nat) : Sequence := ⟨n⟩

/-- `Sequence::to_consensus_u32`, `From<Sequence> for u32` -/
def toConsensusU32 (s : Sequence) : Nat := s.n

/-- derived `Ord::cmp` -/
def cmp (a b : Sequence) : Ordering := cmpNat a.n b.n

/-- `Display for Sequence`: the inner `u32` -/
def display (s : Sequence) : Text.Str := Text.showNat s.n
/-- `LowerHex for Sequence`: `{:x}` of the inner `u32` -/
def lowerHex (s : Sequence) : Text.Str := Text.showBase 16 s.n
/-- `UpperHex for Sequence`: `{:X}` of the inner `u32` -/
def upperHex (s : Sequence) : Text.Str := (Text.showBase 16 s.n).map Char.toUpper

/-- `FromStr for Sequence` (`impl_parse_str_through_int!(Sequence)`): `parse::int(s).map(Sequence)` -/
def fromStr (cs : Text.Str) : Res Sequence :=
  match Text.parseU32 cs with
  | .ok n => .ok ⟨n⟩
  | .err _ => .err "Parse"
  | .panic s => .panic s

/-- the values of the type -/
def Valid (s : Sequence) : Prop := s.n < 2^32
instance (s : Sequence) : Decidable s.Valid := inferInstanceAs (Decidable (_ < _))

end Sequence

/-! ### `PartiallySignedTransaction::locktime` with the types of the Rust code

`EV.locktimeOf` (EV/Model/Pset.lean) computes on bare numbers.  The code computes on `Time` and `Height`
and converts at the end (`x.into()`, `fallback_locktime.unwrap_or(LockTime::ZERO)`); this is the same
function with those types kept. -/

/-- the per-input requirement pair as typed in `pset::Input`:
    (`required_time_locktime: Option<Time>`, `required_height_locktime: Option<Height>`) -/
abbrev TypedReq := Option Time × Option Height

/-- forget the types: the view `EV.locktimeOf` works on -/
def TypedReq.erase (r : TypedReq) : LockReq := (r.1.map (·.n), r.2.map (·.n))

/-- the final `match` of `locktime()` with typed results: `Ok(fallback.unwrap_or(LockTime::ZERO))`,
    `Ok(x.into())` from the height arm first, then from the time arm -/
def lockFinalTyped (fallback : Option LockTime) : LockState × LockState → Res LockTime
  | (.unconstrained, .unconstrained) => .ok (fallback.getD LockTime.zero)
  | (_, .minimum x) => .ok (LockTime.ofHeight ⟨x⟩)
  | (.minimum x, _) => .ok (LockTime.ofTime ⟨x⟩)
  | (.disallowed, .disallowed) => .err "LocktimeConflict"
  | (.unconstrained, .disallowed) => .panic "locktime: unreachable (Unconstrained, Disallowed)"
  | (.disallowed, .unconstrained) => .panic "locktime: unreachable (Disallowed, Unconstrained)"

/-- `PartiallySignedTransaction::locktime` returning the `LockTime` the code returns -/
def locktimeTyped (fallback : Option LockTime) (reqs : List TypedReq) : Res LockTime :=
  lockFinalTyped fallback (lockFold (reqs.map TypedReq.erase))

/-- the lock-time requirements of one input, each viewed as a `LockTime` (`LockTime::from`) -/
def reqLocks (r : LockReq) : List LockTime :=
  (match r.1 with | some t => [LockTime.ofTime ⟨t⟩] | none => []) ++
  (match r.2 with | some h => [LockTime.ofHeight ⟨h⟩] | none => [])

end EV.Lock
