/-
  EV.Model.Genesis — genesis blocks and chain hashes (src/genesis.rs):
  `NetworkParams::{new, liquidv1, liquidtestnet, custom_network}`,
  `commit_to_custom_network_parameters`, `liquid_genesis_tx`, `liquid_genesis_asset_tx`,
  `genesis_block`, `ChainHash::{LIQUIDV1, LIQUIDTESTNET, for_params}`, and the bitcoin merkle root
  (`bitcoin::merkle_tree::calculate_root`, bitcoin 0.32) that `genesis_block` calls.

  The file only COMPOSES what the model already has: transactions and `txid` (EV.Model.Transaction /
  Block), headers and `block_hash` (EV.Model.Block), the issuance id derivation (EV.Model.Issuance),
  the script `Builder` (EV.Model.Script) and lower-case hex (EV.Model.Text).  Hash functions are
  parameters (`GHashes` = `Hashes` + single SHA-256).  Every literal of the Rust source comes from
  `EV.Gen` (tools/extract.d/genesis.py).

  A `network_id : String` is its UTF-8 byte string (`as_bytes()`), which is what gets hashed.
  `Option` = the Rust call would panic (`push_slice` of ≥ 4 GiB, `fast_merkle_root`, `expect`).
  Core Lean only.
-/
import EV.Model.Issuance
import EV.Model.Script
import EV.Model.Text
import EV.Gen.Consts
namespace EV.Genesis
open EV EV.Codec

/-- the hashes `genesis_block` uses: double SHA-256 (txid, merkle node, block hash), the SHA-256
    midstate combiner of `fast_merkle_root` (asset entropy / id) and single SHA-256 (the commitment) -/
structure GHashes extends Hashes where
  sha256 : Bytes → Bytes

def ofNats (l : List Nat) : Bytes := l.map UInt8.ofNat

/-- `[b; 32]` -/
def rep32 (b : Nat) : Bytes := List.replicate 32 (UInt8.ofNat b)

/-- `genesis::NetworkParams` -/
structure NetworkParams where
  /-- `network_id.as_bytes()` -/
  networkId : Bytes
  fedpegScript : Bytes
  signBlockScript : Bytes
  /-- `u64` -/
  initialFreeCoins : Nat
  deriving Repr, DecidableEq

/-- `script::Builder::new().push_opcode(c).into_script()` -/
def opcodeScript (c : UInt8) : Bytes := (Script.Builder.new.pushOpcode c).bytes

namespace NetworkParams
/-- `NetworkParams::new` -/
def new (networkId fedpeg signBlock : Bytes) (coins : Nat) : NetworkParams := ⟨networkId, fedpeg, signBlock, coins⟩

/-- `NetworkParams::liquidv1` -/
def liquidv1 : NetworkParams :=
  { networkId := ofNats Gen.genesisLiquidv1NetworkId
    fedpegScript := ofNats Gen.genesisLiquidv1Fedpeg
    signBlockScript := ofNats Gen.genesisLiquidv1SignBlock
    initialFreeCoins := Gen.genesisLiquidv1Coins }

/-- `NetworkParams::liquidtestnet` -/
def liquidtestnet : NetworkParams :=
  { networkId := ofNats Gen.genesisLiquidtestnetNetworkId
    fedpegScript := opcodeScript Gen.genesisLiquidtestnetFedpegOpcode
    signBlockScript := ofNats Gen.genesisLiquidtestnetSignBlock
    initialFreeCoins := Gen.genesisLiquidtestnetCoins }

/-- `NetworkParams::custom_network`: `unwrap_or_else` / `unwrap_or` defaults -/
def customNetwork (networkId : Bytes) (fedpeg signBlock : Option Bytes) (coins : Option Nat) : NetworkParams :=
  { networkId := networkId
    fedpegScript := fedpeg.getD (opcodeScript Gen.genesisCustomFedpegDefaultOpcode)
    signBlockScript := signBlock.getD (opcodeScript Gen.genesisCustomSignBlockDefaultOpcode)
    initialFreeCoins := coins.getD Gen.genesisCustomCoinsDefault }
end NetworkParams

/-- the ASCII byte of a lower-case hex digit (`Table::LOWER` of hex-conservative): `0`–`9`, `a`–`f` -/
def hexDigitByte (n : Nat) : UInt8 := if n < 10 then UInt8.ofNat (48 + n) else UInt8.ofNat (87 + n)

/-- `BytesToHexIter::new(.., Case::Lower).flatten()` fed to the engine one char at a time: the ASCII
    bytes of the lower-case hex string, high nibble first.  This is `Text.hexStr` (the lower-case hex of
    EV.Model.Text) read as bytes — `hexAscii_eq_hexStr` in EV.Proofs.Genesis; it is spelled out on bytes
    so that the kernel can evaluate it without going through `Char`. -/
def hexAscii (bs : Bytes) : Bytes := bs.flatMap fun b => [hexDigitByte (b.toNat / 16), hexDigitByte (b.toNat % 16)]

/-- what `commit_to_custom_network_parameters` feeds to the SHA-256 engine, in order:
    the network id, the hex of the fedpeg script, the hex of the sign-block script (no separators) -/
def commitPreimage (p : NetworkParams) : Bytes :=
  p.networkId ++ hexAscii p.fedpegScript ++ hexAscii p.signBlockScript

/-- `commit_to_custom_network_parameters` -/
def commit (sha256 : Bytes → Bytes) (p : NetworkParams) : Bytes := sha256 (commitPreimage p)

/-! ### `bitcoin::merkle_tree::calculate_root` -/

/-- one level (the `while let` loop of `calculate_root` and the `for idx` loop of `merkle_root_r`):
    adjacent pairs are hashed (`sha256d` of the two 32-byte values concatenated), an unpaired last
    element is paired with itself -/
def btcPairs (sha256d : Bytes → Bytes) : List Bytes → List Bytes
  | a :: b :: rest => sha256d (a ++ b) :: btcPairs sha256d rest
  | [a] => [sha256d (a ++ a)]
  | [] => []

/-- `merkle_root_r`: "`hashes` must contain at least one hash" (`[]` would index out of bounds);
    `fuel` bounds the recursion depth (every level at least halves a list of two or more) -/
def btcRootR (sha256d : Bytes → Bytes) : Nat → List Bytes → Option Bytes
  | _, [] => none
  | _, [a] => some a
  | 0, _ :: _ :: _ => none
  | fuel + 1, a :: b :: rest => btcRootR sha256d fuel (btcPairs sha256d (a :: b :: rest))

/-- `calculate_root`: Rust `None` for the empty iterator (which is also this model's `none`: the
    recursion itself never fails, see `btc_merkle_total`), the single hash itself, otherwise the
    first level is built while copying and `merkle_root_r` does the rest -/
def btcMerkleRoot (sha256d : Bytes → Bytes) : List Bytes → Option Bytes
  | [] => none
  | [a] => some a
  | a :: b :: rest => btcRootR sha256d (rest.length + 2) (btcPairs sha256d (a :: b :: rest))

/-! ### the two genesis transactions -/

/-- `liquid_genesis_tx`: one coinbase-like input whose scriptSig pushes the commitment, one
    `OP_RETURN` output of value 0 of the all-zero asset -/
def genesisTx (G : GHashes) (p : NetworkParams) : Option Tx :=
  let c := commit G.sha256 p
  match Script.Builder.new.pushSlice c with
  | none => none
  | some b =>
    some
      { version := Gen.genesisTxVersion
        lockTime := 0
        input := [
          { previousOutput := OutPoint.null
            isPegin := false
            scriptSig := b.bytes
            sequence := Gen.sequenceMax
            assetIssuance := AssetIssuance.null
            witness := TxInWitness.empty }]
        output := [
          { asset := .explicit (List.replicate 32 0)
            value := .explicit Gen.genesisTxOutValue
            nonce := .null
            scriptPubkey := opcodeScript Gen.genesisTxOutOpcode
            witness := TxOutWitness.empty }] }

/-- `liquid_genesis_asset_tx`: outer `none` = panic, inner `none` = the function's `None`
    (no free coins).  The input spends output `0` of a "transaction" whose id is the commitment and
    issues `initial_free_coins` of the asset derived from that outpoint and the zero contract hash. -/
def genesisAssetTx (G : GHashes) (p : NetworkParams) : Option (Option Tx) :=
  let c := commit G.sha256 p
  let amount := p.initialFreeCoins
  if amount = 0 then some none
  else
    let outpoint : OutPoint := ⟨c, Gen.genesisAssetVout⟩
    let contractHash := rep32 Gen.genesisAssetContractByte
    match Issuance.generateAssetEntropy G.toHashes outpoint contractHash with
    | none => none
    | some entropy =>
      match Issuance.fromEntropy G.toHashes entropy with
      | none => none
      | some assetId =>
        some (some
          { version := Gen.genesisAssetTxVersion
            lockTime := 0
            input := [
              { previousOutput := outpoint
                isPegin := false
                scriptSig := []
                sequence := Gen.sequenceMax
                assetIssuance :=
                  { nonce := List.replicate 32 0
                    entropy := rep32 Gen.genesisAssetEntropyByte
                    amount := .explicit amount
                    inflationKeys := .explicit Gen.genesisAssetInflationKeys }
                witness := TxInWitness.empty }]
            output := [
              { asset := .explicit assetId
                value := .explicit amount
                nonce := .null
                scriptPubkey := opcodeScript Gen.genesisAssetTxOutOpcode
                witness := TxOutWitness.empty }] })

/-- the header of `genesis_block` for a given merkle root -/
def genesisHeader (p : NetworkParams) (merkleRoot : Bytes) : BlockHeader :=
  { version := Gen.genesisHeaderVersion
    prevBlockhash := rep32 Gen.genesisPrevBlockHashByte
    merkleRoot := merkleRoot
    time := Gen.genesisHeaderTime
    height := Gen.genesisHeaderHeight
    ext := .proof p.signBlockScript [] }

/-- `genesis_block` -/
def genesisBlock (G : GHashes) (p : NetworkParams) : Option Block :=
  match genesisTx G p with
  | none => none
  | some tx =>
    match genesisAssetTx G p with
    | none => none
    | some (some assetTx) =>
      match btcMerkleRoot G.sha256d [tx.txid G.toHashes, assetTx.txid G.toHashes] with
      | none => none          -- `.expect("merkle root")`
      | some root => some ⟨genesisHeader p root, [tx, assetTx]⟩
    | some none => some ⟨genesisHeader p (tx.txid G.toHashes), [tx]⟩

/-- `ChainHash::for_params`: the block hash of the genesis block -/
def chainHash (G : GHashes) (p : NetworkParams) : Option Bytes :=
  (genesisBlock G p).map (fun b => b.header.blockHash G.toHashes)

/-- `ChainHash::LIQUIDV1`, `ChainHash::LIQUIDTESTNET` -/
def chainHashLiquidv1 : Bytes := ofNats Gen.chainHashLiquidv1
def chainHashLiquidtestnet : Bytes := ofNats Gen.chainHashLiquidtestnet

end EV.Genesis
