/-
  EV.Model.FastMerkle — `fast_merkle_root` (src/fast_merkle_root.rs) as coded:
  a 32-slot `inner` array, a `u32` counter, the carry loop per leaf and the final
  sweep.  Generic over the node type `α` and the combining function `comb`
  (in the driver: the SHA-256 midstate of `l ‖ r`), so that theorems never look
  inside the hash.  Loops take fuel; u32 overflow, shift overflow and indexing out
  of the 32 slots are explicit `none` (= the Rust code would panic).
-/
import EV.Model.Bytes
namespace EV.FastMerkle

variable {α : Type}

/-- `inner[level] = v` -/
def setSlot (inner : List α) (level : Nat) (v : α) : List α := inner.set level v

/-- The carry loop: `while count & (1 << level) == 0 { temp = comb inner[level] temp; level += 1 }`.
    Returns `none` where Rust would panic (shift ≥ 32 or index ≥ 32) or when fuel runs out. -/
def carry (comb : α → α → α) (inner : List α) (count : Nat) : Nat → Nat → α → Option (Nat × α)
  | 0, _, _ => none
  | fuel+1, level, temp =>
    if level ≥ 32 then none
    else if count.testBit level then some (level, temp)
    else match inner[level]? with
      | none => none
      | some x => carry comb inner count fuel (level+1) (comb x temp)

/-- Processing of one leaf in the first loop. -/
def pushLeaf (comb : α → α → α) (st : List α × Nat) (leaf : α) : Option (List α × Nat) :=
  let (inner, count) := st
  let count' := count + 1
  if count' ≥ 2^32 then none       -- `count += 1` overflows u32 (debug: panic)
  else match carry comb inner count' 33 0 leaf with
    | none => none
    | some (level, temp) => some (setSlot inner level temp, count')

def pushAll (comb : α → α → α) : List α × Nat → List α → Option (List α × Nat)
  | st, [] => some st
  | st, l :: ls => match pushLeaf comb st l with
    | none => none
    | some st' => pushAll comb st' ls

/-- `while count & (1 << level) == 0 { level += 1 }` -/
def lowestSet (count : Nat) : Nat → Nat → Option Nat
  | 0, _ => none
  | fuel+1, level =>
    if level ≥ 32 then none
    else if count.testBit level then some level
    else lowestSet count fuel (level+1)

/-- inner `while` of the sweep -/
def sweepInner (comb : α → α → α) (inner : List α) (count : Nat) : Nat → Nat → α → Option (Nat × α)
  | 0, _, _ => none
  | fuel+1, level, res =>
    if level ≥ 32 then none
    else if count.testBit level then some (level, res)
    else match inner[level]? with
      | none => none
      | some x => sweepInner comb inner count fuel (level+1) (comb x res)

/-- outer `while count != (1 << level)` of the sweep. `count` is a `u32`: additions wrap is a
    panic in debug builds, modelled as `none`. -/
def sweep (comb : α → α → α) (inner : List α) : Nat → Nat → Nat → α → Option α
  | 0, _, _, _ => none
  | fuel+1, count, level, res =>
    if level ≥ 32 then none
    else if count = 2^level then some res
    else
      let count' := count + 2^level
      if count' ≥ 2^32 then none
      else match sweepInner comb inner count' 34 (level+1) res with
        | none => none
        | some (level', res') => sweep comb inner fuel count' level' res'

/-- `fast_merkle_root` as coded. `zero` is `Midstate::default()`. -/
def fast (comb : α → α → α) (zero : α) (leaves : List α) : Option α :=
  if leaves.isEmpty then some zero
  else match pushAll comb (List.replicate 32 zero, 0) leaves with
    | none => none
    | some (inner, count) =>
      match lowestSet count 33 0 with
      | none => none
      | some level =>
        match inner[level]? with
        | none => none
        | some r => sweep comb inner 34 count level r

/-! ### Specification: the definitional tree -/

/-- one level: pair adjacent nodes left to right, promote an unpaired last node unchanged -/
def pairUp (comb : α → α → α) : List α → List α
  | a :: b :: rest => comb a b :: pairUp comb rest
  | [a] => [a]
  | [] => []

theorem pairUp_length_le (comb : α → α → α) : ∀ l : List α, (pairUp comb l).length ≤ l.length
  | a :: b :: rest => by
    have := pairUp_length_le comb rest
    simp [pairUp]; omega
  | [a] => by simp [pairUp]
  | [] => by simp [pairUp]

theorem pairUp_length_lt (comb : α → α → α) (a b : α) (rest : List α) :
    (pairUp comb (a :: b :: rest)).length < (a :: b :: rest).length := by
  have := pairUp_length_le comb rest
  simp [pairUp]; omega

/-- repeat until one node remains; empty list gives `zero` -/
def levelRoot (comb : α → α → α) (zero : α) : List α → α
  | [] => zero
  | [a] => a
  | a :: b :: rest => levelRoot comb zero (pairUp comb (a :: b :: rest))
termination_by l => l.length
decreasing_by exact pairUp_length_lt comb a b rest

end EV.FastMerkle
