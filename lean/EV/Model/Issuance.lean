/-
  EV.Model.Issuance — asset entropy, asset id and reissuance-token id
  (src/issuance.rs), `TxIn::issuance_ids` (src/transaction.rs), and the part of the
  PSET input that carries an issuance (src/pset/map/input.rs: `from_txin`,
  `asset_issuance`, `issuance_ids`, `is_pegin`, `has_issuance`) with the per-input
  part of `extract_tx` (src/pset/mod.rs).

  Byte order: `AssetId`, `AssetEntropy` (midstate wrappers) and `ContractHash`
  (a "backward" hash newtype) only *display* reversed; everything here is the
  in-memory byte array (`to_byte_array`), which is what gets hashed.

  `Option` = the Rust call would panic (`fast_merkle_root` indexing / overflow).
  The leaf constants come from the Rust source (`EV.Gen`, regenerated on every run).
-/
import EV.Model.Block
import EV.Gen.Consts
namespace EV
open Codec

namespace Issuance

/-- `ZERO_TWEAK` (secp256k1-zkp) / `[0u8; 32]` (`unwrap_or_default` of an entropy) -/
def zero32 : Bytes := List.replicate 32 0

/-- second leaf of the asset id: `ZERO32` -/
def assetLeaf : Bytes := EV.Gen.issuanceAssetLeaf.map UInt8.ofNat
/-- second leaf of the token id: `ONE32` (explicit amount) or `TWO32` (confidential amount) -/
def tokenLeaf (confidential : Bool) : Bytes :=
  (if confidential then EV.Gen.issuanceTokenLeafConfidential else EV.Gen.issuanceTokenLeafExplicit).map UInt8.ofNat

/-- `AssetId::generate_asset_entropy(prevout, contract_hash)` -/
def generateAssetEntropy (H : Hashes) (prevout : OutPoint) (contractHash : Bytes) : Option Bytes :=
  H.fmr [H.sha256d prevout.enc, contractHash]

/-- `AssetId::from_entropy` -/
def fromEntropy (H : Hashes) (entropy : Bytes) : Option Bytes := H.fmr [entropy, assetLeaf]

/-- `AssetId::reissuance_token_from_entropy` -/
def reissuanceTokenFromEntropy (H : Hashes) (entropy : Bytes) (confidential : Bool) : Option Bytes :=
  H.fmr [entropy, tokenLeaf confidential]

/-- `AssetId::new_issuance` -/
def newIssuance (H : Hashes) (prevout : OutPoint) (contractHash : Bytes) : Option Bytes :=
  match generateAssetEntropy H prevout contractHash with
  | none => none
  | some e => fromEntropy H e

/-- `AssetId::new_reissuance_token` -/
def newReissuanceToken (H : Hashes) (prevout : OutPoint) (contractHash : Bytes) (confidential : Bool) : Option Bytes :=
  match generateAssetEntropy H prevout contractHash with
  | none => none
  | some e => reissuanceTokenFromEntropy H e confidential

/-- the common tail of both `issuance_ids`: `(asset_id, token_id)` from the entropy -/
def idsOfEntropy (H : Hashes) (entropy : Option Bytes) (confidential : Bool) : Option (Bytes × Bytes) :=
  match entropy with
  | none => none
  | some e =>
    match fromEntropy H e, reissuanceTokenFromEntropy H e confidential with
    | some a, some t => some (a, t)
    | _, _ => none

end Issuance

namespace TxIn
/-- `TxIn::issuance_ids`: "does not check whether there is an issuance in this input";
    the outpoint is used as stored (plain index: the flags live in `is_pegin` / the issuance) -/
def issuanceIds (H : Hashes) (i : TxIn) : Option (Bytes × Bytes) :=
  let entropy :=
    if i.assetIssuance.nonce = Issuance.zero32 then
      Issuance.generateAssetEntropy H i.previousOutput i.assetIssuance.entropy
    else some i.assetIssuance.entropy
  Issuance.idsOfEntropy H entropy i.assetIssuance.amount.isConf
end TxIn

/-- the fields of `pset::Input` that `from_txin`, `asset_issuance`, `issuance_ids`, `is_pegin` and
    the input loop of `extract_tx` read or write -/
structure IssPsetInput where
  previousTxid : Bytes
  /-- `previous_output_index`: bit 30 = pegin, bit 31 = issuance, except for 0xffffffff -/
  previousOutputIndex : Nat
  sequence : Option Nat := none
  finalScriptSig : Option Bytes := none
  finalScriptWitness : Option (List Bytes) := none
  peginWitness : Option (List Bytes) := none
  issuanceValueAmount : Option Nat := none
  issuanceValueComm : Option Bytes := none
  issuanceValueRangeproof : Option Bytes := none
  issuanceKeysRangeproof : Option Bytes := none
  issuanceInflationKeys : Option Nat := none
  issuanceInflationKeysComm : Option Bytes := none
  issuanceBlindingNonce : Option Bytes := none
  issuanceAssetEntropy : Option Bytes := none
  deriving Repr, DecidableEq

namespace IssPsetInput

/-- `Input::from_prevout` -/
def fromPrevout (o : OutPoint) : IssPsetInput := { previousTxid := o.txid, previousOutputIndex := o.vout }

/-- `Input::from_txin` (`|=` on a `u32`: the index is < 2^32, so no truncation is involved) -/
def fromTxin (t : TxIn) : IssPsetInput :=
  let hasIss := t.hasIssuance
  let r : IssPsetInput :=
    { fromPrevout t.previousOutput with
      sequence := some t.sequence
      finalScriptSig := some t.scriptSig
      finalScriptWitness := some t.witness.scriptWitness }
  let r : IssPsetInput :=
    if t.isPegin then
      { r with previousOutputIndex := r.previousOutputIndex ||| 2^30, peginWitness := some t.witness.peginWitness }
    else r
  if hasIss then
    { r with
      previousOutputIndex := r.previousOutputIndex ||| 2^31
      issuanceBlindingNonce := some t.assetIssuance.nonce
      issuanceAssetEntropy := some t.assetIssuance.entropy
      issuanceValueAmount := (match t.assetIssuance.amount with | .explicit x => some x | _ => none)
      issuanceValueComm := (match t.assetIssuance.amount with | .conf c => some c | _ => none)
      issuanceInflationKeys := (match t.assetIssuance.inflationKeys with | .explicit x => some x | _ => none)
      issuanceInflationKeysComm := (match t.assetIssuance.inflationKeys with | .conf c => some c | _ => none)
      issuanceKeysRangeproof := t.witness.inflationKeysRangeproof
      issuanceValueRangeproof := t.witness.amountRangeproof }
  else r

/-- the `(amount, commitment)` pair as a `confidential::Value`: the commitment wins -/
def valueOf (amount : Option Nat) (comm : Option Bytes) : Value :=
  match amount, comm with
  | none, none => .null
  | _, some c => .conf c
  | some x, none => .explicit x

/-- `Input::asset_issuance` -/
def assetIssuance (p : IssPsetInput) : AssetIssuance :=
  { nonce := p.issuanceBlindingNonce.getD Issuance.zero32
    entropy := p.issuanceAssetEntropy.getD Issuance.zero32
    amount := valueOf p.issuanceValueAmount p.issuanceValueComm
    inflationKeys := valueOf p.issuanceInflationKeys p.issuanceInflationKeysComm }

/-- `Input::has_issuance` -/
def hasIssuance (p : IssPsetInput) : Bool := !p.assetIssuance.isNull

/-- `Input::is_pegin`: the coinbase index carries no flags -/
def isPegin (p : IssPsetInput) : Bool := p.previousOutputIndex != 0xffffffff && p.previousOutputIndex.testBit 30

/-- the index with the pegin/issuance flags removed
    (`if idx == 0xffff_ffff { idx } else { idx & !((1 << 30) | (1 << 31)) }` on a `u32`) -/
def plainIndex (idx : Nat) : Nat := if idx = 0xffffffff then idx else idx % 2^30

/-- `Input::issuance_ids` (as coded after the fix cbaa384: the entropy commits to the plain index) -/
def issuanceIds (H : Hashes) (p : IssPsetInput) : Option (Bytes × Bytes) :=
  let nonce := p.issuanceBlindingNonce.getD Issuance.zero32
  let entropy :=
    if nonce = Issuance.zero32 then
      Issuance.generateAssetEntropy H ⟨p.previousTxid, plainIndex p.previousOutputIndex⟩
        (p.issuanceAssetEntropy.getD Issuance.zero32)
    else some (p.issuanceAssetEntropy.getD Issuance.zero32)
  Issuance.idsOfEntropy H entropy p.issuanceValueComm.isSome

/-- the body of the input loop of `PartiallySignedTransaction::extract_tx` -/
def extractIn (p : IssPsetInput) : TxIn :=
  { previousOutput := ⟨p.previousTxid, plainIndex p.previousOutputIndex⟩
    isPegin := p.isPegin
    scriptSig := p.finalScriptSig.getD []
    sequence := p.sequence.getD 0xffffffff
    assetIssuance := p.assetIssuance
    witness :=
      { amountRangeproof := p.issuanceValueRangeproof
        inflationKeysRangeproof := p.issuanceKeysRangeproof
        scriptWitness := p.finalScriptWitness.getD []
        peginWitness := p.peginWitness.getD [] } }

end IssPsetInput
end EV
