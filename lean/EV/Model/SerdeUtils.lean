/-
  EV.Model.SerdeUtils — the hand-written helper (de)serializers of `src/serde_utils.rs` (`hex_bytes`,
  `btreemap_byte_values`, `btreemap_as_seq`, `btreemap_as_seq_byte_values`) as coded, generic in the key and
  value codecs, and the two small derived structs they are used with in PSET maps (`pset::raw::Key`,
  `pset::raw::ProprietaryKey`: serde's derived struct visitors, modelled for these two shapes only).
  A `BTreeMap` is the list of its entries in iteration order; `insert` replaces the value of an equal key or
  appends (the real map re-sorts; values are compared up to that order).
-/
import EV.Model.Serde
namespace EV.Serde
open EV EV.Text

/-! ### `BTreeMap` -/

def amInsert {κ ν} [DecidableEq κ] : List (κ × ν) → κ → ν → List (κ × ν)
  | [], k, v => [(k, v)]
  | (k', v') :: r, k, v => if k' = k then (k', v) :: r else (k', v') :: amInsert r k v

/-- the `visit_map` loop of `BTreeMap` (serde's own impl and the helper modules): every entry is parsed, key
    first, and inserted; the first error aborts -/
def collectMap {κ ν} [DecidableEq κ] (pk : SVal → Res κ) (pv : SVal → Res ν) :
    List (SVal × SVal) → List (κ × ν) → Res (List (κ × ν))
  | [], acc => .ok acc
  | (k, v) :: r, acc =>
    match pk k with
    | .ok k' =>
      (match pv v with
       | .ok v' => collectMap pk pv r (amInsert acc k' v')
       | .err e => .err e
       | .panic s => .panic s)
    | .err e => .err e
    | .panic s => .panic s

/-- the `visit_seq` loop over pairs (`(T, U)` / `OwnedPair`): each element is an array of exactly two -/
def collectPairs {κ ν} [DecidableEq κ] (pk : SVal → Res κ) (pv : SVal → Res ν) :
    List SVal → List (κ × ν) → Res (List (κ × ν))
  | [], acc => .ok acc
  | .seq [a, b] :: r, acc =>
    (match pk a with
     | .ok k' =>
       (match pv b with
        | .ok v' => collectPairs pk pv r (amInsert acc k' v')
        | .err e => .err e
        | .panic s => .panic s)
     | .err e => .err e
     | .panic s => .panic s)
  | _ :: _, _ => .err "invalid pair"

/-! ### `serde_utils::hex_bytes` -/

namespace HexBytes
/-- hex string when human readable, else the type's own impl (`Vec<u8>` / `&[u8]`: a sequence of `u8`) -/
def toS (h : Bool) (b : Bytes) : SVal := if h then sStr (hexStr b) else sVecU8 b
def ofS (h : Bool) : SVal → Res Bytes
  | .str s => if h then unhex s.toList else .err "invalid type"
  | .bytes b => if h then unhex (bytesAsStr b) else .err "invalid type"
  | .seq l => if h then .err "invalid type" else ofU8s l
  | _ => .err "invalid type"
end HexBytes

/-! ### `serde_utils::btreemap_byte_values` -/

namespace ByteValues
def toS {κ} (h : Bool) (tk : κ → SVal) (m : List (κ × Bytes)) : SVal :=
  .map (m.map fun e => (tk e.1, if h then sStr (hexStr e.2) else sVecU8 e.2))
/-- the value is read as a BORROWED `&str` when human readable (serde's `StrVisitor`: `visit_borrowed_str`, or
    `visit_borrowed_bytes` that are UTF-8; an owned / transient string is an error: finding C20-borrowed-str) -/
def ofVal (h : Bool) : SVal → Res Bytes
  | .str s => if h then unhex s.toList else .err "invalid type"
  | .bytes b => if h then unhex (bytesAsStr b) else .err "invalid type"
  | v => if h then .err "expected a borrowed string" else ofVecU8 v
def ofS {κ} [DecidableEq κ] (h : Bool) (pk : SVal → Res κ) : SVal → Res (List (κ × Bytes))
  | .map es => collectMap pk (ofVal h) es []
  | _ => .err "invalid type"
end ByteValues

/-! ### `serde_utils::btreemap_as_seq` -/

namespace AsSeq
def toS {κ ν} (h : Bool) (tk : κ → SVal) (tv : ν → SVal) (m : List (κ × ν)) : SVal :=
  if h then .seq (m.map fun e => .tuple [tk e.1, tv e.2]) else .map (m.map fun e => (tk e.1, tv e.2))
def ofS {κ ν} [DecidableEq κ] (h : Bool) (pk : SVal → Res κ) (pv : SVal → Res ν) : SVal → Res (List (κ × ν))
  | .seq l => if h then collectPairs pk pv l [] else .err "invalid type"
  | .map es => if h then .err "invalid type" else collectMap pk pv es []
  | _ => .err "invalid type"
end AsSeq

/-! ### `serde_utils::btreemap_as_seq_byte_values` -/

namespace AsSeqByteValues
def toS {κ} (h : Bool) (tk : κ → SVal) (m : List (κ × Bytes)) : SVal :=
  if h then .seq (m.map fun e => .tupleStruct "BorrowedPair" [tk e.1, HexBytes.toS h e.2])
  else .map (m.map fun e => (tk e.1, sVecU8 e.2))
def ofS {κ} [DecidableEq κ] (h : Bool) (pk : SVal → Res κ) : SVal → Res (List (κ × Bytes))
  | .seq l => if h then collectPairs pk (HexBytes.ofS h) l [] else .err "invalid type"
  | .map es => if h then .err "invalid type" else collectMap pk ofVecU8 es []
  | _ => .err "invalid type"
end AsSeqByteValues

/-! ### serde's derived struct visitor, for the key structs of the PSET maps -/

/-- derived field identifier: by name, by index, or by name as bytes; an unknown name or index is ignored
    (`__ignore`); any other token is an error -/
def derivedKey (names : List String) : SVal → Res (Option Nat)
  | .str s => .ok (names.idxOf? s)
  | .num _ i => .ok (if i < names.length then some i else none)
  | .bytes b => .ok ((names.map fun n => n.toUTF8.toList).idxOf? b)
  | _ => .err "invalid type: field identifier"

/-- the slot of field number `i` after the derived `visit_map` loop: a second occurrence is a
    `duplicate field` error, values are parsed when met -/
def dSlot {α} (names : List String) (i : Nat) (p : SVal → Res α) : List (SVal × SVal) → Option α → Res (Option α)
  | [], acc => .ok acc
  | (k, v) :: r, acc =>
    match derivedKey names k with
    | .ok (some j) =>
      if j = i then
        (if acc.isSome then .err "duplicate field"
         else match p v with
           | .ok a => dSlot names i p r (some a)
           | .err e => .err e
           | .panic s => .panic s)
      else dSlot names i p r acc
    | .ok none => dSlot names i p r acc
    | .err e => .err e
    | .panic s => .panic s

def dField {α} (names : List String) (i : Nat) (p : SVal → Res α) (es : List (SVal × SVal)) : Res α :=
  match dSlot names i p es none with
  | .ok (some a) => .ok a
  | .ok none => .err "missing field"
  | .err e => .err e
  | .panic s => .panic s

/-- `pset::raw::Key { type_value: u8, #[serde(with = hex_bytes)] key: Vec<u8> }` -/
structure RawKey where
  typeValue : Nat
  key : Bytes
  deriving Repr, DecidableEq

namespace RawKey
def names : List String := ["type_value", "key"]
def toS (h : Bool) (k : RawKey) : SVal :=
  .struct "Key" [("type_value", .num 8 k.typeValue), ("key", HexBytes.toS h k.key)]
def ofS (h : Bool) : SVal → Res RawKey
  | .seq [a, b] =>
    (match ofNum 256 a with
     | .ok t =>
       (match HexBytes.ofS h b with
        | .ok k => .ok ⟨t, k⟩
        | .err e => .err e
        | .panic s => .panic s)
     | .err e => .err e
     | .panic s => .panic s)
  | .map es =>
    (match dField names 0 (ofNum 256) es with
     | .ok t =>
       (match dField names 1 (HexBytes.ofS h) es with
        | .ok k => .ok ⟨t, k⟩
        | .err e => .err e
        | .panic s => .panic s)
     | .err e => .err e
     | .panic s => .panic s)
  | _ => .err "invalid type"
def ok (k : RawKey) : Prop := k.typeValue < 256
end RawKey

/-- `pset::raw::ProprietaryKey { prefix (hex_bytes), subtype: u8, key (hex_bytes) }` -/
structure PropKey where
  pfx : Bytes
  subtype : Nat
  key : Bytes
  deriving Repr, DecidableEq

namespace PropKey
def names : List String := ["prefix", "subtype", "key"]
def toS (h : Bool) (k : PropKey) : SVal :=
  .struct "ProprietaryKey" [("prefix", HexBytes.toS h k.pfx), ("subtype", .num 8 k.subtype), ("key", HexBytes.toS h k.key)]
def ofS (h : Bool) : SVal → Res PropKey
  | .seq [a, b, c] =>
    (match HexBytes.ofS h a with
     | .ok p =>
       (match ofNum 256 b with
        | .ok t =>
          (match HexBytes.ofS h c with
           | .ok k => .ok ⟨p, t, k⟩
           | .err e => .err e
           | .panic s => .panic s)
        | .err e => .err e
        | .panic s => .panic s)
     | .err e => .err e
     | .panic s => .panic s)
  | .map es =>
    (match dField names 0 (HexBytes.ofS h) es with
     | .ok p =>
       (match dField names 1 (ofNum 256) es with
        | .ok t =>
          (match dField names 2 (HexBytes.ofS h) es with
           | .ok k => .ok ⟨p, t, k⟩
           | .err e => .err e
           | .panic s => .panic s)
        | .err e => .err e
        | .panic s => .panic s)
     | .err e => .err e
     | .panic s => .panic s)
  | _ => .err "invalid type"
def ok (k : PropKey) : Prop := k.subtype < 256
end PropKey


/-! ### an instance of `btreemap_as_seq`: `pset::Input::tap_script_sigs :
    BTreeMap<(XOnlyPublicKey, TapLeafHash), SchnorrSig>` (leaf impls of secp256k1; `SchnorrSig` is a derived struct) -/

/-- `secp256k1::XOnlyPublicKey`: hex of 32 bytes when human readable, else a 32-tuple of `u8`; `validX` is
    `XOnlyPublicKey::from_slice` on 32 bytes -/
def sXOnly (h : Bool) (x : Bytes) : SVal := if h then sStr (hexStr x) else .tuple (sU8s x)
def ofXOnly (validX : Bytes → Bool) (h : Bool) : SVal → Res Bytes
  | .str s =>
    if h then
      match unhex s.toList with
      | .ok b => if b.length = 32 ∧ validX b = true then .ok b else .err "invalid x-only key"
      | .err e => .err e
      | .panic s => .panic s
    else .err "invalid type"
  | .seq l =>
    if h then .err "invalid type"
    else match ofU8s l with
      | .ok b => if b.length = 32 ∧ validX b = true then .ok b else .err "invalid x-only key"
      | .err e => .err e
      | .panic s => .panic s
  | _ => .err "invalid type"

def kTapLeaf : HashKind := ⟨32, false⟩

/-- the key `(XOnlyPublicKey, TapLeafHash)`: serde's tuple impl -/
def sSigKey (h : Bool) (k : Bytes × Bytes) : SVal := .tuple [sXOnly h k.1, sHash kTapLeaf h k.2]
def ofSigKey (validX : Bytes → Bool) (h : Bool) : SVal → Res (Bytes × Bytes)
  | .seq [a, b] =>
    (match ofXOnly validX h a with
     | .ok x =>
       (match ofHash kTapLeaf h b with
        | .ok l => .ok (x, l)
        | .err e => .err e
        | .panic s => .panic s)
     | .err e => .err e
     | .panic s => .panic s)
  | _ => .err "invalid type"

/-- `secp256k1::schnorr::Signature`: hex of 64 bytes / 64 bytes -/
def sSig64 (h : Bool) (s : Bytes) : SVal := if h then sStr (hexStr s) else .bytes s
def ofSig64 (h : Bool) : SVal → Res Bytes
  | .str s =>
    if h then
      match unhex s.toList with
      | .ok b => if b.length = 64 then .ok b else .err "invalid signature"
      | .err e => .err e
      | .panic s => .panic s
    else .err "invalid type"
  | .bytes b => if h then .err "invalid type" else if b.length = 64 then .ok b else .err "invalid signature"
  | _ => .err "invalid type"

/-- `SchnorrSig { sig, hash_ty }` (derived struct; `hash_ty` is a `serde_string_impl!` type) -/
structure SchnorrSigM where
  sig : Bytes
  hashTy : Nat
  deriving Repr, DecidableEq

namespace SchnorrSigM
def names : List String := ["sig", "hash_ty"]
def toS (h : Bool) (s : SchnorrSigM) : SVal :=
  .struct "SchnorrSig" [("sig", sSig64 h s.sig), ("hash_ty", .str ((schnorrShow s.hashTy).getD ""))]
def ofS (h : Bool) : SVal → Res SchnorrSigM
  | .seq [a, b] =>
    (match ofSig64 h a with
     | .ok s =>
       (match stringOfS schnorrParse b with
        | .ok t => .ok ⟨s, t⟩
        | .err e => .err e
        | .panic s => .panic s)
     | .err e => .err e
     | .panic s => .panic s)
  | .map es =>
    (match dField names 0 (ofSig64 h) es with
     | .ok s =>
       (match dField names 1 (stringOfS schnorrParse) es with
        | .ok t => .ok ⟨s, t⟩
        | .err e => .err e
        | .panic s => .panic s)
     | .err e => .err e
     | .panic s => .panic s)
  | _ => .err "invalid type"
def ok (s : SchnorrSigM) : Prop := s.sig.length = 64 ∧ (schnorrShow s.hashTy).isSome = true
end SchnorrSigM

end EV.Serde
