/-
  EV.Model.AddressOps — `/repo/src/address.rs`: the conversions, inspectors and constructors of `Address` that
  `EV.Model.Address` (text forms) and `EV.Model.Script` (payload level of `from_script` / `script_pubkey`) leave out:

    `Address::{is_blinded, is_liquid, to_confidential, to_unconfidential}`, the derived `PartialEq` of
    `AddressParams` that `is_liquid` uses, `Address::script_pubkey` and `Address::from_script` on whole addresses
    (network and blinding key carried along), and the constructors `Address::{p2pkh, p2sh, p2wpkh, p2shwpkh,
    p2wsh, p2shwsh, p2tr, p2tr_tweaked}`.

  An address is `EV.Addr.Address` (bytes as `List Nat`, a blinding key as its 33-byte serialization); scripts are
  `Bytes`.  Hashes (`hash160` = RIPEMD160∘SHA256 of `PubkeyHash` / `WPubkeyHash` / `ScriptHash`, `sha256` of
  `WScriptHash`) and the taproot tweak (`EV.Taproot.EC`, `EV.Taproot.TapHashes`) are parameters.  Constants
  (which network `is_liquid` names, the `Fe32` version constant of each constructor, the pushed integer of the
  nested forms, the `expect` message) come from `EV.Gen` (tools/extract.d/c17_addrops.py).  Core Lean only.
-/
import EV.Model.Address
import EV.Model.Script
import EV.Model.Taproot
namespace EV.Addr
open EV.Bech32

/-! ## the two views of `address::Payload` -/

/-- a byte string as the list of its byte values -/
def natsOfBytes (b : Bytes) : List Nat := b.map UInt8.toNat
/-- a list of byte values as a byte string -/
def bytesOfNats (l : List Nat) : Bytes := l.map UInt8.ofNat

/-- `address::Payload` as `EV.Model.Script` sees it (`Bytes`) -/
def Payload.toScript : Payload → Script.Payload
  | .pkh h => .pubkeyHash (bytesOfNats h)
  | .sh h => .scriptHash (bytesOfNats h)
  | .wit v prog => .witnessProgram v (bytesOfNats prog)

/-- … and back -/
def Payload.ofScript : Script.Payload → Payload
  | .pubkeyHash h => .pkh (natsOfBytes h)
  | .scriptHash h => .sh (natsOfBytes h)
  | .witnessProgram v prog => .wit v (natsOfBytes prog)

/-! ## inspectors and conversions -/

/-- `Address::is_blinded`: `self.blinding_pubkey.is_some()` -/
def isBlinded (a : Address) : Bool := a.blinder.isSome

/-- `#[derive(PartialEq)] struct AddressParams`: all five fields (`EV.Gen.addressParamsFields`; the `name` of
    `AddrParamsB` is not a Rust field).  `Hrp: PartialEq` of the bech32 crate compares the lower-cased bytes. -/
def paramsEq (p q : Gen.AddrParamsB) : Bool :=
  p.p2pkh == q.p2pkh && p.p2sh == q.p2sh && p.blinded == q.blinded &&
  lower p.bechHrp == lower q.bechHrp && lower p.blechHrp == lower q.blechHrp

/-- `Address::is_liquid`: `self.params == &AddressParams::LIQUID` — a comparison of the parameter VALUES (the
    reference is dereferenced by `PartialEq for &T`), not of the `&'static` pointers -/
def isLiquid (a : Address) : Bool := paramsEq a.params Gen.isLiquidParams

/-- `Address::to_unconfidential` -/
def toUnconfidential (a : Address) : Address :=
  { params := a.params, payload := a.payload, blinder := none }

/-- `Address::to_confidential` -/
def toConfidential (a : Address) (blindingPubkey : List Nat) : Address :=
  { params := a.params, payload := a.payload, blinder := some blindingPubkey }

/-! ## scripts -/

/-- `Address::script_pubkey`: a `match` on `self.payload` only; `none` = the builder's panic (a 4 GiB push) -/
def scriptPubkey (a : Address) : Option Bytes := Script.scriptPubkey a.payload.toScript

/-- `Address::from_script`: the payload from the script template, `blinder` and `params` as given -/
def fromScript (s : Bytes) (blinder : Option (List Nat)) (params : Gen.AddrParamsB) : Option Address :=
  match Script.fromScript s with
  | some p => some { params := params, payload := Payload.ofScript p, blinder := blinder }
  | none => none

/-! ## constructors -/

/-- the hash functions behind `PubkeyHash` / `WPubkeyHash` / `ScriptHash` (`hash160`) and `WScriptHash` (`sha256`) -/
structure CtorHashes where
  hash160 : Bytes → Bytes
  sha256 : Bytes → Bytes

/-- `bitcoin::PublicKey { compressed, inner }` as the constructors see it: the flag and `to_bytes()`
    (33 bytes if compressed, 65 otherwise) -/
structure BtcKey where
  compressed : Bool
  ser : Bytes
  deriving Repr, DecidableEq

/-- witness version of a `Fe32::<LETTER>` constant: the value of the bech32 character -/
def fe32OfChar (c : Nat) : Nat := sym c

/-- `Address::p2pkh`: `Payload::PubkeyHash(pk.pubkey_hash())` (compressed or not) -/
def p2pkh (H : CtorHashes) (pk : BtcKey) (blinder : Option (List Nat)) (params : Gen.AddrParamsB) : Address :=
  { params := params, payload := .pkh (natsOfBytes (H.hash160 pk.ser)), blinder := blinder }

/-- `Address::p2sh`: `Payload::ScriptHash(ScriptHash::hash_script(script))` -/
def p2sh (H : CtorHashes) (script : Bytes) (blinder : Option (List Nat)) (params : Gen.AddrParamsB) : Address :=
  { params := params, payload := .sh (natsOfBytes (H.hash160 script)), blinder := blinder }

/-- `pk.wpubkey_hash()`: `Err(UncompressedPubkey)` for an uncompressed key -/
def wpubkeyHash (H : CtorHashes) (pk : BtcKey) : Option Bytes :=
  if pk.compressed then some (H.hash160 pk.ser) else none

/-- `Address::p2wpkh`: version `Fe32::Q`; panics (`expect`) if the key is not compressed -/
def p2wpkh (H : CtorHashes) (pk : BtcKey) (blinder : Option (List Nat)) (params : Gen.AddrParamsB) : Res Address :=
  match wpubkeyHash H pk with
  | none => .panic Gen.p2wpkhExpectMsg
  | some h => .ok { params := params, payload := .wit (fe32OfChar Gen.p2wpkhVersionChar) (natsOfBytes h), blinder := blinder }

/-- the nested script of `p2shwpkh` / `p2shwsh`: `Builder::new().push_int(n).push_slice(hash).into_script()` -/
def nestedScript (n : Int) (hash : Bytes) : Option Bytes := Script.build [.int n, .slice hash]

/-- `Address::p2shwpkh`: the script hash of `0 <wpubkey hash>`; panics if the key is not compressed -/
def p2shwpkh (H : CtorHashes) (pk : BtcKey) (blinder : Option (List Nat)) (params : Gen.AddrParamsB) : Res Address :=
  match wpubkeyHash H pk with
  | none => .panic Gen.p2wpkhExpectMsg
  | some h =>
    match nestedScript Gen.p2shwpkhPushInt h with
    | none => .panic "tried to put a 4bn+ sized object into a script!"
    | some s => .ok { params := params, payload := .sh (natsOfBytes (H.hash160 s)), blinder := blinder }

/-- `Address::p2wsh`: version `Fe32::Q`, program `WScriptHash::hash_script(script)` -/
def p2wsh (H : CtorHashes) (script : Bytes) (blinder : Option (List Nat)) (params : Gen.AddrParamsB) : Address :=
  { params := params, payload := .wit (fe32OfChar Gen.p2wshVersionChar) (natsOfBytes (H.sha256 script)), blinder := blinder }

/-- `Address::p2shwsh`: the script hash of `0 <wscript hash>` -/
def p2shwsh (H : CtorHashes) (script : Bytes) (blinder : Option (List Nat)) (params : Gen.AddrParamsB) : Res Address :=
  match nestedScript Gen.p2shwshPushInt (H.sha256 script) with
  | none => .panic "tried to put a 4bn+ sized object into a script!"
  | some s => .ok { params := params, payload := .sh (natsOfBytes (H.hash160 s)), blinder := blinder }

/-- `Address::p2tr_tweaked`: version `Fe32::P`, program = `output_key.into_inner().serialize()` (the 32-byte
    x-only key; the type guarantees the length, here it is whatever is passed) -/
def p2trTweaked (outputKey : Bytes) (blinder : Option (List Nat)) (params : Gen.AddrParamsB) : Address :=
  { params := params, payload := .wit (fe32OfChar Gen.p2trTweakedVersionChar) (natsOfBytes outputKey), blinder := blinder }

/-- `Address::p2tr`: `internal_key.tap_tweak(secp, merkle_root)` (`EV.Taproot.tapTweak`: tagged tweak hash, EC
    addition, the two `expect`s and the `debug_assert!`), parity dropped, version `Fe32::P` -/
def p2tr (E : Taproot.EC) (H : Taproot.TapHashes) (internalKey : Bytes) (merkleRoot : Option Bytes)
    (blinder : Option (List Nat)) (params : Gen.AddrParamsB) : Res Address :=
  match Taproot.tapTweak E H internalKey merkleRoot with
  | .ok (outputKey, _parity) =>
    .ok { params := params, payload := .wit (fe32OfChar Gen.p2trVersionChar) (natsOfBytes outputKey), blinder := blinder }
  | .err e => .err e
  | .panic site => .panic site

end EV.Addr
