/-
  EV.Model.PeggedAsset — the pegged-asset id of a network (src/issuance.rs):
  `AssetId::pegged_asset_id_for_network_params`, the private
  `AssetId::pegged_asset_id_for_params_and_parent_chain_hash`, the constants `AssetId::LIQUID_BTC` and
  `AssetId::LIQUIDTESTNET_BTC`, the byte-array accessors of the `impl_sha256_midstate_wrapper!` type
  `AssetId` (`from_byte_array`, `to_byte_array`, `as_byte_array`, `into_tag`) and its text forms
  (`Display` = `LowerHex` = `Debug`, `UpperHex`, `FromStr`: REVERSED hex).

  The file only COMPOSES what the model already has: the network parameters and their commitment
  (EV.Model.Genesis: `NetworkParams`, `commit`, `GHashes`), the issuance derivation (EV.Model.Issuance:
  `generateAssetEntropy`, `fromEntropy`) and the hex text forms of hash-like types (EV.Model.Text:
  `hashShow`, `hashParse`).  `ContractHash::from_json_contract` is `EV.Json.contractHash` /
  `EV.JsonText.contractHashText` (EV.Model.Json, EV.Model.JsonText) and is not repeated here.

  Every literal comes from `EV.Gen` (tools/extract.d/pegged.py): the two asset ids, the two strings of the
  `match`, the output index, and the chain hashes of the parent networks, which are the `ChainHash`
  constants of the `bitcoin` crate in the version /repo/Cargo.lock resolves to.

  A `network_id : String` is its UTF-8 byte string: `match s.as_str() { "lit" => … }` compares bytes.
  `Option` = the Rust call would panic (`fast_merkle_root`).  Core Lean only.
-/
import EV.Model.Genesis
namespace EV.PeggedAsset
open EV EV.Codec EV.Genesis

/-! ### constants -/

/-- `AssetId::LIQUID_BTC` (in-memory bytes, `to_byte_array`) -/
def liquidBtc : Bytes := ofNats Gen.peggedLiquidBtc
/-- `AssetId::LIQUIDTESTNET_BTC` -/
def liquidtestnetBtc : Bytes := ofNats Gen.peggedLiquidtestnetBtc

/-- the string of the first arm of the `match` in `pegged_asset_id_for_network_params` (`=> LIQUID_BTC`) -/
def networkIdLiquidBtc : Bytes := ofNats Gen.peggedNetworkIdLiquidBtc
/-- the string of the second arm (`=> LIQUIDTESTNET_BTC`) -/
def networkIdLiquidtestnetBtc : Bytes := ofNats Gen.peggedNetworkIdLiquidtestnetBtc

/-- the parent chain hash the fall-through arm passes on: `bitcoin::Network::Regtest.chain_hash()` -/
def parentChainHash : Bytes := ofNats Gen.peggedParentChainHash

/-- `bitcoin::Network::{Bitcoin, Testnet, Regtest}.chain_hash()` (bitcoin crate, `ChainHash::{BITCOIN, TESTNET3, REGTEST}`) -/
def bitcoinChainHash : Bytes := ofNats Gen.btcChainHashBitcoin
def testnetChainHash : Bytes := ofNats Gen.btcChainHashTestnet
def regtestChainHash : Bytes := ofNats Gen.btcChainHashRegtest

/-! ### the derivation -/

/-- `AssetId::pegged_asset_id_for_params_and_parent_chain_hash(params, parent_chainhash)` (private):
    ```
    let commit = commit_to_custom_network_parameters(params);
    let asset_outpoint = OutPoint::new(Txid::from_byte_array(commit.to_byte_array()), 0);
    let asset_entropy = AssetId::generate_asset_entropy(asset_outpoint, ContractHash::from_byte_array(*parent_chainhash.as_ref()));
    AssetId::from_entropy(asset_entropy)
    ```
    the parent chain hash sits in the CONTRACT-HASH position of the issuance derivation -/
def forParamsAndParent (G : GHashes) (p : NetworkParams) (parentChainHash : Bytes) : Option Bytes :=
  let c := commit G.sha256 p
  let assetOutpoint : OutPoint := ⟨c, Gen.peggedAssetVout⟩
  match Issuance.generateAssetEntropy G.toHashes assetOutpoint parentChainHash with
  | none => none
  | some assetEntropy => Issuance.fromEntropy G.toHashes assetEntropy

/-- `AssetId::pegged_asset_id_for_network_params(params)`:
    ```
    match params.network_id.as_str() {
        "liquidv1" => Self::LIQUID_BTC,
        "liquidtestnet" => Self::LIQUIDTESTNET_BTC,
        _ => Self::pegged_asset_id_for_params_and_parent_chain_hash(params, bitcoin::Network::Regtest.chain_hash()),
    }
    ```
    only `network_id` is looked at in the first two arms -/
def forNetworkParams (G : GHashes) (p : NetworkParams) : Option Bytes :=
  if p.networkId = networkIdLiquidBtc then some liquidBtc
  else if p.networkId = networkIdLiquidtestnetBtc then some liquidtestnetBtc
  else forParamsAndParent G p parentChainHash

/-- the network id selects one of the two constants (first or second arm of the `match`) -/
def IsNamed (p : NetworkParams) : Prop :=
  p.networkId = networkIdLiquidBtc ∨ p.networkId = networkIdLiquidtestnetBtc

instance (p : NetworkParams) : Decidable (IsNamed p) := by unfold IsNamed; exact inferInstance

/-! ### `AssetId` as a value: byte-array accessors -/

/-- `AssetId` is a wrapper of `[u8; 32]`: the model's asset id IS the byte array, so
    `AssetId::from_byte_array`, `to_byte_array`, `as_byte_array` are the identity … -/
def fromByteArray (b : Bytes) : Bytes := b
def toByteArray (a : Bytes) : Bytes := a
/-- … and so is `AssetId::into_tag` (`self.0.into()`: `Tag::from([u8; 32])` stores the array as is) -/
def intoTag (a : Bytes) : Bytes := a

/-! ### text forms (`impl_sha256_midstate_wrapper!`) -/

/-- the hash kind of `AssetId` in EV.Model.Text: 32 bytes, displayed backward -/
def kind : Text.HashKind := ⟨32, true⟩

/-- `Display`, `LowerHex` (`{:x}`) and `Debug` of `AssetId`:
    `fmt_hex_exact!(f, 32, self.0.iter().rev(), Case::Lower)` -/
def display (a : Bytes) : Text.Str := Text.hashShow kind a

/-- upper-case variant of a lower-case hex digit (`Table::UPPER`) -/
def upperChar (c : Char) : Char := if 97 ≤ c.toNat ∧ c.toNat ≤ 102 then Char.ofNat (c.toNat - 32) else c

/-- `UpperHex` (`{:X}`): `fmt_hex_exact!(f, 32, self.0.iter().rev(), Case::Upper)` -/
def upperHex (a : Bytes) : Text.Str := (display a).map upperChar

/-- `FromStr for AssetId`: `let mut arr = hex::decode_to_array(s)?; arr.reverse(); Ok(Self(arr))` -/
def fromStr (s : Text.Str) : Res Bytes := Text.hashParse kind s

end EV.PeggedAsset
