/-
  EV.Model.PsetMap — the containers of the in-memory PSET (src/pset/map/*.rs):
  * `BTreeMap<K, V>` as an association list kept strictly sorted by the serialized key
    (`KV.insert` = `BTreeMap::insert`, `KV.extend` = `BTreeMap::extend`: the other map's value
    wins on an equal key);
  * `Option<T>` fields combined with the `merge!` macro (`mergeOpt`: first present wins) or with
    `cmp::max` (`maxOpt`: `None < Some`);
  * the global scalar list (`Vec<Tweak>`: extend, sort, dedup = `sortDedup`).
  Keys are compared lexicographically on their bytes (`bytesLt`).  Any total order gives the same
  lookups; the concrete one only fixes the listing order of the canonical dump.
-/
import EV.Model.Bytes
namespace EV

/-- lexicographic order on byte strings (a proper prefix is smaller) -/
def bytesLt : Bytes → Bytes → Bool
  | [], [] => false
  | [], _ :: _ => true
  | _ :: _, [] => false
  | a :: as, b :: bs => decide (a.toNat < b.toNat) || (decide (a = b) && bytesLt as bs)

/-- `merge!($thing, self, other)`: `self` keeps its value if it has one -/
def mergeOpt {α} (a b : Option α) : Option α :=
  match a with
  | some x => some x
  | none => b

/-- `cmp::max` on `Option<u32-like>`: `None < Some(_)`, `Some` by payload -/
def maxOpt (a b : Option Nat) : Option Nat :=
  match a, b with
  | none, b => b
  | some x, none => some x
  | some x, some y => some (if x ≤ y then y else x)

/-- two optional values agree if they are equal whenever both are present -/
def OptAgree {α} (a b : Option α) : Prop := ∀ u v, a = some u → b = some v → u = v

namespace KV

/-- first value stored under `k` -/
def lookup {V} (k : Bytes) : List (Bytes × V) → Option V
  | [] => none
  | (k', v) :: r => if k = k' then some v else lookup k r

def keys {V} (m : List (Bytes × V)) : List Bytes := m.map Prod.fst

/-- `BTreeMap::insert`: replace the value of an existing key, otherwise insert at the sorted position -/
def insert {V} (k : Bytes) (v : V) : List (Bytes × V) → List (Bytes × V)
  | [] => [(k, v)]
  | (k', v') :: r =>
    if bytesLt k k' then (k, v) :: (k', v') :: r
    else if k = k' then (k, v) :: r
    else (k', v') :: insert k v r

/-- `BTreeMap::extend(other)`: insert every pair of `other` in order (other's value wins) -/
def extend {V} (self other : List (Bytes × V)) : List (Bytes × V) :=
  other.foldl (fun m kv => insert kv.1 kv.2 m) self

/-- strictly increasing keys: sorted and duplicate-free -/
def Sorted {V} (m : List (Bytes × V)) : Prop := (keys m).Pairwise (fun a b => bytesLt a b = true)

/-- equal values on common keys -/
def Agree {V} (a b : List (Bytes × V)) : Prop := ∀ k u v, lookup k a = some u → lookup k b = some v → u = v

/-- build a map from arbitrary pairs (later pairs win) -/
def ofList {V} (l : List (Bytes × V)) : List (Bytes × V) := extend [] l

end KV

/-- the (mathematical) map type of most PSET fields: serialized key ↦ serialized value -/
abbrev KV := List (Bytes × Bytes)

/-- sorted duplicate-free insertion into a list of byte strings -/
def insertSet (x : Bytes) : List Bytes → List Bytes
  | [] => [x]
  | y :: r => if bytesLt x y then x :: y :: r else if x = y then y :: r else y :: insertSet x r

/-- `v.sort(); v.dedup()` -/
def sortDedup (l : List Bytes) : List Bytes := l.foldl (fun s x => insertSet x s) []

def SortedSet (l : List Bytes) : Prop := l.Pairwise (fun a b => bytesLt a b = true)

end EV
