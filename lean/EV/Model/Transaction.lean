/-
  EV.Model.Transaction — confidential Asset/Value/Nonce, AssetIssuance, OutPoint,
  TxIn (flag folding), TxOut, both witness structs and Transaction, with their
  consensus encoders and decoders as coded in src/confidential.rs and
  src/transaction.rs.  Validity of curve points, tweaks and proofs is delegated to
  a record of predicates (`Prims`): theorems quantify over it, the driver
  instantiates it with executable re-implementations of the libsecp parse rules.

  Rust items transcribed here (read by tools/modelled_items.py): `impl Encodable for Value`,
  `impl Decodable for Value`, `impl Encodable for Asset`, `impl Decodable for Asset`,
  `impl Encodable for Nonce`, `impl Decodable for Nonce`, `Value::encoded_length`,
  `Asset::encoded_length`, `Nonce::encoded_length`, `impl Encodable for AssetIssuance`,
  `impl Decodable for AssetIssuance` (macro `impl_consensus_encoding!`), `impl Encodable for OutPoint`,
  `impl Decodable for OutPoint`, `OutPoint::null`, `OutPoint::is_null`, `impl Encodable for TxIn`,
  `impl Decodable for TxIn`, `TxIn::has_issuance`, `TxIn::is_coinbase`, `TxInWitness::is_empty`,
  `TxOutWitness::is_empty`, `impl Encodable for TxOut`, `impl Decodable for TxOut`,
  `impl Encodable for Transaction`, `impl Decodable for Transaction`, `Transaction::has_witness`,
  `Transaction::scaled_size`, `Transaction::size`, `Transaction::weight`, `Transaction::vsize`,
  `Transaction::discount_weight`, `Transaction::discount_vsize`, `Transaction::txid`, `Transaction::wtxid`.
-/
import EV.Model.Codec
namespace EV
open Codec

/-- parse-acceptance predicates of the secp256k1-zkp types -/
structure Prims where
  /-- 33 bytes (prefix included) accepted by `PedersenCommitment::from_slice` -/
  commitment : Bytes → Bool
  /-- 33 bytes accepted by `Generator::from_slice` -/
  generator : Bytes → Bool
  /-- 33 bytes accepted by `PublicKey::from_slice` -/
  pubkey : Bytes → Bool
  /-- 32 bytes accepted by `Tweak::from_inner` -/
  tweak : Bytes → Bool
  /-- non-empty bytes accepted by `RangeProof::from_slice` -/
  rangeproof : Bytes → Bool
  /-- non-empty bytes accepted by `SurjectionProof::from_slice` -/
  surjproof : Bytes → Bool
  /-- `size_of::<TxIn>()`, `size_of::<TxOut>()`, `size_of::<Transaction>()` (platform facts, printed by `evh sizes`) -/
  sizeTxIn : Nat
  sizeTxOut : Nat
  sizeTx : Nat

inductive Value where
  | null
  | explicit (n : Nat)
  | conf (c : Bytes)
  deriving Repr, DecidableEq

inductive Asset where
  | null
  | explicit (id : Bytes)
  | conf (g : Bytes)
  deriving Repr, DecidableEq

inductive Nonce where
  | null
  | explicit (b : Bytes)
  | conf (pk : Bytes)
  deriving Repr, DecidableEq

namespace Value
def enc : Value → Bytes
  | .null => [0]
  | .explicit n => 1 :: beBytes 8 n
  | .conf c => c
def encodedLength : Value → Nat
  | .null => 1 | .explicit _ => 9 | .conf _ => 33
def isNull : Value → Bool | .null => true | _ => false
def isConf : Value → Bool | .conf _ => true | _ => false
def dec (P : Prims) : Dec Value := fun bs =>
  match bs with
  | [] => .err "eof"
  | p :: rest =>
    if p = 0 then .ok (.null, rest)
    else if p = 1 then
      match take 8 rest with
      | .ok (b, r) => .ok (.explicit (beNat b), r)
      | .err e => .err e
      | .panic s => .panic s
    else if p = 8 ∨ p = 9 then
      match take 32 rest with
      | .ok (b, r) => if P.commitment (p :: b) then .ok (.conf (p :: b), r) else .err "invalid commitment"
      | .err e => .err e
      | .panic s => .panic s
    else .err "invalid confidential prefix"
def wf (P : Prims) : Value → Prop
  | .null => True
  | .explicit n => n < 2^64
  | .conf c => c.length = 33 ∧ (c.head? = some 8 ∨ c.head? = some 9) ∧ P.commitment c = true
end Value

namespace Asset
def enc : Asset → Bytes
  | .null => [0]
  | .explicit id => 1 :: id
  | .conf g => g
def encodedLength : Asset → Nat
  | .null => 1 | .explicit _ => 33 | .conf _ => 33
def dec (P : Prims) : Dec Asset := fun bs =>
  match bs with
  | [] => .err "eof"
  | p :: rest =>
    if p = 0 then .ok (.null, rest)
    else if p = 1 then
      match take 32 rest with
      | .ok (b, r) => .ok (.explicit b, r)
      | .err e => .err e
      | .panic s => .panic s
    else if p = 0x0a ∨ p = 0x0b then
      match take 32 rest with
      | .ok (b, r) => if P.generator (p :: b) then .ok (.conf (p :: b), r) else .err "invalid generator"
      | .err e => .err e
      | .panic s => .panic s
    else .err "invalid confidential prefix"
def wf (P : Prims) : Asset → Prop
  | .null => True
  | .explicit id => id.length = 32
  | .conf g => g.length = 33 ∧ (g.head? = some 0x0a ∨ g.head? = some 0x0b) ∧ P.generator g = true
end Asset

namespace Nonce
def enc : Nonce → Bytes
  | .null => [0]
  | .explicit b => 1 :: b
  | .conf pk => pk
def encodedLength : Nonce → Nat
  | .null => 1 | .explicit _ => 33 | .conf _ => 33
def isConf : Nonce → Bool | .conf _ => true | _ => false
def dec (P : Prims) : Dec Nonce := fun bs =>
  match bs with
  | [] => .err "eof"
  | p :: rest =>
    if p = 0 then .ok (.null, rest)
    else if p = 1 then
      match take 32 rest with
      | .ok (b, r) => .ok (.explicit b, r)
      | .err e => .err e
      | .panic s => .panic s
    else if p = 2 ∨ p = 3 then
      match take 32 rest with
      | .ok (b, r) => if P.pubkey (p :: b) then .ok (.conf (p :: b), r) else .err "invalid pubkey"
      | .err e => .err e
      | .panic s => .panic s
    else .err "invalid confidential prefix"
def wf (P : Prims) : Nonce → Prop
  | .null => True
  | .explicit b => b.length = 32
  | .conf pk => pk.length = 33 ∧ (pk.head? = some 2 ∨ pk.head? = some 3) ∧ P.pubkey pk = true
end Nonce

structure AssetIssuance where
  nonce : Bytes        -- asset_blinding_nonce : Tweak (32 bytes)
  entropy : Bytes      -- 32 bytes
  amount : Value
  inflationKeys : Value
  deriving Repr, DecidableEq

namespace AssetIssuance
def zero32 : Bytes := List.replicate 32 0
def null : AssetIssuance := ⟨zero32, zero32, .null, .null⟩
def isNull (i : AssetIssuance) : Bool := i.amount.isNull && i.inflationKeys.isNull
def enc (i : AssetIssuance) : Bytes := i.nonce ++ i.entropy ++ i.amount.enc ++ i.inflationKeys.enc
def dec (P : Prims) : Dec AssetIssuance := fun bs =>
  match take 32 bs with
  | .ok (n, r1) =>
    if !P.tweak n then .err "invalid tweak" else
    match take 32 r1 with
    | .ok (e, r2) =>
      match Value.dec P r2 with
      | .ok (a, r3) =>
        match Value.dec P r3 with
        | .ok (k, r4) => .ok (⟨n, e, a, k⟩, r4)
        | .err e => .err e
        | .panic s => .panic s
      | .err e => .err e
      | .panic s => .panic s
    | .err e => .err e
    | .panic s => .panic s
  | .err e => .err e
  | .panic s => .panic s
def wf (P : Prims) (i : AssetIssuance) : Prop :=
  i.nonce.length = 32 ∧ P.tweak i.nonce = true ∧ i.entropy.length = 32 ∧ i.amount.wf P ∧ i.inflationKeys.wf P
end AssetIssuance

structure OutPoint where
  txid : Bytes
  vout : Nat
  deriving Repr, DecidableEq

namespace OutPoint
def enc (o : OutPoint) : Bytes := o.txid ++ encLe 4 o.vout
def dec : Dec OutPoint := fun bs =>
  match take 32 bs with
  | .ok (t, r) =>
    match le 4 r with
    | .ok (v, r') => .ok (⟨t, v⟩, r')
    | .err e => .err e
    | .panic s => .panic s
  | .err e => .err e
  | .panic s => .panic s
def wf (o : OutPoint) : Prop := o.txid.length = 32 ∧ o.vout < 2^32
/-- `OutPoint::default()` = null outpoint (coinbase) -/
def null : OutPoint := ⟨List.replicate 32 0, 0xffffffff⟩
end OutPoint

structure TxInWitness where
  amountRangeproof : Option Bytes
  inflationKeysRangeproof : Option Bytes
  scriptWitness : List Bytes
  peginWitness : List Bytes
  deriving Repr, DecidableEq

/-- `impl_box_option!`: empty vector ⇄ `None`, otherwise the proof must parse -/
def encOptProof : Option Bytes → Bytes
  | none => encBytesVec []
  | some b => encBytesVec b

def decOptProof (valid : Bytes → Bool) : Dec (Option Bytes) := fun bs =>
  match bytesVec bs with
  | .ok (v, r) =>
    if v.isEmpty then .ok (none, r)
    else if valid v then .ok (some v, r) else .err "invalid proof"
  | .err e => .err e
  | .panic s => .panic s

def wfOptProof (valid : Bytes → Bool) : Option Bytes → Prop
  | none => True
  | some b => b ≠ [] ∧ valid b = true ∧ b.length ≤ maxVecSize

namespace TxInWitness
def empty : TxInWitness := ⟨none, none, [], []⟩
def isEmpty (w : TxInWitness) : Bool :=
  w.amountRangeproof.isNone && w.inflationKeysRangeproof.isNone &&
  w.scriptWitness.isEmpty && w.peginWitness.isEmpty
def enc (w : TxInWitness) : Bytes :=
  encOptProof w.amountRangeproof ++ encOptProof w.inflationKeysRangeproof ++
  encBytesVecVec w.scriptWitness ++ encBytesVecVec w.peginWitness
def dec (P : Prims) : Dec TxInWitness := fun bs =>
  match decOptProof P.rangeproof bs with
  | .ok (a, r1) =>
    match decOptProof P.rangeproof r1 with
    | .ok (k, r2) =>
      match bytesVecVec r2 with
      | .ok (s, r3) =>
        match bytesVecVec r3 with
        | .ok (p, r4) => .ok (⟨a, k, s, p⟩, r4)
        | .err e => .err e
        | .panic s => .panic s
      | .err e => .err e
      | .panic s => .panic s
    | .err e => .err e
    | .panic s => .panic s
  | .err e => .err e
  | .panic s => .panic s
def wfStack (l : List Bytes) : Prop := l.length * 24 ≤ maxVecSize ∧ ∀ b ∈ l, b.length ≤ maxVecSize
def wf (P : Prims) (w : TxInWitness) : Prop :=
  wfOptProof P.rangeproof w.amountRangeproof ∧ wfOptProof P.rangeproof w.inflationKeysRangeproof ∧
  wfStack w.scriptWitness ∧ wfStack w.peginWitness
end TxInWitness

structure TxOutWitness where
  surjectionProof : Option Bytes
  rangeproof : Option Bytes
  deriving Repr, DecidableEq

namespace TxOutWitness
def empty : TxOutWitness := ⟨none, none⟩
def isEmpty (w : TxOutWitness) : Bool := w.surjectionProof.isNone && w.rangeproof.isNone
def enc (w : TxOutWitness) : Bytes := encOptProof w.surjectionProof ++ encOptProof w.rangeproof
def dec (P : Prims) : Dec TxOutWitness := fun bs =>
  match decOptProof P.surjproof bs with
  | .ok (s, r1) =>
    match decOptProof P.rangeproof r1 with
    | .ok (r, r2) => .ok (⟨s, r⟩, r2)
    | .err e => .err e
    | .panic s => .panic s
  | .err e => .err e
  | .panic s => .panic s
def wf (P : Prims) (w : TxOutWitness) : Prop :=
  wfOptProof P.surjproof w.surjectionProof ∧ wfOptProof P.rangeproof w.rangeproof
def rangeproofLen (w : TxOutWitness) : Nat := match w.rangeproof with | none => 0 | some b => b.length
def surjectionproofLen (w : TxOutWitness) : Nat := match w.surjectionProof with | none => 0 | some b => b.length
end TxOutWitness

structure TxIn where
  previousOutput : OutPoint
  isPegin : Bool
  scriptSig : Bytes
  sequence : Nat
  assetIssuance : AssetIssuance
  witness : TxInWitness
  deriving Repr, DecidableEq

namespace TxIn
def hasIssuance (i : TxIn) : Bool := !i.assetIssuance.isNull

/-- the `vout` word as serialized: bit 30 = pegin, bit 31 = issuance (`|=` on a `u32`) -/
def voutWord (i : TxIn) : Nat :=
  (i.previousOutput.vout ||| (if i.isPegin then 2^30 else 0)) ||| (if i.hasIssuance then 2^31 else 0)

/-- `impl Encodable for TxIn` (the witness is not part of it) -/
def enc (i : TxIn) : Bytes :=
  i.previousOutput.txid ++ encLe 4 i.voutWord ++ encBytesVec i.scriptSig ++ encLe 4 i.sequence ++
  (if i.hasIssuance then i.assetIssuance.enc else [])

def dec (P : Prims) : Dec TxIn := fun bs =>
  match OutPoint.dec bs with
  | .ok (outp, r1) =>
    match bytesVec r1 with
    | .ok (scriptSig, r2) =>
      match le 4 r2 with
      | .ok (sequence, r3) =>
        let coinbase := outp.vout = 0xffffffff
        let isPegin := !coinbase && (outp.vout.testBit 30)
        let hasIss := !coinbase && (outp.vout.testBit 31)
        let vout := if coinbase then outp.vout else outp.vout % 2^30
        if hasIss then
          match AssetIssuance.dec P r3 with
          | .ok (iss, r4) =>
            if iss.isNull then .err "superfluous asset issuance"
            else .ok (⟨⟨outp.txid, vout⟩, isPegin, scriptSig, sequence, iss, TxInWitness.empty⟩, r4)
          | .err e => .err e
          | .panic s => .panic s
        else .ok (⟨⟨outp.txid, vout⟩, isPegin, scriptSig, sequence, AssetIssuance.null, TxInWitness.empty⟩, r3)
      | .err e => .err e
      | .panic s => .panic s
    | .err e => .err e
    | .panic s => .panic s
  | .err e => .err e
  | .panic s => .panic s

/-- canonical in-memory inputs (witness aside): index below 2^30, or the coinbase index with no flags;
    index 2^30-1 with *both* flags is excluded because it serializes as 0xffffffff, the coinbase index,
    which by definition carries no flags (the format cannot represent it; same in Elements Core);
    a null issuance is the all-default one (a stray nonce/entropy is not serialized) -/
def wfBody (P : Prims) (i : TxIn) : Prop :=
  i.previousOutput.txid.length = 32 ∧
  ((i.previousOutput.vout < 2^30 ∧ ¬ (i.previousOutput.vout = 2^30 - 1 ∧ i.isPegin = true ∧ i.hasIssuance = true)) ∨
   (i.previousOutput.vout = 0xffffffff ∧ i.isPegin = false ∧ i.hasIssuance = false)) ∧
  i.scriptSig.length ≤ maxVecSize ∧ i.sequence < 2^32 ∧
  (if i.hasIssuance then i.assetIssuance.wf P else i.assetIssuance = AssetIssuance.null)
def wf (P : Prims) (i : TxIn) : Prop := i.wfBody P ∧ i.witness.wf P
end TxIn

structure TxOut where
  asset : Asset
  value : Value
  nonce : Nonce
  scriptPubkey : Bytes
  witness : TxOutWitness
  deriving Repr, DecidableEq

namespace TxOut
def enc (o : TxOut) : Bytes := o.asset.enc ++ o.value.enc ++ o.nonce.enc ++ encBytesVec o.scriptPubkey
def dec (P : Prims) : Dec TxOut := fun bs =>
  match Asset.dec P bs with
  | .ok (a, r1) =>
    match Value.dec P r1 with
    | .ok (v, r2) =>
      match Nonce.dec P r2 with
      | .ok (n, r3) =>
        match bytesVec r3 with
        | .ok (s, r4) => .ok (⟨a, v, n, s, TxOutWitness.empty⟩, r4)
        | .err e => .err e
        | .panic s => .panic s
      | .err e => .err e
      | .panic s => .panic s
    | .err e => .err e
    | .panic s => .panic s
  | .err e => .err e
  | .panic s => .panic s
def wfBody (P : Prims) (o : TxOut) : Prop :=
  o.asset.wf P ∧ o.value.wf P ∧ o.nonce.wf P ∧ o.scriptPubkey.length ≤ maxVecSize
def wf (P : Prims) (o : TxOut) : Prop := o.wfBody P ∧ o.witness.wf P
end TxOut

structure Tx where
  version : Nat
  lockTime : Nat
  input : List TxIn
  output : List TxOut
  deriving Repr, DecidableEq

namespace Tx
def hasWitness (t : Tx) : Bool :=
  t.input.any (fun i => !i.witness.isEmpty) || t.output.any (fun o => !o.witness.isEmpty)

/-- the witness-stripped serialization hashed by `txid` -/
def encStripped (t : Tx) : Bytes :=
  encLe 4 t.version ++ [0] ++ encVec TxIn.enc t.input ++ encVec TxOut.enc t.output ++ encLe 4 t.lockTime

/-- `impl Encodable for Transaction` -/
def enc (t : Tx) : Bytes :=
  if t.hasWitness then
    encLe 4 t.version ++ [1] ++ encVec TxIn.enc t.input ++ encVec TxOut.enc t.output ++ encLe 4 t.lockTime ++
    t.input.flatMap (fun i => i.witness.enc) ++ t.output.flatMap (fun o => o.witness.enc)
  else t.encStripped

/-- decode one witness per element of `l`, in order, writing it with `set` -/
def decWitnesses {α ω} (d : Dec ω) (set : α → ω → α) : List α → Dec (List α)
  | [], bs => .ok ([], bs)
  | a :: as, bs =>
    match d bs with
    | .ok (w, r) =>
      match decWitnesses d set as r with
      | .ok (as', r') => .ok (set a w :: as', r')
      | .err e => .err e
      | .panic s => .panic s
    | .err e => .err e
    | .panic s => .panic s

def dec (P : Prims) : Dec Tx := fun bs =>
  match le 4 bs with
  | .ok (version, r1) =>
    match u8 r1 with
    | .ok (flag, r2) =>
      match vecOf P.sizeTxIn (TxIn.dec P) r2 with
      | .ok (input, r3) =>
        match vecOf P.sizeTxOut (TxOut.dec P) r3 with
        | .ok (output, r4) =>
          match le 4 r4 with
          | .ok (lockTime, r5) =>
            if flag = 0 then .ok (⟨version, lockTime, input, output⟩, r5)
            else if flag = 1 then
              match decWitnesses (TxInWitness.dec P) (fun i w => { i with witness := w }) input r5 with
              | .ok (input', r6) =>
                match decWitnesses (TxOutWitness.dec P) (fun o w => { o with witness := w }) output r6 with
                | .ok (output', r7) =>
                  if input'.all (fun i => i.witness.isEmpty) && output'.all (fun o => o.witness.isEmpty)
                  then .err "witness flag set but no witnesses were given"
                  else .ok (⟨version, lockTime, input', output'⟩, r7)
                | .err e => .err e
                | .panic s => .panic s
              | .err e => .err e
              | .panic s => .panic s
            else .err "bad witness flag in tx"
          | .err e => .err e
          | .panic s => .panic s
        | .err e => .err e
        | .panic s => .panic s
      | .err e => .err e
      | .panic s => .panic s
    | .err e => .err e
    | .panic s => .panic s
  | .err e => .err e
  | .panic s => .panic s

def wf (P : Prims) (t : Tx) : Prop :=
  t.version < 2^32 ∧ t.lockTime < 2^32 ∧
  t.input.length * P.sizeTxIn ≤ maxVecSize ∧ t.output.length * P.sizeTxOut ≤ maxVecSize ∧
  (∀ i ∈ t.input, i.wf P) ∧ (∀ o ∈ t.output, o.wf P)

/-- `deserialize`: the whole slice must be consumed -/
def deserialize (P : Prims) (bs : Bytes) : Res Tx :=
  match dec P bs with
  | .ok (t, []) => .ok t
  | .ok (_, _ :: _) => .err "data not consumed entirely"
  | .err e => .err e
  | .panic s => .panic s

/-! ### sizes (C12) as coded in `scaled_size` -/
def stackSize (l : List Bytes) : Nat :=
  varintSize l.length + (l.map (fun w => varintSize w.length + w.length)).sum

def optLen : Option Bytes → Nat | none => 0 | some b => b.length

def inputScaled (scale : Nat) (witFlag : Bool) (i : TxIn) : Nat :=
  scale * (32 + 4 + 4 + varintSize i.scriptSig.length + i.scriptSig.length +
    (if i.hasIssuance then 64 + i.assetIssuance.amount.encodedLength + i.assetIssuance.inflationKeys.encodedLength else 0)) +
  (if witFlag then
    varintSize (optLen i.witness.amountRangeproof) + optLen i.witness.amountRangeproof +
    varintSize (optLen i.witness.inflationKeysRangeproof) + optLen i.witness.inflationKeysRangeproof +
    stackSize i.witness.scriptWitness + stackSize i.witness.peginWitness
   else 0)

def outputScaled (scale : Nat) (witFlag : Bool) (o : TxOut) : Nat :=
  scale * (o.asset.encodedLength + o.value.encodedLength + o.nonce.encodedLength +
    varintSize o.scriptPubkey.length + o.scriptPubkey.length) +
  (if witFlag then
    varintSize o.witness.surjectionproofLen + o.witness.surjectionproofLen +
    varintSize o.witness.rangeproofLen + o.witness.rangeproofLen
   else 0)

def scaledSize (t : Tx) (scale : Nat) : Nat :=
  scale * (4 + 4 + varintSize t.input.length + varintSize t.output.length + 1) +
  (t.input.map (inputScaled scale t.hasWitness)).sum + (t.output.map (outputScaled scale t.hasWitness)).sum

def size (t : Tx) : Nat := t.scaledSize 1
def weight (t : Tx) : Nat := t.scaledSize 4
def vsize (t : Tx) : Nat := (t.weight + 3) / 4

/-- `discount_weight`; subtraction on `usize` panics on underflow in debug builds: `none` -/
def discountStep (w : Option Nat) (o : TxOut) : Option Nat :=
  match w with
  | none => none
  | some w =>
    let rp := o.witness.rangeproofLen
    let sp := o.witness.surjectionproofLen
    let ww := varintSize sp + sp + varintSize rp + rp
    let d1 := ww - 2      -- saturating_sub
    if w < d1 then none else
    let w := w - d1
    let d2 := if o.value.isConf then (33 - 9) * 4 else 0
    if w < d2 then none else
    let w := w - d2
    let d3 := if o.nonce.isConf then (33 - 1) * 4 else 0
    if w < d3 then none else some (w - d3)

def discountWeight (t : Tx) : Option Nat := t.output.foldl discountStep (some t.weight)
def discountVsize (t : Tx) : Option Nat := t.discountWeight.map (fun w => (w + 3) / 4)

end Tx
end EV
