/-
  EV.Model.PsetSer — `Encodable` / `Decodable` of `Global`, `Input`, `Output` and
  `PartiallySignedTransaction` (src/pset/map/{global,input,output}.rs, src/pset/mod.rs) on the records
  of EV.Model.Pset, through the generic wire model (EV.Model.PsetWire) instantiated with the generated
  field tables (EV.Model.PsetTables); the ELIP-100 / ELIP-102 accessors (src/pset/elip100.rs,
  src/pset/elip102.rs).

  Each decoder = read the pairs into slots (`decMap`), then the checks made after the loop in the
  code order (mandatory fields, PSET version 2; for outputs: amount or commitment, asset or
  commitment, blinder index where a blinding key is set, blinding data absent or complete), then the
  record.
-/
import EV.Model.PsetTables
namespace EV
open EV.PsetWire EV.Codec

/-- is the slot at table position `i` empty (field absent)? -/
def slotMissing (st : List Slot) (i : Nat) : Bool := (st.getD i []).isEmpty

namespace PsetGlobal
/-- positions in `globalTable` (checked against the field names in EV.Props.C07) -/
def ixTxVersion : Nat := 0
def ixInputCount : Nat := 2
def ixOutputCount : Nat := 3
def ixVersion : Nat := 6

/-- `impl_psetmap_consensus_encoding!(Global)` -/
def enc (W : WirePrims) (g : PsetGlobal) : Bytes := encMap (globalTable W) g.toSlots

/-- `impl Decodable for Global` -/
def dec (W : WirePrims) : Dec PsetGlobal := fun bs =>
  match decMap (globalTable W) bs with
  | .ok (st, r) =>
    match PsetGlobal.ofSlots st with
    | none => .err "slots"
    | some g =>
      if slotMissing st ixVersion then .err "IncorrectPsetVersion"
      else if g.version ≠ Gen.PsetWire.psetVersion then .err "IncorrectPsetVersion"
      else if slotMissing st ixTxVersion then .err "MissingTxVersion"
      else if slotMissing st ixInputCount then .err "MissingInputCount"
      else if slotMissing st ixOutputCount then .err "MissingOutputCount"
      else .ok (g, r)
  | .err e => .err e
  | .panic m => .panic m
end PsetGlobal

namespace PsetInput
def ixPreviousTxid : Nat := 13
def ixPreviousOutputIndex : Nat := 14

def enc (W : WirePrims) (i : PsetInput) : Bytes := encMap (inputTable W) i.toSlots

/-- `impl Decodable for Input` -/
def dec (W : WirePrims) : Dec PsetInput := fun bs =>
  match decMap (inputTable W) bs with
  | .ok (st, r) =>
    match PsetInput.ofSlots st with
    | none => .err "slots"
    | some i =>
      if slotMissing st ixPreviousTxid then .err "MissingInputPrevTxId"
      else if slotMissing st ixPreviousOutputIndex then .err "MissingInputPrevVout"
      else .ok (i, r)
  | .err e => .err e
  | .panic m => .panic m
end PsetInput

namespace PsetOutput
def ixScriptPubkey : Nat := 10

/-- `Output::is_fully_blinded` -/
def isFullyBlinded (o : PsetOutput) : Bool :=
  o.blindingKey.isSome && o.amountComm.isSome && o.assetComm.isSome && o.valueRangeproof.isSome &&
    o.assetSurjectionProof.isSome && o.ecdhPubkey.isSome

/-- the checks of `impl Decodable for Output` after the loop (the script is checked before) -/
def accepted (o : PsetOutput) : Res Unit :=
  if o.amount.isNone && o.amountComm.isNone then .err "MissingOutputValue"
  else if o.asset.isNone && o.assetComm.isNone then .err "MissingOutputAsset"
  else if o.blindingKey.isSome && o.blinderIndex.isNone then .err "MissingBlinderIndex"
  else if o.blindingKey.isSome && o.isPartiallyBlinded && !o.isFullyBlinded then .err "MissingBlindingInfo"
  else .ok ()

def enc (W : WirePrims) (o : PsetOutput) : Bytes := encMap (outputTable W) o.toSlots

/-- `impl Decodable for Output` -/
def dec (W : WirePrims) : Dec PsetOutput := fun bs =>
  match decMap (outputTable W) bs with
  | .ok (st, r) =>
    match PsetOutput.ofSlots st with
    | none => .err "slots"
    | some o =>
      if slotMissing st ixScriptPubkey then .err "MissingOutputSpk"
      else
        match o.accepted with
        | .ok () => .ok (o, r)
        | .err e => .err e
        | .panic m => .panic m
  | .err e => .err e
  | .panic m => .panic m
end PsetOutput

namespace Pset
/-- `b"pset"` and the separator 0xff -/
def magic : Bytes := Gen.PsetWire.magic.map UInt8.ofNat
def separator : UInt8 := UInt8.ofNat Gen.PsetWire.separator
def maxMaps : Nat := Gen.PsetWire.maxMaps

/-- `impl Encodable for PartiallySignedTransaction` -/
def serialize (W : WirePrims) (p : Pset) : Bytes :=
  magic ++ separator :: (p.global.enc W ++ p.inputs.flatMap (PsetInput.enc W) ++ p.outputs.flatMap (PsetOutput.enc W))

/-- `impl Decodable for PartiallySignedTransaction` -/
def dec (W : WirePrims) : Dec Pset := fun bs =>
  match take 4 bs with
  | .ok (m, r0) =>
    if m ≠ magic then .err "InvalidMagic"
    else
      match r0 with
      | [] => .err "eof"
      | s :: r1 =>
        if s ≠ separator then .err "InvalidSeparator"
        else
          match PsetGlobal.dec W r1 with
          | .ok (g, r2) =>
            if g.inputCount > maxMaps then .err "TooLargePset"
            else
              match repeatN (PsetInput.dec W) g.inputCount r2 with
              | .ok (ins, r3) =>
                if g.outputCount > maxMaps then .err "TooLargePset"
                else
                  match repeatN (PsetOutput.dec W) g.outputCount r3 with
                  | .ok (outs, r4) =>
                    let p : Pset := { global := g, inputs := ins, outputs := outs }
                    match p.sanityCheck with
                    | .ok () => .ok (p, r4)
                    | .err e => .err e
                    | .panic m => .panic m
                  | .err e => .err e
                  | .panic m => .panic m
              | .err e => .err e
              | .panic m => .panic m
          | .err e => .err e
          | .panic m => .panic m
  | .err e => .err e
  | .panic m => .panic m

/-- `encode::deserialize::<PartiallySignedTransaction>`: the whole slice must be consumed -/
def deserialize (W : WirePrims) (bs : Bytes) : Res Pset :=
  match dec W bs with
  | .ok (p, []) => .ok p
  | .ok (_, _ :: _) => .err "data not consumed entirely"
  | .err e => .err e
  | .panic m => .panic m
end Pset

/-! ### ELIP-100: asset / token metadata in the global proprietary map -/

namespace Elip
def hwwPrefix : Bytes := Gen.PsetWire.hwwPrefix.map UInt8.ofNat
def liquidexPrefix : Bytes := Gen.PsetWire.liquidexPrefix.map UInt8.ofNat

/-- `elip100::prop_key`: serialized `ProprietaryKey { prefix: "pset_hww", subtype, key: asset id }` -/
def hwwKey (sub : Nat) (assetId : Bytes) : Bytes := encPropKey hwwPrefix (u8n sub) assetId

structure AssetMetadata where
  /-- the contract string (UTF-8 bytes) -/
  contract : Bytes
  prevout : OutPoint
  deriving Repr, DecidableEq

structure TokenMetadata where
  assetId : Bytes
  issuanceBlinded : Bool
  deriving Repr, DecidableEq

/-- `AssetMetadata::serialize` -/
def AssetMetadata.ser (m : AssetMetadata) : Bytes := encBytesVec m.contract ++ m.prevout.enc

/-- `AssetMetadata::deserialize` (a cursor: trailing bytes are not looked at); `utf8` = `String::from_utf8`
    acceptance -/
def AssetMetadata.deser (utf8 : Bytes → Bool) (b : Bytes) : Res AssetMetadata :=
  match bytesVec b with
  | .ok (c, r) =>
    if !utf8 c then .err "utf8"
    else
      match OutPoint.dec r with
      | .ok (o, _) => .ok ⟨c, o⟩
      | .err e => .err e
      | .panic m => .panic m
  | .err e => .err e
  | .panic m => .panic m

/-- `TokenMetadata::serialize` -/
def TokenMetadata.ser (m : TokenMetadata) : Bytes := (if m.issuanceBlinded then 1 else 0) :: m.assetId

/-- `TokenMetadata::deserialize` -/
def TokenMetadata.deser (b : Bytes) : Res TokenMetadata :=
  match b with
  | [] => .err "eof"
  | f :: r =>
    if f.toNat > 1 then .err "invalid issuanceBlinded"
    else
      match take 32 r with
      | .ok (a, _) => .ok ⟨a, f.toNat == 1⟩
      | .err e => .err e
      | .panic m => .panic m

/-- `add_asset_metadata`: the new PSET and the previous raw value, if any -/
def addAssetMetadata (p : Pset) (assetId : Bytes) (m : AssetMetadata) : Pset × Option Bytes :=
  let k := hwwKey Gen.PsetWire.hwwAssetMetadata assetId
  ({ p with global := { p.global with proprietary := KV.insert k m.ser p.global.proprietary } },
   KV.lookup k p.global.proprietary)

/-- `get_asset_metadata` -/
def getAssetMetadata (utf8 : Bytes → Bool) (p : Pset) (assetId : Bytes) : Option (Res AssetMetadata) :=
  (KV.lookup (hwwKey Gen.PsetWire.hwwAssetMetadata assetId) p.global.proprietary).map (AssetMetadata.deser utf8)

/-- `add_token_metadata` -/
def addTokenMetadata (p : Pset) (tokenId : Bytes) (m : TokenMetadata) : Pset × Option Bytes :=
  let k := hwwKey Gen.PsetWire.hwwReissuanceToken tokenId
  ({ p with global := { p.global with proprietary := KV.insert k m.ser p.global.proprietary } },
   KV.lookup k p.global.proprietary)

/-- `get_token_metadata` -/
def getTokenMetadata (p : Pset) (tokenId : Bytes) : Option (Res TokenMetadata) :=
  (KV.lookup (hwwKey Gen.PsetWire.hwwReissuanceToken tokenId) p.global.proprietary).map TokenMetadata.deser

/-! ### ELIP-102: asset blinding factor in the input / output proprietary maps -/

/-- `elip102::prop_key` -/
def abfKey (sub : Nat) : Bytes := encPropKey liquidexPrefix (u8n sub) []

/-- `AssetBlindingFactor::deserialize`: exactly 32 bytes that form a valid tweak -/
def abfDeser (tweak : Bytes → Bool) (b : Bytes) : Res Bytes :=
  if b.length ≠ 32 then .err "length" else if tweak b then .ok b else .err "invalid AssetBlindingFactor"

/-- `Input::set_abf` / `Input::get_abf` -/
def inSetAbf (x : PsetInput) (abf : Bytes) : PsetInput :=
  { x with proprietary := KV.insert (abfKey Gen.PsetWire.liquidexInAbf) abf x.proprietary }
def inGetAbf (tweak : Bytes → Bool) (x : PsetInput) : Option (Res Bytes) :=
  (KV.lookup (abfKey Gen.PsetWire.liquidexInAbf) x.proprietary).map (abfDeser tweak)

/-- `Output::set_abf` / `Output::get_abf` -/
def outSetAbf (x : PsetOutput) (abf : Bytes) : PsetOutput :=
  { x with proprietary := KV.insert (abfKey Gen.PsetWire.liquidexOutAbf) abf x.proprietary }
def outGetAbf (tweak : Bytes → Bool) (x : PsetOutput) : Option (Res Bytes) :=
  (KV.lookup (abfKey Gen.PsetWire.liquidexOutAbf) x.proprietary).map (abfDeser tweak)
end Elip

end EV
