/-
  EV.Model.Opcodes — opcode classification and opcode text (src/opcodes.rs): `opcodes::All` (an opcode is
  its byte), `ClassifyContext`, `Class`, `Ordinary` / `Ordinary::try_from_all`, `All::classify`, and the
  `Debug` / `Display` text of the 256 opcodes.

  The executable model reads three tables that tools/extract.d/opcodes.py regenerates from the Rust source on
  every run (`EV.Gen.opNameTable`, `opClassLegacyTable`, `opClassTapscriptTable`: the two `match`es of the
  source evaluated arm by arm for each byte) and the `ordinary_opcode!` list (`EV.Gen.ordinaryOpcodes`).
  `classifyArms` is the same `match` written out arm by arm over the named opcode constants; the theorem
  `EV.Props.C16.classify_eq_arms` proves that the generated tables and this reading agree on all 512 inputs.
  Core Lean only.
-/
import EV.Model.Bytes
import EV.Gen.Consts
namespace EV.Opcodes
open EV.Gen

/-- `opcodes::ClassifyContext` -/
inductive Ctx where
  | tapScript
  | legacy
  deriving Repr, DecidableEq

/-- `opcodes::Class`.  `Ordinary(o)` carries the `#[repr(u8)]` discriminant of the `Ordinary` variant
    (what `Ordinary::into_u8` returns). -/
inductive Class where
  | pushNum (n : Int)
  | pushBytes (n : Nat)
  | returnOp
  | successOp
  | illegalOp
  | noOp
  | ordinary (o : UInt8)
  deriving Repr, DecidableEq

/-- `Ordinary::try_from_all(b)`: the generated `match b { all::$op => Some(Ordinary::$op), … _ => None }`;
    the variant found is the list entry whose code is `b`, and its discriminant is that code
    (`$op = all::$op.code`). -/
def tryFromAll (b : UInt8) : Option UInt8 := ordinaryOpcodes.find? (· == b)

/-- one entry of a generated classification table: (kind, argument); kind 7 (and anything else) is the
    panic of `Ordinary::try_from_all(self).unwrap()` in the last arm -/
def decodeClass : Nat × Int → Option Class
  | (0, a) => some (.pushNum a)
  | (1, a) => some (.pushBytes a.toNat)
  | (2, _) => some .returnOp
  | (3, _) => some .successOp
  | (4, _) => some .illegalOp
  | (5, _) => some .noOp
  | (6, a) => some (.ordinary (UInt8.ofNat a.toNat))
  | _ => none

def classTable : Ctx → List (Nat × Int)
  | .legacy => opClassLegacyTable
  | .tapScript => opClassTapscriptTable

/-- `All::classify(self, ctx)`; `none` = panic (`unwrap()` on `None` in the last arm of the match) -/
def classify (ctx : Ctx) (b : UInt8) : Option Class := decodeClass ((classTable ctx).getD b.toNat (7, 0))

/-- `All::classify` read arm by arm from the source (first matching arm wins), over the named constants of
    `mod all`.  The last arm is `Class::Ordinary(Ordinary::try_from_all(self).unwrap())`. -/
def classifyArms (ctx : Ctx) (b : UInt8) : Option Class :=
  -- 3 opcodes illegal in all contexts
  if b = opVerif ∨ b = opVernotif ∨ b = opInvalidopcode then some .illegalOp
  -- 15 opcodes illegal in Legacy context
  else if ctx = .legacy ∧ (b = opCat ∨ b = opSubstr ∨ b = opLeft ∨ b = opRight ∨ b = opInvert ∨ b = opAnd ∨
      b = opOr ∨ b = opXor ∨ b = op2mul ∨ b = op2div ∨ b = opMul ∨ b = opDiv ∨ b = opMod ∨ b = opLshift ∨
      b = opRshift) then some .illegalOp
  -- SuccessOp class only in TapScript context
  else if ctx = .tapScript ∧ (b.toNat = 80 ∨ b.toNat = 98 ∨ (137 ≤ b.toNat ∧ b.toNat ≤ 138) ∨
      (141 ≤ b.toNat ∧ b.toNat ≤ 142) ∨ (149 ≤ b.toNat ∧ b.toNat ≤ 151) ∨ (187 ≤ b.toNat ∧ b.toNat ≤ 191) ∨
      (229 ≤ b.toNat ∧ b.toNat ≤ 254)) then some .successOp
  -- NoOp class
  else if b = opNop then some .noOp
  else if opNop1 ≤ b ∧ b ≤ opNop10 then some .noOp
  -- `OP_RETURN`
  else if b = opReturn then some .returnOp
  -- 4 opcodes operating equally to `OP_RETURN` only in Legacy context
  else if ctx = .legacy ∧ (b = opReserved ∨ b = opReserved1 ∨ b = opReserved2 ∨ b = opVer) then some .returnOp
  -- everything from OP_CHECKSIGADD up, only in Legacy context
  else if ctx = .legacy ∧ opChecksigadd ≤ b then some .returnOp
  -- 2 opcodes operating equally to `OP_RETURN` only in TapScript context
  else if ctx = .tapScript ∧ (b = opCheckmultisig ∨ b = opCheckmultisigverify) then some .returnOp
  -- PushNum class
  else if b = opPushnumNeg1 then some (.pushNum (-1))
  else if opPushnum1 ≤ b ∧ b ≤ opPushnum16 then some (.pushNum (1 + Int.ofNat b.toNat - Int.ofNat opPushnum1.toNat))
  -- PushBytes class
  else if b ≤ opPushbytes75 then some (.pushBytes b.toNat)
  -- Ordinary class, `unwrap()`
  else (tryFromAll b).map .ordinary

/-- `{:?}` / `{}` of `opcodes::All` (`Display` forwards to `Debug`), as characters -/
def name (b : UInt8) : List Char := opNameTable.getD b.toNat []

/-- what the harness prints for a class (the K op `opclass`) -/
def Class.str : Class → String
  | .pushNum n => s!"pushnum:{n}"
  | .pushBytes n => s!"pushbytes:{n}"
  | .returnOp => "return"
  | .successOp => "success"
  | .illegalOp => "illegal"
  | .noOp => "noop"
  | .ordinary o => s!"ordinary:{o.toNat}"

end EV.Opcodes
