/-
  EV.Model.Codec — primitives of consensus encoding (src/encode.rs, src/ext.rs):
  little-endian integers, the minimal compact-size varint, byte vectors and generic
  vectors with the `MAX_VEC_SIZE` allocation guard.  Decoders have the shape
  `Bytes → Res (α × Bytes)` (value and unread rest = `deserialize_partial`).

  Rust items transcribed here (read by tools/modelled_items.py): `read_varint`, `emit_varint`,
  `VarInt::size`, `impl Encodable for VarInt`, `impl Decodable for VarInt`, `impl Encodable for Vec`,
  `impl Decodable for Vec`, `deserialize_partial`, `deserialize`, `serialize`.
-/
import EV.Model.Bytes
namespace EV.Codec

abbrev Dec (α : Type) := Bytes → Res (α × Bytes)

/-- `MAX_VEC_SIZE` of rust-bitcoin (re-exported by `elements::encode`). -/
def maxVecSize : Nat := 4000000

/-- read exactly `n` bytes (`read_exact`), EOF otherwise -/
def take (n : Nat) : Dec Bytes := fun bs =>
  if bs.length < n then .err "eof" else .ok (bs.take n, bs.drop n)

def u8 : Dec Nat := fun bs =>
  match bs with
  | [] => .err "eof"
  | b :: rest => .ok (b.toNat, rest)

/-- little-endian unsigned integer of `k` bytes -/
def le (k : Nat) : Dec Nat := fun bs =>
  match take k bs with
  | .ok (b, rest) => .ok (leNat b, rest)
  | .err e => .err e
  | .panic s => .panic s

def encLe (k n : Nat) : Bytes := leBytes k n

/-- `emit_varint` -/
def encVarint (n : Nat) : Bytes :=
  if n ≤ 0xFC then [UInt8.ofNat n]
  else if n ≤ 0xFFFF then 0xFD :: leBytes 2 n
  else if n ≤ 0xFFFFFFFF then 0xFE :: leBytes 4 n
  else 0xFF :: leBytes 8 n

/-- `VarInt::size` -/
def varintSize (n : Nat) : Nat :=
  if n ≤ 0xFC then 1 else if n ≤ 0xFFFF then 3 else if n ≤ 0xFFFFFFFF then 5 else 9

/-- `read_varint`, rejecting non-minimal forms -/
def varint : Dec Nat := fun bs =>
  match bs with
  | [] => .err "eof"
  | b :: rest =>
    if b = 0xFF then
      match le 8 rest with
      | .ok (x, r) => if x < 0x100000000 then .err "non-minimal varint" else .ok (x, r)
      | .err e => .err e
      | .panic s => .panic s
    else if b = 0xFE then
      match le 4 rest with
      | .ok (x, r) => if x < 0x10000 then .err "non-minimal varint" else .ok (x, r)
      | .err e => .err e
      | .panic s => .panic s
    else if b = 0xFD then
      match le 2 rest with
      | .ok (x, r) => if x < 0xFD then .err "non-minimal varint" else .ok (x, r)
      | .err e => .err e
      | .panic s => .panic s
    else .ok (b.toNat, rest)

/-- `Vec<u8>`: varint length, guard `s > MAX_VEC_SIZE`, then the bytes -/
def bytesVec : Dec Bytes := fun bs =>
  match varint bs with
  | .ok (n, rest) =>
    if n > maxVecSize then .err "oversized vector" else take n rest
  | .err e => .err e
  | .panic s => .panic s

def encBytesVec (b : Bytes) : Bytes := encVarint b.length ++ b

/-- decode exactly `n` items -/
def repeatN {α} (d : Dec α) : Nat → Dec (List α)
  | 0, bs => .ok ([], bs)
  | n+1, bs =>
    match d bs with
    | .ok (a, rest) =>
      match repeatN d n rest with
      | .ok (as, rest') => .ok (a :: as, rest')
      | .err e => .err e
      | .panic s => .panic s
    | .err e => .err e
    | .panic s => .panic s

/-- `Vec<T>` for `T ≠ u8`: varint count, guard `count * size_of::<T>() > MAX_VEC_SIZE`
    (`checked_mul` on a 64-bit `usize` cannot overflow for the memory sizes used here:
    the guard is modelled on unbounded naturals, which rejects a superset), then the items. -/
def vecOf {α} (memSize : Nat) (d : Dec α) : Dec (List α) := fun bs =>
  match varint bs with
  | .ok (n, rest) =>
    if n * memSize ≥ 2^64 then .err "invalid length"
    else if n * memSize > maxVecSize then .err "oversized vector"
    else repeatN d n rest
  | .err e => .err e
  | .panic s => .panic s

def encVec {α} (enc : α → Bytes) (l : List α) : Bytes :=
  encVarint l.length ++ l.flatMap enc

/-- `Vec<Vec<u8>>` (script witness, pegin witness); `size_of::<Vec<u8>>() = 24` on 64-bit -/
def bytesVecVec : Dec (List Bytes) := vecOf 24 bytesVec
def encBytesVecVec (l : List Bytes) : Bytes := encVec encBytesVec l

end EV.Codec
