/-
  EV.Model.SighashCache — `sighash::SighashCache` as a state machine (C13): three lazily filled
  `Option` slots (`common_cache`, `segwit_cache`, `taproot_cache`), the three query kinds threading
  the cache exactly as the code does (which slot is consulted / filled at which point, including
  before an error is returned or a panic is raised), and `witness_mut`.
-/
import EV.Model.Sighash
namespace EV.Sighash
open EV EV.Codec

/-- the three slots of `SighashCache` -/
structure Cache where
  common : Option CommonCache
  segwit : Option SegwitCache
  taproot : Option TaprootCache
  deriving Repr, DecidableEq

/-- `SighashCache::new` -/
def Cache.empty : Cache := ⟨none, none, none⟩

/-- a computation on the cache that may fail; the cache survives errors and (under
    `catch_unwind`) panics -/
abbrev CM (α : Type) := Cache → Cache × Res α

namespace CM
def pure {α} (a : α) : CM α := fun c => (c, .ok a)
def fail {α} (r : Res α) : CM α := fun c => (c, r)
def bind {α β} (m : CM α) (f : α → CM β) : CM β := fun c =>
  match m c with
  | (c1, .ok a) => f a c1
  | (c1, .err e) => (c1, .err e)
  | (c1, .panic s) => (c1, .panic s)
/-- lift a pure fallible value -/
def lift {α} (r : Res α) : CM α := fun c => (c, r)
end CM

/-- `common_cache()`: `get_or_insert_with` -/
def getCommon (H : SigHashes) (tx : Tx) : CM CommonCache := fun c =>
  match c.common with
  | some x => (c, .ok x)
  | none => let x := commonOf H tx; ({ c with common := some x }, .ok x)

/-- `segwit_cache()`: the closure fills the common cache first -/
def getSegwit (H : SigHashes) (tx : Tx) : CM SegwitCache := fun c =>
  match c.segwit with
  | some x => (c, .ok x)
  | none =>
    match getCommon H tx c with
    | (c1, .ok cc) => let x := segwitOf H cc; ({ c1 with segwit := some x }, .ok x)
    | (c1, .err e) => (c1, .err e)
    | (c1, .panic s) => (c1, .panic s)

/-- `taproot_cache(prevouts)`: filled from the first prevout list it is called with -/
def getTaproot (H : SigHashes) (tx : Tx) (ps : List TxOut) : CM TaprootCache := fun c =>
  match c.taproot with
  | some x => (c, .ok x)
  | none => let x := taprootOf H tx ps; ({ c with taproot := some x }, .ok x)

/-- `taproot_output_witnesses(prevouts)` (as fixed by 300f5ff): cached value if present, else fill
    the taproot cache when all prevouts are at hand, else compute without caching -/
def getOutputWitnesses (H : SigHashes) (tx : Tx) (pv : Prevouts) : CM Bytes := fun c =>
  match c.taproot with
  | some t => (c, .ok t.outputWitnesses)
  | none =>
    match pv with
    | .all ps => (getTaproot H tx ps).bind (fun t => CM.pure t.outputWitnesses) c
    | .one _ _ => (c, .ok (H.sha256 (preOutputWitnesses tx)))

/-- `encode_segwitv0_signing_data_to` on the cache -/
def msgSegwitC (H : SigHashes) (tx : Tx) (idx : Nat) (scriptCode : Bytes) (value : Value) (ty : EcdsaTy) : CM Bytes :=
  (if ty.acp then CM.pure zero32 else (getSegwit H tx).bind fun s => CM.pure s.prevouts).bind fun hPrev =>
  (if !ty.acp && ty.base != .single && ty.base != .none
    then (getSegwit H tx).bind fun s => CM.pure s.sequences else CM.pure zero32).bind fun hSeq =>
  (if ty.acp then CM.pure zero32 else (getSegwit H tx).bind fun s => CM.pure s.issuances).bind fun hIss =>
  match tx.input[idx]? with
  | none => CM.fail (.panic "self.tx.input[input_index]")
  | some txin =>
    let p2 := txin.previousOutput.enc ++ encBytesVec scriptCode ++ value.enc ++ encLe 4 txin.sequence ++
      (if txin.hasIssuance then txin.assetIssuance.enc else [])
    (if ty.base != .single && ty.base != .none then (getSegwit H tx).bind fun s => CM.pure s.outputs
      else if ty.base = .single ∧ idx < tx.output.length then
        match tx.output[idx]? with
        | some o => CM.pure (H.sha256d o.enc)
        | none => CM.pure zero32
      else CM.pure zero32).bind fun hOut =>
    CM.pure (encLe 4 tx.version ++ hPrev ++ hSeq ++ hIss ++ p2 ++ hOut ++ encLe 4 tx.lockTime ++ encLe 4 ty.asU32)

/-- the non-ANYONECANPAY block: each access goes through `prevouts.get_all()?` first -/
def tapInsPartC (H : SigHashes) (tx : Tx) (pv : Prevouts) (ty : SchnorrTy) : CM Bytes :=
  if ty.acp then CM.pure [] else
  (CM.lift pv.getAll).bind fun ps =>
  (getTaproot H tx ps).bind fun t1 =>
  (getCommon H tx).bind fun c1 =>
  (getTaproot H tx ps).bind fun t2 =>
  (getTaproot H tx ps).bind fun t3 =>
  (getCommon H tx).bind fun c2 =>
  (getCommon H tx).bind fun c3 =>
  (getTaproot H tx ps).bind fun t4 =>
  CM.pure (t1.outpointFlags ++ c1.prevouts ++ t2.assetAmounts ++ t3.scriptPubkeys ++ c2.sequences ++
           c3.issuances ++ t4.issuanceRangeproofs)

def tapOutsPartC (H : SigHashes) (tx : Tx) (pv : Prevouts) (ty : SchnorrTy) : CM Bytes :=
  if !ty.isNone && !ty.isSingle then
    (getCommon H tx).bind fun c =>
    (getOutputWitnesses H tx pv).bind fun w =>
    CM.pure (c.outputs ++ w)
  else CM.pure []

/-- `taproot_encode_signing_data_to` on the cache -/
def msgTaprootC (H : SigHashes) (tx : Tx) (idx : Nat) (pv : Prevouts) (annex : Option Bytes)
    (leaf : Option (Bytes × Nat)) (ty : SchnorrTy) (genesis : Bytes) : CM Bytes :=
  (CM.lift (pv.checkAll tx)).bind fun _ =>
  (tapInsPartC H tx pv ty).bind fun pIns =>
  (tapOutsPartC H tx pv ty).bind fun pOuts =>
  (CM.lift (tapThisPart H tx idx pv ty)).bind fun pThis =>
  (CM.lift (tapSinglePart H tx idx ty)).bind fun pSingle =>
  CM.pure (tapHead tx ty genesis ++ pIns ++ pOuts ++ [spendType annex leaf] ++ pThis ++
           tapAnnexPart H annex ++ pSingle ++ tapLeafPart leaf)

/-- a signature-hash query against a `SighashCache` -/
inductive Query where
  /-- `legacy_sighash` -/
  | legacy (idx : Nat) (script : Bytes) (ty : EcdsaTy)
  /-- `segwitv0_sighash` -/
  | segwit (idx : Nat) (scriptCode : Bytes) (value : Value) (ty : EcdsaTy)
  /-- `taproot_sighash`; `taproot_key_spend_signature_hash` is `annex = none, leaf = none`,
      `taproot_script_spend_signature_hash` is `annex = none, leaf = some (h, 0xFFFFFFFF)` -/
  | taproot (idx : Nat) (pv : Prevouts) (annex : Option Bytes) (leaf : Option (Bytes × Nat)) (ty : SchnorrTy)
      (genesis : Bytes)
  deriving Repr, DecidableEq

namespace Query
def taprootKey (idx : Nat) (pv : Prevouts) (ty : SchnorrTy) (genesis : Bytes) : Query :=
  .taproot idx pv none none ty genesis
def taprootScript (idx : Nat) (pv : Prevouts) (leafHash : Bytes) (ty : SchnorrTy) (genesis : Bytes) : Query :=
  .taproot idx pv none (some (leafHash, 0xFFFFFFFF)) ty genesis
end Query

def mapRes {α β} (f : α → β) (m : CM α) : CM β := fun c =>
  match m c with
  | (c1, r) => (c1, r.map f)

/-- one query on the cache: new cache and the digest (or error / panic) -/
def query (H : SigHashes) (tx : Tx) (q : Query) : CM Bytes :=
  match q with
  | .legacy idx script ty => CM.lift (legacySighash H tx idx script ty)
  | .segwit idx sc v ty => mapRes H.sha256d (msgSegwitC H tx idx sc v ty)
  | .taproot idx pv annex leaf ty g => mapRes (H.tagged Gen.tapSighashTag) (msgTaprootC H tx idx pv annex leaf ty g)

/-- the same query answered without any cache (C03 functions) -/
def fresh (H : SigHashes) (tx : Tx) : Query → Res Bytes
  | .legacy idx script ty => legacySighash H tx idx script ty
  | .segwit idx sc v ty => segwitSighash H tx idx sc v ty
  | .taproot idx pv annex leaf ty g => taprootSighash H tx idx pv annex leaf ty g

/-- replace the script witness of input `idx` (what a caller can do through `witness_mut`) -/
def setScriptWitness (tx : Tx) (idx : Nat) (stack : List Bytes) : Tx :=
  { tx with input := tx.input.modify idx (fun i => { i with witness := { i.witness with scriptWitness := stack } }) }

/-- operations on a `SighashCache<&mut Transaction>` -/
inductive Op where
  | q (q : Query)
  /-- `witness_mut(idx)` followed by an assignment of the whole stack -/
  | w (idx : Nat) (stack : List Bytes)
  deriving Repr, DecidableEq

inductive Out where
  | digest (r : Res Bytes)
  /-- `witness_mut` returned `Some` / `None` -/
  | wit (some : Bool)
  deriving Repr, DecidableEq

structure State where
  tx : Tx
  cache : Cache
  deriving Repr, DecidableEq

def step (H : SigHashes) (s : State) : Op → State × Out
  | .q q => let (c, r) := query H s.tx q s.cache; ({ s with cache := c }, .digest r)
  | .w idx stack =>
    if idx < s.tx.input.length then ({ s with tx := setScriptWitness s.tx idx stack }, .wit true)
    else (s, .wit false)

/-- run a sequence of operations on one cache object -/
def run (H : SigHashes) : State → List Op → List Out
  | _, [] => []
  | s, op :: ops => let (s', o) := step H s op; o :: run H s' ops

/-- reference: every query answered by a fresh cache over the transaction as it is at that point -/
def runFresh (H : SigHashes) : Tx → List Op → List Out
  | _, [] => []
  | tx, .q q :: ops => .digest (fresh H tx q) :: runFresh H tx ops
  | tx, .w idx stack :: ops =>
    if idx < tx.input.length then .wit true :: runFresh H (setScriptWitness tx idx stack) ops
    else .wit false :: runFresh H tx ops

/-- reference: every query answered by a fresh cache over the ORIGINAL transaction -/
def runOriginal (H : SigHashes) (tx : Tx) : List Op → List Out
  | [] => []
  | .q q :: ops => .digest (fresh H tx q) :: runOriginal H tx ops
  | .w idx _ :: ops => .wit (decide (idx < tx.input.length)) :: runOriginal H tx ops

end EV.Sighash
