/-
  EV.Model.SerdeDerive — what `#[derive(Serialize, Deserialize)]` (serde_derive) generates, as an interpreter
  over the TABLE `EV.Gen.serdeDerive` that tools/extract.d/c20_derive.py regenerates from /repo on every run
  (every derived item: its shape, its fields in declaration order with serde key, type and `serde(with = …)`
  hook; `#[serde(flatten)]` inlined and marked `flat`).

  * values are the untyped universe `DVal` (numbers, booleans, byte strings for every hash / key / script /
    proof / `Vec<u8>` / `[u8; N]`, options, vectors, pairs, maps as entry lists, records = field values in
    declaration order, enum variants; `tx` / `txout` carry the hand-written `Transaction` / `TxOut` models);
  * `dToS env tbl fuel ty h v` mirrors the generated `Serialize`: `serialize_struct(name, n)` + one
    `serialize_field(key, value)` per field in order (a `flat` struct: `serialize_map` + the same entries),
    `serialize_newtype_struct`, `serialize_newtype_variant`, and serde's own impls for integers / `bool` /
    `Option` / `Vec` / `[u8; N]` / tuples / `BTreeMap` (`serialize_map`); a `serde(with = …)` hook replaces the
    field's own impl (`serde_utils::*` as modelled in EV.Model.SerdeUtils, `serde_fallback_locktime`,
    `serde_parity`);
  * `dOfS env tbl fuel ty h s` mirrors the generated `Deserialize` driven by a self-describing deserializer
    (EV.Model.Serde): `visit_seq` reads the fields by POSITION (exactly as many as declared), `visit_map` by KEY:
    the field identifier is a string, a `u64` index or a byte string (a `flat` struct: string or byte string,
    every other scalar is ignored), unknown keys are ignored (`IgnoredAny`), a second occurrence of a field is
    the error `duplicate field`, a missing field is the error `missing field` unless its type is `Option<_>`
    and it has no hook (serde's `missing_field` gives `None`); newtype structs are transparent
    (`visit_newtype_struct`); enums are externally tagged (`{variant: content}` / `[variant, content]`).
  * types that are not derived in /repo are LEAF codecs looked up by name in `env`: the hand-written impls of
    /repo (EV.Model.Serde, concrete: `repoLeaves`) and third-party impls (`Deps`, PARAMETERS of the theorems).
  Recursion is on `fuel` only (one unit per type constructor or named type; the table's nesting depth is < 16).
-/
import EV.Model.SerdeUtils
namespace EV.Serde
open EV EV.Text EV.Gen

/-- the value universe of derived types -/
inductive DVal where
  | nat (n : Nat)
  | bool (b : Bool)
  | bytes (b : Bytes)
  | none
  | some (v : DVal)
  | list (l : List DVal)
  | pair (a b : DVal)
  | map (l : List (DVal × DVal))
  | record (fs : List DVal)
  | variant (i : Nat) (v : DVal)
  | tx (t : Tx)
  | txout (o : TxOut)
  deriving Repr, Inhabited

mutual
/-- structural equality test (keys of `BTreeMap`s) -/
def DVal.beq : DVal → DVal → Bool
  | .nat a, .nat b => a == b
  | .bool a, .bool b => a == b
  | .bytes a, .bytes b => a == b
  | .none, .none => true
  | .some a, .some b => DVal.beq a b
  | .list a, .list b => DVal.beqL a b
  | .pair a1 a2, .pair b1 b2 => DVal.beq a1 b1 && DVal.beq a2 b2
  | .map a, .map b => DVal.beqM a b
  | .record a, .record b => DVal.beqL a b
  | .variant i a, .variant j b => i == j && DVal.beq a b
  | .tx a, .tx b => decide (a = b)
  | .txout a, .txout b => decide (a = b)
  | _, _ => false
def DVal.beqL : List DVal → List DVal → Bool
  | [], [] => true
  | a :: as, b :: bs => DVal.beq a b && DVal.beqL as bs
  | _, _ => false
def DVal.beqM : List (DVal × DVal) → List (DVal × DVal) → Bool
  | [], [] => true
  | (a1, a2) :: as, (b1, b2) :: bs => DVal.beq a1 b1 && DVal.beq a2 b2 && DVal.beqM as bs
  | _, _ => false
end

/-- a leaf codec: a type whose serde impl is not derived in /repo -/
structure Leaf where
  toS : Bool → DVal → SVal
  ofS : Bool → SVal → Res DVal

abbrev Env := String → Option Leaf
abbrev Table := List (String × SerdeShape)

/-! ### `BTreeMap` with `DVal` keys -/

/-- `BTreeMap::insert`: the value of an equal key is replaced, a new key is added -/
def dInsert : List (DVal × DVal) → DVal → DVal → List (DVal × DVal)
  | [], k, v => [(k, v)]
  | (k', v') :: r, k, v => if DVal.beq k' k then (k', v) :: r else (k', v') :: dInsert r k v

/-- the `visit_map` loop of `BTreeMap` (serde's impl and the `serde_utils` helpers) -/
def dCollectMap (pk pv : SVal → Res DVal) : List (SVal × SVal) → List (DVal × DVal) → Res (List (DVal × DVal))
  | [], acc => .ok acc
  | (k, v) :: r, acc =>
    match pk k with
    | .ok k' =>
      (match pv v with
       | .ok v' => dCollectMap pk pv r (dInsert acc k' v')
       | .err e => .err e
       | .panic s => .panic s)
    | .err e => .err e
    | .panic s => .panic s

/-- the `visit_seq` loop over pairs (`(K, V)` / `OwnedPair`) of the `btreemap_as_seq*` helpers -/
def dCollectPairs (pk pv : SVal → Res DVal) : List SVal → List (DVal × DVal) → Res (List (DVal × DVal))
  | [], acc => .ok acc
  | .seq [a, b] :: r, acc =>
    (match pk a with
     | .ok k' =>
       (match pv b with
        | .ok v' => dCollectPairs pk pv r (dInsert acc k' v')
        | .err e => .err e
        | .panic s => .panic s)
     | .err e => .err e
     | .panic s => .panic s)
  | _ :: _, _ => .err "invalid pair"

def resMap {α β} (f : α → β) : Res α → Res β
  | .ok a => .ok (f a)
  | .err e => .err e
  | .panic s => .panic s

/-! ### fields -/

abbrev RecS := SerdeTy → Bool → DVal → SVal
abbrev RecD := SerdeTy → Bool → SVal → Res DVal

def bytesOf : DVal → Bytes
  | .bytes b => b
  | _ => []

/-- a field's serializer: its type's impl, or the `serde(with = …)` hook -/
def fieldToS (rc : RecS) (f : SerdeField) (h : Bool) (v : DVal) : SVal :=
  if f.hook = "" then rc f.ty h v
  else if f.hook = "hex_bytes" then HexBytes.toS h (bytesOf v)
  else if f.hook = "serde_fallback_locktime" then
    -- `Option<LockTime>` written as `Option<u32>` (the consensus integer)
    match v with
    | .some (.nat n) => .some (.num 32 n)
    | _ => .none
  else if f.hook = "serde_parity" then
    match v with
    | .nat p => .num 8 p
    | _ => .unit
  else
    match f.ty, v with
    | .map k vt, .map l =>
      if f.hook = "btreemap_byte_values" then
        .map (l.map fun e => (rc k h e.1, if h then sStr (hexStr (bytesOf e.2)) else sVecU8 (bytesOf e.2)))
      else if f.hook = "btreemap_as_seq" then
        if h then .seq (l.map fun e => .tuple [rc k h e.1, rc vt h e.2])
        else .map (l.map fun e => (rc k h e.1, rc vt h e.2))
      else if f.hook = "btreemap_as_seq_byte_values" then
        if h then .seq (l.map fun e => .tupleStruct "BorrowedPair" [rc k h e.1, HexBytes.toS h (bytesOf e.2)])
        else .map (l.map fun e => (rc k h e.1, sVecU8 (bytesOf e.2)))
      else .unit
    | _, _ => .unit

/-- a field's deserializer -/
def fieldOfS (rc : RecD) (f : SerdeField) (h : Bool) (s : SVal) : Res DVal :=
  if f.hook = "" then rc f.ty h s
  else if f.hook = "hex_bytes" then resMap .bytes (HexBytes.ofS h s)
  else if f.hook = "serde_fallback_locktime" then
    match s with
    | .unit => .ok .none
    | s => resMap (fun n => .some (.nat n)) (ofNum (2^32) s)
  else if f.hook = "serde_parity" then
    match ofNum 256 s with
    | .ok p => if p ≤ 1 then .ok (.nat p) else .err "invalid parity"
    | .err e => .err e
    | .panic s => .panic s
  else
    match f.ty with
    | .map k vt =>
      if f.hook = "btreemap_byte_values" then
        match s with
        | .map es => resMap .map (dCollectMap (rc k h) (fun v => resMap .bytes (ByteValues.ofVal h v)) es [])
        | _ => .err "invalid type"
      else if f.hook = "btreemap_as_seq" then
        match s with
        | .seq l => if h then resMap .map (dCollectPairs (rc k h) (rc vt h) l []) else .err "invalid type"
        | .map es => if h then .err "invalid type" else resMap .map (dCollectMap (rc k h) (rc vt h) es [])
        | _ => .err "invalid type"
      else if f.hook = "btreemap_as_seq_byte_values" then
        match s with
        | .seq l =>
          if h then resMap .map (dCollectPairs (rc k h) (fun v => resMap .bytes (HexBytes.ofS h v)) l [])
          else .err "invalid type"
        | .map es =>
          if h then .err "invalid type"
          else resMap .map (dCollectMap (rc k h) (fun v => resMap .bytes (ofVecU8 v)) es [])
        | _ => .err "invalid type"
      else .err "unknown hook"
    | _ => .err "unknown hook"

/-- serde's `missing_field`: `None` for an `Option<_>` field without a hook, an error otherwise -/
def missingField (f : SerdeField) : Res DVal :=
  match f.ty with
  | .opt _ => if f.hook = "" then .ok .none else .err ("missing field " ++ f.key)
  | _ => .err ("missing field " ++ f.key)

/-! ### structs -/

def zipFields (rc : RecS) (h : Bool) : List SerdeField → List DVal → List (String × SVal)
  | f :: fs, v :: vs => (f.key, fieldToS rc f h v) :: zipFields rc h fs vs
  | _, _ => []

/-- `serialize_struct` + `serialize_field`s; with a flattened field: `serialize_map` + the same entries -/
def structToS (rc : RecS) (name : String) (fields : List SerdeField) (flat : Bool) (h : Bool) (vs : List DVal) : SVal :=
  let es := zipFields rc h fields vs
  if flat then .map (es.map fun e => (.str e.1, e.2)) else .struct name es

/-- `visit_seq`: by position, exactly as many elements as fields -/
def seqFields (rc : RecD) (h : Bool) : List SerdeField → List SVal → Res (List DVal)
  | [], [] => .ok []
  | f :: fs, x :: xs =>
    (match fieldOfS rc f h x with
     | .ok v =>
       (match seqFields rc h fs xs with
        | .ok vs => .ok (v :: vs)
        | .err e => .err e
        | .panic s => .panic s)
     | .err e => .err e
     | .panic s => .panic s)
  | _, _ => .err "invalid length"

/-- position of a key in the field-name list -/
def keyIdx : List String → String → Option Nat
  | [], _ => Option.none
  | k :: r, s => if k = s then some 0 else (keyIdx r s).map (· + 1)
/-- … of a name given as UTF-8 bytes -/
def keyIdxB : List String → Bytes → Option Nat
  | [], _ => Option.none
  | k :: r, b => if k.toUTF8.toList = b then some 0 else (keyIdxB r b).map (· + 1)

/-- the generated field identifier (`__Field`): a string, a `u64` index or a byte string; in a struct with a
    flattened field: a string or a byte string, while every other scalar is kept as "other" content (ignored);
    any other token is an error. `none` = ignored key -/
def fieldIdx (flat : Bool) (keys : List String) : SVal → Res (Option Nat)
  | .str s => .ok (keyIdx keys s)
  | .bytes b => .ok (keyIdxB keys b)
  | .num _ i => .ok (if flat then Option.none else if i < keys.length then some i else Option.none)
  | .bool _ => if flat then .ok Option.none else .err "invalid type: field identifier"
  | .unit => if flat then .ok Option.none else .err "invalid type: field identifier"
  | _ => .err "invalid type: field identifier"

/-- the slot of field number `i` after the `visit_map` loop -/
def slotOf (flat : Bool) (keys : List String) (i : Nat) (p : SVal → Res DVal) :
    List (SVal × SVal) → Option DVal → Res (Option DVal)
  | [], acc => .ok acc
  | (k, v) :: r, acc =>
    match fieldIdx flat keys k with
    | .ok (some j) =>
      if j = i then
        (if acc.isSome then .err "duplicate field"
         else match p v with
           | .ok a => slotOf flat keys i p r (some a)
           | .err e => .err e
           | .panic s => .panic s)
      else slotOf flat keys i p r acc
    | .ok Option.none => slotOf flat keys i p r acc
    | .err e => .err e
    | .panic s => .panic s

/-- `visit_map`: every field's slot, then the missing-field rule; fields in declaration order from index `i` -/
def mapFields (rc : RecD) (flat : Bool) (keys : List String) (h : Bool) (es : List (SVal × SVal)) :
    Nat → List SerdeField → Res (List DVal)
  | _, [] => .ok []
  | i, f :: fs =>
    let slot : Res DVal :=
      match slotOf flat keys i (fieldOfS rc f h) es Option.none with
      | .ok (some v) => .ok v
      | .ok Option.none => missingField f
      | .err e => .err e
      | .panic s => .panic s
    match slot with
    | .ok v =>
      (match mapFields rc flat keys h es (i + 1) fs with
       | .ok vs => .ok (v :: vs)
       | .err e => .err e
       | .panic s => .panic s)
    | .err e => .err e
    | .panic s => .panic s

def structOfS (rc : RecD) (fields : List SerdeField) (flat : Bool) (h : Bool) : SVal → Res DVal
  | .seq l => if flat then .err "invalid type: a struct with a flattened field reads maps only" else resMap .record (seqFields rc h fields l)
  | .map es => resMap .record (mapFields rc flat (fields.map (·.key)) h es 0 fields)
  | _ => .err "invalid type"

/-! ### enums (externally tagged, newtype variants) -/

/-- the generated variant identifier: by name, by index (out of range: error), by name as bytes -/
def variantIdx (names : List String) : SVal → Res Nat
  | .str s => match keyIdx names s with | some i => .ok i | Option.none => .err "unknown variant"
  | .num _ i => if i < names.length then .ok i else .err "invalid value: variant index"
  | .bytes b => match keyIdxB names b with | some i => .ok i | Option.none => .err "unknown variant"
  | _ => .err "invalid type: variant identifier"

def enumOfS (rc : RecD) (vars : List (String × SerdeTy)) (h : Bool) (s : SVal) : Res DVal :=
  let go (k v : SVal) : Res DVal :=
    match variantIdx (vars.map (·.1)) k with
    | .ok i =>
      (match vars[i]? with
       | some (_, t) => resMap (.variant i) (rc t h v)
       | Option.none => .err "unknown variant")
    | .err e => .err e
    | .panic s => .panic s
  match s with
  | .map [(k, v)] => go k v
  | .seq [k, v] => go k v
  | _ => .err "invalid type"

/-! ### the interpreter -/

def dToS (env : Env) (tbl : Table) : Nat → SerdeTy → Bool → DVal → SVal
  | 0, _, _, _ => .unit
  | n+1, ty, h, v =>
    let rc : RecS := dToS env tbl n
    match ty with
    | .u8 => (match v with | .nat x => .num 8 x | _ => .unit)
    | .u16 => (match v with | .nat x => .num 16 x | _ => .unit)
    | .u32 => (match v with | .nat x => .num 32 x | _ => .unit)
    | .u64 => (match v with | .nat x => .num 64 x | _ => .unit)
    | .usize => (match v with | .nat x => .num 64 x | _ => .unit)
    | .bool => (match v with | .bool b => .bool b | _ => .unit)
    | .opt t => (match v with | .some x => .some (rc t h x) | _ => .none)
    | .vec t =>
      if t = .u8 then (match v with | .bytes b => sVecU8 b | _ => .unit)
      else (match v with | .list l => .seq (l.map (rc t h)) | _ => .unit)
    | .arr _ => (match v with | .bytes b => sArr b | _ => .unit)
    | .map k vt => (match v with | .map l => .map (l.map fun e => (rc k h e.1, rc vt h e.2)) | _ => .unit)
    | .pair a b => (match v with | .pair x y => .tuple [rc a h x, rc b h y] | _ => .unit)
    | .named nm =>
      (match tbl.lookup nm with
       | some (.struct fields flat) =>
         (match v with
          | .record vs => structToS rc nm fields flat h vs
          | _ => .unit)
       | some (.newtype t) => .newtype nm (rc t h v)
       | some (.enum vars) =>
         (match v with
          | .variant i p =>
            (match vars[i]? with
             | some (vn, t) => .variant nm i vn (rc t h p)
             | Option.none => .unit)
          | _ => .unit)
       | Option.none =>
         (match env nm with
          | some L => L.toS h v
          | Option.none => .unit))

def dOfS (env : Env) (tbl : Table) : Nat → SerdeTy → Bool → SVal → Res DVal
  | 0, _, _, _ => .err "out of fuel"
  | n+1, ty, h, s =>
    let rc : RecD := dOfS env tbl n
    match ty with
    | .u8 => resMap .nat (ofNum 256 s)
    | .u16 => resMap .nat (ofNum 65536 s)
    | .u32 => resMap .nat (ofNum (2^32) s)
    | .u64 => resMap .nat (ofNum (2^64) s)
    | .usize => resMap .nat (ofNum (2^64) s)
    | .bool => resMap .bool (ofBool s)
    | .opt t =>
      (match s with
       | .unit => .ok .none
       | s => resMap .some (rc t h s))
    | .vec t => if t = .u8 then resMap .bytes (ofVecU8 s) else resMap .list (ofSeq (rc t h) s)
    | .arr k => resMap .bytes (ofArr k s)
    | .map k vt =>
      (match s with
       | .map es => resMap .map (dCollectMap (rc k h) (rc vt h) es [])
       | _ => .err "invalid type")
    | .pair a b =>
      (match s with
       | .seq [x, y] =>
         (match rc a h x with
          | .ok u =>
            (match rc b h y with
             | .ok w => .ok (.pair u w)
             | .err e => .err e
             | .panic s => .panic s)
          | .err e => .err e
          | .panic s => .panic s)
       | _ => .err "invalid type")
    | .named nm =>
      (match tbl.lookup nm with
       | some (.struct fields flat) => structOfS rc fields flat h s
       | some (.newtype t) => rc t h s
       | some (.enum vars) => enumOfS rc vars h s
       | Option.none =>
         (match env nm with
          | some L => L.ofS h s
          | Option.none => .err "unknown type"))

/-- enough fuel for every type of the table -/
def deriveFuel : Nat := 24

/-! ### leaf codecs of /repo's own (hand-written or already modelled) impls -/

def hashLeaf (k : HashKind) : Leaf :=
  { toS := fun h v => sHash k h (bytesOf v), ofS := fun h s => resMap .bytes (ofHash k h s) }

def txLeaf (P : Prims) : Leaf :=
  { toS := fun h v => match v with | .tx t => Tx.toS h t | _ => .unit
    ofS := fun h s => resMap .tx (Tx.ofS P h s) }
def txOutLeaf (P : Prims) : Leaf :=
  { toS := fun h v => match v with | .txout o => TxOut.toS h o | _ => .unit
    ofS := fun h s => resMap .txout (TxOut.ofS P h s) }
def scriptLeaf : Leaf :=
  { toS := fun _ v => sScript (bytesOf v), ofS := fun _ s => resMap .bytes (ofScript s) }
def bfLeaf (P : Prims) : Leaf :=
  { toS := fun h v => BlindingFactor.toS h (bytesOf v), ofS := fun h s => resMap .bytes (BlindingFactor.ofS P h s) }
def psbtSighashLeaf : Leaf :=
  { toS := fun _ v => match v with | .nat n => stringToS (psbtShow n) | _ => .unit
    ofS := fun _ s => resMap .nat (stringOfS psbtParse s) }
def schnorrSighashLeaf : Leaf :=
  { toS := fun _ v => match v with | .nat n => stringToS ((schnorrShow n).getD "") | _ => .unit
    ofS := fun _ s => resMap .nat (stringOfS schnorrParse s) }
def pointLeaf (valid : Bytes → Bool) : Leaf :=
  { toS := fun h v => sHexOrBytes h (bytesOf v), ofS := fun h s => resMap .bytes (ofPoint valid h s) }
def tweakLeaf (P : Prims) : Leaf :=
  { toS := fun h v => sHexOrBytes h (bytesOf v), ofS := fun h s => resMap .bytes (ofTweak P h s) }
def proofLeaf (valid : Bytes → Bool) : Leaf :=
  { toS := fun h v => sHexOrBytes h (bytesOf v), ofS := fun h s => resMap .bytes (ofProof valid h s) }

def repoLeaves (P : Prims) : List (String × Leaf) :=
  [("Transaction", txLeaf P), ("TxOut", txOutLeaf P), ("Script", scriptLeaf),
   ("Txid", hashLeaf ⟨32, true⟩), ("BlockHash", hashLeaf ⟨32, true⟩), ("AssetId", hashLeaf ⟨32, true⟩),
   ("TapLeafHash", hashLeaf ⟨32, false⟩), ("TapNodeHash", hashLeaf ⟨32, false⟩),
   ("ripemd160::Hash", hashLeaf ⟨20, false⟩), ("sha256::Hash", hashLeaf ⟨32, false⟩),
   ("hash160::Hash", hashLeaf ⟨20, false⟩), ("sha256d::Hash", hashLeaf ⟨32, true⟩),
   ("AssetBlindingFactor", bfLeaf P), ("ValueBlindingFactor", bfLeaf P),
   ("PsbtSighashType", psbtSighashLeaf), ("SchnorrSighashType", schnorrSighashLeaf),
   ("PedersenCommitment", pointLeaf P.commitment), ("Generator", pointLeaf P.generator), ("Tweak", tweakLeaf P),
   ("RangeProof", proofLeaf P.rangeproof), ("SurjectionProof", proofLeaf P.surjproof)]

/-- third-party impls reached from derived items: PARAMETERS (the theorems assume their round-trip law; the
    driver instantiates them with executable transcriptions that are compared with the real impls) -/
structure Deps where
  /-- `bitcoin::PublicKey` -/
  publicKey : Leaf
  /-- `secp256k1::XOnlyPublicKey` -/
  xOnly : Leaf
  /-- `secp256k1::schnorr::Signature` -/
  signature : Leaf
  /-- `bitcoin::bip32::Fingerprint` -/
  fingerprint : Leaf
  /-- `bitcoin::bip32::DerivationPath` -/
  derivationPath : Leaf
  /-- `bitcoin::bip32::Xpub` -/
  xpub : Leaf
  /-- `bitcoin::Transaction` (`pset::Input::pegin_tx`) -/
  btcTransaction : Leaf

def depLeaves (X : Deps) : List (String × Leaf) :=
  [("PublicKey", X.publicKey), ("XOnlyPublicKey", X.xOnly), ("Signature", X.signature),
   ("Fingerprint", X.fingerprint), ("DerivationPath", X.derivationPath), ("Xpub", X.xpub),
   ("bitcoin::Transaction", X.btcTransaction)]

def stdEnv (P : Prims) (X : Deps) : Env := fun nm => (repoLeaves P ++ depLeaves X).lookup nm

/-- `Serialize` / `Deserialize` of the derived item `nm` of /repo -/
def deriveToS (P : Prims) (X : Deps) (nm : String) (h : Bool) (v : DVal) : SVal :=
  dToS (stdEnv P X) serdeDerive deriveFuel (.named nm) h v
def deriveOfS (P : Prims) (X : Deps) (nm : String) (h : Bool) (s : SVal) : Res DVal :=
  dOfS (stdEnv P X) serdeDerive deriveFuel (.named nm) h s


/-! ### well-typed values (the domain of the round-trip theorems) -/

/-- keys pairwise different (as `BTreeMap` keys are) -/
def KeysDistinct (l : List (DVal × DVal)) : Prop := l.Pairwise (fun a b => DVal.beq a.1 b.1 = false)

/-- the serialization of a value of this type is never null (so `Some(x)` cannot collapse into `None`): anything
    but an `Option`, looking through newtype structs; leaf codecs promise it in their law -/
def nonNullTy (tbl : Table) : Nat → SerdeTy → Bool
  | 0, _ => false
  | _+1, .opt _ => false
  | n+1, .named nm =>
    (match tbl.lookup nm with
     | some (.newtype t) => nonNullTy tbl n t
     | _ => true)
  | _+1, _ => true

def allBytes (l : List (DVal × DVal)) : Prop := ∀ e ∈ l, ∃ b, e.2 = .bytes b

/-- what a field holds, given the typing `wt` of the next level: its type's values, or what its hook expects -/
def fieldWT (wt : SerdeTy → DVal → Prop) (f : SerdeField) (v : DVal) : Prop :=
  if f.hook = "" then wt f.ty v
  else if f.hook = "hex_bytes" then ∃ b, v = .bytes b
  else if f.hook = "serde_fallback_locktime" then v = .none ∨ ∃ n, v = .some (.nat n) ∧ n < 2^32
  else if f.hook = "serde_parity" then ∃ p, v = .nat p ∧ p ≤ 1
  else
    match f.ty, v with
    | .map k vt, .map l =>
      if f.hook = "btreemap_byte_values" ∨ f.hook = "btreemap_as_seq_byte_values" then
        (∀ e ∈ l, wt k e.1) ∧ allBytes l ∧ KeysDistinct l
      else if f.hook = "btreemap_as_seq" then (∀ e ∈ l, wt k e.1 ∧ wt vt e.2) ∧ KeysDistinct l
      else False
    | _, _ => False

def fieldsWT (wt : SerdeTy → DVal → Prop) : List SerdeField → List DVal → Prop
  | [], [] => True
  | f :: fs, v :: vs => fieldWT wt f v ∧ fieldsWT wt fs vs
  | _, _ => False

/-- `v` is a value of type `ty` (`okLeaf nm` = the values of leaf type `nm`); `fuel` as in `dToS` -/
def dWT (okLeaf : String → DVal → Prop) (tbl : Table) : Nat → SerdeTy → DVal → Prop
  | 0, _, _ => False
  | n+1, ty, v =>
    let wt := dWT okLeaf tbl n
    match ty with
    | .u8 => ∃ x, v = .nat x ∧ x < 256
    | .u16 => ∃ x, v = .nat x ∧ x < 65536
    | .u32 => ∃ x, v = .nat x ∧ x < 2^32
    | .u64 => ∃ x, v = .nat x ∧ x < 2^64
    | .usize => ∃ x, v = .nat x ∧ x < 2^64
    | .bool => ∃ b, v = .bool b
    | .opt t => v = .none ∨ ∃ x, v = .some x ∧ wt t x ∧ nonNullTy tbl n t = true
    | .vec t => if t = .u8 then ∃ b, v = .bytes b else ∃ l, v = .list l ∧ ∀ x ∈ l, wt t x
    | .arr k => ∃ b, v = .bytes b ∧ b.length = k
    | .map k vt => ∃ l, v = .map l ∧ (∀ e ∈ l, wt k e.1 ∧ wt vt e.2) ∧ KeysDistinct l
    | .pair a b => ∃ x y, v = .pair x y ∧ wt a x ∧ wt b y
    | .named nm =>
      match tbl.lookup nm with
      | some (.struct fields _) => ∃ vs, v = .record vs ∧ fieldsWT wt fields vs
      | some (.newtype t) => wt t v
      | some (.enum vars) => ∃ i p, v = .variant i p ∧ ∃ vt, vars[i]? = some vt ∧ wt vt.2 p
      | Option.none => okLeaf nm v

/-- the table is usable: field keys of a struct and variant names of an enum are pairwise distinct -/
def shapeOk : SerdeShape → Bool
  | .struct fields _ => decide ((fields.map (·.key)).Nodup)
  | .newtype _ => true
  | .enum vars => decide ((vars.map (·.1)).Nodup)
def tableOk (tbl : Table) : Bool := tbl.all fun e => shapeOk e.2

/-- the law a leaf codec must satisfy: round trip through the format's view, and never null -/
structure LeafLaw (L : Leaf) (ok : DVal → Prop) (h : Bool) (f : Fmt) : Prop where
  rt : ∀ v, ok v → L.ofS h (lossy f (L.toS h v)) = .ok v
  nonnull : ∀ v, ok v → lossy f (L.toS h v) ≠ .unit


/-! ### the values of the leaf types, and the instances for /repo's table -/

def isBytes (v : DVal) : Prop := ∃ b, v = .bytes b
def isBytesLen (n : Nat) (v : DVal) : Prop := ∃ b, v = .bytes b ∧ b.length = n

/-- the values of the third-party leaf types (parameters, like their codecs) -/
structure DepsOk where
  publicKey : DVal → Prop
  xOnly : DVal → Prop
  signature : DVal → Prop
  fingerprint : DVal → Prop
  derivationPath : DVal → Prop
  xpub : DVal → Prop
  btcTransaction : DVal → Prop

/-- the values of every leaf type, in the order of `repoLeaves ++ depLeaves` -/
def leafOks (P : Prims) (D : DepsOk) : List (String × (DVal → Prop)) :=
  [("Transaction", fun v => ∃ t, v = .tx t ∧ Tx.ok P t),
   ("TxOut", fun v => ∃ o, v = .txout o ∧ TxOut.ok P o),
   ("Script", isBytes),
   ("Txid", isBytesLen 32), ("BlockHash", isBytesLen 32), ("AssetId", isBytesLen 32),
   ("TapLeafHash", isBytesLen 32), ("TapNodeHash", isBytesLen 32),
   ("ripemd160::Hash", isBytesLen 20), ("sha256::Hash", isBytesLen 32),
   ("hash160::Hash", isBytesLen 20), ("sha256d::Hash", isBytesLen 32),
   ("AssetBlindingFactor", fun v => ∃ b, v = .bytes b ∧ BlindingFactor.ok P b),
   ("ValueBlindingFactor", fun v => ∃ b, v = .bytes b ∧ BlindingFactor.ok P b),
   ("PsbtSighashType", fun v => ∃ n, v = .nat n ∧ n < 2^32),
   ("SchnorrSighashType", fun v => ∃ n, v = .nat n ∧ (schnorrShow n).isSome = true),
   ("PedersenCommitment", fun v => ∃ b, v = .bytes b ∧ b.length = 33 ∧ P.commitment b = true),
   ("Generator", fun v => ∃ b, v = .bytes b ∧ b.length = 33 ∧ P.generator b = true),
   ("Tweak", fun v => ∃ b, v = .bytes b ∧ b.length = 32 ∧ P.tweak b = true),
   ("RangeProof", fun v => ∃ b, v = .bytes b ∧ P.rangeproof b = true),
   ("SurjectionProof", fun v => ∃ b, v = .bytes b ∧ P.surjproof b = true),
   ("PublicKey", D.publicKey), ("XOnlyPublicKey", D.xOnly), ("Signature", D.signature),
   ("Fingerprint", D.fingerprint), ("DerivationPath", D.derivationPath), ("Xpub", D.xpub),
   ("bitcoin::Transaction", D.btcTransaction)]

def stdOkLeaf (P : Prims) (D : DepsOk) (nm : String) (v : DVal) : Prop :=
  match (leafOks P D).lookup nm with
  | some p => p v
  | Option.none => False

/-- `v` is a value of the derived item `nm` of /repo -/
def DerivedOk (P : Prims) (D : DepsOk) (nm : String) (v : DVal) : Prop :=
  dWT (stdOkLeaf P D) serdeDerive deriveFuel (.named nm) v

/-- the assumed laws of the third-party codecs (each is compared with the real impl by K, and its round trip is
    checked on the real code by S) -/
structure DepsLawful (X : Deps) (D : DepsOk) (h : Bool) (f : Fmt) : Prop where
  publicKey : LeafLaw X.publicKey D.publicKey h f
  xOnly : LeafLaw X.xOnly D.xOnly h f
  signature : LeafLaw X.signature D.signature h f
  fingerprint : LeafLaw X.fingerprint D.fingerprint h f
  derivationPath : LeafLaw X.derivationPath D.derivationPath h f
  xpub : LeafLaw X.xpub D.xpub h f
  btcTransaction : LeafLaw X.btcTransaction D.btcTransaction h f

/-! ### `BTreeMap` keys and JSON: what goes through `serialize_map` in a human-readable format must be a string -/

/-- the key types of every `BTreeMap` inside a type -/
def mapKeysOfTy : SerdeTy → List SerdeTy
  | .opt t => mapKeysOfTy t
  | .vec t => mapKeysOfTy t
  | .map k v => k :: (mapKeysOfTy k ++ mapKeysOfTy v)
  | .pair a b => mapKeysOfTy a ++ mapKeysOfTy b
  | _ => []

/-- the key types that reach `serialize_map` when the format is human readable: maps of fields without a hook and
    of `btreemap_byte_values` fields (`btreemap_as_seq` / `btreemap_as_seq_byte_values` write a sequence of pairs
    instead: that is what they are for) -/
def humanMapKeysOfShape : SerdeShape → List SerdeTy
  | .struct fields _ =>
    fields.flatMap fun f =>
      if f.hook = "" then mapKeysOfTy f.ty
      else if f.hook = "btreemap_byte_values" then (match f.ty with | .map k _ => [k] | _ => [])
      else []
  | .newtype t => mapKeysOfTy t
  | .enum vars => vars.flatMap fun v => mapKeysOfTy v.2
def humanMapKeys (tbl : Table) : List SerdeTy := tbl.flatMap fun e => humanMapKeysOfShape e.2

/-- leaf types whose human-readable form is a string (serde_json accepts them as object keys and reads them back
    through `visit_str`) -/
def stringKeyLeaves : List String :=
  ["Xpub", "PublicKey", "ripemd160::Hash", "sha256::Hash", "hash160::Hash", "sha256d::Hash"]

/-- the human-readable forms of the two third-party key types are strings (assumed with their laws) -/
structure DepsKeysAreStrings (X : Deps) (D : DepsOk) : Prop where
  xpub : ∀ v, D.xpub v → ∃ s, X.xpub.toS true v = .str s
  publicKey : ∀ v, D.publicKey v → ∃ s, X.publicKey.toS true v = .str s

end EV.Serde
