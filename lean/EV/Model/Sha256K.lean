/-
  EV.Model.Sha256K — SHA-256 (FIPS 180-4) once more, written so that the Lean KERNEL can evaluate it:
  words are `Nat`s below 2^32, every loop is structural recursion over a list, no arrays, no `Id.run`.
  `EV.Model.Sha256` (arrays, `for` loops) is what the compiled driver runs; this one exists so that
  closed facts about concrete digests (the chain hashes of the built-in networks, `Props/C02`) can be
  checked by `decide +kernel`.  Both are compared digest for digest with `bitcoin_hashes` on every run
  (K ops `sha`, `shak`).  The round constants and the initial state are taken from `EV.Model.Sha256`.
-/
import EV.Model.Sha256
namespace EV.Sha256K

def M32 : Nat := 4294967296

/-! The arithmetic is written with the `Nat.*` functions the kernel evaluates natively on literals
    (`Nat.add`, `Nat.mod`, `Nat.xor`, `Nat.land`, `Nat.lor`, `Nat.shiftLeft`, `Nat.shiftRight`), not
    with the operator notation: this saves the instance unfolding on every one of the ~10^5 operations. -/

def rotr (x n : Nat) : Nat := Nat.lor (Nat.shiftRight x n) (Nat.mod (Nat.shiftLeft x (Nat.sub 32 n)) M32)

def xor3 (a b c : Nat) : Nat := Nat.xor (Nat.xor a b) c
def add32 (a b : Nat) : Nat := Nat.mod (Nat.add a b) M32

def kNat : List Nat := Sha256.K.toList.map UInt32.toNat
def ivNat : List Nat := Sha256.IV.toList.map UInt32.toNat

/-- big-endian 32-bit words of a byte string whose length is a multiple of 4 -/
def words : Bytes → List Nat
  | b0 :: b1 :: b2 :: b3 :: rest =>
    (b0.toNat * 16777216 + b1.toNat * 65536 + b2.toNat * 256 + b3.toNat) :: words rest
  | _ => []

/-- message schedule: `acc` holds the words so far, newest first; `n` more are appended -/
def sched : Nat → List Nat → List Nat
  | 0, acc => acc
  | n + 1, acc =>
    let w2 := acc.getD 1 0
    let w7 := acc.getD 6 0
    let w15 := acc.getD 14 0
    let w16 := acc.getD 15 0
    let s0 := xor3 (rotr w15 7) (rotr w15 18) (Nat.shiftRight w15 3)
    let s1 := xor3 (rotr w2 17) (rotr w2 19) (Nat.shiftRight w2 10)
    sched n (Nat.mod (Nat.add (Nat.add (Nat.add w16 s0) w7) s1) M32 :: acc)

structure St where
  a : Nat
  b : Nat
  c : Nat
  d : Nat
  e : Nat
  f : Nat
  g : Nat
  h : Nat

def step (s : St) (k w : Nat) : St :=
  let s1 := xor3 (rotr s.e 6) (rotr s.e 11) (rotr s.e 25)
  let ch := Nat.xor (Nat.land s.e s.f) (Nat.land (Nat.xor s.e 4294967295) s.g)
  let t1 := Nat.mod (Nat.add (Nat.add (Nat.add (Nat.add s.h s1) ch) k) w) M32
  let s0 := xor3 (rotr s.a 2) (rotr s.a 13) (rotr s.a 22)
  let mj := xor3 (Nat.land s.a s.b) (Nat.land s.a s.c) (Nat.land s.b s.c)
  let t2 := add32 s0 mj
  ⟨add32 t1 t2, s.a, s.b, s.c, add32 s.d t1, s.e, s.f, s.g⟩

def rounds : St → List Nat → List Nat → St
  | s, k :: ks, w :: ws => rounds (step s k w) ks ws
  | s, _, _ => s

def ofList (l : List Nat) : St :=
  ⟨l.getD 0 0, l.getD 1 0, l.getD 2 0, l.getD 3 0, l.getD 4 0, l.getD 5 0, l.getD 6 0, l.getD 7 0⟩

def St.toList (s : St) : List Nat := [s.a, s.b, s.c, s.d, s.e, s.f, s.g, s.h]

/-- the compression function on one 64-byte block -/
def compress (st : List Nat) (blk : Bytes) : List Nat :=
  let w := (sched 48 (words blk).reverse).reverse
  let r := (rounds (ofList st) kNat w).toList
  List.zipWith add32 st r

/-- all 64-byte blocks of a padded message; `fuel` ≥ number of blocks -/
def blocks : Nat → List Nat → Bytes → List Nat
  | 0, st, _ => st
  | _, st, [] => st
  | fuel + 1, st, b :: bs => blocks fuel (compress st ((b :: bs).take 64)) ((b :: bs).drop 64)

def stateBytes (st : List Nat) : Bytes :=
  st.flatMap fun w => [UInt8.ofNat (w >>> 24), UInt8.ofNat (w >>> 16), UInt8.ofNat (w >>> 8), UInt8.ofNat w]

def sha256 (msg : Bytes) : Bytes :=
  let padded := msg ++ Sha256.pad msg.length
  stateBytes (blocks (padded.length / 64 + 1) ivNat padded)

def sha256d (msg : Bytes) : Bytes := sha256 (sha256 msg)

/-- SHA-256 midstate after exactly one 64-byte block `l ++ r` from the initial state
    (`[]` for any other length, like `EV.Sha256.midstate`) -/
def midstate (l r : Bytes) : Bytes :=
  if (l ++ r).length = 64 then stateBytes (compress ivNat (l ++ r)) else []

end EV.Sha256K
