/-
  EV.Model.Bech32 — checksummed base-32 strings: the polymod engine of the `bech32` crate
  (`primitives/checksum.rs`: `Engine::input_fe`, `PackedFe32::mul_by_x_then_add`, hrp expansion),
  the four checksum variants (bech32 / bech32m from the crate — reference constants —, blech32 /
  blech32m from `/repo/src/blech32/mod.rs` — regenerated constants), 8↔5 bit regrouping
  (`primitives/iter.rs`), the encoder (`primitives/encode.rs`) and the two segwit string decoders
  (`bech32::primitives::decode::SegwitHrpstring::new` and `/repo/src/blech32/decode.rs`).

  Text is a list of byte values (`List Nat`, the UTF-8 bytes of a Rust `&str`): every non-ASCII byte
  is rejected by both decoders exactly where a non-ASCII `char` would be.
  Core Lean only; everything a theorem or `decide +kernel` must unfold is structural recursion
  over lists / `Nat` with `Nat` bit operations.
-/
import EV.Model.Bytes
import EV.Gen.Consts
import EV.Ref.Bech32
namespace EV.Bech32

/-- UTF-8 bytes of a string -/
abbrev Text := List Nat

/-- generator table and checksum length (in 5-bit symbols) of a BCH code over GF(32) -/
structure Code where
  gens : List Nat
  len : Nat
  deriving Repr, DecidableEq

/-- a checksum algorithm: code + target residue (+ `CODE_LENGTH`, checked only by the crate's decoder) -/
structure Variant where
  code : Code
  target : Nat
  codeLength : Nat
  deriving Repr, DecidableEq

/-- `for i in 0..5 { if xn & (1 << i) != 0 { residue ^= GENERATOR_SH[i] } }` (the XOR of the selected
    generators; `i` is the index of the head of the list) -/
def sel : List Nat → Nat → Nat → Nat
  | [], _, _ => 0
  | g :: gs, i, t => (if t.testBit i then g else 0) ^^^ sel gs (i + 1) t

namespace Code

/-- `self.unpack(degree - 1)`: the symbol shifted out -/
def top (c : Code) (r : Nat) : Nat := (r >>> (5 * (c.len - 1))) % 32

/-- `Engine::input_fe`: `mul_by_x_then_add(CHECKSUM_LENGTH, e)` then the conditional XORs.
    The residue never has bits at or above `5 * len` (`step_lt`), so clearing the top symbol and
    shifting is `r % 2^(5(len-1)) <<< 5`. -/
def step (c : Code) (r e : Nat) : Nat :=
  (((r % 2 ^ (5 * (c.len - 1))) <<< 5) ||| e) ^^^ sel c.gens 0 (c.top r)

def polymodFrom (c : Code) (s : Nat) (w : List Nat) : Nat := w.foldl c.step s

/-- `Engine::new()` starts from `ONE` -/
def polymod (c : Code) (w : List Nat) : Nat := c.polymodFrom 1 w

/-- `PackedFe32::unpack(i)` -/
def unpack (r i : Nat) : Nat := (r >>> (5 * i)) % 32

/-- symbols `unpack(len-1), …, unpack(0)` of a packed residue -/
def unpackAll (r : Nat) : Nat → List Nat
  | 0 => []
  | n + 1 => unpack r n :: unpackAll r n

end Code

/-! ### the four variants -/

def bech32Code : Code := { gens := Ref.bech32Generators, len := Ref.bech32ChecksumLength }
def bech32 : Variant := { code := bech32Code, target := Ref.bech32Target, codeLength := Ref.bech32CodeLength }
def bech32m : Variant := { code := bech32Code, target := Ref.bech32mTarget, codeLength := Ref.bech32CodeLength }
def blech32 : Variant :=
  { code := { gens := Gen.blech32Generators, len := Gen.blech32ChecksumLength },
    target := Gen.blech32Target, codeLength := Gen.blech32CodeLength }
def blech32m : Variant :=
  { code := { gens := Gen.blech32mGenerators, len := Gen.blech32mChecksumLength },
    target := Gen.blech32mTarget, codeLength := Gen.blech32mCodeLength }

/-! ### characters -/

def isUpper (b : Nat) : Bool := 65 ≤ b && b ≤ 90
def isLower (b : Nat) : Bool := 97 ≤ b && b ≤ 122
/-- `to_ascii_lowercase` on one byte -/
def lowerByte (b : Nat) : Nat := if isUpper b then b + 32 else b
def upperByte (b : Nat) : Nat := if isLower b then b - 32 else b
def lower (s : Text) : Text := s.map lowerByte
def upper (s : Text) : Text := s.map upperByte

def indexIn (c : Nat) : List Nat → Nat → Option Nat
  | [], _ => none
  | x :: xs, i => if x = c then some i else indexIn c xs (i + 1)

/-- `Fe32::from_char`: `CHARS_INV` lookup (both letter cases; non-ASCII and other bytes fail) -/
def fromChar (c : Nat) : Option Nat := if c ≥ 128 then none else indexIn (lowerByte c) Ref.charset 0

/-- `Fe32::to_char`: `CHARS_LOWER[v]` -/
def toChar (v : Nat) : Nat := Ref.charset.getD v 0

/-- symbol value of an already validated character (`Fe32::from_char(..).unwrap()`) -/
def sym (c : Nat) : Nat := (fromChar c).getD 0

/-- `HrpFe32Iter`: high bits of the lower-cased hrp bytes, a zero, the low bits -/
def hrpExpand (hrp : Text) : List Nat :=
  hrp.map (fun b => lowerByte b / 32) ++ 0 :: hrp.map (fun b => lowerByte b % 32)

/-! ### 8 ↔ 5 bit regrouping (`BytesToFes`, `FesToBytes`) -/

def bits8 (b : Nat) : List Bool :=
  [b.testBit 7, b.testBit 6, b.testBit 5, b.testBit 4, b.testBit 3, b.testBit 2, b.testBit 1, b.testBit 0]
def bits5 (b : Nat) : List Bool :=
  [b.testBit 4, b.testBit 3, b.testBit 2, b.testBit 1, b.testBit 0]
def bitsVal : List Bool → Nat → Nat
  | [], a => a
  | b :: bs, a => bitsVal bs (2 * a + b.toNat)

/-- groups of five bits; a final partial group is padded with zero bits on the right -/
def group5 : List Bool → List Nat
  | [] => []
  | [a] => [bitsVal [a, false, false, false, false] 0]
  | [a, b] => [bitsVal [a, b, false, false, false] 0]
  | [a, b, c] => [bitsVal [a, b, c, false, false] 0]
  | [a, b, c, d] => [bitsVal [a, b, c, d, false] 0]
  | a :: b :: c :: d :: e :: rest => bitsVal [a, b, c, d, e] 0 :: group5 rest

/-- groups of eight bits; a final partial group is dropped -/
def group8 : List Bool → List Nat
  | a :: b :: c :: d :: e :: f :: g :: h :: rest => bitsVal [a, b, c, d, e, f, g, h] 0 :: group8 rest
  | _ => []

/-- `bytes.bytes_to_fes()` -/
def bytesToFes (bs : List Nat) : List Nat := group5 (bs.flatMap bits8)
/-- `fes.fes_to_bytes()` -/
def fesToBytes (fs : List Nat) : List Nat := group8 (fs.flatMap bits5)

/-! ### encoder: `fes.with_checksum::<Ck>(&hrp).with_witness_version(v).chars()` -/

/-- `Engine::input_target_residue` feeds the symbols of the target, then the checksum symbols are
    `unpack(len-1) … unpack(0)` of the residue -/
def createChecksum (v : Variant) (pre : List Nat) : List Nat :=
  let r := v.code.polymodFrom (v.code.polymod pre) (Code.unpackAll v.target v.code.len)
  Code.unpackAll r v.code.len

/-- lower-cased hrp, separator, witness version, data symbols, checksum -/
def encode (v : Variant) (hrp : Text) (ver : Nat) (fes : List Nat) : Text :=
  lower hrp ++ 49 :: ((ver :: fes) ++ createChecksum v (hrpExpand hrp ++ ver :: fes)).map toChar

/-! ### decoders -/

/-- split at the last `'1'`: (before, after) -/
def splitLast : Text → Option (Text × Text)
  | [] => none
  | c :: cs =>
    match splitLast cs with
    | some (h, d) => some (c :: h, d)
    | none => if c = 49 then some ([], cs) else none

/-- `check_characters`: a separator exists, every character after the last separator is in the
    alphabet, and the whole string does not mix ASCII cases. (All error variants are `none`.) -/
def checkCharacters (s : Text) : Option (Text × Text) :=
  match splitLast s with
  | none => none
  | some (h, d) =>
    if d.all (fun c => (fromChar c).isSome) && !(s.any isUpper && s.any isLower) then some (h, d) else none

/-- `Hrp::parse` -/
def hrpParse (h : Text) : Bool :=
  !h.isEmpty && h.length ≤ Ref.maxHrpLen && h.all (fun b => 33 ≤ b && b ≤ 126) &&
    !(h.any isUpper && h.any isLower)

/-- `UncheckedHrpstring::new`: (hrp, data part characters) -/
def uncheckedNew (s : Text) : Option (Text × Text) :=
  match checkCharacters s with
  | none => none
  | some (h, d) => if hrpParse h then some (h, d) else none

/-- the residue test of `validate_checksum` -/
def verify (v : Variant) (hrp : Text) (syms : List Nat) : Bool :=
  v.code.polymod (hrpExpand hrp ++ syms) == v.target

/-- the part of the decoding rules on which the two segwit decoders differ -/
structure Flavor where
  v0 : Variant
  vm : Variant
  /-- `segwit::MAX_STRING_LENGTH` (crate only) -/
  maxString : Option Nat
  /-- `CODE_LENGTH` is compared with the string length (crate only) -/
  checkCodeLength : Bool
  minBytes : Nat
  maxBytes : Nat
  v0LenA : Nat
  v0LenB : Nat
  deriving Repr

/-- `bech32::primitives::decode` -/
def crateFlavor : Flavor :=
  { v0 := bech32, vm := bech32m, maxString := some Ref.segwitMaxStringLength, checkCodeLength := true,
    minBytes := 2, maxBytes := 40, v0LenA := 20, v0LenB := 32 }
/-- `/repo/src/blech32/decode.rs`: the payload is a 33-byte blinding key followed by the program -/
def blechFlavor : Flavor :=
  { v0 := blech32, vm := blech32m, maxString := none, checkCodeLength := false,
    minBytes := 2 + 33, maxBytes := 40 + 33, v0LenA := 53, v0LenB := 65 }

/-- `len > segwit::MAX_STRING_LENGTH` (crate only) -/
def Flavor.tooLong (f : Flavor) (n : Nat) : Bool :=
  match f.maxString with
  | some m => decide (n > m)
  | none => false

/-- the checksum variant required by a witness version: `VERSION_0 => Bech32/Blech32`, `_ => …m` -/
def Flavor.variant (f : Flavor) (ver : Nat) : Variant := if ver = 0 then f.v0 else f.vm

/-- parsed segwit string: hrp as written, witness version, data symbols without version and checksum -/
structure Seg where
  hrp : Text
  version : Nat
  fes : List Nat
  deriving Repr, DecidableEq

def Seg.bytes (s : Seg) : List Nat := fesToBytes s.fes

/-- `validate_checksum::<Ck>` -/
def validateChecksum (f : Flavor) (v : Variant) (strLen : Nat) (hrp : Text) (data : Text) : Bool :=
  if f.checkCodeLength && strLen > v.codeLength then false
  else if data.length < v.code.len then false
  else verify v hrp (data.map sym)

/-- `validate_segwit_padding` on the symbols after the version -/
def validatePadding (fes : List Nat) : Bool :=
  match fes.getLast? with
  | none => true
  | some last =>
    let padding := fes.length * 5 % 8
    if padding > 4 then false else last % 2 ^ padding == 0

/-- `validate_witness_program_length` -/
def validateLength (f : Flavor) (ver : Nat) (n : Nat) : Bool :=
  if n < f.minBytes then false
  else if n > f.maxBytes then false
  else if ver = 0 && n != f.v0LenA && n != f.v0LenB then false
  else true

/-- `CheckedHrpstring::validate_segwit` on the data characters without checksum -/
def validateSegwit (f : Flavor) (strLen : Nat) (hrp : Text) (ascii : Text) : Res Seg :=
  match ascii with
  | [] => .err "NoData"
  | c0 :: rest =>
    if f.tooLong strLen then .err "TooLong" else
    let ver := sym c0
    let fes := rest.map sym
    if !validatePadding fes then .err "Padding"
    else if !validateLength f ver (fes.length * 5 / 8) then .err "WitnessLength"
    else .ok { hrp := hrp, version := ver, fes := fes }

/-- `SegwitHrpstring::new` (crate flavor / blech flavor) -/
def segwitNew (f : Flavor) (s : Text) : Res Seg :=
  if f.tooLong s.length then .err "TooLong" else
  match uncheckedNew s with
  | none => .err "Unchecked"
  | some (hrp, data) =>
    match data with
    | [] => .err "NoData"
    | c0 :: _ =>
      let ver := sym c0
      if ver > 16 then .err "InvalidWitnessVersion" else
      let v := f.variant ver
      if !validateChecksum f v s.length hrp data then .err "Checksum" else
      validateSegwit f s.length hrp (data.take (data.length - v.code.len))

/-- `blech32::decode::SegwitHrpstring::new_bech32` (always the v0 variant; not used by `Address`) -/
def segwitNewV0 (f : Flavor) (s : Text) : Res Seg :=
  match uncheckedNew s with
  | none => .err "Unchecked"
  | some (hrp, data) =>
    match data with
    | [] => .err "NoData"
    | c0 :: _ =>
      if sym c0 > 16 then .err "InvalidWitnessVersion" else
      if !validateChecksum f f.v0 s.length hrp data then .err "Checksum" else
      validateSegwit f s.length hrp (data.take (data.length - f.v0.code.len))

end EV.Bech32
