/-
  EV.Model.Script — scripts (src/script.rs): the `Builder`, script numbers
  (`build_scriptint` / `read_scriptint`), `read_uint`, the `Instructions` iterator (plain and
  `instructions_minimal`), the byte-pattern template predicates `Script::is_*`, and the payload level of
  addresses (src/address.rs: `Address::from_script`, `Address::script_pubkey`, `Payload`).
  A script is its byte string (`Bytes`); an opcode is its byte (`opcodes::All { code }`).
  Opcode values come from `EV.Gen` (regenerated from src/opcodes.rs).  Core Lean only.
-/
import EV.Model.Bytes
import EV.Gen.Consts
namespace EV.Script
open EV.Gen

/-! ## Instructions -/

/-- `script::Instruction`: a data push or any other opcode (by its byte) -/
inductive Instr where
  | push (data : Bytes)
  | op (code : UInt8)
  deriving Repr, DecidableEq

/-- the two `script::Error`s the iterator can produce -/
inductive IErr where
  | earlyEnd
  | nonMinimal
  deriving Repr, DecidableEq

/-- `read_uint(data, size)`: little-endian, `usize` accumulator (64 bit): the shift `<< (i*8)` panics
    under overflow checks once `i = 8` is reached -/
def readUint (data : Bytes) (size : Nat) : Res Nat :=
  if data.length < size then .err "EarlyEndOfScript"
  else if size > 8 then .panic "read_uint: shift left with overflow"
  else .ok (leNat (data.take size))

/-- outcome of one `Instructions::next` call -/
inductive Step where
  | done                                   -- `None`
  | fail (e : IErr)                        -- `Some(Err(e))`, iterator killed (`data = &[]`)
  | item (i : Instr) (rest : Bytes)        -- `Some(Ok(i))`, `data = rest`
  deriving Repr, DecidableEq

/-- the BIP62 small-number test of `instructions_minimal` on a one-byte push -/
def smallNumByte (b : UInt8) : Bool := b == 0x81 || (b > 0 && b ≤ 16)

/-- `Instructions::next` as coded.  `classify(Legacy)` yields `PushBytes(n)` exactly for bytes
    `≤ OP_PUSHBYTES_75`, `Ordinary(OP_PUSHDATA1/2/4)` for those three bytes; everything else is passed
    through as `Op`.  Slices are taken after the length checks, so no index panics. -/
def next (min : Bool) (data : Bytes) : Step :=
  match data with
  | [] => .done
  | b :: tl =>
    if b ≤ opPushbytes75 then
      let n := b.toNat
      if data.length < n + 1 then .fail .earlyEnd
      else if min && n == 1 && smallNumByte (tl.getD 0 0) then .fail .nonMinimal
      else .item (.push (tl.take n)) (tl.drop n)
    else if b == opPushdata1 then
      if data.length < 2 then .fail .earlyEnd
      else
        match readUint tl 1 with
        | .ok n =>
          if data.length < n + 2 then .fail .earlyEnd
          else if min && n < 76 then .fail .nonMinimal
          else .item (.push ((tl.drop 1).take n)) (tl.drop (n + 1))
        | _ => .fail .earlyEnd
    else if b == opPushdata2 then
      if data.length < 3 then .fail .earlyEnd
      else
        match readUint tl 2 with
        | .ok n =>
          if min && n < 0x100 then .fail .nonMinimal
          else if data.length < n + 3 then .fail .earlyEnd
          else .item (.push ((tl.drop 2).take n)) (tl.drop (n + 2))
        | _ => .fail .earlyEnd
    else if b == opPushdata4 then
      if data.length < 5 then .fail .earlyEnd
      else
        match readUint tl 4 with
        | .ok n =>
          if min && n < 0x10000 then .fail .nonMinimal
          else if data.length < n + 5 then .fail .earlyEnd
          else .item (.push ((tl.drop 4).take n)) (tl.drop (n + 4))
        | _ => .fail .earlyEnd
    else .item (.op b) tl

/-- run the iterator to the end: the `Ok` items and the (single, final) error if any.
    `fuel` bounds the number of `next` calls; every item consumes at least one byte. -/
def collect (min : Bool) : Nat → Bytes → List Instr × Option IErr
  | 0, _ => ([], none)
  | f + 1, data =>
    match next min data with
    | .done => ([], none)
    | .fail e => ([], some e)
    | .item i rest =>
      let r := collect min f rest
      (i :: r.1, r.2)

/-- `Script::instructions()` collected -/
def instructions (s : Bytes) : List Instr × Option IErr := collect false s.length s
/-- `Script::instructions_minimal()` collected -/
def instructionsMinimal (s : Bytes) : List Instr × Option IErr := collect true s.length s

/-! ## Script numbers -/

/-- the loop and the tail of `build_scriptint` on the magnitude (`fuel` ≥ number of bytes) -/
def scriptMag : Nat → Nat → Bool → Bytes
  | 0, _, _ => []
  | f + 1, abs, neg =>
    if abs > 0xFF then UInt8.ofNat (abs &&& 0xFF) :: scriptMag f (abs >>> 8) neg
    else if abs &&& 0x80 ≠ 0 then [UInt8.ofNat abs, if neg then 0x80 else 0]
    else [UInt8.ofNat (abs ||| (if neg then 0x80 else 0))]

def i64Min : Int := -(2 ^ 63)

/-- `build_scriptint(n)` for `n ≠ i64::MIN` (there `-n` overflows: see `Builder.pushScriptInt`) -/
def buildScriptInt (n : Int) : Bytes :=
  if n = 0 then [] else scriptMag 9 n.natAbs (decide (n < 0))

/-- `read_scriptint`: at most 4 bytes, little-endian sign-magnitude -/
def readScriptInt (v : Bytes) : Res Int :=
  let len := v.length
  if len = 0 then .ok 0
  else if len > 4 then .err "NumericOverflow"
  else
    let ret := leNat v
    let sh := 8 * len
    if v.getD (len - 1) 0 &&& 0x80 ≠ 0 then .ok (-(Int.ofNat (ret &&& ((1 <<< (sh - 1)) - 1))))
    else .ok (Int.ofNat ret)

/-- `read_scriptbool` -/
def readScriptBool (v : Bytes) : Bool :=
  !(v.isEmpty || ((v.getD (v.length - 1) 0 == 0 || v.getD (v.length - 1) 0 == 0x80) &&
      (v.reverse.drop 1).all (fun w => w == 0)))

/-! ## Builder -/

/-- `script::Builder(Vec<u8>, Option<opcodes::All>)` -/
structure Builder where
  bytes : Bytes
  last : Option UInt8
  deriving Repr, DecidableEq

/-- the push opcode (and length bytes) `push_slice` writes for `n` data bytes; `none` = the
    `panic!("tried to put a 4bn+ sized object into a script!")` -/
def pushHeader (n : Nat) : Option Bytes :=
  if n < opPushdata1.toNat then some [UInt8.ofNat n]
  else if n < 0x100 then some [opPushdata1, UInt8.ofNat n]
  else if n < 0x10000 then some [opPushdata2, UInt8.ofNat (n % 0x100), UInt8.ofNat (n / 0x100)]
  else if n < 0x100000000 then
    some [opPushdata4, UInt8.ofNat (n % 0x100), UInt8.ofNat ((n / 0x100) % 0x100),
          UInt8.ofNat ((n / 0x10000) % 0x100), UInt8.ofNat (n / 0x1000000)]
  else none

namespace Builder
/-- `Builder::new` -/
def new : Builder := ⟨[], none⟩

/-- `push_slice`: header, data, and the last-opcode memory is cleared -/
def pushSlice (b : Builder) (data : Bytes) : Option Builder :=
  match pushHeader data.length with
  | some h => some ⟨b.bytes ++ h ++ data, none⟩
  | none => none

/-- `push_opcode`: one byte, remembered as the last opcode -/
def pushOpcode (b : Builder) (c : UInt8) : Builder := ⟨b.bytes ++ [c], some c⟩

/-- `push_scriptint`: `none` = overflow panic of `-n` for `i64::MIN` -/
def pushScriptInt (b : Builder) (n : Int) : Option Builder :=
  if n = i64Min then none else b.pushSlice (buildScriptInt n)

/-- the opcode `push_int` uses for −1 and 1..16: `(data - 1 + OP_TRUE) as u8` -/
def smallIntOpcode (n : Int) : UInt8 := UInt8.ofNat (n - 1 + Int.ofNat opPushnum1.toNat).toNat

/-- `push_int` -/
def pushInt (b : Builder) (n : Int) : Option Builder :=
  if n = -1 ∨ (1 ≤ n ∧ n ≤ 16) then some (b.pushOpcode (smallIntOpcode n))
  else if n = 0 then some (b.pushOpcode opPushbytes0)
  else b.pushScriptInt n

/-- the opcodes that have a `…VERIFY` form, and that form -/
def verifyForm (c : UInt8) : Option UInt8 :=
  if c == opEqual then some opEqualverify
  else if c == opNumequal then some opNumequalverify
  else if c == opChecksig then some opChecksigverify
  else if c == opCheckmultisig then some opCheckmultisigverify
  else if c == opChecksigfromstack then some opChecksigfromstackverify
  else none

/-- `push_verify`: consults the remembered last *opcode* (cleared by data pushes); a foldable one is
    popped and replaced, otherwise `OP_VERIFY` is appended -/
def pushVerify (b : Builder) : Builder :=
  match b.last with
  | some c =>
    match verifyForm c with
    | some v => pushOpcode ⟨b.bytes.dropLast, b.last⟩ v
    | none => b.pushOpcode opVerify
  | none => b.pushOpcode opVerify
end Builder

/-- one builder call -/
inductive BOp where
  | int (n : Int)            -- `push_int`
  | scriptInt (n : Int)      -- `push_scriptint`
  | slice (data : Bytes)     -- `push_slice` (`push_key` = `push_slice` of the key serialization)
  | opcode (c : UInt8)       -- `push_opcode`
  | verify                   -- `push_verify`
  deriving Repr, DecidableEq

def Builder.step (b : Builder) : BOp → Option Builder
  | .int n => b.pushInt n
  | .scriptInt n => b.pushScriptInt n
  | .slice d => b.pushSlice d
  | .opcode c => some (b.pushOpcode c)
  | .verify => some b.pushVerify

/-- a chain of builder calls starting from `b`; `none` = one of them panicked -/
def Builder.run (b : Builder) : List BOp → Option Builder
  | [] => some b
  | o :: rest =>
    match b.step o with
    | some b' => b'.run rest
    | none => none

/-- `Builder::new()` followed by the calls, then `into_script` -/
def build (ops : List BOp) : Option Bytes := (Builder.new.run ops).map (·.bytes)

/-! ## Template predicates (`Script::is_*`): every index is guarded by the length test before it -/

def at' (s : Bytes) (i : Nat) : UInt8 := s.getD i 0

def isP2sh (s : Bytes) : Bool :=
  s.length == 23 && at' s 0 == opHash160 && at' s 1 == opPushbytes20 && at' s 22 == opEqual

def isP2pkh (s : Bytes) : Bool :=
  s.length == 25 && at' s 0 == opDup && at' s 1 == opHash160 && at' s 2 == opPushbytes20 &&
  at' s 23 == opEqualverify && at' s 24 == opChecksig

def isP2pk (s : Bytes) : Bool :=
  (s.length == 67 && at' s 0 == opPushbytes65 && at' s 66 == opChecksig) ||
  (s.length == 35 && at' s 0 == opPushbytes33 && at' s 34 == opChecksig)

def isWitnessProgram (s : Bytes) : Bool :=
  decide (s.length ≥ 4) && decide (s.length ≤ 42) &&
  (at' s 0 == 0 || (decide (at' s 0 ≥ opPushnum1) && decide (at' s 0 ≤ opPushnum16))) &&
  decide (at' s 1 ≥ opPushbytes2) && decide (at' s 1 ≤ opPushbytes40) &&
  s.length - 2 == (at' s 1).toNat

def isV0P2wsh (s : Bytes) : Bool :=
  s.length == 34 && at' s 0 == opPushbytes0 && at' s 1 == opPushbytes32

def isV1P2tr (s : Bytes) : Bool :=
  s.length == 34 && at' s 0 == opPushnum1 && at' s 1 == opPushbytes32

def isV1plusP2witprog (s : Bytes) : Bool :=
  decide (s.length > 1) && s.length == (at' s 1).toNat + 2 &&
  decide (at' s 0 ≥ opPushnum1) && decide (at' s 0 ≤ opPushnum16) &&
  decide (at' s 1 ≥ opPushbytes2) && decide (at' s 1 ≤ opPushbytes40)

def isV0P2wpkh (s : Bytes) : Bool :=
  s.length == 22 && at' s 0 == opPushbytes0 && at' s 1 == opPushbytes20

def isOpReturn (s : Bytes) : Bool := !s.isEmpty && at' s 0 == opReturn

def isProvablyUnspendable (s : Bytes) : Bool :=
  (!s.isEmpty && at' s 0 == opReturn) || decide (s.length > maxScriptSize) || s.isEmpty

/-! ## Payload level of addresses (src/address.rs) -/

/-- `address::Payload`; `version` is the `Fe32` value (0..31) -/
inductive Payload where
  | pubkeyHash (h : Bytes)
  | scriptHash (h : Bytes)
  | witnessProgram (version : Nat) (program : Bytes)
  deriving Repr, DecidableEq

/-- the Rust types enforce: 20-byte hashes, `Fe32` < 32 -/
def Payload.typed : Payload → Prop
  | .pubkeyHash h => h.length = 20
  | .scriptHash h => h.length = 20
  | .witnessProgram v _ => v < 32

/-- `Address::from_script` (payload part), in the decision order of the code.  The slices and the
    subtraction `script[0] - 0x50` are guarded by the predicates, `Fe32::try_from(..)` gets a value
    ≤ 16: no panic branch is reachable. -/
def fromScript (s : Bytes) : Option Payload :=
  if isP2pkh s then some (.pubkeyHash ((s.drop 3).take 20))
  else if isP2sh s then some (.scriptHash ((s.drop 2).take 20))
  else if isV0P2wpkh s then some (.witnessProgram 0 ((s.drop 2).take 20))
  else if isV0P2wsh s then some (.witnessProgram 0 ((s.drop 2).take 32))
  else if isV1plusP2witprog s then some (.witnessProgram ((at' s 0).toNat - 0x50) (s.drop 2))
  else none

/-- the builder chain of `Address::script_pubkey` -/
def Payload.ops : Payload → List BOp
  | .pubkeyHash h => [.opcode opDup, .opcode opHash160, .slice h, .opcode opEqualverify, .opcode opChecksig]
  | .scriptHash h => [.opcode opHash160, .slice h, .opcode opEqual]
  | .witnessProgram v prog => [.int (Int.ofNat v), .slice prog]

/-- `Address::script_pubkey`; `none` = panic (program of 4 GiB) -/
def scriptPubkey (p : Payload) : Option Bytes := build p.ops

/-- the constructors `Script::new_p2pkh`, `new_p2sh`, `new_witness_program(ver, prog)` (`ver ≤ 16`
    asserted; `new_v0_wpkh`, `new_v0_wsh`, `new_v1_p2tr_tweaked` are instances) -/
def newP2pkh (h : Bytes) : Option Bytes :=
  build [.opcode opDup, .opcode opHash160, .slice h, .opcode opEqualverify, .opcode opChecksig]
def newP2sh (h : Bytes) : Option Bytes := build [.opcode opHash160, .slice h, .opcode opEqual]
def newWitnessProgram (ver : Nat) (prog : Bytes) : Option Bytes :=
  if ver > 16 then none
  else build [.opcode (UInt8.ofNat (if ver > 0 then ver + 0x50 else ver)), .slice prog]

end EV.Script
