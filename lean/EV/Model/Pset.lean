/-
  EV.Model.Pset — the in-memory PSET (`PartiallySignedTransaction`, src/pset/mod.rs and
  src/pset/map/{global,input,output}.rs): records with ALL fields of `Global`/`TxData`, `Input`,
  `Output`; conversion from and to a transaction (`from_tx`, `extract_tx` with `sanity_check` and
  the BIP370 lock-time selection `locktime`), `unique_id`, and `merge` (global / input / output /
  whole PSET, incl. the xpub key-source reconciliation) exactly as coded.

  Representation.  `BTreeMap`s are `KV` association lists sorted by the *serialized* key
  (EV.Model.PsetMap); a value is the byte string the PSET format stores for it
  (`pset::serialize::Serialize`), so the later wire-format model (C07) can reuse the records
  unchanged.  Payloads the functions here never look into (`non_witness_utxo`, `witness_utxo`,
  scripts, signatures, proofs, `pegin_tx`, tap tree, key origins …) are opaque `Bytes`: for `merge`
  only presence matters.  Fields that `extract_tx`/`locktime` interpret are structured: integers
  are `Nat`, witness stacks `List Bytes`.  The global xpub map keeps its value structured
  (`KeySource`) because `Global::merge` inspects it.
  The per-field text (structures, `merge`, `Compat`, `Keeps`) is produced from the table in
  tools/gen_pset_fields.py.
-/
import EV.Model.PsetMap
import EV.Model.Block
namespace EV
open Codec

/-- `bitcoin::bip32::KeySource` = (master fingerprint, derivation path as `u32` child numbers,
    hardened = bit 31) -/
structure KeySource where
  fp : Bytes
  path : List Nat
  deriving Repr, DecidableEq

/-- `Global` with `TxData` flattened -/
@[ext] structure PsetGlobal where
  /-- `tx_data.version` -/
  txVersion : Nat := 2
  /-- `tx_data.fallback_locktime` (consensus `u32`) -/
  fallbackLocktime : Option Nat := none
  /-- `tx_data.input_count` / `output_count` (`pub(crate)`; kept in step by `add_input`/`add_output`) -/
  inputCount : Nat := 0
  outputCount : Nat := 0
  /-- `tx_data.tx_modifiable` -/
  txModifiable : Option Nat := none
  /-- PSET version -/
  version : Nat := 2
  xpub : List (Bytes × KeySource) := []
  /-- `scalars : Vec<Tweak>` -/
  scalars : List Bytes := []
  elementsTxModifiableFlag : Option Nat := none
  proprietary : KV := []
  unknown : KV := []
  deriving Repr, DecidableEq

@[ext] structure PsetInput where
  nonWitnessUtxo : Option Bytes := none
  witnessUtxo : Option Bytes := none
  partialSigs : KV := []
  sighashType : Option Nat := none
  redeemScript : Option Bytes := none
  witnessScript : Option Bytes := none
  bip32Derivation : KV := []
  finalScriptSig : Option Bytes := none
  finalScriptWitness : Option (List Bytes) := none
  ripemd160Preimages : KV := []
  sha256Preimages : KV := []
  hash160Preimages : KV := []
  hash256Preimages : KV := []
  previousTxid : Bytes := List.replicate 32 0
  previousOutputIndex : Nat := 0
  sequence : Option Nat := none
  requiredTimeLocktime : Option Nat := none
  requiredHeightLocktime : Option Nat := none
  tapKeySig : Option Bytes := none
  tapScriptSigs : KV := []
  tapScripts : KV := []
  tapKeyOrigins : KV := []
  tapInternalKey : Option Bytes := none
  tapMerkleRoot : Option Bytes := none
  issuanceValueAmount : Option Nat := none
  issuanceValueComm : Option Bytes := none
  issuanceValueRangeproof : Option Bytes := none
  issuanceKeysRangeproof : Option Bytes := none
  peginTx : Option Bytes := none
  peginTxoutProof : Option Bytes := none
  peginGenesisHash : Option Bytes := none
  peginClaimScript : Option Bytes := none
  peginValue : Option Nat := none
  peginWitness : Option (List Bytes) := none
  issuanceInflationKeys : Option Nat := none
  issuanceInflationKeysComm : Option Bytes := none
  issuanceBlindingNonce : Option Bytes := none
  issuanceAssetEntropy : Option Bytes := none
  inUtxoRangeproof : Option Bytes := none
  inIssuanceBlindValueProof : Option Bytes := none
  inIssuanceBlindInflationKeysProof : Option Bytes := none
  amount : Option Nat := none
  blindValueProof : Option Bytes := none
  asset : Option Bytes := none
  blindAssetProof : Option Bytes := none
  blindedIssuance : Option Nat := none
  proprietary : KV := []
  unknown : KV := []
  deriving Repr, DecidableEq

@[ext] structure PsetOutput where
  redeemScript : Option Bytes := none
  witnessScript : Option Bytes := none
  bip32Derivation : KV := []
  tapInternalKey : Option Bytes := none
  tapTree : Option Bytes := none
  tapKeyOrigins : KV := []
  amount : Option Nat := none
  amountComm : Option Bytes := none
  scriptPubkey : Bytes := []
  asset : Option Bytes := none
  assetComm : Option Bytes := none
  valueRangeproof : Option Bytes := none
  assetSurjectionProof : Option Bytes := none
  blindingKey : Option Bytes := none
  ecdhPubkey : Option Bytes := none
  blinderIndex : Option Nat := none
  blindValueProof : Option Bytes := none
  blindAssetProof : Option Bytes := none
  proprietary : KV := []
  unknown : KV := []
  deriving Repr, DecidableEq

namespace PsetInput
/-- `Input::merge` (never fails) -/
def merge (x y : PsetInput) : PsetInput :=
  {
    nonWitnessUtxo := mergeOpt x.nonWitnessUtxo y.nonWitnessUtxo,
    witnessUtxo := mergeOpt x.witnessUtxo y.witnessUtxo,
    partialSigs := KV.extend x.partialSigs y.partialSigs,
    sighashType := mergeOpt x.sighashType y.sighashType,
    redeemScript := mergeOpt x.redeemScript y.redeemScript,
    witnessScript := mergeOpt x.witnessScript y.witnessScript,
    bip32Derivation := KV.extend x.bip32Derivation y.bip32Derivation,
    finalScriptSig := mergeOpt x.finalScriptSig y.finalScriptSig,
    finalScriptWitness := mergeOpt x.finalScriptWitness y.finalScriptWitness,
    ripemd160Preimages := KV.extend x.ripemd160Preimages y.ripemd160Preimages,
    sha256Preimages := KV.extend x.sha256Preimages y.sha256Preimages,
    hash160Preimages := KV.extend x.hash160Preimages y.hash160Preimages,
    hash256Preimages := KV.extend x.hash256Preimages y.hash256Preimages,
    previousTxid := x.previousTxid,
    previousOutputIndex := x.previousOutputIndex,
    sequence := mergeOpt x.sequence y.sequence,
    requiredTimeLocktime := maxOpt x.requiredTimeLocktime y.requiredTimeLocktime,
    requiredHeightLocktime := maxOpt x.requiredHeightLocktime y.requiredHeightLocktime,
    tapKeySig := mergeOpt x.tapKeySig y.tapKeySig,
    tapScriptSigs := KV.extend x.tapScriptSigs y.tapScriptSigs,
    tapScripts := KV.extend x.tapScripts y.tapScripts,
    tapKeyOrigins := KV.extend x.tapKeyOrigins y.tapKeyOrigins,
    tapInternalKey := mergeOpt x.tapInternalKey y.tapInternalKey,
    tapMerkleRoot := mergeOpt x.tapMerkleRoot y.tapMerkleRoot,
    issuanceValueAmount := mergeOpt x.issuanceValueAmount y.issuanceValueAmount,
    issuanceValueComm := mergeOpt x.issuanceValueComm y.issuanceValueComm,
    issuanceValueRangeproof := mergeOpt x.issuanceValueRangeproof y.issuanceValueRangeproof,
    issuanceKeysRangeproof := mergeOpt x.issuanceKeysRangeproof y.issuanceKeysRangeproof,
    peginTx := mergeOpt x.peginTx y.peginTx,
    peginTxoutProof := mergeOpt x.peginTxoutProof y.peginTxoutProof,
    peginGenesisHash := mergeOpt x.peginGenesisHash y.peginGenesisHash,
    peginClaimScript := mergeOpt x.peginClaimScript y.peginClaimScript,
    peginValue := mergeOpt x.peginValue y.peginValue,
    peginWitness := mergeOpt x.peginWitness y.peginWitness,
    issuanceInflationKeys := mergeOpt x.issuanceInflationKeys y.issuanceInflationKeys,
    issuanceInflationKeysComm := mergeOpt x.issuanceInflationKeysComm y.issuanceInflationKeysComm,
    issuanceBlindingNonce := mergeOpt x.issuanceBlindingNonce y.issuanceBlindingNonce,
    issuanceAssetEntropy := mergeOpt x.issuanceAssetEntropy y.issuanceAssetEntropy,
    inUtxoRangeproof := mergeOpt x.inUtxoRangeproof y.inUtxoRangeproof,
    inIssuanceBlindValueProof := mergeOpt x.inIssuanceBlindValueProof y.inIssuanceBlindValueProof,
    inIssuanceBlindInflationKeysProof := mergeOpt x.inIssuanceBlindInflationKeysProof y.inIssuanceBlindInflationKeysProof,
    amount := mergeOpt x.amount y.amount,
    blindValueProof := mergeOpt x.blindValueProof y.blindValueProof,
    asset := mergeOpt x.asset y.asset,
    blindAssetProof := mergeOpt x.blindAssetProof y.blindAssetProof,
    blindedIssuance := mergeOpt x.blindedIssuance y.blindedIssuance,
    proprietary := KV.extend x.proprietary y.proprietary,
    unknown := KV.extend x.unknown y.unknown }
/-- every map field is a strictly key-sorted association list (what a `BTreeMap` is) -/
def Sorted (x : PsetInput) : Prop :=
  KV.Sorted x.partialSigs ∧ KV.Sorted x.bip32Derivation ∧ KV.Sorted x.ripemd160Preimages ∧ KV.Sorted x.sha256Preimages ∧ KV.Sorted x.hash160Preimages ∧ KV.Sorted x.hash256Preimages ∧ KV.Sorted x.tapScriptSigs ∧ KV.Sorted x.tapScripts ∧ KV.Sorted x.tapKeyOrigins ∧ KV.Sorted x.proprietary ∧ KV.Sorted x.unknown
/-- the two maps agree wherever both define a value; the identifying fields coincide -/
structure Compat (x y : PsetInput) : Prop where
  nonWitnessUtxo : OptAgree x.nonWitnessUtxo y.nonWitnessUtxo
  witnessUtxo : OptAgree x.witnessUtxo y.witnessUtxo
  partialSigs : KV.Agree x.partialSigs y.partialSigs
  sighashType : OptAgree x.sighashType y.sighashType
  redeemScript : OptAgree x.redeemScript y.redeemScript
  witnessScript : OptAgree x.witnessScript y.witnessScript
  bip32Derivation : KV.Agree x.bip32Derivation y.bip32Derivation
  finalScriptSig : OptAgree x.finalScriptSig y.finalScriptSig
  finalScriptWitness : OptAgree x.finalScriptWitness y.finalScriptWitness
  ripemd160Preimages : KV.Agree x.ripemd160Preimages y.ripemd160Preimages
  sha256Preimages : KV.Agree x.sha256Preimages y.sha256Preimages
  hash160Preimages : KV.Agree x.hash160Preimages y.hash160Preimages
  hash256Preimages : KV.Agree x.hash256Preimages y.hash256Preimages
  previousTxid : x.previousTxid = y.previousTxid
  previousOutputIndex : x.previousOutputIndex = y.previousOutputIndex
  sequence : OptAgree x.sequence y.sequence
  requiredTimeLocktime : x.requiredTimeLocktime = y.requiredTimeLocktime
  requiredHeightLocktime : x.requiredHeightLocktime = y.requiredHeightLocktime
  tapKeySig : OptAgree x.tapKeySig y.tapKeySig
  tapScriptSigs : KV.Agree x.tapScriptSigs y.tapScriptSigs
  tapScripts : KV.Agree x.tapScripts y.tapScripts
  tapKeyOrigins : KV.Agree x.tapKeyOrigins y.tapKeyOrigins
  tapInternalKey : OptAgree x.tapInternalKey y.tapInternalKey
  tapMerkleRoot : OptAgree x.tapMerkleRoot y.tapMerkleRoot
  issuanceValueAmount : x.issuanceValueAmount = y.issuanceValueAmount
  issuanceValueComm : x.issuanceValueComm = y.issuanceValueComm
  issuanceValueRangeproof : OptAgree x.issuanceValueRangeproof y.issuanceValueRangeproof
  issuanceKeysRangeproof : OptAgree x.issuanceKeysRangeproof y.issuanceKeysRangeproof
  peginTx : OptAgree x.peginTx y.peginTx
  peginTxoutProof : OptAgree x.peginTxoutProof y.peginTxoutProof
  peginGenesisHash : OptAgree x.peginGenesisHash y.peginGenesisHash
  peginClaimScript : OptAgree x.peginClaimScript y.peginClaimScript
  peginValue : OptAgree x.peginValue y.peginValue
  peginWitness : OptAgree x.peginWitness y.peginWitness
  issuanceInflationKeys : x.issuanceInflationKeys = y.issuanceInflationKeys
  issuanceInflationKeysComm : x.issuanceInflationKeysComm = y.issuanceInflationKeysComm
  issuanceBlindingNonce : x.issuanceBlindingNonce = y.issuanceBlindingNonce
  issuanceAssetEntropy : x.issuanceAssetEntropy = y.issuanceAssetEntropy
  inUtxoRangeproof : OptAgree x.inUtxoRangeproof y.inUtxoRangeproof
  inIssuanceBlindValueProof : OptAgree x.inIssuanceBlindValueProof y.inIssuanceBlindValueProof
  inIssuanceBlindInflationKeysProof : OptAgree x.inIssuanceBlindInflationKeysProof y.inIssuanceBlindInflationKeysProof
  amount : OptAgree x.amount y.amount
  blindValueProof : OptAgree x.blindValueProof y.blindValueProof
  asset : OptAgree x.asset y.asset
  blindAssetProof : OptAgree x.blindAssetProof y.blindAssetProof
  blindedIssuance : OptAgree x.blindedIssuance y.blindedIssuance
  proprietary : KV.Agree x.proprietary y.proprietary
  unknown : KV.Agree x.unknown y.unknown
/-- nothing present in `x` or `y` is absent from `z` -/
structure Keeps (x y z : PsetInput) : Prop where
  nonWitnessUtxo : (x.nonWitnessUtxo.isSome ∨ y.nonWitnessUtxo.isSome) → z.nonWitnessUtxo.isSome
  witnessUtxo : (x.witnessUtxo.isSome ∨ y.witnessUtxo.isSome) → z.witnessUtxo.isSome
  partialSigs : ∀ k, (k ∈ KV.keys x.partialSigs ∨ k ∈ KV.keys y.partialSigs) → k ∈ KV.keys z.partialSigs
  sighashType : (x.sighashType.isSome ∨ y.sighashType.isSome) → z.sighashType.isSome
  redeemScript : (x.redeemScript.isSome ∨ y.redeemScript.isSome) → z.redeemScript.isSome
  witnessScript : (x.witnessScript.isSome ∨ y.witnessScript.isSome) → z.witnessScript.isSome
  bip32Derivation : ∀ k, (k ∈ KV.keys x.bip32Derivation ∨ k ∈ KV.keys y.bip32Derivation) → k ∈ KV.keys z.bip32Derivation
  finalScriptSig : (x.finalScriptSig.isSome ∨ y.finalScriptSig.isSome) → z.finalScriptSig.isSome
  finalScriptWitness : (x.finalScriptWitness.isSome ∨ y.finalScriptWitness.isSome) → z.finalScriptWitness.isSome
  ripemd160Preimages : ∀ k, (k ∈ KV.keys x.ripemd160Preimages ∨ k ∈ KV.keys y.ripemd160Preimages) → k ∈ KV.keys z.ripemd160Preimages
  sha256Preimages : ∀ k, (k ∈ KV.keys x.sha256Preimages ∨ k ∈ KV.keys y.sha256Preimages) → k ∈ KV.keys z.sha256Preimages
  hash160Preimages : ∀ k, (k ∈ KV.keys x.hash160Preimages ∨ k ∈ KV.keys y.hash160Preimages) → k ∈ KV.keys z.hash160Preimages
  hash256Preimages : ∀ k, (k ∈ KV.keys x.hash256Preimages ∨ k ∈ KV.keys y.hash256Preimages) → k ∈ KV.keys z.hash256Preimages
  previousTxid : z.previousTxid = x.previousTxid
  previousOutputIndex : z.previousOutputIndex = x.previousOutputIndex
  sequence : (x.sequence.isSome ∨ y.sequence.isSome) → z.sequence.isSome
  requiredTimeLocktime : (x.requiredTimeLocktime.isSome ∨ y.requiredTimeLocktime.isSome) → z.requiredTimeLocktime.isSome
  requiredHeightLocktime : (x.requiredHeightLocktime.isSome ∨ y.requiredHeightLocktime.isSome) → z.requiredHeightLocktime.isSome
  tapKeySig : (x.tapKeySig.isSome ∨ y.tapKeySig.isSome) → z.tapKeySig.isSome
  tapScriptSigs : ∀ k, (k ∈ KV.keys x.tapScriptSigs ∨ k ∈ KV.keys y.tapScriptSigs) → k ∈ KV.keys z.tapScriptSigs
  tapScripts : ∀ k, (k ∈ KV.keys x.tapScripts ∨ k ∈ KV.keys y.tapScripts) → k ∈ KV.keys z.tapScripts
  tapKeyOrigins : ∀ k, (k ∈ KV.keys x.tapKeyOrigins ∨ k ∈ KV.keys y.tapKeyOrigins) → k ∈ KV.keys z.tapKeyOrigins
  tapInternalKey : (x.tapInternalKey.isSome ∨ y.tapInternalKey.isSome) → z.tapInternalKey.isSome
  tapMerkleRoot : (x.tapMerkleRoot.isSome ∨ y.tapMerkleRoot.isSome) → z.tapMerkleRoot.isSome
  issuanceValueAmount : (x.issuanceValueAmount.isSome ∨ y.issuanceValueAmount.isSome) → z.issuanceValueAmount.isSome
  issuanceValueComm : (x.issuanceValueComm.isSome ∨ y.issuanceValueComm.isSome) → z.issuanceValueComm.isSome
  issuanceValueRangeproof : (x.issuanceValueRangeproof.isSome ∨ y.issuanceValueRangeproof.isSome) → z.issuanceValueRangeproof.isSome
  issuanceKeysRangeproof : (x.issuanceKeysRangeproof.isSome ∨ y.issuanceKeysRangeproof.isSome) → z.issuanceKeysRangeproof.isSome
  peginTx : (x.peginTx.isSome ∨ y.peginTx.isSome) → z.peginTx.isSome
  peginTxoutProof : (x.peginTxoutProof.isSome ∨ y.peginTxoutProof.isSome) → z.peginTxoutProof.isSome
  peginGenesisHash : (x.peginGenesisHash.isSome ∨ y.peginGenesisHash.isSome) → z.peginGenesisHash.isSome
  peginClaimScript : (x.peginClaimScript.isSome ∨ y.peginClaimScript.isSome) → z.peginClaimScript.isSome
  peginValue : (x.peginValue.isSome ∨ y.peginValue.isSome) → z.peginValue.isSome
  peginWitness : (x.peginWitness.isSome ∨ y.peginWitness.isSome) → z.peginWitness.isSome
  issuanceInflationKeys : (x.issuanceInflationKeys.isSome ∨ y.issuanceInflationKeys.isSome) → z.issuanceInflationKeys.isSome
  issuanceInflationKeysComm : (x.issuanceInflationKeysComm.isSome ∨ y.issuanceInflationKeysComm.isSome) → z.issuanceInflationKeysComm.isSome
  issuanceBlindingNonce : (x.issuanceBlindingNonce.isSome ∨ y.issuanceBlindingNonce.isSome) → z.issuanceBlindingNonce.isSome
  issuanceAssetEntropy : (x.issuanceAssetEntropy.isSome ∨ y.issuanceAssetEntropy.isSome) → z.issuanceAssetEntropy.isSome
  inUtxoRangeproof : (x.inUtxoRangeproof.isSome ∨ y.inUtxoRangeproof.isSome) → z.inUtxoRangeproof.isSome
  inIssuanceBlindValueProof : (x.inIssuanceBlindValueProof.isSome ∨ y.inIssuanceBlindValueProof.isSome) → z.inIssuanceBlindValueProof.isSome
  inIssuanceBlindInflationKeysProof : (x.inIssuanceBlindInflationKeysProof.isSome ∨ y.inIssuanceBlindInflationKeysProof.isSome) → z.inIssuanceBlindInflationKeysProof.isSome
  amount : (x.amount.isSome ∨ y.amount.isSome) → z.amount.isSome
  blindValueProof : (x.blindValueProof.isSome ∨ y.blindValueProof.isSome) → z.blindValueProof.isSome
  asset : (x.asset.isSome ∨ y.asset.isSome) → z.asset.isSome
  blindAssetProof : (x.blindAssetProof.isSome ∨ y.blindAssetProof.isSome) → z.blindAssetProof.isSome
  blindedIssuance : (x.blindedIssuance.isSome ∨ y.blindedIssuance.isSome) → z.blindedIssuance.isSome
  proprietary : ∀ k, (k ∈ KV.keys x.proprietary ∨ k ∈ KV.keys y.proprietary) → k ∈ KV.keys z.proprietary
  unknown : ∀ k, (k ∈ KV.keys x.unknown ∨ k ∈ KV.keys y.unknown) → k ∈ KV.keys z.unknown
end PsetInput

namespace PsetOutput
/-- `Output::merge` (never fails) -/
def merge (x y : PsetOutput) : PsetOutput :=
  {
    redeemScript := mergeOpt x.redeemScript y.redeemScript,
    witnessScript := mergeOpt x.witnessScript y.witnessScript,
    bip32Derivation := KV.extend x.bip32Derivation y.bip32Derivation,
    tapInternalKey := mergeOpt x.tapInternalKey y.tapInternalKey,
    tapTree := mergeOpt x.tapTree y.tapTree,
    tapKeyOrigins := KV.extend x.tapKeyOrigins y.tapKeyOrigins,
    amount := mergeOpt x.amount y.amount,
    amountComm := mergeOpt x.amountComm y.amountComm,
    scriptPubkey := x.scriptPubkey,
    asset := mergeOpt x.asset y.asset,
    assetComm := mergeOpt x.assetComm y.assetComm,
    valueRangeproof := mergeOpt x.valueRangeproof y.valueRangeproof,
    assetSurjectionProof := mergeOpt x.assetSurjectionProof y.assetSurjectionProof,
    blindingKey := mergeOpt x.blindingKey y.blindingKey,
    ecdhPubkey := mergeOpt x.ecdhPubkey y.ecdhPubkey,
    blinderIndex := mergeOpt x.blinderIndex y.blinderIndex,
    blindValueProof := mergeOpt x.blindValueProof y.blindValueProof,
    blindAssetProof := mergeOpt x.blindAssetProof y.blindAssetProof,
    proprietary := KV.extend x.proprietary y.proprietary,
    unknown := KV.extend x.unknown y.unknown }
/-- every map field is a strictly key-sorted association list (what a `BTreeMap` is) -/
def Sorted (x : PsetOutput) : Prop :=
  KV.Sorted x.bip32Derivation ∧ KV.Sorted x.tapKeyOrigins ∧ KV.Sorted x.proprietary ∧ KV.Sorted x.unknown
/-- the two maps agree wherever both define a value; the identifying fields coincide -/
structure Compat (x y : PsetOutput) : Prop where
  redeemScript : OptAgree x.redeemScript y.redeemScript
  witnessScript : OptAgree x.witnessScript y.witnessScript
  bip32Derivation : KV.Agree x.bip32Derivation y.bip32Derivation
  tapInternalKey : OptAgree x.tapInternalKey y.tapInternalKey
  tapTree : OptAgree x.tapTree y.tapTree
  tapKeyOrigins : KV.Agree x.tapKeyOrigins y.tapKeyOrigins
  amount : x.amount = y.amount
  amountComm : x.amountComm = y.amountComm
  scriptPubkey : x.scriptPubkey = y.scriptPubkey
  asset : x.asset = y.asset
  assetComm : x.assetComm = y.assetComm
  valueRangeproof : OptAgree x.valueRangeproof y.valueRangeproof
  assetSurjectionProof : OptAgree x.assetSurjectionProof y.assetSurjectionProof
  blindingKey : OptAgree x.blindingKey y.blindingKey
  ecdhPubkey : x.ecdhPubkey = y.ecdhPubkey
  blinderIndex : OptAgree x.blinderIndex y.blinderIndex
  blindValueProof : OptAgree x.blindValueProof y.blindValueProof
  blindAssetProof : OptAgree x.blindAssetProof y.blindAssetProof
  proprietary : KV.Agree x.proprietary y.proprietary
  unknown : KV.Agree x.unknown y.unknown
/-- nothing present in `x` or `y` is absent from `z` -/
structure Keeps (x y z : PsetOutput) : Prop where
  redeemScript : (x.redeemScript.isSome ∨ y.redeemScript.isSome) → z.redeemScript.isSome
  witnessScript : (x.witnessScript.isSome ∨ y.witnessScript.isSome) → z.witnessScript.isSome
  bip32Derivation : ∀ k, (k ∈ KV.keys x.bip32Derivation ∨ k ∈ KV.keys y.bip32Derivation) → k ∈ KV.keys z.bip32Derivation
  tapInternalKey : (x.tapInternalKey.isSome ∨ y.tapInternalKey.isSome) → z.tapInternalKey.isSome
  tapTree : (x.tapTree.isSome ∨ y.tapTree.isSome) → z.tapTree.isSome
  tapKeyOrigins : ∀ k, (k ∈ KV.keys x.tapKeyOrigins ∨ k ∈ KV.keys y.tapKeyOrigins) → k ∈ KV.keys z.tapKeyOrigins
  amount : (x.amount.isSome ∨ y.amount.isSome) → z.amount.isSome
  amountComm : (x.amountComm.isSome ∨ y.amountComm.isSome) → z.amountComm.isSome
  scriptPubkey : z.scriptPubkey = x.scriptPubkey
  asset : (x.asset.isSome ∨ y.asset.isSome) → z.asset.isSome
  assetComm : (x.assetComm.isSome ∨ y.assetComm.isSome) → z.assetComm.isSome
  valueRangeproof : (x.valueRangeproof.isSome ∨ y.valueRangeproof.isSome) → z.valueRangeproof.isSome
  assetSurjectionProof : (x.assetSurjectionProof.isSome ∨ y.assetSurjectionProof.isSome) → z.assetSurjectionProof.isSome
  blindingKey : (x.blindingKey.isSome ∨ y.blindingKey.isSome) → z.blindingKey.isSome
  ecdhPubkey : (x.ecdhPubkey.isSome ∨ y.ecdhPubkey.isSome) → z.ecdhPubkey.isSome
  blinderIndex : (x.blinderIndex.isSome ∨ y.blinderIndex.isSome) → z.blinderIndex.isSome
  blindValueProof : (x.blindValueProof.isSome ∨ y.blindValueProof.isSome) → z.blindValueProof.isSome
  blindAssetProof : (x.blindAssetProof.isSome ∨ y.blindAssetProof.isSome) → z.blindAssetProof.isSome
  proprietary : ∀ k, (k ∈ KV.keys x.proprietary ∨ k ∈ KV.keys y.proprietary) → k ∈ KV.keys z.proprietary
  unknown : ∀ k, (k ∈ KV.keys x.unknown ∨ k ∈ KV.keys y.unknown) → k ∈ KV.keys z.unknown
end PsetOutput

structure Pset where
  global : PsetGlobal := {}
  inputs : List PsetInput := []
  outputs : List PsetOutput := []
  deriving Repr, DecidableEq

/-! ### construction (`new_v2`, `add_input`, `add_output`, `from_prevout`, `from_txin`, `from_txout`, `from_tx`) -/

def zero32 : Bytes := List.replicate 32 0

namespace PsetInput
/-- `Input::from_prevout` -/
def fromPrevout (o : OutPoint) : PsetInput := { previousTxid := o.txid, previousOutputIndex := o.vout }

def valueAmount : Value → Option Nat | .explicit x => some x | _ => none
def valueComm : Value → Option Bytes | .conf c => some c | _ => none

/-- `Input::from_txin`: flags are folded into the index with `|=` (so the coinbase index absorbs them) -/
def fromTxIn (t : TxIn) : PsetInput :=
  let base : PsetInput :=
    { previousTxid := t.previousOutput.txid
      previousOutputIndex := t.previousOutput.vout
      sequence := some t.sequence
      finalScriptSig := some t.scriptSig
      finalScriptWitness := some t.witness.scriptWitness }
  let a : PsetInput :=
    if t.isPegin then
      { base with previousOutputIndex := base.previousOutputIndex ||| 2^30, peginWitness := some t.witness.peginWitness }
    else base
  if t.hasIssuance then
    { a with
      previousOutputIndex := a.previousOutputIndex ||| 2^31
      issuanceBlindingNonce := some t.assetIssuance.nonce
      issuanceAssetEntropy := some t.assetIssuance.entropy
      issuanceValueAmount := valueAmount t.assetIssuance.amount
      issuanceValueComm := valueComm t.assetIssuance.amount
      issuanceInflationKeys := valueAmount t.assetIssuance.inflationKeys
      issuanceInflationKeysComm := valueComm t.assetIssuance.inflationKeys
      issuanceKeysRangeproof := t.witness.inflationKeysRangeproof
      issuanceValueRangeproof := t.witness.amountRangeproof }
  else a

/-- `Input::is_pegin` (the coinbase index carries no flags) -/
def isPegin (i : PsetInput) : Bool := i.previousOutputIndex != 0xffffffff && i.previousOutputIndex.testBit 30

/-- value from an (explicit, commitment) field pair: the commitment wins -/
def pairValue (amt : Option Nat) (comm : Option Bytes) : Value :=
  match amt, comm with
  | none, none => .null
  | _, some c => .conf c
  | some x, none => .explicit x

/-- `Input::asset_issuance` -/
def assetIssuance (i : PsetInput) : AssetIssuance :=
  { nonce := i.issuanceBlindingNonce.getD zero32
    entropy := i.issuanceAssetEntropy.getD zero32
    amount := pairValue i.issuanceValueAmount i.issuanceValueComm
    inflationKeys := pairValue i.issuanceInflationKeys i.issuanceInflationKeysComm }

/-- `Input::has_issuance` -/
def hasIssuance (i : PsetInput) : Bool := !i.assetIssuance.isNull

/-- the index as `extract_tx` writes it: `0xffff_ffff` untouched, otherwise the two flag bits
    cleared (`& !((1 << 30) | (1 << 31))` on a `u32` = `% 2^30`) -/
def plainIndex (i : PsetInput) : Nat :=
  if i.previousOutputIndex = 0xffffffff then i.previousOutputIndex else i.previousOutputIndex % 2^30

/-- the `TxIn` built by `extract_tx` -/
def toTxIn (i : PsetInput) : TxIn :=
  { previousOutput := ⟨i.previousTxid, i.plainIndex⟩
    isPegin := i.isPegin
    scriptSig := i.finalScriptSig.getD []
    sequence := i.sequence.getD 0xffffffff
    assetIssuance := i.assetIssuance
    witness :=
      { amountRangeproof := i.issuanceValueRangeproof
        inflationKeysRangeproof := i.issuanceKeysRangeproof
        scriptWitness := i.finalScriptWitness.getD []
        peginWitness := i.peginWitness.getD [] } }
end PsetInput

/-- compressed form of a serialized `bitcoin::PublicKey` (`pk.inner` forgets the `compressed` flag):
    33 bytes stay, 65 bytes `04 ‖ x ‖ y` become `(02 | y odd) ‖ x` -/
def compressPk (b : Bytes) : Bytes :=
  if b.length = 65 then
    (if (b.getD 64 0).toNat % 2 = 1 then 3 else 2) :: (b.drop 1).take 32
  else b

namespace PsetOutput
def assetId : Asset → Option Bytes | .explicit x => some x | _ => none
def assetGen : Asset → Option Bytes | .conf c => some c | _ => none
def noncePk : Nonce → Option Bytes | .conf pk => some pk | _ => none

/-- `TxOut::is_partially_blinded` -/
def txOutPartiallyBlinded (t : TxOut) : Bool :=
  (match t.asset with | .conf _ => true | _ => false) || t.value.isConf || !t.witness.isEmpty

/-- `Output::from_txout`: the nonce goes to `ecdh_pubkey` when the output is (partially) blinded,
    to `blinding_key` otherwise; an explicit nonce has no place -/
def fromTxOut (t : TxOut) : PsetOutput :=
  { amount := PsetInput.valueAmount t.value
    amountComm := PsetInput.valueComm t.value
    asset := assetId t.asset
    assetComm := assetGen t.asset
    ecdhPubkey := if txOutPartiallyBlinded t then noncePk t.nonce else none
    blindingKey := if txOutPartiallyBlinded t then none else noncePk t.nonce
    scriptPubkey := t.scriptPubkey
    valueRangeproof := t.witness.rangeproof
    assetSurjectionProof := t.witness.surjectionProof }

/-- `Output::new_explicit` -/
def newExplicit (script : Bytes) (amount : Nat) (asset : Bytes) (blindingKey : Option Bytes) : PsetOutput :=
  { scriptPubkey := script, amount := some amount, blindingKey := blindingKey, asset := some asset }

/-- `Output::is_partially_blinded` -/
def isPartiallyBlinded (o : PsetOutput) : Bool :=
  o.blindingKey.isSome && (o.amountComm.isSome || o.assetComm.isSome || o.valueRangeproof.isSome ||
    o.assetSurjectionProof.isSome || o.ecdhPubkey.isSome)

def pairAsset (id : Option Bytes) (gen : Option Bytes) : Asset :=
  match gen, id with
  | some g, _ => .conf g
  | none, some a => .explicit a
  | none, none => .null

def nonceOf (pk : Option Bytes) : Nonce :=
  match pk with
  | some k => .conf (compressPk k)
  | none => .null

/-- `Output::to_txout` (total; used by the blinding code, not by `extract_tx`) -/
def toTxOut (o : PsetOutput) : TxOut :=
  { asset := pairAsset o.asset o.assetComm
    value := PsetInput.pairValue o.amount o.amountComm
    nonce := nonceOf (if o.isPartiallyBlinded then o.ecdhPubkey else o.blindingKey)
    scriptPubkey := o.scriptPubkey
    witness := ⟨o.assetSurjectionProof, o.valueRangeproof⟩ }

/-- the `TxOut` built inside `extract_tx`: a missing asset is reported as `MissingOutputValue`, a
    missing value as `MissingOutputAsset` (names as in the source); the nonce comes from
    `ecdh_pubkey` only -/
def extract (o : PsetOutput) : Res TxOut :=
  match o.assetComm, o.asset with
  | none, none => .err "MissingOutputValue"
  | _, _ =>
    match o.amountComm, o.amount with
    | none, none => .err "MissingOutputAsset"
    | _, _ =>
      .ok { asset := pairAsset o.asset o.assetComm
            value := PsetInput.pairValue o.amount o.amountComm
            nonce := nonceOf o.ecdhPubkey
            scriptPubkey := o.scriptPubkey
            witness := ⟨o.assetSurjectionProof, o.valueRangeproof⟩ }
end PsetOutput

/-! ### lock time (BIP370 as coded) -/

/-- the local `enum Locktime<T>` of `locktime()`; derived `Ord`: variant order, then payload -/
inductive LockState where
  | unconstrained
  | minimum (t : Nat)
  | disallowed
  deriving Repr, DecidableEq

namespace LockState
def le : LockState → LockState → Bool
  | .unconstrained, _ => true
  | .minimum _, .unconstrained => false
  | .minimum a, .minimum b => a ≤ b
  | .minimum _, .disallowed => true
  | .disallowed, .disallowed => true
  | .disallowed, _ => false
/-- `cmp::max(a, b)` (returns `b` unless `a > b`) -/
def max (a b : LockState) : LockState := if a.le b then b else a
end LockState

/-- a lock-time requirement pair of one input: (`required_time_locktime`, `required_height_locktime`) -/
abbrev LockReq := Option Nat × Option Nat

/-- one iteration of the loop over the inputs; state = (time_locktime, height_locktime) -/
def lockStep (st : LockState × LockState) (r : LockReq) : LockState × LockState :=
  match r with
  | (some rt, some rh) => (LockState.max st.1 (.minimum rt), LockState.max st.2 (.minimum rh))
  | (some rt, none) => (LockState.max st.1 (.minimum rt), .disallowed)
  | (none, some rh) => (.disallowed, LockState.max st.2 (.minimum rh))
  | (none, none) => st

/-- the final `match`; the height arm comes first; the two `unreachable!()` arms are panics -/
def lockFinal (fallback : Option Nat) : LockState × LockState → Res Nat
  | (.unconstrained, .unconstrained) => .ok (fallback.getD 0)
  | (_, .minimum x) => .ok x
  | (.minimum x, _) => .ok x
  | (.disallowed, .disallowed) => .err "LocktimeConflict"
  | (.unconstrained, .disallowed) => .panic "locktime: unreachable (Unconstrained, Disallowed)"
  | (.disallowed, .unconstrained) => .panic "locktime: unreachable (Disallowed, Unconstrained)"

def lockFold (reqs : List LockReq) : LockState × LockState :=
  reqs.foldl lockStep (.unconstrained, .unconstrained)

/-- `locktime()` as a function of the fallback and the per-input requirements -/
def locktimeOf (fallback : Option Nat) (reqs : List LockReq) : Res Nat := lockFinal fallback (lockFold reqs)

namespace Pset

/-- `new_v2` -/
def newV2 : Pset := {}
/-- `add_input` / `add_output` -/
def addInput (p : Pset) (i : PsetInput) : Pset :=
  { p with global := { p.global with inputCount := p.global.inputCount + 1 }, inputs := p.inputs ++ [i] }
def addOutput (p : Pset) (o : PsetOutput) : Pset :=
  { p with global := { p.global with outputCount := p.global.outputCount + 1 }, outputs := p.outputs ++ [o] }
def nInputs (p : Pset) : Nat := p.global.inputCount
def nOutputs (p : Pset) : Nat := p.global.outputCount

/-- `from_tx` -/
def fromTx (t : Tx) : Pset :=
  { global := { txVersion := t.version, fallbackLocktime := some t.lockTime,
                inputCount := t.input.length, outputCount := t.output.length }
    inputs := t.input.map PsetInput.fromTxIn
    outputs := t.output.map PsetOutput.fromTxOut }

def lockReqs (p : Pset) : List LockReq :=
  p.inputs.map (fun i => (i.requiredTimeLocktime, i.requiredHeightLocktime))

/-- `locktime()` -/
def locktime (p : Pset) : Res Nat := locktimeOf p.global.fallbackLocktime p.lockReqs

/-- `sanity_check` -/
def sanityCheck (p : Pset) : Res Unit :=
  if p.nInputs ≠ p.inputs.length then .err "InputCountMismatch"
  else if p.nOutputs ≠ p.outputs.length then .err "OutputCountMismatch"
  else .ok ()

/-- the output loop of `extract_tx`: the first output that lacks a field aborts -/
def extractOutputs : List PsetOutput → Res (List TxOut)
  | [] => .ok []
  | o :: r =>
    match o.extract with
    | .ok t =>
      match extractOutputs r with
      | .ok ts => .ok (t :: ts)
      | .err e => .err e
      | .panic s => .panic s
    | .err e => .err e
    | .panic s => .panic s

/-- `extract_tx` -/
def extractTx (p : Pset) : Res Tx :=
  match p.sanityCheck with
  | .ok () =>
    match p.locktime with
    | .ok lt =>
      match extractOutputs p.outputs with
      | .ok outs => .ok { version := p.global.txVersion, lockTime := lt, input := p.inputs.map PsetInput.toTxIn, output := outs }
      | .err e => .err e
      | .panic s => .panic s
    | .err e => .err e
    | .panic s => .panic s
  | .err e => .err e
  | .panic s => .panic s

/-- the unsigned transaction whose txid is the unique id: sequences zeroed, script sigs emptied -/
def unsignedIn (i : TxIn) : TxIn := { i with sequence := 0, scriptSig := [] }
def unsignedTx (t : Tx) : Tx := { t with input := t.input.map unsignedIn }

/-- `unique_id` -/
def uniqueId (H : Hashes) (p : Pset) : Res Bytes :=
  match p.extractTx with
  | .ok t => .ok ((unsignedTx t).txid H)
  | .err e => .err e
  | .panic s => .panic s

end Pset

/-! ### merge -/

/-- `a - b` on `usize` under overflow checks -/
def subUsize (a b : Nat) : Option Nat := if a < b then none else some (a - b)
/-- `v[start..]` (panics when `start > len`) -/
def sliceFrom {α} (l : List α) (start : Nat) : Option (List α) := if start > l.length then none else some (l.drop start)

/-- `short.len() < long.len() && short[..] == long[long.len() - short.len()..]` with its index
    arithmetic (`&&` short-circuits, so the subtraction is only evaluated under the guard) -/
def properSuffix (short long : List Nat) : Res Bool :=
  if short.length < long.length then
    match subUsize long.length short.length with
    | none => .panic "attempt to subtract with overflow"
    | some s =>
      match sliceFrom long s with
      | none => .panic "range start index out of range"
      | some t => .ok (decide (short = t))
  else .ok false

/-- the `Entry::Occupied` branch of the xpub loop of `Global::merge`: `self` holds `mine`
    (= `(fingerprint2, derivation2)`), `other` brings `theirs` (= `(fingerprint1, derivation1)`);
    result = the key source stored afterwards -/
def xpubReconcile (mine theirs : KeySource) : Res KeySource :=
  if theirs.path = mine.path ∧ theirs.fp = mine.fp then .ok mine
  else
    match properSuffix theirs.path mine.path with
    | .ok true => .ok mine
    | .ok false =>
      match properSuffix mine.path theirs.path with
      | .ok true => .ok theirs
      | .ok false => .err "MergeConflict"
      | .err e => .err e
      | .panic s => .panic s
    | .err e => .err e
    | .panic s => .panic s

/-- the xpub loop: `other`'s entries in key order; the first conflict aborts -/
def mergeXpub (self : List (Bytes × KeySource)) : List (Bytes × KeySource) → Res (List (Bytes × KeySource))
  | [] => .ok self
  | (k, theirs) :: r =>
    match KV.lookup k self with
    | none => mergeXpub (KV.insert k theirs self) r
    | some mine =>
      match xpubReconcile mine theirs with
      | .ok ks => mergeXpub (KV.insert k ks self) r
      | .err e => .err e
      | .panic s => .panic s

namespace PsetGlobal
/-- `Global::merge`; `tx_data.version` and the counts are not touched; the fallback lock time is
    kept from whichever side has one (self first) -/
def merge (x y : PsetGlobal) : Res PsetGlobal :=
  match mergeXpub x.xpub y.xpub with
  | .ok xp =>
    .ok { x with
      txModifiable := some ((x.txModifiable.getD 0) ||| (y.txModifiable.getD 0))
      fallbackLocktime := mergeOpt x.fallbackLocktime y.fallbackLocktime
      version := if x.version ≤ y.version then y.version else x.version
      xpub := xp
      scalars := sortDedup (x.scalars ++ y.scalars)
      elementsTxModifiableFlag := mergeOpt x.elementsTxModifiableFlag y.elementsTxModifiableFlag
      proprietary := KV.extend x.proprietary y.proprietary
      unknown := KV.extend x.unknown y.unknown }
  | .err e => .err e
  | .panic s => .panic s

def Sorted (g : PsetGlobal) : Prop :=
  KV.Sorted g.xpub ∧ KV.Sorted g.proprietary ∧ KV.Sorted g.unknown
end PsetGlobal

/-- `self.iter_mut().zip(other)`: pairs are merged, a longer `self` keeps its tail -/
def zipMerge {α} (f : α → α → α) : List α → List α → List α
  | [], _ => []
  | x :: xs, [] => x :: xs
  | x :: xs, y :: ys => f x y :: zipMerge f xs ys

namespace Pset
/-- the part of `merge` after the unique-id gate -/
def mergeCore (a b : Pset) : Res Pset :=
  match a.global.merge b.global with
  | .ok g => .ok { global := g, inputs := zipMerge PsetInput.merge a.inputs b.inputs,
                   outputs := zipMerge PsetOutput.merge a.outputs b.outputs }
  | .err e => .err e
  | .panic s => .panic s

/-- `merge`: both unique ids must be computable (`self.unique_id()?` first, then
    `other.unique_id()?`: a failure is returned as is) and equal (`UniqueIdMismatch` otherwise) -/
def merge (H : Hashes) (a b : Pset) : Res Pset :=
  match a.uniqueId H with
  | .ok expected =>
    match b.uniqueId H with
    | .ok actual => if expected ≠ actual then .err "UniqueIdMismatch" else a.mergeCore b
    | .err e => .err e
    | .panic s => .panic s
  | .err e => .err e
  | .panic s => .panic s

def Sorted (p : Pset) : Prop :=
  p.global.Sorted ∧ (∀ i ∈ p.inputs, i.Sorted) ∧ (∀ o ∈ p.outputs, o.Sorted)
end Pset

end EV
