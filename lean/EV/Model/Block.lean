/-
  EV.Model.Block — dynafed parameters, block header extension data, BlockHeader and
  Block: consensus encoding (src/block.rs, src/dynafed.rs), block hash preimage,
  dynafed parameter roots (two-level fast-merkle commitment), sizes.
  Hash functions are parameters (`Hashes`).

  Rust items transcribed here (read by tools/modelled_items.py): `impl Encodable for Params`,
  `impl Decodable for Params`, `Params::calculate_root`, `Params::into_compact`, `Params::is_null`,
  `FullParams::calculate_root`, `FullParams::into_compact`, `FullParams::extra_root`,
  `impl Encodable for ExtData`, `impl Encodable for BlockHeader`, `impl Decodable for BlockHeader`,
  `BlockHeader::block_hash`, `BlockHeader::calculate_dynafed_params_root`, `BlockHeader::is_dynafed`,
  `Block::block_hash`, `Block::size`, `Block::weight`.
-/
import EV.Model.Transaction
import EV.Model.FastMerkle
namespace EV
open Codec

/-- everything hash-like is a parameter of the model -/
structure Hashes where
  /-- double SHA-256 -/
  sha256d : Bytes → Bytes
  /-- SHA-256 compression of the 64-byte block `l ‖ r` from the initial state (midstate) -/
  comb : Bytes → Bytes → Bytes

namespace Hashes
def zero32 : Bytes := List.replicate 32 0
/-- `fast_merkle_root`; `none` = panic in the Rust code -/
def fmr (H : Hashes) (leaves : List Bytes) : Option Bytes := FastMerkle.fast H.comb zero32 leaves
end Hashes

namespace Tx
/-- `Transaction::txid`: double SHA-256 of the witness-stripped serialization -/
def txid (H : Hashes) (t : Tx) : Bytes := H.sha256d t.encStripped
/-- `Transaction::wtxid`: double SHA-256 of the full serialization -/
def wtxid (H : Hashes) (t : Tx) : Bytes := H.sha256d t.enc
end Tx

structure FullParams where
  signblockscript : Bytes
  signblockWitnessLimit : Nat
  fedpegProgram : Bytes
  fedpegscript : Bytes
  extensionSpace : List Bytes
  deriving Repr, DecidableEq

inductive Params where
  | null
  | compact (signblockscript : Bytes) (signblockWitnessLimit : Nat) (elidedRoot : Bytes)
  | full (f : FullParams)
  deriving Repr, DecidableEq

namespace FullParams
def enc (f : FullParams) : Bytes :=
  encBytesVec f.signblockscript ++ encLe 4 f.signblockWitnessLimit ++ encBytesVec f.fedpegProgram ++
  encBytesVec f.fedpegscript ++ encBytesVecVec f.extensionSpace
def dec : Dec FullParams := fun bs =>
  match bytesVec bs with
  | .ok (s, r1) =>
    match le 4 r1 with
    | .ok (l, r2) =>
      match bytesVec r2 with
      | .ok (fp, r3) =>
        match bytesVec r3 with
        | .ok (fs, r4) =>
          match bytesVecVec r4 with
          | .ok (ext, r5) => .ok (⟨s, l, fp, fs, ext⟩, r5)
          | .err e => .err e
          | .panic s => .panic s
        | .err e => .err e
        | .panic s => .panic s
      | .err e => .err e
      | .panic s => .panic s
    | .err e => .err e
    | .panic s => .panic s
  | .err e => .err e
  | .panic s => .panic s
def wf (f : FullParams) : Prop :=
  f.signblockscript.length ≤ maxVecSize ∧ f.signblockWitnessLimit < 2^32 ∧
  f.fedpegProgram.length ≤ maxVecSize ∧ f.fedpegscript.length ≤ maxVecSize ∧
  TxInWitness.wfStack f.extensionSpace

/-- `extra_root`: commits to fedpeg program, fedpeg script, extension space -/
def extraRoot (H : Hashes) (f : FullParams) : Option Bytes :=
  H.fmr [H.sha256d (encBytesVec f.fedpegProgram), H.sha256d (encBytesVec f.fedpegscript),
         H.sha256d (encBytesVecVec f.extensionSpace)]

/-- `FullParams::calculate_root` -/
def calculateRoot (H : Hashes) (f : FullParams) : Option Bytes :=
  match H.fmr [H.sha256d (encBytesVec f.signblockscript), H.sha256d (encLe 4 f.signblockWitnessLimit)] with
  | none => none
  | some compactRoot =>
    match f.extraRoot H with
    | none => none
    | some er => H.fmr [compactRoot, er]

/-- `FullParams::into_compact` -/
def intoCompact (H : Hashes) (f : FullParams) : Option Params :=
  match f.extraRoot H with
  | none => none
  | some er => some (.compact f.signblockscript f.signblockWitnessLimit er)
end FullParams

namespace Params
def enc : Params → Bytes
  | .null => [0]
  | .compact s l e => [1] ++ encBytesVec s ++ encLe 4 l ++ e
  | .full f => [2] ++ f.enc
def dec : Dec Params := fun bs =>
  match bs with
  | [] => .err "eof"
  | t :: r0 =>
    if t = 0 then .ok (.null, r0)
    else if t = 1 then
      match bytesVec r0 with
      | .ok (s, r1) =>
        match le 4 r1 with
        | .ok (l, r2) =>
          match take 32 r2 with
          | .ok (e, r3) => .ok (.compact s l e, r3)
          | .err e => .err e
          | .panic s => .panic s
        | .err e => .err e
        | .panic s => .panic s
      | .err e => .err e
      | .panic s => .panic s
    else if t = 2 then
      match FullParams.dec r0 with
      | .ok (f, r1) => .ok (.full f, r1)
      | .err e => .err e
      | .panic s => .panic s
    else .err "bad serialize type for dynafed parameters"
def wf : Params → Prop
  | .null => True
  | .compact s l e => s.length ≤ maxVecSize ∧ l < 2^32 ∧ e.length = 32
  | .full f => f.wf

def extraRoot (H : Hashes) : Params → Option Bytes
  | .null => some Hashes.zero32
  | .compact _ _ e => some e
  | .full f => f.extraRoot H

/-- `Params::calculate_root` -/
def calculateRoot (H : Hashes) (p : Params) : Option Bytes :=
  match p with
  | .null => some Hashes.zero32
  | .compact s l _ | .full ⟨s, l, _, _, _⟩ =>
    match H.fmr [H.sha256d (encBytesVec s), H.sha256d (encLe 4 l)] with
    | none => none
    | some compactRoot =>
      match p.extraRoot H with
      | none => none
      | some er => H.fmr [compactRoot, er]

/-- `Params::into_compact` (outer `none` = panic; inner `none` = the method's `None`) -/
def intoCompact (H : Hashes) : Params → Option (Option Params)
  | .null => some none
  | .compact s l e => some (some (.compact s l e))
  | .full f => (f.intoCompact H).map some
end Params

inductive ExtData where
  | proof (challenge : Bytes) (solution : Bytes)
  | dynafed (current : Params) (proposed : Params) (signblockWitness : List Bytes)
  deriving Repr, DecidableEq

structure BlockHeader where
  version : Nat
  prevBlockhash : Bytes
  merkleRoot : Bytes
  time : Nat
  height : Nat
  ext : ExtData
  deriving Repr, DecidableEq

namespace ExtData
def enc : ExtData → Bytes
  | .proof c s => encBytesVec c ++ encBytesVec s
  | .dynafed c p w => c.enc ++ p.enc ++ encBytesVecVec w
def isDynafed : ExtData → Bool | .dynafed .. => true | _ => false
def wf : ExtData → Prop
  | .proof c s => c.length ≤ maxVecSize ∧ s.length ≤ maxVecSize
  | .dynafed c p w => c.wf ∧ p.wf ∧ TxInWitness.wfStack w
/-- the part of the extension data that is hashed into the block hash -/
def encHashed : ExtData → Bytes
  | .proof c _ => encBytesVec c
  | .dynafed c p _ => c.enc ++ p.enc
def clearWitness : ExtData → ExtData
  | .proof c _ => .proof c []
  | .dynafed c p _ => .dynafed c p []
end ExtData

namespace BlockHeader
/-- the version word as serialized: bit 31 marks a dynafed header (`|` on a `u32`) -/
def versionWord (h : BlockHeader) : Nat :=
  if h.ext.isDynafed then h.version ||| 0x80000000 else h.version

def enc (h : BlockHeader) : Bytes :=
  encLe 4 h.versionWord ++ h.prevBlockhash ++ h.merkleRoot ++ encLe 4 h.time ++ encLe 4 h.height ++ h.ext.enc

def dec : Dec BlockHeader := fun bs =>
  match le 4 bs with
  | .ok (v, r1) =>
    let isDyna := v / 2^31 = 1
    let version := if isDyna then v % 2^31 else v
    match take 32 r1 with
    | .ok (prev, r2) =>
      match take 32 r2 with
      | .ok (mr, r3) =>
        match le 4 r3 with
        | .ok (time, r4) =>
          match le 4 r4 with
          | .ok (height, r5) =>
            if isDyna then
              match Params.dec r5 with
              | .ok (cur, r6) =>
                match Params.dec r6 with
                | .ok (prop, r7) =>
                  match bytesVecVec r7 with
                  | .ok (w, r8) => .ok (⟨version, prev, mr, time, height, .dynafed cur prop w⟩, r8)
                  | .err e => .err e
                  | .panic s => .panic s
                | .err e => .err e
                | .panic s => .panic s
              | .err e => .err e
              | .panic s => .panic s
            else
              match bytesVec r5 with
              | .ok (c, r6) =>
                match bytesVec r6 with
                | .ok (s, r7) => .ok (⟨version, prev, mr, time, height, .proof c s⟩, r7)
                | .err e => .err e
                | .panic s => .panic s
              | .err e => .err e
              | .panic s => .panic s
          | .err e => .err e
          | .panic s => .panic s
        | .err e => .err e
        | .panic s => .panic s
      | .err e => .err e
      | .panic s => .panic s
    | .err e => .err e
    | .panic s => .panic s
  | .err e => .err e
  | .panic s => .panic s

def wf (h : BlockHeader) : Prop :=
  h.version < 2^31 ∧ h.prevBlockhash.length = 32 ∧ h.merkleRoot.length = 32 ∧
  h.time < 2^32 ∧ h.height < 2^32 ∧ h.ext.wf

/-- preimage of `block_hash` -/
def hashPreimage (h : BlockHeader) : Bytes :=
  encLe 4 h.versionWord ++ h.prevBlockhash ++ h.merkleRoot ++ encLe 4 h.time ++ encLe 4 h.height ++ h.ext.encHashed

def blockHash (H : Hashes) (h : BlockHeader) : Bytes := H.sha256d h.hashPreimage

def clearWitness (h : BlockHeader) : BlockHeader := { h with ext := h.ext.clearWitness }

/-- `calculate_dynafed_params_root`: outer `none` = panic, inner `none` = not dynafed -/
def dynafedParamsRoot (H : Hashes) (h : BlockHeader) : Option (Option Bytes) :=
  match h.ext with
  | .proof _ _ => some none
  | .dynafed c p _ =>
    match c.calculateRoot H, p.calculateRoot H with
    | some rc, some rp => (H.fmr [rc, rp]).map some
    | _, _ => none
end BlockHeader

structure Block where
  header : BlockHeader
  txdata : List Tx
  deriving Repr, DecidableEq

namespace Block
def enc (b : Block) : Bytes := b.header.enc ++ encVec Tx.enc b.txdata
def dec (P : Prims) : Dec Block := fun bs =>
  match BlockHeader.dec bs with
  | .ok (h, r1) =>
    match vecOf P.sizeTx (Tx.dec P) r1 with
    | .ok (txs, r2) => .ok (⟨h, txs⟩, r2)
    | .err e => .err e
    | .panic s => .panic s
  | .err e => .err e
  | .panic s => .panic s
def wf (P : Prims) (b : Block) : Prop :=
  b.header.wf ∧ b.txdata.length * P.sizeTx ≤ maxVecSize ∧ ∀ t ∈ b.txdata, t.wf P
def size (b : Block) : Nat :=
  b.header.enc.length + varintSize b.txdata.length + (b.txdata.map Tx.size).sum
def weight (b : Block) : Nat :=
  4 * (b.header.enc.length + varintSize b.txdata.length) + (b.txdata.map Tx.weight).sum
end Block

end EV
