/-
  EV.Model.Accessors — the accessors applied to freshly decoded values that are not owned by
  another property, modelled with every Rust panic site explicit (C10):

    * `script::Instructions::next` (both `instructions()` and `instructions_minimal()`),
      reduced to what `TxOut::{is_null_data, pegout_data}` need (src/script.rs);
    * `TxOut::is_null_data`, `TxOut::pegout_data`, `TxOut::minimum_value` (src/transaction.rs);
    * `PeginData::from_pegin_witness`, `TxIn::pegin_data` (src/transaction.rs);
    * `SchnorrSig::from_slice` (src/schnorr.rs);
    * `LeafVersion::from_u8`, `TaprootMerkleBranch::from_slice`, `ControlBlock::from_slice`
      (src/taproot.rs).

  Conventions: an index `v[i]` is `idx v i site`, a range `&v[a..b]` is `slice v a b site`; both
  return `.panic site` when Rust's bounds check would fire.  `usize` additions on lengths are
  not overflow-checked here: on the 64-bit targets the harness runs on, every such sum is
  bounded by `len + 2^32 + 5` (a `read_uint` of at most 4 bytes), far below `2^64`.
-/
import EV.Model.Transaction
import EV.Gen.Consts
namespace EV.Acc
open EV EV.Codec

/-! ### bounds-checked primitives -/

/-- `v[i]` -/
def idx {α} (v : List α) (i : Nat) (site : String) : Res α :=
  match v[i]? with
  | some a => .ok a
  | none => .panic site

/-- `&v[a..b]` (panics when `a > b` or `b > len`) -/
def slice (v : Bytes) (a b : Nat) (site : String) : Res Bytes :=
  if a ≤ b ∧ b ≤ v.length then .ok ((v.drop a).take (b - a)) else .panic site

/-- `&v[a..]` -/
def sliceFrom (v : Bytes) (a : Nat) (site : String) : Res Bytes :=
  if a ≤ v.length then .ok (v.drop a) else .panic site

/-! ### script instructions (src/script.rs `impl Iterator for Instructions`) -/

inductive Instr where
  /-- `Instruction::PushBytes` -/
  | push (d : Bytes)
  /-- `Instruction::Op` (the opcode byte) -/
  | op (b : UInt8)
  deriving Repr, DecidableEq

/-- result of one call of `Instructions::next` -/
inductive Step where
  /-- `None`: the iterator is exhausted -/
  | done
  /-- `Some(Ok(i))`, with the data left in the iterator -/
  | item (i : Instr) (rest : Bytes)
  /-- `Some(Err(e))`; the iterator kills itself (`self.data = &[]`) -/
  | error (e : String)
  /-- a bounds check fired -/
  | panic (site : String)
  deriving Repr, DecidableEq

/-- `read_uint(&data[1..], size)`: `EarlyEndOfScript` if too short, else little endian -/
def readUint (data : Bytes) (size : Nat) : Option Nat :=
  if data.length < size then none else some (leNat (data.take size))

/-- yield `PushBytes(&data[a..b])` and advance to `&data[b..]` -/
def pushItem (data : Bytes) (a b : Nat) : Step :=
  match slice data a b "script.rs Instructions::next &self.data[a..b] (push payload)" with
  | .panic s => .panic s
  | .err e => .error e
  | .ok d =>
    match sliceFrom data b "script.rs Instructions::next self.data = &self.data[b..]" with
    | .panic s => .panic s
    | .err e => .error e
    | .ok rest => .item (.push d) rest

/-- a `PUSHDATA1/2/4` instruction: `w` = width of the length field.  The order of the minimality
    test and the end-of-script test differs between PUSHDATA1 and PUSHDATA2/4 in the Rust source;
    `minFirst` says which comes first. -/
def pushData (minimal : Bool) (w : Nat) (minLen : Nat) (minFirst : Bool) (data : Bytes) : Step :=
  if data.length < w + 1 then .error "EarlyEndOfScript" else
  match sliceFrom data 1 "script.rs Instructions::next &self.data[1..]" with
  | .panic s => .panic s
  | .err e => .error e
  | .ok tail =>
    match readUint tail w with
    | none => .error "EarlyEndOfScript"
    | some n =>
      if minFirst = true ∧ minimal = true ∧ n < minLen then .error "NonMinimalPush"
      else if data.length < n + (w + 1) then .error "EarlyEndOfScript"
      else if minimal = true ∧ n < minLen then .error "NonMinimalPush"
      else pushItem data (w + 1) (n + (w + 1))

/-- the minimal-push test of a direct push of one byte:
    `n == 1 && (self.data[1] == 0x81 || (self.data[1] > 0 && self.data[1] <= 16))` -/
def directPushNonMinimal (data : Bytes) (n : Nat) : Res Bool :=
  if n = 1 then
    match idx data 1 "script.rs Instructions::next self.data[1]" with
    | .ok b1 => .ok (b1 == 0x81 || (b1.toNat > 0 && b1.toNat ≤ 16))
    | .err e => .err e
    | .panic s => .panic s
  else .ok false

/-- `Instructions::next`.  `classify(Legacy)` gives `PushBytes(n)` exactly for opcodes `0..=0x4b`;
    0x4c/0x4d/0x4e are PUSHDATA1/2/4; every other byte is returned as `Op`. -/
def step (minimal : Bool) (data : Bytes) : Step :=
  match data with
  | [] => .done
  | b0 :: _ =>
    -- `self.data[0]` is in range because the slice is non-empty
    if b0.toNat ≤ 0x4b then
      let n := b0.toNat
      if data.length < n + 1 then .error "EarlyEndOfScript" else
      if minimal then
        match directPushNonMinimal data n with
        | .panic s => .panic s
        | .err e => .error e
        | .ok true => .error "NonMinimalPush"
        | .ok false => pushItem data 1 (n + 1)
      else pushItem data 1 (n + 1)
    else if b0 = 0x4c then pushData minimal 1 76 false data
    else if b0 = 0x4d then pushData minimal 2 0x100 true data
    else if b0 = 0x4e then pushData minimal 4 0x10000 true data
    else
      match sliceFrom data 1 "script.rs Instructions::next &self.data[1..]" with
      | .ok rest => .item (.op b0) rest
      | .err e => .error e
      | .panic s => .panic s

/-- run the iterator to the end: the instructions yielded and the final error, if any.  `fuel`
    bounds the number of calls; running out of fuel is reported as a panic so that the no-panic
    theorem also shows the iterator terminates within `len + 1` calls. -/
def collect (minimal : Bool) : Nat → Bytes → Res (List Instr × Option String)
  | 0, _ => .panic "instructions: fuel exhausted"
  | f+1, d =>
    match step minimal d with
    | .done => .ok ([], none)
    | .error e => .ok ([], some e)
    | .panic s => .panic s
    | .item i rest =>
      match collect minimal f rest with
      | .ok (is, e) => .ok (i :: is, e)
      | .err e => .err e
      | .panic s => .panic s

/-- `script.instructions().collect()` / `script.instructions_minimal().collect()` -/
def instructions (minimal : Bool) (script : Bytes) : Res (List Instr × Option String) :=
  collect minimal (script.length + 1) script

def opReturn : UInt8 := 0x6a
def opPushnum16 : UInt8 := 0x60

/-- the loop body of `is_null_data` after the leading OP_RETURN: every later item must be a push
    or an opcode `≤ OP_PUSHNUM_16`, and no error -/
def nullDataTail : List Instr → Bool
  | [] => true
  | .op b :: rest => if b.toNat > opPushnum16.toNat then false else nullDataTail rest
  | .push _ :: rest => nullDataTail rest

/-- `TxOut::is_null_data` -/
def isNullData (script : Bytes) : Res Bool :=
  match instructions false script with
  | .panic s => .panic s
  | .err e => .err e
  | .ok (is, e) =>
    match is with
    | .op b :: rest =>
      if b = opReturn then
        -- an `Err` item, wherever it is, makes the loop return false
        .ok (nullDataTail rest && e.isNone)
      else .ok false
    | _ => .ok false

/-- `Script::is_op_return` -/
def isOpReturn (script : Bytes) : Res Bool :=
  if script.isEmpty then .ok false else
  match idx script 0 "script.rs is_op_return self.0[0]" with
  | .ok b => .ok (b == opReturn)
  | .err e => .err e
  | .panic s => .panic s

structure PegoutData where
  value : Nat
  asset : Asset
  genesisHash : Bytes
  scriptPubkey : Bytes
  extraData : List Bytes
  deriving Repr, DecidableEq

/-- all remaining items must be data pushes (`found_non_data_push`) -/
def allPushes : List Instr → Option (List Bytes)
  | [] => some []
  | .push d :: rest => (allPushes rest).map (d :: ·)
  | .op _ :: _ => none

/-- `TxOut::pegout_data` -/
def pegoutData (o : TxOut) : Res (Option PegoutData) :=
  match isNullData o.scriptPubkey with
  | .panic s => .panic s
  | .err e => .err e
  | .ok false => .ok none
  | .ok true =>
    match o.value with
    | .explicit value =>
      match instructions false o.scriptPubkey with
      | .panic s => .panic s
      | .err e => .err e
      | .ok (is, e) =>
        -- skip OP_RETURN; genesis hash push of exactly 32 bytes; non-empty scriptpubkey push
        match is with
        | _ :: .push g :: .push spk :: rest =>
          if g.length ≠ 32 then .ok none
          else if spk.isEmpty then .ok none
          else
            match allPushes rest, e with
            | some extra, none => .ok (some ⟨value, o.asset, g, spk, extra⟩)
            | _, _ => .ok none
        | _ => .ok none
    | _ => .ok none

/-- the body of `TxOut::minimum_value` once `min_value = u64::from(is_op_return)` is known.
    Panic sites: `debug_assert!(prf.len() > 10)`, `prf[0]`, `&prf[2..10]`, `&prf[1..9]`;
    `deserialize::<u64>(8 bytes).expect(..)` cannot fail on a slice of exactly 8 bytes and
    `swap_bytes` turns the little-endian read into a big-endian one. -/
def minimumValueWith (minValue : Nat) (o : TxOut) : Res Nat :=
  match o.value with
  | .null => .ok minValue
  | .explicit n => .ok n
  | .conf _ =>
    match o.witness.rangeproof with
    | none => .ok minValue
    | some prf =>
      if ¬ prf.length > 10 then .panic "transaction.rs minimum_value debug_assert!(prf.len() > 10)" else
      match idx prf 0 "transaction.rs minimum_value prf[0]" with
      | .panic s => .panic s
      | .err e => .err e
      | .ok b0 =>
        if ¬ (b0.toNat &&& 32 = 32) then .ok minValue                 -- !has_min
        else
          -- has_nonzero_range selects where the 8 big-endian bytes of min_value start
          let off := if b0.toNat &&& 64 = 64 then 2 else 1
          match slice prf off (off + 8) "transaction.rs minimum_value &prf[2..10] / &prf[1..9]" with
          | .ok b =>
            if b.length = 8 then .ok (beNat b)
            else .panic "transaction.rs minimum_value expect(any 8 bytes is a u64)"
          | .err e => .err e
          | .panic s => .panic s

/-- `TxOut::minimum_value` -/
def minimumValue (o : TxOut) : Res Nat :=
  match isOpReturn o.scriptPubkey with
  | .panic s => .panic s
  | .err e => .err e
  | .ok opret => minimumValueWith (if opret then 1 else 0) o

/-! ### pegin data -/

structure PeginData where
  outpointTxid : Bytes
  outpointVout : Nat
  value : Nat
  asset : Bytes
  genesisHash : Bytes
  claimScript : Bytes
  tx : Bytes
  merkleProof : Bytes
  referencedBlock : Bytes
  deriving Repr, DecidableEq

/-- `PeginData::from_pegin_witness`; `sha256d` hashes the 80-byte header prefix of the merkle
    proof.  Order of checks as coded: element count, merkle proof length, then value (exactly 8
    bytes, `bitcoin::consensus::deserialize::<u64>`), asset (exactly 32), genesis hash (32). -/
def fromPeginWitness (sha256d : Bytes → Bytes) (w : List Bytes) (txid : Bytes) (vout : Nat) : Res PeginData :=
  if w.length ≠ 6 then .err "size not 6" else
  match idx w 5 "transaction.rs from_pegin_witness pegin_witness[5]" with
  | .panic s => .panic s
  | .err e => .err e
  | .ok w5 =>
    if w5.length < 80 then .err "merkle proof too short" else
    match idx w 0 "transaction.rs from_pegin_witness pegin_witness[0]",
          idx w 1 "transaction.rs from_pegin_witness pegin_witness[1]",
          idx w 2 "transaction.rs from_pegin_witness pegin_witness[2]",
          idx w 3 "transaction.rs from_pegin_witness pegin_witness[3]",
          idx w 4 "transaction.rs from_pegin_witness pegin_witness[4]" with
    | .ok w0, .ok w1, .ok w2, .ok w3, .ok w4 =>
      if w0.length ≠ 8 then .err "invalid value"
      else if w1.length ≠ 32 then .err "invalid asset"
      else if w2.length ≠ 32 then .err "invalid genesis hash"
      else .ok ⟨txid, vout, leNat w0, w1, w2, w3, w4, w5, sha256d (w5.take 80)⟩
    | .panic s, _, _, _, _ => .panic s
    | _, .panic s, _, _, _ => .panic s
    | _, _, .panic s, _, _ => .panic s
    | _, _, _, .panic s, _ => .panic s
    | _, _, _, _, .panic s => .panic s
    | .err e, _, _, _, _ => .err e
    | _, .err e, _, _, _ => .err e
    | _, _, .err e, _, _ => .err e
    | _, _, _, .err e, _ => .err e
    | _, _, _, _, .err e => .err e

/-- `TxIn::pegin_data`: `None` unless `is_pegin`; errors of the witness parser become `None` -/
def peginData (sha256d : Bytes → Bytes) (i : TxIn) : Res (Option PeginData) :=
  if i.isPegin then
    match fromPeginWitness sha256d i.witness.peginWitness i.previousOutput.txid i.previousOutput.vout with
    | .ok d => .ok (some d)
    | .err _ => .ok none
    | .panic s => .panic s
  else .ok none

/-! ### Schnorr signatures and taproot slices -/

/-- `SCHNORR_SIGNATURE_SIZE` of secp256k1 (a constant of the dependency, not of the repository) -/
def schnorrSignatureSize : Nat := 64

/-- `SchnorrSighashType::from_u8` (accepted bytes regenerated from src/sighash.rs) -/
def schnorrSighashOfU8 (b : UInt8) : Bool := EV.Gen.c10SchnorrSighashBytes.contains b.toNat

/-- `SchnorrSig::from_slice` → (64 signature bytes, sighash type byte).
    `schnorr::Signature::from_slice` only checks the length (64). -/
def schnorrSigFromSlice (sl : Bytes) : Res (Bytes × UInt8) :=
  if sl.length = schnorrSignatureSize then .ok (sl, 0)
  else
    match sl.getLast? with
    | none => .err "InvalidSchnorrSig"
    | some h =>
      if !schnorrSighashOfU8 h then .err "InvalidSighashType"
      else if sl.dropLast.length = schnorrSignatureSize then .ok (sl.dropLast, h)
      else .err "InvalidSchnorrSig"

/-- `LeafVersion::from_u8` -/
def leafVersionFromU8 (ver : UInt8) : Res UInt8 :=
  if ver.toNat &&& EV.Gen.c10TaprootLeafMask = ver.toNat ∧ ver.toNat ≠ EV.Gen.c10AnnexTag then .ok ver
  else .err "InvalidTaprootLeafVersion"

/-- `chunks_exact(32).map(|c| <&[u8;32]>::try_from(c).expect(..))`: `n` chunks -/
def chunks32 : Nat → Bytes → Res (List Bytes)
  | 0, _ => .ok []
  | n+1, bs =>
    let c := bs.take 32
    if c.length ≠ 32 then .panic "taproot.rs from_slice expect(need array_chunks in stdlib)" else
    match chunks32 n (bs.drop 32) with
    | .ok cs => .ok (c :: cs)
    | .err e => .err e
    | .panic s => .panic s

/-- `TaprootMerkleBranch::from_slice` -/
def merkleBranchFromSlice (sl : Bytes) : Res (List Bytes) :=
  if sl.length % EV.Gen.c10TaprootControlNodeSize ≠ 0 then .err "InvalidMerkleBranchSize"
  else if sl.length > EV.Gen.c10TaprootControlNodeSize * EV.Gen.c10TaprootControlMaxNodeCount then .err "InvalidMerkleTreeDepth"
  else chunks32 (sl.length / 32) sl

structure ControlBlock where
  leafVersion : UInt8
  outputKeyParity : Nat
  internalKey : Bytes
  merkleBranch : List Bytes
  deriving Repr, DecidableEq

/-- `ControlBlock::from_slice`; `xonly` = acceptance of `XOnlyPublicKey::from_slice` on 32 bytes -/
def controlBlockFromSlice (xonly : Bytes → Bool) (sl : Bytes) : Res ControlBlock :=
  let base := EV.Gen.c10TaprootControlBaseSize
  if sl.length < base ∨ (sl.length - base) % EV.Gen.c10TaprootControlNodeSize ≠ 0 then .err "InvalidControlBlockSize" else
  match idx sl 0 "taproot.rs ControlBlock::from_slice sl[0]" with
  | .panic s => .panic s
  | .err e => .err e
  | .ok b0 =>
    -- `Parity::from_u8(sl[0] & 1).expect(..)`: the argument is 0 or 1
    let parity := b0.toNat &&& 1
    if parity > 1 then .panic "taproot.rs ControlBlock::from_slice expect(Parity is a single bit)" else
    match leafVersionFromU8 (UInt8.ofNat (b0.toNat &&& EV.Gen.c10TaprootLeafMask)) with
    | .panic s => .panic s
    | .err e => .err e
    | .ok lv =>
      match slice sl 1 base "taproot.rs ControlBlock::from_slice &sl[1..33]" with
      | .panic s => .panic s
      | .err e => .err e
      | .ok key =>
        if !xonly key then .err "InvalidInternalKey" else
        match sliceFrom sl base "taproot.rs ControlBlock::from_slice &sl[33..]" with
        | .panic s => .panic s
        | .err e => .err e
        | .ok br =>
          match merkleBranchFromSlice br with
          | .ok mb => .ok ⟨lv, parity, key, mb⟩
          | .err e => .err e
          | .panic s => .panic s

/-! ### allocation requests of the consensus vector decoders (src/encode.rs)

  `Vec<u8>` allocates `vec![0; s]` and `Vec<T>` allocates `Vec::with_capacity(len)` *before* any
  element is read.  The ledger below records that single request, in bytes, for a given input. -/

/-- bytes requested by `impl Decodable for Vec<u8>` on input `bs` (`none`: nothing is allocated) -/
def allocBytesVec (bs : Bytes) : Option Nat :=
  match varint bs with
  | .ok (n, _) => if n > maxVecSize then none else some n
  | _ => none

/-- bytes requested by `impl Decodable for Vec<T>` (`size_of::<T>() = memSize`) on input `bs` -/
def allocVecOf (memSize : Nat) (bs : Bytes) : Option Nat :=
  match varint bs with
  | .ok (n, _) =>
    if n * memSize ≥ 2^64 then none
    else if n * memSize > maxVecSize then none
    else some (n * memSize)
  | _ => none

end EV.Acc
