/-
  EV.Model.PsetWire — the key-value wire format of a PSET map (src/pset/raw.rs, src/pset/macros.rs,
  the `insert_pair` / `get_pairs` / `Decodable` skeletons of src/pset/map/{global,input,output}.rs),
  generic in a FIELD TABLE.

  Raw layer.  `Key` = compact-size (key length + 1), type byte, key bytes; a length of 0 is the
  terminator (`Error::NoMorePairs`); `Pair` = key, then the value as `Vec<u8>`.  A map is a list of
  pairs followed by 0x00.

  Typed layer.  A map kind is described by a table of `Field`s (tag = type byte, or `(0xFC, "pset",
  subtype)`, or the two catch-alls: foreign proprietary keys and unknown types), each with a `Kind`:
    opt      unkeyed `Option<T>` (`impl_pset_insert_pair!` / `impl_pset_prop_insert_pair!`: key data
             must be empty, a second pair is `DuplicateKey`); also the mandatory unkeyed fields
    optLast  unkeyed, a later pair silently replaces an earlier one (no field of the current tables:
             `Global::elements_tx_modifiable_flag` behaved like this until fix 26c1a9b in /repo)
    map      `BTreeMap<K, V>` (key data non-empty, key and value deserialized, occupied entry =
             `DuplicateKey`)
    keyList  `Vec<K>` filled in arrival order from pairs with an empty value (only `Global::scalars`)
  The state of a map being decoded is one `Slot` (association list of serialized key ↦ canonical
  serialized value) per table entry.  `insertPair` routes a raw pair to its slot, `getPairs` lists the
  slots in TABLE ORDER (= the emission order of `get_pairs`), a `map` slot in the order of its key
  type's `Ord` (`Field.keyLt`).

  Decision order.  The real decoders interleave reading a pair and inserting it and stop at the first
  failure; here all pairs are read first (`decPairs`) and then inserted.  Both fail on exactly the
  same inputs; only the error *variant* reported for an input with several defects can differ, and
  the correspondence check identifies all errors.  None of these paths can panic.
-/
import EV.Model.Codec
import EV.Model.PsetMap
import EV.Gen.Consts
namespace EV.PsetWire
open EV EV.Codec

structure RawKey where
  ty : UInt8
  key : Bytes
  deriving Repr, DecidableEq

abbrev Pair := RawKey × Bytes

/-- `impl Encodable for raw::Key` -/
def encKey (k : RawKey) : Bytes := encVarint (k.key.length + 1) ++ k.ty :: k.key
/-- `impl Encodable for raw::Pair` -/
def encPair (p : Pair) : Bytes := encKey p.1 ++ encBytesVec p.2
/-- a whole map: the pairs, then the 0x00 separator (`impl_psetmap_consensus_encoding!`) -/
def encPairs (ps : List Pair) : Bytes := ps.flatMap encPair ++ [0]

/-- `impl Decodable for raw::Key`; `none` = `NoMorePairs` -/
def decKey : Dec (Option RawKey) := fun bs =>
  match varint bs with
  | .ok (n, r) =>
    if n = 0 then .ok (none, r)
    else if n - 1 > maxVecSize then .err "oversized vector"
    else
      match r with
      | [] => .err "eof"
      | t :: r' =>
        match take (n - 1) r' with
        | .ok (k, r'') => .ok (some ⟨t, k⟩, r'')
        | .err e => .err e
        | .panic s => .panic s
  | .err e => .err e
  | .panic s => .panic s

/-- the `loop { match raw::Pair::consensus_decode … }` of the three map decoders; `fuel` bounds the
    number of pairs (a pair takes at least one byte: `decMapRaw` passes the input length + 1) -/
def decPairs : Nat → Dec (List Pair)
  | 0, _ => .err "fuel"
  | fuel + 1, bs =>
    match decKey bs with
    | .ok (none, r) => .ok ([], r)
    | .ok (some k, r) =>
      match bytesVec r with
      | .ok (v, r') =>
        match decPairs fuel r' with
        | .ok (ps, r'') => .ok ((k, v) :: ps, r'')
        | .err e => .err e
        | .panic s => .panic s
      | .err e => .err e
      | .panic s => .panic s
    | .err e => .err e
    | .panic s => .panic s

def decMapRaw : Dec (List Pair) := fun bs => decPairs (bs.length + 1) bs

/-! ### proprietary keys -/

/-- the byte `0xFC` -/
def propType : UInt8 := UInt8.ofNat Gen.PsetWire.proprietaryType
/-- `"pset"` -/
def psetPrefix : Bytes := Gen.PsetWire.psetPrefix.map UInt8.ofNat

/-- `impl Encodable for ProprietaryKey`: prefix as `Vec<u8>`, subtype, key bytes to the end -/
def encPropKey (pfx : Bytes) (sub : UInt8) (k : Bytes) : Bytes := encBytesVec pfx ++ sub :: k

/-- `ProprietaryKey::from_key` on the key data (`deserialize`: prefix, subtype, `read_to_end`) -/
def decPropKey (b : Bytes) : Option (Bytes × UInt8 × Bytes) :=
  match bytesVec b with
  | .ok (pfx, sub :: k) => some (pfx, sub, k)
  | _ => none

/-! ### field tables -/

inductive Tag where
  /-- a key type byte of its own -/
  | plain (ty : UInt8)
  /-- type 0xFC, prefix `"pset"`, this subtype -/
  | pset (sub : UInt8)
  /-- every other proprietary key: the `proprietary` map, keyed by the serialized `ProprietaryKey` -/
  | propAny
  /-- every other type byte: the `unknown` map, keyed by `type byte ‖ key data` -/
  | unkAny
  deriving Repr, DecidableEq

inductive Kind where
  | opt | optLast | map | keyList
  deriving Repr, DecidableEq

structure Field where
  name : String
  tag : Tag
  kind : Kind
  /-- acceptance of the (inner) key data by the key type's `Deserialize` (`map`, `keyList`) -/
  validKey : Bytes → Bool
  /-- `Deserialize` then `Serialize` of the value: `none` = rejected, `some c` = the canonical value
      bytes held in memory; may depend on the key (hash preimage maps) -/
  normVal : Bytes → Bytes → Option Bytes
  /-- `Ord` of the key type, on serialized keys (emission order of a `map`) -/
  keyLt : Bytes → Bytes → Bool

/-- serialized key ↦ canonical serialized value -/
abbrev Slot := List (Bytes × Bytes)

def findTag : List Field → Tag → Option Nat
  | [], _ => none
  | f :: fs, t => if f.tag = t then some 0 else (findTag fs t).map (· + 1)

/-- routing of a raw key (the outer `match raw_key.type_value` and the inner proprietary match):
    slot index and the key under which the pair is stored -/
def classify (T : List Field) (k : RawKey) : Res (Nat × Bytes) :=
  if k.ty = propType then
    match decPropKey k.key with
    | none => .err "InvalidProprietaryKey"
    | some (pfx, sub, ik) =>
      match (if pfx = psetPrefix then findTag T (.pset sub) else none) with
      | some i => .ok (i, ik)
      | none =>
        match findTag T .propAny with
        | some i => .ok (i, k.key)
        | none => .err "no proprietary map"
  else
    match findTag T (.plain k.ty) with
    | some i => .ok (i, k.key)
    | none =>
      match findTag T .unkAny with
      | some i => .ok (i, k.ty :: k.key)
      | none => .err "no unknown map"

/-- one arm of `insert_pair` -/
def Field.insert (f : Field) (s : Slot) (k v : Bytes) : Res Slot :=
  match f.kind with
  | .opt =>
    if k ≠ [] then .err "InvalidKey"
    else if s ≠ [] then .err "DuplicateKey"
    else
      match f.normVal [] v with
      | some c => .ok [([], c)]
      | none => .err "value"
  | .optLast =>
    if k ≠ [] then .err "InvalidKey"
    else
      match f.normVal [] v with
      | some c => .ok [([], c)]
      | none => .err "value"
  | .map =>
    if k = [] then .err "InvalidKey"
    else if f.validKey k = false then .err "key"
    else if (KV.lookup k s).isSome then .err "DuplicateKey"
    else
      match f.normVal k v with
      | some c => .ok (KV.insert k c s)
      | none => .err "value"
  | .keyList =>
    if f.validKey k = false then .err "InvalidKey"
    else if (KV.lookup k s).isSome then .err "DuplicateKey"
    else
      match f.normVal k v with
      | some c => .ok (s ++ [(k, c)])
      | none => .err "InvalidKey"

/-- `insert_pair` -/
def insertPair (T : List Field) (st : List Slot) (p : Pair) : Res (List Slot) :=
  match classify T p.1 with
  | .ok (i, ik) =>
    match T[i]?, st[i]? with
    | some f, some s =>
      match f.insert s ik p.2 with
      | .ok s' => .ok (st.set i s')
      | .err e => .err e
      | .panic m => .panic m
    | _, _ => .err "slot"
  | .err e => .err e
  | .panic m => .panic m

def insertAll (T : List Field) : List Slot → List Pair → Res (List Slot)
  | st, [] => .ok st
  | st, p :: ps =>
    match insertPair T st p with
    | .ok st' => insertAll T st' ps
    | .err e => .err e
    | .panic m => .panic m

def emptySlots (T : List Field) : List Slot := T.map (fun _ => [])

/-- the pair-reading loop of a map decoder -/
def decMap (T : List Field) : Dec (List Slot) := fun bs =>
  match decMapRaw bs with
  | .ok (ps, r) =>
    match insertAll T (emptySlots T) ps with
    | .ok st => .ok (st, r)
    | .err e => .err e
    | .panic m => .panic m
  | .err e => .err e
  | .panic m => .panic m

/-! ### emission -/

def rawKeyOf (t : Tag) (k : Bytes) : RawKey :=
  match t with
  | .plain ty => ⟨ty, k⟩
  | .pset sub => ⟨propType, encPropKey psetPrefix sub k⟩
  | .propAny => ⟨propType, k⟩
  | .unkAny => ⟨k.headD 0, k.tail⟩

/-- insertion sort by a comparison on the keys (iteration order of a `BTreeMap`) -/
def insertBy (lt : Bytes → Bytes → Bool) (x : Bytes × Bytes) : Slot → Slot
  | [] => [x]
  | y :: r => if lt y.1 x.1 then y :: insertBy lt x r else x :: y :: r

def sortBy (lt : Bytes → Bytes → Bool) (s : Slot) : Slot := s.foldr (insertBy lt) []

def Field.order (f : Field) (s : Slot) : Slot :=
  match f.kind with
  | .map => sortBy f.keyLt s
  | _ => s

def Field.emit (f : Field) (s : Slot) : List Pair := (f.order s).map (fun kv => (rawKeyOf f.tag kv.1, kv.2))

/-- `get_pairs` -/
def getPairs : List Field → List Slot → List Pair
  | f :: fs, s :: ss => f.emit s ++ getPairs fs ss
  | _, _ => []

/-- `consensus_encode` of a map -/
def encMap (T : List Field) (st : List Slot) : Bytes := encPairs (getPairs T st)

/-! ### conversions between slots and record fields -/

namespace Slot
def ofOpt : Option Bytes → Slot
  | none => []
  | some b => [([], b)]
def toOpt : Slot → Option Bytes
  | [] => none
  | kv :: _ => some kv.2
def ofOptN (w : Nat) (o : Option Nat) : Slot := ofOpt (o.map (leBytes w))
def toOptN (s : Slot) : Option Nat := (toOpt s).map leNat
/-- a witness stack is held as `List Bytes`; its value bytes are the consensus encoding -/
def ofOptL (o : Option (List Bytes)) : Slot := ofOpt (o.map encBytesVecVec)
def stackOf (b : Bytes) : List Bytes :=
  match bytesVecVec b with
  | .ok (l, _) => l
  | _ => []
def toOptL (s : Slot) : Option (List Bytes) := (toOpt s).map stackOf
def ofKeys (l : List Bytes) : Slot := l.map (fun k => (k, []))
def toKeys (s : Slot) : List Bytes := s.map Prod.fst
end Slot

end EV.PsetWire
