/-
  EV.Model.Sha256 — executable SHA-256 with the compression function exposed
  (needed for Elements' midstate merkle trees).  Theorems never unfold this: in
  all property statements hashes are parameters.  Used by the driver only.
-/
import EV.Model.Bytes
namespace EV.Sha256

def K : Array UInt32 := #[
  0x428a2f98, 0x71374491, 0xb5c0fbcf, 0xe9b5dba5, 0x3956c25b, 0x59f111f1, 0x923f82a4, 0xab1c5ed5,
  0xd807aa98, 0x12835b01, 0x243185be, 0x550c7dc3, 0x72be5d74, 0x80deb1fe, 0x9bdc06a7, 0xc19bf174,
  0xe49b69c1, 0xefbe4786, 0x0fc19dc6, 0x240ca1cc, 0x2de92c6f, 0x4a7484aa, 0x5cb0a9dc, 0x76f988da,
  0x983e5152, 0xa831c66d, 0xb00327c8, 0xbf597fc7, 0xc6e00bf3, 0xd5a79147, 0x06ca6351, 0x14292967,
  0x27b70a85, 0x2e1b2138, 0x4d2c6dfc, 0x53380d13, 0x650a7354, 0x766a0abb, 0x81c2c92e, 0x92722c85,
  0xa2bfe8a1, 0xa81a664b, 0xc24b8b70, 0xc76c51a3, 0xd192e819, 0xd6990624, 0xf40e3585, 0x106aa070,
  0x19a4c116, 0x1e376c08, 0x2748774c, 0x34b0bcb5, 0x391c0cb3, 0x4ed8aa4a, 0x5b9cca4f, 0x682e6ff3,
  0x748f82ee, 0x78a5636f, 0x84c87814, 0x8cc70208, 0x90befffa, 0xa4506ceb, 0xbef9a3f7, 0xc67178f2]

def IV : Array UInt32 := #[
  0x6a09e667, 0xbb67ae85, 0x3c6ef372, 0xa54ff53a, 0x510e527f, 0x9b05688c, 0x1f83d9ab, 0x5be0cd19]

@[inline] def rotr (x : UInt32) (n : UInt32) : UInt32 := (x >>> n) ||| (x <<< (32 - n))

/-- One application of the compression function to a 64-byte block (given as array). -/
def compress (st : Array UInt32) (blk : Array UInt8) (off : Nat) : Array UInt32 := Id.run do
  let mut w : Array UInt32 := Array.replicate 64 0
  for i in [0:16] do
    let b0 := (blk[off + 4*i]!).toUInt32
    let b1 := (blk[off + 4*i+1]!).toUInt32
    let b2 := (blk[off + 4*i+2]!).toUInt32
    let b3 := (blk[off + 4*i+3]!).toUInt32
    w := w.set! i ((b0 <<< 24) ||| (b1 <<< 16) ||| (b2 <<< 8) ||| b3)
  for i in [16:64] do
    let w15 := w[i-15]!
    let w2 := w[i-2]!
    let s0 := rotr w15 7 ^^^ rotr w15 18 ^^^ (w15 >>> 3)
    let s1 := rotr w2 17 ^^^ rotr w2 19 ^^^ (w2 >>> 10)
    w := w.set! i (w[i-16]! + s0 + w[i-7]! + s1)
  let mut a := st[0]!
  let mut b := st[1]!
  let mut c := st[2]!
  let mut d := st[3]!
  let mut e := st[4]!
  let mut f := st[5]!
  let mut g := st[6]!
  let mut h := st[7]!
  for i in [0:64] do
    let s1 := rotr e 6 ^^^ rotr e 11 ^^^ rotr e 25
    let ch := (e &&& f) ^^^ ((~~~ e) &&& g)
    let t1 := h + s1 + ch + K[i]! + w[i]!
    let s0 := rotr a 2 ^^^ rotr a 13 ^^^ rotr a 22
    let mj := (a &&& b) ^^^ (a &&& c) ^^^ (b &&& c)
    let t2 := s0 + mj
    h := g; g := f; f := e; e := d + t1; d := c; c := b; b := a; a := t1 + t2
  return #[st[0]! + a, st[1]! + b, st[2]! + c, st[3]! + d, st[4]! + e, st[5]! + f, st[6]! + g, st[7]! + h]

def stateBytes (st : Array UInt32) : Bytes :=
  st.toList.flatMap fun (w : UInt32) =>
    [(w >>> 24).toUInt8, (w >>> 16).toUInt8, (w >>> 8).toUInt8, w.toUInt8]

def pad (len : Nat) : List UInt8 :=
  let zeros := (119 - len % 64) % 64
  let bitlen := len * 8
  (0x80 : UInt8) :: (List.replicate zeros 0 ++ beBytes 8 bitlen)

def sha256 (msg : Bytes) : Bytes := Id.run do
  let arr : Array UInt8 := (msg ++ pad msg.length).toArray
  let mut st := IV
  for i in [0:arr.size / 64] do
    st := compress st arr (64*i)
  return stateBytes st

def sha256d (msg : Bytes) : Bytes := sha256 (sha256 msg)

/-- SHA-256 midstate after exactly one 64-byte block `l ++ r` from the initial state. -/
def midstate (l r : Bytes) : Bytes :=
  let arr : Array UInt8 := (l ++ r).toArray
  if arr.size = 64 then stateBytes (compress IV arr 0) else []

/-- BIP340-style tagged hash: sha256(sha256(tag) ‖ sha256(tag) ‖ msg). -/
def tagged (tag : String) (msg : Bytes) : Bytes :=
  let t := sha256 tag.toUTF8.toList
  sha256 (t ++ t ++ msg)

end EV.Sha256
