/-
  EV.Model.Bytes — byte strings as `List UInt8`, hex, little/big-endian integers.
  Core Lean only (no Mathlib) so the driver links as a native executable.
-/
namespace EV

abbrev Bytes := List UInt8

/-- Outcome of a modelled fallible Rust API: value, error (with a class used only
    for reporting), or a panic at a named site. -/
inductive Res (α : Type) where
  | ok (a : α)
  | err (k : String)
  | panic (site : String)
  deriving Repr, DecidableEq

namespace Res
def bind {α β} (r : Res α) (f : α → Res β) : Res β :=
  match r with
  | .ok a => f a
  | .err k => .err k
  | .panic s => .panic s
def map {α β} (f : α → β) (r : Res α) : Res β := r.bind (fun a => .ok (f a))
instance : Monad Res where
  pure := .ok
  bind := Res.bind
def isOk {α} : Res α → Bool | .ok _ => true | _ => false
def isPanic {α} : Res α → Bool | .panic _ => true | _ => false
end Res

namespace Hex
def digit (n : Nat) : Char :=
  if n < 10 then Char.ofNat (48 + n) else Char.ofNat (87 + n)

def ofByte (b : UInt8) : List Char := [digit (b.toNat / 16), digit (b.toNat % 16)]

def encode (bs : Bytes) : String := String.ofList (bs.flatMap ofByte)

def nib (c : Char) : Option Nat :=
  let n := c.toNat
  if 48 ≤ n ∧ n ≤ 57 then some (n - 48)
  else if 97 ≤ n ∧ n ≤ 102 then some (n - 87)
  else if 65 ≤ n ∧ n ≤ 70 then some (n - 55)
  else none

def decodeChars : List Char → Option Bytes
  | [] => some []
  | [_] => none
  | a :: b :: rest =>
    match nib a, nib b, decodeChars rest with
    | some x, some y, some r => some (UInt8.ofNat (x * 16 + y) :: r)
    | _, _, _ => none

/-- "-" denotes the empty byte string on the wire protocol. -/
def decode (s : String) : Option Bytes :=
  if s == "-" then some [] else decodeChars s.toList

def enc (bs : Bytes) : String := if bs.isEmpty then "-" else encode bs
end Hex

/-- little-endian encoding of `n` into exactly `k` bytes (truncating). -/
def leBytes : Nat → Nat → Bytes
  | 0, _ => []
  | k+1, n => UInt8.ofNat (n % 256) :: leBytes k (n / 256)

def leNat : Bytes → Nat
  | [] => 0
  | b :: rest => b.toNat + 256 * leNat rest

def beBytes (k n : Nat) : Bytes := (leBytes k n).reverse
def beNat (bs : Bytes) : Nat := leNat bs.reverse

end EV
