/-
  EV.Model.Taproot — taproot script trees (src/taproot.rs, src/schnorr.rs):
  tagged leaf / branch / tweak hashes, `NodeInfo::combine`, `TaprootBuilder` (depth-first
  insertion with eager combination), `TaprootSpendInfo` (script map, control blocks, output key),
  `ControlBlock` encode / decode / size / `verify_taproot_commitment`, and the Huffman
  construction `TaprootSpendInfo::with_huffman_tree`.

  Hashes (`TapHashes`) and elliptic-curve operations (`EC`) are parameters.

  Representation note: the builder's `branch : Vec<Option<NodeInfo>>` is kept REVERSED
  (head of the list = `branch.last()`, i.e. the deepest level; the root level is the last
  element).  `Vec::pop`/`push` are therefore head operations and `branch[depth]` is the element
  at list index `len - 1 - depth`.
-/
import EV.Model.Codec
import EV.Gen.Consts
namespace EV.Taproot
open EV EV.Codec

/-- `TAPROOT_CONTROL_MAX_NODE_COUNT` -/
def maxDepth : Nat := Gen.Taproot.controlMaxNodeCount
/-- `TAPROOT_CONTROL_NODE_SIZE` -/
def nodeSize : Nat := Gen.Taproot.controlNodeSize
/-- `TAPROOT_CONTROL_BASE_SIZE` -/
def baseSize : Nat := Gen.Taproot.controlBaseSize
/-- `TAPROOT_LEAF_MASK` -/
def leafMask : Nat := Gen.Taproot.leafMask
/-- the annex tag excluded by `LeafVersion::from_u8` -/
def annexTag : Nat := Gen.Taproot.annexTag
/-- `TAPROOT_LEAF_TAPSCRIPT` = `LeafVersion::default()` -/
def tapscriptVer : UInt8 := UInt8.ofNat Gen.Taproot.leafTapscript

/-- the three tagged hashes (`sha256t` with the `/elements` tags), as parameters -/
structure TapHashes where
  /-- `TapLeafHash`: tagged hash over `ver ‖ compact_size(script) ‖ script` -/
  leaf : Bytes → Bytes
  /-- `TapNodeHash` (TapBranch tag) over the 64-byte sorted pair -/
  branch : Bytes → Bytes
  /-- `TapTweakHash` over `internal_key ‖ merkle_root?` -/
  tweak : Bytes → Bytes

/-- elliptic-curve primitives of libsecp256k1, as parameters -/
structure EC where
  /-- `XOnlyPublicKey::from_slice` acceptance -/
  xonlyOk : Bytes → Bool
  /-- `Scalar::from_be_bytes` acceptance (value below the group order) -/
  scalarOk : Bytes → Bool
  /-- `XOnlyPublicKey::add_tweak internal tweak`: tweaked x-only key and its parity (true = odd) -/
  tweakAdd : Bytes → Bytes → Option (Bytes × Bool)
  /-- `XOnlyPublicKey::tweak_add_check internal tweaked parity tweak` -/
  tweakAddCheck : Bytes → Bytes → Bool → Bytes → Bool

/-- lexicographic `<` on byte strings (`Ord` of `[u8; 32]` / slices) -/
def bytesLt : Bytes → Bytes → Bool
  | [], [] => false
  | [], _ :: _ => true
  | _ :: _, [] => false
  | a :: as, b :: bs => if a < b then true else if b < a then false else bytesLt as bs

/-- preimage of the leaf hash: `ver.consensus_encode ‖ script.consensus_encode` -/
def leafPreimage (script : Bytes) (ver : UInt8) : Bytes := ver :: encBytesVec script

/-- `TapLeafHash::from_script` -/
def leafHash (H : TapHashes) (script : Bytes) (ver : UInt8) : Bytes := H.leaf (leafPreimage script ver)

/-- the 64-byte preimage of a branch hash: smaller hash first -/
def sortedPair (a b : Bytes) : Bytes := if bytesLt a b then a ++ b else b ++ a

/-- branch hash of two child hashes (`NodeInfo::combine`, `verify_taproot_commitment`) -/
def branchHash (H : TapHashes) (a b : Bytes) : Bytes := H.branch (sortedPair a b)

/-- `TapTweakHash::from_key_and_tweak` -/
def tweakHash (H : TapHashes) (key : Bytes) (root : Option Bytes) : Bytes :=
  H.tweak (key ++ root.getD [])

/-- `LeafVersion::from_u8` acceptance: low bit clear and not the annex tag -/
def leafVersionOk (v : UInt8) : Bool := (v.toNat &&& leafMask == v.toNat) && v.toNat != annexTag

/-! ### script trees -/

inductive Item where
  | leaf (script : Bytes) (ver : UInt8)
  | hidden (hash : Bytes)
  deriving Repr, DecidableEq

inductive Tree where
  | leaf (script : Bytes) (ver : UInt8)
  | hidden (hash : Bytes)
  | node (l r : Tree)
  deriving Repr, DecidableEq

namespace Tree
/-- the merkle root with sorted-pair branch hashing -/
def merkleRoot (H : TapHashes) : Tree → Bytes
  | leaf s v => leafHash H s v
  | hidden h => h
  | node l r => branchHash H (merkleRoot H l) (merkleRoot H r)

/-- depth-first listing (left before right) of leaves / hidden nodes with their depths -/
def dfs : Tree → Nat → List (Nat × Item)
  | leaf s v, d => [(d, .leaf s v)]
  | hidden h, d => [(d, .hidden h)]
  | node l r, d => dfs l (d + 1) ++ dfs r (d + 1)

def height : Tree → Nat
  | leaf _ _ => 0
  | hidden _ => 0
  | node l r => max (height l) (height r) + 1

/-- every leaf version passes `LeafVersion::from_u8`, every hidden hash has 32 bytes -/
def wf : Tree → Prop
  | leaf _ v => leafVersionOk v = true
  | hidden h => h.length = 32
  | node l r => wf l ∧ wf r

def noHidden : Tree → Bool
  | leaf _ _ => true
  | hidden _ => false
  | node l r => noHidden l && noHidden r
end Tree

/-! ### NodeInfo / LeafInfo -/

structure LeafInfo where
  script : Bytes
  ver : UInt8
  /-- `merkle_branch`: hashing partners, bottom-up -/
  branch : List Bytes
  deriving Repr, DecidableEq

structure NodeInfo where
  hash : Bytes
  leaves : List LeafInfo
  deriving Repr, DecidableEq

/-- `NodeInfo::new_hidden` -/
def newHidden (h : Bytes) : NodeInfo := ⟨h, []⟩
/-- `NodeInfo::new_leaf_with_ver` -/
def newLeaf (H : TapHashes) (s : Bytes) (v : UInt8) : NodeInfo := ⟨leafHash H s v, [⟨s, v, []⟩]⟩

/-- `TaprootMerkleBranch::push` -/
def pushBranch (h : Bytes) (l : LeafInfo) : Res LeafInfo :=
  if l.branch.length ≥ maxDepth then .err "InvalidMerkleTreeDepth"
  else .ok { l with branch := l.branch ++ [h] }

def pushAll (h : Bytes) : List LeafInfo → Res (List LeafInfo)
  | [] => .ok []
  | l :: ls =>
    match pushBranch h l with
    | .ok l' =>
      match pushAll h ls with
      | .ok ls' => .ok (l' :: ls')
      | .err e => .err e
      | .panic s => .panic s
    | .err e => .err e
    | .panic s => .panic s

/-- `NodeInfo::combine` -/
def combine (H : TapHashes) (a b : NodeInfo) : Res NodeInfo :=
  match pushAll b.hash a.leaves with
  | .ok la =>
    match pushAll a.hash b.leaves with
    | .ok lb => .ok ⟨branchHash H a.hash b.hash, la ++ lb⟩
    | .err e => .err e
    | .panic s => .panic s
  | .err e => .err e
  | .panic s => .panic s

/-- the `NodeInfo` a tree denotes: its root hash and, for every leaf in depth-first order, the
    sibling hashes from the leaf up to the root -/
def info (H : TapHashes) : Tree → NodeInfo
  | .leaf s v => newLeaf H s v
  | .hidden h => newHidden h
  | .node l r =>
    ⟨branchHash H (info H l).hash (info H r).hash,
     (info H l).leaves.map (fun x => { x with branch := x.branch ++ [(info H r).hash] }) ++
     (info H r).leaves.map (fun x => { x with branch := x.branch ++ [(info H l).hash] })⟩

/-! ### TaprootBuilder -/

/-- reversed `branch` (see the representation note) -/
abbrev Builder := List (Option NodeInfo)

/-- the `while self.branch.len() == depth + 1` loop of `insert` -/
def combineLoop (H : TapHashes) : Builder → NodeInfo → Nat → Res (Builder × NodeInfo × Nat)
  | [], node, depth => .ok ([], node, depth)
  | none :: rest, node, depth => .ok (none :: rest, node, depth)
  | some child :: rest, node, depth =>
    if rest.length + 1 = depth + 1 then
      if depth = 0 then .err "OverCompleteTree"
      else
        match combine H child node with
        | .ok n => combineLoop H rest n (depth - 1)
        | .err e => .err e
        | .panic s => .panic s
    else .ok (some child :: rest, node, depth)

/-- `TaprootBuilder::insert` -/
def insert (H : TapHashes) (b : Builder) (node : NodeInfo) (depth : Nat) : Res Builder :=
  if depth > maxDepth then .err "InvalidMerkleTreeDepth"
  else if depth + 1 < b.length then .err "NodeNotInDfsOrder"
  else
    match combineLoop H b node depth with
    | .ok (b', node', depth') =>
      let b'' := if b'.length < depth' + 1 then List.replicate (depth' + 1 - b'.length) none ++ b' else b'
      if depth' < b''.length then .ok (b''.set (b''.length - 1 - depth') (some node'))
      else .panic "branch[depth] out of bounds"
    | .err e => .err e
    | .panic s => .panic s

/-- `add_leaf_with_ver` / `add_hidden` -/
def addItem (H : TapHashes) (b : Builder) (depth : Nat) : Item → Res Builder
  | .leaf s v => insert H b (newLeaf H s v) depth
  | .hidden h => insert H b (newHidden h) depth

def addAll (H : TapHashes) : Builder → List (Nat × Item) → Res Builder
  | b, [] => .ok b
  | b, (d, it) :: rest =>
    match addItem H b d it with
    | .ok b' => addAll H b' rest
    | .err e => .err e
    | .panic s => .panic s

/-- `is_complete` -/
def isComplete : Builder → Bool
  | [some _] => true
  | _ => false

/-- the node handed to `from_node_info` by `finalize` -/
def finalizeNode (b : Builder) : Res NodeInfo :=
  if b.length > 1 then .err "IncompleteTree"
  else
    match b with
    | [] => .err "EmptyTree"
    | none :: _ => .panic "Builder invariant: last element of the branch must be some"
    | some n :: _ => .ok n

/-- build from a listing and finalize -/
def buildTree (H : TapHashes) (items : List (Nat × Item)) : Res NodeInfo :=
  match addAll H [] items with
  | .ok b => finalizeNode b
  | .err e => .err e
  | .panic s => .panic s

/-! ### TaprootSpendInfo -/

structure SpendInfo where
  internalKey : Bytes
  merkleRoot : Option Bytes
  parity : Bool
  outputKey : Bytes
  /-- `BTreeMap<(Script, LeafVersion), BTreeSet<TaprootMerkleBranch>>` as an association list
      without duplicate keys / duplicate branches (order is not observable except through
      `control_block`, which is modelled by `pickBranch`) -/
  scriptMap : List ((Bytes × UInt8) × List (List Bytes))
  deriving Repr, DecidableEq

/-- `UntweakedPublicKey::tap_tweak` (the `debug_assert!` is active in the harness profile) -/
def tapTweak (E : EC) (H : TapHashes) (key : Bytes) (root : Option Bytes) : Res (Bytes × Bool) :=
  let t := tweakHash H key root
  if !E.scalarOk t then .panic "hash value greater than curve order"
  else
    match E.tweakAdd key t with
    | none => .panic "Tap tweak failed"
    | some (q, par) =>
      if !E.tweakAddCheck key q par t then .panic "debug_assert tweak_add_check" else .ok (q, par)

/-- `TaprootSpendInfo::new_key_spend` -/
def newKeySpend (E : EC) (H : TapHashes) (key : Bytes) (root : Option Bytes) : Res SpendInfo :=
  match tapTweak E H key root with
  | .ok (q, par) => .ok ⟨key, root, par, q, []⟩
  | .err e => .err e
  | .panic s => .panic s

/-- insert one branch into the script map (`BTreeSet::insert` semantics) -/
def mapInsert (k : Bytes × UInt8) (br : List Bytes) :
    List ((Bytes × UInt8) × List (List Bytes)) → List ((Bytes × UInt8) × List (List Bytes))
  | [] => [(k, [br])]
  | (k', s) :: rest =>
    if k' = k then (k', if br ∈ s then s else s ++ [br]) :: rest
    else (k', s) :: mapInsert k br rest

def mapOfLeaves (ls : List LeafInfo) : List ((Bytes × UInt8) × List (List Bytes)) :=
  ls.foldl (fun m l => mapInsert (l.script, l.ver) l.branch m) []

/-- `TaprootSpendInfo::from_node_info` -/
def fromNodeInfo (E : EC) (H : TapHashes) (key : Bytes) (node : NodeInfo) : Res SpendInfo :=
  match newKeySpend E H key (some node.hash) with
  | .ok si => .ok { si with scriptMap := mapOfLeaves node.leaves }
  | .err e => .err e
  | .panic s => .panic s

/-- `a` is chosen over `b` by `iter().min_by(len)` on the ordered set: strictly shorter, or the
    same length and earlier in the `BTreeSet` order (lexicographic on the hashes) -/
def branchBetter (a b : List Bytes) : Bool :=
  a.length < b.length || (a.length == b.length && bytesLt a.flatten b.flatten)

def pickBranch : List (List Bytes) → Option (List Bytes)
  | [] => none
  | b :: rest =>
    match pickBranch rest with
    | none => some b
    | some c => if branchBetter c b then some c else some b

structure ControlBlock where
  leafVersion : UInt8
  /-- `output_key_parity` (true = odd) -/
  parity : Bool
  internalKey : Bytes
  branch : List Bytes
  deriving Repr, DecidableEq

def lookupKey (k : Bytes × UInt8) : List ((Bytes × UInt8) × List (List Bytes)) → Option (List (List Bytes))
  | [] => none
  | (k', s) :: rest => if k' = k then some s else lookupKey k rest

/-- `TaprootSpendInfo::control_block`: outer `none` = panic (`expect` on an empty set) -/
def controlBlock (si : SpendInfo) (script : Bytes) (ver : UInt8) : Option (Option ControlBlock) :=
  match lookupKey (script, ver) si.scriptMap with
  | none => some none
  | some set =>
    match pickBranch set with
    | none => none
    | some br => some (some ⟨ver, si.parity, si.internalKey, br⟩)

/-! ### ControlBlock -/

namespace ControlBlock
def wf (E : EC) (cb : ControlBlock) : Prop :=
  leafVersionOk cb.leafVersion = true ∧ cb.internalKey.length = 32 ∧ E.xonlyOk cb.internalKey = true ∧
  cb.branch.length ≤ maxDepth ∧ ∀ h ∈ cb.branch, h.length = nodeSize

/-- `ControlBlock::size` -/
def size (cb : ControlBlock) : Nat := baseSize + nodeSize * cb.branch.length

/-- `ControlBlock::serialize` -/
def encode (cb : ControlBlock) : Bytes :=
  UInt8.ofNat ((if cb.parity then 1 else 0) ||| cb.leafVersion.toNat) :: (cb.internalKey ++ cb.branch.flatten)

/-- `chunks_exact(32)` on a slice whose length is a multiple of 32 -/
def chunks : Nat → Bytes → List Bytes
  | 0, _ => []
  | n + 1, bs => bs.take nodeSize :: chunks n (bs.drop nodeSize)

/-- `TaprootMerkleBranch::from_slice` -/
def branchFromSlice (sl : Bytes) : Res (List Bytes) :=
  if sl.length % nodeSize != 0 then .err "InvalidMerkleBranchSize"
  else if sl.length > nodeSize * maxDepth then .err "InvalidMerkleTreeDepth"
  else .ok (chunks (sl.length / nodeSize) sl)

/-- `ControlBlock::from_slice` -/
def decode (E : EC) (sl : Bytes) : Res ControlBlock :=
  if sl.length < baseSize || (sl.length - baseSize) % nodeSize != 0 then .err "InvalidControlBlockSize"
  else
    match sl with
    | [] => .panic "sl[0]"
    | b0 :: rest =>
      let parity := b0.toNat &&& 1 == 1
      let ver := UInt8.ofNat (b0.toNat &&& leafMask)
      if !leafVersionOk ver then .err "InvalidTaprootLeafVersion"
      else
        let key := rest.take (baseSize - 1)
        if !(key.length == 32 && E.xonlyOk key) then .err "InvalidInternalKey"
        else
          match branchFromSlice (rest.drop (baseSize - 1)) with
          | .ok br => .ok ⟨ver, parity, key, br⟩
          | .err e => .err e
          | .panic s => .panic s

/-- the root recomputed by `verify_taproot_commitment` -/
def computeRoot (H : TapHashes) (script : Bytes) (ver : UInt8) (branch : List Bytes) : Bytes :=
  branch.foldl (fun cur e => branchHash H cur e) (leafHash H script ver)

/-- `ControlBlock::verify_taproot_commitment` -/
def verify (E : EC) (H : TapHashes) (cb : ControlBlock) (outputKey script : Bytes) : Res Bool :=
  let root := computeRoot H script cb.leafVersion cb.branch
  let t := tweakHash H cb.internalKey (some root)
  if !E.scalarOk t then .panic "hash value greater than curve order"
  else .ok (E.tweakAddCheck cb.internalKey outputKey cb.parity t)
end ControlBlock

/-- `Script::new_v1_p2tr_tweaked` / the p2tr script of an output key: OP_1 PUSH32 key -/
def p2trScript (outputKey : Bytes) : Bytes := 0x51 :: 0x20 :: outputKey

/-! ### Huffman construction (`TaprootSpendInfo::with_huffman_tree`) -/

/-- `Ord` on byte slices -/
def cmpBytes : Bytes → Bytes → Ordering
  | [], [] => .eq
  | [], _ :: _ => .lt
  | _ :: _, [] => .gt
  | a :: as, b :: bs => if a < b then .lt else if b < a then .gt else cmpBytes as bs

/-- `Ord` on `Vec<T>` -/
def cmpList {α} (c : α → α → Ordering) : List α → List α → Ordering
  | [], [] => .eq
  | [], _ :: _ => .lt
  | _ :: _, [] => .gt
  | a :: as, b :: bs => match c a b with | .eq => cmpList c as bs | o => o

/-- derived `Ord` of `LeafInfo` (script, ver, merkle_branch) -/
def cmpLeaf (a b : LeafInfo) : Ordering :=
  match cmpBytes a.script b.script with
  | .eq =>
    (if a.ver < b.ver then .lt else if b.ver < a.ver then .gt else cmpList cmpBytes a.branch b.branch)
  | o => o

/-- derived `Ord` of `NodeInfo` (hash, leaves) -/
def cmpNode (a b : NodeInfo) : Ordering :=
  match cmpBytes a.hash b.hash with
  | .eq => cmpList cmpLeaf a.leaves b.leaves
  | o => o

/-- `x` is popped from the `BinaryHeap<(Reverse<u64>, NodeInfo)>` strictly before `y`:
    smaller weight, or equal weight and greater `NodeInfo` -/
def popsBefore (x y : Nat × NodeInfo) : Bool :=
  x.1 < y.1 || (x.1 == y.1 && cmpNode x.2 y.2 == .gt)

/-- the heap as a list in pop order; `BinaryHeap::push` -/
def heapPush (x : Nat × NodeInfo) : List (Nat × NodeInfo) → List (Nat × NodeInfo)
  | [] => [x]
  | y :: ys => if popsBefore y x then y :: heapPush x ys else x :: y :: ys

/-- `u64::saturating_add` -/
def satAdd (a b : Nat) : Nat := if a + b ≥ 2 ^ 64 then 2 ^ 64 - 1 else a + b

/-- the merge loop; `fuel` = number of remaining iterations (heap length suffices) -/
def huffmanLoop (H : TapHashes) : Nat → List (Nat × NodeInfo) → Res NodeInfo
  | _, [] => .panic "huffman tree algorithm is broken"
  | _, [(_, n)] => .ok n
  | 0, _ :: _ :: _ => .panic "fuel"
  | fuel + 1, (p1, s1) :: (p2, s2) :: rest =>
    match combine H s1 s2 with
    | .ok n => huffmanLoop H fuel (heapPush (satAdd p1 p2, n) rest)
    | .err e => .err e
    | .panic s => .panic s

def huffmanHeap (H : TapHashes) (ws : List (Nat × Bytes)) : List (Nat × NodeInfo) :=
  ws.foldl (fun h (w, s) => heapPush (w, newLeaf H s tapscriptVer) h) []

/-- the root `NodeInfo` of `with_huffman_tree` (weights are `u32` values) -/
def huffmanNode (H : TapHashes) (ws : List (Nat × Bytes)) : Res NodeInfo :=
  if ws.isEmpty then .err "IncompleteTree"
  else huffmanLoop H ws.length (huffmanHeap H ws)

/-- `TaprootSpendInfo::with_huffman_tree` -/
def withHuffmanTree (E : EC) (H : TapHashes) (key : Bytes) (ws : List (Nat × Bytes)) : Res SpendInfo :=
  match huffmanNode H ws with
  | .ok n => fromNodeInfo E H key n
  | .err e => .err e
  | .panic s => .panic s

end EV.Taproot
