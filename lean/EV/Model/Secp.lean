/-
  EV.Model.Secp — executable re-implementation of the *parse acceptance* rules of
  libsecp256k1-zkp used by the decoders (transcribed from the C source; tied to the
  real library by the correspondence check on random and near-valid inputs).
  Nothing here is used in theorems except through the `Prims` record.
-/
import EV.Model.Transaction
namespace EV.Secp

def p : Nat := 0xFFFFFFFFFFFFFFFFFFFFFFFFFFFFFFFFFFFFFFFFFFFFFFFFFFFFFFFEFFFFFC2F
def n : Nat := 0xFFFFFFFFFFFFFFFFFFFFFFFFFFFFFFFEBAAEDCE6AF48A03BBFD25E8CD0364141

def powMod (b e m : Nat) : Nat := Id.run do
  let mut result := 1
  let mut base := b % m
  let mut e := e
  for _ in [0:256] do
    if e % 2 = 1 then result := result * base % m
    base := base * base % m
    e := e / 2
  return result

/-- x < p and x³+7 is a square mod p (Euler criterion) -/
def xOnCurve (xb : Bytes) : Bool :=
  let x := beNat xb
  if x ≥ p then false else
  let rhs := (x * x % p * x + 7) % p
  rhs == 0 || powMod rhs ((p - 1) / 2) p == 1

def point33 (lo hi : UInt8) (b : Bytes) : Bool :=
  match b with
  | pre :: x => b.length == 33 && (pre == lo || pre == hi) && xOnCurve x
  | [] => false

/-- `Tweak::from_inner`: a valid secret key (0 < k < n) or all zero -/
def tweak (b : Bytes) : Bool := b.length == 32 && beNat b < n

/-- `SecretKey::from_slice` -/
def seckey (b : Bytes) : Bool := b.length == 32 && 0 < beNat b && beNat b < n

def u64max : Nat := 2^64 - 1

/-- `secp256k1_rangeproof_getheader_impl` acceptance -/
def rangeproof (pr : Bytes) : Bool :=
  match pr with
  | [] => false
  | b0 :: rest =>
    if pr.length < 65 || b0.toNat &&& 128 != 0 then false else
    let hasNz := b0.toNat &&& 64 != 0
    let hasMin := b0.toNat &&& 32 != 0
    let exp := b0.toNat &&& 31
    -- offset after the header bytes
    if hasNz then
      if exp > 18 then false else
      match rest with
      | [] => false
      | b1 :: _ =>
        let mantissa := b1.toNat + 1
        if mantissa > 64 then false else
        let maxv0 := u64max >>> (64 - mantissa)
        -- multiply by 10 `exp` times with overflow check
        let scaled := (List.range exp).foldl (fun (acc : Option Nat) _ =>
          match acc with
          | none => none
          | some v => if v > u64max / 10 then none else some (v * 10)) (some maxv0)
        match scaled with
        | none => false
        | some maxv =>
          let off := 2
          if hasMin then
            if pr.length - off < 8 then false else
            let minv := beNat ((pr.drop off).take 8)
            !(maxv > u64max - minv)
          else true
    else
      -- exp = -1: loop does not run; max_value = 0
      let off := 1
      if hasMin then
        if pr.length - off < 8 then false else true
      else true

def popcount (b : Bytes) : Nat := (b.map (fun x => (List.range 8).foldl (fun acc i => acc + (if x.toNat.testBit i then 1 else 0)) 0)).sum

/-- `secp256k1_surjectionproof_parse` acceptance -/
def surjproof (inp : Bytes) : Bool :=
  match inp with
  | b0 :: b1 :: _ =>
    let nIn := b1.toNat * 256 + b0.toNat
    if nIn > 256 then false else
    let bl := (nIn + 7) / 8
    if inp.length < 2 + bl then false else
    let bitmap := (inp.drop 2).take bl
    let padOk :=
      if nIn % 8 != 0 then
        match bitmap.getLast? with
        | some last => (last.toNat &&& ((0xFF <<< (nIn % 8)) % 256)) == 0
        | none => true
      else true
    if !padOk then false else
    inp.length == 2 + bl + 32 * (1 + popcount bitmap)
  | _ => false

/-- the record handed to the model by the driver -/
def prims (sizeTxIn sizeTxOut sizeTx : Nat) : Prims :=
  { commitment := point33 8 9, generator := point33 10 11, pubkey := point33 2 3,
    tweak := tweak, rangeproof := rangeproof, surjproof := surjproof,
    sizeTxIn := sizeTxIn, sizeTxOut := sizeTxOut, sizeTx := sizeTx }

end EV.Secp
