/-
  EV.Model.PsetBlind — multi-party PSET blinding (src/pset/mod.rs: `blind_checks`,
  `blind_non_last`, `blind_last`; src/confidential.rs: `ValueBlindingFactor::{last, add_assign, neg}`;
  libsecp256k1-zkp `secp256k1_pedersen_blind_generator_blind_sum`; src/pset/map/global.rs: the
  scalar list as proprietary keys with duplicate rejection on decode).

  Generic over the scalar type `R` (core classes only; the driver instantiates `R := Fin n`,
  `n` the secp256k1 group order; the theorems take `[CommRing R]`).  EC points never occur: what
  is modelled is the scalar bookkeeping that makes the commitments of the extracted transaction
  sum to zero, plus the presence flags of the blinding fields.  Zero-knowledge proof creation
  (surjection proof, range proof, explicit value / asset proofs) is opaque: the model only
  reproduces the *deterministic* failure causes (asset not among the known inputs, amount below
  the range proof minimum).
  Core Lean only.
-/
import EV.Model.Bytes
import EV.Gen.Consts
namespace EV.PsetBlind

/-- `TxOutSecrets` / the `(value, abf, vbf)` triples handed to `ValueBlindingFactor::last`;
    `asset` is an abstract asset id (only compared for equality). -/
structure Secret (R : Type) where
  asset : Nat
  value : Nat
  abf : R
  vbf : R
  deriving Repr

section Scalar
variable {R : Type} [Add R] [Mul R] [Neg R] [Zero R] [NatCast R]

/-- the scalar multiplying `G` in the Pedersen commitment `v·(H_asset + abf·G) + vbf·G` -/
def term (s : Secret R) : R := (s.value : R) * s.abf + s.vbf

def sumTerms (l : List (Secret R)) : R := (l.map term).sum

/-- the loop of `secp256k1_pedersen_blind_generator_blind_sum`: `sum += cond_negate(v·r + r', i < n_inputs)` -/
def blindSumAcc (negate : Bool) : R → List (Secret R) → R
  | acc, [] => acc
  | acc, s :: rest => blindSumAcc negate (acc + (if negate then -(term s) else term s)) rest

/-- `ValueBlindingFactor::last` = `compute_adaptive_blinding_factor(value, abf, set_a, set_b)`:
    the wrapper appends `(value, abf, vbf := 0)` to `set_b`; the C code leaves the placeholder
    (0) in `tmp` and stores `tmp + (-sum)`. -/
def lastVbf (value : Nat) (abf : R) (ins outs : List (Secret R)) : R :=
  let sum := blindSumAcc false (blindSumAcc true 0 ins) (outs ++ [⟨0, value, abf, 0⟩])
  (0 : R) + -sum

variable [DecidableEq R]

/-- `impl AddAssign for ValueBlindingFactor` (zero operands are special-cased; a zero sum maps to
    `zero()`, which is what modular addition gives anyway) -/
def vbfAdd (a b : R) : R := if a = 0 then b else if b = 0 then a else a + b

/-- `impl Neg for ValueBlindingFactor` -/
def vbfNeg (a : R) : R := if a = 0 then a else -a

end Scalar

/-- what `blind_checks` / `surjection_inputs` read of a PSET input -/
structure Inp where
  hasUtxo : Bool
  hasIssuance : Bool
  blindedIssuance : Option Nat
  /-- asset ids of the pseudo-inputs `surjection_inputs` appends for this input's issuance: the
      issued asset if an issuance amount (explicit or committed) is present, the reissuance token
      if inflation keys are -/
  issued : List Nat := []
  deriving Repr, DecidableEq

/-- a PSET output: the fields the blinders read and write; `secrets` is a ghost field holding the
    (abf, vbf) inside `asset_comm` / `amount_comm` when a blinder of this model wrote them -/
structure Out (R : Type) where
  amount : Option Nat
  asset : Option Nat
  hasKey : Bool
  blinderIndex : Option Nat
  /-- `Address::from_script(script_pubkey, ..)` is `Some` -/
  addressable : Bool
  amountComm : Bool := false
  assetComm : Bool := false
  ecdh : Bool := false
  rangeproof : Bool := false
  surjproof : Bool := false
  valueProof : Bool := false
  assetProof : Bool := false
  secrets : Option (R × R) := none

namespace Out
variable {R : Type}
def isMarked (o : Out R) : Bool := o.hasKey
/-- `Output::is_partially_blinded` -/
def isPartiallyBlinded (o : Out R) : Bool :=
  o.hasKey && (o.amountComm || o.assetComm || o.rangeproof || o.surjproof || o.ecdh)
/-- `Output::is_fully_blinded` -/
def isFullyBlinded (o : Out R) : Bool :=
  o.hasKey && o.amountComm && o.assetComm && o.rangeproof && o.surjproof && o.ecdh
/-- the seven fields both blinders write for an output -/
def blindWith (o : Out R) (abf vbf : R) : Out R :=
  { o with rangeproof := true, surjproof := true, amountComm := true, assetComm := true,
           ecdh := true, assetProof := true, valueProof := true, secrets := some (abf, vbf) }
end Out

structure St (R : Type) where
  inputs : List Inp
  outputs : List (Out R)
  scalars : List R

/-- `&HashMap<usize, TxOutSecrets>` in its iteration order (keys distinct) -/
abbrev Supplied (R : Type) := List (Nat × Secret R)

section Ops
variable {R : Type}

def owns (sup : Supplied R) (b : Nat) : Bool := sup.any (fun e => e.1 == b)
/-- `inp_txout_sec.values().map(|sec| (sec.value, sec.asset_bf, sec.value_bf))` -/
def inpSecrets (sup : Supplied R) : List (Secret R) := sup.map (·.2)
def knowsAsset (sup : Supplied R) (a : Nat) : Bool := sup.any (fun e => e.2.asset == a)

/-- assets of the issuance pseudo-inputs (`SurjectionInput::Known` with zero blinders for everybody) -/
def issuedAssets : List Inp → List Nat
  | [] => []
  | i :: rest => (if i.hasIssuance then i.issued else []) ++ issuedAssets rest

/-- a surjection proof for an output of asset `a` can be made by this party: the asset tag is the
    tag of an input whose secrets it supplied, or of an issuance pseudo-input (inputs without
    supplied secrets enter the domain with a zero tag and never match) -/
def canSurject (inps : List Inp) (sup : Supplied R) (a : Nat) : Bool :=
  knowsAsset sup a || (issuedAssets inps).contains a

def issuanceBlocked : List Inp → Bool
  | [] => false
  | i :: rest => (i.hasIssuance && i.blindedIssuance.getD 1 == 1) || issuanceBlocked rest

/-- the selection loop of `blind_checks` (`i` = index of the head of the list) -/
def selectOuts (nIn : Nat) (sup : Supplied R) : Nat → List (Out R) → Res (List Nat)
  | _, [] => .ok []
  | i, o :: rest =>
    if !o.hasKey then selectOuts nIn sup (i + 1) rest
    else match o.blinderIndex with
      | none => selectOuts nIn sup (i + 1) rest
      | some b =>
        if b ≥ nIn then .err "Index"
        else if owns sup b then
          match selectOuts nIn sup (i + 1) rest with
          | .ok l => .ok (i :: l)
          | .err e => .err e
          | .panic s => .panic s
        else selectOuts nIn sup (i + 1) rest

/-- `blind_checks`: (inp_secrets, blind_out_indices) -/
def blindChecks (st : St R) (sup : Supplied R) : Res (List (Secret R) × List Nat) :=
  if issuanceBlocked st.inputs then .err "Issuance"
  else match selectOuts st.inputs.length sup 0 st.outputs with
    | .ok sel => .ok (inpSecrets sup, sel)
    | .err e => .err e
    | .panic s => .panic s

/-- `surjection_inputs`: every input needs its `witness_utxo` -/
def surjectionInputsOk (st : St R) : Bool := st.inputs.all (·.hasUtxo)

/-- the per-output loop of `blind_non_last`; `rand i` = the (abf, vbf) drawn for output `i`.
    `known a` = a surjection proof for asset `a` can be made (`canSurject`).
    Returns the outputs and `out_secrets` (in push order). -/
def nonLastLoop (known : Nat → Bool) (rand : Nat → R × R) :
    List Nat → List (Out R) → List (Secret R) → Res (List (Out R) × List (Secret R))
  | [], outs, acc => .ok (outs, acc)
  | i :: rest, outs, acc =>
    match outs[i]? with
    | none => .panic "outputs[i]"
    | some o =>
      -- `to_txout()` then `to_non_last_confidential`
      match o.amountComm, o.amount with
      | true, _ => .err "ExplValue"
      | false, none => .err "ExplValue"
      | false, some v =>
        if !o.addressable then .err "Address" else
        match o.assetComm, o.asset with
        | true, _ => .err "ExplAsset"
        | false, none => .err "ExplAsset"
        | false, some a =>
          -- surjection proof: the output tag must be the tag of a known input
          if !known a then .err "Proof" else
          -- `Value::blind_with_shared_secret`: amounts below `TxOut::RANGEPROOF_MIN_VALUE` are refused
          if v < EV.Gen.PsetBlind.rangeproofMinValue then .err "Proof" else
          nonLastLoop known rand rest (outs.set i (o.blindWith (rand i).1 (rand i).2))
            (acc ++ [⟨a, v, (rand i).1, (rand i).2⟩])

variable [Add R] [Mul R] [Neg R] [Zero R] [NatCast R] [DecidableEq R]

/-- `blind_non_last`; result: new state and the returned (index, abf, vbf) map -/
def nonLast (st : St R) (sup : Supplied R) (rand : Nat → R × R) : Res (St R × List (Nat × R × R)) :=
  match blindChecks st sup with
  | .err e => .err e
  | .panic s => .panic s
  | .ok (ins, sel) =>
    if sel.isEmpty then .ok (st, []) else
    if !surjectionInputsOk st then .err "Utxo" else
    match nonLastLoop (canSurject st.inputs sup) rand sel st.outputs [] with
    | .err e => .err e
    | .panic s => .panic s
    | .ok (outs, outSecrets) =>
      match outSecrets.getLast? with
      | none => .panic "out_secrets.pop().unwrap()"
      | some l =>
        let vbf2 := vbfAdd (lastVbf l.value l.abf ins outSecrets.dropLast) (vbfNeg l.vbf)
        .ok ({ st with outputs := outs, scalars := st.scalars ++ [vbf2] },
             List.zipWith (fun i s => (i, s.abf, s.vbf)) sel outSecrets)

/-- the amounts of the outputs without blinding key (`exp_out_secrets`) -/
def expOutSecrets : List (Out R) → Res (List (Secret R))
  | [] => .ok []
  | o :: rest =>
    if o.hasKey then expOutSecrets rest
    else match o.amount with
      | none => .err "Explicit"
      | some amt =>
        match expOutSecrets rest with
        | .ok l => .ok (⟨0, amt, 0, 0⟩ :: l)
        | .err e => .err e
        | .panic s => .panic s

/-- `blind_last`, first part: if the party has several outputs, all but the last are blinded
    through `blind_non_last` with the last one's `blinder_index` temporarily cleared, and
    `inp_secrets` is emptied (they went into the published scalar). -/
def lastStage1 (st : St R) (sup : Supplied R) (rand : Nat → R × R) (ins0 : List (Secret R))
    (sel : List Nat) (lastIdx : Nat) : Res (St R × List (Nat × R × R) × List (Secret R)) :=
  if sel.dropLast.isEmpty then .ok (st, [], ins0) else
  match st.outputs[lastIdx]? with
  | none => .panic "outputs[last_out_index]"
  | some o =>
    let stA := { st with outputs := st.outputs.set lastIdx { o with blinderIndex := none } }
    match nonLast stA sup rand with
    | .err e => .err e
    | .panic s => .panic s
    | .ok (stB, ret) =>
      match stB.outputs[lastIdx]? with
      | none => .panic "outputs[last_out_index]"
      | some o' =>
        .ok ({ stB with outputs := stB.outputs.set lastIdx { o' with blinderIndex := o.blinderIndex } }, ret, [])

/-- `blind_last`, second part: blind the last output with the balancing value blinding factor -/
def lastStage2 (st1 : St R) (sup : Supplied R) (rand : Nat → R × R) (lastIdx : Nat)
    (ret : List (Nat × R × R)) (ins : List (Secret R)) : Res (St R × List (Nat × R × R)) :=
  if !surjectionInputsOk st1 then .err "Utxo" else
  match st1.outputs[lastIdx]? with
  | none => .panic "outputs[last_out_index]"
  | some o =>
    match o.asset with
    | none => .err "Explicit"
    | some a =>
      let abf := (rand lastIdx).1
      if !canSurject st1.inputs sup a then .err "Proof" else
      match o.amount with
      | none => .err "Explicit"
      | some v =>
        match expOutSecrets st1.outputs with
        | .err e => .err e
        | .panic s => .panic s
        | .ok exps =>
          let finalVbf := st1.scalars.foldl vbfAdd (lastVbf v abf ins exps)
          if !o.hasKey then .err "Explicit" else
          if v < EV.Gen.PsetBlind.rangeproofMinValue then .err "Proof" else
          .ok ({ st1 with outputs := st1.outputs.set lastIdx (o.blindWith abf finalVbf), scalars := [] },
               ret ++ [(lastIdx, abf, finalVbf)])

/-- `blind_last` -/
def blindLast (st : St R) (sup : Supplied R) (rand : Nat → R × R) : Res (St R × List (Nat × R × R)) :=
  match blindChecks st sup with
  | .err e => .err e
  | .panic s => .panic s
  | .ok (ins0, sel) =>
    match sel.getLast? with
    | none => .err "NoOutput"
    | some lastIdx =>
      match lastStage1 st sup rand ins0 sel lastIdx with
      | .err e => .err e
      | .panic s => .panic s
      | .ok (st1, ret, ins) => lastStage2 st1 sup rand lastIdx ret ins

/-- decode of the proprietary scalar keys: a key already seen is `DuplicateKey` -/
def decodeScalars : List R → List R → Res (List R)
  | acc, [] => .ok acc
  | acc, s :: rest => if acc.contains s then .err "DuplicateKey" else decodeScalars (acc ++ [s]) rest

/-- serialize → deserialize between two parties -/
def hop (st : St R) : Res (St R) :=
  match decodeScalars [] st.scalars with
  | .ok sc => .ok { st with scalars := sc }
  | .err e => .err e
  | .panic s => .panic s

inductive Step (R : Type) where
  | nonLast (sup : Supplied R) (rand : Nat → R × R)
  | last (sup : Supplied R) (rand : Nat → R × R)
  | hop

def runStep (st : St R) : Step R → Res (St R)
  | .nonLast sup rand => match nonLast st sup rand with
    | .ok (st', _) => .ok st' | .err e => .err e | .panic s => .panic s
  | .last sup rand => match blindLast st sup rand with
    | .ok (st', _) => .ok st' | .err e => .err e | .panic s => .panic s
  | .hop => hop st

def runFlow : St R → List (Step R) → Res (St R)
  | st, [] => .ok st
  | st, s :: rest => match runStep st s with
    | .ok st' => runFlow st' rest
    | .err e => .err e
    | .panic p => .panic p

/-- the secrets inside an output's commitments (explicit: abf = vbf = 0) -/
def outSecret (o : Out R) : Secret R :=
  match o.secrets with
  | some (abf, vbf) => ⟨o.asset.getD 0, o.amount.getD 0, abf, vbf⟩
  | none => ⟨o.asset.getD 0, o.amount.getD 0, 0, 0⟩

def outTermSum (st : St R) : R := sumTerms (st.outputs.map outSecret)

end Ops
end EV.PsetBlind
