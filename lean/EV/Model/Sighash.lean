/-
  EV.Model.Sighash — the three signature-hash algorithms of src/sighash.rs.

  Part 1 (AS CODED): `msgLegacy`, `msgSegwit`, `msgTaproot` are the exact byte strings that
  `encode_legacy_signing_data_to`, `encode_segwitv0_signing_data_to` and
  `taproot_encode_signing_data_to` feed to the hash engine, with the same order of checks and
  the same error points (`IndexOutOfInputsBounds`, `SingleWithoutCorrespondingOutput`,
  `PrevoutsSize`, `PrevoutIndex`, `PrevoutKind`; the documented panics of the legacy/segwit
  functions on `input_index >= inputs` are `panic`).  The cache reads are inlined here (the cache
  itself is modelled in `EV.Model.SighashCache`, C13).

  Rust items transcribed here (read by tools/modelled_items.py): `SighashCache::encode_legacy_signing_data_to`,
  `SighashCache::legacy_sighash`, `SighashCache::encode_segwitv0_signing_data_to`, `SighashCache::segwitv0_sighash`,
  `SighashCache::taproot_encode_signing_data_to`, `SighashCache::taproot_sighash`,
  `SighashCache::taproot_key_spend_signature_hash`, `SighashCache::taproot_script_spend_signature_hash`,
  `SighashCache::common_cache`, `SighashCache::segwit_cache`, `SighashCache::taproot_cache`,
  `TxIn::outpoint_flag`, `SchnorrSighashType::split_anyonecanpay_flag`, `EcdsaSighashType::split_anyonecanpay_flag`,
  `EcdsaSighashType::from_u32`, `EcdsaSighashType::as_u32`, `SchnorrSighashType::from_u8`, `Annex::new`.

  Part 2 (SPEC): an independent transcription of the specifications (Elements Core's
  `CTransactionSignatureSerializer`, BIP143 + issuance extension, BIP341 + Elements extensions):
  first the record of committed fields (`LegacyView`, `SegwitView`, `TaprootView`) is assembled
  from the numeric hash type with the bit masks of the specifications, then it is serialised.

  Hashes are parameters (`SigHashes`).
-/
import EV.Model.Transaction
import EV.Gen.Consts
namespace EV
open Codec

/-- SHA-256, double SHA-256 and the BIP340 tagged hash (`sha256t` engine initialised with the
    midstate of `sha256(tag) ‖ sha256(tag)`), all parameters of the model -/
structure SigHashes where
  sha256 : Bytes → Bytes
  sha256d : Bytes → Bytes
  tagged : String → Bytes → Bytes

namespace Sighash

/-! ### error classes of `sighash::Error` that the model can produce -/
def eIndex : String := "IndexOutOfInputsBounds"
def eSingle : String := "SingleWithoutCorrespondingOutput"
def ePrevoutsSize : String := "PrevoutsSize"
def ePrevoutIndex : String := "PrevoutIndex"
def ePrevoutKind : String := "PrevoutKind"
def eWrongAnnex : String := "WrongAnnex"
def eInvalidType : String := "InvalidSighashType"

/-! ### hash types -/

/-- the "real" sighash flag after `split_anyonecanpay_flag` -/
inductive Base where
  | all | none | single
  deriving Repr, DecidableEq

/-- `transaction::EcdsaSighashType` -/
inductive EcdsaTy where
  | all | none | single | allAcp | noneAcp | singleAcp
  deriving Repr, DecidableEq

namespace EcdsaTy
/-- `EcdsaSighashType::split_anyonecanpay_flag` -/
def base : EcdsaTy → Base
  | .all | .allAcp => .all
  | .none | .noneAcp => .none
  | .single | .singleAcp => .single
def acp : EcdsaTy → Bool
  | .allAcp | .noneAcp | .singleAcp => true
  | _ => false
/-- `as_u32` (the enum discriminants, regenerated from the source) -/
def asU32 : EcdsaTy → Nat
  | .all => Gen.ecdsaAll
  | .none => Gen.ecdsaNone
  | .single => Gen.ecdsaSingle
  | .allAcp => Gen.ecdsaAllPlusAnyoneCanPay
  | .noneAcp => Gen.ecdsaNonePlusAnyoneCanPay
  | .singleAcp => Gen.ecdsaSinglePlusAnyoneCanPay
def allTypes : List EcdsaTy := [.all, .none, .single, .allAcp, .noneAcp, .singleAcp]
/-- `from_standard` -/
def fromStandard (n : Nat) : Option EcdsaTy := allTypes.find? (fun t => t.asU32 == n)
end EcdsaTy

/-- `sighash::SchnorrSighashType` (`Reserved` is a public variant, so it is a possible argument) -/
inductive SchnorrTy where
  | default | all | none | single | allAcp | noneAcp | singleAcp | reserved
  deriving Repr, DecidableEq

namespace SchnorrTy
/-- second component of `SchnorrSighashType::split_anyonecanpay_flag` -/
def acp : SchnorrTy → Bool
  | .allAcp | .noneAcp | .singleAcp => true
  | _ => false
/-- first component is `None` -/
def isNone : SchnorrTy → Bool
  | .none | .noneAcp => true
  | _ => false
/-- first component is `Single` -/
def isSingle : SchnorrTy → Bool
  | .single | .singleAcp => true
  | _ => false
/-- `sighash_type as u8` -/
def byte : SchnorrTy → Nat
  | .default => Gen.schnorrDefault
  | .all => Gen.schnorrAll
  | .none => Gen.schnorrNone
  | .single => Gen.schnorrSingle
  | .allAcp => Gen.schnorrAllPlusAnyoneCanPay
  | .noneAcp => Gen.schnorrNonePlusAnyoneCanPay
  | .singleAcp => Gen.schnorrSinglePlusAnyoneCanPay
  | .reserved => Gen.schnorrReserved
def ofName : String → Option SchnorrTy
  | "Default" => some .default
  | "All" => some .all
  | "None" => some .none
  | "Single" => some .single
  | "AllPlusAnyoneCanPay" => some .allAcp
  | "NonePlusAnyoneCanPay" => some .noneAcp
  | "SinglePlusAnyoneCanPay" => some .singleAcp
  | _ => Option.none
/-- `SchnorrSighashType::from_u8` (the match table, regenerated from the source) -/
def fromU8 (n : Nat) : Option SchnorrTy :=
  match Gen.schnorrFromU8Table.find? (fun p => p.1 == n) with
  | some p => ofName p.2
  | Option.none => Option.none
/-- the seven types that `from_u8` produces -/
def standard : List SchnorrTy := [.default, .all, .none, .single, .allAcp, .noneAcp, .singleAcp]
end SchnorrTy

/-! ### spent outputs: `Prevouts` -/

inductive Prevouts where
  | one (idx : Nat) (p : TxOut)
  | all (ps : List TxOut)
  deriving Repr, DecidableEq

namespace Prevouts
/-- `check_all` -/
def checkAll (pv : Prevouts) (tx : Tx) : Res Unit :=
  match pv with
  | .all ps => if ps.length ≠ tx.input.length then .err ePrevoutsSize else .ok ()
  | .one _ _ => .ok ()
/-- `get_all` -/
def getAll : Prevouts → Res (List TxOut)
  | .all ps => .ok ps
  | .one _ _ => .err ePrevoutKind
/-- `get` -/
def get (pv : Prevouts) (i : Nat) : Res TxOut :=
  match pv with
  | .one j p => if i = j then .ok p else .err ePrevoutIndex
  | .all ps => match ps[i]? with
    | some p => .ok p
    | none => .err ePrevoutIndex
end Prevouts

/-! ### preimages of the cached sub-hashes -/

def zero32 : Bytes := List.replicate 32 0

/-- `txin.asset_issuance` if `has_issuance()`, the byte `0x00` otherwise -/
def issuanceOrZero (i : TxIn) : Bytes := if i.hasIssuance then i.assetIssuance.enc else [0]

/-- `TxIn::outpoint_flag` -/
def outpointFlag (i : TxIn) : UInt8 :=
  UInt8.ofNat (((if i.isPegin then 1 else 0) <<< Gen.outpointFlagPeginShift) |||
               ((if i.hasIssuance then 1 else 0) <<< Gen.outpointFlagIssuanceShift))

/-- both issuance range proofs of one input as hashed (`Option<Box<RangeProof>>`: empty vector = none) -/
def issuanceProofs (i : TxIn) : Bytes :=
  encOptProof i.witness.amountRangeproof ++ encOptProof i.witness.inflationKeysRangeproof

def preOutpoints (tx : Tx) : Bytes := tx.input.flatMap (fun i => i.previousOutput.enc)
def preSequences (tx : Tx) : Bytes := tx.input.flatMap (fun i => encLe 4 i.sequence)
def preOutputs (tx : Tx) : Bytes := tx.output.flatMap TxOut.enc
def preIssuances (tx : Tx) : Bytes := tx.input.flatMap issuanceOrZero
def preAssetAmounts (ps : List TxOut) : Bytes := ps.flatMap (fun p => p.asset.enc ++ p.value.enc)
def preScriptPubkeys (ps : List TxOut) : Bytes := ps.flatMap (fun p => encBytesVec p.scriptPubkey)
def preOutpointFlags (tx : Tx) : Bytes := tx.input.map outpointFlag
def preIssuanceRangeproofs (tx : Tx) : Bytes := tx.input.flatMap issuanceProofs
def preOutputWitnesses (tx : Tx) : Bytes := tx.output.flatMap (fun o => o.witness.enc)

/-- `CommonCache` -/
structure CommonCache where
  prevouts : Bytes
  sequences : Bytes
  outputs : Bytes
  issuances : Bytes
  deriving Repr, DecidableEq

/-- `SegwitCache` -/
structure SegwitCache where
  prevouts : Bytes
  sequences : Bytes
  issuances : Bytes
  outputs : Bytes
  deriving Repr, DecidableEq

/-- `TaprootCache` -/
structure TaprootCache where
  scriptPubkeys : Bytes
  outpointFlags : Bytes
  assetAmounts : Bytes
  issuanceRangeproofs : Bytes
  outputWitnesses : Bytes
  deriving Repr, DecidableEq

/-- the closure of `common_cache_minimal_borrow` -/
def commonOf (H : SigHashes) (tx : Tx) : CommonCache :=
  { prevouts := H.sha256 (preOutpoints tx), sequences := H.sha256 (preSequences tx),
    outputs := H.sha256 (preOutputs tx), issuances := H.sha256 (preIssuances tx) }

/-- the closure of `segwit_cache`: another round of SHA-256 on the common cache -/
def segwitOf (H : SigHashes) (c : CommonCache) : SegwitCache :=
  { prevouts := H.sha256 c.prevouts, sequences := H.sha256 c.sequences,
    issuances := H.sha256 c.issuances, outputs := H.sha256 c.outputs }

/-- the closure of `taproot_cache_minimal_borrow` -/
def taprootOf (H : SigHashes) (tx : Tx) (ps : List TxOut) : TaprootCache :=
  { scriptPubkeys := H.sha256 (preScriptPubkeys ps), outpointFlags := H.sha256 (preOutpointFlags tx),
    assetAmounts := H.sha256 (preAssetAmounts ps), issuanceRangeproofs := H.sha256 (preIssuanceRangeproofs tx),
    outputWitnesses := H.sha256 (preOutputWitnesses tx) }

/-! ### Part 1 — the signing messages as coded -/

/-- `TxOut::default()` -/
def txOutDefault : TxOut := ⟨.null, .null, .null, [], TxOutWitness.empty⟩

/-- one input of the transaction that `encode_legacy_signing_data_to` builds (non-ANYONECANPAY branch) -/
def legacyIn (idx : Nat) (script : Bytes) (b : Base) (n : Nat) (i : TxIn) : TxIn :=
  { previousOutput := i.previousOutput, isPegin := i.isPegin,
    scriptSig := if n = idx then script else [],
    sequence := if n ≠ idx ∧ (b = .single ∨ b = .none) then 0 else i.sequence,
    assetIssuance := i.assetIssuance, witness := TxInWitness.empty }

/-- `iter().enumerate().map(f)` starting at position `n` -/
def mapEnumFrom {α β} (f : Nat → α → β) : Nat → List α → List β
  | _, [] => []
  | n, a :: as => f n a :: mapEnumFrom f (n + 1) as

/-- outputs of the transaction to sign -/
def legacyOuts (tx : Tx) (idx : Nat) : Base → List TxOut
  | .all => tx.output
  | .single => mapEnumFrom (fun n o => if n = idx then o else txOutDefault) 0 (tx.output.take (idx + 1))
  | .none => []

/-- `encode_legacy_signing_data_to` -/
def msgLegacy (tx : Tx) (idx : Nat) (script : Bytes) (ty : EcdsaTy) : Res Bytes :=
  if ¬ idx < tx.input.length then .panic "assert!(input_index < self.tx.input.len())"
  else if ty.base = .single ∧ idx ≥ tx.output.length then .ok Gen.legacySingleBugConst
  else
    match tx.input[idx]? with
    | none => .panic "self.tx.input[input_index]"
    | some me =>
      let ins : List TxIn :=
        if ty.acp then
          [{ previousOutput := me.previousOutput, isPegin := me.isPegin, scriptSig := script,
             sequence := me.sequence, assetIssuance := me.assetIssuance, witness := TxInWitness.empty }]
        else mapEnumFrom (legacyIn idx script ty.base) 0 tx.input
      .ok (encLe 4 tx.version ++ encVec TxIn.enc ins ++ encVec TxOut.enc (legacyOuts tx idx ty.base) ++
           encLe 4 tx.lockTime ++ encLe 4 ty.asU32)

/-- the constant `one` of `legacy_sighash` (`[0u8; 32]` with `one[0] = 1`) -/
def legacyOne : Bytes := 1 :: List.replicate 31 0

/-- `legacy_sighash` (as fixed by 8c0a6e3): SIGHASH_SINGLE without a corresponding output yields the
    constant itself; otherwise the double SHA-256 of what `encode_legacy_signing_data_to` wrote -/
def legacySighash (H : SigHashes) (tx : Tx) (idx : Nat) (script : Bytes) (ty : EcdsaTy) : Res Bytes :=
  if ¬ idx < tx.input.length then .panic "assert!(input_index < self.tx.input.len())"
  else if ty.base = .single ∧ idx ≥ tx.output.length then .ok legacyOne
  else (msgLegacy tx idx script ty).map H.sha256d

/-- `encode_segwitv0_signing_data_to` (segwit cache = SHA-256 of the common cache entries) -/
def msgSegwit (H : SigHashes) (tx : Tx) (idx : Nat) (scriptCode : Bytes) (value : Value) (ty : EcdsaTy) : Res Bytes :=
  let sc := segwitOf H (commonOf H tx)
  let p1 := encLe 4 tx.version ++
    (if ty.acp then zero32 else sc.prevouts) ++
    (if !ty.acp && ty.base != .single && ty.base != .none then sc.sequences else zero32) ++
    (if ty.acp then zero32 else sc.issuances)
  match tx.input[idx]? with
  | none => .panic "self.tx.input[input_index]"
  | some txin =>
    let p2 := txin.previousOutput.enc ++ encBytesVec scriptCode ++ value.enc ++ encLe 4 txin.sequence ++
      (if txin.hasIssuance then txin.assetIssuance.enc else [])
    let p3 :=
      if ty.base != .single && ty.base != .none then sc.outputs
      else if ty.base = .single ∧ idx < tx.output.length then
        match tx.output[idx]? with
        | some o => H.sha256d o.enc
        | none => zero32
      else zero32
    .ok (p1 ++ p2 ++ p3 ++ encLe 4 tx.lockTime ++ encLe 4 ty.asU32)

/-- `segwitv0_sighash` -/
def segwitSighash (H : SigHashes) (tx : Tx) (idx : Nat) (scriptCode : Bytes) (value : Value) (ty : EcdsaTy) : Res Bytes :=
  (msgSegwit H tx idx scriptCode value ty).map H.sha256d

/-- `Annex::new` -/
def annexNew (b : Bytes) : Res Bytes := if b.head? = some 0x50 then .ok b else .err eWrongAnnex

/-- `spend_type` -/
def spendType (annex : Option Bytes) (leaf : Option (Bytes × Nat)) : UInt8 :=
  UInt8.ofNat ((if annex.isSome then 1 else 0) ||| (if leaf.isSome then 2 else 0))

/-- the seven cached hashes written when the type is not ANYONECANPAY -/
def tapAllInputs (H : SigHashes) (tx : Tx) (ps : List TxOut) : Bytes :=
  let t := taprootOf H tx ps
  let c := commonOf H tx
  t.outpointFlags ++ c.prevouts ++ t.assetAmounts ++ t.scriptPubkeys ++ c.sequences ++ c.issuances ++ t.issuanceRangeproofs

/-- "data about this input" in the ANYONECANPAY case -/
def tapThisInput (H : SigHashes) (txin : TxIn) (prev : TxOut) : Bytes :=
  [outpointFlag txin] ++ txin.previousOutput.enc ++ prev.asset.enc ++ prev.value.enc ++
  encBytesVec prev.scriptPubkey ++ encLe 4 txin.sequence ++
  (if txin.hasIssuance then txin.assetIssuance.enc ++ H.sha256 (issuanceProofs txin) else [0])

def tapLeafPart : Option (Bytes × Nat) → Bytes
  | some (h, pos) => h ++ [UInt8.ofNat Gen.sighashKeyVersion0] ++ encLe 4 pos
  | none => []

/-- the seven "transaction data" hashes, unless ANYONECANPAY (`prevouts.get_all()?` is the first access) -/
def tapInsPart (H : SigHashes) (tx : Tx) (pv : Prevouts) (ty : SchnorrTy) : Res Bytes :=
  if ty.acp then .ok [] else pv.getAll.bind fun ps => .ok (tapAllInputs H tx ps)

/-- `sha_outputs` and `sha_output_witnesses`, unless NONE / SINGLE -/
def tapOutsPart (H : SigHashes) (tx : Tx) (ty : SchnorrTy) : Bytes :=
  if !ty.isNone && !ty.isSingle then H.sha256 (preOutputs tx) ++ H.sha256 (preOutputWitnesses tx) else []

/-- data about this input (ANYONECANPAY) or its index -/
def tapThisPart (H : SigHashes) (tx : Tx) (idx : Nat) (pv : Prevouts) (ty : SchnorrTy) : Res Bytes :=
  if ty.acp then
    match tx.input[idx]? with
    | none => .err eIndex
    | some txin => (pv.get idx).bind fun prev => .ok (tapThisInput H txin prev)
  else .ok (encLe 4 idx)

def tapAnnexPart (H : SigHashes) : Option Bytes → Bytes
  | some a => H.sha256 (encBytesVec a)
  | none => []

/-- `sha_single_output` and `sha_single_output_witness` for SINGLE -/
def tapSinglePart (H : SigHashes) (tx : Tx) (idx : Nat) (ty : SchnorrTy) : Res Bytes :=
  if ty.isSingle then
    match tx.output[idx]? with
    | none => .err eSingle
    | some o => .ok (H.sha256 o.enc ++ H.sha256 o.witness.enc)
  else .ok []

def tapHead (tx : Tx) (ty : SchnorrTy) (genesis : Bytes) : Bytes :=
  genesis ++ genesis ++ [UInt8.ofNat ty.byte] ++ encLe 4 tx.version ++ encLe 4 tx.lockTime

/-- `taproot_encode_signing_data_to` (the checks in the order of the code; the first failing one
    determines the error) -/
def msgTaproot (H : SigHashes) (tx : Tx) (idx : Nat) (pv : Prevouts) (annex : Option Bytes)
    (leaf : Option (Bytes × Nat)) (ty : SchnorrTy) (genesis : Bytes) : Res Bytes :=
  (pv.checkAll tx).bind fun _ =>
  (tapInsPart H tx pv ty).bind fun pIns =>
  (tapThisPart H tx idx pv ty).bind fun pThis =>
  (tapSinglePart H tx idx ty).bind fun pSingle =>
  .ok (tapHead tx ty genesis ++ pIns ++ tapOutsPart H tx ty ++ [spendType annex leaf] ++ pThis ++
       tapAnnexPart H annex ++ pSingle ++ tapLeafPart leaf)

/-- `taproot_sighash` -/
def taprootSighash (H : SigHashes) (tx : Tx) (idx : Nat) (pv : Prevouts) (annex : Option Bytes)
    (leaf : Option (Bytes × Nat)) (ty : SchnorrTy) (genesis : Bytes) : Res Bytes :=
  (msgTaproot H tx idx pv annex leaf ty genesis).map (H.tagged Gen.tapSighashTag)

/-- `taproot_key_spend_signature_hash` -/
def taprootKeySighash (H : SigHashes) (tx : Tx) (idx : Nat) (pv : Prevouts) (ty : SchnorrTy) (genesis : Bytes) : Res Bytes :=
  taprootSighash H tx idx pv none none ty genesis

/-- `taproot_script_spend_signature_hash`: code separator position fixed to `0xFFFFFFFF` -/
def taprootScriptSighash (H : SigHashes) (tx : Tx) (idx : Nat) (pv : Prevouts) (leafHash : Bytes) (ty : SchnorrTy)
    (genesis : Bytes) : Res Bytes :=
  taprootSighash H tx idx pv none (some (leafHash, 0xFFFFFFFF)) ty genesis

/-- `TapLeafHash::from_script` / `ScriptPath::leaf_hash` -/
def tapLeafHash (H : SigHashes) (script : Bytes) (ver : Nat) : Bytes :=
  H.tagged Gen.tapLeafTag ([UInt8.ofNat ver] ++ encBytesVec script)

/-! ### Part 2 — independent transcription of the specifications -/

/-- Core's masks -/
def SIGHASH_ALL : Nat := 1
def SIGHASH_NONE : Nat := 2
def SIGHASH_SINGLE : Nat := 3
def SIGHASH_ANYONECANPAY : Nat := 0x80
def SIGHASH_OUTPUT_MASK : Nat := 3
def SIGHASH_INPUT_MASK : Nat := 0x80

instance : Inhabited TxIn := ⟨⟨OutPoint.null, false, [], 0, AssetIssuance.null, TxInWitness.empty⟩⟩
instance : Inhabited TxOut := ⟨txOutDefault⟩

/-- the issuance field of an input as committed: present iff not null -/
def issuanceOf (i : TxIn) : Option AssetIssuance := if i.assetIssuance.isNull then none else some i.assetIssuance

/-- an output without its witness -/
def outBody (o : TxOut) : TxOut := { o with witness := TxOutWitness.empty }

/-- what the legacy algorithm signs: a transaction-shaped record and the hash type
    (Elements Core `CTransactionSignatureSerializer`, followed by `nHashType`) -/
structure LegacyView where
  version : Nat
  inputs : List TxIn
  outputs : List TxOut
  lockTime : Nat
  hashType : Nat
  deriving Repr, DecidableEq

/-- `SerializeInput(nInput)` of Core's serializer, as a record -/
def specLegacyInput (tx : Tx) (nIn : Nat) (scriptCode : Bytes) (ht : Nat) (nInput : Nat) : TxIn :=
  let fAnyoneCanPay := ht &&& SIGHASH_ANYONECANPAY ≠ 0
  let fHashSingle := ht &&& 0x1f = SIGHASH_SINGLE
  let fHashNone := ht &&& 0x1f = SIGHASH_NONE
  let k := if fAnyoneCanPay then nIn else nInput
  let i := tx.input.getD k default
  { previousOutput := i.previousOutput,
    isPegin := i.isPegin,                       -- outpoint flag bits (pinned by the repo's issuance vector)
    scriptSig := if k ≠ nIn then [] else scriptCode,
    sequence := if k ≠ nIn ∧ (fHashSingle ∨ fHashNone) then 0 else i.sequence,
    assetIssuance := (issuanceOf i).getD AssetIssuance.null,   -- serialized only `if (!assetIssuance.IsNull())`
    witness := TxInWitness.empty }

/-- `SerializeOutput(nOutput)` -/
def specLegacyOutput (tx : Tx) (nIn : Nat) (ht : Nat) (nOutput : Nat) : TxOut :=
  if ht &&& 0x1f = SIGHASH_SINGLE ∧ nOutput ≠ nIn then txOutDefault     -- `CTxOut()`
  else outBody (tx.output.getD nOutput default)

def specLegacyView (tx : Tx) (nIn : Nat) (scriptCode : Bytes) (ht : Nat) : LegacyView :=
  let nInputs := if ht &&& SIGHASH_ANYONECANPAY ≠ 0 then 1 else tx.input.length
  let nOutputs := if ht &&& 0x1f = SIGHASH_NONE then 0
    else if ht &&& 0x1f = SIGHASH_SINGLE then nIn + 1 else tx.output.length
  { version := tx.version,
    inputs := (List.range nInputs).map (specLegacyInput tx nIn scriptCode ht),
    outputs := (List.range nOutputs).map (specLegacyOutput tx nIn ht),
    lockTime := tx.lockTime, hashType := ht }

def serLegacy (v : LegacyView) : Bytes :=
  encLe 4 v.version ++ encVec TxIn.enc v.inputs ++ encVec TxOut.enc v.outputs ++ encLe 4 v.lockTime ++ encLe 4 v.hashType

/-- `uint256::ONE` as bytes -/
def uint256One : Bytes := 1 :: List.replicate 31 0

/-- the signing message of the legacy algorithm where one exists -/
def specLegacy (tx : Tx) (nIn : Nat) (scriptCode : Bytes) (ht : Nat) : Res Bytes :=
  if ¬ nIn < tx.input.length then .panic "assert(nIn < txTo.vin.size())"
  else .ok (serLegacy (specLegacyView tx nIn scriptCode ht))

/-- Elements Core `SignatureHash` for `SigVersion::BASE`: out-of-range SIGHASH_SINGLE yields the
    constant ONE *as the digest*, otherwise the double SHA-256 of the serialization -/
def specLegacySighash (H : SigHashes) (tx : Tx) (nIn : Nat) (scriptCode : Bytes) (ht : Nat) : Res Bytes :=
  if ¬ nIn < tx.input.length then .panic "assert(nIn < txTo.vin.size())"
  else if ht &&& 0x1f = SIGHASH_SINGLE ∧ nIn ≥ tx.output.length then .ok uint256One
  else .ok (H.sha256d (serLegacy (specLegacyView tx nIn scriptCode ht)))

/-- which outputs an algorithm commits to -/
inductive OutSel where
  | all (outs : List TxOut)
  | single (o : TxOut)
  | none
  deriving Repr, DecidableEq

/-- BIP143 preimage fields + the Elements issuance extension -/
structure SegwitView where
  version : Nat
  /-- all input outpoints (hashPrevouts), unless ANYONECANPAY -/
  prevouts : Option (List OutPoint)
  /-- all input sequences (hashSequence), unless ANYONECANPAY / SINGLE / NONE -/
  sequences : Option (List Nat)
  /-- per input: the issuance or nothing (hashIssuance), unless ANYONECANPAY -/
  issuances : Option (List (Option AssetIssuance))
  outpoint : OutPoint
  scriptCode : Bytes
  value : Value
  sequence : Nat
  issuance : Option AssetIssuance
  /-- hashOutputs: all outputs, the matching one, or nothing (zero hash) -/
  outputs : OutSel
  lockTime : Nat
  hashType : Nat
  deriving Repr, DecidableEq

def encIssuanceOpt : Option AssetIssuance → Bytes
  | some i => i.enc
  | none => [0]

def specSegwitView (tx : Tx) (nIn : Nat) (scriptCode : Bytes) (amount : Value) (ht : Nat) : Option SegwitView :=
  match tx.input[nIn]? with
  | none => none
  | some txin =>
    let acp := ht &&& SIGHASH_ANYONECANPAY ≠ 0
    let single := ht &&& 0x1f = SIGHASH_SINGLE
    let nonE := ht &&& 0x1f = SIGHASH_NONE
    some {
      version := tx.version,
      prevouts := if acp then none else some (tx.input.map (fun i => i.previousOutput)),
      sequences := if ¬ acp ∧ ¬ single ∧ ¬ nonE then some (tx.input.map (fun i => i.sequence)) else none,
      issuances := if acp then none else some (tx.input.map issuanceOf),
      outpoint := txin.previousOutput,
      scriptCode := scriptCode,
      value := amount,
      sequence := txin.sequence,
      issuance := issuanceOf txin,
      outputs :=
        if ¬ single ∧ ¬ nonE then .all (tx.output.map outBody)
        else if single ∧ nIn < tx.output.length then .single (outBody (tx.output.getD nIn default))
        else .none,
      lockTime := tx.lockTime,
      hashType := ht }

def serSegwit (H : SigHashes) (v : SegwitView) : Bytes :=
  encLe 4 v.version ++
  (match v.prevouts with
   | some l => H.sha256d (l.flatMap OutPoint.enc)
   | none => zero32) ++
  (match v.sequences with
   | some l => H.sha256d (l.flatMap (encLe 4))
   | none => zero32) ++
  (match v.issuances with
   | some l => H.sha256d (l.flatMap encIssuanceOpt)
   | none => zero32) ++
  v.outpoint.enc ++ encBytesVec v.scriptCode ++ v.value.enc ++ encLe 4 v.sequence ++
  (match v.issuance with
   | some i => i.enc
   | none => []) ++
  (match v.outputs with
   | .all l => H.sha256d (l.flatMap TxOut.enc)
   | .single o => H.sha256d o.enc
   | .none => zero32) ++
  encLe 4 v.lockTime ++ encLe 4 v.hashType

/-- BIP143 (+ issuance) message; `panic` where Core asserts `nIn < vin.size()` -/
def specSegwit (H : SigHashes) (tx : Tx) (nIn : Nat) (scriptCode : Bytes) (amount : Value) (ht : Nat) : Res Bytes :=
  match specSegwitView tx nIn scriptCode amount ht with
  | some v => .ok (serSegwit H v)
  | none => .panic "assert(nIn < txTo.vin.size())"

/-- "transaction data" of the taproot message when the type is not ANYONECANPAY -/
structure TapAllInputs where
  /-- (is_pegin, has_issuance) of every input -/
  flags : List (Bool × Bool)
  outpoints : List OutPoint
  /-- asset and amount of every spent output -/
  spentAssetAmounts : List (Asset × Value)
  spentScripts : List Bytes
  sequences : List Nat
  issuances : List (Option AssetIssuance)
  /-- both issuance range proofs of every input -/
  issuanceProofs : List (Option Bytes × Option Bytes)
  /-- `in_pos` as serialized (32 bits) -/
  index : Nat
  deriving Repr, DecidableEq

/-- "data about this input" for ANYONECANPAY -/
structure TapThisInput where
  flag : Bool × Bool
  outpoint : OutPoint
  asset : Asset
  value : Value
  script : Bytes
  sequence : Nat
  /-- issuance with its two range proofs, if the input has one -/
  issuance : Option (AssetIssuance × Option Bytes × Option Bytes)
  deriving Repr, DecidableEq

inductive TapInputs where
  | all (a : TapAllInputs)
  | one (t : TapThisInput)
  deriving Repr, DecidableEq

/-- Elements taproot signature message (BIP341 + genesis hash, outpoint flags, asset/amounts,
    issuances, issuance range proofs, output witnesses) -/
structure TaprootView where
  genesis : Bytes
  hashType : Nat
  version : Nat
  lockTime : Nat
  inputs : TapInputs
  /-- outputs with their witnesses -/
  outputs : OutSel
  annex : Option Bytes
  /-- (tapleaf hash, code separator position) for script-path spends -/
  leaf : Option (Bytes × Nat)
  deriving Repr, DecidableEq

def flagByte (f : Bool × Bool) : UInt8 :=
  UInt8.ofNat ((if f.1 then 0x40 else 0) + (if f.2 then 0x80 else 0))

def inFlag (i : TxIn) : Bool × Bool := (i.isPegin, !i.assetIssuance.isNull)

def proofsOf (i : TxIn) : Option Bytes × Option Bytes := (i.witness.amountRangeproof, i.witness.inflationKeysRangeproof)

def encProofs (p : Option Bytes × Option Bytes) : Bytes := encOptProof p.1 ++ encOptProof p.2

/-- "If hash_type & 0x80 does not equal SIGHASH_ANYONECANPAY": data of all inputs and all spent
    outputs (which must all be known); otherwise data of this input and its spent output -/
def specTapInputs (tx : Tx) (nIn : Nat) (pv : Prevouts) (ht : Nat) : Res TapInputs :=
  if ht &&& SIGHASH_INPUT_MASK = SIGHASH_ANYONECANPAY then
    match tx.input[nIn]? with
    | none => .err eIndex
    | some txin =>
      match pv.get nIn with
      | .ok spent =>
        .ok (.one {
          flag := inFlag txin, outpoint := txin.previousOutput, asset := spent.asset, value := spent.value,
          script := spent.scriptPubkey, sequence := txin.sequence,
          issuance := (issuanceOf txin).map (fun i => (i, proofsOf txin)) })
      | .err e => .err e
      | .panic s => .panic s
  else
    match pv with
    | .one _ _ => .err ePrevoutKind
    | .all ps =>
      .ok (.all {
        flags := tx.input.map inFlag, outpoints := tx.input.map (fun i => i.previousOutput),
        spentAssetAmounts := ps.map (fun p => (p.asset, p.value)),
        spentScripts := ps.map (fun p => p.scriptPubkey),
        sequences := tx.input.map (fun i => i.sequence), issuances := tx.input.map issuanceOf,
        issuanceProofs := tx.input.map proofsOf, index := nIn % 2^32 })

/-- outputs (with witnesses) selected by `hash_type & 3`; SIGHASH_DEFAULT means ALL -/
def specTapOutputs (tx : Tx) (nIn : Nat) (ht : Nat) : Res OutSel :=
  let outputType := if ht = 0 then SIGHASH_ALL else ht &&& SIGHASH_OUTPUT_MASK
  if outputType = SIGHASH_SINGLE then
    match tx.output[nIn]? with
    | none => .err eSingle
    | some o => .ok (.single o)
  else if outputType = SIGHASH_NONE then .ok .none
  else .ok (.all tx.output)

/-- a list of spent outputs, when given, has one entry per input -/
def specTapPrevoutsOk (tx : Tx) : Prevouts → Res Unit
  | .all ps => if ps.length = tx.input.length then .ok () else .err ePrevoutsSize
  | .one _ _ => .ok ()

/-- builds the committed record; errors are the validation failures of the specification
    (`hash_type`-dependent data missing) in the order the library reports them -/
def specTaprootView (tx : Tx) (nIn : Nat) (pv : Prevouts) (annex : Option Bytes)
    (leaf : Option (Bytes × Nat)) (ht : Nat) (genesis : Bytes) : Res TaprootView :=
  -- `if (!(hash_type <= 0x03 || (hash_type >= 0x81 && hash_type <= 0x83))) return false;`
  if ¬ (ht ≤ 0x03 ∨ (0x81 ≤ ht ∧ ht ≤ 0x83)) then .err eInvalidType else
  match specTapPrevoutsOk tx pv with
  | .err e => .err e
  | .panic s => .panic s
  | .ok _ =>
    match specTapInputs tx nIn pv ht with
    | .err e => .err e
    | .panic s => .panic s
    | .ok ins =>
      match specTapOutputs tx nIn ht with
      | .err e => .err e
      | .panic s => .panic s
      | .ok outs =>
        .ok { genesis := genesis, hashType := ht, version := tx.version, lockTime := tx.lockTime,
              inputs := ins, outputs := outs, annex := annex, leaf := leaf }

def serTapInputsAll (H : SigHashes) (a : TapAllInputs) : Bytes :=
  H.sha256 (a.flags.map flagByte) ++
  H.sha256 (a.outpoints.flatMap OutPoint.enc) ++
  H.sha256 (a.spentAssetAmounts.flatMap (fun p => p.1.enc ++ p.2.enc)) ++
  H.sha256 (a.spentScripts.flatMap encBytesVec) ++
  H.sha256 (a.sequences.flatMap (encLe 4)) ++
  H.sha256 (a.issuances.flatMap encIssuanceOpt) ++
  H.sha256 (a.issuanceProofs.flatMap encProofs)

def serTapThisInput (H : SigHashes) (t : TapThisInput) : Bytes :=
  [flagByte t.flag] ++ t.outpoint.enc ++ t.asset.enc ++ t.value.enc ++ encBytesVec t.script ++ encLe 4 t.sequence ++
  (match t.issuance with
   | some (i, p) => i.enc ++ H.sha256 (encProofs p)
   | none => [0])

def serTaproot (H : SigHashes) (v : TaprootView) : Bytes :=
  v.genesis ++ v.genesis ++ [UInt8.ofNat v.hashType] ++ encLe 4 v.version ++ encLe 4 v.lockTime ++
  (match v.inputs with
   | .all a => serTapInputsAll H a
   | .one _ => []) ++
  (match v.outputs with
   | .all l => H.sha256 (l.flatMap TxOut.enc) ++ H.sha256 (l.flatMap (fun o => o.witness.enc))
   | _ => []) ++
  [UInt8.ofNat ((if v.leaf.isSome then 1 else 0) * 2 + (if v.annex.isSome then 1 else 0))] ++
  (match v.inputs with
   | .all a => encLe 4 a.index
   | .one t => serTapThisInput H t) ++
  (match v.annex with
   | some a => H.sha256 (encBytesVec a)
   | none => []) ++
  (match v.outputs with
   | .single o => H.sha256 o.enc ++ H.sha256 o.witness.enc
   | _ => []) ++
  (match v.leaf with
   | some (h, pos) => h ++ [0] ++ encLe 4 pos
   | none => [])

def specTaproot (H : SigHashes) (tx : Tx) (nIn : Nat) (pv : Prevouts) (annex : Option Bytes)
    (leaf : Option (Bytes × Nat)) (ht : Nat) (genesis : Bytes) : Res Bytes :=
  (specTaprootView tx nIn pv annex leaf ht genesis).map (serTaproot H)

end Sighash
end EV
