/-
  EV.Model.TxAccessors — the transaction-level accessors and classifiers of src/transaction.rs
  (and the deprecated size aliases of src/block.rs) that the other model files do not cover:

    * `TxOut::{new_fee, is_fee, is_pegout, is_partially_blinded}`; `is_null_data`, `pegout_data`
      and `minimum_value` are `EV.Acc.{isNullData, pegoutData, minimumValue}` (EV.Model.Accessors)
      and are re-used here, not re-modelled;
    * the pegout script template that the doc comment of `TxOut::is_pegout` describes
      (`OP_RETURN <32-byte genesis hash> <non-empty script> <data pushes…>`), as the canonical
      encoding of that instruction list (what `script::Builder` writes);
    * `PeginData::to_pegin_witness` (the inverse of `EV.Acc.fromPeginWitness`);
    * `TxIn::{is_coinbase, is_pegin, pegin_prevout, has_issuance, outpoint_flag}`;
    * `Transaction::{is_coinbase, has_witness, get_size, get_weight, fee_in, all_fees}`,
      `Block::{get_size, get_weight}`;
    * `Sequence::{is_final, is_rbf, is_relative_lock_time, is_height_locked, is_time_locked,
      from_height, from_512_second_intervals, from_seconds_floor, from_seconds_ceil,
      enables_absolute_lock_time}`.

  `OutPoint`'s `Display`/`FromStr` are `EV.Text.{outPointShow, outPointParse}` (C20).

  Arithmetic on `u64` (`Iterator::sum`, `*entry += …`) follows the build profile: with overflow
  checks (debug builds, and the harness profile) an overflowing `+` panics, without them it wraps.
  Both are modelled by `addU64 checks`.  Constants of the Rust source come from `EV.Gen`.
-/
import EV.Model.Accessors
import EV.Model.ScriptSpec
import EV.Model.Block
import EV.Gen.Consts
namespace EV.TxAcc
open EV EV.Codec EV.Acc

/-! ### confidential helpers (src/confidential.rs `explicit()`, `is_explicit()`) -/

/-- `confidential::Value::explicit` -/
def valueExplicit : Value → Option Nat
  | .explicit n => some n
  | _ => none

/-- `confidential::Asset::explicit` -/
def assetExplicit : Asset → Option Bytes
  | .explicit id => some id
  | _ => none

/-- `confidential::Asset::is_confidential` -/
def assetIsConf : Asset → Bool
  | .conf _ => true
  | _ => false

/-! ### `TxOut` -/

/-- `TxOut::new_fee(amount, asset)` -/
def newFee (amount : Nat) (asset : Bytes) : TxOut :=
  { asset := .explicit asset, value := .explicit amount, nonce := .null, scriptPubkey := [],
    witness := TxOutWitness.empty }

/-- `TxOut::is_fee`:
    `self.script_pubkey.is_empty() && self.value.is_explicit() && self.asset.is_explicit()` -/
def isFee (o : TxOut) : Bool :=
  o.scriptPubkey.isEmpty && (valueExplicit o.value).isSome && (assetExplicit o.asset).isSome

/-- `TxOut::is_partially_blinded`:
    `asset.is_confidential() || value.is_confidential() || !witness.is_empty()` -/
def isPartiallyBlinded (o : TxOut) : Bool :=
  assetIsConf o.asset || o.value.isConf || !o.witness.isEmpty

/-- `TxOut::is_null_data` of an output (the script-level function is `EV.Acc.isNullData`) -/
def outIsNullData (o : TxOut) : Res Bool := Acc.isNullData o.scriptPubkey

/-- `TxOut::is_pegout`: `self.pegout_data().is_some()` -/
def isPegout (o : TxOut) : Res Bool :=
  match pegoutData o with
  | .ok d => .ok d.isSome
  | .err e => .err e
  | .panic s => .panic s

/-- conversion of the two instruction models (`EV.Script.Instr` of C16 ↔ `EV.Acc.Instr` of C10) -/
def instrOfScript : Script.Instr → Acc.Instr
  | .push d => .push d
  | .op c => .op c

/-- the instruction list of the documented pegout template:
    `OP_RETURN`, the 32-byte genesis hash, the destination script, then any further data pushes -/
def pegoutInstrs (genesis spk : Bytes) (extra : List Bytes) : List Script.Instr :=
  .op EV.Gen.opReturn :: .push genesis :: .push spk :: extra.map .push

/-- the pegout script: the canonical encoding of `pegoutInstrs` (shortest push headers), i.e. what
    `Builder::new().push_opcode(OP_RETURN).push_slice(genesis).push_slice(spk).push_slice(e)…` writes -/
def pegoutScript (genesis spk : Bytes) (extra : List Bytes) : Bytes :=
  Script.serialize (pegoutInstrs genesis spk extra)

/-- the builder calls of the template (for the bridge to the `script::Builder` model of C16) -/
def pegoutBuilderCalls (genesis spk : Bytes) (extra : List Bytes) : List Script.BOp :=
  .opcode EV.Gen.opReturn :: .slice genesis :: .slice spk :: extra.map .slice

/-! ### pegin witness -/

/-- `PeginData::to_pegin_witness`: value (8 bytes LE), asset (32 bytes), genesis hash (32 bytes),
    claim script, mainchain tx, merkle proof -/
def toPeginWitness (d : PeginData) : List Bytes :=
  [leBytes 8 d.value, d.asset, d.genesisHash, d.claimScript, d.tx, d.merkleProof]

/-- the accepted witnesses, as a plain predicate (what `from_pegin_witness` checks) -/
def peginWitnessOk (w : List Bytes) : Bool :=
  w.length == EV.Gen.txaccPeginWitnessItems &&
  decide (EV.Gen.txaccPeginHeaderLen ≤ (w.getD 5 []).length) &&
  (w.getD 0 []).length == 8 && (w.getD 1 []).length == 32 && (w.getD 2 []).length == 32

/-! ### `TxIn` -/

/-- `TxIn::is_coinbase`: `self.previous_output == OutPoint::default()` -/
def inIsCoinbase (i : TxIn) : Bool := decide (i.previousOutput = OutPoint.null)

/-- `TxIn::is_pegin` -/
def inIsPegin (i : TxIn) : Bool := i.isPegin

/-- `TxIn::pegin_prevout`: the previous output re-typed as a `bitcoin::OutPoint` (same bytes) -/
def peginPrevout (i : TxIn) : Option OutPoint :=
  if i.isPegin then some i.previousOutput else none

/-- `TxIn::outpoint_flag`: `(u8::from(is_pegin) << 6) | (u8::from(has_issuance()) << 7)` -/
def outpointFlag (i : TxIn) : Nat :=
  ((if i.isPegin then 1 else 0) <<< EV.Gen.txaccPeginFlagShift) |||
  ((if i.hasIssuance then 1 else 0) <<< EV.Gen.txaccIssuanceFlagShift)

/-! ### `Transaction`, `Block` -/

/-- `Transaction::is_coinbase`: `self.input.len() == 1 && self.input[0].is_coinbase()` -/
def txIsCoinbase (t : Tx) : Res Bool :=
  if t.input.length = 1 then
    match idx t.input 0 "transaction.rs Transaction::is_coinbase self.input[0]" with
    | .ok i => .ok (inIsCoinbase i)
    | .err e => .err e
    | .panic s => .panic s
  else .ok false

/-- `Transaction::get_size` (deprecated alias): `self.size()` -/
def txGetSize (t : Tx) : Nat := t.size
/-- `Transaction::get_weight` (deprecated alias): `self.weight()` -/
def txGetWeight (t : Tx) : Nat := t.weight
/-- `Block::get_size` (deprecated alias): `self.size()` -/
def blockGetSize (b : Block) : Nat := b.size
/-- `Block::get_weight` (deprecated alias): `self.weight()` -/
def blockGetWeight (b : Block) : Nat := b.weight

def feeOverflowSite : String := "transaction.rs fee_in/all_fees: attempt to add with overflow"

/-- `a + b` on `u64`: with overflow checks the addition panics when the sum does not fit,
    without them it wraps -/
def addU64 (checks : Bool) (a b : Nat) : Res Nat :=
  if checks = true ∧ 2^64 ≤ a + b then .panic feeOverflowSite else .ok ((a + b) % 2^64)

/-- the `filter` closure of `fee_in`: `o.is_fee() && o.asset.explicit().expect("is_fee") == asset` -/
def feeInSelect (asset : Bytes) (o : TxOut) : Res Bool :=
  if isFee o then
    match assetExplicit o.asset with
    | some a => .ok (a == asset)
    | none => .panic "transaction.rs fee_in o.asset.explicit().expect(is_fee)"
  else .ok false

/-- `filter(..).map(|o| o.value.explicit().expect("is_fee")).sum()`: the lazy iterator chain run
    by `Sum for u64` (a left fold from 0 with `+`) -/
def feeInLoop (checks : Bool) (asset : Bytes) : List TxOut → Nat → Res Nat
  | [], acc => .ok acc
  | o :: rest, acc =>
    match feeInSelect asset o with
    | .panic s => .panic s
    | .err e => .err e
    | .ok false => feeInLoop checks asset rest acc
    | .ok true =>
      match valueExplicit o.value with
      | none => .panic "transaction.rs fee_in o.value.explicit().expect(is_fee)"
      | some v =>
        match addU64 checks acc v with
        | .ok acc' => feeInLoop checks asset rest acc'
        | .err e => .err e
        | .panic s => .panic s

/-- `Transaction::fee_in(asset)` -/
def feeIn (checks : Bool) (t : Tx) (asset : Bytes) : Res Nat := feeInLoop checks asset t.output 0

/-- the `HashMap<AssetId, u64>` of `all_fees` as an association list in first-insertion order
    (the iteration order of the real map is unspecified; observers sort by key) -/
abbrev FeeMap := List (Bytes × Nat)

/-- `let entry = fees.entry(asset).or_insert(0); *entry += v;` -/
def feeMapAdd (checks : Bool) : FeeMap → Bytes → Nat → Res FeeMap
  | [], k, v =>
    match addU64 checks 0 v with
    | .ok s => .ok [(k, s)]
    | .err e => .err e
    | .panic s => .panic s
  | (k', x) :: rest, k, v =>
    if k' = k then
      match addU64 checks x v with
      | .ok s => .ok ((k', s) :: rest)
      | .err e => .err e
      | .panic s => .panic s
    else
      match feeMapAdd checks rest k v with
      | .ok rest' => .ok ((k', x) :: rest')
      | .err e => .err e
      | .panic s => .panic s

/-- the loop of `all_fees` over `self.output.iter().filter(|o| o.is_fee())` -/
def allFeesLoop (checks : Bool) : List TxOut → FeeMap → Res FeeMap
  | [], m => .ok m
  | o :: rest, m =>
    if isFee o then
      match assetExplicit o.asset with
      | none => .panic "transaction.rs all_fees out.asset.explicit().expect(is_fee)"
      | some a =>
        match valueExplicit o.value with
        | none => .panic "transaction.rs all_fees out.value.explicit().expect(is_fee)"
        | some v =>
          match feeMapAdd checks m a v with
          | .ok m' => allFeesLoop checks rest m'
          | .err e => .err e
          | .panic s => .panic s
    else allFeesLoop checks rest m

/-- `Transaction::all_fees` -/
def allFees (checks : Bool) (t : Tx) : Res FeeMap := allFeesLoop checks t.output []

/-- `map.get(&k).copied().unwrap_or(0)` -/
def feeMapGet (m : FeeMap) (k : Bytes) : Nat := (m.lookup k).getD 0

/-! #### specification of the fee accounting -/

/-- the explicit value of an output (0 when it has none) -/
def explicitValueD (o : TxOut) : Nat := (valueExplicit o.value).getD 0

/-- the outputs that count as fee in `asset` -/
def feeOutputs (outs : List TxOut) (asset : Bytes) : List TxOut :=
  outs.filter (fun o => isFee o && decide (o.asset = .explicit asset))

/-- SPEC: the mathematical (unbounded) sum of the explicit values of the fee outputs in `asset` -/
def feeSum (outs : List TxOut) (asset : Bytes) : Nat :=
  ((feeOutputs outs asset).map explicitValueD).sum

/-! ### `Sequence` -/

/-- `Sequence::is_final`: `*self == Sequence::MAX` -/
def seqIsFinal (n : Nat) : Bool := n == EV.Gen.txaccSeqMax
/-- `Sequence::is_rbf`: `*self < Sequence::MIN_NO_RBF` -/
def seqIsRbf (n : Nat) : Bool := decide (n < EV.Gen.txaccSeqMinNoRbf)
/-- `Sequence::is_relative_lock_time`: `self.0 & LOCK_TIME_DISABLE_FLAG_MASK == 0` -/
def seqIsRelativeLockTime (n : Nat) : Bool := n &&& EV.Gen.txaccSeqLockTimeDisableFlagMask == 0
/-- `Sequence::is_height_locked` -/
def seqIsHeightLocked (n : Nat) : Bool := seqIsRelativeLockTime n && (n &&& EV.Gen.txaccSeqLockTypeMask == 0)
/-- `Sequence::is_time_locked` -/
def seqIsTimeLocked (n : Nat) : Bool := seqIsRelativeLockTime n && decide (n &&& EV.Gen.txaccSeqLockTypeMask > 0)
/-- `Sequence::enables_absolute_lock_time`: `!self.is_final()` -/
def seqEnablesAbsoluteLockTime (n : Nat) : Bool := !seqIsFinal n
/-- `Sequence::from_height(height: u16)` -/
def seqFromHeight (h : Nat) : Nat := h
/-- `Sequence::from_512_second_intervals(intervals: u16)` -/
def seqFrom512 (iv : Nat) : Nat := iv ||| EV.Gen.txaccSeqLockTypeMask
/-- `Sequence::from_seconds_floor(seconds: u32)`: `u16::try_from(seconds / 512)` -/
def seqFromSecondsFloor (s : Nat) : Res Nat :=
  let iv := s / EV.Gen.txaccSeqSecondsPerInterval
  if iv < 2^16 then .ok (seqFrom512 iv) else .err "IntegerOverflow"
/-- `Sequence::from_seconds_ceil(seconds: u32)`: `u16::try_from(seconds.div_ceil(512))` -/
def seqFromSecondsCeil (s : Nat) : Res Nat :=
  let iv := (s + (EV.Gen.txaccSeqSecondsPerInterval - 1)) / EV.Gen.txaccSeqSecondsPerInterval
  if iv < 2^16 then .ok (seqFrom512 iv) else .err "IntegerOverflow"

end EV.TxAcc
