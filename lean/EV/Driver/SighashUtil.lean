import EV.Driver.Util
import EV.Model.SighashCache
/-! parsing of the one-line scenarios shared by the C03 (`sighash`, `sigvec`) and C13 (`cacheseq`) ops -/
namespace EV.Driver.SighashUtil
open EV EV.Driver EV.Codec EV.Sighash

/-- decoding without the (expensive) curve-point / proof validity checks: the scenarios carry
    serializations of values the real library already accepted (C01 compares the checks themselves) -/
def lax (P : Prims) : Prims :=
  { P with commitment := fun _ => true, generator := fun _ => true, pubkey := fun _ => true,
           tweak := fun _ => true, rangeproof := fun _ => true, surjproof := fun _ => true }

def sigHashes : SigHashes := { sha256 := Sha256.sha256, sha256d := Sha256.sha256d, tagged := Sha256.tagged }

/-- comma separated list of consensus-encoded `TxOut`s, `-` = empty list -/
def parsePrevouts (P : Prims) (s : String) : Option (List TxOut) :=
  if s == "-" then some [] else
  (s.splitOn ",").mapM fun h =>
    match Hex.decode h with
    | some b => match TxOut.dec P b with
      | .ok (o, []) => some o
      | _ => none
    | none => none

def parseEcdsa (s : String) : Option EcdsaTy := s.toNat?.bind EcdsaTy.fromStandard

/-- decimal `u8`; 255 denotes the public `Reserved` variant, everything else goes through `from_u8` -/
def parseSchnorr (s : String) : Option SchnorrTy :=
  match s.toNat? with
  | some n => if n == Gen.schnorrReserved then some .reserved else SchnorrTy.fromU8 n
  | none => none

/-- `A` = `Prevouts::All(ps)`, `O<j>` = `Prevouts::One(j, ps[j])` (`TxOut::default()` if `j` is out of range) -/
def parsePv (ps : List TxOut) (s : String) : Option Prevouts :=
  if s == "A" then some (.all ps)
  else if s.startsWith "O" then
    match (s.drop 1).toString.toNat? with
    | some j => some (.one j (ps.getD j txOutDefault))
    | none => none
  else none

/-- `-` = no annex, `a<hex>` = `Annex::new(bytes)` (checked when the query runs) -/
def parseAnnex (s : String) : Option (Option Bytes) :=
  if s == "-" then some none
  else if s.startsWith "a" then
    let h := (s.drop 1).toString
    if h.isEmpty then some (some []) else (Hex.decodeChars h.toList).map some
  else none

/-- `-`, `h<32 bytes hex>` (a leaf hash) or `s<version byte hex><script hex>` (`ScriptPath::new(..).leaf_hash()`) -/
def parseLeaf (s : String) : Option (Option Bytes) :=
  if s == "-" then some none
  else if s.startsWith "h" then (Hex.decodeChars (s.drop 1).toString.toList).map some
  else if s.startsWith "s" then
    match Hex.decodeChars (s.drop 1).toString.toList with
    | some (v :: script) => some (some (tapLeafHash sigHashes script v.toNat))
    | _ => none
  else none

inductive Item where
  | op (o : Op)
  /-- a taproot query whose annex is rejected by `Annex::new` before the cache is touched -/
  | annexErr
  deriving Repr

def annexOk : Option Bytes → Bool
  | none => true
  | some b => b.head? == some 0x50

def parseQuery (P : Prims) (ps : List TxOut) (genesis : Bytes) (s : String) : Option Item :=
  match s.splitOn ":" with
  | ["L", idx, ty, script] =>
    match idx.toNat?, parseEcdsa ty, Hex.decode script with
    | some i, some t, some sc => some (.op (.q (.legacy i sc t)))
    | _, _, _ => none
  | ["S", idx, ty, script, value] =>
    match idx.toNat?, parseEcdsa ty, Hex.decode script, Hex.decode value with
    | some i, some t, some sc, some vb =>
      match Value.dec P vb with
      | .ok (v, []) => some (.op (.q (.segwit i sc v t)))
      | _ => none
    | _, _, _, _ => none
  | ["TG", idx, ty, pv, annex, leaf, codesep] =>
    match idx.toNat?, parseSchnorr ty, parsePv ps pv, parseAnnex annex, parseLeaf leaf, codesep.toNat? with
    | some i, some t, some p, some a, some l, some cs =>
      if annexOk a then some (.op (.q (.taproot i p a (l.map (fun h => (h, cs))) t genesis))) else some .annexErr
    | _, _, _, _, _, _ => none
  | ["TK", idx, ty, pv] =>
    match idx.toNat?, parseSchnorr ty, parsePv ps pv with
    | some i, some t, some p => some (.op (.q (Query.taprootKey i p t genesis)))
    | _, _, _ => none
  | ["TS", idx, ty, pv, leaf] =>
    match idx.toNat?, parseSchnorr ty, parsePv ps pv, parseLeaf leaf with
    | some i, some t, some p, some (some h) => some (.op (.q (Query.taprootScript i p h t genesis)))
    | _, _, _, _ => none
  | ["W", idx, stack] =>
    match idx.toNat?, Hex.decode stack with
    | some i, some b =>
      match bytesVecVec b with
      | .ok (st, []) => some (.op (.w i st))
      | _ => none
    | _, _ => none
  | _ => none

/-- only `PrevoutKind` is named by the property; every other error is `err` -/
def resStr : Res Bytes → String
  | .ok d => Hex.enc d
  | .err k => if k == ePrevoutKind then "errPrevoutKind" else "err"
  | .panic _ => "panic"

def outStr : Out → String
  | .digest r => resStr r
  | .wit true => "some"
  | .wit false => "none"

end EV.Driver.SighashUtil
