import EV.Driver.Util
import EV.Model.Transaction
/-!
  In-memory transport of a transaction for the line protocol.

  The consensus encoding cannot carry every in-memory `Transaction`: an input whose outpoint index is
  0xffffffff swallows the pegin / issuance flag bits, and the decoder then reads neither flag nor issuance
  (`impl Decodable for TxIn`). The real code nevertheless computes on such values (sizes, taproot outpoint
  flags, issuance ids). `memtx` carries every FIELD separately, so the model sees exactly the value the real
  code holds:

    version(4 LE) ‖ lock_time(4 LE) ‖ varint #inputs ‖ inputs ‖ varint #outputs ‖ outputs
    input  = outpoint(36) ‖ is_pegin(1) ‖ script_sig(var bytes) ‖ sequence(4 LE) ‖ AssetIssuance(enc) ‖ TxInWitness(enc)
    output = TxOut(enc, without witness) ‖ TxOutWitness(enc)

  An argument `m:<hex>` in place of `<txhex>` selects this format (`decodeTxArg`).
-/
namespace EV.Driver.MemTx
open EV EV.Codec

def encIn (i : TxIn) : Bytes :=
  i.previousOutput.enc ++ [if i.isPegin then 1 else 0] ++ encBytesVec i.scriptSig ++ encLe 4 i.sequence
    ++ i.assetIssuance.enc ++ i.witness.enc

def encOut (o : TxOut) : Bytes := o.enc ++ o.witness.enc

def enc (t : Tx) : Bytes :=
  encLe 4 t.version ++ encLe 4 t.lockTime ++ encVec encIn t.input ++ encVec encOut t.output

def decIn (P : Prims) : Dec TxIn := fun bs =>
  match OutPoint.dec bs with
  | .ok (op, r1) =>
    match u8 r1 with
    | .ok (pg, r2) =>
      if pg > 1 then .err "bad pegin byte" else
      match bytesVec r2 with
      | .ok (ss, r3) =>
        match le 4 r3 with
        | .ok (sq, r4) =>
          match AssetIssuance.dec P r4 with
          | .ok (iss, r5) =>
            match TxInWitness.dec P r5 with
            | .ok (w, r6) =>
              .ok ({ previousOutput := op, isPegin := pg == 1, scriptSig := ss, sequence := sq,
                     assetIssuance := iss, witness := w }, r6)
            | .err e => .err e
            | .panic s => .panic s
          | .err e => .err e
          | .panic s => .panic s
        | .err e => .err e
        | .panic s => .panic s
      | .err e => .err e
      | .panic s => .panic s
    | .err e => .err e
    | .panic s => .panic s
  | .err e => .err e
  | .panic s => .panic s

def decOut (P : Prims) : Dec TxOut := fun bs =>
  match TxOut.dec P bs with
  | .ok (o, r1) =>
    match TxOutWitness.dec P r1 with
    | .ok (w, r2) => .ok ({ o with witness := w }, r2)
    | .err e => .err e
    | .panic s => .panic s
  | .err e => .err e
  | .panic s => .panic s

def dec (P : Prims) : Dec Tx := fun bs =>
  match le 4 bs with
  | .ok (v, r1) =>
    match le 4 r1 with
    | .ok (lt, r2) =>
      match vecOf 1 (decIn P) r2 with
      | .ok (ins, r3) =>
        match vecOf 1 (decOut P) r3 with
        | .ok (outs, r4) => .ok ({ version := v, lockTime := lt, input := ins, output := outs }, r4)
        | .err e => .err e
        | .panic s => .panic s
      | .err e => .err e
      | .panic s => .panic s
    | .err e => .err e
    | .panic s => .panic s
  | .err e => .err e
  | .panic s => .panic s

/-- `<txhex>` (consensus encoding, whole slice) or `m:<hex>` (field-wise in-memory transport) -/
def decodeTxArg (P : Prims) (arg : String) : Option Tx :=
  if arg.startsWith "m:" then
    match Hex.decode (arg.drop 2).toString with
    | some b => match dec P b with
      | .ok (t, []) => some t
      | _ => none
    | none => none
  else
    match Hex.decode arg with
    | some b => match Tx.deserialize P b with
      | .ok t => some t
      | _ => none
    | none => none

end EV.Driver.MemTx
