import EV.Model.Bytes
import EV.Model.Sha256
import EV.Model.Secp
import EV.Model.Block
namespace EV.Driver

structure Cfg where
  sizeTxIn : Nat := 328
  sizeTxOut : Nat := 160
  sizeTx : Nat := 56

abbrev Handler := Cfg → List String → String

def Cfg.prims (c : Cfg) : Prims := Secp.prims c.sizeTxIn c.sizeTxOut c.sizeTx

def chunk32 : Nat → Bytes → List Bytes
  | 0, _ => []
  | n+1, bs => bs.take 32 :: chunk32 n (bs.drop 32)

def okHex (b : Bytes) : String := "ok " ++ Hex.enc b

def resStr {α} (f : α → String) : Res α → String
  | .ok a => "ok " ++ f a
  | .err _ => "err"
  | .panic _ => "panic"

def midComb (l r : Bytes) : Bytes := Sha256.midstate l r
def zero32 : Bytes := List.replicate 32 0

def hashes : Hashes := { sha256d := Sha256.sha256d, comb := midComb }

def withHex (s : String) (f : Bytes → String) : String :=
  match Hex.decode s with
  | some b => f b
  | none => "bad-op"

def optHex : Option Bytes → String
  | some b => okHex b
  | none => "panic"

end EV.Driver
