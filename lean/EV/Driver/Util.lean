import EV.Model.Bytes
import EV.Model.Sha256
namespace EV.Driver

abbrev Handler := List String → String

def chunk32 : Nat → Bytes → List Bytes
  | 0, _ => []
  | n+1, bs => bs.take 32 :: chunk32 n (bs.drop 32)

def okHex (b : Bytes) : String := "ok " ++ Hex.enc b

def resStr {α} (f : α → String) : Res α → String
  | .ok a => "ok " ++ f a
  | .err _ => "err"
  | .panic _ => "panic"

def midComb (l r : Bytes) : Bytes := Sha256.midstate l r
def zero32 : Bytes := List.replicate 32 0

end EV.Driver
