import EV.Driver.Util
import EV.Model.ScriptAsm
import EV.Model.Ripemd160
namespace EV.Driver.C16Asm
open EV EV.Driver EV.Script

def optClass : Option Opcodes.Class → String
  | some c => c.str
  | none => "panic"

/-- `opinfo <byte>` → Display name, classify(Legacy), classify(TapScript), try_from_all().into_u8() -/
def opinfoOp : Handler
  | _, [b] =>
    match b.toNat? with
    | some n =>
      if n < 256 then
        let c := UInt8.ofNat n
        let t := match Opcodes.tryFromAll c with | some o => toString o.toNat | none => "none"
        s!"ok {String.ofList (Opcodes.name c)} {optClass (Opcodes.classify .legacy c)} {optClass (Opcodes.classify .tapScript c)} {t}"
      else "bad-op"
    | none => "bad-op"
  | _, _ => "bad-op"

def hexNoDash (b : Bytes) : String := String.ofList (lowerHex b)

/-- `asm <script>` → `[asm]` `[{:?}]` `{:x}` `{:X}` -/
def asmOp : Handler
  | _, [h] => withHex h fun s =>
    match asm s, debug s with
    | some a, some d => s!"ok [{String.ofList a}] [{String.ofList d}] x{hexNoDash s} X{String.ofList (upperHex s)}"
    | _, _ => "panic"
  | _, _ => "bad-op"

def hashes : ScriptHashes :=
  { hash160 := fun b => Ripemd160.ripemd160 (Sha256.sha256 b), sha256 := Sha256.sha256 }

/-- `scripthash <script>` → script_hash, wscript_hash, to_p2sh, to_v0_p2wsh -/
def scripthashOp : Handler
  | _, [h] => withHex h fun s =>
    match toP2sh hashes s, toV0P2wsh hashes s with
    | some a, some b => s!"ok {Hex.enc (hashes.hash160 s)} {Hex.enc (hashes.sha256 s)} {Hex.enc a} {Hex.enc b}"
    | _, _ => "panic"
  | _, _ => "bad-op"

/-- `newopret <data>` → Script::new_op_return(data) and its asm -/
def newopretOp : Handler
  | _, [h] => withHex h fun d =>
    match newOpReturn d with
    | some s =>
      (match asm s with
       | some a => s!"ok {Hex.enc s} [{String.ofList a}]"
       | none => "panic")
    | none => "panic"
  | _, _ => "bad-op"

/-- `builderfrom <bytes>` → Builder::from(bytes).push_verify().into_script() -/
def builderfromOp : Handler
  | _, [h] => withHex h fun v => okHex (Builder.ofBytes v).pushVerify.bytes
  | _, _ => "bad-op"

/-- `scriptnum <i64>` → push_scriptint script, push_int script, read_scriptint of build_scriptint -/
def scriptnumOp : Handler
  | _, [n] =>
    match n.toInt? with
    | some i =>
      match Builder.new.pushScriptInt i, Builder.new.pushInt i with
      | some a, some b =>
        s!"ok {Hex.enc a.bytes} {Hex.enc b.bytes} {resStr (fun (x : Int) => toString x) (readScriptInt (buildScriptInt i))}"
      | _, _ => "panic"
    | none => "bad-op"
  | _, _ => "bad-op"

/-- `scriptintrt <bytes>` → read_scriptint, then build_scriptint of the value -/
def scriptintrtOp : Handler
  | _, [h] => withHex h fun v =>
    match readScriptInt v with
    | .ok i => s!"ok {i} {Hex.enc (buildScriptInt i)}"
    | .err _ => "err"
    | .panic _ => "panic"
  | _, _ => "bad-op"

def ops : List (String × Handler) :=
  [("opinfo", opinfoOp), ("asm", asmOp), ("scripthash", scripthashOp), ("newopret", newopretOp),
   ("builderfrom", builderfromOp), ("scriptnum", scriptnumOp), ("scriptintrt", scriptintrtOp)]
end EV.Driver.C16Asm
