import EV.Driver.Util
import EV.Driver.C06
import EV.Driver.C15
import EV.Model.AddressOps
import EV.Model.Ripemd160
/-
  Driver ops of the "conversions and constructors" part of C06 (`EV.Model.AddressOps`).
  Address descriptions are those of `EV.Driver.C06` (`<NETWORK> pkh|sh <hash> <blinder|->` /
  `<NETWORK> wit <ver> <prog> <blinder|->`); text is plain ASCII on the output side, hex on the input side.
-/
namespace EV.Driver.C06Ops
open EV EV.Driver EV.Bech32 EV.Addr EV.Driver.C17 EV.Driver.C06

def tf (b : Bool) : String := if b then "1" else "0"

def ctorHashes : CtorHashes :=
  { hash160 := fun b => Ripemd160.ripemd160 (Sha256.sha256 b), sha256 := Sha256.sha256 }

def spkStr (a : Address) : String :=
  match scriptPubkey a with
  | some s => Hex.enc s
  | none => "panic"

/-- `addr.conf <address text hex> <pubkey hex|->` → text of `to_confidential(key)` (`-` without a key), text of
    `to_unconfidential()`, `is_blinded`, `is_liquid`, `script_pubkey` hex — of the address `from_str` returns -/
def confOp : Handler
  | _, [s, k] => withHex s fun sb =>
    match blinderOf k with
    | none => "bad-op"
    | some key =>
      match fromStr prims (toText sb) with
      | .ok a =>
        let conf := match key with
          | some kb => textStr (display prims (toConfidential a kb))
          | none => "-"
        s!"ok {conf} {textStr (display prims (toUnconfidential a))} {tf (isBlinded a)} {tf (isLiquid a)} {spkStr a}"
      | .err _ => "err"
      | .panic _ => "panic"
  | _, _ => "bad-op"

/-- `addr.spk <address description>` → `script_pubkey` hex, then `from_script` of it with the same blinder and
    network (`none` if it has no address) -/
def spkOp : Handler
  | _, net :: rest =>
    match mkAddr net rest with
    | some a =>
      match scriptPubkey a with
      | none => "panic"
      | some s =>
        let back := match fromScript s a.blinder a.params with
          | some b => addrStr b
          | none => "none"
        s!"ok {Hex.enc s} {tf (isBlinded a)} {tf (isLiquid a)} {back}"
    | none => "bad-op"
  | _, _ => "bad-op"

/-- `addr.fromscript <NETWORK> <script hex> <blinder hex|->` → address description or `none` -/
def fromScriptOp : Handler
  | _, [net, s, b] =>
    match netOf net, Hex.decode s, blinderOf b with
    | some p, some sb, some bl =>
      match fromScript sb bl p with
      | some a => "ok " ++ addrStr a
      | none => "none"
    | _, _, _ => "bad-op"
  | _, _ => "bad-op"

/-- `addr.isliquid <p2pkh> <p2sh> <blinded> <bech hrp hex> <blech hrp hex>` → `is_liquid` of an address whose
    `params` point to a parameter set with these values -/
def isLiquidOp : Handler
  | _, [a, b, c, h1, h2] =>
    match a.toNat?, b.toNat?, c.toNat?, Hex.decode h1, Hex.decode h2 with
    | some a, some b, some c, some h1, some h2 =>
      let p : Gen.AddrParamsB := { name := "custom", p2pkh := a, p2sh := b, blinded := c, bechHrp := toText h1, blechHrp := toText h2 }
      "ok " ++ tf (isLiquid { params := p, payload := .pkh [], blinder := none })
    | _, _, _, _, _ => "bad-op"
  | _, _ => "bad-op"

def resAddrFull : Res Address → String
  | .ok a => s!"ok {addrStr a} {textStr (display prims a)} {spkStr a}"
  | .err _ => "err"
  | .panic _ => "panic"

/-- `addr.ctor p2pkh|p2wpkh|p2shwpkh <NETWORK> <key serialization hex> <compressed 0|1> <blinder hex|->` and
    `addr.ctor p2sh|p2wsh|p2shwsh <NETWORK> <script hex> - <blinder hex|->` → description, text, script -/
def ctorOp : Handler
  | _, [kind, net, d, c, b] =>
    match netOf net, Hex.decode d, blinderOf b with
    | some p, some d, some bl =>
      let pk : BtcKey := { compressed := c == "1", ser := d }
      match kind with
      | "p2pkh" => resAddrFull (.ok (p2pkh ctorHashes pk bl p))
      | "p2sh" => resAddrFull (.ok (p2sh ctorHashes d bl p))
      | "p2wpkh" => resAddrFull (p2wpkh ctorHashes pk bl p)
      | "p2shwpkh" => resAddrFull (p2shwpkh ctorHashes pk bl p)
      | "p2wsh" => resAddrFull (.ok (p2wsh ctorHashes d bl p))
      | "p2shwsh" => resAddrFull (p2shwsh ctorHashes d bl p)
      | _ => "bad-op"
    | _, _, _ => "bad-op"
  | _, _ => "bad-op"

/-- `addr.p2tr <NETWORK> <internal key hex> <merkle root hex|none> <blinder hex|-> <Q hex|none> <parity 0|1>`:
    the tweak hash (tagged SHA-256) and its range check are computed here; the EC addition is the oracle `Q`,
    which the harness computes on a path that does not go through `Address::p2tr` / `tap_tweak` -/
def p2trOp : Handler
  | _, [net, k, r, b, q, par] =>
    let root := if r == "none" then some none else (Hex.decode r).map some
    let oracle := if q == "none" then some none else (Hex.decode q).map (fun qb => some (qb, par == "1"))
    match netOf net, Hex.decode k, root, blinderOf b, oracle with
    | some p, some k, some root, some bl, some oracle =>
      resAddrFull (p2tr (C15.ecWith oracle) C15.tapHashes k root bl p)
    | _, _, _, _, _ => "bad-op"
  | _, _ => "bad-op"

/-- `addr.p2trtw <NETWORK> <output key hex> <blinder hex|->` -/
def p2trTweakedOp : Handler
  | _, [net, k, b] =>
    match netOf net, Hex.decode k, blinderOf b with
    | some p, some k, some bl => resAddrFull (.ok (p2trTweaked k bl p))
    | _, _, _ => "bad-op"
  | _, _ => "bad-op"

def ops : List (String × Handler) :=
  [("addr.conf", confOp), ("addr.spk", spkOp), ("addr.fromscript", fromScriptOp), ("addr.isliquid", isLiquidOp),
   ("addr.ctor", ctorOp), ("addr.p2tr", p2trOp), ("addr.p2trtw", p2trTweakedOp)]
end EV.Driver.C06Ops
