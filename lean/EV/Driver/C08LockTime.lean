import EV.Driver.Util
import EV.Model.LockTime
/-!
  Driver ops for EV.Model.LockTime (model growth of C08): `LockTime` / `Height` / `Time`
  (src/locktime.rs) and `Sequence` (src/transaction.rs), one op per function or small group.
  Numbers are decimal; text arguments are hex of the UTF-8 bytes (`-` = empty).
-/
namespace EV.Driver.C08LockTime
open EV EV.Driver EV.Lock

def b01 (b : Bool) : String := if b then "1" else "0"

def ltStr : LockTime → String
  | .blocks h => s!"H:{h.n}"
  | .seconds t => s!"T:{t.n}"

def ordStr : Ordering → String
  | .lt => "lt"
  | .eq => "eq"
  | .gt => "gt"

def nat1 (args : List String) (f : Nat → String) : String :=
  match args with
  | [a] => match a.toNat? with | some n => f n | none => "bad-op"
  | _ => "bad-op"

def nat2 (args : List String) (f : Nat → Nat → String) : String :=
  match args with
  | [a, b] => match a.toNat?, b.toNat? with | some x, some y => f x y | _, _ => "bad-op"
  | _ => "bad-op"

/-- text argument: hex of the UTF-8 bytes; only ASCII is produced by the harness for these ops, any other
    byte is mapped to a character outside the digit alphabet (an invalid digit for both sides) -/
def textArg (s : String) : Option (List Char) :=
  if s == "-" then some [] else
  (Hex.decode s).map fun bs => bs.map fun b => Char.ofNat b.toNat

/-- `lt.fromconsensus <n>` → `ok <H|T>:<inner> <to_consensus_u32> <is_block_height><is_block_time>` -/
def fromConsensusOp : Handler := fun _ args => nat1 args fun n =>
  resStr (fun l => s!"{ltStr l} {l.toConsensusU32} {b01 l.isBlockHeight}{b01 l.isBlockTime}") (LockTime.fromConsensus n)

/-- `lt.fromheight <n>` / `lt.fromtime <n>` → `ok <H|T>:<inner>` / `err` -/
def fromHeightOp : Handler := fun _ args => nat1 args fun n => resStr ltStr (LockTime.fromHeight n)
def fromTimeOp : Handler := fun _ args => nat1 args fun n => resStr ltStr (LockTime.fromTime n)

/-- `lt.height <n>`: `Height::from_consensus` → `ok <to_consensus_u32> <LockTime::from(h)> <Display>` / `err` -/
def heightOp : Handler := fun _ args => nat1 args fun n =>
  resStr (fun h => s!"{h.toConsensusU32} {ltStr (LockTime.ofHeight h)} {String.ofList h.display}") (Height.fromConsensus n)
/-- `lt.time <n>`: `Time::from_consensus` -/
def timeOp : Handler := fun _ args => nat1 args fun n =>
  resStr (fun t => s!"{t.toConsensusU32} {ltStr (LockTime.ofTime t)} {String.ofList t.display}") (Time.fromConsensus n)

/-- `lt.sameunit <a> <b>` → `ok <is_same_unit>` (both through `from_consensus`) -/
def sameUnitOp : Handler := fun _ args => nat2 args fun a b =>
  match LockTime.fromConsensus a, LockTime.fromConsensus b with
  | .ok x, .ok y => "ok " ++ b01 (x.isSameUnit y)
  | .panic _, _ => "panic"
  | _, .panic _ => "panic"
  | _, _ => "err"

/-- `lt.satisfied <n> <height> <time>` → `ok <is_satisfied_by>`; `err` when `height`/`time` is not a value
    of its type (`Height::from_consensus` / `Time::from_consensus` fails) -/
def satisfiedOp : Handler
  | _, [n, h, t] =>
    match n.toNat?, h.toNat?, t.toNat? with
    | some n, some h, some t =>
      match LockTime.fromConsensus n, Height.fromConsensus h, Time.fromConsensus t with
      | .ok l, .ok h, .ok t => "ok " ++ b01 (l.isSatisfiedBy h t)
      | .panic _, _, _ => "panic"
      | _, .panic _, _ => "panic"
      | _, _, .panic _ => "panic"
      | _, _, _ => "err"
    | _, _, _ => "bad-op"
  | _, _ => "bad-op"

/-- `lt.cmp <a> <b>` → `ok <partial_cmp: lt|eq|gt|none> <a<b><a<=b><a>b><a>=b>` -/
def cmpOp : Handler := fun _ args => nat2 args fun a b =>
  match LockTime.fromConsensus a, LockTime.fromConsensus b with
  | .ok x, .ok y =>
    let c := match LockTime.partialCmp x y with | some o => ordStr o | none => "none"
    s!"ok {c} {b01 (x.lt y)}{b01 (x.le y)}{b01 (x.gt y)}{b01 (x.ge y)}"
  | .panic _, _ => "panic"
  | _, .panic _ => "panic"
  | _, _ => "err"

/-- `lt.display <n>` → `ok <{}>|<{:#}>` -/
def displayOp : Handler := fun _ args => nat1 args fun n =>
  resStr (fun l => String.ofList (l.display false) ++ "|" ++ String.ofList (l.display true)) (LockTime.fromConsensus n)

/-- `lt.parse <locktime|height|time|sequence> <text hex>` → `FromStr` of the type: `ok <value>` / `err` -/
def parseOp : Handler
  | _, [kind, h] =>
    match textArg h with
    | none => "bad-op"
    | some cs =>
      match kind with
      | "locktime" => resStr ltStr (LockTime.fromStr cs)
      | "height" => resStr (fun h => toString h.n) (Height.fromStr cs)
      | "time" => resStr (fun t => toString t.n) (Time.fromStr cs)
      | "sequence" => resStr (fun s => toString s.n) (Sequence.fromStr cs)
      | _ => "bad-op"
  | _, _ => "bad-op"

/-- `lt.zero` → `ok <LockTime::ZERO> <Height::ZERO>` -/
def zeroOp : Handler := fun _ _ => s!"ok {ltStr LockTime.zero} {Height.zero.n}"

def seqFlags (s : Sequence) : String :=
  b01 s.isFinal ++ b01 s.isRbf ++ b01 s.isRelativeLockTime ++ b01 s.isHeightLocked ++ b01 s.isTimeLocked ++
    b01 s.enablesAbsoluteLockTime

/-- `seq.class <n>` → `ok <is_final><is_rbf><is_relative_lock_time><is_height_locked><is_time_locked><enables_absolute_lock_time> <to_consensus_u32> <u32::from>` -/
def seqClassOp : Handler := fun _ args => nat1 args fun n =>
  let s := Sequence.fromConsensus n
  s!"ok {seqFlags s} {s.toConsensusU32} {s.toConsensusU32}"

/-- `seq.fromheight <u16>` / `seq.from512 <u16>` → `ok <to_consensus_u32> <flags>` -/
def seqFromHeightOp : Handler := fun _ args => nat1 args fun h =>
  let s := Sequence.fromHeight h
  s!"ok {s.n} {seqFlags s}"
def seqFrom512Op : Handler := fun _ args => nat1 args fun i =>
  let s := Sequence.from512SecondIntervals i
  s!"ok {s.n} {seqFlags s}"

/-- `seq.floor <seconds>` / `seq.ceil <seconds>` → `ok <to_consensus_u32>` / `err` -/
def seqFloorOp : Handler := fun _ args => nat1 args fun n => resStr (fun s => toString s.n) (Sequence.fromSecondsFloor n)
def seqCeilOp : Handler := fun _ args => nat1 args fun n => resStr (fun s => toString s.n) (Sequence.fromSecondsCeil n)

/-- `seq.consts` → `ok <MAX> <ZERO> <ENABLE_LOCKTIME_NO_RBF> <ENABLE_RBF_NO_LOCKTIME> <default()>` -/
def seqConstsOp : Handler := fun _ _ =>
  s!"ok {Sequence.max.n} {Sequence.zero.n} {Sequence.enableLocktimeNoRbf.n} {Sequence.enableRbfNoLocktime.n} {Sequence.default.n}"

/-- `seq.fmt <n>` → `ok <{}> <{:x}> <{:X}>` -/
def seqFmtOp : Handler := fun _ args => nat1 args fun n =>
  let s := Sequence.fromConsensus n
  s!"ok {String.ofList s.display} {String.ofList s.lowerHex} {String.ofList s.upperHex}"

/-- `seq.cmp <a> <b>` → `ok <cmp>` (derived `Ord`) -/
def seqCmpOp : Handler := fun _ args => nat2 args fun a b => "ok " ++ ordStr (Sequence.cmp ⟨a⟩ ⟨b⟩)

def optNat (s : String) : Option (Option Nat) :=
  if s == "-" then some none else s.toNat?.map some

def parseTypedReq (s : String) : Option TypedReq :=
  match s.splitOn ":" with
  | [t, h] =>
    match optNat t, optNat h with
    | some t, some h => some (t.map Time.mk, h.map Height.mk)
    | _, _ => none
  | _ => none

def parseTypedReqs (s : String) : Option (List TypedReq) :=
  if s == "-" then some []
  else (s.splitOn ",").foldr (fun x acc => match parseTypedReq x, acc with
    | some r, some l => some (r :: l)
    | _, _ => none) (some [])

/-- `pset.locktimetyped <fallback|-> <t?:h?,…|->` → the `LockTime` that `locktime()` returns, with its
    variant: `ok <H|T>:<n>` / `err` / `panic` (the fallback goes through `LockTime::from_consensus`) -/
def locktimeTypedOp : Handler
  | _, [fb, reqs] =>
    match optNat fb, parseTypedReqs reqs with
    | some fb, some rs =>
      let fbl : Res (Option LockTime) := match fb with
        | none => .ok none
        | some n => (LockTime.fromConsensus n).map some
      match fbl with
      | .ok f => resStr ltStr (locktimeTyped f rs)
      | .err _ => "err"
      | .panic _ => "panic"
    | _, _ => "bad-op"
  | _, _ => "bad-op"

def ops : List (String × Handler) :=
  [("lt.fromconsensus", fromConsensusOp), ("lt.fromheight", fromHeightOp), ("lt.fromtime", fromTimeOp),
   ("lt.height", heightOp), ("lt.time", timeOp), ("lt.sameunit", sameUnitOp), ("lt.satisfied", satisfiedOp),
   ("lt.cmp", cmpOp), ("lt.display", displayOp), ("lt.parse", parseOp), ("lt.zero", zeroOp),
   ("seq.class", seqClassOp), ("seq.fromheight", seqFromHeightOp), ("seq.from512", seqFrom512Op),
   ("seq.floor", seqFloorOp), ("seq.ceil", seqCeilOp), ("seq.consts", seqConstsOp), ("seq.fmt", seqFmtOp),
   ("seq.cmp", seqCmpOp), ("pset.locktimetyped", locktimeTypedOp)]
end EV.Driver.C08LockTime
