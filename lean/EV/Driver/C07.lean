/-
  EV.Driver.C07 — correspondence ops of the PSET wire format.

    psetdec <hex>                      decode a whole PSET → `ok <canonical re-encoding> <dump of all fields>` | `err`
    psetenc <tx hex> <additions>       build the described PSET (EV.Driver.PsetDesc) and serialize it → `ok <hex>`
    psetmap.g|i|o <hex>                decode ONE global / input / output map → `ok <re-encoding> <dump>` | `err`
    pset.tostr <hex>                   decode, then `to_string` → `ok <base64>`
    pset.fromstr <hex of the text>     `from_str` → `ok <re-encoding>` | `err`
    pset.elip.asset <pset hex> <asset id> <contract hex> <txid> <vout>
                                       `add_asset_metadata` then `get_asset_metadata` → `ok <serialization> <old> <got>`
    pset.elip.token <pset hex> <token id> <asset id> <0|1>     the same for token metadata
    pset.elip.getasset / pset.elip.gettoken <pset hex> <id>    the getters alone → `ok <got>`
    pset.elip.abf <pset hex> <i|o> <index> <abf hex>           `set_abf` then `get_abf` → `ok <serialization> <got>`
    pset.elip.getabf <pset hex> <i|o> <index>                  the getter alone
    hash.rmd160 <hex>                  RIPEMD-160 (ties the executable hash used for the preimage maps)

  `got` = `none` | `err` | `ok:<fields>`.
-/
import EV.Driver.PsetDesc
import EV.Model.PsetSer
import EV.Model.Ripemd160
import EV.Model.Text
namespace EV.Driver.C07
open EV EV.Driver EV.Codec EV.PsetWire EV.Driver.PsetDesc

/-! ### executable primitives -/

/-- 65 bytes `04 ‖ x ‖ y` on the curve -/
def pubkey65 (b : Bytes) : Bool :=
  b.length == 65 &&
  (let x := beNat ((b.drop 1).take 32)
   let y := beNat (b.drop 33)
   decide (x < Secp.p) && decide (y < Secp.p) && (y * y % Secp.p == (x * x % Secp.p * x + 7) % Secp.p))

/-- `bitcoin::Transaction` consensus decoding (allocation guards of the vector decoders are not
    modelled: they only matter for counts in the millions) -/
def btcIn : Dec Unit := fun bs =>
  match take 36 bs with
  | .ok (_, r) =>
    match bytesVec r with
    | .ok (_, r') =>
      match le 4 r' with
      | .ok (_, r'') => .ok ((), r'')
      | .err e => .err e
      | .panic s => .panic s
    | .err e => .err e
    | .panic s => .panic s
  | .err e => .err e
  | .panic s => .panic s

def btcOut : Dec Unit := fun bs =>
  match le 8 bs with
  | .ok (_, r) =>
    match bytesVec r with
    | .ok (_, r') => .ok ((), r')
    | .err e => .err e
    | .panic s => .panic s
  | .err e => .err e
  | .panic s => .panic s

def btcVec {α} (d : Dec α) : Dec (List α) := fun bs =>
  match varint bs with
  | .ok (n, r) => if n > bs.length then .err "eof" else repeatN d n r
  | .err e => .err e
  | .panic s => .panic s

/-- one witness: true iff non-empty -/
def btcWitness : Dec Bool := fun bs =>
  match btcVec bytesVec bs with
  | .ok (l, r) => .ok (!l.isEmpty, r)
  | .err e => .err e
  | .panic s => .panic s

def btcTxOk (bs : Bytes) : Bool :=
  match le 4 bs with
  | .ok (_, r0) =>
    match btcVec btcIn r0 with
    | .ok (ins, r1) =>
      if ins.isEmpty then
        match r1 with
        | flag :: r2 =>
          if flag ≠ 1 then false
          else
            match btcVec btcIn r2 with
            | .ok (ins2, r3) =>
              match btcVec btcOut r3 with
              | .ok (_, r4) =>
                match repeatN btcWitness ins2.length r4 with
                | .ok (ws, r5) =>
                  if !ins2.isEmpty && ws.all (fun w => !w) then false
                  else r5.length == 4
                | _ => false
              | _ => false
            | _ => false
        | [] => false
      else
        match btcVec btcOut r1 with
        | .ok (_, r2) => r2.length == 4
        | _ => false
    | _ => false
  | _ => false

def hash160 (b : Bytes) : Bytes := Ripemd160.ripemd160 (Sha256.sha256 b)

/-- tagged hashes are irrelevant for what the tap-tree codec computes (acceptance, leaf order, depths) -/
def dummyTap : Taproot.TapHashes := { leaf := fun _ => [], branch := fun _ => [], tweak := fun _ => [] }

def wire (c : Cfg) : WirePrims :=
  { P := c.prims, xonly := fun b => b.length == 32 && Secp.xOnCurve b, pubkey65 := pubkey65, btcTx := btcTxOk,
    ripemd160 := Ripemd160.ripemd160, sha256 := Sha256.sha256, hash160 := hash160, hash256 := Sha256.sha256d,
    tap := dummyTap }

/-- `String::from_utf8` acceptance (RFC 3629: no overlong forms, no surrogates, ≤ U+10FFFF) -/
def utf8Ok : Bytes → Bool
  | [] => true
  | b0 :: r =>
    let n := b0.toNat
    let cont (x : UInt8) (lo hi : Nat) : Bool := decide (lo ≤ x.toNat) && decide (x.toNat ≤ hi)
    if n < 0x80 then utf8Ok r
    else if 0xC2 ≤ n ∧ n ≤ 0xDF then
      match r with
      | b1 :: r' => cont b1 0x80 0xBF && utf8Ok r'
      | _ => false
    else if 0xE0 ≤ n ∧ n ≤ 0xEF then
      match r with
      | b1 :: b2 :: r' =>
        cont b1 (if n = 0xE0 then 0xA0 else 0x80) (if n = 0xED then 0x9F else 0xBF) && cont b2 0x80 0xBF && utf8Ok r'
      | _ => false
    else if 0xF0 ≤ n ∧ n ≤ 0xF4 then
      match r with
      | b1 :: b2 :: b3 :: r' =>
        cont b1 (if n = 0xF0 then 0x90 else 0x80) (if n = 0xF4 then 0x8F else 0xBF) && cont b2 0x80 0xBF &&
          cont b3 0x80 0xBF && utf8Ok r'
      | _ => false
    else false

/-! ### ops -/

def psetdecOp : Handler
  | cfg, [h] => withHex h fun bs =>
    match Pset.deserialize (wire cfg) bs with
    | .ok p => s!"ok {Hex.enc (p.serialize (wire cfg))} {dumpPset p}"
    | .err _ => "err"
    | .panic _ => "panic"
  | _, _ => "bad-op"

def psetencOp : Handler
  | cfg, [h, adds] =>
    match describe cfg h adds with
    | none => "bad-op"
    | some p => okHex (p.serialize (wire cfg))
  | _, _ => "bad-op"

def mapOp {α} (dec : WirePrims → Dec α) (enc : WirePrims → α → Bytes) (dump : α → String) : Handler
  | cfg, [h] => withHex h fun bs =>
    match dec (wire cfg) bs with
    | .ok (x, []) => s!"ok {Hex.enc (enc (wire cfg) x)} {dump x}"
    | .ok (_, _ :: _) => "err"
    | .err _ => "err"
    | .panic _ => "panic"
  | _, _ => "bad-op"

def strOfBytes (b : Bytes) : Option (List Char) :=
  if b.all (fun x => x.toNat < 128) then some (b.map (fun x => Char.ofNat x.toNat)) else none

def tostrOp : Handler
  | cfg, [h] => withHex h fun bs =>
    match Pset.deserialize (wire cfg) bs with
    | .ok p => "ok " ++ String.ofList (Text.psetShow (Pset.serialize (wire cfg)) p)
    | .err _ => "err"
    | .panic _ => "panic"
  | _, _ => "bad-op"

def fromstrOp : Handler
  | cfg, [h] => withHex h fun bs =>
    match strOfBytes bs with
    | none => "err"
    | some cs =>
      match Text.psetParse (Pset.deserialize (wire cfg)) cs with
      | .ok p => okHex (p.serialize (wire cfg))
      | .err _ => "err"
      | .panic _ => "panic"
  | _, _ => "bad-op"

def gotStr {α} (f : α → String) : Option (Res α) → String
  | none => "none"
  | some (.ok a) => "ok:" ++ f a
  | some (.err _) => "err"
  | some (.panic _) => "panic"

def oldStr : Option Bytes → String
  | none => "none"
  | some b => "some:" ++ Hex.enc b

def assetMetaStr (m : Elip.AssetMetadata) : String :=
  s!"{Hex.enc m.contract}:{Hex.enc m.prevout.txid}:{m.prevout.vout}"
def tokenMetaStr (m : Elip.TokenMetadata) : String :=
  s!"{Hex.enc m.assetId}:{if m.issuanceBlinded then 1 else 0}"

def withPset (cfg : Cfg) (h : String) (f : Pset → String) : String :=
  withHex h fun bs =>
    match Pset.deserialize (wire cfg) bs with
    | .ok p => f p
    | .err _ => "err"
    | .panic _ => "panic"

def elipAssetOp : Handler
  | cfg, [h, aid, contract, txid, vout] =>
    match Hex.decode aid, Hex.decode contract, Hex.decode txid, vout.toNat? with
    | some aid, some c, some t, some v =>
      withPset cfg h fun p =>
        let (p', old) := Elip.addAssetMetadata p aid ⟨c, ⟨t, v⟩⟩
        s!"ok {Hex.enc (p'.serialize (wire cfg))} {oldStr old} {gotStr assetMetaStr (Elip.getAssetMetadata utf8Ok p' aid)}"
    | _, _, _, _ => "bad-op"
  | _, _ => "bad-op"

def elipTokenOp : Handler
  | cfg, [h, tid, aid, bl] =>
    match Hex.decode tid, Hex.decode aid, bl.toNat? with
    | some tid, some aid, some b =>
      withPset cfg h fun p =>
        let (p', old) := Elip.addTokenMetadata p tid ⟨aid, b == 1⟩
        s!"ok {Hex.enc (p'.serialize (wire cfg))} {oldStr old} {gotStr tokenMetaStr (Elip.getTokenMetadata p' tid)}"
    | _, _, _ => "bad-op"
  | _, _ => "bad-op"

def elipGetAssetOp : Handler
  | cfg, [h, aid] =>
    match Hex.decode aid with
    | some aid => withPset cfg h fun p => "ok " ++ gotStr assetMetaStr (Elip.getAssetMetadata utf8Ok p aid)
    | none => "bad-op"
  | _, _ => "bad-op"

def elipGetTokenOp : Handler
  | cfg, [h, tid] =>
    match Hex.decode tid with
    | some tid => withPset cfg h fun p => "ok " ++ gotStr tokenMetaStr (Elip.getTokenMetadata p tid)
    | none => "bad-op"
  | _, _ => "bad-op"

def elipAbfOp : Handler
  | cfg, [h, io, idx, abf] =>
    match idx.toNat?, Hex.decode abf with
    | some n, some a =>
      withPset cfg h fun p =>
        let tw := (wire cfg).P.tweak
        if io == "i" then
          match modifyNth p.inputs n (fun x => some (Elip.inSetAbf x a)) with
          | some l =>
            let p' := { p with inputs := l }
            s!"ok {Hex.enc (p'.serialize (wire cfg))} {gotStr Hex.enc ((l[n]?).bind (Elip.inGetAbf tw))}"
          | none => "bad-op"
        else
          match modifyNth p.outputs n (fun x => some (Elip.outSetAbf x a)) with
          | some l =>
            let p' := { p with outputs := l }
            s!"ok {Hex.enc (p'.serialize (wire cfg))} {gotStr Hex.enc ((l[n]?).bind (Elip.outGetAbf tw))}"
          | none => "bad-op"
    | _, _ => "bad-op"
  | _, _ => "bad-op"

def elipGetAbfOp : Handler
  | cfg, [h, io, idx] =>
    match idx.toNat? with
    | some n =>
      withPset cfg h fun p =>
        let tw := (wire cfg).P.tweak
        if io == "i" then "ok " ++ gotStr Hex.enc ((p.inputs[n]?).bind (Elip.inGetAbf tw))
        else "ok " ++ gotStr Hex.enc ((p.outputs[n]?).bind (Elip.outGetAbf tw))
    | none => "bad-op"
  | _, _ => "bad-op"

def rmdOp : Handler
  | _, [h] => withHex h fun bs => okHex (Ripemd160.ripemd160 bs)
  | _, _ => "bad-op"

def ops : List (String × Handler) :=
  [("psetdec", psetdecOp), ("psetenc", psetencOp),
   ("psetmap.g", mapOp PsetGlobal.dec PsetGlobal.enc dumpGlobal),
   ("psetmap.i", mapOp PsetInput.dec PsetInput.enc dumpIn),
   ("psetmap.o", mapOp PsetOutput.dec PsetOutput.enc dumpOut),
   ("pset.tostr", tostrOp), ("pset.fromstr", fromstrOp),
   ("pset.elip.asset", elipAssetOp), ("pset.elip.token", elipTokenOp),
   ("pset.elip.getasset", elipGetAssetOp), ("pset.elip.gettoken", elipGetTokenOp),
   ("pset.elip.abf", elipAbfOp), ("pset.elip.getabf", elipGetAbfOp),
   ("hash.rmd160", rmdOp)]
end EV.Driver.C07
