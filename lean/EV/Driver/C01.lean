import EV.Driver.Util
import EV.Gen.Consts
namespace EV.Driver.C01
open EV EV.Driver EV.Codec

/-- generic: decode partially, report consumed bytes and the re-encoding -/
def decReport {α} (d : Dec α) (enc : α → Bytes) (extra : α → String) (bs : Bytes) : String :=
  match d bs with
  | .ok (v, rest) => s!"ok {bs.length - rest.length} {Hex.enc (enc v)}{extra v}"
  | .err _ => "err"
  | .panic _ => "panic"

def noExtra {α} : α → String := fun _ => ""

def decOp : Handler
  | cfg, [ty, h] => withHex h fun bs =>
    let P := cfg.prims
    match ty with
    | "tx" => decReport (Tx.dec P) Tx.enc (fun t => s!" {t.input.length} {t.output.length} {t.hasWitness}") bs
    | "txin" => decReport (TxIn.dec P) TxIn.enc (fun i => s!" {i.isPegin} {i.hasIssuance} {i.previousOutput.vout}") bs
    | "txout" => decReport (TxOut.dec P) TxOut.enc noExtra bs
    | "txinwit" => decReport (TxInWitness.dec P) TxInWitness.enc (fun w => s!" {w.isEmpty}") bs
    | "txoutwit" => decReport (TxOutWitness.dec P) TxOutWitness.enc (fun w => s!" {w.isEmpty}") bs
    | "asset" => decReport (Asset.dec P) Asset.enc noExtra bs
    | "value" => decReport (Value.dec P) Value.enc noExtra bs
    | "nonce" => decReport (Nonce.dec P) Nonce.enc noExtra bs
    | "issuance" => decReport (AssetIssuance.dec P) AssetIssuance.enc (fun i => s!" {i.isNull}") bs
    | "outpoint" => decReport OutPoint.dec OutPoint.enc (fun o => s!" {o.vout}") bs
    | "script" => decReport bytesVec encBytesVec noExtra bs
    | "locktime" => decReport (le 4) (encLe 4) (fun n => s!" {n} {if n < EV.Gen.lockTimeThreshold then "height" else "time"}") bs
    | "params" => decReport Params.dec Params.enc noExtra bs
    | "header" => decReport BlockHeader.dec BlockHeader.enc (fun h => s!" {h.version} {h.ext.isDynafed}") bs
    | "block" => decReport (Block.dec P) Block.enc (fun b => s!" {b.txdata.length}") bs
    | _ => "bad-op"
  | _, _ => "bad-op"

/-- `deserialize`: everything must be consumed -/
def fullOp : Handler
  | cfg, ["tx", h] => withHex h fun bs =>
    match Tx.deserialize cfg.prims bs with
    | .ok t => s!"ok {Hex.enc t.enc}"
    | .err _ => "err"
    | .panic _ => "panic"
  | _, _ => "bad-op"

def ops : List (String × Handler) := [("dec", decOp), ("deser", fullOp)]
end EV.Driver.C01
