import EV.Driver.PsetDesc
import EV.Driver.C08LockTime
namespace EV.Driver.C08
open EV EV.Driver EV.Codec EV.Driver.PsetDesc

def optNat (s : String) : Option (Option Nat) :=
  if s == "-" then some none else s.toNat?.map some

def parseReq (s : String) : Option LockReq :=
  match s.splitOn ":" with
  | [t, h] =>
    match optNat t, optNat h with
    | some t, some h => some (t, h)
    | _, _ => none
  | _ => none

def parseReqs (s : String) : Option (List LockReq) :=
  if s == "-" then some []
  else (s.splitOn ",").foldr (fun x acc => match parseReq x, acc with
    | some r, some l => some (r :: l)
    | _, _ => none) (some [])

/-- `pset.locktime <fallback|-> <t?:h?,…|->` → `ok <n>` / `err` / `panic` -/
def locktimeOp : Handler
  | _, [fb, reqs] =>
    match optNat fb, parseReqs reqs with
    | some fb, some rs =>
      -- through the PSET record, as the real call goes
      let p : Pset := { global := { fallbackLocktime := fb, inputCount := rs.length },
                        inputs := rs.map fun r => { requiredTimeLocktime := r.1, requiredHeightLocktime := r.2 } }
      resStr toString p.locktime
    | _, _ => "bad-op"
  | _, _ => "bad-op"

/-- in-memory facts the serialization does not show: per input `p` if `is_pegin`, `i` if it has an
    issuance, `-` otherwise (the coinbase index hides both flags in the encoding) -/
def flagsOf (t : Tx) : String :=
  if t.input.isEmpty then "-" else
  String.intercalate "." (t.input.map fun i =>
    (if i.isPegin then "p" else "-") ++ (if i.hasIssuance then "i" else "-"))

/-- `pset.fromtx <tx hex>` → `ok <extract_tx(from_tx(tx)) hex> <unique id>` -/
def fromtxOp : Handler
  | cfg, [h] =>
    match describe cfg h "-" with
    | none => "bad-op"
    | some p =>
      match p.extractTx, p.uniqueId hashes with
      | .ok t, .ok u => s!"ok {Hex.enc t.enc} {flagsOf t} {Hex.enc u}"
      | .panic _, _ => "panic"
      | _, .panic _ => "panic"
      | .err e, _ => "err " ++ e
      | _, .err e => "err " ++ e
  | _, _ => "bad-op"

/-- `pset.extract <tx hex> <additions>` → `ok <tx hex>` / `err <variant>` -/
def extractOp : Handler
  | cfg, [h, adds] =>
    match describe cfg h adds with
    | none => "bad-op"
    | some p => resErr (fun t => s!"{Hex.enc t.enc} {flagsOf t}") p.extractTx
  | _, _ => "bad-op"

/-- `pset.uid <tx hex> <additions>` → `ok <unique id>` / `err <variant>` -/
def uidOp : Handler
  | cfg, [h, adds] =>
    match describe cfg h adds with
    | none => "bad-op"
    | some p => resErr Hex.enc (p.uniqueId hashes)
  | _, _ => "bad-op"

/-- `pset.dump <tx hex> <additions>` → canonical dump of the described PSET -/
def dumpOp : Handler
  | cfg, [h, adds] =>
    match describe cfg h adds with
    | none => "bad-op"
    | some p => "ok " ++ dumpPset p
  | _, _ => "bad-op"

/-- `pset.totxout <tx hex> <additions>` → `Output::to_txout` of every output, `<txout hex>/<witness hex>`
    joined by `,` (`-` when there is no output); also the derived predicates
    `is_partially_blinded` / `is_fully_blinded` / `is_marked_for_blinding` (`p`/`f`/`m`) per output and, per input, `has_issuance`/`is_pegin` -/
def totxoutOp : Handler
  | cfg, [h, adds] =>
    match describe cfg h adds with
    | none => "bad-op"
    | some p =>
      let outs := if p.outputs.isEmpty then "-" else
        String.intercalate "," (p.outputs.map fun o =>
          let t := o.toTxOut
          let fully := o.blindingKey.isSome && o.amountComm.isSome && o.assetComm.isSome && o.valueRangeproof.isSome &&
            o.assetSurjectionProof.isSome && o.ecdhPubkey.isSome
          s!"{Hex.enc t.enc}/{Hex.enc t.witness.enc}/" ++ (if o.isPartiallyBlinded then "p" else "-") ++
            (if fully then "f" else "-") ++ (if o.blindingKey.isSome then "m" else "-"))
      let ins := if p.inputs.isEmpty then "-" else
        String.intercalate "." (p.inputs.map fun i =>
          (if i.isPegin then "p" else "-") ++ (if i.hasIssuance then "i" else "-") ++ ":" ++ Hex.enc i.assetIssuance.enc)
      s!"ok {outs} {ins}"
  | _, _ => "bad-op"

def ops : List (String × Handler) :=
  [("pset.locktime", locktimeOp), ("pset.fromtx", fromtxOp), ("pset.extract", extractOp),
   ("pset.uid", uidOp), ("pset.dump", dumpOp), ("pset.totxout", totxoutOp)] ++
  -- lock times and sequence numbers (EV.Model.LockTime)
  C08LockTime.ops
end EV.Driver.C08
