import EV.Driver.Util
import EV.Driver.C17
import EV.Model.Address
namespace EV.Driver.C06
open EV EV.Driver EV.Bech32 EV.Addr EV.Driver.C17

def prims : Addr.Prims :=
  { sha256d := fun l => toText (Sha256.sha256d (ofText l)),
    validPk := fun l => Secp.point33 2 3 (ofText l) }

def netOf (name : String) : Option Gen.AddrParamsB := Gen.allParamsB.find? (fun p => p.name == name)

def optHexT : Option (List Nat) → String
  | some b => Hex.enc (ofText b)
  | none => "-"

def addrStr (a : Address) : String :=
  let pl := match a.payload with
    | .pkh h => s!"pkh {Hex.enc (ofText h)}"
    | .sh h => s!"sh {Hex.enc (ofText h)}"
    | .wit v p => s!"wit {v} {Hex.enc (ofText p)}"
  s!"{a.params.name} {pl} {optHexT a.blinder}"

def resAddr : Res Address → String
  | .ok a => "ok " ++ addrStr a
  | .err _ => "err"
  | .panic _ => "panic"

def blinderOf (s : String) : Option (Option (List Nat)) :=
  if s == "-" then some none else (Hex.decode s).map (fun b => some (toText b))

def mkAddr (net : String) (rest : List String) : Option Address :=
  match netOf net, rest with
  | some p, ["pkh", h, b] =>
    match Hex.decode h, blinderOf b with
    | some h, some bl => some { params := p, payload := .pkh (toText h), blinder := bl }
    | _, _ => none
  | some p, ["sh", h, b] =>
    match Hex.decode h, blinderOf b with
    | some h, some bl => some { params := p, payload := .sh (toText h), blinder := bl }
    | _, _ => none
  | some p, ["wit", v, h, b] =>
    match v.toNat?, Hex.decode h, blinderOf b with
    | some v, some h, some bl => some { params := p, payload := .wit v (toText h), blinder := bl }
    | _, _, _ => none
  | _, _ => none

/-- `addr.display <NETWORK> pkh|sh <hash hex> <blinder hex|->` / `… wit <ver> <prog hex> <blinder>` → string -/
def displayOp : Handler
  | _, net :: rest =>
    match mkAddr net rest with
    | some a => "ok " ++ textStr (display prims a)
    | none => "bad-op"
  | _, _ => "bad-op"

/-- `addr.parse <string hex>` → network, payload, blinder -/
def parseOp : Handler
  | _, [s] => withHex s fun sb => resAddr (fromStr prims (toText sb))
  | _, _ => "bad-op"

/-- `addr.parsewith <NETWORK> <string hex>` -/
def parseWithOp : Handler
  | _, [net, s] =>
    match netOf net with
    | some p => withHex s fun sb => resAddr (parseWithParams prims (toText sb) p)
    | none => "bad-op"
  | _, _ => "bad-op"

/-- `b58 <hex>` → base58 string -/
def b58Op : Handler
  | _, [h] => withHex h fun b => "ok " ++ textStr (Base58.encode (toText b))
  | _, _ => "bad-op"

/-- `unb58 <string hex>` → bytes -/
def unb58Op : Handler
  | _, [s] => withHex s fun sb =>
    match Base58.decode (toText sb) with
    | some b => okHex (ofText b)
    | none => "err"
  | _, _ => "bad-op"

/-- `unb58chk <string hex>` → payload bytes after verifying the 4-byte SHA-256d checksum -/
def unb58chkOp : Handler
  | _, [s] => withHex s fun sb =>
    match Base58.decodeCheck prims.sha256d (toText sb) with
    | some b => okHex (ofText b)
    | none => "err"
  | _, _ => "bad-op"

def ops : List (String × Handler) :=
  [("addr.display", displayOp), ("addr.parse", parseOp), ("addr.parsewith", parseWithOp),
   ("b58", b58Op), ("unb58", unb58Op), ("unb58chk", unb58chkOp)]
end EV.Driver.C06
