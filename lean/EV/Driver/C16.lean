import EV.Driver.Util
import EV.Model.Script
import EV.Driver.C16Asm
namespace EV.Driver.C16
open EV EV.Driver EV.Script

def hexRaw (b : Bytes) : String := Hex.encode b

def instrStr : Instr → String
  | .push d => "P" ++ hexRaw d
  | .op c => "O" ++ hexRaw [c]

def errStr : IErr → String
  | .earlyEnd => "Ee"
  | .nonMinimal => "Em"

/-- canonical text of an iteration: items joined by commas, the error (if any) last, `-` if empty -/
def listing (r : List Instr × Option IErr) : String :=
  let items := r.1.map instrStr ++ (match r.2 with | some e => [errStr e] | none => [])
  if items.isEmpty then "-" else ",".intercalate items

def parseTok (t : String) : Option BOp :=
  match t.splitOn ":" with
  | ["v"] => some .verify
  | ["i", n] => n.toInt?.map .int
  | ["n", n] => n.toInt?.map .scriptInt
  | ["d", h] => (Hex.decode h).map .slice
  | ["o", c] => c.toNat?.bind fun c => if c < 256 then some (.opcode (UInt8.ofNat c)) else none
  | ["z", len, byte] =>
    match len.toNat?, byte.toNat? with
    | some l, some b => if b < 256 then some (.slice (List.replicate l (UInt8.ofNat b))) else none
    | _, _ => none
  | _ => none

def parseToks : List String → Option (List BOp)
  | [] => some []
  | t :: rest =>
    match parseTok t, parseToks rest with
    | some o, some os => some (o :: os)
    | _, _ => none

/-- `build tok…` → script, instructions(), instructions_minimal() -/
def buildOp : Handler
  | _, toks =>
    match parseToks (toks.filter (· ≠ "")) with
    | none => "bad-op"
    | some ops =>
      match build ops with
      | none => "panic"
      | some s => s!"ok {Hex.enc s} {listing (instructions s)} {listing (instructionsMinimal s)}"

def instrOp : Handler
  | _, [h] => withHex h fun s => s!"ok {listing (instructions s)} {listing (instructionsMinimal s)}"
  | _, _ => "bad-op"

def scriptintOp : Handler
  | _, [h] => withHex h fun v => resStr (fun (i : Int) => toString i) (readScriptInt v)
  | _, _ => "bad-op"

def scriptboolOp : Handler
  | _, [h] => withHex h fun v => if readScriptBool v then "ok 1" else "ok 0"
  | _, _ => "bad-op"

def readuintOp : Handler
  | _, [h, n] => withHex h fun v =>
    match n.toNat? with
    | some n => resStr (fun (x : Nat) => toString x) (readUint v n)
    | none => "bad-op"
  | _, _ => "bad-op"

def preds (s : Bytes) : List Bool :=
  [isP2pkh s, isP2sh s, isP2pk s, isWitnessProgram s, isV0P2wpkh s, isV0P2wsh s, isV1P2tr s,
   isV1plusP2witprog s, isOpReturn s, isProvablyUnspendable s]

def bits (l : List Bool) : String := String.ofList (l.map fun b => if b then '1' else '0')

def payloadStr : Option Payload → String
  | none => "none"
  | some (.pubkeyHash h) => "pkh:" ++ Hex.enc h
  | some (.scriptHash h) => "sh:" ++ Hex.enc h
  | some (.witnessProgram v p) => s!"wp:{v}:" ++ Hex.enc p

def optScript : Option Bytes → String
  | some s => Hex.enc s
  | none => "panic"

/-- `tmpl <script>` → predicate bits, from_script payload, script_pubkey of that payload -/
def tmplOp : Handler
  | _, [h] => withHex h fun s =>
    let p := fromScript s
    let spk := match p with | some p => optScript (scriptPubkey p) | none => "none"
    s!"ok {bits (preds s)} {payloadStr p} {spk}"
  | _, _ => "bad-op"

def maskNat (l : List Bool) : Nat := l.foldl (fun a b => 2 * a + (if b then 1 else 0)) 0

def hex3 (n : Nat) : String :=
  String.ofList [Hex.digit (n / 256 % 16), Hex.digit (n / 16 % 16), Hex.digit (n % 16)]

def kindDigit : Option Payload → Char
  | none => '0'
  | some (.pubkeyHash _) => '1'
  | some (.scriptHash _) => '2'
  | some (.witnessProgram _ _) => '3'

def scanOne (s : Bytes) : String := hex3 (maskNat (preds s)) ++ String.ofList [kindDigit (fromScript s)]

/-- `tmplscan <script> <pos>` → for every byte value at `pos`: predicate mask + from_script kind -/
def tmplscanOp : Handler
  | _, [h, p] => withHex h fun s =>
    match p.toNat? with
    | some pos =>
      if pos ≥ s.length then "bad-op" else
      "ok " ++ String.join ((List.range 256).map fun v => scanOne (s.set pos (UInt8.ofNat v)))
    | none => "bad-op"
  | _, _ => "bad-op"

def parsePayload (kind ver h : String) : Option Payload :=
  match Hex.decode h, ver.toNat? with
  | some b, some v =>
    if kind == "pkh" then some (.pubkeyHash b)
    else if kind == "sh" then some (.scriptHash b)
    else if kind == "wp" then some (.witnessProgram v b)
    else none
  | _, _ => none

/-- `payloadspk <kind> <ver> <hex>` → script_pubkey of the payload and from_script of that script -/
def spkOp : Handler
  | _, [kind, ver, h] =>
    match parsePayload kind ver h with
    | some p =>
      match scriptPubkey p with
      | some s => s!"ok {Hex.enc s} {payloadStr (fromScript s)}"
      | none => "panic"
    | none => "bad-op"
  | _, _ => "bad-op"

/-- `newscript <kind> <ver> <hex>` → Script::new_p2pkh / new_p2sh / new_witness_program -/
def newscriptOp : Handler
  | _, [kind, ver, h] =>
    match Hex.decode h, ver.toNat? with
    | some b, some v =>
      let r := if kind == "pkh" then newP2pkh b else if kind == "sh" then newP2sh b else newWitnessProgram v b
      (match r with | some s => okHex s | none => "panic")
    | _, _ => "bad-op"
  | _, _ => "bad-op"

def ops : List (String × Handler) :=
  [("build", buildOp), ("instr", instrOp), ("scriptint", scriptintOp), ("scriptbool", scriptboolOp),
   ("readuint", readuintOp), ("tmpl", tmplOp), ("tmplscan", tmplscanOp), ("payloadspk", spkOp),
   ("newscript", newscriptOp)] ++
  -- opcode classification / names, asm and the other text forms, script-number boundaries (EV.Driver.C16Asm)
  C16Asm.ops
end EV.Driver.C16
