import EV.Driver.Util
import EV.Model.PeggedAsset
namespace EV.Driver.C11Pegged
open EV EV.Driver EV.Codec

/-- the model's hashes instantiated with the executable SHA-256 -/
def ghashes : Genesis.GHashes := { hashes with sha256 := Sha256.sha256 }

def str (cs : Text.Str) : String := String.ofList cs

/-- `pegged.consts`: the extracted constants — `AssetId::LIQUID_BTC`, `AssetId::LIQUIDTESTNET_BTC`, the chain
    hashes of bitcoin regtest / mainnet / testnet, and the `Display` strings of the two asset ids -/
def peggedConstsOp : Handler
  | _, [] =>
    s!"ok {Hex.enc PeggedAsset.liquidBtc} {Hex.enc PeggedAsset.liquidtestnetBtc} {Hex.enc PeggedAsset.regtestChainHash} {Hex.enc PeggedAsset.bitcoinChainHash} {Hex.enc PeggedAsset.testnetChainHash} {str (PeggedAsset.display PeggedAsset.liquidBtc)} {str (PeggedAsset.display PeggedAsset.liquidtestnetBtc)}"
  | _, _ => "bad-op"

/-- `pegged <network_id> <fedpeg> <signblock> <coins>`: `AssetId::pegged_asset_id_for_network_params` -/
def peggedOp : Handler
  | _, [nid, fed, sb, coins] =>
    match Hex.decode nid, Hex.decode fed, Hex.decode sb, coins.toNat? with
    | some nid, some fed, some sb, some coins =>
      optHex (PeggedAsset.forNetworkParams ghashes (Genesis.NetworkParams.new nid fed sb coins))
    | _, _, _, _ => "bad-op"
  | _, _ => "bad-op"

/-- `pegged.derive <network_id> <fedpeg> <signblock> <parent chain hash>`:
    `AssetId::pegged_asset_id_for_params_and_parent_chain_hash` -/
def peggedDeriveOp : Handler
  | _, [nid, fed, sb, parent] =>
    match Hex.decode nid, Hex.decode fed, Hex.decode sb, Hex.decode parent with
    | some nid, some fed, some sb, some parent =>
      optHex (PeggedAsset.forParamsAndParent ghashes (Genesis.NetworkParams.new nid fed sb 0) parent)
    | _, _, _, _ => "bad-op"
  | _, _ => "bad-op"

/-- `assetid.show <32 bytes>`: `{}`, `{:x}`, `{:X}`, `{:?}`, and `into_tag` / `to_byte_array` as hex -/
def assetidShowOp : Handler
  | _, [h] => withHex h fun a =>
    let d := str (PeggedAsset.display a)
    s!"ok {d} {d} {str (PeggedAsset.upperHex a)} {d} {Hex.enc (PeggedAsset.intoTag a)} {Hex.enc (PeggedAsset.toByteArray (PeggedAsset.fromByteArray a))}"
  | _, _ => "bad-op"

/-- the text of the op line: hex of the UTF-8 bytes; `none` if it is not UTF-8 -/
def utf8Arg (h : String) : Option Text.Str :=
  match Hex.decode h with
  | some bs =>
    let ba : ByteArray := ⟨bs.toArray⟩
    match String.fromUTF8? ba with
    | some s => some s.toList
    | none => none
  | none => none

/-- `assetid.text <hex of the UTF-8 string>`: `AssetId::from_str` → the bytes and their `Display` -/
def assetidTextOp : Handler
  | _, [h] =>
    match utf8Arg h with
    | some cs =>
      match PeggedAsset.fromStr cs with
      | .ok a => s!"ok {Hex.enc a} {str (PeggedAsset.display a)}"
      | .err _ => "err"
      | .panic _ => "panic"
    | none => "bad-op"
  | _, _ => "bad-op"

def ops : List (String × Handler) :=
  [("pegged.consts", peggedConstsOp), ("pegged", peggedOp), ("pegged.derive", peggedDeriveOp),
   ("assetid.show", assetidShowOp), ("assetid.text", assetidTextOp)]
end EV.Driver.C11Pegged
