import EV.Driver.Util
import EV.Model.Serde
import EV.Model.SerdeUtils
namespace EV.Driver.C20
open EV EV.Driver EV.Codec EV.Text EV.Serde

/-! printing of token trees (shared syntax with `harness/src/props/c20tok.rs`) -/

def utf8Hex (s : String) : String := Hex.enc s.toUTF8.toList

partial def showS : SVal → String
  | .unit => "z"
  | .bool b => if b then "t" else "f"
  | .num w n => if w = 0 then s!"n:{n}" else s!"u{w}:{n}"
  | .str s => "s:" ++ utf8Hex s
  | .bytes b => "b:" ++ Hex.enc b
  | .none => "N"
  | .some v => "S(" ++ showS v ++ ")"
  | .seq l => "[" ++ ",".intercalate (l.map showS) ++ "]"
  | .tuple l => "T[" ++ ",".intercalate (l.map showS) ++ "]"
  | .tupleStruct n l => "TS" ++ n ++ "[" ++ ",".intercalate (l.map showS) ++ "]"
  | .map l => "M{" ++ ",".intercalate (l.map fun (k, v) => showS k ++ "=" ++ showS v) ++ "}"
  | .struct n fs => "R" ++ n ++ "{" ++ ",".intercalate (fs.map fun (k, v) => k ++ "=" ++ showS v) ++ "}"
  | .newtype n v => "W" ++ n ++ "(" ++ showS v ++ ")"
  | .variant t i n v => s!"V{t}.{i}.{n}(" ++ showS v ++ ")"

/-! parsing of the lossy subset: `z t f n:N s:HEX b:HEX [..] M{k=v,..}` -/

def isHexChar (c : Char) : Bool := (Hex.nib c).isSome

def takeHex (cs : List Char) : Option (Bytes × List Char) :=
  match cs with
  | '-' :: r => some ([], r)
  | _ =>
    let h := cs.takeWhile isHexChar
    match Hex.decodeChars h with
    | some b => some (b, cs.drop h.length)
    | none => none

partial def parseS (cs : List Char) : Option (SVal × List Char) :=
  match cs with
  | 'z' :: r => some (.unit, r)
  | 't' :: r => some (.bool true, r)
  | 'f' :: r => some (.bool false, r)
  | 'n' :: ':' :: r =>
    let d := r.takeWhile Char.isDigit
    match (String.ofList d).toNat? with
    | some n => some (.num 0 n, r.drop d.length)
    | none => none
  | 's' :: ':' :: r =>
    match takeHex r with
    | some (b, r') =>
      (match String.fromUTF8? (ByteArray.mk b.toArray) with
       | some s => some (.str s, r')
       | none => none)
    | none => none
  | 'b' :: ':' :: r =>
    match takeHex r with
    | some (b, r') => some (.bytes b, r')
    | none => none
  | '[' :: ']' :: r => some (.seq [], r)
  | '[' :: r =>
    let rec items (cs : List Char) (acc : List SVal) : Option (List SVal × List Char) :=
      match parseS cs with
      | some (v, ',' :: r') => items r' (v :: acc)
      | some (v, ']' :: r') => some ((v :: acc).reverse, r')
      | _ => none
    match items r [] with
    | some (l, r') => some (.seq l, r')
    | none => none
  | 'M' :: '{' :: '}' :: r => some (.map [], r)
  | 'M' :: '{' :: r =>
    let rec entries (cs : List Char) (acc : List (SVal × SVal)) : Option (List (SVal × SVal) × List Char) :=
      match parseS cs with
      | some (k, '=' :: r1) =>
        (match parseS r1 with
         | some (v, ',' :: r2) => entries r2 ((k, v) :: acc)
         | some (v, '}' :: r2) => some (((k, v) :: acc).reverse, r2)
         | _ => none)
      | _ => none
    match entries r [] with
    | some (l, r') => some (.map l, r')
    | none => none
  | _ => none

def parseTree (s : String) : Option SVal :=
  match parseS s.toList with
  | some (v, []) => some v
  | _ => none

/-! helpers -/

def strOfHex (h : String) : Option String :=
  match Hex.decode h with
  | some b => String.fromUTF8? (ByteArray.mk b.toArray)
  | none => none

def withStr (h : String) (f : String → String) : String :=
  match strOfHex h with
  | some s => f s
  | none => "bad-op"

def okStr (cs : Str) : String := "ok " ++ String.ofList cs

def full {α} (d : Dec α) (bs : Bytes) : Option α :=
  match d bs with
  | .ok (v, []) => some v
  | _ => none

/-- `secp256k1_ec_pubkey_parse` on 65 bytes: prefix 4 (uncompressed) or 6/7 (hybrid, parity of y), coordinates
    below the field prime, on the curve -/
def pubkey65 (b : Bytes) : Bool :=
  match b with
  | pre :: rest =>
    let x := beNat (rest.take 32)
    let y := beNat (rest.drop 32)
    b.length == 65 && x < Secp.p && y < Secp.p && (y * y) % Secp.p == (x * x % Secp.p * x + 7) % Secp.p &&
    (pre == 4 || (pre == 6 && y % 2 == 0) || (pre == 7 && y % 2 == 1))
  | [] => false

/-- the driver's predicates: `pubkey` also answers for 65-byte keys (only `PublicKey::from_str` asks) -/
def prims (cfg : Cfg) : Prims :=
  let P := cfg.prims
  { P with pubkey := fun b => if b.length == 65 then pubkey65 b else P.pubkey b }

def humanOf (s : String) : Option Bool := if s == "1" then some true else if s == "0" then some false else none

/-! text ops -/

/-- `text.hash <kind> <bytes>` -/
def textHashOp : Handler
  | _, [kind, h] => withHex h fun b =>
    match hashKinds.lookup kind with
    | some k => okStr (hashShow k b)
    | none => "bad-op"
  | _, _ => "bad-op"

/-- `parse.hash <kind> <string as utf8 hex>` -/
def parseHashOp : Handler
  | _, [kind, h] => withStr h fun s =>
    match hashKinds.lookup kind with
    | some k => resStr Hex.enc (hashParse k s.toList)
    | none => "bad-op"
  | _, _ => "bad-op"

def textBfOp : Handler
  | _, [h] => withHex h fun b => okStr (bfShow b)
  | _, _ => "bad-op"

def parseBfOp : Handler
  | cfg, [h] => withStr h fun s => resStr Hex.enc (bfParse cfg.prims.tweak s.toList)
  | _, _ => "bad-op"

/-- `text.u32 <n>`: `Display` of `LockTime`, `Height`, `Time`, `Sequence` -/
def textU32Op : Handler
  | _, [n] => match n.toNat? with
    | some n => okStr (showNat n)
    | none => "bad-op"
  | _, _ => "bad-op"

def natStr (n : Nat) : String := toString n

def parseNumOp (p : Str → Res Nat) : Handler
  | _, [h] => withStr h fun s => resStr natStr (p s.toList)
  | _, _ => "bad-op"

def textOutPointOp : Handler
  | _, [h] => withHex h fun b =>
    match full OutPoint.dec b with
    | some o => okStr (outPointShow o)
    | none => "bad-op"
  | _, _ => "bad-op"

def parseOutPointOp : Handler
  | _, [h] => withStr h fun s => resStr (fun o => Hex.enc (OutPoint.enc o)) (outPointParse s.toList)
  | _, _ => "bad-op"

def textSighashOp (sh : Nat → Option String) : Handler
  | _, [n] => match n.toNat? with
    | some n => (match sh n with | some s => "ok " ++ s | none => "bad-op")
    | none => "bad-op"
  | _, _ => "bad-op"

def parseSighashOp (p : String → Res Nat) : Handler
  | _, [h] => withStr h fun s => resStr natStr (p s)
  | _, _ => "bad-op"

def b64Op : Handler
  | _, [h] => withHex h fun b => okStr (b64Enc b)
  | _, _ => "bad-op"

def unb64Op : Handler
  | _, [h] => withStr h fun s => resStr Hex.enc (b64Dec s.toList)
  | _, _ => "bad-op"

/-! PSET input map fields (serde_utils helpers): wire form `k:v,k:v` (hex parts, `none` = empty map) -/

def lexLt : Bytes → Bytes → Bool
  | [], [] => false
  | [], _ :: _ => true
  | _ :: _, [] => false
  | a :: as, b :: bs => if a < b then true else if b < a then false else lexLt as bs

def insertSorted {α} (lt : α → α → Bool) (x : α) : List α → List α
  | [] => [x]
  | y :: ys => if lt x y then x :: y :: ys else y :: insertSorted lt x ys
def sortBy {α} (lt : α → α → Bool) (l : List α) : List α := l.foldl (fun acc x => insertSorted lt x acc) []

def rawKeyLt (a b : RawKey) : Bool :=
  a.typeValue < b.typeValue || (a.typeValue == b.typeValue && lexLt a.key b.key)
def propKeyLt (a b : PropKey) : Bool :=
  lexLt a.pfx b.pfx || (a.pfx == b.pfx && (a.subtype < b.subtype || (a.subtype == b.subtype && lexLt a.key b.key)))

def splitEntries (s : String) : List (List String) :=
  if s == "none" then [] else (s.splitOn ",").map fun e => e.splitOn ":"

def allSome {α} : List (Option α) → Option (List α)
  | [] => some []
  | none :: _ => none
  | some a :: r => (allSome r).map (a :: ·)

def hashEntries (s : String) : Option (List (Bytes × Bytes)) :=
  allSome ((splitEntries s).map fun e => match e with
    | [k, v] => (match Hex.decode k, Hex.decode v with | some k, some v => some (k, v) | _, _ => none)
    | _ => none)
def rawKeyEntries (s : String) : Option (List (RawKey × Bytes)) :=
  allSome ((splitEntries s).map fun e => match e with
    | [t, k, v] => (match t.toNat?, Hex.decode k, Hex.decode v with | some t, some k, some v => some (⟨t, k⟩, v) | _, _, _ => none)
    | _ => none)
def propKeyEntries (s : String) : Option (List (PropKey × Bytes)) :=
  allSome ((splitEntries s).map fun e => match e with
    | [p, t, k, v] => (match Hex.decode p, t.toNat?, Hex.decode k, Hex.decode v with
      | some p, some t, some k, some v => some (⟨p, t, k⟩, v) | _, _, _, _ => none)
    | _ => none)

/-- `tap_script_sigs` entries `xonly:leafhash:sig:hashty` -/
def sigEntries (s : String) : Option (List ((Bytes × Bytes) × SchnorrSigM)) :=
  allSome ((splitEntries s).map fun e => match e with
    | [x, l, g, t] => (match Hex.decode x, Hex.decode l, Hex.decode g, t.toNat? with
      | some x, some l, some g, some t => some ((x, l), ⟨g, t⟩) | _, _, _, _ => none)
    | _ => none)

/-- `XOnlyPublicKey::from_slice` on 32 bytes -/
def validX (b : Bytes) : Bool := b.length == 32 && Secp.xOnCurve b

def showEntries {α} (f : α → String) (l : List α) : String :=
  if l.isEmpty then "none" else ",".intercalate (l.map f)
def showHashEntries (l : List (Bytes × Bytes)) : String :=
  showEntries (fun e => Hex.enc e.1 ++ ":" ++ Hex.enc e.2) (sortBy (fun a b => lexLt a.1 b.1) l)
def showRawKeyEntries (l : List (RawKey × Bytes)) : String :=
  showEntries (fun e => s!"{e.1.typeValue}:" ++ Hex.enc e.1.key ++ ":" ++ Hex.enc e.2) (sortBy (fun a b => rawKeyLt a.1 b.1) l)
def showPropKeyEntries (l : List (PropKey × Bytes)) : String :=
  showEntries (fun e => Hex.enc e.1.pfx ++ s!":{e.1.subtype}:" ++ Hex.enc e.1.key ++ ":" ++ Hex.enc e.2)
    (sortBy (fun a b => propKeyLt a.1 b.1) l)

def showSigEntries (l : List ((Bytes × Bytes) × SchnorrSigM)) : String :=
  showEntries (fun e => Hex.enc e.1.1 ++ ":" ++ Hex.enc e.1.2 ++ ":" ++ Hex.enc e.2.sig ++ s!":{e.2.hashTy}")
    (sortBy (fun a b => lexLt (a.1.1 ++ a.1.2) (b.1.1 ++ b.1.2)) l)

/-- the key hash kind of the four preimage maps of `pset::Input` -/
def preimageKind (field : String) : Option HashKind :=
  match field with
  | "ripemd160_preimages" => some ⟨20, false⟩
  | "sha256_preimages" => some ⟨32, false⟩
  | "hash160_preimages" => some ⟨20, false⟩
  | "hash256_preimages" => some ⟨32, true⟩
  | _ => none

def inputFieldToS (field : String) (arg : String) (h : Bool) : Option SVal :=
  match preimageKind field with
  | some k => (hashEntries arg).map (ByteValues.toS h (sHash k h))
  | none =>
    match field with
    | "unknown" => (rawKeyEntries arg).map (AsSeqByteValues.toS h (RawKey.toS h))
    | "proprietary" => (propKeyEntries arg).map (AsSeqByteValues.toS h (PropKey.toS h))
    | "tap_script_sigs" => (sigEntries arg).map (AsSeq.toS h (sSigKey h) (SchnorrSigM.toS h))
    | _ => none

def inputFieldOfS (field : String) (h : Bool) (v : SVal) : String :=
  match preimageKind field with
  | some k => resStr showHashEntries (ByteValues.ofS h (ofHash k h) v)
  | none =>
    match field with
    | "unknown" => resStr showRawKeyEntries (AsSeqByteValues.ofS h (RawKey.ofS h) v)
    | "proprietary" => resStr showPropKeyEntries (AsSeqByteValues.ofS h (PropKey.ofS h) v)
    | "tap_script_sigs" => resStr showSigEntries (AsSeq.ofS h (ofSigKey validX h) (SchnorrSigM.ofS h) v)
    | _ => "bad-op"

/-! serde ops -/

/-- decode the wire arguments of a typed value and hand its `toS` / name the `ofS` -/
def toSOf (cfg : Cfg) (ty : String) (args : List String) (h : Bool) : Option SVal :=
  let P := cfg.prims
  let hexArg (i : Nat) : Option Bytes := (args[i]?).bind Hex.decode
  let numArg (i : Nat) : Option Nat := (args[i]?).bind String.toNat?
  match ty with
  | "value" => (hexArg 0).bind (full (Value.dec P)) |>.map (Value.toS h)
  | "asset" => (hexArg 0).bind (full (Asset.dec P)) |>.map (Asset.toS h)
  | "nonce" => (hexArg 0).bind (full (Nonce.dec P)) |>.map (Nonce.toS h)
  | "issuance" => (hexArg 0).bind (full (AssetIssuance.dec P)) |>.map (AssetIssuance.toS h)
  | "outpoint" => (hexArg 0).bind (full OutPoint.dec) |>.map (OutPoint.toS h)
  | "txinwit" => (hexArg 0).bind (full (TxInWitness.dec P)) |>.map (TxInWitness.toS h)
  | "txoutwit" => (hexArg 0).bind (full (TxOutWitness.dec P)) |>.map (TxOutWitness.toS h)
  | "tx" => (hexArg 0).bind (full (Tx.dec P)) |>.map (Tx.toS h)
  | "params" => (hexArg 0).bind (full Params.dec) |>.map (Params.toS h)
  | "header" => (hexArg 0).bind (full BlockHeader.dec) |>.map (BlockHeader.toS h)
  | "block" => (hexArg 0).bind (full (Block.dec P)) |>.map (Block.toS h)
  | "script" => (hexArg 0).map sScript
  | "abf" | "vbf" => (hexArg 0).map (BlindingFactor.toS h)
  | "locktime" => (numArg 0).map sLockTime
  | "sequence" => (numArg 0).map sSequence
  | "ecdsa" => (numArg 0).bind ecdsaShow |>.map stringToS
  | "schnorr" => (numArg 0).bind schnorrShow |>.map stringToS
  | "psbtsh" => (numArg 0).map (fun n => stringToS (psbtShow n))
  | _ =>
    if ty.startsWith "hash." then
      match hashKinds.lookup (ty.drop 5).toString, hexArg 0 with
      | some k, some b => some (sHash k h b)
      | _, _ => none
    else if ty.startsWith "pset_in." then
      (args[0]?).bind fun a => inputFieldToS (ty.drop 8).toString a h
    else none

/-- `serde.tokens <type> <human 0|1> <args…>` → the token tree of the real `Serialize` impl -/
def tokensOp : Handler
  | cfg, ty :: hs :: args =>
    match humanOf hs with
    | some h => (match toSOf cfg ty args h with | some v => "ok " ++ showS v | none => "bad-op")
    | none => "bad-op"
  | _, _ => "bad-op"

/-- `serde.lossy <json|cbor> <type> <human 0|1> <args…>` → what the format keeps of it -/
def lossyOp : Handler
  | cfg, fs :: ty :: hs :: args =>
    let f? : Option Fmt := if fs == "json" then some .json else if fs == "cbor" then some .cbor else none
    match f?, humanOf hs with
    | some f, some h => (match toSOf cfg ty args h with | some v => "ok " ++ showS (lossy f v) | none => "bad-op")
    | _, _ => "bad-op"
  | _, _ => "bad-op"

/-- `serde.of <type> <human 0|1> <tree>` → the value the real `Deserialize` impl builds (canonical form) -/
def ofOp : Handler
  | cfg, [ty, hs, tree] =>
    let P := prims cfg
    match humanOf hs, parseTree tree with
    | some h, some v =>
      (match ty with
       | "value" => resStr (fun x => Hex.enc (Value.enc x)) (Value.ofS P h v)
       | "asset" => resStr (fun x => Hex.enc (Asset.enc x)) (Asset.ofS P h v)
       | "nonce" => resStr (fun x => Hex.enc (Nonce.enc x)) (Nonce.ofS P h v)
       | "issuance" => resStr (fun x => Hex.enc (AssetIssuance.enc x)) (AssetIssuance.ofS P h v)
       | "outpoint" => resStr (fun x => Hex.enc (OutPoint.enc x)) (OutPoint.ofS h v)
       | "txinwit" => resStr (fun x => Hex.enc (TxInWitness.enc x)) (TxInWitness.ofS P h v)
       | "txoutwit" => resStr (fun x => Hex.enc (TxOutWitness.enc x)) (TxOutWitness.ofS P h v)
       | "tx" => resStr (fun x => Hex.enc (Tx.enc x)) (Tx.ofS P h v)
       | "params" => resStr (fun x => Hex.enc (Params.enc x)) (Params.ofS h v)
       | "header" => resStr (fun x => Hex.enc (BlockHeader.enc x)) (BlockHeader.ofS h v)
       | "block" => resStr (fun x => Hex.enc (Block.enc x)) (Block.ofS P h v)
       | "script" => resStr Hex.enc (ofScript v)
       | "abf" | "vbf" => resStr Hex.enc (BlindingFactor.ofS P h v)
       | "locktime" => resStr natStr (ofLockTime v)
       | "sequence" => resStr natStr (ofSequence v)
       | "ecdsa" => resStr natStr (stringOfS ecdsaParse v)
       | "schnorr" => resStr natStr (stringOfS schnorrParse v)
       | "psbtsh" => resStr natStr (stringOfS psbtParse v)
       | _ =>
         if ty.startsWith "hash." then
           match hashKinds.lookup (ty.drop 5).toString with
           | some k => resStr Hex.enc (ofHash k h v)
           | none => "bad-op"
         else if ty.startsWith "pset_in." then inputFieldOfS (ty.drop 8).toString h v
         else "bad-op")
    | _, _ => "bad-op"
  | _, _ => "bad-op"

def ops : List (String × Handler) :=
  [("text.hash", textHashOp), ("parse.hash", parseHashOp), ("text.bf", textBfOp), ("parse.bf", parseBfOp),
   ("text.u32", textU32Op), ("parse.locktime", parseNumOp lockTimeParse), ("parse.height", parseNumOp heightParse),
   ("parse.time", parseNumOp timeParse), ("parse.sequence", parseNumOp sequenceParse),
   ("text.outpoint", textOutPointOp), ("parse.outpoint", parseOutPointOp),
   ("text.ecdsa", textSighashOp ecdsaShow), ("parse.ecdsa", parseSighashOp ecdsaParse),
   ("text.schnorr", textSighashOp schnorrShow), ("parse.schnorr", parseSighashOp schnorrParse),
   ("text.psbtsh", textSighashOp (fun n => some (psbtShow n))), ("parse.psbtsh", parseSighashOp psbtParse),
   ("b64", b64Op), ("unb64", unb64Op),
   ("serde.tokens", tokensOp), ("serde.lossy", lossyOp), ("serde.of", ofOp)]
end EV.Driver.C20
