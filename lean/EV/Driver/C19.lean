import EV.Driver.Util
namespace EV.Driver.C19
open EV EV.Driver EV.Codec

def optParams : Option (Option Params) → String
  | none => "panic"
  | some none => "ok none"
  | some (some p) => "ok " ++ Hex.enc p.enc

/-- `paramroot <params hex>` → root, root of compact form, compact encoding -/
def paramrootOp : Handler
  | _, [h] => withHex h fun bs =>
    match Params.dec bs with
    | .ok (p, []) =>
      match p.calculateRoot hashes, p.intoCompact hashes with
      | some r, some c =>
        let cr := match c with
          | some cp => (match cp.calculateRoot hashes with | some x => Hex.enc x | none => "panic")
          | none => "none"
        let fr := match p with
          | .full f => (match f.calculateRoot hashes with | some x => Hex.enc x | none => "panic")
          | _ => "none"
        s!"ok {Hex.enc r} {cr} {fr} {optParams (some c)}"
      | _, _ => "panic"
    | .ok _ => "err"
    | .err _ => "err"
    | .panic _ => "panic"
  | _, _ => "bad-op"

def headerrootOp : Handler
  | _, [h] => withHex h fun bs =>
    match BlockHeader.dec bs with
    | .ok (hd, []) =>
      match hd.dynafedParamsRoot hashes with
      | none => "panic"
      | some none => "ok none"
      | some (some r) => okHex r
    | .ok _ => "err"
    | .err _ => "err"
    | .panic _ => "panic"
  | _, _ => "bad-op"

def ops : List (String × Handler) := [("paramroot", paramrootOp), ("headerroot", headerrootOp)]
end EV.Driver.C19
