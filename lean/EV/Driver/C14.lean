import EV.Driver.PsetDesc
namespace EV.Driver.C14
open EV EV.Driver EV.Codec EV.Driver.PsetDesc

def parsePath (s : String) : Option (List Nat) :=
  if s == "-" then some []
  else (s.splitOn ",").foldr (fun x acc => match x.toNat?, acc with
    | some n, some l => some (n :: l)
    | _, _ => none) (some [])

def showPath (l : List Nat) : String :=
  if l.isEmpty then "-" else String.intercalate "," (l.map toString)

/-- `pset.xpub <fp mine> <path mine> <fp theirs> <path theirs>` → the key source kept by
    `Global::merge` for a common xpub / `err` (MergeConflict) / `panic` -/
def xpubOp : Handler
  | _, [f1, p1, f2, p2] =>
    match Hex.decode f1, parsePath p1, Hex.decode f2, parsePath p2 with
    | some f1, some p1, some f2, some p2 =>
      resStr (fun ks => s!"{Hex.enc ks.fp} {showPath ks.path}") (xpubReconcile ⟨f1, p1⟩ ⟨f2, p2⟩)
    | _, _, _, _ => "bad-op"
  | _, _ => "bad-op"

/-- evaluate a postfix merge expression over the operands: digit = push operand, `m` = pop b, pop a,
    push `a.merge(b)`; the first failing merge is the result -/
def evalExpr (H : Hashes) (ops : List Pset) : List Char → List Pset → Option (Res Pset)
  | [], [p] => some (.ok p)
  | [], _ => none
  | c :: r, st =>
    if c = 'm' then
      match st with
      | b :: a :: st' =>
        match Pset.merge H a b with
        | .ok m => evalExpr H ops r (m :: st')
        | .err e => some (.err e)
        | .panic s => some (.panic s)
      | _ => none
    else
      match ops[c.toNat - 48]? with
      | some p => if c.toNat < 48 then none else evalExpr H ops r (p :: st)
      | none => none

/-- `pset.mergex <tx hex> <postfix expr> <additions 0> <additions 1> …` →
    `ok <canonical dump> <unique id of the result | err variant>` / `err <variant>` -/
def mergexOp : Handler
  | cfg, h :: expr :: addss =>
    let ps := addss.map (describe cfg h)
    if ps.any Option.isNone then "bad-op" else
    let ps := ps.filterMap id
    match evalExpr hashes ps expr.toList [] with
    | none => "bad-op"
    | some (.ok m) =>
      let u := match m.uniqueId hashes with
        | .ok u => Hex.enc u
        | .err e => "err:" ++ e
        | .panic _ => "panic"
      s!"ok {dumpPset m} {u}"
    | some (.err e) => "err " ++ e
    | some (.panic _) => "panic"
  | _, _ => "bad-op"

def ops : List (String × Handler) := [("pset.xpub", xpubOp), ("pset.mergex", mergexOp)]
end EV.Driver.C14
