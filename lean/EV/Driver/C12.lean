import EV.Driver.Util
import EV.Driver.MemTx
namespace EV.Driver.C12
open EV EV.Driver EV.Codec

def optNat : Option Nat → String | some n => toString n | none => "panic"

def sizesOp : Handler
  | cfg, [h] => withHex h fun bs =>
    match Tx.deserialize cfg.prims bs with
    | .ok t => s!"ok {t.size} {t.weight} {t.vsize} {optNat t.discountWeight} {optNat t.discountVsize}"
    | .err _ => "err"
    | .panic _ => "panic"
  | _, _ => "bad-op"

/-- `sizesmem m:<memtx>`: sizes of an in-memory transaction the consensus encoding cannot carry -/
def sizesMemOp : Handler
  | cfg, [h] =>
    match MemTx.decodeTxArg cfg.prims h with
    | some t => s!"ok {t.size} {t.weight} {t.vsize} {optNat t.discountWeight} {optNat t.discountVsize}"
    | none => "bad-op"
  | _, _ => "bad-op"

def blockSizesOp : Handler
  | cfg, [h] => withHex h fun bs =>
    match Block.dec cfg.prims bs with
    | .ok (b, []) => s!"ok {b.size} {b.weight}"
    | .ok _ => "err"
    | .err _ => "err"
    | .panic _ => "panic"
  | _, _ => "bad-op"

def ops : List (String × Handler) := [("sizes", sizesOp), ("sizesmem", sizesMemOp), ("blocksizes", blockSizesOp)]
end EV.Driver.C12
