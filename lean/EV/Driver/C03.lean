import EV.Driver.SighashUtil
import EV.Driver.MemTx
namespace EV.Driver.C03
open EV EV.Driver EV.Codec EV.Sighash EV.Driver.SighashUtil

/-- the as-coded message of a query (no cache) -/
def msgOf (tx : Tx) : Query → Res Bytes
  | .legacy idx sc ty => msgLegacy tx idx sc ty
  | .segwit idx sc v ty => msgSegwit sigHashes tx idx sc v ty
  | .taproot idx pv a l ty g => msgTaproot sigHashes tx idx pv a l ty g

/-- the independent transcription of the specifications on the same query (message level); `none`
    where the specification has no message (legacy SIGHASH_SINGLE out of range: the digest is the
    constant ONE) or differs by design (`Reserved` is not a valid hash type) -/
def specOf (tx : Tx) : Query → Option (Res Bytes)
  | .legacy idx sc ty =>
    if ty.base = .single ∧ idx ≥ tx.output.length ∧ idx < tx.input.length then none
    else some (specLegacy tx idx sc ty.asU32)
  | .segwit idx sc v ty => some (specSegwit sigHashes tx idx sc v ty.asU32)
  | .taproot idx pv a l ty g =>
    if ty = .reserved then none else some (specTaproot sigHashes tx idx pv a l ty.byte g)

/-- equality of outcomes; the site named by a panic is not part of the outcome -/
def sameRes : Res Bytes → Res Bytes → Bool
  | .panic _, .panic _ => true
  | a, b => a == b

/-- the digest according to the specifications -/
def specDigestOf (tx : Tx) : Query → Option (Res Bytes)
  | .legacy idx sc ty => some (specLegacySighash sigHashes tx idx sc ty.asU32)
  | .segwit idx sc v ty => some ((specSegwit sigHashes tx idx sc v ty.asU32).map sigHashes.sha256d)
  | .taproot idx pv a l ty g =>
    if ty = .reserved then none
    else some ((specTaproot sigHashes tx idx pv a l ty.byte g).map (sigHashes.tagged Gen.tapSighashTag))

def resLine (digest msg : Res Bytes) (specOk : Bool) : String :=
  let tail := if specOk then "" else " SPECDIFF"
  match digest, msg with
  | .ok d, .ok m => s!"ok {Hex.enc d} {Hex.enc m}{tail}"
  | .err k, _ => (if k == ePrevoutKind then "err PrevoutKind" else "err") ++ tail
  | .panic _, _ => "panic" ++ tail
  | _, _ => "model-inconsistent"

/-- `sighash <txhex | m:memtx> <prevouts> <genesis> <query>` → `ok <digest> <message>`
    (`m:`: field-wise in-memory transport, `EV.Driver.MemTx`, for values the consensus encoding cannot carry) -/
def sighashOp : Handler
  | cfg, [txh, pvs, gen, q] =>
    let P := lax cfg.prims
    match MemTx.decodeTxArg P txh, Hex.decode gen with
    | some tx, some g =>
      match parsePrevouts P pvs with
      | some ps =>
        match parseQuery P ps g q with
        | some .annexErr => "err"
        | some (.op (.q qq)) =>
          let m := msgOf tx qq
          let d := fresh sigHashes tx qq
          let specOk := (match specOf tx qq with
            | some s => sameRes s m
            | none => true) && (match specDigestOf tx qq with
            | some s => sameRes s d
            | none => true)
          resLine d m specOk
        | _ => "bad-op"
      | _ => "bad-op"
    | _, _ => "bad-op"
  | _, _ => "bad-op"

/-- `sigvec <L|S> <txhex> <script> <idx> <value|-> <type> <expected digest>`: a test vector of
    src/sighash.rs; true iff the as-coded model AND the specification transcription give it -/
def sigvecOp : Handler
  | cfg, [kind, txh, script, idx, value, ty, expected] =>
    let P := lax cfg.prims
    match Hex.decode txh, Hex.decode script, idx.toNat?, parseEcdsa ty, Hex.decode expected with
    | some tb, some sc, some i, some t, some ex =>
      match Tx.deserialize P tb with
      | .ok tx =>
        if kind == "L" then
          let a := legacySighash sigHashes tx i sc t
          let s := specLegacySighash sigHashes tx i sc t.asU32
          s!"ok {decide (a = .ok ex) && decide (s = .ok ex)}"
        else if kind == "S" then
          match Hex.decode value with
          | some vb =>
            match Value.dec P vb with
            | .ok (v, []) =>
              let a := segwitSighash sigHashes tx i sc v t
              let s := (specSegwit sigHashes tx i sc v t.asU32).map sigHashes.sha256d
              s!"ok {decide (a = .ok ex) && decide (s = .ok ex)}"
            | _ => "bad-op"
          | none => "bad-op"
        else "bad-op"
      | _ => "bad-op"
    | _, _, _, _, _ => "bad-op"
  | _, _ => "bad-op"

def ops : List (String × Handler) := [("sighash", sighashOp), ("sigvec", sigvecOp)]
end EV.Driver.C03
