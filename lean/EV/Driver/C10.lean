import EV.Driver.Util
import EV.Model.Accessors
namespace EV.Driver.C10
open EV EV.Driver EV.Codec EV.Acc

def hexList (l : List Bytes) : String := ",".intercalate (l.map Hex.enc)

/-- decode `d` on the whole of `bs` -/
def full {α} (d : Dec α) (bs : Bytes) : Option α :=
  match d bs with
  | .ok (a, []) => some a
  | _ => none

def errTag (e : String) : String := String.ofList (e.toList.map (fun c => if c == ' ' then '_' else c))

def instrStr : Instr → String
  | .push d => "p:" ++ Hex.enc d
  | .op b => "o:" ++ toString b.toNat

/-- `acc.instr <0|1> <script>` → the instructions and the final error, if any -/
def instrOp : Handler
  | _, [m, h] => withHex h fun bs =>
    match instructions (m == "1") bs with
    | .ok (is, e) =>
      "ok " ++ toString is.length ++ " [" ++ " ".intercalate (is.map instrStr) ++ "] " ++
        (match e with | none => "end" | some e => e)
    | .err _ => "err"
    | .panic _ => "panic"
  | _, _ => "bad-op"

/-- `acc.pegout <txout>` → is_null_data, is_op_return, pegout_data -/
def pegoutOp : Handler
  | cfg, [h] => withHex h fun bs =>
    match full (TxOut.dec cfg.prims) bs with
    | none => "err"
    | some o =>
      match isNullData o.scriptPubkey, isOpReturn o.scriptPubkey, pegoutData o with
      | .ok nd, .ok opr, .ok pd =>
        let p := match pd with
          | none => "none"
          | some d => s!"some {d.value} {Hex.enc d.asset.enc} {Hex.enc d.genesisHash} {Hex.enc d.scriptPubkey} {d.extraData.length} [{hexList d.extraData}]"
        s!"ok nd={nd} opret={opr} {p}"
      | _, _, _ => "panic"
  | _, _ => "bad-op"

/-- `acc.minvalue <txout> <txoutwitness>` -/
def minvalueOp : Handler
  | cfg, [h, hw] => withHex h fun bs => withHex hw fun ws =>
    match full (TxOut.dec cfg.prims) bs, full (TxOutWitness.dec cfg.prims) ws with
    | some o, some w => resStr toString (minimumValue { o with witness := w })
    | _, _ => "err"
  | _, _ => "bad-op"

/-- `acc.pegin <txin> <txinwitness>` → pegin_data and the result of from_pegin_witness -/
def peginOp : Handler
  | cfg, [h, hw] => withHex h fun bs => withHex hw fun ws =>
    match full (TxIn.dec cfg.prims) bs, full (TxInWitness.dec cfg.prims) ws with
    | some i0, some w =>
      let i := { i0 with witness := w }
      let pd := match peginData Sha256.sha256d i with
        | .ok none => "none"
        | .ok (some d) =>
          s!"some {d.value} {Hex.enc d.asset} {Hex.enc d.genesisHash} {Hex.enc d.claimScript} {Hex.enc d.tx} {Hex.enc d.merkleProof} {Hex.enc d.referencedBlock} {Hex.enc d.outpointTxid} {d.outpointVout}"
        | .err _ => "err"
        | .panic _ => "panic"
      let fw := match fromPeginWitness Sha256.sha256d i.witness.peginWitness i.previousOutput.txid i.previousOutput.vout with
        | .ok _ => "ok"
        | .err e => "err:" ++ errTag e
        | .panic _ => "panic"
      if pd == "panic" || fw == "panic" then "panic" else s!"ok {pd} fw={fw} pegin={i.isPegin}"
    | _, _ => "err"
  | _, _ => "bad-op"

/-- `acc.schnorrsig <hex>` -/
def schnorrOp : Handler
  | _, [h] => withHex h fun bs =>
    match schnorrSigFromSlice bs with
    | .ok (sig, ty) => s!"ok {Hex.enc sig} {ty.toNat}"
    | .err e => "err " ++ e
    | .panic _ => "panic"
  | _, _ => "bad-op"

/-- `acc.merklebranch <hex>` -/
def branchOp : Handler
  | _, [h] => withHex h fun bs =>
    match merkleBranchFromSlice bs with
    | .ok l => s!"ok {l.length} [{hexList l}]"
    | .err e => "err " ++ e
    | .panic _ => "panic"
  | _, _ => "bad-op"

/-- `acc.leafver <byte>` -/
def leafverOp : Handler
  | _, [n] =>
    match n.toNat? with
    | some v =>
      if v ≥ 256 then "bad-op" else
      match leafVersionFromU8 (UInt8.ofNat v) with
      | .ok b => s!"ok {b.toNat}"
      | .err _ => "err"
      | .panic _ => "panic"
    | none => "bad-op"
  | _, _ => "bad-op"

def xonly (k : Bytes) : Bool := k.length == 32 && Secp.xOnCurve k

/-- `acc.controlblock <hex>` -/
def controlOp : Handler
  | _, [h] => withHex h fun bs =>
    match controlBlockFromSlice xonly bs with
    | .ok c => s!"ok {c.leafVersion.toNat} {c.outputKeyParity} {Hex.enc c.internalKey} {c.merkleBranch.length} [{hexList c.merkleBranch}]"
    | .err e => "err " ++ e
    | .panic _ => "panic"
  | _, _ => "bad-op"

/-- `acc.alloc <bytes|vecvec> <hex>` → the up-front allocation request of the vector decoder -/
def allocOp : Handler
  | _, [k, h] => withHex h fun bs =>
    let a := if k == "bytes" then allocBytesVec bs else allocVecOf 24 bs
    let r := if k == "bytes" then (match bytesVec bs with | .ok _ => "ok" | .err _ => "err" | .panic _ => "panic")
             else (match bytesVecVec bs with | .ok _ => "ok" | .err _ => "err" | .panic _ => "panic")
    s!"ok {a.getD 0} {r}"
  | _, _ => "bad-op"

def ops : List (String × Handler) :=
  [("acc.instr", instrOp), ("acc.pegout", pegoutOp), ("acc.minvalue", minvalueOp), ("acc.pegin", peginOp),
   ("acc.schnorrsig", schnorrOp), ("acc.merklebranch", branchOp), ("acc.leafver", leafverOp),
   ("acc.controlblock", controlOp), ("acc.alloc", allocOp)]
end EV.Driver.C10
