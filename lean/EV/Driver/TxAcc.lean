import EV.Driver.Util
import EV.Model.TxAccessors
/-! driver ops of the transaction accessors (model growth of C12; `EV.Model.TxAccessors`) -/
namespace EV.Driver.TxAcc
open EV EV.Driver EV.Codec EV.Acc EV.TxAcc

def b01 (x : Bool) : String := if x then "1" else "0"

/-- decode `d` on the whole of `bs` -/
def full {α} (d : Dec α) (bs : Bytes) : Option α :=
  match d bs with
  | .ok (a, []) => some a
  | _ => none

def hexList (l : List Bytes) : String := ",".intercalate (l.map Hex.enc)

def errTag (e : String) : String := String.ofList (e.toList.map (fun c => if c == ' ' then '_' else c))

def resBool : Res Bool → String
  | .ok x => b01 x
  | .err _ => "err"
  | .panic _ => "panic"

def pegoutStr : Res (Option PegoutData) → String
  | .ok none => "none"
  | .ok (some d) =>
    s!"some {d.value} {Hex.enc d.asset.enc} {Hex.enc d.genesisHash} {Hex.enc d.scriptPubkey} {d.extraData.length} [{hexList d.extraData}]"
  | .err _ => "err"
  | .panic _ => "panic"

/-- `txacc.out <txout> <txoutwitness>` → is_fee, is_null_data, is_pegout, is_partially_blinded, pegout_data -/
def outOp : Handler
  | cfg, [h, hw] => withHex h fun bs => withHex hw fun ws =>
    match full (TxOut.dec cfg.prims) bs, full (TxOutWitness.dec cfg.prims) ws with
    | some o0, some w =>
      let o := { o0 with witness := w }
      let nd := resBool (outIsNullData o)
      let po := resBool (isPegout o)
      let pd := pegoutStr (pegoutData o)
      if nd == "panic" || po == "panic" || pd == "panic" then "panic" else
      s!"ok fee={b01 (isFee o)} nd={nd} pegout={po} pb={b01 (isPartiallyBlinded o)} {pd}"
    | _, _ => "err"
  | _, _ => "bad-op"

/-- `txacc.newfee <amount> <asset>` → the serialized output and witness, is_fee, is_partially_blinded -/
def newFeeOp : Handler
  | _, [a, h] => withHex h fun asset =>
    match a.toNat? with
    | some amount =>
      let o := newFee amount asset
      s!"ok {Hex.enc o.enc} {Hex.enc o.witness.enc} fee={b01 (isFee o)} pb={b01 (isPartiallyBlinded o)}"
    | none => "bad-op"
  | _, _ => "bad-op"

def prevStr : Option OutPoint → String
  | none => "none"
  | some p => s!"{Hex.enc p.txid}:{p.vout}"

/-- `txacc.in <txin> <txinwitness>` → is_coinbase, is_pegin, has_issuance, outpoint_flag, pegin_prevout,
    pegin_data, the verdict of from_pegin_witness and `to_pegin_witness` of the parsed data -/
def inOp : Handler
  | cfg, [h, hw] => withHex h fun bs => withHex hw fun ws =>
    match full (TxIn.dec cfg.prims) bs, full (TxInWitness.dec cfg.prims) ws with
    | some i0, some w =>
      let i := { i0 with witness := w }
      let fw := match fromPeginWitness Sha256.sha256d i.witness.peginWitness i.previousOutput.txid i.previousOutput.vout with
        | .ok _ => "ok"
        | .err e => "err:" ++ errTag e
        | .panic _ => "panic"
      let pd := match peginData Sha256.sha256d i with
        | .ok none => "none tw=-"
        | .ok (some d) =>
          s!"some {d.value} {Hex.enc d.asset} {Hex.enc d.genesisHash} {Hex.enc d.claimScript} {Hex.enc d.tx} {Hex.enc d.merkleProof} {Hex.enc d.referencedBlock} {Hex.enc d.outpointTxid}:{d.outpointVout} tw={(toPeginWitness d).length}:[{hexList (toPeginWitness d)}]"
        | .err _ => "err"
        | .panic _ => "panic"
      if fw == "panic" || pd == "panic" then "panic" else
      s!"ok cb={b01 (inIsCoinbase i)} pegin={b01 (inIsPegin i)} iss={b01 i.hasIssuance} flag={outpointFlag i} prev={prevStr (peginPrevout i)} wok={b01 (peginWitnessOk i.witness.peginWitness)} fw={fw} {pd}"
    | _, _ => "err"
  | _, _ => "bad-op"

def bytesLe : Bytes → Bytes → Bool
  | [], _ => true
  | _ :: _, [] => false
  | a :: as, c :: cs => if a.toNat < c.toNat then true else if c.toNat < a.toNat then false else bytesLe as cs

def feesStr : Res FeeMap → String
  | .ok m =>
    let sorted := m.mergeSort (fun x y => bytesLe x.1 y.1)
    "[" ++ ",".intercalate (sorted.map (fun kv => s!"{Hex.enc kv.1}:{kv.2}")) ++ "]"
  | .err _ => "err"
  | .panic _ => "panic"

/-- `txacc.tx <tx>` → is_coinbase, has_witness, get_size, get_weight, number of fee outputs, all_fees
    (sorted by asset id; `panic` when a `u64` sum overflows under overflow checks) -/
def txOp : Handler
  | cfg, [h] => withHex h fun bs =>
    match Tx.deserialize cfg.prims bs with
    | .ok t =>
      match txIsCoinbase t with
      | .ok cb =>
        s!"ok cb={b01 cb} wit={b01 t.hasWitness} gs={txGetSize t} gw={txGetWeight t} nfee={(t.output.filter isFee).length} fees={feesStr (allFees true t)}"
      | _ => "panic"
    | .err _ => "err"
    | .panic _ => "panic"
  | _, _ => "bad-op"

/-- `txacc.feein <tx> <asset>` → fee_in(asset) -/
def feeInOp : Handler
  | cfg, [h, ha] => withHex h fun bs => withHex ha fun asset =>
    match Tx.deserialize cfg.prims bs with
    | .ok t => resStr toString (feeIn true t asset)
    | .err _ => "err"
    | .panic _ => "panic"
  | _, _ => "bad-op"

/-- `txacc.block <block>` → get_size, get_weight -/
def blockOp : Handler
  | cfg, [h] => withHex h fun bs =>
    match Block.dec cfg.prims bs with
    | .ok (b, []) => s!"ok {blockGetSize b} {blockGetWeight b}"
    | .ok _ => "err"
    | .err _ => "err"
    | .panic _ => "panic"
  | _, _ => "bad-op"

/-- `txacc.seq <u32>` → is_final is_rbf is_relative_lock_time is_height_locked is_time_locked enables_absolute_lock_time -/
def seqOp : Handler
  | _, [a] =>
    match a.toNat? with
    | some n =>
      s!"ok {b01 (seqIsFinal n)} {b01 (seqIsRbf n)} {b01 (seqIsRelativeLockTime n)} {b01 (seqIsHeightLocked n)} {b01 (seqIsTimeLocked n)} {b01 (seqEnablesAbsoluteLockTime n)}"
    | none => "bad-op"
  | _, _ => "bad-op"

/-- `txacc.seqfrom <height|iv512|floor|ceil> <n>` → the consensus value of the constructed `Sequence` -/
def seqFromOp : Handler
  | _, [k, a] =>
    match a.toNat? with
    | some n =>
      if k == "height" then s!"ok {seqFromHeight n}"
      else if k == "iv512" then s!"ok {seqFrom512 n}"
      else if k == "floor" then resStr toString (seqFromSecondsFloor n)
      else if k == "ceil" then resStr toString (seqFromSecondsCeil n)
      else "bad-op"
    | none => "bad-op"
  | _, _ => "bad-op"

def decodeAll : List String → Option (List Bytes)
  | [] => some []
  | s :: rest =>
    match Hex.decode s, decodeAll rest with
    | some b, some r => some (b :: r)
    | _, _ => none

/-- `txacc.pegouttpl <genesis> <script> <extra>*` → the template script as the builder model writes it,
    and whether that is the canonical encoding `pegoutScript` -/
def pegoutTplOp : Handler
  | _, g :: s :: es =>
    match Hex.decode g, Hex.decode s, decodeAll es with
    | some g, some s, some es =>
      match Script.build (pegoutBuilderCalls g s es) with
      | some sc => s!"ok {Hex.enc sc} {b01 (sc == pegoutScript g s es)}"
      | none => "panic"
    | _, _, _ => "bad-op"
  | _, _ => "bad-op"

def ops : List (String × Handler) :=
  [("txacc.out", outOp), ("txacc.newfee", newFeeOp), ("txacc.in", inOp), ("txacc.tx", txOp),
   ("txacc.feein", feeInOp), ("txacc.block", blockOp), ("txacc.seq", seqOp), ("txacc.seqfrom", seqFromOp),
   ("txacc.pegouttpl", pegoutTplOp)]
end EV.Driver.TxAcc
