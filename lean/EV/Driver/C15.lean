import EV.Driver.Util
import EV.Model.Taproot
namespace EV.Driver.C15
open EV EV.Driver EV.Taproot

def tapHashes : TapHashes :=
  { leaf := Sha256.tagged Gen.Taproot.leafTag,
    branch := Sha256.tagged Gen.Taproot.branchTag,
    tweak := Sha256.tagged Gen.Taproot.tweakTag }

/-- EC record of the driver: parse predicates are computed, the tweak result is an oracle input -/
def ecWith (oracle : Option (Bytes × Bool)) : EC :=
  { xonlyOk := fun b => b.length == 32 && Secp.xOnCurve b,
    scalarOk := fun b => beNat b < Secp.n,
    tweakAdd := fun _ _ => oracle,
    tweakAddCheck := fun _ q par _ => oracle == some (q, par) }

def ecVerdict (v : Bool) : EC := { ecWith none with tweakAddCheck := fun _ _ _ _ => v }

def parseItem (s : String) : Option (Nat × Item) :=
  match s.splitOn ":" with
  | [d, "L", v, sc] =>
    match d.toNat?, v.toNat?, Hex.decode sc with
    | some d, some v, some sc => if v < 256 then some (d, .leaf sc (UInt8.ofNat v)) else none
    | _, _, _ => none
  | [d, "H", h] =>
    match d.toNat?, Hex.decode h with
    | some d, some h => some (d, .hidden h)
    | _, _ => none
  | _ => none

def parseListing (s : String) : Option (List (Nat × Item)) :=
  if s == "-" then some [] else (s.splitOn ",").mapM parseItem

def errChar (e : String) : String :=
  if e == "InvalidMerkleTreeDepth" then "D"
  else if e == "NodeNotInDfsOrder" then "N"
  else if e == "OverCompleteTree" then "C"
  else "?"

/-- run the builder step by step; returns the status string and the builder if every step was ok -/
def runSteps : Builder → List (Nat × Item) → String → String × Option Builder
  | b, [], acc => (acc, some b)
  | b, (d, it) :: rest, acc =>
    let verOk := match it with | .leaf _ v => leafVersionOk v | .hidden _ => true
    if !verOk then (acc ++ "V", none)
    else
      match addItem tapHashes b d it with
      | .ok b' => runSteps b' rest (acc ++ "o")
      | .err e => (acc ++ errChar e, none)
      | .panic _ => (acc ++ "P", none)

def showLeaf (l : LeafInfo) : String :=
  s!"{Hex.enc l.script}:{l.ver.toNat}:{Hex.enc l.branch.flatten}"

def showLeaves (ls : List LeafInfo) : String :=
  if ls.isEmpty then "-" else ",".intercalate (ls.map showLeaf)

/-- `tap.build <listing>` → step statuses, completeness, finalize result (root, leaves in builder order) -/
def buildOp : Handler
  | _, [l] =>
    match parseListing l with
    | none => "bad-op"
    | some items =>
      let (st, ob) := runSteps [] items ""
      let st := if st.isEmpty then "-" else st
      match ob with
      | none => s!"ok {st} stopped"
      | some b =>
        let c := if isComplete b then "1" else "0"
        match finalizeNode b with
        | .ok n => s!"ok {st} {c} {Hex.enc n.hash} {showLeaves n.leaves}"
        | .err e => s!"ok {st} {c} {e}"
        | .panic _ => "panic"
  | _, _ => "bad-op"

def insertSorted {α} (lt : α → α → Bool) (x : α) : List α → List α
  | [] => [x]
  | y :: ys => if lt x y then x :: y :: ys else y :: insertSorted lt x ys
def sortBy {α} (lt : α → α → Bool) (l : List α) : List α := l.foldl (fun acc x => insertSorted lt x acc) []

def keyLt (a b : (Bytes × UInt8) × List (List Bytes)) : Bool :=
  match cmpBytes a.1.1 b.1.1 with
  | .lt => true
  | .gt => false
  | .eq => a.1.2 < b.1.2

def branchLt (a b : List Bytes) : Bool := cmpList cmpBytes a b == .lt

/-- script map sorted like the BTreeMap / BTreeSet, with the control block chosen for each key -/
def showMap (si : SpendInfo) : String :=
  let ents := sortBy keyLt si.scriptMap
  if ents.isEmpty then "-" else
  ",".intercalate (ents.map fun ((s, v), set) =>
    let brs := "/".intercalate ((sortBy branchLt set).map fun br => Hex.enc br.flatten)
    let cb := match controlBlock si s v with
      | some (some cb) => Hex.enc cb.encode
      | some none => "none"
      | none => "panic"
    s!"{Hex.enc s}:{v.toNat}:{brs}:{cb}")

def showSpend (si : SpendInfo) : String :=
  let root := match si.merkleRoot with | some r => Hex.enc r | none => "none"
  s!"{root} {Hex.enc (tweakHash tapHashes si.internalKey si.merkleRoot)} {Hex.enc si.outputKey} {if si.parity then 1 else 0} {Hex.enc (p2trScript si.outputKey)} {showMap si}"

def parseOracle (q par : String) : Option (Option (Bytes × Bool)) :=
  if q == "none" then some none else
  match Hex.decode q, par with
  | some q, "0" => some (some (q, false))
  | some q, "1" => some (some (q, true))
  | _, _ => none

/-- `tap.spend <internal key> <listing> <real add_tweak result: key parity>`:
    build, finalize, spend info (root, tweak hash, output key, script map, control blocks) -/
def spendOp : Handler
  | _, [k, l, q, par] =>
    match Hex.decode k, parseListing l, parseOracle q par with
    | some k, some items, some orc =>
      match buildTree tapHashes items with
      | .ok n =>
        match fromNodeInfo (ecWith orc) tapHashes k n with
        | .ok si => "ok " ++ showSpend si
        | .err _ => "err"
        | .panic _ => "panic"
      | .err _ => "err"
      | .panic _ => "panic"
    | _, _, _ => "bad-op"
  | _, _ => "bad-op"

/-- `tap.keyspend <internal key> <root|none> <real add_tweak result>` -/
def keyspendOp : Handler
  | _, [k, r, q, par] =>
    let root := if r == "none" then some none else (Hex.decode r).map some
    match Hex.decode k, root, parseOracle q par with
    | some k, some root, some orc =>
      match newKeySpend (ecWith orc) tapHashes k root with
      | .ok si => "ok " ++ showSpend si
      | .err _ => "err"
      | .panic _ => "panic"
    | _, _, _ => "bad-op"
  | _, _ => "bad-op"

/-- `tap.cb <hex>` → decoded fields, re-encoding, size -/
def cbOp : Handler
  | _, [h] => withHex h fun bs =>
    match ControlBlock.decode (ecWith none) bs with
    | .ok cb =>
      s!"ok {cb.leafVersion.toNat} {if cb.parity then 1 else 0} {Hex.enc cb.internalKey} {cb.branch.length} {Hex.enc cb.encode} {cb.size}"
    | .err _ => "err"
    | .panic _ => "panic"
  | _, _ => "bad-op"

/-- `tap.verifyroot <cb hex> <script hex>` → recomputed root and tweak hash -/
def verifyrootOp : Handler
  | _, [h, s] =>
    match Hex.decode h, Hex.decode s with
    | some bs, some sc =>
      match ControlBlock.decode (ecWith none) bs with
      | .ok cb =>
        let root := ControlBlock.computeRoot tapHashes sc cb.leafVersion cb.branch
        s!"ok {Hex.enc root} {Hex.enc (tweakHash tapHashes cb.internalKey (some root))}"
      | .err _ => "err"
      | .panic _ => "panic"
    | _, _ => "bad-op"
  | _, _ => "bad-op"

/-- `tap.verify <cb hex> <script hex> <output key hex> <answer of the real tweak_add_check for the
    model's tweak>` → verdict -/
def verifyOp : Handler
  | _, [h, s, q, a] =>
    match Hex.decode h, Hex.decode s, Hex.decode q with
    | some bs, some sc, some q =>
      match ControlBlock.decode (ecWith none) bs with
      | .ok cb =>
        match ControlBlock.verify (ecVerdict (a == "1")) tapHashes cb q sc with
        | .ok v => if v then "ok 1" else "ok 0"
        | .err _ => "err"
        | .panic _ => "panic"
      | .err _ => "err"
      | .panic _ => "panic"
    | _, _, _ => "bad-op"
  | _, _ => "bad-op"

def parseWeights (s : String) : Option (List (Nat × Bytes)) :=
  if s == "-" then some [] else
  (s.splitOn ",").mapM fun e =>
    match e.splitOn ":" with
    | [w, sc] => match w.toNat?, Hex.decode sc with
      | some w, some sc => some (w, sc)
      | _, _ => none
    | _ => none

/-- `tap.huffman <internal key> <w:script,…> <real add_tweak result>` -/
def huffmanOp : Handler
  | _, [k, ws, q, par] =>
    match Hex.decode k, parseWeights ws, parseOracle q par with
    | some k, some ws, some orc =>
      match withHuffmanTree (ecWith orc) tapHashes k ws with
      | .ok si => "ok " ++ showSpend si
      | .err e => "err " ++ e
      | .panic _ => "panic"
    | _, _, _ => "bad-op"
  | _, _ => "bad-op"

def leafhashOp : Handler
  | _, [s, v] =>
    match Hex.decode s, v.toNat? with
    | some s, some v => okHex (leafHash tapHashes s (UInt8.ofNat v))
    | _, _ => "bad-op"
  | _, _ => "bad-op"

def branchhashOp : Handler
  | _, [a, b] =>
    match Hex.decode a, Hex.decode b with
    | some a, some b => okHex (branchHash tapHashes a b)
    | _, _ => "bad-op"
  | _, _ => "bad-op"

def tweakhashOp : Handler
  | _, [k, r] =>
    let root := if r == "none" then some none else (Hex.decode r).map some
    match Hex.decode k, root with
    | some k, some root => okHex (tweakHash tapHashes k root)
    | _, _ => "bad-op"
  | _, _ => "bad-op"

/-- `tap.leafver <n>` → `LeafVersion::from_u8` acceptance -/
def leafverOp : Handler
  | _, [v] =>
    match v.toNat? with
    | some v => if v < 256 && leafVersionOk (UInt8.ofNat v) then s!"ok {v}" else "err"
    | none => "bad-op"
  | _, _ => "bad-op"

def ops : List (String × Handler) :=
  [("tap.build", buildOp), ("tap.spend", spendOp), ("tap.keyspend", keyspendOp), ("tap.cb", cbOp),
   ("tap.verifyroot", verifyrootOp), ("tap.verify", verifyOp), ("tap.huffman", huffmanOp),
   ("tap.leafhash", leafhashOp), ("tap.branchhash", branchhashOp),
   ("tap.tweakhash", tweakhashOp), ("tap.leafver", leafverOp)]
end EV.Driver.C15
