/-
  Driver ops for C05 (amount verification): `verify` of `EV.Model.Blind` with the answers of the
  EC primitives (range-proof verify, surjection-proof verify, commitment tally) replayed from the
  op line.  Wire format as in `EV.Driver.C04`.
-/
import EV.Driver.C04
namespace EV.Driver.C05
open EV EV.Driver EV.Blind EV.Driver.C04

/-! ### verification with the primitives' answers replayed -/

def vprims (sumEq : Bool) : VPrims String Unit Bool Bool where
  genUnblinded := fun _ => ()
  commitUnblinded := fun _ _ => ()
  rangeVerify := fun rp _ _ _ => rp
  surjVerify := fun sp _ _ => sp
  sumEqual := fun _ _ => sumEq

/-- `amount:keys` -/
def parseIn (s : String) : Option (Blind.TxIn String Unit) :=
  match s.splitOn ":" with
  | [a, k] => match parseValue a, parseValue k with
    | some a, some k => some ⟨a, k, "asset", "token"⟩
    | _, _ => none
  | _ => none

/-- `verify.decide <inputs> <utxos> <outputs> <sum t|f>` -/
def decideOp : Handler
  | _, [ins, utxos, outs, sumEq] =>
    match mapOpt parseIn (splitList ins), parseOuts utxos, parseOuts outs with
    | some ins, some utxos, some outs =>
      if sumEq != "t" && sumEq != "f" then "bad-op"
      else (verify (vprims (sumEq == "t")) ins outs utxos).str
    | _, _, _ => "bad-op"
  | _, _ => "bad-op"

/-- `bvp.verify <e | start:end> <explicit value>` -/
def bvpOp : Handler
  | _, [r, v] =>
    match v.toNat? with
    | none => "bad-op"
    | some v =>
      let rr : Option (Option (Nat × Nat)) :=
        if r == "e" then some none
        else match r.splitOn ":" with
          | [a, b] => match a.toNat?, b.toNat? with
            | some a, some b => some (some (a, b))
            | _, _ => none
          | _ => none
      match rr with
      | none => "bad-op"
      | some rr => match blindValueProofVerify rr v with
        | some b => "ok " ++ tf b
        | none => "panic"
  | _, _ => "bad-op"

def ops : List (String × Handler) := [("verify.decide", decideOp), ("bvp.verify", bvpOp)]
end EV.Driver.C05
