import EV.Driver.Util
import EV.Model.Genesis
import EV.Model.Sha256K
namespace EV.Driver.C02
open EV EV.Driver EV.Codec

def txidOp : Handler
  | cfg, [h] => withHex h fun bs =>
    match Tx.deserialize cfg.prims bs with
    | .ok t => s!"ok {Hex.enc (t.txid hashes)} {Hex.enc (t.wtxid hashes)}"
    | .err _ => "err"
    | .panic _ => "panic"
  | _, _ => "bad-op"

def blockhashOp : Handler
  | _, [h] => withHex h fun bs =>
    match BlockHeader.dec bs with
    | .ok (hd, []) => s!"ok {Hex.enc (hd.blockHash hashes)} {Hex.enc hd.clearWitness.enc}"
    | .ok _ => "err"
    | .err _ => "err"
    | .panic _ => "panic"
  | _, _ => "bad-op"

/-- self-test of the executable hash used by the driver -/
def shaOp : Handler
  | _, [h] => withHex h fun bs => s!"ok {Hex.enc (Sha256.sha256 bs)} {Hex.enc (Sha256.sha256d bs)}"
  | _, _ => "bad-op"

/-! ### genesis blocks and chain hashes (EV.Model.Genesis) -/

/-- the model's hashes instantiated with the executable SHA-256 -/
def ghashes : Genesis.GHashes := { hashes with sha256 := Sha256.sha256 }

def txidsStr (b : Block) : String := ",".intercalate (b.txdata.map fun t => Hex.enc (t.txid hashes))

/-- `genesis <network_id> <fedpeg> <signblock> <coins>`: serialized `genesis_block(&NetworkParams::new(..))`,
    its `block_hash()`, `ChainHash::for_params`, the txids of its transactions, the commitment -/
def genesisOp : Handler
  | _, [nid, fed, sb, coins] =>
    match Hex.decode nid, Hex.decode fed, Hex.decode sb, coins.toNat? with
    | some nid, some fed, some sb, some coins =>
      let p := Genesis.NetworkParams.new nid fed sb coins
      match Genesis.genesisBlock ghashes p, Genesis.chainHash ghashes p with
      | some b, some ch =>
        s!"ok {Hex.enc b.enc} {Hex.enc (b.header.blockHash hashes)} {Hex.enc ch} {txidsStr b} {Hex.enc (Genesis.commit Sha256.sha256 p)}"
      | _, _ => "panic"
    | _, _, _, _ => "bad-op"
  | _, _ => "bad-op"

/-- `gcommit <network_id> <fedpeg> <signblock>`: `commit_to_custom_network_parameters` -/
def gcommitOp : Handler
  | _, [nid, fed, sb] =>
    match Hex.decode nid, Hex.decode fed, Hex.decode sb with
    | some nid, some fed, some sb => okHex (Genesis.commit Sha256.sha256 (Genesis.NetworkParams.new nid fed sb 0))
    | _, _, _ => "bad-op"
  | _, _ => "bad-op"

def paramsStr (p : Genesis.NetworkParams) : String :=
  s!"{Hex.enc p.networkId} {Hex.enc p.fedpegScript} {Hex.enc p.signBlockScript} {p.initialFreeCoins}"

/-- `gbuiltin liquidv1|liquidtestnet`: the built-in parameter set (as extracted from the source), the
    chain hash the model computes for it and the `ChainHash` constant (as extracted) -/
def gbuiltinOp : Handler
  | _, [name] =>
    let go (p : Genesis.NetworkParams) (c : Bytes) : String :=
      match Genesis.chainHash ghashes p with
      | some ch => s!"ok {paramsStr p} {Hex.enc ch} {Hex.enc c}"
      | none => "panic"
    if name == "liquidv1" then go Genesis.NetworkParams.liquidv1 Genesis.chainHashLiquidv1
    else if name == "liquidtestnet" then go Genesis.NetworkParams.liquidtestnet Genesis.chainHashLiquidtestnet
    else "bad-op"
  | _, _ => "bad-op"

/-- an optional byte string on the op line: `none`, or hex (`-` = empty) -/
def optBytes (s : String) : Option (Option Bytes) :=
  if s == "none" then some none else (Hex.decode s).map some

/-- `gcustom <network_id> <fedpeg|none> <signblock|none> <coins|none>`: `NetworkParams::custom_network` -/
def gcustomOp : Handler
  | _, [nid, fed, sb, coins] =>
    let coins? : Option (Option Nat) := if coins == "none" then some none else coins.toNat?.map some
    match Hex.decode nid, optBytes fed, optBytes sb, coins? with
    | some nid, some fed, some sb, some coins => s!"ok {paramsStr (Genesis.NetworkParams.customNetwork nid fed sb coins)}"
    | _, _, _, _ => "bad-op"
  | _, _ => "bad-op"

/-- `btcmerkle <n> <32n bytes>`: `bitcoin::merkle_tree::calculate_root` of `n` hashes (`none` = Rust `None`) -/
def btcmerkleOp : Handler
  | _, [n, h] =>
    match n.toNat?, Hex.decode h with
    | some n, some bs =>
      if bs.length ≠ 32 * n then "bad-op"
      else match Genesis.btcMerkleRoot Sha256.sha256d (chunk32 n bs) with
        | some r => okHex r
        | none => "none"
    | _, _ => "bad-op"
  | _, _ => "bad-op"

/-- `shak <hex>`: the kernel-evaluable SHA-256 (EV.Model.Sha256K): digest, double digest, and for 64-byte
    inputs the midstate of the one block (`-` otherwise) -/
def shakOp : Handler
  | _, [h] => withHex h fun bs =>
    let m := if bs.length = 64 then Hex.enc (Sha256K.midstate (bs.take 32) (bs.drop 32)) else "-"
    s!"ok {Hex.enc (Sha256K.sha256 bs)} {Hex.enc (Sha256K.sha256d bs)} {m}"
  | _, _ => "bad-op"

def ops : List (String × Handler) := [("txid", txidOp), ("blockhash", blockhashOp), ("sha", shaOp),
  ("genesis", genesisOp), ("gcommit", gcommitOp), ("gbuiltin", gbuiltinOp), ("gcustom", gcustomOp),
  ("btcmerkle", btcmerkleOp), ("shak", shakOp)]
end EV.Driver.C02
