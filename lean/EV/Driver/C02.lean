import EV.Driver.Util
namespace EV.Driver.C02
open EV EV.Driver EV.Codec

def txidOp : Handler
  | cfg, [h] => withHex h fun bs =>
    match Tx.deserialize cfg.prims bs with
    | .ok t => s!"ok {Hex.enc (t.txid hashes)} {Hex.enc (t.wtxid hashes)}"
    | .err _ => "err"
    | .panic _ => "panic"
  | _, _ => "bad-op"

def blockhashOp : Handler
  | _, [h] => withHex h fun bs =>
    match BlockHeader.dec bs with
    | .ok (hd, []) => s!"ok {Hex.enc (hd.blockHash hashes)} {Hex.enc hd.clearWitness.enc}"
    | .ok _ => "err"
    | .err _ => "err"
    | .panic _ => "panic"
  | _, _ => "bad-op"

/-- self-test of the executable hash used by the driver -/
def shaOp : Handler
  | _, [h] => withHex h fun bs => s!"ok {Hex.enc (Sha256.sha256 bs)} {Hex.enc (Sha256.sha256d bs)}"
  | _, _ => "bad-op"

def ops : List (String × Handler) := [("txid", txidOp), ("blockhash", blockhashOp), ("sha", shaOp)]
end EV.Driver.C02
