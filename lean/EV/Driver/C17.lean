import EV.Driver.Util
import EV.Model.Address
namespace EV.Driver.C17
open EV EV.Driver EV.Bech32

def toText (b : Bytes) : Text := b.map (·.toNat)
def ofText (t : List Nat) : Bytes := t.map UInt8.ofNat
def textStr (t : Text) : String := String.ofList (t.map Char.ofNat)

def variantOf : String → Option (Variant × Flavor)
  | "bech32" => some (bech32, crateFlavor)
  | "bech32m" => some (bech32m, crateFlavor)
  | "blech32" => some (blech32, blechFlavor)
  | "blech32m" => some (blech32m, blechFlavor)
  | _ => none

/-- `polymod <variant> <hrp hex> <symbols, one byte each, hex>` → residue after hrp and symbols -/
def polymodOp : Handler
  | _, [v, h, d] =>
    match variantOf v, Hex.decode h, Hex.decode d with
    | some (var, _), some hrp, some syms =>
      s!"ok {var.code.polymod (hrpExpand (toText hrp) ++ toText syms)}"
    | _, _, _ => "bad-op"
  | _, _ => "bad-op"

/-- `chk <variant> <string hex>` → `CheckedHrpstring::new::<Ck>` accepts -/
def chkOp : Handler
  | _, [v, s] =>
    match variantOf v, Hex.decode s with
    | some (var, f), some sb =>
      let s := toText sb
      match uncheckedNew s with
      | none => "err"
      | some (hrp, data) => if validateChecksum f var s.length hrp data then "ok" else "err"
    | _, _ => "bad-op"
  | _, _ => "bad-op"

def segStr (r : Res Seg) : String :=
  match r with
  | .ok seg => s!"ok {Hex.enc (ofText seg.hrp)} {seg.version} {Hex.enc (ofText seg.bytes)}"
  | .err _ => "err"
  | .panic _ => "panic"

/-- `segwit <0 crate | 1 blech32 | 2 blech32 new_bech32> <string hex>` → hrp, version, payload bytes -/
def segwitOp : Handler
  | _, [m, s] =>
    match Hex.decode s with
    | some sb =>
      let s := toText sb
      match m with
      | "0" => segStr (segwitNew crateFlavor s)
      | "1" => segStr (segwitNew blechFlavor s)
      | "2" => segStr (segwitNewV0 blechFlavor s)
      | _ => "bad-op"
    | none => "bad-op"
  | _, _ => "bad-op"

def ops : List (String × Handler) := [("polymod", polymodOp), ("chk", chkOp), ("segwit", segwitOp)]
end EV.Driver.C17
