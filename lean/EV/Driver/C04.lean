/-
  Driver ops for C04 (blinding) and C05 (amount verification): the model functions of
  `EV.Model.Blind` run on scalars mod the group order (`ZN`) with points collapsed to `Unit`;
  the answers of the EC primitives are replayed from the op line.

  Wire format: lists are comma separated (`-` = empty), fields colon separated,
  scalars 32-byte big-endian hex, scripts hex (`-` = empty), amounts decimal.
-/
import EV.Driver.Util
import EV.Model.Blind
namespace EV.Driver.C04
open EV EV.Driver EV.Blind
open Fin.NatCast

abbrev Sec := Secrets String ZN

def zn (x : Nat) : ZN := Fin.ofNat groupOrder x

def parseScalar (s : String) : Option ZN :=
  match Hex.decode s with
  | some b => if b.length = 32 ∧ beNat b < groupOrder then some (zn (beNat b)) else none
  | none => none

def showScalar (x : ZN) : String := Hex.enc (beBytes 32 x.val)

def splitList (s : String) : List String := if s == "-" then [] else s.splitOn ","

def mapOpt {α β} (f : α → Option β) : List α → Option (List β)
  | [] => some []
  | a :: r => match f a, mapOpt f r with
    | some b, some br => some (b :: br)
    | _, _ => none

/-- `value:abf:vbf` or `asset:value:abf:vbf` -/
def parseSecret (s : String) : Option Sec :=
  match s.splitOn ":" with
  | [v, a, b] => match v.toNat?, parseScalar a, parseScalar b with
    | some v, some a, some b => some ⟨"", v, a, b⟩
    | _, _, _ => none
  | [id, v, a, b] => match v.toNat?, parseScalar a, parseScalar b with
    | some v, some a, some b => some ⟨id, v, a, b⟩
    | _, _, _ => none
  | _ => none

def parseSecrets (s : String) : Option (List Sec) := mapOpt parseSecret (splitList s)

/-- `blind.last <value> <abf> <ins> <outs>` -/
def lastOp : Handler
  | _, [v, abf, ins, outs] =>
    match v.toNat?, parseScalar abf, parseSecrets ins, parseSecrets outs with
    | some v, some abf, some ins, some outs => "ok " ++ showScalar (lastVbf v abf ins outs)
    | _, _, _, _ => "bad-op"
  | _, _ => "bad-op"

/-- `blind.balance <ins> <outs>` -/
def balanceOp : Handler
  | _, [ins, outs] =>
    match parseSecrets ins, parseSecrets outs with
    | some ins, some outs => "ok " ++ showScalar (balance ins outs)
    | _, _ => "bad-op"
  | _, _ => "bad-op"

def vbfAddOp : Handler
  | _, [a, b] => match parseScalar a, parseScalar b with
    | some a, some b => "ok " ++ showScalar (vbfAdd a b)
    | _, _ => "bad-op"
  | _, _ => "bad-op"

def vbfNegOp : Handler
  | _, [a] => match parseScalar a with
    | some a => "ok " ++ showScalar (vbfNeg a)
    | none => "bad-op"
  | _, _ => "bad-op"

def tf (b : Bool) : String := if b then "t" else "f"

/-- `blind.script <hex>` → unspendable, addressable, op_return -/
def scriptOp : Handler
  | _, [h] => withHex h fun s => s!"ok {tf (isProvablyUnspendable s)} {tf (addressable s)} {tf (isOpReturn s)}"
  | _, _ => "bad-op"

/-! ### outputs with points collapsed -/

abbrev Out := Blind.TxOut String Unit Bool Bool

def parseAsset (s : String) : Option (CAsset String Unit) :=
  if s == "n" then some .null
  else if s == "c" then some (.conf ())
  else if s.startsWith "e" then some (.explicit (s.drop 1).toString)
  else none

def parseValue (s : String) : Option (CValue Unit) :=
  if s == "n" then some .null
  else if s == "c" then some (.conf ())
  else if s.startsWith "e" then (s.drop 1).toString.toNat?.map .explicit
  else none

def parseNonce (s : String) : Option (CNonce Unit) :=
  if s == "n" then some .null
  else if s == "c" then some (.conf ())
  else if s == "e" then some .explicit
  else none

/-- `m` missing, `t`/`f` present with the primitive's answer -/
def parseProof (s : String) : Option (Option Bool) :=
  if s == "m" then some none
  else if s == "t" then some (some true)
  else if s == "f" then some (some false)
  else none

/-- `asset:value:nonce:script[:rp:sp]` -/
def parseOut (s : String) : Option Out :=
  match s.splitOn ":" with
  | [a, v, n, sc] =>
    match parseAsset a, parseValue v, parseNonce n, Hex.decode sc with
    | some a, some v, some n, some sc => some ⟨a, v, n, sc, none, none⟩
    | _, _, _, _ => none
  | [a, v, n, sc, rp, sp] =>
    match parseAsset a, parseValue v, parseNonce n, Hex.decode sc, parseProof rp, parseProof sp with
    | some a, some v, some n, some sc, some rp, some sp => some ⟨a, v, n, sc, rp, sp⟩
    | _, _, _, _, _, _ => none
  | _ => none

def parseOuts (s : String) : Option (List Out) := mapOpt parseOut (splitList s)

/-- `abf:vbf` per marked output -/
def parseRands (s : String) : Option (List (Rand ZN)) :=
  mapOpt (fun x => match x.splitOn ":" with
    | [a, b] => match parseScalar a, parseScalar b with
      | some a, some b => some ⟨a, b, 0⟩
      | _, _ => none
    | _ => none) (splitList s)

/-- the blinder's primitives with points collapsed: proofs can be made exactly when the real
    library can make them (value in [min, 2^63) for the range proof; the asset occurs among the
    inputs for the surjection proof) -/
def bprims : BPrims String ZN Unit Unit Bool Bool where
  genBlinded := fun _ _ => ()
  commit := fun _ _ _ => ()
  pubOf := fun _ => ()
  ecdh := fun _ _ => ()
  rangeProve := fun _ v _ _ _ _ _ => if Gen.c04RangeproofMinValue ≤ v ∧ v < 2 ^ 63 then some true else none
  surjProve := fun a _ ins => if ins.any (fun x => x.2.1 == a) then some true else none
  rewind := fun _ _ _ _ _ => none

/-- `blind.select <spent> <outputs> <rands>` → the returned map `i:abf:vbf,…`, or the error -/
def selectOp : Handler
  | _, [spent, outs, rands] =>
    match parseSecrets spent, parseOuts outs, parseRands rands with
    | some spent, some outs, some rands =>
      match blind bprims outs spent (fun i => rands.getD i ⟨0, 0, 0⟩) with
      | .ok r =>
        let items := (blindsOf 0 r).map (fun (i, abf, vbf, _) => s!"{i}:{showScalar abf}:{showScalar vbf}")
        let kinds := r.map (fun e => match e.out.value with | .conf _ => "c" | .explicit _ => "e" | .null => "n")
        "ok " ++ (if items.isEmpty then "-" else ",".intercalate items) ++ " " ++ String.join kinds
      | .err e => "err " ++ e
      | .panic _ => "panic"
    | _, _, _ => "bad-op"
  | _, _ => "bad-op"

def ops : List (String × Handler) :=
  [("blind.last", lastOp), ("blind.balance", balanceOp), ("vbf.add", vbfAddOp), ("vbf.neg", vbfNegOp),
   ("blind.script", scriptOp), ("blind.select", selectOp)]
end EV.Driver.C04
