import EV.Driver.Util
import EV.Model.FastMerkle
namespace EV.Driver.C18
open EV EV.Driver

def fmr : Handler
  | _, [n, h] =>
    match n.toNat?, Hex.decode h with
    | some n, some bs =>
      if bs.length ≠ 32 * n then "bad-op" else
      match FastMerkle.fast midComb zero32 (chunk32 n bs) with
      | some r => okHex r
      | none => "panic"
    | _, _ => "bad-op"
  | _, _ => "bad-op"

def ops : List (String × Handler) := [("fmr", fmr)]
end EV.Driver.C18
