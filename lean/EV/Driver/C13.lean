import EV.Driver.SighashUtil
namespace EV.Driver.C13
open EV EV.Driver EV.Codec EV.Sighash EV.Driver.SighashUtil

/-- run the items on ONE cache; an annex rejected by `Annex::new` never reaches the cache -/
def runItems : State → List Item → List String
  | _, [] => []
  | s, .annexErr :: rest => "err" :: runItems s rest
  | s, .op o :: rest => let (s', out) := step sigHashes s o; outStr out :: runItems s' rest

/-- `cacheseq <txhex> <prevouts> <genesis> <q1;q2;…>` → `ok r1|r2|…` -/
def cacheseqOp : Handler
  | cfg, [txh, pvs, gen, qs] =>
    let P := lax cfg.prims
    match Hex.decode txh, Hex.decode gen with
    | some tb, some g =>
      match Tx.deserialize P tb, parsePrevouts P pvs with
      | .ok tx, some ps =>
        match (qs.splitOn ";").mapM (parseQuery P ps g) with
        | some items => "ok " ++ "|".intercalate (runItems ⟨tx, Cache.empty⟩ items)
        | none => "bad-op"
      | _, _ => "bad-op"
    | _, _ => "bad-op"
  | _, _ => "bad-op"

def ops : List (String × Handler) := [("cacheseq", cacheseqOp)]
end EV.Driver.C13
