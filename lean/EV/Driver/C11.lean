import EV.Driver.Util
import EV.Model.Issuance
import EV.Model.Json
import EV.Model.JsonText
import EV.Driver.C11Pegged
namespace EV.Driver.C11
open EV EV.Driver EV.Codec

/-- `contracthash <hex of the UTF-8 JSON text>` -/
def contracthashOp : Handler
  | _, [h] => withHex h fun bs =>
    match JsonText.parseContract bs with
    | .error .syntax => "err"
    | .error .unsupported => "unsupported-number"
    | .ok v =>
      match Json.contractHash Sha256.sha256 v with
      | some d => okHex d
      | none => "err"
  | _, _ => "bad-op"

/-! ### ids -/

def idsStr : Option (Bytes × Bytes) → String
  | some (a, t) => s!"{Hex.enc a} {Hex.enc t}"
  | none => "panic"

def b01 (b : Bool) : String := if b then "1" else "0"

/-- ids of the TxIn, of `Input::from_txin`, of the extracted input; then the extracted
    index / pegin flag / has_issuance and the PSET's index word / is_pegin / has_issuance -/
def report (t : TxIn) : String :=
  let p := IssPsetInput.fromTxin t
  let x := p.extractIn
  match t.issuanceIds hashes, p.issuanceIds hashes, x.issuanceIds hashes with
  | some a, some b, some c =>
    s!"ok {idsStr (some a)} {idsStr (some b)} {idsStr (some c)} {x.previousOutput.vout} {b01 x.isPegin} {b01 x.hasIssuance} {p.previousOutputIndex} {b01 p.isPegin} {b01 p.hasIssuance}"
  | _, _, _ => "panic"

/-- `issuanceids <txin hex>`: consensus-decode the input first -/
def issuanceidsOp : Handler
  | cfg, [h] => withHex h fun bs =>
    match TxIn.dec cfg.prims bs with
    | .ok (t, []) => report t
    | .ok _ => "err"
    | .err _ => "err"
    | .panic _ => "panic"
  | _, _ => "bad-op"

def decValue (P : Prims) (bs : Bytes) : Option Value :=
  match Value.dec P bs with
  | .ok (v, []) => some v
  | _ => none

/-- `issuanceidsmem <txid> <vout> <pegin 0|1> <nonce> <entropy> <amount enc> <inflation keys enc>`:
    an in-memory TxIn (also values no consensus encoding yields) -/
def issuanceidsmemOp : Handler
  | cfg, [txid, vout, pegin, nonce, entropy, amount, keys] =>
    match Hex.decode txid, vout.toNat?, Hex.decode nonce, Hex.decode entropy, Hex.decode amount, Hex.decode keys with
    | some txid, some vout, some nonce, some entropy, some amount, some keys =>
      match decValue cfg.prims amount, decValue cfg.prims keys with
      | some a, some k =>
        report ⟨⟨txid, vout⟩, pegin == "1", [], 0xffffffff, ⟨nonce, entropy, a, k⟩, TxInWitness.empty⟩
      | _, _ => "bad-op"
    | _, _, _, _, _, _ => "bad-op"
  | _, _ => "bad-op"

def optHexArg (s : String) : Option (Option Bytes) :=
  if s == "none" then some none else (Hex.decode s).map some
def optNatArg (s : String) : Option (Option Nat) :=
  if s == "none" then some none else s.toNat?.map some

/-- `psetids <txid> <index> <nonce|none> <entropy|none> <amount|none> <commitment|none>`:
    `pset::Input::issuance_ids` / `is_pegin` / extraction index on a directly built PSET input -/
def psetidsOp : Handler
  | _, [txid, idx, nonce, entropy, amount, comm] =>
    match Hex.decode txid, idx.toNat?, optHexArg nonce, optHexArg entropy, optNatArg amount, optHexArg comm with
    | some txid, some idx, some nonce, some entropy, some amount, some comm =>
      let p : IssPsetInput := { previousTxid := txid, previousOutputIndex := idx, issuanceBlindingNonce := nonce,
                                issuanceAssetEntropy := entropy, issuanceValueAmount := amount, issuanceValueComm := comm }
      let x := p.extractIn
      match p.issuanceIds hashes, x.issuanceIds hashes with
      | some a, some b => s!"ok {idsStr (some a)} {idsStr (some b)} {x.previousOutput.vout} {b01 p.isPegin} {b01 p.hasIssuance}"
      | _, _ => "panic"
    | _, _, _, _, _, _ => "bad-op"
  | _, _ => "bad-op"

/-- `entropy <outpoint (36 bytes)> <contract hash>` -/
def entropyOp : Handler
  | _, [o, c] =>
    match Hex.decode o, Hex.decode c with
    | some o, some c =>
      match OutPoint.dec o with
      | .ok (op, []) =>
        match Issuance.generateAssetEntropy hashes op c, Issuance.newIssuance hashes op c,
              Issuance.newReissuanceToken hashes op c false, Issuance.newReissuanceToken hashes op c true with
        | some e, some a, some t0, some t1 => s!"ok {Hex.enc e} {Hex.enc a} {Hex.enc t0} {Hex.enc t1}"
        | _, _, _, _ => "panic"
      | _ => "err"
    | _, _ => "bad-op"
  | _, _ => "bad-op"

def assetidOp : Handler
  | _, [e] => withHex e fun e => optHex (Issuance.fromEntropy hashes e)
  | _, _ => "bad-op"

def tokenidOp : Handler
  | _, [e, c] => withHex e fun e => optHex (Issuance.reissuanceTokenFromEntropy hashes e (c == "1"))
  | _, _ => "bad-op"

def ops : List (String × Handler) :=
  [("issuanceids", issuanceidsOp), ("issuanceidsmem", issuanceidsmemOp), ("psetids", psetidsOp),
   ("entropy", entropyOp), ("assetid", assetidOp), ("tokenid", tokenidOp), ("contracthash", contracthashOp)]
  -- the pegged-asset id of a network, `AssetId` text forms (EV.Model.PeggedAsset)
  ++ C11Pegged.ops
end EV.Driver.C11
