import EV.Driver.C20
import EV.Model.SerdeDerive
import EV.Model.Base58
namespace EV.Driver.C20Derive
open EV EV.Driver EV.Text EV.Serde EV.Driver.C20

/-! full token syntax (what `Tok::show` prints): the lossy subset plus `uN:` `N` `S(..)` `T[..]` `TS<name>[..]`
    `R<name>{f=v,..}` `W<name>(v)` `V<ty>.<i>.<name>(v)` -/

def isNameChar (c : Char) : Bool := c.isAlphanum || c == '_'

def takeName (cs : List Char) : String × List Char :=
  let n := cs.takeWhile isNameChar
  (String.ofList n, cs.drop n.length)

def takeNat (cs : List Char) : Option (Nat × List Char) :=
  let d := cs.takeWhile Char.isDigit
  match (String.ofList d).toNat? with
  | some n => some (n, cs.drop d.length)
  | none => none

partial def parseF (cs : List Char) : Option (SVal × List Char) :=
  let list (close : Char) (cs : List Char) : Option (List SVal × List Char) :=
    match cs with
    | c :: r => if c == close then some ([], r) else
      let rec items (cs : List Char) (acc : List SVal) : Option (List SVal × List Char) :=
        match parseF cs with
        | some (v, ',' :: r') => items r' (v :: acc)
        | some (v, c' :: r') => if c' == close then some ((v :: acc).reverse, r') else none
        | _ => none
      items cs []
    | [] => none
  match cs with
  | 'z' :: r => some (.unit, r)
  | 't' :: r => some (.bool true, r)
  | 'f' :: r => some (.bool false, r)
  | 'N' :: r => some (.none, r)
  | 'n' :: ':' :: r => (takeNat r).map fun (n, r') => (.num 0 n, r')
  | 'u' :: r =>
    (match takeNat r with
     | some (w, ':' :: r') => (takeNat r').map fun (n, r'') => (.num w n, r'')
     | _ => none)
  | 's' :: ':' :: r =>
    (match takeHex r with
     | some (b, r') =>
       (match String.fromUTF8? (ByteArray.mk b.toArray) with
        | some s => some (.str s, r')
        | none => none)
     | none => none)
  | 'b' :: ':' :: r => (takeHex r).map fun (b, r') => (.bytes b, r')
  | 'S' :: '(' :: r =>
    (match parseF r with
     | some (v, ')' :: r') => some (.some v, r')
     | _ => none)
  | '[' :: r => (list ']' r).map fun (l, r') => (.seq l, r')
  | 'T' :: '[' :: r => (list ']' r).map fun (l, r') => (.tuple l, r')
  | 'T' :: 'S' :: r =>
    let (nm, r1) := takeName r
    (match r1 with
     | '[' :: r2 => (list ']' r2).map fun (l, r') => (.tupleStruct nm l, r')
     | _ => none)
  | 'M' :: '{' :: '}' :: r => some (.map [], r)
  | 'M' :: '{' :: r =>
    let rec entries (cs : List Char) (acc : List (SVal × SVal)) : Option (List (SVal × SVal) × List Char) :=
      match parseF cs with
      | some (k, '=' :: r1) =>
        (match parseF r1 with
         | some (v, ',' :: r2) => entries r2 ((k, v) :: acc)
         | some (v, '}' :: r2) => some (((k, v) :: acc).reverse, r2)
         | _ => none)
      | _ => none
    (entries r []).map fun (l, r') => (.map l, r')
  | 'R' :: r =>
    let (nm, r1) := takeName r
    (match r1 with
     | '{' :: '}' :: r2 => some (.struct nm [], r2)
     | '{' :: r2 =>
       let rec fields (cs : List Char) (acc : List (String × SVal)) : Option (List (String × SVal) × List Char) :=
         let (k, r3) := takeName cs
         match r3 with
         | '=' :: r4 =>
           (match parseF r4 with
            | some (v, ',' :: r5) => fields r5 ((k, v) :: acc)
            | some (v, '}' :: r5) => some (((k, v) :: acc).reverse, r5)
            | _ => none)
         | _ => none
       (fields r2 []).map fun (l, r') => (.struct nm l, r')
     | _ => none)
  | 'W' :: r =>
    let (nm, r1) := takeName r
    (match r1 with
     | '(' :: r2 =>
       (match parseF r2 with
        | some (v, ')' :: r3) => some (.newtype nm v, r3)
        | _ => none)
     | _ => none)
  | 'V' :: r =>
    let (ty, r1) := takeName r
    (match r1 with
     | '.' :: r2 =>
       (match takeNat r2 with
        | some (i, '.' :: r3) =>
          let (vn, r4) := takeName r3
          (match r4 with
           | '(' :: r5 =>
             (match parseF r5 with
              | some (v, ')' :: r6) => some (.variant ty i vn v, r6)
              | _ => none)
           | _ => none)
        | _ => none)
     | _ => none)
  | _ => none

def parseFull (s : String) : Option SVal :=
  match parseF s.toList with
  | some (v, []) => some v
  | _ => none

/-- canonical form of a result: every map's entries sorted by the printed key (a `BTreeMap` iterates in the
    order of its key type's `Ord`, which the model does not know) -/
partial def canonS : SVal → SVal
  | .some v => .some (canonS v)
  | .seq l => .seq (l.map canonS)
  | .tuple l => .tuple (l.map canonS)
  | .tupleStruct n l => .tupleStruct n (l.map canonS)
  | .map l =>
    let l' := l.map fun (k, v) => (canonS k, canonS v)
    .map (sortBy (fun a b => showS a.1 < showS b.1) l')
  | .struct n fs => .struct n (fs.map fun (k, v) => (k, canonS v))
  | .newtype n v => .newtype n (canonS v)
  | .variant t i n v => .variant t i n (canonS v)
  | v => v

/-! executable transcriptions of the third-party leaf impls (`Deps`) -/

def sha256dNat (l : List Nat) : List Nat := (Sha256.sha256d (l.map UInt8.ofNat)).map (·.toNat)

/-- `bitcoin::PublicKey`: hex / bytes of the 33-byte compressed or 65-byte uncompressed (prefix 04) key -/
def btcPubkeyOk (b : Bytes) : Bool :=
  if b.length == 33 then Secp.point33 2 3 b
  else if b.length == 65 then b.head? == some 4 && pubkey65 b
  else false
def btcPubkeyLeaf : Leaf :=
  { toS := fun h v => sHexOrBytes h (bytesOf v),
    ofS := fun h s =>
      match s with
      | .str st =>
        if h then
          match unhex st.toList with
          | .ok b => if btcPubkeyOk b then .ok (.bytes b) else .err "invalid public key"
          | .err e => .err e
          | .panic p => .panic p
        else .err "invalid type"
      | .bytes b =>
        if h then
          match unhex (bytesAsStr b) with
          | .ok b' => if btcPubkeyOk b' then .ok (.bytes b') else .err "invalid public key"
          | .err e => .err e
          | .panic p => .panic p
        else if btcPubkeyOk b then .ok (.bytes b) else .err "invalid public key"
      | _ => .err "invalid type" }

def xOnlyLeaf : Leaf :=
  { toS := fun h v => sXOnly h (bytesOf v), ofS := fun h s => resMap .bytes (ofXOnly validX h s) }
def signatureLeaf : Leaf :=
  { toS := fun h v => sSig64 h (bytesOf v), ofS := fun h s => resMap .bytes (ofSig64 h s) }

/-- `bip32::DerivationPath` (`serde_string_impl!`): children joined by `/`, `'` marks a hardened child -/
def childShow (n : Nat) : Str := if n ≥ 2^31 then showNat (n - 2^31) ++ ['\''] else showNat n
def pathShow : List Nat → Str
  | [] => []
  | [c] => childShow c
  | c :: r => childShow c ++ '/' :: pathShow r
def childParse (cs : Str) : Res Nat :=
  let hardened := cs.getLast? == some '\'' || cs.getLast? == some 'h'
  let body := if hardened then cs.dropLast else cs
  match parseU32 body with
  | .ok n => if n < 2^31 then .ok (if hardened then n + 2^31 else n) else .err "invalid child number"
  | .err e => .err e
  | .panic p => .panic p
def splitSlash (cs : Str) : List Str :=
  let rec go (cs : Str) (cur : Str) (acc : List Str) : List Str :=
    match cs with
    | [] => (cur.reverse :: acc).reverse
    | c :: r => if c == '/' then go r [] (cur.reverse :: acc) else go r (c :: cur) acc
  go cs [] []
def pathParse (cs : Str) : Res (List Nat) :=
  if cs == [] || cs == ['m'] || cs == ['m', '/'] then .ok [] else
  let body := match cs with | 'm' :: '/' :: r => r | _ => cs
  let rec all (ps : List Str) : Res (List Nat) :=
    match ps with
    | [] => .ok []
    | p :: r =>
      match childParse p with
      | .ok n => (match all r with | .ok ns => .ok (n :: ns) | .err e => .err e | .panic q => .panic q)
      | .err e => .err e
      | .panic q => .panic q
  all (splitSlash body)
def natsOf : DVal → List Nat
  | .list l => l.map fun | .nat n => n | _ => 0
  | _ => []
def derivationPathLeaf : Leaf :=
  { toS := fun _ v => .str (String.ofList (pathShow (natsOf v))),
    ofS := fun _ s =>
      match s with
      | .str st => resMap (fun l => .list (l.map .nat)) (pathParse st.toList)
      | _ => .err "invalid type" }

/-- `bip32::Xpub` (`serde_string_impl!`): base58check of the 78-byte encoding; version bytes of main / test
    network, a valid compressed public key at offset 45 -/
def xpubOk (b : Bytes) : Bool :=
  b.length == 78 && (b.take 4 == [0x04, 0x88, 0xB2, 0x1E] || b.take 4 == [0x04, 0x35, 0x87, 0xCF]) &&
  Secp.point33 2 3 (b.drop 45)
def xpubLeaf : Leaf :=
  { toS := fun _ v => .str (String.ofList ((Base58.encodeCheck sha256dNat ((bytesOf v).map (·.toNat))).map Char.ofNat)),
    ofS := fun _ s =>
      match s with
      | .str st =>
        (match Base58.decodeCheck sha256dNat (st.toList.map (·.toNat)) with
         | some d =>
           let b := d.map UInt8.ofNat
           if xpubOk b then .ok (.bytes b) else .err "invalid xpub"
         | none => .err "invalid base58check")
      | _ => .err "invalid type" }

/-- `bitcoin::Transaction` is not transcribed: a pure parameter (values with `pegin_tx = None` only) -/
def btcTxLeaf : Leaf := { toS := fun _ _ => .unit, ofS := fun _ _ => .err "bitcoin::Transaction is not modelled" }

def deps : Deps :=
  { publicKey := btcPubkeyLeaf, xOnly := xOnlyLeaf, signature := signatureLeaf, fingerprint := hashLeaf ⟨4, false⟩,
    derivationPath := derivationPathLeaf, xpub := xpubLeaf, btcTransaction := btcTxLeaf }

/-! ops -/

/-- `derive.tokens <type> <human> <tree>`: the real token tree is read back into a value (through its CBOR view)
    and serialized again by the model: must reproduce the tree token for token -/
def tokensOp : Handler
  | cfg, [ty, hs, tree] =>
    match humanOf hs, parseFull tree with
    | some h, some s =>
      (match deriveOfS (prims cfg) deps ty h (lossy .cbor s) with
       | .ok v => "ok " ++ showS (deriveToS (prims cfg) deps ty h v)
       | .err e => "err " ++ e
       | .panic p => "panic " ++ p)
    | _, _ => "bad-op"
  | _, _ => "bad-op"

/-- `derive.cross <type> <human> <tree>`: … and serialized in the OTHER mode: must be the real impl's tree there -/
def crossOp : Handler
  | cfg, [ty, hs, tree] =>
    match humanOf hs, parseFull tree with
    | some h, some s =>
      (match deriveOfS (prims cfg) deps ty h (lossy .cbor s) with
       | .ok v => "ok " ++ showS (deriveToS (prims cfg) deps ty (!h) v)
       | .err e => "err " ++ e
       | .panic p => "panic " ++ p)
    | _, _ => "bad-op"
  | _, _ => "bad-op"

/-- `derive.lossy <json|cbor> <human> <tree>`: the format's view of a full token tree -/
def lossyOp : Handler
  | _, [fs, tree] =>
    let f? : Option Fmt := if fs == "json" then some .json else if fs == "cbor" then some .cbor else none
    match f?, parseFull tree with
    | some f, some s => "ok " ++ showS (lossy f s)
    | _, _ => "bad-op"
  | _, _ => "bad-op"

/-- `derive.of <type> <human> <tree>`: the value the derived `Deserialize` builds, in canonical form (its
    non-human-readable token tree with map entries sorted by printed key) -/
def ofOp : Handler
  | cfg, [ty, hs, tree] =>
    match humanOf hs, parseFull tree with
    | some h, some s =>
      (match deriveOfS (prims cfg) deps ty h s with
       | .ok v => "ok " ++ showS (canonS (deriveToS (prims cfg) deps ty false v))
       | .err _ => "err"
       | .panic _ => "panic")
    | _, _ => "bad-op"
  | _, _ => "bad-op"

def ops : List (String × Handler) :=
  [("derive.tokens", tokensOp), ("derive.cross", crossOp), ("derive.lossy", lossyOp), ("derive.of", ofOp)]
end EV.Driver.C20Derive
