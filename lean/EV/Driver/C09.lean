import EV.Driver.Util
import EV.Model.PsetBlindZn
/-!
  C09 driver ops.  The model is instantiated with `R := Fin n`, `n` = secp256k1 group order.

  psetblind.step <n|l> <inputs> <outputs> <scalars> <supplied> <rands>
      → `ok sel=<idx,..> s=<pushed scalar | final vbf> scalars=<..> flags=<..> bidx=<..>` | `err <Tag>` | `panic`
  psetblind.flow <inputs> <outputs> <allins> <step> <step> …      (step = n/<supplied>/<rands> | l/… | h)
      → `ok <scalars after step 1>;<…>;… verify=<b> empty=<b> full=<b>` | `err@<k> <Tag>` | `panic@<k>`
  psetblind.hop <scalars> → `ok <scalars>` | `err`
  psetblind.last <value> <abf> <ins> <outs> → `ok <vbf>`      (ValueBlindingFactor::last alone)

  lists are comma separated, `-` = empty; scalars 32-byte big-endian hex.
  inputs:   <hasUtxo><hasIssuance><blindedIssuance: n|digit>[+<asset id of an issuance pseudo-input>]*
  outputs:  amount:asset:key:bidx:addr:<7 flags amountComm assetComm ecdh rangeproof surjproof valueProof assetProof>[:<script provably unspendable 0|1>]
  supplied: idx:asset:value:abf:vbf      rands: idx:abf:vbf      allins: asset:value:abf:vbf
-/
namespace EV.Driver.C09
open EV EV.Driver EV.PsetBlind

def list (s : String) : List String := if s == "-" then [] else s.splitOn ","

def scalar? (s : String) : Option Zn :=
  match Hex.decode s with
  | some b => if b.length == 32 && beNat b < Secp.n then some (Fin.ofNat Secp.n (beNat b)) else none
  | none => none

def scalarHex (x : Zn) : String := Hex.encode (beBytes 32 x.val)

def scalarsStr (l : List Zn) : String := if l.isEmpty then "-" else ",".intercalate (l.map scalarHex)

def optNat? (s : String) : Option (Option Nat) :=
  if s == "n" then some none else s.toNat?.map some

def bool? (s : String) : Option Bool :=
  if s == "1" then some true else if s == "0" then some false else none

def mapM? {α β} (f : α → Option β) : List α → Option (List β)
  | [] => some []
  | a :: r => match f a, mapM? f r with
    | some b, some l => some (b :: l)
    | _, _ => none

def inp? (s : String) : Option Inp :=
  match s.splitOn "+" with
  | [] => none
  | hd :: issued =>
    match hd.toList, mapM? (fun (x : String) => x.toNat?) issued with
    | [u, i, b], some issued =>
      match bool? (String.singleton u), bool? (String.singleton i), optNat? (String.singleton b) with
      | some u, some i, some b => some ⟨u, i, b, issued⟩
      | _, _, _ => none
    | _, _ => none

def out? (s : String) : Option (Out Zn) :=
  -- an optional 7th field (script provably unspendable, used by the flow verdict only) is dropped
  match (s.splitOn ":").take 6 with
  | [am, asst, key, bidx, addr, flags] =>
    match optNat? am, optNat? asst, bool? key, optNat? bidx, bool? addr, mapM? (fun c => bool? (String.singleton c)) flags.toList with
    | some am, some asst, some key, some bidx, some addr, some [f1, f2, f3, f4, f5, f6, f7] =>
      some { amount := am, asset := asst, hasKey := key, blinderIndex := bidx, addressable := addr,
             amountComm := f1, assetComm := f2, ecdh := f3, rangeproof := f4, surjproof := f5,
             valueProof := f6, assetProof := f7 }
    | _, _, _, _, _, _ => none
  | _ => none

/-- 7th field of an output token: `Script::is_provably_unspendable` (OP_RETURN, > 10000 bytes, or
    empty); absent = 0 -/
def unsp (s : String) : Bool :=
  match s.splitOn ":" with
  | [_, _, _, _, _, _, u] => u == "1"
  | _ => false

/-- `verify_tx_amt_proofs` on explicit zero amounts: an output that is explicit in the extracted
    transaction (no amount commitment) with value 0 is skipped when its script is provably
    unspendable (`ZeroValueCommitment`) and rejects the transaction otherwise
    (`NonUnspendableZeroValue`) -/
def zeroOutsOk (outs : List (Out Zn)) (unsps : List Bool) : Bool :=
  (outs.zip unsps).all fun (o, u) => o.amountComm || o.amount != some 0 || u

def sup? (s : String) : Option (Nat × Secret Zn) :=
  match s.splitOn ":" with
  | [idx, asst, v, abf, vbf] =>
    match idx.toNat?, asst.toNat?, v.toNat?, scalar? abf, scalar? vbf with
    | some idx, some asst, some v, some abf, some vbf => some (idx, ⟨asst, v, abf, vbf⟩)
    | _, _, _, _, _ => none
  | _ => none

def secret? (s : String) : Option (Secret Zn) :=
  match s.splitOn ":" with
  | [asst, v, abf, vbf] =>
    match asst.toNat?, v.toNat?, scalar? abf, scalar? vbf with
    | some asst, some v, some abf, some vbf => some ⟨asst, v, abf, vbf⟩
    | _, _, _, _ => none
  | _ => none

def rand? (s : String) : Option (Nat × Zn × Zn) :=
  match s.splitOn ":" with
  | [idx, abf, vbf] =>
    match idx.toNat?, scalar? abf, scalar? vbf with
    | some idx, some abf, some vbf => some (idx, abf, vbf)
    | _, _, _ => none
  | _ => none

/-- the random factors as reported; when the real call failed they are unknown to the harness and
    taken to be non-zero (a random factor is 0 with probability 2^-256) -/
def randFn (l : List (Nat × Zn × Zn)) (i : Nat) : Zn × Zn :=
  match l.lookup i with
  | some p => p
  | none => (1, 1)

def b01 (b : Bool) : String := if b then "1" else "0"

def flagsStr (o : Out Zn) : String :=
  b01 o.amountComm ++ b01 o.assetComm ++ b01 o.ecdh ++ b01 o.rangeproof ++ b01 o.surjproof ++
  b01 o.valueProof ++ b01 o.assetProof

def natsStr (l : List Nat) : String := if l.isEmpty then "-" else ",".intercalate (l.map toString)

def stepOp : Handler
  | _, [kind, ins, outs, scs, sup, rands] =>
    match mapM? inp? (list ins), mapM? out? (list outs), mapM? scalar? (list scs), mapM? sup? (list sup),
          mapM? rand? (list rands) with
    | some ins, some outs, some scs, some sup, some rands =>
      let st : St Zn := ⟨ins, outs, scs⟩
      let r := if kind == "n" then nonLast st sup (randFn rands) else blindLast st sup (randFn rands)
      match r with
      | .err e => "err " ++ e
      | .panic _ => "panic"
      | .ok (st', ret) =>
        let s : String :=
          if kind == "n" then
            (if ret.isEmpty then "-" else match st'.scalars.getLast? with | some x => scalarHex x | none => "-")
          else match ret.getLast? with | some (_, _, v) => scalarHex v | none => "-"
        let bidx := ",".intercalate (st'.outputs.map fun o => match o.blinderIndex with | some b => toString b | none => "n")
        s!"ok sel={natsStr (ret.map (·.1))} s={s} scalars={scalarsStr st'.scalars} flags={",".intercalate (st'.outputs.map flagsStr)} bidx={bidx}"
    | _, _, _, _, _ => "bad-op"
  | _, _ => "bad-op"

def step? (s : String) : Option (Step Zn) :=
  match s.splitOn "/" with
  | ["h"] => some .hop
  | [k, sup, rands] =>
    match mapM? sup? (list sup), mapM? rand? (list rands) with
    | some sup, some rands =>
      if k == "n" then some (.nonLast sup (randFn rands))
      else if k == "l" then some (.last sup (randFn rands)) else none
    | _, _ => none
  | _ => none

/-- per-asset amount balance: Σ_in value = Σ_out amount for every asset id that occurs -/
def amountsBalance (ins : List (Secret Zn)) (outs : List (Out Zn)) : Bool :=
  let assets := (ins.map (·.asset) ++ outs.map (fun o => o.asset.getD 0)).eraseDups
  assets.all fun a =>
    ((ins.filter (·.asset == a)).map (·.value)).sum ==
    ((outs.filter (fun o => o.asset.getD 0 == a)).map (fun o => o.amount.getD 0)).sum

def runTrace (st : St Zn) : List (Step Zn) → Nat → List String → Except String (St Zn × List String)
  | [], _, acc => .ok (st, acc.reverse)
  | s :: rest, k, acc =>
    match runStep st s with
    | .ok st' => runTrace st' rest (k + 1) (scalarsStr st'.scalars :: acc)
    | .err e => .error s!"err@{k} {e}"
    | .panic _ => .error s!"panic@{k}"

def flowOp : Handler
  | _, ins :: outsTok :: allins :: steps =>
    match mapM? inp? (list ins), mapM? out? (list outsTok), mapM? secret? (list allins), mapM? step? steps with
    | some ins, some outs, some allins, some steps =>
      match runTrace ⟨ins, outs, []⟩ steps 1 [] with
      | .error e => e
      | .ok (st', trace) =>
        let termBal := sumTerms allins == outTermSum st'
        let verify := termBal && amountsBalance allins st'.outputs && zeroOutsOk st'.outputs ((list outsTok).map unsp)
        let full := st'.outputs.all fun o => !o.hasKey || o.isFullyBlinded
        s!"ok {";".intercalate trace} verify={b01 verify} empty={b01 st'.scalars.isEmpty} full={b01 full}"
    | _, _, _, _ => "bad-op"
  | _, _ => "bad-op"

def hopOp : Handler
  | _, [scs] =>
    match mapM? scalar? (list scs) with
    | some scs =>
      match decodeScalars ([] : List Zn) scs with
      | .ok l => "ok " ++ scalarsStr l
      | .err _ => "err"
      | .panic _ => "panic"
    | none => "bad-op"
  | _, _ => "bad-op"

def lastOp : Handler
  | _, [v, abf, ins, outs] =>
    match v.toNat?, scalar? abf, mapM? secret? (list ins), mapM? secret? (list outs) with
    | some v, some abf, some ins, some outs => "ok " ++ scalarHex (lastVbf v abf ins outs)
    | _, _, _, _ => "bad-op"
  | _, _ => "bad-op"

/-- `a += b` then `-a` as coded (zero special cases) -/
def addNegOp : Handler
  | _, [a, b] =>
    match scalar? a, scalar? b with
    | some a, some b => s!"ok {scalarHex (vbfAdd a b)} {scalarHex (vbfNeg a)}"
    | _, _ => "bad-op"
  | _, _ => "bad-op"

def ops : List (String × Handler) :=
  [("psetblind.step", stepOp), ("psetblind.flow", flowOp), ("psetblind.hop", hopOp),
   ("psetblind.last", lastOp), ("psetblind.addneg", addNegOp)]
end EV.Driver.C09
