#!/usr/bin/env python3
"""Regenerate the generated appendices of DESIGN.md (between the GENERATED markers):
   - theorem names per property (from lean/EV/Props/Cxx.lean),
   - findings table (from known_findings.jsonl),
   - seeded-change table (from seeded/*/meta.json and seeded/RESULTS.md)."""
import json, os, re
V = os.path.dirname(os.path.dirname(os.path.abspath(__file__)))

def theorems(pid):
    p = os.path.join(V, "lean", "EV", "Props", pid + ".lean")
    if not os.path.exists(p):
        return []
    s = open(p).read()
    s = re.sub(r"/-.*?-/", "", s, flags=re.S)
    s = re.sub(r"--.*", "", s)
    return re.findall(r"^\s*(?:protected\s+)?theorem\s+([^\s:({\[]+)", s, flags=re.M)

out = []
out.append("### T. Theorems per property (generated from `lean/EV/Props/*.lean`)\n")
checks = json.load(open(os.path.join(V, "checks.json")))["properties"]
total = 0
for pid in sorted(checks):
    th = theorems(pid)
    total += len(th)
    out.append("* **%s** (%d): %s" % (pid, len(th), ", ".join("`%s`" % t for t in th)))
out.append("\nTotal: %d theorems in the property files (helper lemmas in `EV/Proofs/*` not counted).\n" % total)

out.append("### F. Findings (generated from `known_findings.jsonl`)\n")
out.append("| property | class | status | commit | what failed |")
out.append("|---|---|---|---|---|")
for l in open(os.path.join(V, "known_findings.jsonl")):
    l = l.strip()
    if not l or l.startswith("#"):
        continue
    k = json.loads(l)
    out.append("| %s | %s | %s | %s | %s |" % (k["property"], k["class"], k["status"], k.get("commit", ""), k["what"].replace("|", "/")))
out.append("")

out.append("### S. Seeded breaking changes (generated from `seeded/*/meta.json`; verdicts from `seeded/RESULTS.md`)\n")
verdicts = {}
first = {}
rp = os.path.join(V, "seeded", "RESULTS.md")
if os.path.exists(rp):
    for l in open(rp):
        m = re.match(r"\|\s*(C\d+-(?:w\d+)?m\d+)\s*\|\s*(C\d+)\s*\|\s*(\w+)\s*\|\s*([A-Z-]+[^|]*)\|\s*([^|]*)\|", l)
        if m:
            kinds = m.group(5).strip().split(" ")[0] if m.group(4).strip().startswith("CAUGHT") else "no alarm"
            verdicts[(m.group(1), m.group(3))] = (m.group(4).strip(), kinds)
            first.setdefault((m.group(1), m.group(3)), (m.group(4).strip(), kinds))
out.append("| id | property | what the change does | needs to manifest | quick: first evaluation | quick: latest evaluation | thorough |")
out.append("|---|---|---|---|---|---|---|")
sd = os.path.join(V, "seeded")
for sid in sorted(os.listdir(sd)):
    mp = os.path.join(sd, sid, "meta.json")
    if not os.path.exists(mp):
        continue
    m = json.load(open(mp))
    def v(t):
        x = verdicts.get((sid, t))
        return "%s (%s)" % x if x else "—"
    def f(t):
        x = first.get((sid, t))
        return "%s (%s)" % x if x else "—"
    out.append("| %s | %s | %s | %s | %s | %s | %s |" % (sid, m["property"], str(m.get("what_breaks", "")).replace("|", "/")[:300], str(m.get("needs_to_manifest", "")).replace("|", "/")[:250], f("quick"), v("quick"), v("thorough")))
out.append("")

text = "\n".join(out)
dp = os.path.join(V, "DESIGN.md")
d = open(dp).read()
B, E = "<!-- GENERATED:BEGIN -->", "<!-- GENERATED:END -->"
if B in d and E in d:
    d = d[:d.index(B) + len(B)] + "\n" + text + "\n" + d[d.index(E):]
    open(dp, "w").write(d)
    print("DESIGN.md appendices regenerated (%d theorems)" % total)
else:
    print("markers not found in DESIGN.md")
