#!/usr/bin/env python3
"""Field table of the in-memory PSET model (src/pset/map/{global,input,output}.rs) and a generator for
the repetitive, field-by-field text derived from it:

  python3 tools/gen_pset_fields.py lean-struct   -> structures + merge + Compat/Sorted/Keeps (the middle part of
                                                    lean/EV/Model/Pset.lean)
  python3 tools/gen_pset_fields.py lean-proofs   -> per-field proofs merge_keeps / merge_sorted / merge_comm /
                                                    merge_assoc / merge_compat (in lean/EV/Proofs/PsetMerge.lean)
  python3 tools/gen_pset_fields.py lean-driver   -> set/dump of every field (lean/EV/Driver/PsetDesc.lean)
  python3 tools/gen_pset_fields.py rust          -> set/dump of every field (harness/src/props/psetdesc.rs)
  python3 tools/gen_pset_fields.py lean-wire     -> lean/EV/Model/PsetTables.lean (C07: the three wire tables in emission
                                                    order: tag, kind, key validity, value codec, key order; record <-> slots)
  python3 tools/gen_pset_fields.py lean-wire-proofs -> lean/EV/Proofs/PsetWireRec.lean (C07: Bounds + both directions of the
                                                    record <-> slots conversion, per record)

The outputs are checked in; this script is kept so that whoever extends the model (C07: wire format)
can regenerate the per-field text after editing the table.  Kinds:
  ob  Option<opaque>  -> Option Bytes          on<w> Option<uint of w bytes> -> Option Nat
  ol  Option<Vec<Vec<u8>>> -> Option (List Bytes)
  kv  BTreeMap<K,V>   -> KV (List (Bytes x Bytes), sorted by key)
  b   mandatory bytes, n<w> mandatory uint
merge kinds: m = merge! (first present wins), e = BTreeMap::extend (other wins), x = cmp::max on Option,
  - = not touched by merge
"""
import sys, re

INPUT = [
    ("non_witness_utxo", "ob", "m"), ("witness_utxo", "ob", "m"), ("partial_sigs", "kv", "e"),
    ("sighash_type", "on4", "m"), ("redeem_script", "ob", "m"), ("witness_script", "ob", "m"),
    ("bip32_derivation", "kv", "e"), ("final_script_sig", "ob", "m"), ("final_script_witness", "ol", "m"),
    ("ripemd160_preimages", "kv", "e"), ("sha256_preimages", "kv", "e"), ("hash160_preimages", "kv", "e"),
    ("hash256_preimages", "kv", "e"), ("previous_txid", "b", "-"), ("previous_output_index", "n4", "-"),
    ("sequence", "on4", "m"), ("required_time_locktime", "on4", "x"), ("required_height_locktime", "on4", "x"),
    ("tap_key_sig", "ob", "m"), ("tap_script_sigs", "kv", "e"), ("tap_scripts", "kv", "e"),
    ("tap_key_origins", "kv", "e"), ("tap_internal_key", "ob", "m"), ("tap_merkle_root", "ob", "m"),
    ("issuance_value_amount", "on8", "m"), ("issuance_value_comm", "ob", "m"),
    ("issuance_value_rangeproof", "ob", "m"), ("issuance_keys_rangeproof", "ob", "m"),
    ("pegin_tx", "ob", "m"), ("pegin_txout_proof", "ob", "m"), ("pegin_genesis_hash", "ob", "m"),
    ("pegin_claim_script", "ob", "m"), ("pegin_value", "on8", "m"), ("pegin_witness", "ol", "m"),
    ("issuance_inflation_keys", "on8", "m"), ("issuance_inflation_keys_comm", "ob", "m"),
    ("issuance_blinding_nonce", "ob", "m"), ("issuance_asset_entropy", "ob", "m"),
    ("in_utxo_rangeproof", "ob", "m"), ("in_issuance_blind_value_proof", "ob", "m"),
    ("in_issuance_blind_inflation_keys_proof", "ob", "m"), ("amount", "on8", "m"),
    ("blind_value_proof", "ob", "m"), ("asset", "ob", "m"), ("blind_asset_proof", "ob", "m"),
    ("blinded_issuance", "on1", "m"), ("proprietary", "kv", "e"), ("unknown", "kv", "e"),
]
OUTPUT = [
    ("redeem_script", "ob", "m"), ("witness_script", "ob", "m"), ("bip32_derivation", "kv", "e"),
    ("tap_internal_key", "ob", "m"), ("tap_tree", "ob", "m"), ("tap_key_origins", "kv", "e"),
    ("amount", "on8", "m"), ("amount_comm", "ob", "m"), ("script_pubkey", "b", "-"),
    ("asset", "ob", "m"), ("asset_comm", "ob", "m"), ("value_rangeproof", "ob", "m"),
    ("asset_surjection_proof", "ob", "m"), ("blinding_key", "ob", "m"), ("ecdh_pubkey", "ob", "m"),
    ("blinder_index", "on4", "m"), ("blind_value_proof", "ob", "m"), ("blind_asset_proof", "ob", "m"),
    ("proprietary", "kv", "e"), ("unknown", "kv", "e"),
]
# Rust types of the Option fields / map keys and values, for the harness
RUST_IN = {
    "non_witness_utxo": "Transaction", "witness_utxo": "TxOut", "sighash_type": "PsbtSighashType",
    "redeem_script": "Script", "witness_script": "Script", "final_script_sig": "Script",
    "final_script_witness": "Vec<Vec<u8>>", "sequence": "Sequence", "required_time_locktime": "locktime::Time",
    "required_height_locktime": "locktime::Height", "tap_key_sig": "SchnorrSig", "tap_internal_key": "XOnlyPublicKey",
    "tap_merkle_root": "TapNodeHash", "issuance_value_amount": "u64", "issuance_value_comm": "PedersenCommitment",
    "issuance_value_rangeproof": "Box<RangeProof>", "issuance_keys_rangeproof": "Box<RangeProof>",
    "pegin_tx": "bitcoin::Transaction", "pegin_txout_proof": "Vec<u8>", "pegin_genesis_hash": "BlockHash",
    "pegin_claim_script": "Script", "pegin_value": "u64", "pegin_witness": "Vec<Vec<u8>>",
    "issuance_inflation_keys": "u64", "issuance_inflation_keys_comm": "PedersenCommitment",
    "issuance_blinding_nonce": "Tweak", "issuance_asset_entropy": "[u8; 32]", "in_utxo_rangeproof": "Box<RangeProof>",
    "in_issuance_blind_value_proof": "Box<RangeProof>", "in_issuance_blind_inflation_keys_proof": "Box<RangeProof>",
    "amount": "u64", "blind_value_proof": "Box<RangeProof>", "asset": "AssetId", "blind_asset_proof": "Box<SurjectionProof>",
    "blinded_issuance": "u8",
    "partial_sigs": ("PublicKey", "Vec<u8>"), "bip32_derivation": ("PublicKey", "KeySource"),
    "ripemd160_preimages": ("ripemd160::Hash", "Vec<u8>"), "sha256_preimages": ("sha256::Hash", "Vec<u8>"),
    "hash160_preimages": ("hash160::Hash", "Vec<u8>"), "hash256_preimages": ("sha256d::Hash", "Vec<u8>"),
    "tap_script_sigs": ("(XOnlyPublicKey, TapLeafHash)", "SchnorrSig"), "tap_scripts": ("ControlBlock", "(Script, LeafVersion)"),
    "tap_key_origins": ("XOnlyPublicKey", "(Vec<TapLeafHash>, KeySource)"),
}
RUST_OUT = {
    "redeem_script": "Script", "witness_script": "Script", "tap_internal_key": "XOnlyPublicKey", "tap_tree": "TapTree",
    "amount": "u64", "amount_comm": "PedersenCommitment", "asset": "AssetId", "asset_comm": "Generator",
    "value_rangeproof": "Box<RangeProof>", "asset_surjection_proof": "Box<SurjectionProof>", "blinding_key": "PublicKey",
    "ecdh_pubkey": "PublicKey", "blinder_index": "u32", "blind_value_proof": "Box<RangeProof>",
    "blind_asset_proof": "Box<SurjectionProof>",
    "bip32_derivation": ("PublicKey", "KeySource"), "tap_key_origins": ("XOnlyPublicKey", "(Vec<TapLeafHash>, KeySource)"),
}

def camel(s):
    p = s.split("_")
    return p[0] + "".join(w.capitalize() for w in p[1:])

def lty(kind):
    if kind == "ob": return "Option Bytes"
    if kind.startswith("on"): return "Option Nat"
    if kind == "ol": return "Option (List Bytes)"
    if kind == "kv": return "KV"
    if kind == "b": return "Bytes"
    if kind.startswith("n"): return "Nat"
    raise ValueError(kind)

def ldefault(name, kind):
    if kind in ("ob", "ol") or kind.startswith("on"): return "none"
    if kind == "kv": return "[]"
    if name == "previous_txid": return "List.replicate 32 0"
    if kind == "b": return "[]"
    return "0"

def struct(sname, table):
    out = ["@[ext] structure %s where" % sname]
    for (n, k, m) in table:
        out.append("  %s : %s := %s" % (camel(n), lty(k), ldefault(n, k)))
    out.append("  deriving Repr, DecidableEq")
    return "\n".join(out)

def merge(sname, table):
    out = ["/-- `%s::merge` (never fails) -/" % sname.replace("Pset", ""), "def merge (x y : %s) : %s :=" % (sname, sname), "  {"]
    parts = []
    for (n, k, m) in table:
        c = camel(n)
        if m == "m": parts.append("    %s := mergeOpt x.%s y.%s" % (c, c, c))
        elif m == "e": parts.append("    %s := KV.extend x.%s y.%s" % (c, c, c))
        elif m == "x": parts.append("    %s := maxOpt x.%s y.%s" % (c, c, c))
        else: parts.append("    %s := x.%s" % (c, c))
    out.append(",\n".join(parts) + " }")
    return "\n".join(out)

def sorted_pred(sname, table):
    kvs = [camel(n) for (n, k, m) in table if k == "kv"]
    return "/-- every map field is a strictly key-sorted association list (what a `BTreeMap` is) -/\ndef Sorted (x : %s) : Prop :=\n  %s" % (
        sname, " ∧ ".join("KV.Sorted x.%s" % c for c in kvs))

def compat(sname, table, idfields):
    out = ["/-- the two maps agree wherever both define a value; the identifying fields coincide -/",
           "structure Compat (x y : %s) : Prop where" % sname]
    for (n, k, m) in table:
        c = camel(n)
        if n in idfields or m == "-" or m == "x":
            out.append("  %s : x.%s = y.%s" % (c, c, c))
        elif m == "m":
            out.append("  %s : OptAgree x.%s y.%s" % (c, c, c))
        elif m == "e":
            out.append("  %s : KV.Agree x.%s y.%s" % (c, c, c))
    return "\n".join(out)

def keeps(sname, table):
    out = ["/-- nothing present in `x` or `y` is absent from `z` -/", "structure Keeps (x y z : %s) : Prop where" % sname]
    for (n, k, m) in table:
        c = camel(n)
        if m in ("m", "x"):
            out.append("  %s : (x.%s.isSome ∨ y.%s.isSome) → z.%s.isSome" % (c, c, c, c))
        elif m == "e":
            out.append("  %s : ∀ k, (k ∈ KV.keys x.%s ∨ k ∈ KV.keys y.%s) → k ∈ KV.keys z.%s" % (c, c, c, c))
        else:
            out.append("  %s : z.%s = x.%s" % (c, c, c))
    return "\n".join(out)

def proofs(sname, table, idfields):
    """merge_comm / merge_assoc / keeps / sorted proofs, field by field"""
    o = []
    # keeps
    o.append("theorem %s.merge_keeps (x y : %s) (hy : y.Sorted) : %s.Keeps x y (x.merge y) where" % (sname, sname, sname))
    kvs = [camel(n) for (n, k, m) in table if k == "kv"]
    for (n, k, m) in table:
        c = camel(n)
        if m == "m": o.append("  %s := mergeOpt_isSome _ _" % c)
        elif m == "x": o.append("  %s := maxOpt_isSome _ _" % c)
        elif m == "e": o.append("  %s := fun k h => (KV.mem_keys_extend _ _ (%s) k).2 h" % (c, sel("hy", kvs, c)))
        else: o.append("  %s := rfl" % c)
    o.append("")
    # sorted preserved
    o.append("theorem %s.merge_sorted (x y : %s) (hx : x.Sorted) : (x.merge y).Sorted :=" % (sname, sname))
    o.append("  ⟨" + ", ".join("KV.sorted_extend _ _ (%s)" % sel("hx", kvs, c) for c in kvs) + "⟩")
    o.append("")
    # comm
    o.append("theorem %s.merge_comm (x y : %s) (hx : x.Sorted) (hy : y.Sorted) (hc : %s.Compat x y) : x.merge y = y.merge x := by" % (sname, sname, sname))
    o.append("  apply %s.ext" % sname)
    for (n, k, m) in table:
        c = camel(n)
        if m == "-": o.append("  case %s => exact hc.%s" % (c, c))
        elif m == "x": o.append("  case %s => exact maxOpt_comm _ _" % c)
        elif n in idfields: o.append("  case %s => simp only [%s.merge]; rw [hc.%s]" % (c, sname, c))
        elif m == "m": o.append("  case %s => exact mergeOpt_comm hc.%s" % (c, c))
        elif m == "e": o.append("  case %s => exact KV.extend_comm (%s) (%s) hc.%s" % (c, sel("hx", kvs, c), sel("hy", kvs, c), c))
    o.append("")
    # assoc
    o.append("theorem %s.merge_assoc (x y z : %s) (hx : x.Sorted) (hy : y.Sorted) (hz : z.Sorted) : (x.merge y).merge z = x.merge (y.merge z) := by" % (sname, sname))
    o.append("  apply %s.ext" % sname)
    for (n, k, m) in table:
        c = camel(n)
        if m == "-": o.append("  case %s => rfl" % c)
        elif m == "x": o.append("  case %s => exact maxOpt_assoc _ _ _" % c)
        elif m == "m": o.append("  case %s => exact mergeOpt_assoc _ _ _" % c)
        elif m == "e": o.append("  case %s => exact KV.extend_assoc (%s) (%s) (%s)" % (c, sel("hx", kvs, c), sel("hy", kvs, c), sel("hz", kvs, c)))
    o.append("")
    # compatibility is preserved: the merge of two maps compatible with a third one is compatible with it
    o.append("theorem %s.merge_compat (x y z : %s) (hy : y.Sorted) (h1 : %s.Compat x z) (h2 : %s.Compat y z) : %s.Compat (x.merge y) z where" % (sname, sname, sname, sname, sname))
    for (n, k, m) in table:
        c = camel(n)
        if m == "-": o.append("  %s := h1.%s" % (c, c))
        elif m == "x": o.append("  %s := by simp only [%s.merge]; rw [h1.%s, h2.%s, maxOpt_self]" % (c, sname, c, c))
        elif n in idfields: o.append("  %s := by simp only [%s.merge]; rw [h1.%s, h2.%s, mergeOpt_self]" % (c, sname, c, c))
        elif m == "m": o.append("  %s := optAgree_mergeOpt h1.%s h2.%s" % (c, c, c))
        elif m == "e": o.append("  %s := KV.agree_extend (%s) h1.%s h2.%s" % (c, sel("hy", kvs, c), c, c))
    return "\n".join(o)

def sel(h, kvs, c):
    """projection of the n-ary conjunction `h` for map field c"""
    i = kvs.index(c)
    n = len(kvs)
    s = h
    for _ in range(i):
        s += ".2"
    if i < n - 1:
        s += ".1"
    return s

ID_IN = ["previous_txid", "previous_output_index", "required_time_locktime", "required_height_locktime",
         "issuance_value_amount", "issuance_value_comm", "issuance_inflation_keys", "issuance_inflation_keys_comm",
         "issuance_blinding_nonce", "issuance_asset_entropy"]
ID_OUT = ["amount", "amount_comm", "script_pubkey", "asset", "asset_comm", "ecdh_pubkey"]

def lean_driver(sname, table, pfx):
    o = []
    o.append("def set%s (f : String) (k : Bytes) (v : Option Bytes) (x : %s) : Option %s :=" % (pfx, sname, sname))
    o.append("  match f with")
    for (n, kind, m) in table:
        c = camel(n)
        if kind == "ob": o.append('  | "%s" => some { x with %s := v }' % (n, c))
        elif kind.startswith("on"): o.append('  | "%s" => some { x with %s := v.map leNat }' % (n, c))
        elif kind == "ol": o.append('  | "%s" => (optStack v).map fun s => { x with %s := s }' % (n, c))
        elif kind == "kv": o.append('  | "%s" => v.map fun v => { x with %s := KV.insert k v x.%s }' % (n, c, c))
        elif kind == "b": o.append('  | "%s" => v.map fun v => { x with %s := v }' % (n, c))
        elif kind.startswith("n"): o.append('  | "%s" => v.map fun v => { x with %s := leNat v }' % (n, c))
    o.append("  | _ => none")
    o.append("")
    o.append("def dump%s (x : %s) : String :=" % (pfx, sname))
    o.append("  String.intercalate \";\" (List.flatten [")
    parts = []
    for (n, kind, m) in table:
        c = camel(n)
        if kind == "ob": parts.append('    dOpt "%s" x.%s' % (n, c))
        elif kind.startswith("on"): parts.append('    dOptN "%s" %s x.%s' % (n, kind[2:], c))
        elif kind == "ol": parts.append('    dOptL "%s" x.%s' % (n, c))
        elif kind == "kv": parts.append('    dKV "%s" x.%s' % (n, c))
        elif kind == "b": parts.append('    dB "%s" x.%s' % (n, c))
        elif kind.startswith("n"): parts.append('    dN "%s" %s x.%s' % (n, kind[1:], c))
    o.append(",\n".join(parts) + "])")
    return "\n".join(o)

def rust(table, types, var, ty):
    o = []
    o.append("pub fn set_%s(x: &mut %s, f: &str, k: &[u8], v: Option<&[u8]>) -> Option<()> {" % (var, ty))
    o.append("    match f {")
    for (n, kind, m) in table:
        if kind in ("ob", "ol") or kind.startswith("on"):
            o.append('        "%s" => x.%s = match v { Some(v) => Some(de::<%s>(v)?), None => None },' % (n, n, types[n]))
        elif kind == "kv" and n in types:
            kt, vt = types[n]
            o.append('        "%s" => { x.%s.insert(de::<%s>(k)?, de::<%s>(v?)?); }' % (n, n, kt, vt))
        elif n == "proprietary":
            o.append('        "proprietary" => { x.proprietary.insert(prop_key(k)?, v?.to_vec()); }')
        elif n == "unknown":
            o.append('        "unknown" => { x.unknown.insert(raw_key(k)?, v?.to_vec()); }')
        elif n == "previous_txid":
            o.append('        "previous_txid" => x.previous_txid = de::<Txid>(v?)?,')
        elif n == "previous_output_index":
            o.append('        "previous_output_index" => x.previous_output_index = de::<u32>(v?)?,')
        elif n == "script_pubkey":
            o.append('        "script_pubkey" => x.script_pubkey = de::<Script>(v?)?,')
        else:
            raise ValueError(n)
    o.append("        _ => return None,")
    o.append("    }")
    o.append("    Some(())")
    o.append("}")
    o.append("")
    o.append("pub fn dump_%s(x: &%s) -> String {" % (var, ty))
    o.append("    let mut p: Vec<String> = vec![];")
    for (n, kind, m) in table:
        if kind in ("ob", "ol") or kind.startswith("on"):
            o.append('    if let Some(v) = &x.%s { p.push(format!("%s={}", hex(&se(v)))); }' % (n, n))
        elif kind == "kv" and n in types:
            o.append('    d_map(&mut p, "%s", x.%s.iter().map(|(k, v)| (se(k), se(v))).collect());' % (n, n))
        elif n == "proprietary":
            o.append('    d_map(&mut p, "proprietary", x.proprietary.iter().map(|(k, v)| (prop_key_bytes(k), v.clone())).collect());')
        elif n == "unknown":
            o.append('    d_map(&mut p, "unknown", x.unknown.iter().map(|(k, v)| (raw_key_bytes(k), v.clone())).collect());')
        else:
            o.append('    p.push(format!("%s={}", hex(&se(&x.%s))));' % (n, n))
    o.append('    p.join(";")')
    o.append("}")
    return "\n".join(o)


# ---------------------------------------------------------------------------------------------------
# C07: the wire-format tables (lean/EV/Model/PsetTables.lean), in the EMISSION ORDER of `get_pairs`.
# columns: field, tag kind (plain | pset | propAny | unkAny), Gen.PsetWire constant (type byte or
# proprietary subtype), kind (opt | mand | optLast | map | keyList), key validity, value codec, key order
C = {  # value codecs (Lean expressions over W : WirePrims)
    "tx": "accept (txOk W)", "txout": "accept (txOutOk W)", "bytes": "cAny", "u32": "cLen 4", "u64": "cLen 8",
    "u8": "cLen 1", "b32": "cLen 32", "keysource": "accept keySourceOk", "stack": "accept stackOk",
    "height": "cHeight", "time": "cTime", "schnorr": "schnorrNorm", "scriptver": "accept scriptVerOk",
    "taporigin": "accept tapOriginOk", "xonly": "accept (xonlyOk W)", "commitment": "accept (commitmentOk W)",
    "generator": "accept (generatorOk W)", "rangeproof": "accept W.P.rangeproof", "surjproof": "accept W.P.surjproof",
    "btctx": "accept W.btcTx", "tweak": "accept (tweakOk W)", "pk": "accept (pkOk W)", "taptree": "tapTreeNorm W",
    "pre_ripemd160": "cPreimage W.ripemd160", "pre_sha256": "cPreimage W.sha256", "pre_hash160": "cPreimage W.hash160",
    "pre_hash256": "cPreimage W.hash256", "count": "countNorm",
}
K = {  # key validity
    "pk": "pkOk W", "h20": "fun k => k.length == 20", "h32": "fun k => k.length == 32", "tapsigkey": "tapSigKeyOk W",
    "cb": "controlBlockOk W", "xonly": "xonlyOk W", "any": "fun _ => true", "xpub": "xpubOk W", "tweak": "tweakOk W",
}
WIRE_INPUT = [
    ("non_witness_utxo", "plain", "psetInNonWitnessUtxo", "opt", None, "tx", None),
    ("witness_utxo", "plain", "psetInWitnessUtxo", "opt", None, "txout", None),
    ("partial_sigs", "plain", "psetInPartialSig", "map", "pk", "bytes", "pkLt"),
    ("sighash_type", "plain", "psetInSighashType", "opt", None, "u32", None),
    ("redeem_script", "plain", "psetInRedeemScript", "opt", None, "bytes", None),
    ("witness_script", "plain", "psetInWitnessScript", "opt", None, "bytes", None),
    ("bip32_derivation", "plain", "psetInBip32Derivation", "map", "pk", "keysource", "pkLt"),
    ("final_script_sig", "plain", "psetInFinalScriptsig", "opt", None, "bytes", None),
    ("final_script_witness", "plain", "psetInFinalScriptwitness", "opt", None, "stack", None),
    ("ripemd160_preimages", "plain", "psetInRipemd160", "map", "h20", "pre_ripemd160", "bytesLt"),
    ("sha256_preimages", "plain", "psetInSha256", "map", "h32", "pre_sha256", "bytesLt"),
    ("hash160_preimages", "plain", "psetInHash160", "map", "h20", "pre_hash160", "bytesLt"),
    ("hash256_preimages", "plain", "psetInHash256", "map", "h32", "pre_hash256", "bytesLt"),
    ("previous_txid", "plain", "psetInPreviousTxid", "mand", None, "b32", None),
    ("previous_output_index", "plain", "psetInOutputIndex", "mand", None, "u32", None),
    ("sequence", "plain", "psetInSequence", "opt", None, "u32", None),
    ("required_time_locktime", "plain", "psetInRequiredTimeLocktime", "opt", None, "time", None),
    ("required_height_locktime", "plain", "psetInRequiredHeightLocktime", "opt", None, "height", None),
    ("tap_key_sig", "plain", "psbtInTapKeySig", "opt", None, "schnorr", None),
    ("tap_script_sigs", "plain", "psbtInTapScriptSig", "map", "tapsigkey", "schnorr", "bytesLt"),
    ("tap_scripts", "plain", "psbtInTapLeafScript", "map", "cb", "scriptver", "bytesLt"),
    ("tap_key_origins", "plain", "psbtInTapBip32Derivation", "map", "xonly", "taporigin", "bytesLt"),
    ("tap_internal_key", "plain", "psbtInTapInternalKey", "opt", None, "xonly", None),
    ("tap_merkle_root", "plain", "psbtInTapMerkleRoot", "opt", None, "b32", None),
    ("issuance_value_amount", "pset", "psbtElementsInIssuanceValue", "opt", None, "u64", None),
    ("issuance_value_comm", "pset", "psbtElementsInIssuanceValueCommitment", "opt", None, "commitment", None),
    ("issuance_value_rangeproof", "pset", "psbtElementsInIssuanceValueRangeproof", "opt", None, "rangeproof", None),
    ("issuance_keys_rangeproof", "pset", "psbtElementsInIssuanceKeysRangeproof", "opt", None, "rangeproof", None),
    ("pegin_tx", "pset", "psbtElementsInPegInTx", "opt", None, "btctx", None),
    ("pegin_txout_proof", "pset", "psbtElementsInPegInTxoutProof", "opt", None, "bytes", None),
    ("pegin_genesis_hash", "pset", "psbtElementsInPegInGenesis", "opt", None, "b32", None),
    ("pegin_claim_script", "pset", "psbtElementsInPegInClaimScript", "opt", None, "bytes", None),
    ("pegin_value", "pset", "psbtElementsInPegInValue", "opt", None, "u64", None),
    ("pegin_witness", "pset", "psbtElementsInPegInWitness", "opt", None, "stack", None),
    ("issuance_inflation_keys", "pset", "psbtElementsInIssuanceInflationKeys", "opt", None, "u64", None),
    ("issuance_inflation_keys_comm", "pset", "psbtElementsInIssuanceInflationKeysCommitment", "opt", None, "commitment", None),
    ("issuance_blinding_nonce", "pset", "psbtElementsInIssuanceBlindingNonce", "opt", None, "tweak", None),
    ("issuance_asset_entropy", "pset", "psbtElementsInIssuanceAssetEntropy", "opt", None, "b32", None),
    ("in_utxo_rangeproof", "pset", "psbtElementsInUtxoRangeproof", "opt", None, "rangeproof", None),
    ("in_issuance_blind_value_proof", "pset", "psbtElementsInIssuanceBlindValueProof", "opt", None, "rangeproof", None),
    ("in_issuance_blind_inflation_keys_proof", "pset", "psbtElementsInIssuanceBlindInflationKeysProof", "opt", None, "rangeproof", None),
    ("amount", "pset", "psbtElementsInExplicitValue", "opt", None, "u64", None),
    ("blind_value_proof", "pset", "psbtElementsInValueProof", "opt", None, "rangeproof", None),
    ("asset", "pset", "psbtElementsInExplicitAsset", "opt", None, "b32", None),
    ("blind_asset_proof", "pset", "psbtElementsInAssetProof", "opt", None, "surjproof", None),
    ("blinded_issuance", "pset", "psbtElementsInBlindedIssuance", "opt", None, "u8", None),
    ("proprietary", "propAny", None, "map", "any", "bytes", "propKeyLt"),
    ("unknown", "unkAny", None, "map", "any", "bytes", "bytesLt"),
]
WIRE_OUTPUT = [
    ("redeem_script", "plain", "psetOutRedeemScript", "opt", None, "bytes", None),
    ("witness_script", "plain", "psetOutWitnessScript", "opt", None, "bytes", None),
    ("bip32_derivation", "plain", "psetOutBip32Derivation", "map", "pk", "keysource", "pkLt"),
    ("tap_internal_key", "plain", "psbtOutTapInternalKey", "opt", None, "xonly", None),
    ("tap_tree", "plain", "psbtOutTapTree", "opt", None, "taptree", None),
    ("tap_key_origins", "plain", "psbtOutTapBip32Derivation", "map", "xonly", "taporigin", "bytesLt"),
    ("amount", "plain", "psetOutAmount", "opt", None, "u64", None),
    ("amount_comm", "pset", "psbtElementsOutValueCommitment", "opt", None, "commitment", None),
    ("asset", "pset", "psbtElementsOutAsset", "opt", None, "b32", None),
    ("asset_comm", "pset", "psbtElementsOutAssetCommitment", "opt", None, "generator", None),
    ("script_pubkey", "plain", "psetOutScript", "mand", None, "bytes", None),
    ("value_rangeproof", "pset", "psbtElementsOutValueRangeproof", "opt", None, "rangeproof", None),
    ("asset_surjection_proof", "pset", "psbtElementsOutAssetSurjectionProof", "opt", None, "surjproof", None),
    ("blinding_key", "pset", "psbtElementsOutBlindingPubkey", "opt", None, "pk", None),
    ("ecdh_pubkey", "pset", "psbtElementsOutEcdhPubkey", "opt", None, "pk", None),
    ("blinder_index", "pset", "psbtElementsOutBlinderIndex", "opt", None, "u32", None),
    ("blind_value_proof", "pset", "psbtElementsOutBlindValueProof", "opt", None, "rangeproof", None),
    ("blind_asset_proof", "pset", "psbtElementsOutBlindAssetProof", "opt", None, "surjproof", None),
    ("proprietary", "propAny", None, "map", "any", "bytes", "propKeyLt"),
    ("unknown", "unkAny", None, "map", "any", "bytes", "bytesLt"),
]
# the global record has its own conversion column: (… , record field, conversion)
WIRE_GLOBAL = [
    ("tx_version", "plain", "psetGlobalTxVersion", "mand", None, "u32", None),
    ("fallback_locktime", "plain", "psetGlobalFallbackLocktime", "opt", None, "u32", None),
    ("input_count", "plain", "psetGlobalInputCount", "mand", None, "count", None),
    ("output_count", "plain", "psetGlobalOutputCount", "mand", None, "count", None),
    ("tx_modifiable", "plain", "psetGlobalTxModifiable", "opt", None, "u8", None),
    ("xpub", "plain", "psetGlobalXpub", "map", "xpub", "keysource", "xpubLt"),
    ("version", "plain", "psetGlobalVersion", "mand", None, "u32", None),
    ("scalars", "pset", "psbtElementsGlobalScalar", "keyList", "tweak", None, None),
    ("elements_tx_modifiable_flag", "pset", "psbtElementsGlobalTxModifiable", "opt", None, "u8", None),
    ("proprietary", "propAny", None, "map", "any", "bytes", "propKeyLt"),
    ("unknown", "unkAny", None, "map", "any", "bytes", "bytesLt"),
]
GLOBAL_KINDS = {"tx_version": "n4", "fallback_locktime": "on4", "input_count": "cnt", "output_count": "cnt",
                "tx_modifiable": "on1", "xpub": "xpub", "version": "n4", "scalars": "keys",
                "elements_tx_modifiable_flag": "on1", "proprietary": "kv", "unknown": "kv"}

def wire_field(row):
    (n, tk, cn, kind, vk, codec, lt) = row
    if tk == "plain": tag = "(.plain (u8n Gen.PsetWire.%s))" % cn
    elif tk == "pset": tag = "(.pset (u8n Gen.PsetWire.%s))" % cn
    elif tk == "propAny": tag = ".propAny"
    else: tag = ".unkAny"
    if kind in ("opt", "mand"): return 'fOpt "%s" %s (%s)' % (n, tag, C[codec])
    if kind == "optLast": return 'fOptLast "%s" %s (%s)' % (n, tag, C[codec])
    if kind == "map": return 'fMap "%s" %s (%s) (%s) %s' % (n, tag, K[vk], C[codec], lt)
    if kind == "keyList": return 'fKeyList "%s" %s (%s)' % (n, tag, K[vk])
    raise ValueError(kind)

def wire_table(name, rows):
    return "def %s (W : WirePrims) : List Field := [\n" % name + ",\n".join("  " + wire_field(r) for r in rows) + "]"

def wire_shape(name, rows):
    """(field, mode, number) as extracted from the Rust source by tools/extract.d/c07.py"""
    def mode(r):
        (n, tk, cn, kind, vk, codec, lt) = r
        if tk == "propAny": return "propAny"
        if tk == "unkAny": return "unkAny"
        if kind == "mand": return "mandatory"
        if tk == "pset": return "propkeyed" if kind == "keyList" else "prop"
        return "keyed" if kind == "map" else "plain"
    items = ['  ("%s", "%s", %s)' % (r[0], mode(r), ("Gen.PsetWire." + r[2]) if r[2] else "0") for r in rows]
    return "def %s : List (String × String × Nat) := [\n" % name + ",\n".join(items) + "]"

def wire_codec_names(name, rows):
    """(field, key codec, value codec) by NAME, to be compared with the Rust types of `insert_pair`"""
    items = ['  ("%s", "%s", "%s")' % (r[0], r[4] or "-", r[5] or "-") for r in rows]
    return "def %s : List (String × String × String) := [\n" % name + ",\n".join(items) + "]"

def to_slot(kind, c):
    if kind == "ob": return "Slot.ofOpt x.%s" % c
    if kind.startswith("on"): return "Slot.ofOptN %s x.%s" % (kind[2:], c)
    if kind == "ol": return "Slot.ofOptL x.%s" % c
    if kind == "kv": return "x.%s" % c
    if kind == "b": return "Slot.ofOpt (some x.%s)" % c
    if kind == "cnt": return "Slot.ofOpt (some (encVarint x.%s))" % c
    if kind == "xpub": return "x.%s.map (fun kv => (kv.1, encKeySource kv.2))" % c
    if kind == "keys": return "Slot.ofKeys x.%s" % c
    if kind.startswith("n"): return "Slot.ofOptN %s (some x.%s)" % (kind[1:], c)
    raise ValueError(kind)

def of_slot(kind, v):
    if kind == "ob": return "Slot.toOpt %s" % v
    if kind.startswith("on"): return "Slot.toOptN %s" % v
    if kind == "ol": return "Slot.toOptL %s" % v
    if kind == "kv": return v
    if kind == "b": return "(Slot.toOpt %s).getD []" % v
    if kind == "cnt": return "countOf ((Slot.toOpt %s).getD [])" % v
    if kind == "xpub": return "%s.map (fun kv => (kv.1, keySourceOf kv.2))" % v
    if kind == "keys": return "Slot.toKeys %s" % v
    if kind.startswith("n"): return "(Slot.toOptN %s).getD 0" % v
    raise ValueError(kind)

def wire_conv(sname, rows, kinds):
    names = [r[0] for r in rows]
    o = ["namespace %s" % sname,
         "/-- the slots of the wire table, in table (= emission) order -/",
         "def toSlots (x : %s) : List Slot := [" % sname]
    o.append(",\n".join("  " + to_slot(kinds[n], camel(n)) for n in names) + "]")
    vs = ["s%d" % i for i in range(len(names))]
    o.append("/-- the record read back from the slots (`none` on a wrong number of slots) -/")
    o.append("def ofSlots : List Slot → Option %s" % sname)
    o.append("  | %s :: [] => some {" % " :: ".join(vs))
    o.append(",\n".join("      %s := %s" % (camel(n), of_slot(kinds[n], v)) for n, v in zip(names, vs)) + " }")
    o.append("  | _ => none")
    o.append("end %s" % sname)
    return "\n".join(o)

def lean_wire():
    kin = dict((n, k) for (n, k, m) in INPUT)
    kout = dict((n, k) for (n, k, m) in OUTPUT)
    out = ["/- GENERATED by `python3 tools/gen_pset_fields.py lean-wire` — do not edit by hand.",
           "   The field tables of the three PSET maps in the emission order of `get_pairs`, and the conversion",
           "   between the in-memory records (EV.Model.Pset) and the slots of the generic wire model. -/",
           "import EV.Model.PsetCodec", "namespace EV.PsetWire", "open EV EV.Codec", "",
           "/-- `KeySource` ⇄ its value bytes (fingerprint, then little-endian `u32`s) -/",
           "def encKeySource (k : KeySource) : Bytes := k.fp ++ k.path.flatMap (leBytes 4)",
           "def chunk4 : Nat → Bytes → List Bytes",
           "  | 0, _ => []",
           "  | n+1, bs => bs.take 4 :: chunk4 n (bs.drop 4)",
           "def keySourceOf (b : Bytes) : KeySource := ⟨b.take 4, (chunk4 ((b.length - 4) / 4) (b.drop 4)).map leNat⟩",
           "/-- the number held by a stored count (`VarInt(n).serialize()`) -/",
           "def countOf (b : Bytes) : Nat := match varint b with | .ok (n, _) => n | _ => 0", "",
           wire_table("globalTable", WIRE_GLOBAL), "", wire_table("inputTable", WIRE_INPUT), "", wire_table("outputTable", WIRE_OUTPUT), "",
           wire_shape("globalShape", WIRE_GLOBAL), "", wire_shape("inputShape", WIRE_INPUT), "", wire_shape("outputShape", WIRE_OUTPUT), "",
           "/-- the codecs chosen in the tables above, by name (same generator rows) -/",
           wire_codec_names("inputCodecNames", WIRE_INPUT), "", wire_codec_names("outputCodecNames", WIRE_OUTPUT), "",
           "end EV.PsetWire", "", "namespace EV", "open EV.PsetWire EV.Codec", "",
           wire_conv("PsetGlobal", WIRE_GLOBAL, GLOBAL_KINDS), "", wire_conv("PsetInput", WIRE_INPUT, kin), "",
           wire_conv("PsetOutput", WIRE_OUTPUT, kout), "", "end EV"]
    return "\n".join(out)


# ---------------------------------------------------------------------------------------------------
# C07: record <-> slots proofs (lean/EV/Proofs/PsetWireRec.lean)
def codec_len_lemma(codec):
    return {"u32": "cLen_len", "u64": "cLen_len", "u8": "cLen_len", "b32": "cLen_len", "height": "cHeight_len", "time": "cTime_len"}[codec]

def wire_rec(sname, tname, rows, kinds):
    n = len(rows)
    o = []
    # Bounds
    o.append("/-- widths the Rust types of the fields guarantee (integers within their width, witness stacks within")
    o.append("    the allocation limits of `Vec<Vec<u8>>`, key sources with a 4-byte fingerprint and `u32` children) -/")
    o.append("structure %s.Bounds (x : %s) : Prop where" % (sname, sname))
    bfields = []
    for r in rows:
        f = r[0]; c = camel(f); k = kinds[f]
        if k.startswith("on"):
            o.append("  %s : ∀ n, x.%s = some n → n < 256 ^ %s" % (c, c, k[2:])); bfields.append((f, "on"))
        elif k == "ol":
            o.append("  %s : ∀ l, x.%s = some l → WfStack l" % (c, c)); bfields.append((f, "ol"))
        elif k == "cnt":
            o.append("  %s : x.%s < 2 ^ 64" % (c, c)); bfields.append((f, "cnt"))
        elif k == "xpub":
            o.append("  %s : ∀ kv ∈ x.%s, WfKeySource kv.2" % (c, c)); bfields.append((f, "xpub"))
        elif k.startswith("n"):
            o.append("  %s : x.%s < 256 ^ %s" % (c, c, k[1:])); bfields.append((f, "n"))
    o.append("")
    # R1
    o.append("theorem %s.ofSlots_toSlots (x : %s) (hb : x.Bounds) : %s.ofSlots x.toSlots = some x := by" % (sname, sname, sname))
    rules = ["%s.toSlots" % sname, "%s.ofSlots" % sname, "toOpt_ofOpt", "toKeys_ofKeys", "Option.getD_some"]
    for (f, bk) in bfields:
        c = camel(f)
        if bk == "on": rules.append("toOptN_ofOptN _ _ hb.%s" % c)
        elif bk == "ol": rules.append("toOptL_ofOptL _ hb.%s" % c)
        elif bk == "cnt": rules.append("countOf_encVarint _ hb.%s" % c)
        elif bk == "xpub": rules.append("xpub_there _ hb.%s" % c)
        elif bk == "n": rules.append("toOptN_ofOptN_some _ _ hb.%s" % c)
    o.append("  simp only [%s]" % ", ".join(rules))
    o.append("")
    # R2
    mand = [(i, r[0]) for i, r in enumerate(rows) if r[3] == "mand"]
    hyps = " ".join("(hm%d : slotMissing st %d = false)" % (i, i) for i, f in mand)
    o.append("theorem %s.toSlots_ofSlots (T : List Field) (W : WirePrims) (st : List Slot) (x : %s)" % (sname, sname))
    o.append("    (hz : WfZip T (%s W) st) %s (h : %s.ofSlots st = some x) :" % (tname, hyps, sname))
    o.append("    x.toSlots = st ∧ x.Bounds := by")
    o.append("  unfold %s at hz" % tname)
    pat = "_ | ⟨s%d, _ | ⟨sx, rest⟩⟩" % (n - 1)
    for i in range(n - 2, -1, -1):
        pat = "_ | ⟨s%d, %s⟩" % (i, pat)
    o.append("  rcases st with %s" % pat)
    o.append("  all_goals try (simp only [WfZip, and_false] at hz)")
    o.append("  obtain ⟨%s, _⟩ := hz" % ", ".join("h%d" % i for i in range(n)))
    o.append("  simp only [%s.ofSlots, Option.some.injEq] at h" % sname)
    o.append("  subst h")
    for i, f in mand:
        o.append("  have hne%d : s%d ≠ [] := not_missing_of hm%d rfl" % (i, i, i))
    # facts per field
    rw = []
    bproofs = {}
    for i, r in enumerate(rows):
        (f, tk, cn, kind, vk, codec, lt) = r
        k = kinds[f]
        shape = "(optLast_shape h%d)" % i if kind == "optLast" else "(opt_shape h%d)" % i
        val = "(optLast_val h%d)" % i if kind == "optLast" else "(opt_val h%d)" % i
        if k == "ob":
            rw.append("ofOpt_toOpt _ %s" % shape)
        elif k.startswith("on"):
            o.append("  have c%d := ofOptN_toOptN %s s%d %s (fun kv hkv => %s (%s kv hkv))" % (i, k[2:], i, shape, codec_len_lemma(codec), val))
            rw.append("c%d.1" % i); bproofs[f] = "c%d.2" % i
        elif k == "ol":
            o.append("  have c%d := ofOptL_toOptL s%d %s (fun kv hkv => stack_ok (%s kv hkv))" % (i, i, shape, val))
            rw.append("c%d.1" % i); bproofs[f] = "c%d.2" % i
        elif k == "b":
            rw.append("ofOpt_mand _ %s hne%d" % (shape, i))
        elif k == "cnt":
            o.append("  have c%d := ofOpt_count s%d %s %s hne%d" % (i, i, shape, val, i))
            rw.append("c%d.1" % i); bproofs[f] = "c%d.2" % i
        elif k == "xpub":
            o.append("  have c%d := xpub_back s%d (fun kv hkv => ks_ok (map_val h%d kv hkv))" % (i, i, i))
            rw.append("c%d.1" % i); bproofs[f] = "c%d.2" % i
        elif k == "keys":
            rw.append("keys_back _ (keyList_val h%d)" % i)
        elif k == "kv":
            pass
        elif k.startswith("n"):
            o.append("  have c%d := ofOptN_mand %s s%d %s (fun kv hkv => %s (%s kv hkv)) hne%d" % (i, k[1:], i, shape, codec_len_lemma(codec), val, i))
            rw.append("c%d.1" % i); bproofs[f] = "c%d.2" % i
        else:
            raise ValueError(k)
    o.append("  refine ⟨?_, ?_⟩")
    o.append("  · simp only [%s.toSlots]" % sname)
    o.append("    rw [%s]" % ", ".join(rw))
    o.append("  · exact {")
    o.append(",\n".join("      %s := %s" % (camel(f), bproofs[f]) for (f, bk) in bfields) + " }")
    return "\n".join(o)

def lean_wire_proofs():
    kin = dict((n, k) for (n, k, m) in INPUT)
    kout = dict((n, k) for (n, k, m) in OUTPUT)
    out = ["/- GENERATED by `python3 tools/gen_pset_fields.py lean-wire-proofs` — do not edit by hand.",
           "   For each of the three records: the widths the Rust field types guarantee (`Bounds`), and the two",
           "   directions of the record ⇄ slots conversion (`ofSlots_toSlots`, `toSlots_ofSlots`). -/",
           "import EV.Proofs.PsetWireConv", "namespace EV", "open EV.PsetWire EV.Codec EV.Proofs.PsetWireMap EV.Proofs.PsetWireConv", "",
           wire_rec("PsetGlobal", "globalTable", WIRE_GLOBAL, GLOBAL_KINDS), "",
           wire_rec("PsetOutput", "outputTable", WIRE_OUTPUT, kout), "",
           wire_rec("PsetInput", "inputTable", WIRE_INPUT, kin), "", "end EV"]
    return "\n".join(out)

if __name__ == "__main__":
    what = sys.argv[1]
    if what == "lean-struct":
        print(struct("PsetInput", INPUT)); print()
        print(struct("PsetOutput", OUTPUT)); print()
        print("namespace PsetInput"); print(merge("PsetInput", INPUT)); print(sorted_pred("PsetInput", INPUT)); print(compat("PsetInput", INPUT, ID_IN)); print(keeps("PsetInput", INPUT)); print("end PsetInput\n")
        print("namespace PsetOutput"); print(merge("PsetOutput", OUTPUT)); print(sorted_pred("PsetOutput", OUTPUT)); print(compat("PsetOutput", OUTPUT, ID_OUT)); print(keeps("PsetOutput", OUTPUT)); print("end PsetOutput")
    elif what == "lean-proofs":
        print(proofs("PsetInput", INPUT, ID_IN)); print()
        print(proofs("PsetOutput", OUTPUT, ID_OUT))
    elif what == "lean-driver":
        print(lean_driver("PsetInput", INPUT, "In")); print()
        print(lean_driver("PsetOutput", OUTPUT, "Out"))
    elif what == "lean-table":
        def tbl(name, table):
            return "def %s : List (String × String × String) := [\n  %s]" % (name, ",\n  ".join('("%s", "%s", "%s")' % t for t in table))
        print("/- GENERATED by tools/gen_pset_fields.py lean-table — the field table the PSET model (structures, merge,\n   per-field theorems, dumps) is generated from: (Rust field name, model kind, merge kind). -/")
        print("namespace EV.PsetFieldTable\n")
        print(tbl("input", INPUT)); print()
        print(tbl("output", OUTPUT)); print()
        print("end EV.PsetFieldTable")
    elif what == "lean-wire-proofs":
        print(lean_wire_proofs())
    elif what == "lean-wire":
        print(lean_wire())
    elif what == "rust":
        print(rust(INPUT, RUST_IN, "input", "Input")); print()
        print(rust(OUTPUT, RUST_OUT, "output", "Output"))
