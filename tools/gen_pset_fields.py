#!/usr/bin/env python3
"""Field table of the in-memory PSET model (src/pset/map/{global,input,output}.rs) and a generator for
the repetitive, field-by-field text derived from it:

  python3 tools/gen_pset_fields.py lean-struct   -> structures + merge + Compat/Sorted/Keeps (the middle part of
                                                    lean/EV/Model/Pset.lean)
  python3 tools/gen_pset_fields.py lean-proofs   -> per-field proofs merge_keeps / merge_sorted / merge_comm /
                                                    merge_assoc / merge_compat (in lean/EV/Proofs/PsetMerge.lean)
  python3 tools/gen_pset_fields.py lean-driver   -> set/dump of every field (lean/EV/Driver/PsetDesc.lean)
  python3 tools/gen_pset_fields.py rust          -> set/dump of every field (harness/src/props/psetdesc.rs)

The outputs are checked in; this script is kept so that whoever extends the model (C07: wire format)
can regenerate the per-field text after editing the table.  Kinds:
  ob  Option<opaque>  -> Option Bytes          on<w> Option<uint of w bytes> -> Option Nat
  ol  Option<Vec<Vec<u8>>> -> Option (List Bytes)
  kv  BTreeMap<K,V>   -> KV (List (Bytes x Bytes), sorted by key)
  b   mandatory bytes, n<w> mandatory uint
merge kinds: m = merge! (first present wins), e = BTreeMap::extend (other wins), x = cmp::max on Option,
  - = not touched by merge
"""
import sys, re

INPUT = [
    ("non_witness_utxo", "ob", "m"), ("witness_utxo", "ob", "m"), ("partial_sigs", "kv", "e"),
    ("sighash_type", "on4", "m"), ("redeem_script", "ob", "m"), ("witness_script", "ob", "m"),
    ("bip32_derivation", "kv", "e"), ("final_script_sig", "ob", "m"), ("final_script_witness", "ol", "m"),
    ("ripemd160_preimages", "kv", "e"), ("sha256_preimages", "kv", "e"), ("hash160_preimages", "kv", "e"),
    ("hash256_preimages", "kv", "e"), ("previous_txid", "b", "-"), ("previous_output_index", "n4", "-"),
    ("sequence", "on4", "m"), ("required_time_locktime", "on4", "x"), ("required_height_locktime", "on4", "x"),
    ("tap_key_sig", "ob", "m"), ("tap_script_sigs", "kv", "e"), ("tap_scripts", "kv", "e"),
    ("tap_key_origins", "kv", "e"), ("tap_internal_key", "ob", "m"), ("tap_merkle_root", "ob", "m"),
    ("issuance_value_amount", "on8", "m"), ("issuance_value_comm", "ob", "m"),
    ("issuance_value_rangeproof", "ob", "m"), ("issuance_keys_rangeproof", "ob", "m"),
    ("pegin_tx", "ob", "m"), ("pegin_txout_proof", "ob", "m"), ("pegin_genesis_hash", "ob", "m"),
    ("pegin_claim_script", "ob", "m"), ("pegin_value", "on8", "m"), ("pegin_witness", "ol", "m"),
    ("issuance_inflation_keys", "on8", "m"), ("issuance_inflation_keys_comm", "ob", "m"),
    ("issuance_blinding_nonce", "ob", "m"), ("issuance_asset_entropy", "ob", "m"),
    ("in_utxo_rangeproof", "ob", "m"), ("in_issuance_blind_value_proof", "ob", "m"),
    ("in_issuance_blind_inflation_keys_proof", "ob", "m"), ("amount", "on8", "m"),
    ("blind_value_proof", "ob", "m"), ("asset", "ob", "m"), ("blind_asset_proof", "ob", "m"),
    ("blinded_issuance", "on1", "m"), ("proprietary", "kv", "e"), ("unknown", "kv", "e"),
]
OUTPUT = [
    ("redeem_script", "ob", "m"), ("witness_script", "ob", "m"), ("bip32_derivation", "kv", "e"),
    ("tap_internal_key", "ob", "m"), ("tap_tree", "ob", "m"), ("tap_key_origins", "kv", "e"),
    ("amount", "on8", "m"), ("amount_comm", "ob", "m"), ("script_pubkey", "b", "-"),
    ("asset", "ob", "m"), ("asset_comm", "ob", "m"), ("value_rangeproof", "ob", "m"),
    ("asset_surjection_proof", "ob", "m"), ("blinding_key", "ob", "m"), ("ecdh_pubkey", "ob", "m"),
    ("blinder_index", "on4", "m"), ("blind_value_proof", "ob", "m"), ("blind_asset_proof", "ob", "m"),
    ("proprietary", "kv", "e"), ("unknown", "kv", "e"),
]
# Rust types of the Option fields / map keys and values, for the harness
RUST_IN = {
    "non_witness_utxo": "Transaction", "witness_utxo": "TxOut", "sighash_type": "PsbtSighashType",
    "redeem_script": "Script", "witness_script": "Script", "final_script_sig": "Script",
    "final_script_witness": "Vec<Vec<u8>>", "sequence": "Sequence", "required_time_locktime": "locktime::Time",
    "required_height_locktime": "locktime::Height", "tap_key_sig": "SchnorrSig", "tap_internal_key": "XOnlyPublicKey",
    "tap_merkle_root": "TapNodeHash", "issuance_value_amount": "u64", "issuance_value_comm": "PedersenCommitment",
    "issuance_value_rangeproof": "Box<RangeProof>", "issuance_keys_rangeproof": "Box<RangeProof>",
    "pegin_tx": "bitcoin::Transaction", "pegin_txout_proof": "Vec<u8>", "pegin_genesis_hash": "BlockHash",
    "pegin_claim_script": "Script", "pegin_value": "u64", "pegin_witness": "Vec<Vec<u8>>",
    "issuance_inflation_keys": "u64", "issuance_inflation_keys_comm": "PedersenCommitment",
    "issuance_blinding_nonce": "Tweak", "issuance_asset_entropy": "[u8; 32]", "in_utxo_rangeproof": "Box<RangeProof>",
    "in_issuance_blind_value_proof": "Box<RangeProof>", "in_issuance_blind_inflation_keys_proof": "Box<RangeProof>",
    "amount": "u64", "blind_value_proof": "Box<RangeProof>", "asset": "AssetId", "blind_asset_proof": "Box<SurjectionProof>",
    "blinded_issuance": "u8",
    "partial_sigs": ("PublicKey", "Vec<u8>"), "bip32_derivation": ("PublicKey", "KeySource"),
    "ripemd160_preimages": ("ripemd160::Hash", "Vec<u8>"), "sha256_preimages": ("sha256::Hash", "Vec<u8>"),
    "hash160_preimages": ("hash160::Hash", "Vec<u8>"), "hash256_preimages": ("sha256d::Hash", "Vec<u8>"),
    "tap_script_sigs": ("(XOnlyPublicKey, TapLeafHash)", "SchnorrSig"), "tap_scripts": ("ControlBlock", "(Script, LeafVersion)"),
    "tap_key_origins": ("XOnlyPublicKey", "(Vec<TapLeafHash>, KeySource)"),
}
RUST_OUT = {
    "redeem_script": "Script", "witness_script": "Script", "tap_internal_key": "XOnlyPublicKey", "tap_tree": "TapTree",
    "amount": "u64", "amount_comm": "PedersenCommitment", "asset": "AssetId", "asset_comm": "Generator",
    "value_rangeproof": "Box<RangeProof>", "asset_surjection_proof": "Box<SurjectionProof>", "blinding_key": "PublicKey",
    "ecdh_pubkey": "PublicKey", "blinder_index": "u32", "blind_value_proof": "Box<RangeProof>",
    "blind_asset_proof": "Box<SurjectionProof>",
    "bip32_derivation": ("PublicKey", "KeySource"), "tap_key_origins": ("XOnlyPublicKey", "(Vec<TapLeafHash>, KeySource)"),
}

def camel(s):
    p = s.split("_")
    return p[0] + "".join(w.capitalize() for w in p[1:])

def lty(kind):
    if kind == "ob": return "Option Bytes"
    if kind.startswith("on"): return "Option Nat"
    if kind == "ol": return "Option (List Bytes)"
    if kind == "kv": return "KV"
    if kind == "b": return "Bytes"
    if kind.startswith("n"): return "Nat"
    raise ValueError(kind)

def ldefault(name, kind):
    if kind in ("ob", "ol") or kind.startswith("on"): return "none"
    if kind == "kv": return "[]"
    if name == "previous_txid": return "List.replicate 32 0"
    if kind == "b": return "[]"
    return "0"

def struct(sname, table):
    out = ["@[ext] structure %s where" % sname]
    for (n, k, m) in table:
        out.append("  %s : %s := %s" % (camel(n), lty(k), ldefault(n, k)))
    out.append("  deriving Repr, DecidableEq")
    return "\n".join(out)

def merge(sname, table):
    out = ["/-- `%s::merge` (never fails) -/" % sname.replace("Pset", ""), "def merge (x y : %s) : %s :=" % (sname, sname), "  {"]
    parts = []
    for (n, k, m) in table:
        c = camel(n)
        if m == "m": parts.append("    %s := mergeOpt x.%s y.%s" % (c, c, c))
        elif m == "e": parts.append("    %s := KV.extend x.%s y.%s" % (c, c, c))
        elif m == "x": parts.append("    %s := maxOpt x.%s y.%s" % (c, c, c))
        else: parts.append("    %s := x.%s" % (c, c))
    out.append(",\n".join(parts) + " }")
    return "\n".join(out)

def sorted_pred(sname, table):
    kvs = [camel(n) for (n, k, m) in table if k == "kv"]
    return "/-- every map field is a strictly key-sorted association list (what a `BTreeMap` is) -/\ndef Sorted (x : %s) : Prop :=\n  %s" % (
        sname, " ∧ ".join("KV.Sorted x.%s" % c for c in kvs))

def compat(sname, table, idfields):
    out = ["/-- the two maps agree wherever both define a value; the identifying fields coincide -/",
           "structure Compat (x y : %s) : Prop where" % sname]
    for (n, k, m) in table:
        c = camel(n)
        if n in idfields or m == "-" or m == "x":
            out.append("  %s : x.%s = y.%s" % (c, c, c))
        elif m == "m":
            out.append("  %s : OptAgree x.%s y.%s" % (c, c, c))
        elif m == "e":
            out.append("  %s : KV.Agree x.%s y.%s" % (c, c, c))
    return "\n".join(out)

def keeps(sname, table):
    out = ["/-- nothing present in `x` or `y` is absent from `z` -/", "structure Keeps (x y z : %s) : Prop where" % sname]
    for (n, k, m) in table:
        c = camel(n)
        if m in ("m", "x"):
            out.append("  %s : (x.%s.isSome ∨ y.%s.isSome) → z.%s.isSome" % (c, c, c, c))
        elif m == "e":
            out.append("  %s : ∀ k, (k ∈ KV.keys x.%s ∨ k ∈ KV.keys y.%s) → k ∈ KV.keys z.%s" % (c, c, c, c))
        else:
            out.append("  %s : z.%s = x.%s" % (c, c, c))
    return "\n".join(out)

def proofs(sname, table, idfields):
    """merge_comm / merge_assoc / keeps / sorted proofs, field by field"""
    o = []
    # keeps
    o.append("theorem %s.merge_keeps (x y : %s) (hy : y.Sorted) : %s.Keeps x y (x.merge y) where" % (sname, sname, sname))
    kvs = [camel(n) for (n, k, m) in table if k == "kv"]
    for (n, k, m) in table:
        c = camel(n)
        if m == "m": o.append("  %s := mergeOpt_isSome _ _" % c)
        elif m == "x": o.append("  %s := maxOpt_isSome _ _" % c)
        elif m == "e": o.append("  %s := fun k h => (KV.mem_keys_extend _ _ (%s) k).2 h" % (c, sel("hy", kvs, c)))
        else: o.append("  %s := rfl" % c)
    o.append("")
    # sorted preserved
    o.append("theorem %s.merge_sorted (x y : %s) (hx : x.Sorted) : (x.merge y).Sorted :=" % (sname, sname))
    o.append("  ⟨" + ", ".join("KV.sorted_extend _ _ (%s)" % sel("hx", kvs, c) for c in kvs) + "⟩")
    o.append("")
    # comm
    o.append("theorem %s.merge_comm (x y : %s) (hx : x.Sorted) (hy : y.Sorted) (hc : %s.Compat x y) : x.merge y = y.merge x := by" % (sname, sname, sname))
    o.append("  apply %s.ext" % sname)
    for (n, k, m) in table:
        c = camel(n)
        if m == "-": o.append("  case %s => exact hc.%s" % (c, c))
        elif m == "x": o.append("  case %s => exact maxOpt_comm _ _" % c)
        elif n in idfields: o.append("  case %s => simp only [%s.merge]; rw [hc.%s]" % (c, sname, c))
        elif m == "m": o.append("  case %s => exact mergeOpt_comm hc.%s" % (c, c))
        elif m == "e": o.append("  case %s => exact KV.extend_comm (%s) (%s) hc.%s" % (c, sel("hx", kvs, c), sel("hy", kvs, c), c))
    o.append("")
    # assoc
    o.append("theorem %s.merge_assoc (x y z : %s) (hx : x.Sorted) (hy : y.Sorted) (hz : z.Sorted) : (x.merge y).merge z = x.merge (y.merge z) := by" % (sname, sname))
    o.append("  apply %s.ext" % sname)
    for (n, k, m) in table:
        c = camel(n)
        if m == "-": o.append("  case %s => rfl" % c)
        elif m == "x": o.append("  case %s => exact maxOpt_assoc _ _ _" % c)
        elif m == "m": o.append("  case %s => exact mergeOpt_assoc _ _ _" % c)
        elif m == "e": o.append("  case %s => exact KV.extend_assoc (%s) (%s) (%s)" % (c, sel("hx", kvs, c), sel("hy", kvs, c), sel("hz", kvs, c)))
    o.append("")
    # compatibility is preserved: the merge of two maps compatible with a third one is compatible with it
    o.append("theorem %s.merge_compat (x y z : %s) (hy : y.Sorted) (h1 : %s.Compat x z) (h2 : %s.Compat y z) : %s.Compat (x.merge y) z where" % (sname, sname, sname, sname, sname))
    for (n, k, m) in table:
        c = camel(n)
        if m == "-": o.append("  %s := h1.%s" % (c, c))
        elif m == "x": o.append("  %s := by simp only [%s.merge]; rw [h1.%s, h2.%s, maxOpt_self]" % (c, sname, c, c))
        elif n in idfields: o.append("  %s := by simp only [%s.merge]; rw [h1.%s, h2.%s, mergeOpt_self]" % (c, sname, c, c))
        elif m == "m": o.append("  %s := optAgree_mergeOpt h1.%s h2.%s" % (c, c, c))
        elif m == "e": o.append("  %s := KV.agree_extend (%s) h1.%s h2.%s" % (c, sel("hy", kvs, c), c, c))
    return "\n".join(o)

def sel(h, kvs, c):
    """projection of the n-ary conjunction `h` for map field c"""
    i = kvs.index(c)
    n = len(kvs)
    s = h
    for _ in range(i):
        s += ".2"
    if i < n - 1:
        s += ".1"
    return s

ID_IN = ["previous_txid", "previous_output_index", "required_time_locktime", "required_height_locktime",
         "issuance_value_amount", "issuance_value_comm", "issuance_inflation_keys", "issuance_inflation_keys_comm",
         "issuance_blinding_nonce", "issuance_asset_entropy"]
ID_OUT = ["amount", "amount_comm", "script_pubkey", "asset", "asset_comm", "ecdh_pubkey"]

def lean_driver(sname, table, pfx):
    o = []
    o.append("def set%s (f : String) (k : Bytes) (v : Option Bytes) (x : %s) : Option %s :=" % (pfx, sname, sname))
    o.append("  match f with")
    for (n, kind, m) in table:
        c = camel(n)
        if kind == "ob": o.append('  | "%s" => some { x with %s := v }' % (n, c))
        elif kind.startswith("on"): o.append('  | "%s" => some { x with %s := v.map leNat }' % (n, c))
        elif kind == "ol": o.append('  | "%s" => (optStack v).map fun s => { x with %s := s }' % (n, c))
        elif kind == "kv": o.append('  | "%s" => v.map fun v => { x with %s := KV.insert k v x.%s }' % (n, c, c))
        elif kind == "b": o.append('  | "%s" => v.map fun v => { x with %s := v }' % (n, c))
        elif kind.startswith("n"): o.append('  | "%s" => v.map fun v => { x with %s := leNat v }' % (n, c))
    o.append("  | _ => none")
    o.append("")
    o.append("def dump%s (x : %s) : String :=" % (pfx, sname))
    o.append("  String.intercalate \";\" (List.flatten [")
    parts = []
    for (n, kind, m) in table:
        c = camel(n)
        if kind == "ob": parts.append('    dOpt "%s" x.%s' % (n, c))
        elif kind.startswith("on"): parts.append('    dOptN "%s" %s x.%s' % (n, kind[2:], c))
        elif kind == "ol": parts.append('    dOptL "%s" x.%s' % (n, c))
        elif kind == "kv": parts.append('    dKV "%s" x.%s' % (n, c))
        elif kind == "b": parts.append('    dB "%s" x.%s' % (n, c))
        elif kind.startswith("n"): parts.append('    dN "%s" %s x.%s' % (n, kind[1:], c))
    o.append(",\n".join(parts) + "])")
    return "\n".join(o)

def rust(table, types, var, ty):
    o = []
    o.append("pub fn set_%s(x: &mut %s, f: &str, k: &[u8], v: Option<&[u8]>) -> Option<()> {" % (var, ty))
    o.append("    match f {")
    for (n, kind, m) in table:
        if kind in ("ob", "ol") or kind.startswith("on"):
            o.append('        "%s" => x.%s = match v { Some(v) => Some(de::<%s>(v)?), None => None },' % (n, n, types[n]))
        elif kind == "kv" and n in types:
            kt, vt = types[n]
            o.append('        "%s" => { x.%s.insert(de::<%s>(k)?, de::<%s>(v?)?); }' % (n, n, kt, vt))
        elif n == "proprietary":
            o.append('        "proprietary" => { x.proprietary.insert(prop_key(k)?, v?.to_vec()); }')
        elif n == "unknown":
            o.append('        "unknown" => { x.unknown.insert(raw_key(k)?, v?.to_vec()); }')
        elif n == "previous_txid":
            o.append('        "previous_txid" => x.previous_txid = de::<Txid>(v?)?,')
        elif n == "previous_output_index":
            o.append('        "previous_output_index" => x.previous_output_index = de::<u32>(v?)?,')
        elif n == "script_pubkey":
            o.append('        "script_pubkey" => x.script_pubkey = de::<Script>(v?)?,')
        else:
            raise ValueError(n)
    o.append("        _ => return None,")
    o.append("    }")
    o.append("    Some(())")
    o.append("}")
    o.append("")
    o.append("pub fn dump_%s(x: &%s) -> String {" % (var, ty))
    o.append("    let mut p: Vec<String> = vec![];")
    for (n, kind, m) in table:
        if kind in ("ob", "ol") or kind.startswith("on"):
            o.append('    if let Some(v) = &x.%s { p.push(format!("%s={}", hex(&se(v)))); }' % (n, n))
        elif kind == "kv" and n in types:
            o.append('    d_map(&mut p, "%s", x.%s.iter().map(|(k, v)| (se(k), se(v))).collect());' % (n, n))
        elif n == "proprietary":
            o.append('    d_map(&mut p, "proprietary", x.proprietary.iter().map(|(k, v)| (prop_key_bytes(k), v.clone())).collect());')
        elif n == "unknown":
            o.append('    d_map(&mut p, "unknown", x.unknown.iter().map(|(k, v)| (raw_key_bytes(k), v.clone())).collect());')
        else:
            o.append('    p.push(format!("%s={}", hex(&se(&x.%s))));' % (n, n))
    o.append('    p.join(";")')
    o.append("}")
    return "\n".join(o)

if __name__ == "__main__":
    what = sys.argv[1]
    if what == "lean-struct":
        print(struct("PsetInput", INPUT)); print()
        print(struct("PsetOutput", OUTPUT)); print()
        print("namespace PsetInput"); print(merge("PsetInput", INPUT)); print(sorted_pred("PsetInput", INPUT)); print(compat("PsetInput", INPUT, ID_IN)); print(keeps("PsetInput", INPUT)); print("end PsetInput\n")
        print("namespace PsetOutput"); print(merge("PsetOutput", OUTPUT)); print(sorted_pred("PsetOutput", OUTPUT)); print(compat("PsetOutput", OUTPUT, ID_OUT)); print(keeps("PsetOutput", OUTPUT)); print("end PsetOutput")
    elif what == "lean-proofs":
        print(proofs("PsetInput", INPUT, ID_IN)); print()
        print(proofs("PsetOutput", OUTPUT, ID_OUT))
    elif what == "lean-driver":
        print(lean_driver("PsetInput", INPUT, "In")); print()
        print(lean_driver("PsetOutput", OUTPUT, "Out"))
    elif what == "lean-table":
        def tbl(name, table):
            return "def %s : List (String × String × String) := [\n  %s]" % (name, ",\n  ".join('("%s", "%s", "%s")' % t for t in table))
        print("/- GENERATED by tools/gen_pset_fields.py lean-table — the field table the PSET model (structures, merge,\n   per-field theorems, dumps) is generated from: (Rust field name, model kind, merge kind). -/")
        print("namespace EV.PsetFieldTable\n")
        print(tbl("input", INPUT)); print()
        print(tbl("output", OUTPUT)); print()
        print("end EV.PsetFieldTable")
    elif what == "rust":
        print(rust(INPUT, RUST_IN, "input", "Input")); print()
        print(rust(OUTPUT, RUST_OUT, "output", "Output"))
