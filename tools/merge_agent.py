#!/usr/bin/env python3
"""merge_agent.py <agent verif dir> <PROP> [<PROP>...] — union-merge the registration lines an agent added to shared files.
New files are expected to have been applied already (git apply with the shared files excluded)."""
import sys, os, re, json
A = sys.argv[1]; props = sys.argv[2:]
V = os.path.dirname(os.path.dirname(os.path.abspath(__file__)))
# Main.lean
m = open(os.path.join(V, "lean/Main.lean")).read()
am = open(os.path.join(A, "lean/Main.lean")).read()
for imp in re.findall(r"^import (EV\.Driver\.\S+)", am, flags=re.M):
    if ("import " + imp) not in m:
        m = m.replace("open EV.Driver", "import %s\nopen EV.Driver" % imp, 1) if False else re.sub(r"((?:^import .*\n)+)", lambda mo: mo.group(1) + "import %s\n" % imp, m, count=1, flags=re.M)
        name = imp.split(".")[-1]
        m = re.sub(r"(def allOps : List \(String × Handler\) := .*)", lambda mo: mo.group(1) + " ++ %s.ops" % name, m, count=1)
open(os.path.join(V, "lean/Main.lean"), "w").write(m)
# mod.rs
r = open(os.path.join(V, "harness/src/props/mod.rs")).read()
ar = open(os.path.join(A, "harness/src/props/mod.rs")).read()
for mod in re.findall(r"^pub mod (\w+);", ar, flags=re.M):
    if ("pub mod %s;" % mod) not in r:
        r = re.sub(r"((?:^pub mod \w+;\n)+)", lambda mo: mo.group(1) + "pub mod %s;\n" % mod, r, count=1, flags=re.M)
for arm in re.findall(r'^\s*"(C\d+)" => (\w+)::run\(([^)]*)\),', ar, flags=re.M):
    if ('"%s" =>' % arm[0]) not in r:
        r = r.replace("        _ => return false,", '        "%s" => %s::run(%s),\n        _ => return false,' % arm, 1)
open(os.path.join(V, "harness/src/props/mod.rs"), "w").write(r)
# checks.json
c = json.load(open(os.path.join(V, "checks.json")))
ac = json.load(open(os.path.join(A, "checks.json")))
for p in props:
    c["properties"][p] = ac["properties"][p]
json.dump(c, open(os.path.join(V, "checks.json"), "w"), indent=1)
print("merged registrations for", props)
