#!/usr/bin/env python3
"""Run the registered checks against the seeded breaking changes in /verif/seeded/<id>/.

  tools/seeded.py [--tier quick|thorough] [--only <seed-id>] [--props all]

For each seeded change: `git -C /repo apply patch.diff`, run `bin/check <prop> <tier>` for the property the
change breaks (or every claimed property with --props all), record exit code and VIOLATION lines,
then ALWAYS restore /repo (`git -C /repo checkout -- . && git -C /repo clean -fd tests/`).
Writes /verif/seeded/RESULTS.md.  /repo must be clean when this starts.
"""
import json, os, subprocess, sys, time

V = os.path.dirname(os.path.dirname(os.path.abspath(__file__)))
REPO = os.environ.get("SEED_REPO", "/repo")   # a copy may be used while other work builds against /repo
SEEDED = os.path.join(V, "seeded")

def sh(cmd, **kw):
    p = subprocess.run(cmd, stdout=subprocess.PIPE, stderr=subprocess.STDOUT, **kw)
    return p.returncode, p.stdout.decode("utf-8", "replace")

def main():
    tier = "quick"
    only = None
    allprops = False
    a = sys.argv[1:]
    while a:
        x = a.pop(0)
        if x == "--tier":
            tier = a.pop(0)
        elif x == "--only":
            only = a.pop(0)
        elif x == "--props":
            allprops = a.pop(0) == "all"
    rc, out = sh(["git", "-C", REPO, "status", "--porcelain", "--untracked-files=no"])
    dirty = [l for l in out.splitlines() if l.strip() and "elementsd-tests/bin" not in l]
    if dirty:
        print("refusing to run: /repo has local modifications:\n" + "\n".join(dirty))
        sys.exit(2)
    manifest = json.load(open(os.path.join(V, "MANIFEST.json")))
    claimed = [c["property_id"] for c in manifest["checks"]]
    rows = []
    for sid in sorted(os.listdir(SEEDED)):
        d = os.path.join(SEEDED, sid)
        patch = os.path.join(d, "patch.diff")
        if not os.path.isfile(patch) or (only and sid != only):
            continue
        meta = json.load(open(os.path.join(d, "meta.json")))
        prop = meta["property"]
        props = claimed if allprops else [prop]
        rc, out = sh(["git", "-C", REPO, "apply", patch])
        if rc != 0:
            rows.append((sid, prop, tier, "PATCH-FAILED", out.strip()[:200]))
            continue
        try:
            for p in props:
                if p not in claimed:
                    rows.append((sid, p, tier, "NOT-CLAIMED", ""))
                    continue
                t0 = time.time()
                rc, out = sh([os.path.join(V, "bin", "check"), p, tier], cwd=V)
                viol = [l for l in out.splitlines() if l.startswith("VIOLATION")]
                verdict = "CAUGHT" if rc == 1 and viol else ("MISSED" if rc == 0 else "ERROR rc=%d" % rc)
                kinds = sorted(set(l.split("(")[1].split(":")[0] for l in viol if "(" in l))
                rows.append((sid, p, tier, verdict, "%s %.0fs %s" % (",".join(kinds), time.time() - t0, (viol[0][:160] if viol else ""))))
                print(rows[-1])
        finally:
            sh(["git", "-C", REPO, "checkout", "--", "."])
            sh(["git", "-C", REPO, "clean", "-fdq", "tests/"])
    # after restoring, rebuild evidence of the touched properties on the clean tree is the caller's job
    with open(os.path.join(SEEDED, "RESULTS.md"), "a") as f:
        f.write("\n## run %s tier=%s\n\n| seeded change | property | tier | verdict | how |\n|---|---|---|---|---|\n" % (time.strftime("%Y-%m-%d %H:%M"), tier))
        for r in rows:
            f.write("| %s | %s | %s | %s | %s |\n" % tuple(str(x).replace("|", "/") for x in r))
    print("\n".join(" | ".join(map(str, r)) for r in rows))

if __name__ == "__main__":
    main()
