# Additional constant extraction blocks, exec'ed by tools/extract_consts.py with the helpers
# src(rel), num(tok), one(pattern, text, what), emit(line), die(msg), re in scope.
# Each block must `die` if an expected item is missing.

# ---------------------------------------------------------------- C06 / C17: address parameters with
# the human-readable parts as byte lists (kernel-friendly), src/address.rs
_a = src("src/address.rs")
emit("/-- `AddressParams` with the human-readable parts as ASCII byte lists -/")
emit("structure AddrParamsB where")
emit("  name : String")
emit("  p2pkh : Nat")
emit("  p2sh : Nat")
emit("  blinded : Nat")
emit("  bechHrp : List Nat")
emit("  blechHrp : List Nat")
emit("  deriving Repr, DecidableEq")
emit()
_nets = []
for _net in ("LIQUID", "ELEMENTS", "LIQUID_TESTNET"):
    _body = one(r"pub\s+const\s+%s\s*:\s*AddressParams\s*=\s*AddressParams\s*\{(.*?)\}\s*;" % _net, _a, "AddressParams::" + _net)
    _f = {}
    for _k in ("p2pkh_prefix", "p2sh_prefix", "blinded_prefix"):
        _f[_k] = num(one(r"\b%s\s*:\s*([^,]+)," % _k, _body, _net + "." + _k))
        if not (0 <= _f[_k] < 256):
            die("%s.%s out of u8 range" % (_net, _k))
    for _k in ("bech_hrp", "blech_hrp"):
        _h = one(r"\b%s\s*:\s*Hrp::parse_unchecked\(\s*\"([^\"]*)\"\s*\)" % _k, _body, _net + "." + _k)
        if not _h or any(ord(ch) < 33 or ord(ch) > 126 for ch in _h):
            die("%s.%s: unexpected hrp %r" % (_net, _k, _h))
        _f[_k] = "[" + ", ".join(str(ord(ch)) for ch in _h) + "]"
    _ln = "params" + "".join(w.capitalize() for w in _net.split("_")) + "B"
    _nets.append(_ln)
    emit('def %s : AddrParamsB := { name := "%s", p2pkh := %d, p2sh := %d, blinded := %d, bechHrp := %s, blechHrp := %s }'
         % (_ln, _net, _f["p2pkh_prefix"], _f["p2sh_prefix"], _f["blinded_prefix"], _f["bech_hrp"], _f["blech_hrp"]))
emit("def allParamsB : List AddrParamsB := [%s]" % ", ".join(_nets))
# the order in which `Address::from_str` tries the networks
_fs = one(r"impl\s+FromStr\s+for\s+Address\s*\{(.*?)\n\}", _a, "impl FromStr for Address")
_arr = one(r"let\s+net_arr\s*=\s*\[([^\]]*)\]\s*;", _fs, "from_str net_arr")
_order = [x.strip() for x in _arr.split(",") if x.strip()]
_short = {}
for _m in re.finditer(r"let\s+(\w+)\s*=\s*&AddressParams::(\w+)\s*;", _fs):
    _short[_m.group(1)] = _m.group(2)
try:
    _ordn = [_short[x] for x in _order]
except KeyError as e:
    die("from_str net_arr: unknown shorthand %s" % e)
if sorted(_ordn) != sorted(["LIQUID", "ELEMENTS", "LIQUID_TESTNET"]):
    die("from_str net_arr: expected the three networks, got %r" % (_ordn,))
emit("/-- the order in which `Address::from_str` tries the networks -/")
emit("def fromStrOrder : List AddrParamsB := [%s]" % ", ".join("params" + "".join(w.capitalize() for w in n.split("_")) + "B" for n in _ordn))
emit()
