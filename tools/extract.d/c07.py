# exec'ed by tools/extract_consts.py with helpers src, num, one, emit, die, re.
# ---------------------------------------------------------------- C07: PSET wire format (src/pset/**)
# Emits, in namespace EV.Gen.PsetWire:
#   * every key-type constant of global.rs / input.rs / output.rs (value only),
#   * the EMISSION ORDER of the three `get_pairs` (field, mode, type byte or proprietary subtype),
#   * the ROUTING of the three `insert_pair` (type byte | subtype -> field, Rust key type, Rust value type),
#   * magic, separator, the 10 000 cap, the ELIP-100/102 prefixes and key types.
# The model's field tables (lean/EV/Model/PsetTables.lean) are compared with these lists by `decide`
# (EV.Props.C07.tables_match_source), so a reordered emission or a re-routed key type breaks a theorem.
def _c07():
    def consts(text, where):
        d = {}
        for name, val in re.findall(r"const\s+((?:PSET|PSBT)_[A-Z0-9_]+)\s*:\s*u8\s*=\s*([^;]+);", text):
            if name in d:
                die("%s: constant %s defined twice" % (where, name))
            d[name] = num(val)
        if not d:
            die("%s: no key type constants found" % where)
        return d

    def body_of(text, header, where):
        # the body of `fn <header>(...) ... {` up to the matching brace
        m = re.search(header, text)
        if not m:
            die("%s: %s not found" % (where, header))
        i = text.index("{", m.end())
        depth, j = 0, i
        while j < len(text):
            if text[j] == "{":
                depth += 1
            elif text[j] == "}":
                depth -= 1
                if depth == 0:
                    return text[i + 1:j]
            j += 1
        die("%s: unbalanced braces after %s" % (where, header))

    def emission(text, cs, where, extra):
        body = body_of(text, r"fn\s+get_pairs\s*\(", where + " get_pairs")
        items = []
        pat = re.compile(
            r"rv\.(push|push_prop|push_mandatory)\(\s*(?:self\.)?(\w+)\s+as\s+<\s*(\w+)\s*,\s*([^>]*(?:<[^>]*>)?[^>]*)>\s*\)"
            r"|type_value\s*:\s*(\w+)\s*,\s*key\s*:\s*vec!\[\]\s*,?\s*\}\s*,\s*value\s*:\s*[\w:]*serialize\(\s*&\s*self\.(\w+)\s*\)"
            r"|(" + "|".join(re.escape(e[0]) for e in extra) + r")", re.S)
        for m in pat.finditer(body):
            if m.group(1):
                mode, field, cname, kty = m.group(1), m.group(2), m.group(3), m.group(4).strip()
                if cname not in cs:
                    die("%s get_pairs: unknown constant %s" % (where, cname))
                if mode == "push":
                    mode = "plain" if kty == "_" else "keyed"
                elif mode == "push_prop":
                    mode = "prop"
                else:
                    mode = "mandatory"
                items.append((field, mode, cs[cname]))
            elif m.group(5):
                if m.group(5) not in cs:
                    die("%s get_pairs: unknown constant %s" % (where, m.group(5)))
                items.append((m.group(6), "mandatory", cs[m.group(5)]))
            else:
                for marker, field, mode, cname in extra:
                    if m.group(7) == marker:
                        items.append((field, mode, cs[cname] if cname else 0))
        return items

    def routing(text, cs, where):
        body = body_of(text, r"fn\s+insert_pair\s*\(", where + " insert_pair")
        rows = []
        for m in re.finditer(r"(\w+)\s*=>\s*\{\s*impl_pset_(prop_)?insert_pair!\s*[\(\{]\s*self\.(\w+)\s*<=\s*<\s*raw_key\s*:\s*([^>]*(?:<[^>]*>)?[^>|]*?)\s*>\s*\|\s*<\s*raw_value\s*:\s*(.*?)\s*>\s*[\)\}]", body, re.S):
            cname, prop, field, kty, vty = m.groups()
            if cname not in cs:
                die("%s insert_pair: unknown constant %s" % (where, cname))
            rows.append((cs[cname], bool(prop), field, re.sub(r"\s+", "", kty), re.sub(r"\s+", "", vty)))
        for m in re.finditer(r"(\w+)\s*=>\s*\{\s*pset_insert_hash_pair::<\s*(\w+)::HashEngine\s*>\(\s*&mut\s+self\.(\w+)", body, re.S):
            cname, eng, field = m.groups()
            rows.append((cs[cname], False, field, "hash:" + eng, "Vec<u8>"))
        if not rows:
            die("%s insert_pair: no routing arms found" % where)
        return sorted(rows, key=lambda r: (r[1], r[0]))

    def lname(c):
        p = c.lower().split("_")
        return p[0] + "".join(w.capitalize() for w in p[1:])

    def emit_list(name, items):
        emit("def %s : List (String × String × Nat) := [" % name)
        emit(",\n".join('  ("%s", "%s", %d)' % it for it in items) + "]")

    def emit_routing(name, rows):
        emit("def %s : List (Nat × Bool × String × String × String) := [" % name)
        emit(",\n".join('  (%d, %s, "%s", "%s", "%s")' % (r[0], "true" if r[1] else "false", r[2], r[3], r[4]) for r in rows) + "]")

    g = src("src/pset/map/global.rs")
    i = src("src/pset/map/input.rs")
    o = src("src/pset/map/output.rs")
    cg, ci, co = consts(g, "global.rs"), consts(i, "input.rs"), consts(o, "output.rs")
    emit("namespace PsetWire")
    for d in (cg, ci, co):
        for k in sorted(d):
            emit("def %s : Nat := %d" % (lname(k), d[k]))
    common = [("for (key, value) in &self.proprietary", "proprietary", "propAny", None),
              ("for (key, value) in &self.unknown", "unknown", "unkAny", None)]
    ge = emission(g, cg, "global.rs", [
        ("for (xpub, (fingerprint, derivation)) in &self.xpub", "xpub", "keyed", "PSET_GLOBAL_XPUB"),
        ("for scalar in &self.scalars", "scalars", "propkeyed", "PSBT_ELEMENTS_GLOBAL_SCALAR")] + common)
    _gn = {"version": "tx_version", "input_count_vint": "input_count", "output_count_vint": "output_count", "ver": "version"}
    ge = [(_gn.get(f, f), m_, v) for (f, m_, v) in ge]   # local variable names of Global::get_pairs -> field names
    ie = emission(i, ci, "input.rs", common)
    oe = emission(o, co, "output.rs", common)
    if len(ge) != 11 or len(ie) != 48 or len(oe) != 20:
        die("get_pairs: expected 11/48/20 emitted fields, found %d/%d/%d" % (len(ge), len(ie), len(oe)))
    emit_list("globalEmit", ge)
    emit_list("inputEmit", ie)
    emit_list("outputEmit", oe)
    emit_routing("inputRouting", routing(i, ci, "input.rs"))
    emit_routing("outputRouting", routing(o, co, "output.rs"))
    # top level: magic, separator, caps
    m = src("src/pset/mod.rs")
    body = body_of(m, r"impl\s+Encodable\s+for\s+PartiallySignedTransaction", "mod.rs Encodable")
    magic = one(r'b"([a-z]+)"\.consensus_encode', body, "magic")
    sep = num(one(r"(0x[0-9a-fA-F]+)_u8\.consensus_encode", body, "separator"))
    emit("def magic : List Nat := [%s]" % ", ".join(str(ord(c)) for c in magic))
    emit("def separator : Nat := %d" % sep)
    caps = [num(x) for x in re.findall(r"(?:inputs_len|outputs_len)\s*>\s*([0-9_]+)", m)]
    if len(caps) != 2 or caps[0] != caps[1]:
        die("pset/mod.rs: input/output count caps not found")
    emit("def maxMaps : Nat := %d" % caps[0])
    if not re.search(r"if\s+version\s*!=\s*2\s*\{", g):
        die("global.rs: PSET version check `version != 2` not found")
    emit("def psetVersion : Nat := 2")
    r = src("src/pset/raw.rs")
    pfx = one(r'prefix\s*==\s*"([a-z_]+)"\.as_bytes\(\)', r, "is_pset_key prefix")
    emit("def psetPrefix : List Nat := [%s]" % ", ".join(str(ord(c)) for c in pfx))
    emit("def proprietaryType : Nat := %d" % num(one(r"key\.type_value\s*!=\s*(0x[0-9a-fA-F]+)", r, "from_key type byte")))
    e1 = src("src/pset/elip100.rs")
    emit("def hwwAssetMetadata : Nat := %d" % num(one(r"pub\s+const\s+PSBT_ELEMENTS_HWW_GLOBAL_ASSET_METADATA\s*:\s*u8\s*=\s*([^;]+);", e1, "ELIP100 asset keytype").replace("u8", "")))
    emit("def hwwReissuanceToken : Nat := %d" % num(one(r"pub\s+const\s+PSBT_ELEMENTS_HWW_GLOBAL_REISSUANCE_TOKEN\s*:\s*u8\s*=\s*([^;]+);", e1, "ELIP100 token keytype").replace("u8", "")))
    hp = one(r'pub\s+const\s+PSET_HWW_PREFIX\s*:\s*&\[u8\]\s*=\s*b"([a-z_]+)"', e1, "ELIP100 prefix")
    emit("def hwwPrefix : List Nat := [%s]" % ", ".join(str(ord(c)) for c in hp))
    e2 = src("src/pset/elip102.rs")
    emit("def liquidexInAbf : Nat := %d" % num(one(r"pub\s+const\s+PSBT_ELEMENTS_LIQUIDEX_IN_ABF\s*:\s*u8\s*=\s*([^;]+);", e2, "ELIP102 in keytype").replace("u8", "")))
    emit("def liquidexOutAbf : Nat := %d" % num(one(r"pub\s+const\s+PSBT_ELEMENTS_LIQUIDEX_OUT_ABF\s*:\s*u8\s*=\s*([^;]+);", e2, "ELIP102 out keytype").replace("u8", "")))
    lp = one(r'pub\s+const\s+PSET_LIQUIDEX_PREFIX\s*:\s*&\[u8\]\s*=\s*b"([a-z_]+)"', e2, "ELIP102 prefix")
    emit("def liquidexPrefix : List Nat := [%s]" % ", ".join(str(ord(c)) for c in lp))
    emit("end PsetWire")
    emit()
_c07()
