# exec'ed by tools/extract_consts.py with helpers src, num, one, emit, die, re.

# ---------------------------------------------------------------- C09: PSET blinding (src/blind.rs)
def _c09_psetblind():
    b = src("src/blind.rs")
    emit("namespace PsetBlind")
    # values below this cannot be blinded: `Value::blind_with_shared_secret` returns
    # Err(Upstream(CannotMakeRangeProof)) before committing
    v = num(one(r"pub\s+const\s+RANGEPROOF_MIN_VALUE\s*:\s*u64\s*=\s*([^;]+);", b, "TxOut::RANGEPROOF_MIN_VALUE"))
    emit("def rangeproofMinValue : Nat := %d" % v)
    emit("end PsetBlind")
    emit()
_c09_psetblind()
