# exec'ed by tools/extract_consts.py with helpers src, num, one, emit, die, re.
# Each property adds one clearly delimited block; a block must `die` if an item is missing.

# ---------------------------------------------------------------- C03/C13: sighash constants
# (src/taproot.rs tags + leaf version, src/transaction.rs / src/sighash.rs hash-type bytes, key version)
def _c03_block():
    t = src("src/taproot.rs")
    for struct, lname in (("TapLeafTag", "tapLeafTag"), ("TapBranchTag", "tapBranchTagSighash"),
                          ("TapTweakTag", "tapTweakTagSighash"), ("TapSighashTag", "tapSighashTag")):
        tag = one(r"pub\s+struct\s+%s\s*=\s*hash_str\(\s*\"([^\"]*)\"\s*\)\s*;" % struct, t, "sha256t tag " + struct)
        if struct in ("TapLeafTag", "TapSighashTag"):
            emit('def %s : String := "%s"' % (lname, tag))
    lv = num(one(r"pub\s+const\s+TAPROOT_LEAF_TAPSCRIPT\s*:\s*u8\s*=\s*([^;]+);", t, "TAPROOT_LEAF_TAPSCRIPT"))
    emit("def tapLeafTapscript : Nat := 0x%x" % lv)
    s = src("src/sighash.rs")
    kv = num(one(r"const\s+KEY_VERSION_0\s*:\s*u8\s*=\s*([^;]+);", s, "KEY_VERSION_0"))
    emit("def sighashKeyVersion0 : Nat := %d" % kv)
    body = one(r"pub\s+enum\s+SchnorrSighashType\s*\{(.*?)\n\}", s, "enum SchnorrSighashType")
    want = ["Default", "All", "None", "Single", "AllPlusAnyoneCanPay", "NonePlusAnyoneCanPay", "SinglePlusAnyoneCanPay", "Reserved"]
    got = re.findall(r"^\s*([A-Za-z]+)\s*=\s*(0x[0-9a-fA-F]+|\d+)\s*,", re.sub(r"///[^\n]*", "", body), flags=re.M)
    if [g[0] for g in got] != want:
        die("SchnorrSighashType variants changed: %r" % (got,))
    for name, v in got:
        emit("def schnorr%s : Nat := 0x%x" % (name, num(v)))
    # from_u8 table
    fb = one(r"pub\s+fn\s+from_u8\s*\(\s*hash_ty\s*:\s*u8\s*\)\s*->\s*Option<Self>\s*\{(.*?)\n    \}", s, "SchnorrSighashType::from_u8")
    tab = re.findall(r"(0x[0-9a-fA-F]+)\s*=>\s*Some\(SchnorrSighashType::([A-Za-z]+)\)", fb)
    if len(tab) != 7:
        die("SchnorrSighashType::from_u8: expected 7 arms, found %d" % len(tab))
    emit("def schnorrFromU8Table : List (Nat × String) := [%s]" % ", ".join('(0x%x, "%s")' % (num(a), b) for a, b in tab))
    x = src("src/transaction.rs")
    body = one(r"pub\s+enum\s+EcdsaSighashType\s*\{(.*?)\n\}", x, "enum EcdsaSighashType")
    want = ["All", "None", "Single", "AllPlusAnyoneCanPay", "NonePlusAnyoneCanPay", "SinglePlusAnyoneCanPay"]
    got = re.findall(r"^\s*([A-Za-z]+)\s*=\s*(0x[0-9a-fA-F]+|\d+)\s*,", re.sub(r"///[^\n]*", "", body), flags=re.M)
    if [g[0] for g in got] != want:
        die("EcdsaSighashType variants changed: %r" % (got,))
    for name, v in got:
        emit("def ecdsa%s : Nat := 0x%x" % (name, num(v)))
    # the SIGHASH_SINGLE out-of-range constant written by encode_legacy_signing_data_to
    lb = one(r"fn\s+encode_legacy_signing_data_to\b(.*?)\n    \}", s, "encode_legacy_signing_data_to")
    arr = one(r"writer\.write_all\(\s*&\[([0-9,\s]+)\]\s*\)", lb, "legacy SIGHASH_SINGLE constant")
    vals = [num(v) for v in arr.split(",") if v.strip()]
    if len(vals) != 32:
        die("legacy SIGHASH_SINGLE constant: expected 32 bytes, found %d" % len(vals))
    emit("def legacySingleBugConst : List UInt8 := [%s]" % ", ".join(str(v) for v in vals))
    # outpoint flag shifts (src/transaction.rs: TxIn::outpoint_flag)
    of = one(r"pub\s+fn\s+outpoint_flag\s*\(&self\)\s*->\s*u8\s*\{(.*?)\n    \}", x, "TxIn::outpoint_flag")
    m = re.search(r"u8::from\(self\.is_pegin\)\s*<<\s*(\d+)\)\s*\|\s*\(u8::from\(self\.has_issuance\(\)\)\s*<<\s*(\d+)\)", of)
    if not m:
        die("TxIn::outpoint_flag: unexpected shape")
    emit("def outpointFlagPeginShift : Nat := %s" % m.group(1))
    emit("def outpointFlagIssuanceShift : Nat := %s" % m.group(2))
    emit()
_c03_block()
