# exec'ed by tools/extract_consts.py (helpers: src, num, one, emit, die, re).
# ---------------------------------------------------------------- C12 (model growth): transaction accessors (src/transaction.rs)
# Sequence constants and masks, the 512 second granularity, the shape constants of the pegin witness
# (`<&[Vec<u8>; 6]>`, `split_first_chunk::<80>`) and the shifts of `TxIn::outpoint_flag`.
def _c12_txacc_block():
    t = src("src/transaction.rs")
    emit("/- C12 (EV.Model.TxAccessors): Sequence constants, pegin witness shape, outpoint flag bits (src/transaction.rs) -/")
    seq = one(r"\nimpl\s+Sequence\s*\{(.*?)\n\}", t, "impl Sequence")
    for rust, lean in (("MAX", "txaccSeqMax"), ("ZERO", "txaccSeqZero"),
                       ("ENABLE_RBF_NO_LOCKTIME", "txaccSeqEnableRbfNoLocktime"), ("MIN_NO_RBF", "txaccSeqMinNoRbf")):
        v = num(one(r"const\s+%s\s*:\s*Self\s*=\s*Sequence\(\s*([0-9a-fA-Fx_]+)\s*\)\s*;" % rust, seq, "Sequence::" + rust))
        if not 0 <= v < 2 ** 32:
            die("Sequence::%s out of u32 range" % rust)
        emit("def %s : Nat := 0x%08x" % (lean, v))
    if one(r"const\s+ENABLE_LOCKTIME_NO_RBF\s*:\s*Self\s*=\s*Sequence::(\w+)\s*;", seq, "Sequence::ENABLE_LOCKTIME_NO_RBF") != "MIN_NO_RBF":
        die("Sequence::ENABLE_LOCKTIME_NO_RBF is no longer MIN_NO_RBF")
    for rust, lean in (("LOCK_TIME_DISABLE_FLAG_MASK", "txaccSeqLockTimeDisableFlagMask"), ("LOCK_TYPE_MASK", "txaccSeqLockTypeMask")):
        v = num(one(r"const\s+%s\s*:\s*u32\s*=\s*([^;]+);" % rust, seq, "Sequence::" + rust))
        emit("def %s : Nat := 0x%08x" % (lean, v))
    fl = num(one(r"fn\s+from_seconds_floor\b.*?seconds\s*/\s*([0-9_]+)", seq, "from_seconds_floor granularity"))
    ce = num(one(r"fn\s+from_seconds_ceil\b.*?seconds\.div_ceil\(\s*([0-9_]+)\s*\)", seq, "from_seconds_ceil granularity"))
    if fl != ce:
        die("from_seconds_floor / from_seconds_ceil use different granularities")
    emit("def txaccSeqSecondsPerInterval : Nat := %d" % fl)
    pw = one(r"pub\s+fn\s+from_pegin_witness\s*\((.*?)\n    \}", t, "PeginData::from_pegin_witness")
    emit("def txaccPeginWitnessItems : Nat := %d" % num(one(r"<&\[Vec<u8>;\s*([0-9_]+)\s*\]>::try_from", pw, "pegin witness item count")))
    emit("def txaccPeginHeaderLen : Nat := %d" % num(one(r"split_first_chunk::<\s*([0-9_]+)\s*>", pw, "pegin merkle proof header length")))
    idxs = [num(x) for x in re.findall(r"pegin_witness\[(\d+)\]", pw)]
    if idxs != [5, 0, 1, 2, 3, 4, 5]:
        die("from_pegin_witness: the witness items are no longer read as [5] (header), [0] value, [1] asset, [2] genesis, [3] claim script, [4] tx, [5] proof")
    of = one(r"pub\s+fn\s+outpoint_flag\s*\(&self\)\s*->\s*u8\s*\{(.*?)\n    \}", t, "TxIn::outpoint_flag")
    emit("def txaccPeginFlagShift : Nat := %d" % num(one(r"u8::from\(self\.is_pegin\)\s*<<\s*([0-9]+)", of, "outpoint_flag pegin shift")))
    emit("def txaccIssuanceFlagShift : Nat := %d" % num(one(r"u8::from\(self\.has_issuance\(\)\)\s*<<\s*([0-9]+)", of, "outpoint_flag issuance shift")))
    emit()
_c12_txacc_block()
