# exec'ed by tools/extract_consts.py (helpers: src, num, one, emit, die, re) AFTER c17.py (file-name order), which
# emits `AddrParamsB` and the three parameter sets this block refers to.
# Address conversions and constructors (src/address.rs) — model growth of C06, EV.Model.AddressOps:
#   * which parameter set `Address::is_liquid` compares with, and the field list of `AddressParams` that the derived
#     `PartialEq` compares (the model's `paramsEq` compares exactly these);
#   * the witness-version constant (`Fe32::<LETTER>`) each segwit constructor writes, as the ASCII code of the
#     bech32 character that names the field element (the model turns it into a number with its own charset table);
#   * the integer `p2shwpkh` / `p2shwsh` push in front of the nested witness program;
#   * the `expect` message of the compressed-key requirement of `p2wpkh` / `p2shwpkh`.

def _addrops_block():
    a = src("src/address.rs")
    emit("/- address conversions / constructors (src/address.rs): EV.Model.AddressOps -/")

    def fn_body(name):
        # body of `pub fn <name>` inside `impl Address` (4-space indented closing brace)
        return one(r"pub\s+fn\s+%s\b[^{]*\{(.*?)\n    \}" % name, a, "Address::" + name)

    # ---- is_liquid
    body = fn_body("is_liquid")
    net = one(r"self\.params\s*==\s*&AddressParams::(\w+)", body, "comparison in Address::is_liquid")
    if net not in ("LIQUID", "ELEMENTS", "LIQUID_TESTNET"):
        die("Address::is_liquid compares with an unknown parameter set %r" % net)
    if re.sub(r"\s+", "", body) != "self.params==&AddressParams::%s" % net:
        die("Address::is_liquid has an unexpected body: %r" % body.strip())
    emit("/-- the parameter set `Address::is_liquid` compares `self.params` with (by value: derived `PartialEq`) -/")
    emit("def isLiquidParams : AddrParamsB := params%sB" % "".join(w.capitalize() for w in net.split("_")))

    # ---- the fields of AddressParams and its derived PartialEq
    m = one(r"#\[derive\(([^)]*)\)\]\s*pub\s+struct\s+AddressParams\s*\{(.*?)\n\}", a, "struct AddressParams")
    derives, sbody = m
    if "PartialEq" not in [d.strip() for d in derives.split(",")]:
        die("AddressParams no longer derives PartialEq (is_liquid is modelled as field-wise equality)")
    fields = re.findall(r"pub\s+(\w+)\s*:\s*([\w:]+)\s*,", sbody)
    if not fields:
        die("struct AddressParams: no fields found")
    emit("/-- the fields of `struct AddressParams` with their types, in declaration order (derived `PartialEq` compares all) -/")
    emit("def addressParamsFields : List (String × String) := [%s]" % ", ".join('("%s", "%s")' % f for f in fields))

    # ---- witness version constants of the constructors
    def fe32_letter(fn, expect_count):
        letters = re.findall(r"version\s*:\s*Fe32::([A-Z0-9_]+)\s*,", fn_body(fn))
        if len(letters) != expect_count or len(set(letters)) != 1:
            die("Address::%s: expected %d `version: Fe32::X` with one letter, found %r" % (fn, expect_count, letters))
        l = letters[0]
        if len(l) == 2 and l[0] == "_":   # digits are spelled `_2` … `_9`
            l = l[1]
        if len(l) != 1:
            die("Address::%s: unexpected Fe32 constant %r" % (fn, letters[0]))
        return l.lower()
    for fn, lname in (("p2wpkh", "p2wpkhVersionChar"), ("p2wsh", "p2wshVersionChar"), ("p2tr", "p2trVersionChar"),
                      ("p2tr_tweaked", "p2trTweakedVersionChar")):
        ch = fe32_letter(fn, 1)
        emit("/-- `Address::%s` writes `version: Fe32::%s`: ASCII code of the bech32 character of that field element -/" % (fn, ch.upper()))
        emit("def %s : Nat := %d" % (lname, ord(ch)))

    # ---- the nested-segwit constructors push this integer before the hash
    for fn, lname in (("p2shwpkh", "p2shwpkhPushInt"), ("p2shwsh", "p2shwshPushInt")):
        v = one(r"\.push_int\(\s*([^)]+?)\s*\)", fn_body(fn), "push_int in Address::" + fn)
        emit("/-- `Address::%s`: `Builder::new().push_int(%s).push_slice(hash)` -/" % (fn, v))
        emit("def %s : Int := %d" % (lname, num(v)))

    # ---- the compressed-key requirement
    msgs = set()
    for fn in ("p2wpkh", "p2shwpkh"):
        msgs.add(one(r"wpubkey_hash\(\)\s*\.expect\(\s*\"([^\"\\]*)\"\s*\)", fn_body(fn), "expect message of Address::" + fn))
    if len(msgs) != 1:
        die("p2wpkh / p2shwpkh: different expect messages %r" % (msgs,))
    emit("/-- `pk.wpubkey_hash().expect(..)` in `Address::p2wpkh` / `p2shwpkh` -/")
    emit('def p2wpkhExpectMsg : String := "%s"' % msgs.pop())
    emit()

_addrops_block()
