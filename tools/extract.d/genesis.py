# exec'ed by tools/extract_consts.py (helpers: src, num, one, emit, die, re).
# ---------------------------------------------------------------- genesis (C02 extension): src/genesis.rs
# Everything literal in `NetworkParams::{liquidv1, liquidtestnet, custom_network}`, `liquid_genesis_tx`,
# `liquid_genesis_asset_tx`, `genesis_block` and the two `ChainHash` constants.  Script-valued fields must
# have one of the two shapes `Script::from_hex_no_prefix("<hex>")` (emitted as the byte list) or
# `script::Builder::new().push_opcode(<OP>).into_script()` (emitted as the opcode byte, the model runs its
# `Builder`); any other shape aborts.
def _genesis_block():
    g = src("src/genesis.rs")
    ops = src("src/opcodes.rs")
    tx = src("src/transaction.rs")
    ht = src("src/hash_types.rs")

    def fn_body(name, sig):
        return one(r"fn\s+%s\s*\(%s\)\s*->\s*[^{]+\{(.*?)\n    \}" % (name, sig), g, "genesis.rs fn " + name)

    def top_fn_body(name):
        return one(r"\nfn\s+%s\s*\([^)]*\)\s*->\s*[^{]+\{(.*?)\n\}" % name, g, "genesis.rs fn " + name)

    def opcode(name):
        # `pub static OP_X: All = all::OP_Y;` alias, or a constant of `pub mod all`
        m = re.findall(r"pub\s+static\s+%s\s*:\s*All\s*=\s*all::(\w+)\s*;" % name, ops)
        if len(m) == 1:
            name = m[0]
        v = num(one(r"pub\s+const\s+%s\s*:\s*All\s*=\s*All\s*\{\s*code\s*:\s*([^}]+?)\s*\}\s*;" % name, ops, "opcodes " + name))
        if not 0 <= v <= 255:
            die("opcode %s out of range" % name)
        return v

    def bytelist(bs):
        return "[" + ", ".join(str(x) for x in bs) + "]"

    def field(body, name, what):
        # the expression after `name:` up to the next field / end of the struct literal
        return one(r"\b%s\s*:\s*(.*?)\s*,\s*(?=\n\s*(?:\w+\s*:|\}))" % name, body + "\n}", what + "." + name).strip()

    HEXFORM = r'Script::from_hex_no_prefix\(\s*"([0-9a-fA-F]*)"\s*\)\s*\.expect\(\s*"[^"]*"\s*\)'
    OPFORM = r"script::Builder::new\(\)\s*\.push_opcode\(\s*(\w+)\s*\)\s*\.into_script\(\)"

    def script_field(body, fname, what, lean):
        e = field(body, fname, what)
        m = re.fullmatch(HEXFORM, e, re.S)
        if m:
            h = m.group(1)
            if len(h) % 2:
                die("%s.%s: odd hex length" % (what, fname))
            emit("def %s : List Nat := %s" % (lean, bytelist(bytes.fromhex(h))))
            return "hex"
        m = re.fullmatch(OPFORM, e, re.S)
        if m:
            emit("/-- `%s` (one `push_opcode` on a new `Builder`) -/" % m.group(1))
            emit("def %sOpcode : UInt8 := 0x%02x" % (lean, opcode(m.group(1))))
            return "op"
        die("%s.%s: unexpected shape %r" % (what, fname, e[:80]))

    emit("/- genesis: src/genesis.rs (network parameters, genesis transactions/block, chain hashes) -/")
    shapes = {}
    for net in ("liquidv1", "liquidtestnet"):
        body = fn_body(net, r"\s*")
        lit = one(r"NetworkParams\s*\{(.*)\}", body, net + " struct literal")
        nid = one(r'"([^"\\]*)"\s*\.to_string\(\)', field(lit, "network_id", net), net + ".network_id")
        lname = "genesis" + net.capitalize()
        emit('/-- `NetworkParams::%s().network_id` = "%s" (UTF-8 bytes) -/' % (net, nid))
        emit("def %sNetworkId : List Nat := %s" % (lname, bytelist(nid.encode("utf-8"))))
        shapes[net] = (script_field(lit, "fedpeg_script", net, lname + "Fedpeg"),
                       script_field(lit, "sign_block_script", net, lname + "SignBlock"))
        emit("def %sCoins : Nat := %d" % (lname, num(field(lit, "initial_free_coins", net))))
    # the model (EV.Model.Genesis) is written for these shapes
    if shapes != {"liquidv1": ("hex", "hex"), "liquidtestnet": ("op", "hex")}:
        die("genesis.rs: the built-in parameter sets changed shape: %r" % (shapes,))

    # custom_network defaults
    cn = fn_body("custom_network", r"[^)]*")
    for fld, lean in (("fedpeg_script", "genesisCustomFedpegDefaultOpcode"), ("sign_block_script", "genesisCustomSignBlockDefaultOpcode")):
        opn = one(r"\b%s\s*:\s*%s\.unwrap_or_else\(\s*\|\|\s*%s\s*\)" % (fld, fld, OPFORM), cn, "custom_network default " + fld)
        emit("def %s : UInt8 := 0x%02x" % (lean, opcode(opn)))
    emit("def genesisCustomCoinsDefault : Nat := %d" % num(one(r"initial_free_coins\s*:\s*initial_free_coins\.unwrap_or\(([^)]+)\)", cn, "custom_network default coins")))

    # liquid_genesis_tx
    t = top_fn_body("liquid_genesis_tx")
    one(r"previous_output\s*:\s*OutPoint::default\(\)", t, "genesis tx: null outpoint")
    one(r"script_sig\s*:\s*script::Builder::new\(\)\s*\.push_slice\(\s*commit\.as_byte_array\(\)\s*\)\s*\.into_script\(\)", t, "genesis tx: scriptSig = push of the commitment")
    one(r"sequence\s*:\s*Sequence::default\(\)", t, "genesis tx: default sequence")
    one(r"asset_issuance\s*:\s*AssetIssuance::default\(\)", t, "genesis tx: no issuance")
    one(r"asset\s*:\s*confidential::Asset::Explicit\(\s*AssetId::default\(\)\s*\)", t, "genesis tx: output asset")
    one(r"nonce\s*:\s*Nonce::default\(\)", t, "genesis tx: output nonce")
    one(r"lock_time\s*:\s*LockTime::ZERO", t, "genesis tx: lock time")
    emit("def genesisTxVersion : Nat := %d" % num(one(r"\bversion\s*:\s*([^,]+),", t, "genesis tx version")))
    emit("def genesisTxOutValue : Nat := %d" % num(one(r"value\s*:\s*confidential::Value::Explicit\(([^)]+)\)", t, "genesis tx output value")))
    emit("def genesisTxOutOpcode : UInt8 := 0x%02x" % opcode(one(r"script_pubkey\s*:\s*%s" % OPFORM, t, "genesis tx output script")))

    # liquid_genesis_asset_tx
    a = top_fn_body("liquid_genesis_asset_tx")
    one(r"if\s+asset_amount\s*==\s*0\s*\{\s*return\s+None\s*;\s*\}", a, "asset tx: None for zero coins")
    emit("def genesisAssetVout : Nat := %d" % num(one(r"OutPoint::new\(\s*Txid::from_byte_array\(\s*commit\.to_byte_array\(\)\s*\)\s*,\s*([^)]+)\)", a, "asset tx outpoint")))
    emit("def genesisAssetContractByte : Nat := %d" % num(one(r"ContractHash::from_byte_array\(\s*\[\s*([^;\]]+);\s*32\s*\]\s*\)", a, "asset tx contract hash")))
    emit("def genesisAssetEntropyByte : Nat := %d" % num(one(r"asset_entropy\s*:\s*\[\s*([^;\]]+);\s*32\s*\]", a, "asset tx issuance entropy")))
    one(r"asset_blinding_nonce\s*:\s*Tweak::default\(\)", a, "asset tx: zero blinding nonce")
    one(r"amount\s*:\s*confidential::Value::Explicit\(\s*asset_amount\s*\)", a, "asset tx: issuance amount")
    one(r"value\s*:\s*confidential::Value::Explicit\(\s*asset_amount\s*\)", a, "asset tx: output value")
    one(r"asset\s*:\s*confidential::Asset::Explicit\(\s*asset_id\s*\)", a, "asset tx: output asset")
    one(r"script_sig\s*:\s*Script::new\(\)", a, "asset tx: empty scriptSig")
    one(r"lock_time\s*:\s*LockTime::ZERO", a, "asset tx: lock time")
    emit("def genesisAssetInflationKeys : Nat := %d" % num(one(r"inflation_keys\s*:\s*confidential::Value::Explicit\(([^)]+)\)", a, "asset tx inflation keys")))
    emit("def genesisAssetTxVersion : Nat := %d" % num(one(r"\bversion\s*:\s*([^,]+),", a, "asset tx version")))
    emit("def genesisAssetTxOutOpcode : UInt8 := 0x%02x" % opcode(one(r"script_pubkey\s*:\s*%s" % OPFORM, a, "asset tx output script")))

    # genesis_block header
    b = one(r"\npub\s+fn\s+genesis_block\s*\([^)]*\)\s*->\s*Block\s*\{(.*?)\n\}", g, "genesis_block")
    hdr = one(r"header\s*:\s*BlockHeader\s*\{(.*?)\n        \}", b, "genesis_block header literal")
    emit("def genesisHeaderVersion : Nat := %d" % num(field(hdr, "version", "header")))
    emit("def genesisHeaderTime : Nat := %d" % num(field(hdr, "time", "header")))
    emit("def genesisHeaderHeight : Nat := %d" % num(field(hdr, "height", "header")))
    one(r"prev_blockhash\s*:\s*BlockHash::GENESIS_PREVIOUS_BLOCK_HASH", hdr, "header prev hash")
    one(r"challenge\s*:\s*params\.sign_block_script\.clone\(\)", hdr, "header challenge")
    one(r"solution\s*:\s*Script::default\(\)", hdr, "header solution")
    emit("def genesisPrevBlockHashByte : Nat := %d" % num(one(
        r"pub\s+const\s+GENESIS_PREVIOUS_BLOCK_HASH\s*:\s*Self\s*=\s*Self::from_byte_array\(\s*\[\s*([^;\]]+);\s*32\s*\]\s*\)", ht, "GENESIS_PREVIOUS_BLOCK_HASH")))

    # Sequence::default() = Sequence::MAX
    one(r"impl\s+Default\s+for\s+Sequence\s*\{\s*fn\s+default\(\)\s*->\s*Self\s*\{\s*Sequence::MAX\s*\}", tx, "Sequence::default = MAX")
    emit("def sequenceMax : Nat := 0x%x" % num(one(r"pub\s+const\s+MAX\s*:\s*Self\s*=\s*Sequence\(([^)]+)\)", tx, "Sequence::MAX")))

    # ChainHash constants
    for cname, lean in (("LIQUIDV1", "chainHashLiquidv1"), ("LIQUIDTESTNET", "chainHashLiquidtestnet")):
        body = one(r"pub\s+const\s+%s\s*:\s*Self\s*=\s*Self\(\s*\[(.*?)\]\s*\)\s*;" % cname, g, "ChainHash::" + cname)
        v = [num(x) for x in body.split(",") if x.strip()]
        if len(v) != 32 or any(x < 0 or x > 255 for x in v):
            die("ChainHash::%s: expected 32 bytes" % cname)
        emit("def %s : List Nat := %s" % (lean, bytelist(v)))
    emit()
_genesis_block()
