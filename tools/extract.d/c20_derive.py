# C20 (derived serde impls): exec'ed by tools/extract_consts.py with helpers src, num, one, emit, die, re.
# Emits into EV.Gen a table `serdeDerive` of EVERY item in /repo that carries
# `derive(serde::Serialize, serde::Deserialize)`: its shape (struct with named fields / newtype struct / enum
# with newtype variants), the fields in declaration order with their serde key (`rename`), type and the serde
# attributes that are used in /repo (`with = "…"`, `flatten`). A `#[serde(flatten)]`ed field is INLINED (its own
# fields, read from its own item) and the struct is marked `flat` (serde_derive then writes a map and reads
# `visit_map` only). Adding, removing, reordering, renaming or retyping a field therefore changes the Lean model.
# The block dies on anything it does not understand (unknown attribute, unknown type name, tuple struct, …).

def _c20_derive():
    FILES = ["src/blind.rs", "src/schnorr.rs", "src/taproot.rs", "src/transaction.rs", "src/locktime.rs",
             "src/pset/mod.rs", "src/pset/map/output.rs", "src/pset/map/input.rs", "src/pset/map/global.rs",
             "src/pset/raw.rs"]
    # every file of the crate is scanned so that a NEW derived item elsewhere is noticed
    import os as _os
    allfiles = []
    for root, _d, fs in _os.walk(_os.path.join(REPO, "src")):
        for f in fs:
            if f.endswith(".rs"):
                allfiles.append(_os.path.relpath(_os.path.join(root, f), REPO))
    allfiles.sort()

    # last path segment of a Rust type -> canonical name used by the model (aliases resolved here)
    ALIAS = {
        "UntweakedPublicKey": "XOnlyPublicKey",      # schnorr.rs: pub type UntweakedPublicKey = XOnlyPublicKey
        "ProprietaryType": "u8", "Subtype": "u8",    # raw.rs: ProprietaryKey<Subtype = ProprietaryType>, ProprietaryType = u8
        "KeySource": "(Fingerprint, DerivationPath)",  # bitcoin::bip32::KeySource
    }
    PRIM = {"u8", "u16", "u32", "u64", "usize", "bool"}
    # types whose serde impl is not derived in /repo: hand-written in /repo or third-party (the model's leaf codecs)
    LEAVES = {"Transaction", "TxOut", "Script", "Txid", "BlockHash", "AssetId", "TapLeafHash", "TapNodeHash",
              "AssetBlindingFactor", "ValueBlindingFactor", "PsbtSighashType", "SchnorrSighashType",
              "PedersenCommitment", "Generator", "Tweak", "RangeProof", "SurjectionProof", "Parity",
              "PublicKey", "XOnlyPublicKey", "Signature", "Fingerprint", "DerivationPath", "Xpub",
              "ripemd160::Hash", "sha256::Hash", "hash160::Hash", "sha256d::Hash", "bitcoin::Transaction"}
    HOOKS = {"crate::serde_utils::btreemap_byte_values": "btreemap_byte_values",
             "crate::serde_utils::btreemap_as_seq": "btreemap_as_seq",
             "crate::serde_utils::btreemap_as_seq_byte_values": "btreemap_as_seq_byte_values",
             "crate::serde_utils::hex_bytes": "hex_bytes",
             "serde_fallback_locktime": "serde_fallback_locktime",
             "serde_parity": "serde_parity"}

    def match_close(s, i, op, cl):
        d = 0
        while i < len(s):
            if s[i] == op: d += 1
            elif s[i] == cl:
                d -= 1
                if d == 0: return i
            i += 1
        die("c20_derive: unbalanced %s%s" % (op, cl))

    def split_top(s, sep=","):
        out, d, cur = [], 0, ""
        for ch in s:
            if ch in "<([{": d += 1
            elif ch in ">)]}": d -= 1
            if ch == sep and d == 0:
                out.append(cur); cur = ""
            else:
                cur += ch
        if cur.strip(): out.append(cur)
        return [x.strip() for x in out if x.strip()]

    def ty(t):
        t = t.strip()
        if t.startswith("("):
            parts = split_top(t[1:-1])
            if len(parts) != 2: die("c20_derive: only pairs are supported: %r" % t)
            return "(.pair %s %s)" % (ty(parts[0]), ty(parts[1]))
        m = re.match(r"^\[\s*u8\s*;\s*(\d+)\s*\]$", t)
        if m: return "(.arr %s)" % m.group(1)
        m = re.match(r"^([A-Za-z0-9_:]+)\s*<(.*)>$", t, re.S)
        if m:
            head, args = m.group(1).split("::")[-1], split_top(m.group(2))
            if head == "Option" and len(args) == 1: return "(.opt %s)" % ty(args[0])
            if head == "Vec" and len(args) == 1: return "(.vec %s)" % ty(args[0])
            if head == "Box" and len(args) == 1: return ty(args[0])      # serde: Box<T> is transparent
            if head == "BTreeMap" and len(args) == 2: return "(.map %s %s)" % (ty(args[0]), ty(args[1]))
            die("c20_derive: unsupported generic type %r" % t)
        segs = t.split("::")
        last = segs[-1]
        if last in ALIAS: return ty(ALIAS[last])
        if last in PRIM: return "." + last
        if last == "Hash" and len(segs) >= 2: last = segs[-2] + "::Hash"
        if last == "Transaction" and "bitcoin" in segs: last = "bitcoin::Transaction"
        if last == "PublicKey" and "secp256k1_zkp" in segs: die("c20_derive: secp PublicKey field is not expected in a derived type")
        return '(.named "%s")' % last

    items = {}      # name -> (kind, payload, file)
    order = []
    for rel in allfiles:
        s = src(rel)
        for m in re.finditer(r"derive\s*\(([^)]*)\)", s):
            if "Serialize" not in m.group(1):
                continue
            if rel == "src/serde_utils.rs":
                continue    # OwnedPair / BorrowedPair: private helpers of btreemap_as_seq_byte_values (modelled with it)
            if rel not in FILES:
                die("c20_derive: a derived serde impl appeared in %s (not covered by the model's file list)" % rel)
            m2 = re.compile(r"pub\s+(struct|enum)\s+([A-Za-z0-9_]+)").search(s, m.end())
            if not m2: die("c20_derive: no item after derive in %s" % rel)
            kind, name = m2.group(1), m2.group(2)
            if name in items:
                continue    # `derive(Serialize, Deserialize)` on two lines of the same item
            j = m2.end()
            # skip generics / where clause up to the body
            while s[j] not in "{(;":
                j += 1
            if s[j] == "(":
                k = match_close(s, j, "(", ")")
                inner = split_top(s[j + 1:k])
                if kind != "struct" or len(inner) != 1: die("c20_derive: tuple struct %s with %d fields" % (name, len(inner)))
                t = re.sub(r"^pub(\([a-z]+\))?\s+", "", inner[0])
                items[name] = ("newtype", ty(t), rel)
            elif s[j] == "{":
                k = match_close(s, j, "{", "}")
                body = s[j + 1:k]
                if kind == "struct":
                    fields = []
                    for chunk in split_top(body):
                        attrs = []
                        while chunk.startswith("#"):
                            b = chunk.index("[")
                            e = match_close(chunk, b, "[", "]")
                            attrs.append(chunk[b + 1:e])
                            chunk = chunk[e + 1:].strip()
                        fm = re.match(r"^(?:pub(?:\([a-z]+\))?\s+)?([a-z_0-9]+)\s*:\s*(.*)$", chunk, re.S)
                        if not fm: die("c20_derive: cannot parse field of %s: %r" % (name, chunk[:80]))
                        fname, ftype = fm.group(1), " ".join(fm.group(2).split())
                        key, hook, flatten = fname, "", False
                        for a in attrs:
                            sm = re.search(r"serde\s*\((.*)\)\s*\)?\s*$", a, re.S)
                            if "serde" not in a:
                                continue
                            if not sm: die("c20_derive: cannot parse attribute %r of %s.%s" % (a, name, fname))
                            inner = sm.group(1).strip()
                            if inner.endswith(")") and inner.count("(") < inner.count(")"):
                                inner = inner[:-1].strip()
                            for part in split_top(inner):
                                pm = re.match(r'^(rename|with)\s*=\s*"([^"]*)"$', part)
                                if pm and pm.group(1) == "rename": key = pm.group(2)
                                elif pm and pm.group(1) == "with":
                                    if pm.group(2) not in HOOKS: die("c20_derive: unknown serde(with) hook %r on %s.%s" % (pm.group(2), name, fname))
                                    hook = HOOKS[pm.group(2)]
                                elif part == "flatten": flatten = True
                                else: die("c20_derive: unsupported serde attribute %r on %s.%s" % (part, name, fname))
                        fields.append((fname, key, ftype, hook, flatten))
                    items[name] = ("struct", fields, rel)
                else:
                    variants = []
                    for chunk in split_top(body):
                        vm = re.match(r"^([A-Za-z0-9_]+)\s*\((.*)\)$", chunk, re.S)
                        if not vm or len(split_top(vm.group(2))) != 1:
                            die("c20_derive: enum %s: only newtype variants are supported: %r" % (name, chunk[:60]))
                        variants.append((vm.group(1), ty(vm.group(2))))
                    items[name] = ("enum", variants, rel)
            else:
                die("c20_derive: unit struct %s" % name)
            order.append(name)

    expected = ["TxOutSecrets", "SchnorrSig", "TaprootBuilder", "NodeInfo", "LeafInfo", "TaprootMerkleBranch", "ControlBlock",
                "LeafVersion", "Sequence", "LockTime", "Height", "Time", "PartiallySignedTransaction", "Output", "TapTree",
                "Input", "TxData", "Global", "Key", "Pair", "ProprietaryKey"]
    if sorted(order) != sorted(expected):
        die("c20_derive: the set of derived serde items changed: %r" % (sorted(set(order) ^ set(expected)),))

    def lean_str(x):
        return '"' + x.replace("\\", "\\\\").replace('"', '\\"') + '"'

    def field_lines(name, fields, depth=0):
        out, flat = [], False
        for (fname, key, ftype, hook, flatten) in fields:
            if flatten:
                if hook or key != fname or depth > 0: die("c20_derive: flatten combined with other attributes on %s.%s" % (name, fname))
                inner = ftype.split("::")[-1]
                if inner not in items or items[inner][0] != "struct": die("c20_derive: flattened field %s.%s is not a derived struct" % (name, fname))
                sub, _ = field_lines(inner, items[inner][1], depth + 1)
                out += sub
                flat = True
            else:
                out.append("⟨%s, %s, %s⟩" % (lean_str(key), ty(ftype), lean_str(hook)))
        return out, flat

    emit("/-- C20: Rust types as serde_derive sees them (generated; `named` = another derived item of the table, or a")
    emit("    hand-written / third-party impl that the model takes as a leaf codec) -/")
    emit("inductive SerdeTy where")
    emit("  | u8 | u16 | u32 | u64 | usize | bool")
    emit("  | opt (t : SerdeTy) | vec (t : SerdeTy) | arr (n : Nat) | map (k v : SerdeTy) | pair (a b : SerdeTy)")
    emit("  | named (n : String)")
    emit("  deriving Repr, DecidableEq, Inhabited")
    emit("/-- a field: the key it is (de)serialized under (`rename` applied), its type, its `serde(with = …)` hook (\"\" = none) -/")
    emit("structure SerdeField where")
    emit("  key : String")
    emit("  ty : SerdeTy")
    emit("  hook : String")
    emit("  deriving Repr, DecidableEq, Inhabited")
    emit("/-- `flat`: the struct has a `#[serde(flatten)]` field (inlined here): written as a map, read by `visit_map` only -/")
    emit("inductive SerdeShape where")
    emit("  | struct (fields : List SerdeField) (flat : Bool)")
    emit("  | newtype (t : SerdeTy)")
    emit("  | enum (variants : List (String × SerdeTy))")
    emit("  deriving Repr, DecidableEq, Inhabited")
    emit("/-- C20: every `#[derive(Serialize, Deserialize)]` item of /repo, in source order -/")
    emit("def serdeDerive : List (String × SerdeShape) := [")
    rows = []
    names_used = set()
    for name in order:
        kind, payload, rel = items[name]
        if kind == "struct":
            fl, flat = field_lines(name, payload)
            rows.append("  (%s, .struct [%s] %s)" % (lean_str(name), ", ".join(fl), "true" if flat else "false"))
            names_used.update(re.findall(r'\.named "([^"]+)"', " ".join(fl)))
        elif kind == "newtype":
            rows.append("  (%s, .newtype %s)" % (lean_str(name), payload))
            names_used.update(re.findall(r'\.named "([^"]+)"', payload))
        else:
            rows.append("  (%s, .enum [%s])" % (lean_str(name), ", ".join("(%s, %s)" % (lean_str(v), t) for v, t in payload)))
            names_used.update(re.findall(r'\.named "([^"]+)"', " ".join(t for _, t in payload)))
    emit(",\n".join(rows))
    emit("]")
    leaves = sorted(n for n in names_used if n not in items)
    for n in leaves:
        if n not in LEAVES: die("c20_derive: type %r used by a derived item is neither derived nor a known leaf" % n)
    emit("/-- C20: the type names used by derived items that are NOT derived in /repo (leaf codecs of the model) -/")
    emit("def serdeDeriveLeaves : List String := [%s]" % ", ".join(lean_str(n) for n in leaves))
    emit()

_c20_derive()
