# exec'ed by tools/extract_consts.py with helpers src, num, one, emit, die, re.
# Each property appends its own block; blocks must `die` when an item is missing.

# ---------------------------------------------------------------- C15: taproot (src/taproot.rs)
def _c15_taproot():
    t = src("src/taproot.rs")
    emit("namespace Taproot")
    for struct, lname in (("TapLeafTag", "leafTag"), ("TapBranchTag", "branchTag"), ("TapTweakTag", "tweakTag")):
        tag = one(r"pub\s+struct\s+%s\s*=\s*hash_str\(\s*\"([^\"]*)\"\s*\)" % struct, t, "sha256t_tag " + struct)
        emit('def %s : String := "%s"' % (lname, tag))
    # the hash newtypes must still be bound to these tags
    for nt, tg in (("TapLeafHash", "TapLeafTag"), ("TapNodeHash", "TapBranchTag"), ("TapTweakHash", "TapTweakTag")):
        one(r"pub\s+struct\s+%s\s*\(\s*sha256t::Hash::<%s>\s*\)" % (nt, tg), t, "hash_newtype %s over %s" % (nt, tg))
    vals = {}
    for cname, lname, ty in (("TAPROOT_CONTROL_MAX_NODE_COUNT", "controlMaxNodeCount", "usize"),
                             ("TAPROOT_CONTROL_NODE_SIZE", "controlNodeSize", "usize"),
                             ("TAPROOT_LEAF_MASK", "leafMask", "u8"),
                             ("TAPROOT_LEAF_TAPSCRIPT", "leafTapscript", "u8"),
                             ("TAPROOT_CONTROL_BASE_SIZE", "controlBaseSize", "usize")):
        v = num(one(r"pub\s+const\s+%s\s*:\s*%s\s*=\s*([^;]+);" % (cname, ty), t, cname))
        vals[cname] = v
        emit("def %s : Nat := %d" % (lname, v))
    # the annex tag literal excluded by LeafVersion::from_u8
    body = one(r"pub\s+fn\s+from_u8\s*\(\s*ver\s*:\s*u8\s*\)\s*->\s*Result<Self,\s*TaprootError>\s*\{(.*?)\n    \}", t, "LeafVersion::from_u8")
    annex = num(one(r"ver\s*&\s*TAPROOT_LEAF_MASK\s*==\s*ver\s*&&\s*ver\s*!=\s*(0x[0-9a-fA-F]+|\d+)", body, "LeafVersion::from_u8 condition"))
    emit("def annexTag : Nat := %d" % annex)
    # default leaf version is the tapscript constant
    one(r"impl\s+Default\s+for\s+LeafVersion\s*\{\s*fn\s+default\(\)\s*->\s*Self\s*\{\s*LeafVersion\(TAPROOT_LEAF_TAPSCRIPT\)", t, "LeafVersion::default")
    emit("end Taproot")
    emit()
_c15_taproot()
