# Executed by tools/extract_consts.py (helpers: src, num, one, emit, die, re).
# Blocks are independent; each property appends its own.

# ---------------------------------------------------------------- C11: issuance constants (src/issuance.rs)
_iss = src("src/issuance.rs")
def _c11_arr32(name):
    body = one(r"const\s+%s\s*:\s*\[u8;\s*32\]\s*=\s*\[(.*?)\]\s*;" % name, _iss, "issuance.rs " + name)
    v = [num(x) for x in body.split(",") if x.strip()]
    if len(v) != 32 or any(x < 0 or x > 255 for x in v):
        die("issuance.rs %s: expected 32 bytes" % name)
    return v
_c11 = {n: _c11_arr32(n) for n in ("ZERO32", "ONE32", "TWO32")}
# from_entropy: second leaf
_fe = one(r"pub\s+fn\s+from_entropy\s*\(.*?\)\s*->\s*AssetId\s*\{(.*?)\n    \}", _iss, "AssetId::from_entropy")
_fe_leaf = one(r"fast_merkle_root\(\s*&\[\s*entropy\.to_byte_array\(\)\s*,\s*(\w+)\s*\]\s*\)", _fe, "from_entropy leaves")
# reissuance_token_from_entropy: which constant for which flag
_rt = one(r"pub\s+fn\s+reissuance_token_from_entropy\s*\(.*?\)\s*->\s*AssetId\s*\{(.*?)\n    \}", _iss, "AssetId::reissuance_token_from_entropy")
_rt_false = one(r"\bfalse\s*=>\s*(\w+)\s*,", _rt, "token leaf for confidential = false")
_rt_true = one(r"\btrue\s*=>\s*(\w+)\s*,", _rt, "token leaf for confidential = true")
one(r"fast_merkle_root\(\s*&\[\s*entropy\.to_byte_array\(\)\s*,\s*second\s*\]\s*\)", _rt, "reissuance_token_from_entropy leaves")
for _n in (_fe_leaf, _rt_false, _rt_true):
    if _n not in _c11:
        die("issuance.rs: unknown leaf constant %s" % _n)
def _c11_list(v):
    return "[" + ", ".join(str(x) for x in v) + "]"
emit("/-- second fast-merkle leaf of `AssetId::from_entropy` (src/issuance.rs: %s) -/" % _fe_leaf)
emit("def issuanceAssetLeaf : List Nat := %s" % _c11_list(_c11[_fe_leaf]))
emit("/-- second leaf of `reissuance_token_from_entropy` for an explicit amount (%s) -/" % _rt_false)
emit("def issuanceTokenLeafExplicit : List Nat := %s" % _c11_list(_c11[_rt_false]))
emit("/-- second leaf of `reissuance_token_from_entropy` for a confidential amount (%s) -/" % _rt_true)
emit("def issuanceTokenLeafConfidential : List Nat := %s" % _c11_list(_c11[_rt_true]))
emit()
